import HypatiaModel.Spec.CqeSpec
import HypatiaModel.CqeExec
import Driver.Sess
/-!
Session `cqe` (C10).  Strings travel as hex code points joined by `.` (empty string = empty token
tail, e.g. `s:`).

constants   none | true | false | ell | i:<int> | f:<float> | c:<float>,<float> | s:<hex> | b:<hex>
            float = <+|-><m>p<e>  (m·2^e, m odd or 0)  |  <+|->inf
objects     <const> | n:<hex> (Name) | N:<hex> (ast.Name) | <function> | L <n> … | T <n> … |
            cmp <c> <idx> <obj> | range <neg> <idx> <obj> <obj> <sx> <ex> | and <n> … | or <n> … | not <obj>
spellings   value:  C <const> | - <v> | + <v> | D <k> <hex>{k} | L <n> … | T <n> …
            query:  cmp <c> <k> <hex>{k} <v> | range <k> <hex>{k} <v> <v> <sx> <ex> |
                    kw and|or <n> … | amp and|or <q> <q> | not <q>
ASTs        B and|or <n> … | 1 not|usub|uadd|invert <a> | 2 bitand|bitor|x:<Type> <a> <a> |
            M <n> <left> (<op> <a>){n} | K <n> <func> <a>{n} | N <hex> | A <hex> <a> | C <const> |
            L <n> … | U <n> … | O <Type> <n> …

  cfg index <hex>                declares a catalog entry (also in the middle of a session: `catalog[name] = index`)
  cfg delindex <hex>             `del catalog[name]`
  parse <k> (E <ast> | S <Type>){k}
                                 ->  `ok <obj>` | `err <Class>`   ##   `ok <obj>` | `reject`
  synerr <Class>                 ->  `err <Class> ## reject`      (ast.parse itself raised)
  toast <spelling>               ->  the AST of the spelling
  tree <spelling>                ->  `ok <obj>` (the hand-built tree) | `none`
  qeq <obj> <obj>                ->  `true|false`  [## structEq, when both are Not-free trees]
  subst <names> <obj>            ->  `ok <obj>` | `err <Class>`   [## V.subst, for a value]
  rt <spelling>                  ->  `same eq=<0|1>` (walk of its AST against the hand-built tree, and `==`
                                     of the two) | `differ …` | `err <Class>` | `none`
  exec <names> <k> (E <ast> | S <Type>){k}
                                 ->  `err <Class>` | per leaf of the parsed query `ok <leaf>`/`err <Class>`, joined by ` ; `
                                     ## `reject` when the parsed object is not a query tree over values
  resolve <names> <k> (…){k}     ->  `ok <obj>`: the parsed query with every leaf resolved | `err <Class>`
  rerun spy|real <r> <names>{r} <k> (E <ast> | S <Type>){k}
                                 ->  the SAME parsed object executed r times: per execution the leaves (spy) or the
                                     resolved tree (real), joined by ` | `, then ` || unchanged` (the object after the
                                     last execution renders as before the first)
  reruntree spy|real <r> <names>{r} <obj>      the same for a given object (the optimised tree)
  names = nonames | <k> (<hex> <obj>){k}
-/
namespace Driver.CqeS
open Hyp.Cqe
open Hyp.Query (Cmp)

def hexDigit? (c : Char) : Option Nat :=
  if '0' ≤ c ∧ c ≤ '9' then some (c.toNat - '0'.toNat)
  else if 'a' ≤ c ∧ c ≤ 'f' then some (c.toNat - 'a'.toNat + 10)
  else none

def hex? (s : String) : Option Nat :=
  if s.isEmpty then none
  else s.toList.foldlM (fun acc c => (hexDigit? c).map (fun d => acc * 16 + d)) 0

def nats? (t : String) : Option (List Nat) :=
  if t.isEmpty then some [] else (t.splitOn ".").mapM hex?

def str? (t : String) : Option String := (nats? t).map (fun l => String.ofList (l.map Char.ofNat))

def hexOf (n : Nat) : String := String.ofList (Nat.toDigits 16 n)
def showNatsHex (l : List Nat) : String := ".".intercalate (l.map hexOf)
def showStr (s : String) : String := showNatsHex (s.toList.map Char.toNat)

def cmpOfString : String → Option Cmp
  | "eq" => some .eq | "noteq" => some .noteq | "gt" => some .gt | "ge" => some .ge
  | "lt" => some .lt | "le" => some .le | "any" => some .any | "notany" => some .notany
  | "all" => some .all | "notall" => some .notall | "contains" => some .contains
  | "notcontains" => some .notcontains | _ => none

def cmpToString : Cmp → String
  | .eq => "eq" | .noteq => "noteq" | .gt => "gt" | .ge => "ge" | .lt => "lt" | .le => "le"
  | .any => "any" | .notany => "notany" | .all => "all" | .notall => "notall"
  | .contains => "contains" | .notcontains => "notcontains"

def b01 (b : Bool) : String := if b then "1" else "0"

/-! ### constants -/

def float? (t : String) : Option PyFloat :=
  match t.toList with
  | sgn :: rest =>
    if sgn ≠ '+' ∧ sgn ≠ '-' then none else
    let neg := sgn == '-'
    let body := String.ofList rest
    if body = "inf" then some ⟨neg, true, 0, 0⟩ else
    match body.splitOn "p" with
    | [m, e] => do
      let m ← m.toNat?
      let e ← e.toInt?
      pure ⟨neg, false, m, e⟩
    | _ => none
  | [] => none

def showFloat (f : PyFloat) : String :=
  (if f.neg then "-" else "+") ++ (if f.inf then "inf" else s!"{f.m}p{f.e}")

def const? (t : String) : Option Const :=
  if t = "none" then some .none
  else if t = "true" then some (.bool true)
  else if t = "false" then some (.bool false)
  else if t = "ell" then some .ellipsis
  else if t.startsWith "i:" then (t.drop 2).toString.toInt?.map .int
  else if t.startsWith "f:" then (float? (t.drop 2).toString).map .float
  else if t.startsWith "c:" then
    match ((t.drop 2).toString).splitOn "," with
    | [a, b] => do
      let a ← float? a
      let b ← float? b
      pure (.complex a b)
    | _ => none
  else if t.startsWith "s:" then (str? (t.drop 2).toString).map .str
  else if t.startsWith "b:" then (nats? (t.drop 2).toString).map .bytes
  else none

def showConst : Const → String
  | .none => "none"
  | .bool true => "true"
  | .bool false => "false"
  | .ellipsis => "ell"
  | .int i => s!"i:{i}"
  | .float f => "f:" ++ showFloat f
  | .complex a b => "c:" ++ showFloat a ++ "," ++ showFloat b
  | .str s => "s:" ++ showStr s
  | .bytes b => "b:" ++ showNatsHex b

/-! ### objects -/

mutual
def showW : W → String
  | .const c => showConst c
  | .nameObj n => "n:" ++ showStr n
  | .astName n => "N:" ++ showStr n
  | .callFactory _ _ => "<function>"
  | .list l => s!"L {l.length}" ++ showWs l
  | .tuple l => s!"T {l.length}" ++ showWs l
  | .cmp c i v => s!"cmp {cmpToString c} {showStr i} " ++ showW v
  | .range n i s e sx ex => s!"range {b01 n} {showStr i} " ++ showW s ++ " " ++ showW e ++ s!" {b01 sx} {b01 ex}"
  | .and l => s!"and {l.length}" ++ showWs l
  | .or l => s!"or {l.length}" ++ showWs l
  | .not q => "not " ++ showW q
def showWs : List W → String
  | [] => ""
  | w :: ws => " " ++ showW w ++ showWs ws
end

mutual
def pW : Nat → List String → Option (W × List String)
  | 0, _ => none
  | fuel + 1, toks =>
    match toks with
    | "L" :: n :: rest => do
      let n ← n.toNat?
      let (l, r) ← pWs fuel n rest
      pure (.list l, r)
    | "T" :: n :: rest => do
      let n ← n.toNat?
      let (l, r) ← pWs fuel n rest
      pure (.tuple l, r)
    | "cmp" :: c :: i :: rest => do
      let c ← cmpOfString c
      let i ← str? i
      let (v, r) ← pW fuel rest
      pure (.cmp c i v, r)
    | "range" :: n :: i :: rest => do
      let n ← boolTok? n
      let i ← str? i
      let (s, r) ← pW fuel rest
      let (e, r) ← pW fuel r
      match r with
      | sx :: ex :: r => do
        let sx ← boolTok? sx
        let ex ← boolTok? ex
        pure (.range n i s e sx ex, r)
      | _ => none
    | "and" :: n :: rest => do
      let n ← n.toNat?
      let (l, r) ← pWs fuel n rest
      pure (.and l, r)
    | "or" :: n :: rest => do
      let n ← n.toNat?
      let (l, r) ← pWs fuel n rest
      pure (.or l, r)
    | "not" :: rest => do
      let (q, r) ← pW fuel rest
      pure (.not q, r)
    | t :: rest =>
      if t.startsWith "n:" then (str? (t.drop 2).toString).map (fun s => (.nameObj s, rest))
      else if t.startsWith "N:" then (str? (t.drop 2).toString).map (fun s => (.astName s, rest))
      else (const? t).map (fun c => (.const c, rest))
    | [] => none
def pWs : Nat → Nat → List String → Option (List W × List String)
  | 0, _, _ => none
  | _ + 1, 0, toks => some ([], toks)
  | fuel + 1, n + 1, toks => do
    let (w, r) ← pW fuel toks
    let (ws, r') ← pWs fuel n r
    pure (w :: ws, r')
end

/-! ### spellings -/

def takeStrs : Nat → List String → Option (List String × List String)
  | 0, ts => some ([], ts)
  | n + 1, t :: ts => do
    let s ← str? t
    let (ss, r) ← takeStrs n ts
    pure (s :: ss, r)
  | _, [] => none

def pDotted (toks : List String) : Option (Dotted × List String) :=
  match toks with
  | k :: rest => do
    let k ← k.toNat?
    let (ss, r) ← takeStrs k rest
    match ss with
    | h :: t => pure (⟨h, t⟩, r)
    | [] => none
  | [] => none

mutual
def pSV : Nat → List String → Option (SV × List String)
  | 0, _ => none
  | fuel + 1, toks =>
    match toks with
    | "C" :: c :: rest => (const? c).map (fun c => (.lit c, rest))
    | "-" :: rest => do
      let (v, r) ← pSV fuel rest
      pure (.neg v, r)
    | "+" :: rest => do
      let (v, r) ← pSV fuel rest
      pure (.pos v, r)
    | "D" :: rest => do
      let (d, r) ← pDotted rest
      pure (.name d, r)
    | "L" :: n :: rest => do
      let n ← n.toNat?
      let (l, r) ← pSVs fuel n rest
      pure (.list l, r)
    | "T" :: n :: rest => do
      let n ← n.toNat?
      let (l, r) ← pSVs fuel n rest
      pure (.tuple l, r)
    | _ => none
def pSVs : Nat → Nat → List String → Option (List SV × List String)
  | 0, _, _ => none
  | _ + 1, 0, toks => some ([], toks)
  | fuel + 1, n + 1, toks => do
    let (v, r) ← pSV fuel toks
    let (vs, r') ← pSVs fuel n r
    pure (v :: vs, r')
end

def boolK? : String → Option BoolK
  | "and" => some .and
  | "or" => some .or
  | _ => none

mutual
def pSx : Nat → List String → Option (Sx × List String)
  | 0, _ => none
  | fuel + 1, toks =>
    match toks with
    | "cmp" :: c :: rest => do
      let c ← cmpOfString c
      let (d, r) ← pDotted rest
      let (v, r) ← pSV fuel r
      pure (.cmp c d v, r)
    | "range" :: rest => do
      let (d, r) ← pDotted rest
      let (s, r) ← pSV fuel r
      let (e, r) ← pSV fuel r
      match r with
      | sx :: ex :: r => do
        let sx ← boolTok? sx
        let ex ← boolTok? ex
        pure (.range d s e sx ex, r)
      | _ => none
    | "kw" :: k :: n :: rest => do
      let k ← boolK? k
      let n ← n.toNat?
      let (l, r) ← pSxs fuel n rest
      pure (.kw k l, r)
    | "amp" :: k :: rest => do
      let k ← boolK? k
      let (a, r) ← pSx fuel rest
      let (b, r) ← pSx fuel r
      pure (.amp k a b, r)
    | "not" :: rest => do
      let (x, r) ← pSx fuel rest
      pure (.not x, r)
    | _ => none
def pSxs : Nat → Nat → List String → Option (List Sx × List String)
  | 0, _, _ => none
  | _ + 1, 0, toks => some ([], toks)
  | fuel + 1, n + 1, toks => do
    let (x, r) ← pSx fuel toks
    let (xs, r') ← pSxs fuel n r
    pure (x :: xs, r')
end

/-! ### ASTs -/

def unOp? : String → Option UnOp
  | "not" => some .not | "usub" => some .usub | "uadd" => some .uadd | "invert" => some .invert
  | _ => none

def showUnOp : UnOp → String
  | .not => "not" | .usub => "usub" | .uadd => "uadd" | .invert => "invert"

def binOp? (t : String) : Option BinOp :=
  if t = "bitand" then some .bitAnd
  else if t = "bitor" then some .bitOr
  else if t.startsWith "x:" then some (.other (t.drop 2).toString)
  else none

def showBinOp : BinOp → String
  | .bitAnd => "bitand" | .bitOr => "bitor" | .other t => "x:" ++ t

def cmpOp? : String → Option CmpOp
  | "eq" => some .eq | "noteq" => some .notEq | "lt" => some .lt | "lte" => some .ltE
  | "gt" => some .gt | "gte" => some .gtE | "is" => some .isOp | "isnot" => some .isNot
  | "in" => some .inOp | "notin" => some .notIn | _ => none

def showCmpOp : CmpOp → String
  | .eq => "eq" | .notEq => "noteq" | .lt => "lt" | .ltE => "lte" | .gt => "gt" | .gtE => "gte"
  | .isOp => "is" | .isNot => "isnot" | .inOp => "in" | .notIn => "notin"

def showBoolK : BoolK → String
  | .and => "and" | .or => "or"

mutual
def pA : Nat → List String → Option (PyAst × List String)
  | 0, _ => none
  | fuel + 1, toks =>
    match toks with
    | "B" :: k :: n :: rest => do
      let k ← boolK? k
      let n ← n.toNat?
      let (l, r) ← pAs fuel n rest
      pure (.boolOp k l, r)
    | "1" :: op :: rest => do
      let op ← unOp? op
      let (a, r) ← pA fuel rest
      pure (.unaryOp op a, r)
    | "2" :: op :: rest => do
      let op ← binOp? op
      let (a, r) ← pA fuel rest
      let (b, r) ← pA fuel r
      pure (.binOp a op b, r)
    | "M" :: n :: rest => do
      let n ← n.toNat?
      let (l, r) ← pA fuel rest
      let (ps, r) ← pPairs fuel n r
      pure (.compare l ps, r)
    | "K" :: n :: rest => do
      let n ← n.toNat?
      let (f, r) ← pA fuel rest
      let (l, r) ← pAs fuel n r
      pure (.call f l, r)
    | "N" :: s :: rest => (str? s).map (fun s => (.name s, rest))
    | "A" :: s :: rest => do
      let s ← str? s
      let (a, r) ← pA fuel rest
      pure (.attribute a s, r)
    | "C" :: c :: rest => (const? c).map (fun c => (.constant c, rest))
    | "L" :: n :: rest => do
      let n ← n.toNat?
      let (l, r) ← pAs fuel n rest
      pure (.list l, r)
    | "U" :: n :: rest => do
      let n ← n.toNat?
      let (l, r) ← pAs fuel n rest
      pure (.tuple l, r)
    | "O" :: ty :: n :: rest => do
      let n ← n.toNat?
      let (l, r) ← pAs fuel n rest
      pure (.other ty l, r)
    | _ => none
def pAs : Nat → Nat → List String → Option (List PyAst × List String)
  | 0, _, _ => none
  | _ + 1, 0, toks => some ([], toks)
  | fuel + 1, n + 1, toks => do
    let (a, r) ← pA fuel toks
    let (as, r') ← pAs fuel n r
    pure (a :: as, r')
def pPairs : Nat → Nat → List String → Option (List (CmpOp × PyAst) × List String)
  | 0, _, _ => none
  | _ + 1, 0, toks => some ([], toks)
  | fuel + 1, n + 1, toks =>
    match toks with
    | op :: rest => do
      let op ← cmpOp? op
      let (a, r) ← pA fuel rest
      let (ps, r') ← pPairs fuel n r
      pure ((op, a) :: ps, r')
    | [] => none
end

mutual
def showA : PyAst → String
  | .boolOp k l => s!"B {showBoolK k} {l.length}" ++ showAs l
  | .unaryOp op a => s!"1 {showUnOp op} " ++ showA a
  | .binOp a op b => s!"2 {showBinOp op} " ++ showA a ++ " " ++ showA b
  | .compare l ps => s!"M {ps.length} " ++ showA l ++ showPairs ps
  | .call f l => s!"K {l.length} " ++ showA f ++ showAs l
  | .name s => "N " ++ showStr s
  | .attribute a s => "A " ++ showStr s ++ " " ++ showA a
  | .constant c => "C " ++ showConst c
  | .list l => s!"L {l.length}" ++ showAs l
  | .tuple l => s!"U {l.length}" ++ showAs l
  | .other ty l => s!"O {ty} {l.length}" ++ showAs l
def showAs : List PyAst → String
  | [] => ""
  | a :: as => " " ++ showA a ++ showAs as
def showPairs : List (CmpOp × PyAst) → String
  | [] => ""
  | (op, a) :: ps => " " ++ showCmpOp op ++ " " ++ showA a ++ showPairs ps
end

def pStmts : Nat → Nat → List String → Option (List Stmt × List String)
  | 0, _, _ => none
  | _ + 1, 0, toks => some ([], toks)
  | fuel + 1, n + 1, toks =>
    match toks with
    | "E" :: rest => do
      let (a, r) ← pA fuel rest
      let (ss, r') ← pStmts fuel n r
      pure (.expr a :: ss, r')
    | "S" :: ty :: rest => do
      let (ss, r') ← pStmts fuel n rest
      pure (.other ty :: ss, r')
    | _ => none

def pModule (toks : List String) : Option (List Stmt × List String) :=
  match toks with
  | k :: rest => do
    let k ← k.toNat?
    pStmts (toks.length + 1) k rest
  | [] => none

def pNames : Nat → List String → Option (Names × List String)
  | _, "nonames" :: rest => some (none, rest)
  | fuel, k :: rest => do
    let k ← k.toNat?
    let rec go : Nat → List String → Option (List (String × W) × List String)
      | 0, ts => some ([], ts)
      | n + 1, name :: ts => do
        let name ← str? name
        let (w, r) ← pW fuel ts
        let (m, r') ← go n r
        pure ((name, w) :: m, r')
      | _, [] => none
    let (m, r) ← go k rest
    pure (some m, r)
  | _, [] => none

def pNamesK (fuel : Nat) : Nat → List String → Option (List Names × List String)
  | 0, ts => some ([], ts)
  | n + 1, ts => do
    let (x, r) ← pNames fuel ts
    let (xs, r') ← pNamesK fuel n r
    pure (x :: xs, r')

/-! ### session -/

def showErr : Err → String
  | .valueError => "err ValueError"
  | .attributeError => "err AttributeError"
  | .typeError => "err TypeError"
  | .keyError => "err KeyError"
  | .indexError => "err IndexError"
  | .nameError => "err NameError"

def showRes : Except Err W → String
  | .ok w => "ok " ++ showW w
  | .error e => showErr e

structure St where
  cat : List String := []

/-- the parsed object with every leaf resolved: `resolveTree` of `HypatiaModel/CqeExec.lean`, the definition
`c10_resolution_is_substitution` / `c10_parse_substitute_execute` are about -/
def resolveAll (names : Names) (w : W) : Except Err W := resolveTree names w

/-- `rerun`: successive executions of one object (`execSeq`) -/
def rerunOut (spy : Bool) (w : W) (ns : List Names) : String :=
  if !w.isQuery then "notquery ## reject" else
  let (w', rounds) := execSeq w ns
  let shown := if spy then rounds.map (fun r => " ; ".intercalate (r.map showRes))
               else ns.map (fun n => showRes (resolveAll n w))
  " | ".intercalate shown ++ " || " ++ (if showW w' == showW w then "unchanged" else "CHANGED " ++ showW w') ++
    (if (unembed w).isNone then " ## reject" else "")

def sigma (names : Names) (n : String) : Option W :=
  match names with
  | some m => m.lookup n
  | none => none

def step (st : St) (toks : List String) : St × String :=
  let fuel := toks.length + 1
  match toks with
  | ["cfg", "index", name] =>
    match str? name with
    | some s => ({ st with cat := s :: st.cat }, "ok")
    | none => (st, "bad-op")
  | ["cfg", "delindex", name] =>
    -- `del catalog[name]` in the middle of a session (the CatalogQuery stream of props/c10.py)
    match str? name with
    | some s => ({ st with cat := st.cat.filter (fun n => n != s) }, "ok")
    | none => (st, "bad-op")
  | "cfg" :: _ => (st, "ok")
  | "parse" :: rest =>
    match pModule rest with
    | some (body, []) =>
      let m := parse st.cat body
      let s := match body with
        | [.expr a] => (specParse st.cat a).map embed
        | _ => none
      (st, showRes m ++ " ## " ++ (match s with | some w => "ok " ++ showW w | none => "reject"))
    | _ => (st, "bad-op")
  | ["synerr", cls] => (st, "err " ++ cls ++ " ## reject")
  | "toast" :: rest =>
    match pSx fuel rest with
    | some (s, []) => (st, showA s.toAst)
    | _ => (st, "bad-op")
  | "tree" :: rest =>
    match pSx fuel rest with
    | some (s, []) => (st, match s.tree with | some q => "ok " ++ showW (embed q) | none => "none")
    | _ => (st, "bad-op")
  | "qeq" :: rest =>
    match pW fuel rest with
    | some (a, r) =>
      match pW fuel r with
      | some (b, []) =>
        let m := if weq a b then "true" else "false"
        match unembed a, unembed b with
        | some qa, some qb =>
          if qa.notFree && qb.notFree then (st, m ++ " ## " ++ (if structEq qa qb then "true" else "false"))
          else (st, m)
        | _, _ => (st, m)
      | _ => (st, "bad-op")
    | none => (st, "bad-op")
  | "subst" :: rest =>
    match pNames fuel rest with
    | some (names, r) =>
      match pW fuel r with
      | some (w, []) =>
        let m := showRes (getValue names w)
        match unembedV w, names with
        | some v, some _ =>
          (st, m ++ " ## " ++ (match v.subst (sigma names) with | some w' => "ok " ++ showW w' | none => "err NameError"))
        | _, _ => (st, m)
      | _ => (st, "bad-op")
    | none => (st, "bad-op")
  | "exec" :: rest =>
    match pNames fuel rest with
    | some (names, r) =>
      match pModule r with
      | some (body, []) =>
        match parse st.cat body with
        | .error e => (st, showErr e)
        | .ok w =>
          if w.isQuery then
            let m := " ; ".intercalate ((leaves w).map (fun l => showRes (resolveLeaf names l)))
            match unembed w with
            | none => (st, m ++ " ## reject")          -- not a query tree over values (D11)
            | some _ => (st, m)
          else (st, "notquery ## reject")
      | _ => (st, "bad-op")
    | none => (st, "bad-op")
  | "resolve" :: rest =>
    match pNames fuel rest with
    | some (names, r) =>
      match pModule r with
      | some (body, []) =>
        match parse st.cat body with
        | .error e => (st, showErr e)
        | .ok w =>
          if w.isQuery then
            (st, showRes (resolveAll names w) ++ (if (unembed w).isNone then " ## reject" else ""))
          else (st, "notquery ## reject")
      | _ => (st, "bad-op")
    | none => (st, "bad-op")
  | "rerun" :: target :: r :: rest =>
    match r.toNat? with
    | none => (st, "bad-op")
    | some r =>
      match pNamesK fuel r rest with
      | some (ns, rest') =>
        match pModule rest' with
        | some (body, []) =>
          match parse st.cat body with
          | .error e => (st, showErr e)
          | .ok w => (st, rerunOut (target == "spy") w ns)
        | _ => (st, "bad-op")
      | none => (st, "bad-op")
  | "reruntree" :: target :: r :: rest =>
    match r.toNat? with
    | none => (st, "bad-op")
    | some r =>
      match pNamesK fuel r rest with
      | some (ns, rest') =>
        match pW fuel rest' with
        | some (w, []) => (st, rerunOut (target == "spy") w ns)
        | _ => (st, "bad-op")
      | none => (st, "bad-op")
  | "rt" :: rest =>
    match pSx fuel rest with
    | some (s, []) =>
      match s.tree with
      | none => (st, "none")
      | some q =>
        match parse st.cat [.expr s.toAst] with
        | .error e => (st, showErr e)
        | .ok w =>
          (st, (if showW w == showW (embed q) then "same" else "differ " ++ showW w) ++ " eq=" ++ b01 (weq w (embed q)))
    | _ => (st, "bad-op")
  | _ => (st, "bad-op")

def sess : Sess := { σ := St, st := {}, step := step }
end Driver.CqeS
