import HypatiaModel.Facet
import HypatiaModel.IndexObs
import HypatiaModel.Spec.FacetSpec
import Driver.Sess
namespace Driver.FacetS
open Hyp Hyp.Facet
open Hyp.Keyword (QObj)

structure St where
  s : State := {}
  t : Spec.Table := []

def facet? (tok : String) : Option Facet := (tok.splitOn ":").mapM String.toNat?
def facets? (toks : List String) : Option (List Facet) := toks.mapM facet?
def showFacet (f : Facet) : String := ":".intercalate (f.map toString)
def sortFacets (l : List Facet) : List Facet := Hyp.Sort.isort lexLe l

def both (m sp : List Int) : String := showIdSet m ++ " ## " ++ showIdSet sp

def qobj? (toks : List String) : Option (QObj Facet) :=
  match toks with
  | ["eq", k] => do let k ← facet? k; pure (.eq k)
  | ["noteq", k] => do let k ← facet? k; pure (.noteq k)
  | "any" :: ks => do let ks ← facets? ks; pure (.any ks)
  | "notany" :: ks => do let ks ← facets? ks; pure (.notany ks)
  | "all" :: ks => do let ks ← facets? ks; pure (.all ks)
  | "notall" :: ks => do let ks ← facets? ks; pure (.notall ks)
  | _ => none

def showCounts (c : List (Facet × Nat)) : String :=
  let fs := sortFacets (c.map (·.1)).eraseDups
  "{" ++ " ".intercalate (fs.map (fun f => showFacet f ++ "=" ++ toString ((AMap.get c f).getD 0))) ++ "}"

def obs (st : St) : String :=
  let s := st.s.ks
  let kt := Spec.kwTable st.s.facets st.t
  let kn := Keyword.Spec.known kt
  let withKw := kn.filter (fun d => !(Keyword.Spec.kwOf kt d).isEmpty)
  let noVal := kn.filter (fun d => Keyword.Spec.withdrawn kt d)
  let vals := (withKw.flatMap (Keyword.Spec.kwOf kt)).eraseDups
  let sf := fun (l : List Facet) => " ".intercalate ((sortFacets l).map showFacet)
  s!"indexed={showIdSet (Keyword.indexed s)} ni={showIdSet s.notIndexed} docids={showIdSet (Keyword.docids s)} " ++
  s!"ic={Keyword.indexedCount s} nic={Keyword.notIndexedCount s} dc={Keyword.docidsCount s} " ++
  s!"wc={Keyword.wordCount s} uv=[{sf (Keyword.uniqueValues s)}]" ++ " ## " ++
  s!"indexed={showIdSet withKw} ni={showIdSet noVal} docids={showIdSet kn} " ++
  s!"ic={withKw.length} nic={noVal.length} dc={kn.length} wc={vals.length} uv=[{sf vals}]"

def tags (s : Keyword.State Facet) : String :=
  let ks := sortFacets (AMap.keys s.fwd)
  " ".intercalate (ks.filterMap (fun k =>
    match AMap.get s.fwd k with
    | some (tg, st) => if st = [] then none else
        some (showFacet k ++ "/" ++ (match tg with | .set => "S" | .tree => "T") ++ toString st.length)
    | none => none))

def upd (st : St) (op : Op) : St := { s := Facet.step st.s op, t := Spec.stepT st.t op }

def step0 (st : St) (toks : List String) : St × String :=
  match toks with
  | "cfg" :: "facets" :: fs =>
    match facets? fs with
    | some fs => ({ s := Facet.init fs, t := [] }, "ok")
    | none => (st, "bad-op")
  | ["cfg", "thr", n] =>
    match n.toNat? with
    | some n => (upd st (.setThr n), "ok")
    | none => (st, "bad-op")
  | "cfg" :: _ => (st, "ok")
  -- `discriminate()` raises before the index looks at its own state: a Persistent / Broken value is a ValueError,
  -- an exception of the user's discriminator (or attribute) propagates; nothing changes
  | ["index", d, "P"] | ["index", d, "B"] =>
    match d.toInt? with
    | some _ => (st, "err ValueError")
    | none => (st, "bad-op")
  | ["index", d, "R"] =>
    match d.toInt? with
    | some _ => (st, "err RuntimeError")
    | none => (st, "bad-op")
  | ["index", d, "none"] =>
    match d.toInt? with
    | some d => (upd st (.index d none), "ok")
    | none => (st, "bad-op")
  | "index" :: d :: ps =>
    match d.toInt?, facets? ps with
    | some d, some ps => (upd st (.index d (some ps)), "ok")
    | _, _ => (st, "bad-op")
  | ["unindex", d] =>
    match d.toInt? with
    | some d => (upd st (.unindex d), "ok")
    | none => (st, "bad-op")
  | ["reset"] => (upd st .reset, "ok")
  | ["optimize"] => (upd st .optimize, "ok")
  | ["setthr", n] =>
    match n.toNat? with
    | some n => (upd st (.setThr n), "ok")
    | none => (st, "bad-op")
  | "q" :: rest =>
    match qobj? rest with
    | some q => (st, both (QObj.applyIndex st.s.ks q) (Keyword.Spec.sem (Spec.kwTable st.s.facets st.t) q))
    | none => (st, "bad-op")
  | "qx" :: rest =>
    match qobj? rest with
    | some q => (st, both (QObj.apply st.s.ks q) (Keyword.Spec.sem (Spec.kwTable st.s.facets st.t) q))
    | none => (st, "bad-op")
  | "counts" :: rest =>
    let (a, b) := splitAt "|" rest
    match intList? a, facets? b with
    | some ds, some om =>
      (st, showCounts (Facet.counts st.s ds om) ++ " ## " ++
           showCounts (Spec.counts st.s.facets st.t ds om))
    | _, _ => (st, "bad-op")
  | "countsq" :: rest =>
    let (a, b) := splitAt "|" rest
    match facets? a, facets? b with
    | some ks, some om =>
      let kt := Spec.kwTable st.s.facets st.t
      (st, showCounts (Facet.counts st.s (Keyword.applyAny st.s.ks ks) om) ++ " ## " ++
           showCounts (Spec.counts st.s.facets st.t (Keyword.Spec.any kt ks) om))
    | _, _ => (st, "bad-op")
  -- counts() fed with the index's own enumerations docids() / indexed() / not_indexed()
  | "countsd" :: kind :: "|" :: b =>
    let kt := Spec.kwTable st.s.facets st.t
    let kn := Keyword.Spec.known kt
    let sel : Option (List Int × List Int) :=
      if kind = "docids" then some (Keyword.docids st.s.ks, kn)
      else if kind = "indexed" then
        some (Keyword.indexed st.s.ks, kn.filter (fun d => !(Keyword.Spec.kwOf kt d).isEmpty))
      else if kind = "notindexed" then some (st.s.ks.notIndexed, kn.filter (fun d => Keyword.Spec.withdrawn kt d))
      else none
    match sel, facets? b with
    | some (ds, sds), some om =>
      (st, showCounts (Facet.counts st.s ds om) ++ " ## " ++ showCounts (Spec.counts st.s.facets st.t sds om))
    | _, _ => (st, "bad-op")
  | ["obs"] => (st, obs st)
  -- C06: a new index over the same facets with the current threshold that indexed the current
  -- mapping once (model side: really built, `Facet.fresh`; specification side: the table's answer)
  | ["obsfresh"] => (st, obs { s := Facet.fresh st.s.facets st.s.ks.thr st.t, t := st.t })
  -- C06: the inherited `_num_docs` Length (no public reader; probed only where it exists)
  | ["numdocs"] =>
    let n := ((AMap.keys st.t).filter (fun d => !(Spec.listed st.s.facets (Spec.pathsOf st.t d)).isEmpty)).length
    (st, toString (Keyword.numDocsCounter st.s.ks) ++ " ## " ++ toString n)
  | ["tags"] => (st, "tags " ++ tags st.s.ks ++ " ## tags-any")   -- the property leaves the representation free
  | ["repr", d] =>
    match d.toInt? with
    | some d =>
      let f : List Facet → String := fun l =>
        if l = [] then "none" else "[" ++ " ".intercalate ((sortFacets l).map showFacet) ++ "]"
      (st, f ((Keyword.documentRepr st.s.ks d).getD []) ++ " ## " ++
           f (Spec.listed st.s.facets (Spec.pathsOf st.t d)))
    | none => (st, "bad-op")
  | ["reprfresh", d] =>
    match d.toInt? with
    | some d =>
      let f : List Facet → String := fun l =>
        if l = [] then "none" else "[" ++ " ".intercalate ((sortFacets l).map showFacet) ++ "]"
      (st, f ((Facet.documentRepr (Facet.fresh st.s.facets st.s.ks.thr st.t) d).getD []) ++ " ## " ++
           f (Spec.listed st.s.facets (Spec.pathsOf st.t d)))
    | none => (st, "bad-op")
  | _ => (st, "bad-op")

/-- `reindex_doc` is `index_doc` -/
def step (st : St) (toks : List String) : St × String :=
  match toks with
  | "reindex" :: rest => step0 st ("index" :: rest)
  | _ => step0 st toks

def sess : Sess := { σ := St, st := {}, step := step }
end Driver.FacetS
