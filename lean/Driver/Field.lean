import HypatiaModel.Field
import HypatiaModel.Spec.FieldSpec
import Driver.Sess
namespace Driver.FieldS
open Hyp Hyp.Field

structure St where
  s : State Int := {}
  t : Spec.Table Int := []

def sortedVals (l : List Int) : List Int := sortInts l

def both (m sp : List Int) : String := showIdSet m ++ " ## " ++ showIdSet sp

def obs (st : St) : String :=
  let s := st.s
  let t := st.t
  let withVal := (Spec.known t).filter (fun d => (Spec.valueOf t d).isSome)
  let noVal := (Spec.known t).filter (fun d => (Spec.valueOf t d).isNone)
  let vals := ((Spec.known t).filterMap (fun d => Spec.valueOf t d)).eraseDups
  s!"indexed={showIdSet (indexed s)} ni={showIdSet s.notIndexed} docids={showIdSet (docids s)} " ++
  s!"ic={indexedCount s} nic={notIndexedCount s} dc={(docids s).length} wc={wordCount s} " ++
  s!"uv=[{showInts (sortedVals (uniqueValues s))}]" ++ " ## " ++
  s!"indexed={showIdSet withVal} ni={showIdSet noVal} docids={showIdSet (Spec.known t)} " ++
  s!"ic={withVal.length} nic={noVal.length} dc={(Spec.known t).length} wc={vals.length} " ++
  s!"uv=[{showInts (sortedVals vals)}]"

def query (st : St) (toks : List String) : Option String :=
  let s := st.s
  let t := st.t
  match toks with
  | ["eq", c] => do let c ← c.toInt?; pure (both (applyEq s c) (Spec.eq t c))
  | ["noteq", c] => do let c ← c.toInt?; pure (both (applyNotEq s c) (Spec.neg t (Spec.eq t c)))
  | ["gt", c] => do let c ← c.toInt?; pure (both (applyGt s c) (Spec.gt t c))
  | ["ge", c] => do let c ← c.toInt?; pure (both (applyGe s c) (Spec.ge t c))
  | ["lt", c] => do let c ← c.toInt?; pure (both (applyLt s c) (Spec.lt t c))
  | ["le", c] => do let c ← c.toInt?; pure (both (applyLe s c) (Spec.le t c))
  | "any" :: cs => do let cs ← intList? cs; pure (both (applyAny s cs) (Spec.any t cs))
  | "notany" :: cs => do let cs ← intList? cs; pure (both (applyNotAny s cs) (Spec.neg t (Spec.any t cs)))
  | ["inrange", lo, hi, el, eh] => do
      let lo ← optInt? lo; let hi ← optInt? hi; let el ← boolTok? el; let eh ← boolTok? eh
      pure (both (applyInRange s lo hi el eh) (Spec.inRange t lo hi el eh))
  | ["notinrange", lo, hi, el, eh] => do
      let lo ← optInt? lo; let hi ← optInt? hi; let el ← boolTok? el; let eh ← boolTok? eh
      pure (both (applyNotInRange s lo hi el eh) (Spec.neg t (Spec.inRange t lo hi el eh)))
  | ["eqtuple", a, b] => do
      -- no Int value equals a tuple: the specification's answer is empty (finding D13)
      let a ← a.toInt?; let b ← b.toInt?; pure (both (applyEqTuple s a b) [])
  | _ => none

def step (st : St) (toks : List String) : St × String :=
  match toks with
  | "cfg" :: _ => (st, "ok")
  | ["index", d, v] =>
    match d.toInt?, optInt? v with
    | some d, some v => ({ s := indexDoc st.s d v, t := Spec.stepT st.t (.index d v) }, "ok")
    | _, _ => (st, "bad-op")
  | ["unindex", d] =>
    match d.toInt? with
    | some d => ({ s := unindexDoc st.s d, t := Spec.stepT st.t (.unindex d) }, "ok")
    | none => (st, "bad-op")
  | ["reset"] => ({}, "ok")
  | "q" :: rest => (st, (query st rest).getD "bad-op")
  | "qx" :: rest => (st, (query st rest).getD "bad-op")
  | ["obs"] => (st, obs st)
  | ["obsfresh"] => (st, obs st)   -- by c06_field_fresh a fresh index reports the same
  | ["repr", d] =>
    match d.toInt? with
    | some d =>
      let f : Option Int → String := fun o => match o with | some v => toString v | none => "none"
      (st, f (documentRepr st.s d) ++ " ## " ++ f (Spec.valueOf st.t d))
    | none => (st, "bad-op")
  | _ => (st, "bad-op")

def sess : Sess := { σ := St, st := {}, step := step }
end Driver.FieldS
