import HypatiaModel.FieldSort
import HypatiaModel.Spec.SortSpec
import Driver.Field
namespace Driver.FieldSortS
open Hyp Hyp.Field

/-!
Session `fieldsort`: the index commands of session `field`, plus

  sort <reverse 0|1> <limit int|none> <sort_type> <raise_unsortable 0|1> <kind> d1 d2 …

(`kind` names the Python collection type of the request and is ignored here; the docids are given
in the iteration order of that collection).  Answer `model ## spec`:

  model   err ValueError | err Unsortable {ids} | list [] ok | gen [ids] ok | gen [ids] Unsortable {ids}
  spec    err ValueError | ~ n=<#ids due> exp=<Unsortable due 0|1> stable=<0|1> full=[id:value …]

`full` is the specification's stable sort of all sortable requested ids with their values; an answer
is acceptable iff its ids are distinct members of `full`, there are `n` of them, their values are
the first `n` values of `full` (ties may be permuted unless `stable=1`), and it raises iff `exp`.
-/

def sortType? (t : String) : Option (Option SortType) :=
  match t with
  | "none" => some none
  | "stable" => some (some .stable)
  | "optimal" => some (some .optimal)
  | "fwscan" => some (some .fwscan)
  | "nbest" => some (some .nbest)
  | "timsort" => some (some .timsort)
  | _ => some (some .other)

def showList (l : List Int) : String := "[" ++ showInts l ++ "]"

def showRes : SortRes → String
  | .valueError => "err ValueError"
  | .unsortableAtCall ds => "err Unsortable " ++ showIdSet ds.eraseDups
  | .emptyList => "list [] ok"
  | .gen g =>
    "gen " ++ showList g.ids ++ (match g.raised with
      | none => " ok"
      | some ds => " Unsortable " ++ showIdSet ds.eraseDups)

def specAnswer (t : Spec.Table Int) (docids : List Int) (rev : Bool) (limit : Option Int)
    (st : Option SortType) (raiseU : Bool) : String :=
  let nonEmptyIndex := Spec.nonEmptyIndex t
  if Spec.badLimit limit || (!docids.isEmpty && nonEmptyIndex && Spec.rejects rev limit st) then
    "err ValueError"
  else
    let lim := limit.map Int.toNat
    let full := Spec.stableSort t rev docids
    let n := Spec.cut lim (Spec.sortables t docids).length
    let exp := Spec.shouldRaise t docids lim raiseU
    let keyed := full.map (fun d => toString d ++ ":" ++
      (match Spec.valueOf t d with | some v => toString v | none => "?"))
    s!"~ n={n} exp={if exp then 1 else 0} stable={if Spec.stableRequired st then 1 else 0} " ++
      "full=[" ++ " ".intercalate keyed ++ "]"

def doSort (st : FieldS.St) (toks : List String) : Option String :=
  match toks with
  | rev :: lim :: ty :: ru :: _kind :: ds => do
    let rev ← boolTok? rev
    let lim ← optInt? lim
    let ty ← sortType? ty
    let ru ← boolTok? ru
    let ds ← intList? ds
    pure (showRes (sort st.s ds rev lim ty ru) ++ " ## " ++ specAnswer st.t ds rev lim ty ru)
  | _ => none

/-
  lsort <h> <the arguments of sort>     the same sort, but the caller only keeps the (lazy) result under handle <h>
  pull <h> <k>                          … and consumes k more ids of it (k = all: the rest) between other sorts

A sort is a value here, so the answer to `lsort` is the answer to `sort` whatever is in flight at the same time
and however the results are consumed (the run assembles the implementation's answer from all the pulls); `pull`
answers `ok`.  The index is not modified while a handle is open.
-/
def step (st : FieldS.St) (toks : List String) : FieldS.St × String :=
  match toks with
  | "sort" :: rest => (st, (doSort st rest).getD "bad-op")
  | "lsort" :: _h :: rest => (st, (doSort st rest).getD "bad-op")
  | ["pull", _h, _k] => (st, "ok")
  | _ => FieldS.step st toks

def sess : Sess := { σ := FieldS.St, st := {}, step := step }
end Driver.FieldSortS
