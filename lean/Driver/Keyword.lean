import HypatiaModel.Keyword
import HypatiaModel.IndexObs
import HypatiaModel.Spec.KeywordSpec
import Driver.Sess
namespace Driver.KeywordS
open Hyp Hyp.Keyword

structure St where
  s : State Int := {}
  t : Spec.Table Int := []

def both (m sp : List Int) : String := showIdSet m ++ " ## " ++ showIdSet sp

def qobj? (toks : List String) : Option (QObj Int) :=
  match toks with
  | ["eq", k] => do let k ← k.toInt?; pure (.eq k)
  | ["noteq", k] => do let k ← k.toInt?; pure (.noteq k)
  | "any" :: ks => do let ks ← intList? ks; pure (.any ks)
  | "notany" :: ks => do let ks ← intList? ks; pure (.notany ks)
  | "all" :: ks => do let ks ← intList? ks; pure (.all ks)
  | "notall" :: ks => do let ks ← intList? ks; pure (.notall ks)
  | _ => none

def obs (st : St) : String :=
  let s := st.s
  let t := st.t
  let kn := Spec.known t
  let withKw := kn.filter (fun d => !(Spec.kwOf t d).isEmpty)
  let noVal := kn.filter (fun d => Spec.withdrawn t d)
  let vals := (withKw.flatMap (Spec.kwOf t)).eraseDups
  s!"indexed={showIdSet (indexed s)} ni={showIdSet s.notIndexed} docids={showIdSet (docids s)} " ++
  s!"ic={indexedCount s} nic={notIndexedCount s} dc={docidsCount s} wc={wordCount s} " ++
  s!"uv=[{showInts (sortInts (uniqueValues s))}]" ++ " ## " ++
  s!"indexed={showIdSet withKw} ni={showIdSet noVal} docids={showIdSet kn} " ++
  s!"ic={withKw.length} nic={noVal.length} dc={kn.length} wc={vals.length} " ++
  s!"uv=[{showInts (sortInts vals)}]"

/-- representation of every non-empty posting, by ascending keyword -/
def tags (s : State Int) : String :=
  let ks := sortInts (AMap.keys s.fwd)
  " ".intercalate (ks.filterMap (fun k =>
    match AMap.get s.fwd k with
    | some (tg, st) => if st = [] then none else
        some (toString k ++ ":" ++ (match tg with | .set => "S" | .tree => "T") ++ toString st.length)
    | none => none))

def upd (st : St) (op : Op Int) : St := { s := Keyword.step st.s op, t := Spec.stepT st.t op }

def step0 (st : St) (toks : List String) : St × String :=
  match toks with
  | ["cfg", "thr", n] =>
    match n.toNat? with
    | some n => (upd st (.setThr n), "ok")
    | none => (st, "bad-op")
  | "cfg" :: _ => (st, "ok")
  | ["index", d, "none"] =>
    match d.toInt? with
    | some d => (upd st (.index d none), "ok")
    | none => (st, "bad-op")
  | "index" :: d :: ks =>
    match d.toInt?, intList? ks with
    | some d, some ks => (upd st (.index d (some ks)), "ok")
    | _, _ => (st, "bad-op")
  | ["indexstr", d] =>
    match d.toInt? with
    | some d => (upd st (.indexStr d), "err TypeError")
    | none => (st, "bad-op")
  | ["unindex", d] =>
    match d.toInt? with
    | some d => (upd st (.unindex d), "ok")
    | none => (st, "bad-op")
  | ["reset"] => (upd st .reset, "ok")
  | ["optimize"] => (upd st .optimize, "ok")
  | ["setthr", n] =>
    match n.toNat? with
    | some n => (upd st (.setThr n), "ok")
    | none => (st, "bad-op")
  | "q" :: rest =>
    match qobj? rest with
    | some q => (st, both (QObj.applyIndex st.s q) (Spec.sem st.t q))
    | none => (st, "bad-op")
  | "qx" :: rest =>
    match qobj? rest with
    | some q => (st, both (QObj.apply st.s q) (Spec.sem st.t q))
    | none => (st, "bad-op")
  | ["obs"] => (st, obs st)
  -- C06: a new index with the current threshold that indexed the current mapping once (model side:
  -- really built, `Keyword.fresh`; specification side: the table's answer)
  | ["obsfresh"] => (st, obs { s := Keyword.fresh st.s.thr st.t, t := st.t })
  -- C06: the `_num_docs` Length (no public reader; the harness probes it only where it exists)
  | ["numdocs"] =>
    let withKw := (Spec.known st.t).filter (fun d => !(Spec.kwOf st.t d).isEmpty)
    (st, toString (numDocsCounter st.s) ++ " ## " ++ toString withKw.length)
  | ["tags"] => (st, "tags " ++ tags st.s ++ " ## tags-any")   -- the property leaves the representation free
  | ["repr", d] =>
    match d.toInt? with
    | some d =>
      let f : List Int → String := fun l => if l = [] then "none" else "[" ++ showInts (sortInts l) ++ "]"
      (st, f ((documentRepr st.s d).getD []) ++ " ## " ++ f (Spec.kwOf st.t d).eraseDups)
    | none => (st, "bad-op")
  | ["reprfresh", d] =>
    match d.toInt? with
    | some d =>
      let f : List Int → String := fun l => if l = [] then "none" else "[" ++ showInts (sortInts l) ++ "]"
      (st, f ((documentRepr (Keyword.fresh st.s.thr st.t) d).getD []) ++ " ## " ++ f (Spec.kwOf st.t d).eraseDups)
    | none => (st, "bad-op")
  | _ => (st, "bad-op")

/-- `reindex_doc` is `index_doc` -/
def step (st : St) (toks : List String) : St × String :=
  match toks with
  | "reindex" :: rest => step0 st ("index" :: rest)
  | _ => step0 st toks

def sess : Sess := { σ := St, st := {}, step := step }
end Driver.KeywordS
