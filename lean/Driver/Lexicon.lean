import HypatiaModel.Lexicon
import HypatiaModel.Spec.LexiconSpec
import Driver.Sess
import Driver.QParser
import Std.Data.HashSet
import Std.Data.HashMap
/-!
Session `lexicon` (C15).  Strings travel as `u<hex>.<hex>…` (code points; `u` = empty string).

Configuration (the character tables are DATA computed by the harness from CPython for the
alphabet in use; code points not listed are non-word characters that lower-case to themselves):
  cfg word <hex> …               code points `\w` matches
  cfg lower <hex> | <hex> …      `chr(c).lower()` where it differs from `chr(c)`
  cfg stop <str> …               the stop-word dictionary (`get_stopdict()` keys)
  cfg pipeline <elem> …          splitter | case | stop | single | html

Commands (a text argument is the list of strings after `_text2list`):
  source <str> …   -> `[ids]`          sourceToWordIds
  term <str> …     -> `[ids]`          termToWordIds
  parse <str> …    -> `[strs]`         parseTerms
  glob <str>       -> `[ids] ## [ids]` globToWordIds (## all known words filtered by GlobMatch) |
                      `err QueryError`
  isglob <str>     -> True | False
  getword <n>      -> <str> | `err KeyError`
  getwid <str>     -> n
  count            -> `n ## n`         word_count() ## number of distinct words seen in source text
  commit [evict] / abort -> like count   transaction boundaries (abort: back to the last committed lexicon)
  items            -> `[<str>:id …]`   in word order
  proc <elem> <str> … / procglob <elem> <str> …  -> `[strs]`   one pipeline element alone
-/
namespace Driver.LexiconS
open Hyp Hyp.Lex Hyp.QP
open Driver.QParserS (str? showStr hex?)

structure LexCfg where
  words : Std.HashSet Nat := {}
  lowers : Std.HashMap Nat Str := {}
  stops : List Str := []
  pipeline : List String := []

def tablesOf (c : LexCfg) : Tables :=
  { isWord := fun x => c.words.contains x, lower := fun x => (c.lowers.get? x).getD [x] }

def elemOf (c : LexCfg) (name : String) : Option Elem :=
  match name with
  | "splitter" => some .splitter
  | "case" => some .caseNorm
  | "stop" => some (.stop c.stops)
  | "single" => some (.stopSingle c.stops)
  | "html" => some .html
  | _ => none

def cfgOf (c : LexCfg) : Cfg :=
  { tables := tablesOf c, pipeline := c.pipeline.filterMap (elemOf c) }

/-- configuration lines shared with the `text` session; `none` = not a lexicon cfg line -/
def cfgStep (c : LexCfg) (toks : List String) : Option (Option LexCfg) :=
  match toks with
  | "cfg" :: "word" :: rest =>
    some ((rest.mapM hex?).map (fun cs => { c with words := cs.foldl (fun s x => s.insert x) c.words }))
  | "cfg" :: "lower" :: x :: "|" :: rest =>
    some (do let x ← hex? x; let r ← rest.mapM hex?; pure { c with lowers := c.lowers.insert x r })
  | "cfg" :: "stop" :: rest =>
    some ((rest.mapM str?).map (fun ws => { c with stops := c.stops ++ ws }))
  | "cfg" :: "pipeline" :: rest =>
    some (if rest.all (fun n => (elemOf c n).isSome) then some { c with pipeline := rest } else none)
  | _ => none

structure St where
  cfg : LexCfg := {}
  s : State := {}
  seen : List Str := []
  /-- the lexicon as of the last `commit` (a transaction abort returns to it) -/
  saved : State × List Str := ({}, [])

def showStrs (l : List Str) : String := "[" ++ " ".intercalate (l.map showStr) ++ "]"
def showIds (l : List Nat) : String := "[" ++ showNats l ++ "]"

def step (st : St) (toks : List String) : St × String :=
  match cfgStep st.cfg toks with
  | some (some c) => ({ st with cfg := c }, "ok")
  | some none => (st, "bad-op")
  | none =>
  let cfg := cfgOf st.cfg
  match toks with
  | "cfg" :: _ => (st, "ok")
  | "source" :: rest =>
    match rest.mapM str? with
    | none => (st, "bad-op")
    | some text =>
      let (s', ids) := sourceToWordIds cfg st.s text
      ({ st with s := s', seen := LSet.union st.seen (runPipeline cfg.tables cfg.pipeline text) }, showIds ids)
  | "term" :: rest =>
    match rest.mapM str? with
    | none => (st, "bad-op")
    | some text => (st, showIds (termToWordIds cfg st.s text))
  | "parse" :: rest =>
    match rest.mapM str? with
    | none => (st, "bad-op")
    | some text => (st, showStrs (parseTerms cfg text))
  | ["glob", p] =>
    match str? p with
    | none => (st, "bad-op")
    | some p =>
      match globToWordIds st.s p with
      | .ok ids => (st, showIds ids ++ " ## " ++ showIds (Spec.globIds st.s p))
      | .error _ => (st, "err QueryError")
  | ["isglob", w] =>
    match str? w with
    | none => (st, "bad-op")
    | some w => (st, if isGlob w then "True" else "False")
  | ["getword", n] =>
    match n.toNat? with
    | none => (st, "bad-op")
    | some n =>
      match getWord st.s n with
      | some w => (st, showStr w)
      | none => (st, "err KeyError")
  | ["getwid", w] =>
    match str? w with
    | none => (st, "bad-op")
    | some w => (st, toString (getWid st.s w))
  | ["count"] => (st, toString (wordCount st.s) ++ " ## " ++ toString st.seen.length)
  -- transaction boundaries when the lexicon lives in a database: a commit is invisible, an abort
  -- returns to the last committed lexicon; both answer like `count`
  | "commit" :: _ =>
    ({ st with saved := (st.s, st.seen) }, toString (wordCount st.s) ++ " ## " ++ toString st.seen.length)
  | ["abort"] =>
    ({ st with s := st.saved.1, seen := st.saved.2 },
      toString (wordCount st.saved.1) ++ " ## " ++ toString st.saved.2.length)
  | ["items"] =>
    let ks := Sort.isort leStr (AMap.keys st.s.wids)
    (st, "[" ++ " ".intercalate (ks.map (fun k => showStr k ++ ":" ++ toString (getWid st.s k))) ++ "]")
  | "proc" :: e :: rest =>
    match elemOf st.cfg e, rest.mapM str? with
    | some e, some l => (st, showStrs (process cfg.tables e l))
    | _, _ => (st, "bad-op")
  | "procglob" :: e :: rest =>
    match elemOf st.cfg e, rest.mapM str? with
    | some e, some l => (st, showStrs (processGlob cfg.tables e l))
    | _, _ => (st, "bad-op")
  | _ => (st, "bad-op")

def sess : Sess := { σ := St, st := {}, step := step }
end Driver.LexiconS
