import Driver.Sess
import Driver.Catalog
import Driver.Concurrency
import Driver.Cqe
import Driver.Facet
import Driver.Field
import Driver.FieldSort
import Driver.Keyword
import Driver.Lexicon
import Driver.Persist
import Driver.QParser
import Driver.Query
import Driver.Reads
import Driver.ResultSet
import Driver.Score
import Driver.SetOps
import Driver.Text
import Driver.Widcode
open Driver

def sessions : List (String × Sess) := [
  ("catalog", CatalogS.sess),
  ("concurrency", ConcurrencyS.sess),
  ("cqe", CqeS.sess),
  ("facet", FacetS.sess),
  ("field", FieldS.sess),
  ("fieldsort", FieldSortS.sess),
  ("keyword", KeywordS.sess),
  ("lexicon", LexiconS.sess),
  ("persist", PersistS.sess),
  ("qparser", QParserS.sess),
  ("query", QueryS.sess),
  ("reads", ReadsS.sess),
  ("resultset", ResultSetS.sess),
  ("score", ScoreS.sess),
  ("setops", SetOpsS.sess),
  ("setopsnbest", SetOpsS.sessNBest),
  ("text", TextS.sess),
  ("widcode", WidcodeS.sess)
]

def tokens (line : String) : List String :=
  (line.splitOn " ").filter (· ≠ "")

/-- `saved` = the session as of the last `txn commit` (every session state is a pure value, so a
transaction abort of the database the real objects live in is "continue from the saved value";
a commit and a cache eviction are invisible).  Used by the ZODB-backed streams of the index checks. -/
partial def loop (h : IO.FS.Stream) (out : IO.FS.Stream) (cur saved : Option Sess) : IO Unit := do
  let line ← h.getLine
  if line.isEmpty then return ()
  let line := (line.replace "\n" "").replace "\r" ""
  match tokens line with
  | ["session", name] =>
    match sessions.lookup name with
    | some s => out.putStrLn "ok"; loop h out (some s) none
    | none => out.putStrLn "bad-session"; loop h out none none
  | "txn" :: "commit" :: _ => out.putStrLn "ok"; loop h out cur cur
  | ["txn", "abort"] => out.putStrLn "ok"; loop h out (if saved.isSome then saved else cur) saved
  | toks =>
    match cur with
    | none => out.putStrLn "no-session"; loop h out none saved
    | some s =>
      let (s', o) := s.run1 toks
      out.putStrLn o
      loop h out (some s') saved

def main : IO Unit := do
  let stdin ← IO.getStdin
  let stdout ← IO.getStdout
  loop stdin stdout none none
  stdout.flush
