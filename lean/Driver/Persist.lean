import HypatiaModel.Persist
import Driver.Sess
namespace Driver.PersistS
open Hyp.Persist

def showOutcome : Outcome → String
  | .ok => "ok" | .badSavepoint => "err ValueError" | .poisonedCommit => "undetermined"

def step (l : Log) (toks : List String) : Log × String :=
  let run (c : Cmd) : Log × String := let (l', o) := l.step c; (l', showOutcome o)
  match toks with
  | "cfg" :: _ => (l, "ok")
  | "op" :: k :: _ => match k.toNat? with | some k => run (.op k) | none => (l, "bad-op")
  | "failop" :: k :: _ => match k.toNat? with | some k => run (.failop k) | none => (l, "bad-op")
  | ["commit"] => run .commit
  | ["abort"] => run .abort
  | ["savepoint"] => run .savepoint
  | ["rollback", j] => match j.toNat? with | some j => run (.rollback j) | none => (l, "bad-op")
  | ["evict"] => run .evict
  | ["reopen"] => run .reopen
  | ["check"] => (l, "eff " ++ showNats l.effective)
  | _ => (l, "bad-op")

def sess : Sess := { σ := Log, st := {}, step := step }
end Driver.PersistS
