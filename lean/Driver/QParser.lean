import HypatiaModel.QueryParser
import Driver.Sess
/-!
Session `qparser` (C14).  Strings travel as `u<hex>.<hex>…` (code points; `u` = empty string).

  cfg space <hex> …             the code points matched by `\s`
  cfg terms <token> | <word> …  the REAL `lexicon.parseTerms(token)` for one ATOM token
  parse <query>    ->  `ok <s-expression> ign=[<token> …]`  |  `err ParseError`
  check <query>    ->  `True` | `False`      (## isOk ∘ parse)
  exec <query>     ->  `ok` (tree executed without reaching NotNode.executeQuery) |
                       `err QueryError` | `err ParseError`
  tok <query>      ->  the token list (debugging)
  pparse <query>   ->  as `parse`, on ONE long-lived `QueryParser` instance; the answer is also kept
  held             ->  all answers of the `pparse` commands so far, joined by ` ; ` (what the caller still holds:
                       a later parse on the same parser must not change the tree or the ignored list handed
                       out for an earlier query - parses are values here)

`isGlob` is the lexicon's `"*" in word or "?" in word`.  A query whose ATOM token has no
`cfg terms` line answers `missing-terms`.
-/
namespace Driver.QParserS
open Hyp.QP

structure St where
  spaces : List Nat := []
  terms : List (Str × List Str) := []
  held : List String := []

def hexDigit? (c : Char) : Option Nat :=
  if '0' ≤ c ∧ c ≤ '9' then some (c.toNat - '0'.toNat)
  else if 'a' ≤ c ∧ c ≤ 'f' then some (c.toNat - 'a'.toNat + 10)
  else if 'A' ≤ c ∧ c ≤ 'F' then some (c.toNat - 'A'.toNat + 10)
  else none

def hex? (s : String) : Option Nat :=
  if s.isEmpty then none
  else s.toList.foldlM (fun acc c => (hexDigit? c).map (fun d => acc * 16 + d)) 0

def str? (t : String) : Option Str :=
  match t.toList with
  | 'u' :: rest =>
    if rest.isEmpty then some []
    else ((String.ofList rest).splitOn ".").mapM hex?
  | _ => none

def hexOf (n : Nat) : String := String.ofList (Nat.toDigits 16 n)

def showStr (s : Str) : String := "u" ++ ".".intercalate (s.map hexOf)

mutual
def showTree : Tree → String
  | .atom w => "(atom " ++ showStr w ++ ")"
  | .phrase ws => "(phrase " ++ " ".intercalate (ws.map showStr) ++ ")"
  | .glob p => "(glob " ++ showStr p ++ ")"
  | .notN t => "(not " ++ showTree t ++ ")"
  | .andN ts => "(and" ++ showTrees ts ++ ")"
  | .orN ts => "(or" ++ showTrees ts ++ ")"
def showTrees : List Tree → String
  | [] => ""
  | t :: ts => " " ++ showTree t ++ showTrees ts
end

def showTok : Tok → String
  | .and => "AND" | .or => "OR" | .not => "NOT" | .lp => "(" | .rp => ")"
  | .atom s => showStr s

def isGlobStd (w : Str) : Bool := w.contains 42 || w.contains 63   -- '*' or '?'

def lexOf (st : St) : Lex :=
  { parseTerms := fun t => (st.terms.lookup t).getD [], isGlob := isGlobStd }

def spaceOf (st : St) : Nat → Bool := fun c => st.spaces.contains c

def missing (st : St) (q : Str) : Bool :=
  (tokenize (spaceOf st) q).any (fun t => match t with
    | .atom s => (st.terms.lookup s).isNone
    | _ => false)

/-- an index whose result sets carry no information: only the control flow of
`executeQuery` is observed -/
def unitIndex : Index Unit :=
  { search := fun _ => some (), searchPhrase := fun _ => (), searchGlob := fun _ => (),
    inter := fun _ => (), union := fun _ => (), diff := fun _ _ => () }

def step (st : St) (toks : List String) : St × String :=
  match toks with
  | "cfg" :: "space" :: rest =>
    match rest.mapM hex? with
    | some cs => ({ st with spaces := cs ++ st.spaces }, "ok")
    | none => (st, "bad-op")
  | "cfg" :: "terms" :: tok :: "|" :: ws =>
    match str? tok, ws.mapM str? with
    | some t, some ws => ({ st with terms := (t, ws) :: st.terms }, "ok")
    | _, _ => (st, "bad-op")
  | "cfg" :: _ => (st, "ok")
  | ["parse", q] =>
    match str? q with
    | none => (st, "bad-op")
    | some q =>
      if missing st q then (st, "missing-terms") else
      match parseQuery (lexOf st) (spaceOf st) q with
      | .ok (t, ig) => (st, "ok " ++ showTree t ++ " ign=[" ++ " ".intercalate (ig.map showStr) ++ "]")
      | .error _ => (st, "err ParseError")
  | ["pparse", q] =>
    match str? q with
    | none => (st, "bad-op")
    | some q =>
      if missing st q then (st, "missing-terms") else
      let out := match parseQuery (lexOf st) (spaceOf st) q with
        | .ok (t, ig) => "ok " ++ showTree t ++ " ign=[" ++ " ".intercalate (ig.map showStr) ++ "]"
        | .error _ => "err ParseError"
      ({ st with held := st.held ++ [out] }, out)
  | ["held"] => (st, " ; ".intercalate st.held)
  | ["check", q] =>
    match str? q with
    | none => (st, "bad-op")
    | some q =>
      if missing st q then (st, "missing-terms") else
      let m := checkQuery (lexOf st) (spaceOf st) q
      let s := match parseQuery (lexOf st) (spaceOf st) q with | .ok _ => true | .error _ => false
      (st, (if m then "True" else "False") ++ " ## " ++ (if s then "True" else "False"))
  | ["exec", q] =>
    match str? q with
    | none => (st, "bad-op")
    | some q =>
      if missing st q then (st, "missing-terms") else
      match parseQuery (lexOf st) (spaceOf st) q with
      | .error _ => (st, "err ParseError")
      | .ok (t, _) =>
        match exec unitIndex t with
        | .ok _ => (st, "ok")
        | .error _ => (st, "err QueryError")
  | ["tok", q] =>
    match str? q with
    | none => (st, "bad-op")
    | some q => (st, "[" ++ " ".intercalate ((tokenize (spaceOf st) q).map showTok) ++ "]")
  | _ => (st, "bad-op")

def sess : Sess := { σ := St, st := {}, step := step }
end Driver.QParserS
