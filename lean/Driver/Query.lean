import HypatiaModel.Query
import HypatiaModel.QueryModel
import Driver.Sess
import Driver.Lexicon
import Driver.Text
namespace Driver.QueryS
open Hyp Hyp.Query
open Driver.QParserS (str? hex?)
open Driver.LexiconS (LexCfg cfgStep cfgOf)

def cmpOfString : String → Option Cmp
  | "eq" => some .eq | "noteq" => some .noteq | "gt" => some .gt | "ge" => some .ge
  | "lt" => some .lt | "le" => some .le | "any" => some .any | "notany" => some .notany
  | "all" => some .all | "notall" => some .notall | "contains" => some .contains
  | "notcontains" => some .notcontains | _ => none

def cmpToString : Cmp → String
  | .eq => "eq" | .noteq => "noteq" | .gt => "gt" | .ge => "ge" | .lt => "lt" | .le => "le"
  | .any => "any" | .notany => "notany" | .all => "all" | .notall => "notall"
  | .contains => "contains" | .notcontains => "notcontains"

def takeInts : Nat → List String → Option (List Int × List String)
  | 0, ts => some ([], ts)
  | n + 1, t :: ts => do
    let x ← t.toInt?
    let (xs, r) ← takeInts n ts
    pure (x :: xs, r)
  | _, [] => none

mutual
def parseQ : Nat → List String → Option (Q × List String)
  | 0, _ => none
  | fuel + 1, toks =>
    match toks with
    | "cmp" :: c :: i :: "one" :: x :: rest => do
      let c ← cmpOfString c; let i ← i.toNat?; let x ← x.toInt?
      pure (.cmp c i (.one x), rest)
    | "cmp" :: c :: i :: "many" :: n :: rest => do
      let c ← cmpOfString c; let i ← i.toNat?; let n ← n.toNat?
      let (xs, r) ← takeInts n rest
      pure (.cmp c i (.many xs), r)
    | "range" :: neg :: i :: lo :: hi :: el :: eh :: rest => do
      let neg ← boolTok? neg; let i ← i.toNat?; let lo ← lo.toInt?; let hi ← hi.toInt?
      let el ← boolTok? el; let eh ← boolTok? eh
      pure (.range neg i lo hi el eh, rest)
    | "and" :: n :: rest => do
      let n ← n.toNat?
      let (qs, r) ← parseN fuel n rest
      pure (.and qs, r)
    | "or" :: n :: rest => do
      let n ← n.toNat?
      let (qs, r) ← parseN fuel n rest
      pure (.or qs, r)
    | "not" :: rest => do
      let (q, r) ← parseQ fuel rest
      pure (.not q, r)
    | _ => none
def parseN : Nat → Nat → List String → Option (List Q × List String)
  | 0, _, _ => none
  | _ + 1, 0, toks => some ([], toks)
  | fuel + 1, n + 1, toks => do
    let (q, r) ← parseQ fuel toks
    let (qs, r') ← parseN fuel n r
    pure (q :: qs, r')
end

mutual
def showQ : Q → String
  | .cmp c i (.one x) => s!"cmp {cmpToString c} {i} one {x}"
  | .cmp c i (.many xs) => s!"cmp {cmpToString c} {i} many {xs.length}" ++ String.join (xs.map fun x => s!" {x}")
  | .range neg i lo hi el eh =>
    s!"range {if neg then 1 else 0} {i} {lo} {hi} {if el then 1 else 0} {if eh then 1 else 0}"
  | .and qs => s!"and {qs.length}" ++ showQs qs
  | .or qs => s!"or {qs.length}" ++ showQs qs
  | .not q => "not " ++ showQ q
def showQs : List Q → String
  | [] => ""
  | q :: qs => " " ++ showQ q ++ showQs qs
end

mutual
def hasNot : Q → Bool
  | .not _ => true
  | .and qs => hasNotL qs
  | .or qs => hasNotL qs
  | _ => false
def hasNotL : List Q → Bool
  | [] => false
  | q :: qs => hasNot q || hasNotL qs
end

def errStr : Err → String
  | .attributeError => "err AttributeError"
  | .typeError => "err TypeError"
  | .indexError => "err IndexError"
  | .valueError => "err ValueError"
  | .parseError => "err ParseError"
  | .queryError => "err QueryError"

def showRes : Except Err IdSet → String
  | .ok r => showIdSet r
  | .error e => errStr e

def setDoc (ix : IndexT) (d : Int) (v : Option (List Int)) : Option IndexT :=
  match ix, v with
  | .field t, none => some (.field (AMap.set t d none))
  | .field t, some [x] => some (.field (AMap.set t d (some x)))
  | .field _, _ => none
  | .keyword t, v => some (.keyword (AMap.set t d v))
  | .text t, v => some (.text (AMap.set t d v))

def hasNone : IndexT → Bool
  | .field t => t.any (fun p => p.2.isNone)
  | .keyword t => t.any (fun p => p.2.isNone)
  | .text t => t.any (fun p => p.2.isNone)

/-- every document known to the catalog has a value in every index -/
def total (cat : Catalog) : Bool :=
  let ds := docs cat
  cat.all (fun ix => !hasNone ix && ds.all (fun d => decide (d ∈ known ix)))

def step (cat : Catalog) (toks : List String) : Catalog × String :=
  match toks with
  | ["cfg", "index", "field"] => (cat ++ [.field []], "ok")
  | ["cfg", "index", "keyword"] => (cat ++ [.keyword []], "ok")
  | ["cfg", "index", "text"] => (cat ++ [.text []], "ok")
  | "cfg" :: _ => (cat, "ok")
  | "doc" :: i :: d :: vs =>
    match i.toNat?, d.toInt?, (if vs = ["none"] then some none else (intList? vs).map some) with
    | some i, some d, some v =>
      match cat[i]? with
      | some ix =>
        match setDoc ix d v with
        | some ix' => (cat.set i ix', "ok")
        | none => (cat, "bad-op")
      | none => (cat, "bad-op")
    | _, _, _ => (cat, "bad-op")
  | "apply" :: rest =>
    match parseQ (rest.length + 1) rest with
    | some (q0, []) =>
      let q := construct q0
      -- the specification determines the answer only when every operand has one, and for `Not`
      -- only on Total catalogs
      let spec := if hasNot q && !total cat then "?" else
        match sem cat q with
        | .ok r => showIdSet r
        | .error _ => "?"
      (cat, showRes (applyQ cat q) ++ " ## " ++ spec)
    | _ => (cat, "bad-op")
  | "applym" :: rest =>
    match parseQ (rest.length + 1) rest with
    | some (q0, []) => (cat, showRes (applyQ cat (construct q0)))
    | _ => (cat, "bad-op")
  | "opt" :: rest =>
    match parseQ (rest.length + 1) rest with
    | some (q0, []) =>
      let q := construct q0
      -- "succeeds whenever the unoptimised execution succeeds": on ill-typed trees (a comparator the
      -- index class lacks) success depends on evaluation order and nothing is required
      let spec := if wellTyped cat q then showRes (applyQ cat q) else "?"
      (cat, showRes (applyQ cat (optimize q)) ++ " ## " ++ spec)
    | _ => (cat, "bad-op")
  | "optsafe" :: rest =>
    -- the hypotheses of `c05_optimize_sound_partial`, evaluated on this tree and catalog
    match parseQ (rest.length + 1) rest with
    | some (q0, []) =>
      let q := construct q0
      let hz := hazards cat q
      let name : Hazard → String := fun h => match h with | .d2 => "D2" | .d3 => "D3" | .d5 => "D5"
      let out := if !wellTyped cat q then "illtyped"
        else if OptSafe cat q then "safe"
        else "unsafe:" ++ ",".intercalate (([Hazard.d2, .d3, .d5].filter (fun h => decide (h ∈ hz))).map name)
      (cat, out ++ " ## ?")
    | _ => (cat, "bad-op")
  | "optshape" :: rest =>
    match parseQ (rest.length + 1) rest with
    | some (q0, []) => let q := construct q0; (cat, showQ (optimize q) ++ " ## ?")
    | _ => (cat, "bad-op")
  | "negshape" :: rest =>
    match parseQ (rest.length + 1) rest with
    | some (q0, []) => let q := construct q0; (cat, showQ (negate q) ++ " ## ?")
    | _ => (cat, "bad-op")
  | "shape" :: rest =>
    match parseQ (rest.length + 1) rest with
    | some (q0, []) => (cat, showQ (construct q0) ++ " ## ?")
    | _ => (cat, "bad-op")
  | _ => (cat, "bad-op")

/-! The session also keeps the catalog of index *models* (C01/C02/C13/C03 states): every `doc` line is an
`index_doc` on the model of that index.  `applye2e` evaluates the tree over the models (`applyQM`) and, as
specification, over the specification tables (`applyQ`) – `c04_end_to_end` says the two agree.

Model-backed facet and text indexes (the `cfg index keyword` / `cfg index text` lines above keep their
specification-level meaning for the sessions that do not compose):
  cfg word|lower|stop|pipeline|space …   lexicon configuration (as in session `text`), before the index line
  cfg index facet                        a FacetIndex model; then
    cfg dict facets <f> …                  the configured facets (a facet is `seg.seg.seg`, segments ranked)
    cfg dict names <f> …                   the dictionary of leaf values (value x = x-th name)
    cfg dict paths <f> …                   the dictionary of document values (`doc i d p…` = these paths)
  cfg index textm                        a TextIndex model (Okapi back end); then
    cfg dict words <str> …                 the dictionary of document values (`doc i d w…` = the words, joined by blanks)
    cfg dict queries <str> …               the dictionary of leaf values (value x = x-th query string)
The specification tables of these indexes are derived from their C13/C03 document tables (`facetTable`,
`textTable`) whenever a query arrives.  `applye2e` prints the specification's answer when the hypotheses of
`c04_end_to_end` hold for the session (`histOK`: lexicon below 2^28 words, every query string of a dictionary
accepted and admissible; the tree's text leaves name dictionary entries) and `?` otherwise. -/

def setDocM (ix : IndexM) (d : Int) (v : Option (List Int)) : Option IndexM :=
  match ix, v with
  | .field s, none => some (.field (Field.indexDoc s d none))
  | .field s, some [x] => some (.field (Field.indexDoc s d (some x)))
  | .field _, _ => none
  | .keyword s, v => some (.keyword (Keyword.indexDoc s d v))
  | _, _ => none

inductive Aux where
  /-- field / keyword / specification-level text: `cat` is maintained by `step` -/
  | plain
  | facet (names F0 paths : List Facet.Facet) (T : Facet.Spec.Table)
  | text (qs words : List QP.Str) (T : Text.Spec.Table)

structure St where
  cat : Catalog := []
  mcat : List (Option IndexM) := []
  aux : List Aux := []
  lc : LexCfg := {}
  spaces : List Nat := []

def facet? (t : String) : Option Facet.Facet := (t.splitOn ".").mapM String.toNat?

/-- the specification catalog: the tables of the model-backed indexes are derived from their document tables
(the definitions `specIndex` uses) -/
def catOf (st : St) : Catalog :=
  st.cat.zipIdx.map (fun (ix, i) =>
    match st.aux[i]?, st.mcat[i]? with
    | some (.facet names F0 _ T), _ => .keyword (facetTable names (Facet.Spec.kwTable (Keyword.dedup F0) T))
    | some (.text qs _ T), some (some (.text cfg sp _ _)) => .text (textTable cfg sp qs T)
    | _, _ => ix)

/-- `histOK` for the text models of the session -/
def hypsOK (st : St) : Bool :=
  st.mcat.all (fun m =>
    match m with
    | some (.text cfg sp qs s) => decide (s.base.lex.count < 0x10000000) && qs.all (queryOK cfg sp)
    | _ => true)

/-- `listedLeaf` for the text models of the session -/
def leafOK (st : St) (c : Cmp) (i : Nat) (v : Val) : Bool :=
  match st.mcat[i]?, v with
  | some (some (.text _ _ qs _)), .one x => !textCmp c || (decide (0 ≤ x) && decide (x.toNat < qs.length))
  | _, _ => true

def nthD {α : Type} (l : List α) (x : Int) : Option α := if x < 0 then none else l[x.toNat]?

def stepM (st : St) (toks : List String) : St × String :=
  match cfgStep st.lc toks with
  | some (some c) => ({ st with lc := c }, "ok")
  | some none => (st, "bad-op")
  | none =>
  match toks with
  | "cfg" :: "space" :: rest =>
    match rest.mapM hex? with
    | some cs => ({ st with spaces := cs ++ st.spaces }, "ok")
    | none => (st, "bad-op")
  | ["cfg", "index", "field"] =>
    ({ st with cat := st.cat ++ [.field []], mcat := st.mcat ++ [some (.field Field.init)], aux := st.aux ++ [.plain] }, "ok")
  | ["cfg", "index", "keyword"] =>
    ({ st with cat := st.cat ++ [.keyword []], mcat := st.mcat ++ [some (.keyword Keyword.init)],
               aux := st.aux ++ [.plain] }, "ok")
  | ["cfg", "index", "text"] =>
    ({ st with cat := st.cat ++ [.text []], mcat := st.mcat ++ [none], aux := st.aux ++ [.plain] }, "ok")
  | ["cfg", "index", "facet"] =>
    ({ st with cat := st.cat ++ [.keyword []], mcat := st.mcat ++ [some (.facet [] (Facet.init []))],
               aux := st.aux ++ [.facet [] [] [] []] }, "ok")
  | ["cfg", "index", "textm"] =>
    let spaces := st.spaces
    ({ st with cat := st.cat ++ [.text []],
               mcat := st.mcat ++ [some (.text (cfgOf st.lc) (fun c => spaces.contains c) [] {})],
               aux := st.aux ++ [.text [] [] []] }, "ok")
  | "cfg" :: "dict" :: what :: rest =>
    let i := st.aux.length - 1
    match st.aux[i]?, st.mcat[i]? with
    | some (.facet names F0 paths T), some (some (.facet _ s)) =>
      match rest.mapM facet? with
      | none => (st, "bad-op")
      | some fs =>
        if what = "facets" then
          ({ st with aux := st.aux.set i (.facet names fs paths T),
                     mcat := st.mcat.set i (some (.facet names (Facet.init fs))) }, "ok")
        else if what = "names" then
          ({ st with aux := st.aux.set i (.facet fs F0 paths T), mcat := st.mcat.set i (some (.facet fs s)) }, "ok")
        else if what = "paths" then ({ st with aux := st.aux.set i (.facet names F0 fs T) }, "ok")
        else (st, "bad-op")
    | some (.text qs words T), some (some (.text cfg sp _ s)) =>
      match rest.mapM str? with
      | none => (st, "bad-op")
      | some ws =>
        if what = "words" then ({ st with aux := st.aux.set i (.text qs ws T) }, "ok")
        else if what = "queries" then
          ({ st with aux := st.aux.set i (.text ws words T), mcat := st.mcat.set i (some (.text cfg sp ws s)) }, "ok")
        else (st, "bad-op")
    | _, _ => (st, "bad-op")
  | "doc" :: i :: d :: vs =>
    match i.toNat?, d.toInt?, (if vs = ["none"] then some none else (intList? vs).map some) with
    | some i, some d, some v =>
      match st.aux[i]?, st.mcat[i]? with
      | some (.facet names F0 paths T), some (some (.facet _ s)) =>
        match (match v with | none => some none | some xs => (xs.mapM (nthD paths)).map some) with
        | none => (st, "bad-op")
        | some pv =>
          ({ st with aux := st.aux.set i (.facet names F0 paths (Facet.Spec.stepT T (.index d pv))),
                     mcat := st.mcat.set i (some (.facet names (Facet.indexDoc s d pv))) }, "ok")
      | some (.text qs words T), some (some (.text cfg sp _ s)) =>
        match (match v with | none => some none | some xs => (xs.mapM (nthD words)).map some) with
        | none => (st, "bad-op")
        | some wv =>
          let op : Text.Op := .index d (wv.map (fun ws => [Driver.TextS.joinSp ws]))
          ({ st with aux := st.aux.set i (.text qs words (Text.Spec.stepT cfg T op)),
                     mcat := st.mcat.set i (some (.text cfg sp qs (Text.step cfg true s op))) }, "ok")
      | some .plain, some m =>
        let (cat', out) := step st.cat toks
        if out == "ok" then
          match m with
          | none => ({ st with cat := cat' }, "ok")
          | some ix =>
            match setDocM ix d v with
            | some ix' => ({ st with cat := cat', mcat := st.mcat.set i (some ix') }, "ok")
            | none => (st, "bad-op")
        else (st, out)
      | _, _ => (st, "bad-op")
    | _, _, _ => (st, "bad-op")
  | "applye2e" :: rest =>
    match parseQ (rest.length + 1) rest, st.mcat.mapM id with
    | some (q0, []), some mcat =>
      let q := construct q0
      let spec := if hypsOK st && leavesAll (leafOK st) q then showRes (applyQ (catOf st) q) else "?"
      (st, showRes (applyQM mcat q) ++ " ## " ++ spec)
    | _, _ => (st, "bad-op")
  | "cfg" :: _ => (st, "ok")
  | _ =>
    let (_, out) := step (catOf st) toks
    (st, out)

def sess : Sess := { σ := St, st := {}, step := stepM }
end Driver.QueryS
