import HypatiaModel.Query
import HypatiaModel.QueryModel
import Driver.Sess
namespace Driver.QueryS
open Hyp Hyp.Query

def cmpOfString : String → Option Cmp
  | "eq" => some .eq | "noteq" => some .noteq | "gt" => some .gt | "ge" => some .ge
  | "lt" => some .lt | "le" => some .le | "any" => some .any | "notany" => some .notany
  | "all" => some .all | "notall" => some .notall | "contains" => some .contains
  | "notcontains" => some .notcontains | _ => none

def cmpToString : Cmp → String
  | .eq => "eq" | .noteq => "noteq" | .gt => "gt" | .ge => "ge" | .lt => "lt" | .le => "le"
  | .any => "any" | .notany => "notany" | .all => "all" | .notall => "notall"
  | .contains => "contains" | .notcontains => "notcontains"

def takeInts : Nat → List String → Option (List Int × List String)
  | 0, ts => some ([], ts)
  | n + 1, t :: ts => do
    let x ← t.toInt?
    let (xs, r) ← takeInts n ts
    pure (x :: xs, r)
  | _, [] => none

mutual
def parseQ : Nat → List String → Option (Q × List String)
  | 0, _ => none
  | fuel + 1, toks =>
    match toks with
    | "cmp" :: c :: i :: "one" :: x :: rest => do
      let c ← cmpOfString c; let i ← i.toNat?; let x ← x.toInt?
      pure (.cmp c i (.one x), rest)
    | "cmp" :: c :: i :: "many" :: n :: rest => do
      let c ← cmpOfString c; let i ← i.toNat?; let n ← n.toNat?
      let (xs, r) ← takeInts n rest
      pure (.cmp c i (.many xs), r)
    | "range" :: neg :: i :: lo :: hi :: el :: eh :: rest => do
      let neg ← boolTok? neg; let i ← i.toNat?; let lo ← lo.toInt?; let hi ← hi.toInt?
      let el ← boolTok? el; let eh ← boolTok? eh
      pure (.range neg i lo hi el eh, rest)
    | "and" :: n :: rest => do
      let n ← n.toNat?
      let (qs, r) ← parseN fuel n rest
      pure (.and qs, r)
    | "or" :: n :: rest => do
      let n ← n.toNat?
      let (qs, r) ← parseN fuel n rest
      pure (.or qs, r)
    | "not" :: rest => do
      let (q, r) ← parseQ fuel rest
      pure (.not q, r)
    | _ => none
def parseN : Nat → Nat → List String → Option (List Q × List String)
  | 0, _, _ => none
  | _ + 1, 0, toks => some ([], toks)
  | fuel + 1, n + 1, toks => do
    let (q, r) ← parseQ fuel toks
    let (qs, r') ← parseN fuel n r
    pure (q :: qs, r')
end

mutual
def showQ : Q → String
  | .cmp c i (.one x) => s!"cmp {cmpToString c} {i} one {x}"
  | .cmp c i (.many xs) => s!"cmp {cmpToString c} {i} many {xs.length}" ++ String.join (xs.map fun x => s!" {x}")
  | .range neg i lo hi el eh =>
    s!"range {if neg then 1 else 0} {i} {lo} {hi} {if el then 1 else 0} {if eh then 1 else 0}"
  | .and qs => s!"and {qs.length}" ++ showQs qs
  | .or qs => s!"or {qs.length}" ++ showQs qs
  | .not q => "not " ++ showQ q
def showQs : List Q → String
  | [] => ""
  | q :: qs => " " ++ showQ q ++ showQs qs
end

mutual
def hasNot : Q → Bool
  | .not _ => true
  | .and qs => hasNotL qs
  | .or qs => hasNotL qs
  | _ => false
def hasNotL : List Q → Bool
  | [] => false
  | q :: qs => hasNot q || hasNotL qs
end

def errStr : Err → String
  | .attributeError => "err AttributeError"
  | .typeError => "err TypeError"
  | .indexError => "err IndexError"
  | .valueError => "err ValueError"

def showRes : Except Err IdSet → String
  | .ok r => showIdSet r
  | .error e => errStr e

def setDoc (ix : IndexT) (d : Int) (v : Option (List Int)) : Option IndexT :=
  match ix, v with
  | .field t, none => some (.field (AMap.set t d none))
  | .field t, some [x] => some (.field (AMap.set t d (some x)))
  | .field _, _ => none
  | .keyword t, v => some (.keyword (AMap.set t d v))
  | .text t, v => some (.text (AMap.set t d v))

def hasNone : IndexT → Bool
  | .field t => t.any (fun p => p.2.isNone)
  | .keyword t => t.any (fun p => p.2.isNone)
  | .text t => t.any (fun p => p.2.isNone)

/-- every document known to the catalog has a value in every index -/
def total (cat : Catalog) : Bool :=
  let ds := docs cat
  cat.all (fun ix => !hasNone ix && ds.all (fun d => decide (d ∈ known ix)))

def step (cat : Catalog) (toks : List String) : Catalog × String :=
  match toks with
  | ["cfg", "index", "field"] => (cat ++ [.field []], "ok")
  | ["cfg", "index", "keyword"] => (cat ++ [.keyword []], "ok")
  | ["cfg", "index", "text"] => (cat ++ [.text []], "ok")
  | "cfg" :: _ => (cat, "ok")
  | "doc" :: i :: d :: vs =>
    match i.toNat?, d.toInt?, (if vs = ["none"] then some none else (intList? vs).map some) with
    | some i, some d, some v =>
      match cat[i]? with
      | some ix =>
        match setDoc ix d v with
        | some ix' => (cat.set i ix', "ok")
        | none => (cat, "bad-op")
      | none => (cat, "bad-op")
    | _, _, _ => (cat, "bad-op")
  | "apply" :: rest =>
    match parseQ (rest.length + 1) rest with
    | some (q0, []) =>
      let q := construct q0
      -- the specification determines the answer only when every operand has one, and for `Not`
      -- only on Total catalogs
      let spec := if hasNot q && !total cat then "?" else
        match sem cat q with
        | .ok r => showIdSet r
        | .error _ => "?"
      (cat, showRes (applyQ cat q) ++ " ## " ++ spec)
    | _ => (cat, "bad-op")
  | "applym" :: rest =>
    match parseQ (rest.length + 1) rest with
    | some (q0, []) => (cat, showRes (applyQ cat (construct q0)))
    | _ => (cat, "bad-op")
  | "opt" :: rest =>
    match parseQ (rest.length + 1) rest with
    | some (q0, []) =>
      let q := construct q0
      -- "succeeds whenever the unoptimised execution succeeds": on ill-typed trees (a comparator the
      -- index class lacks) success depends on evaluation order and nothing is required
      let spec := if wellTyped cat q then showRes (applyQ cat q) else "?"
      (cat, showRes (applyQ cat (optimize q)) ++ " ## " ++ spec)
    | _ => (cat, "bad-op")
  | "optsafe" :: rest =>
    -- the hypotheses of `c05_optimize_sound_partial`, evaluated on this tree and catalog
    match parseQ (rest.length + 1) rest with
    | some (q0, []) =>
      let q := construct q0
      let hz := hazards cat q
      let name : Hazard → String := fun h => match h with | .d2 => "D2" | .d3 => "D3" | .d5 => "D5"
      let out := if !wellTyped cat q then "illtyped"
        else if OptSafe cat q then "safe"
        else "unsafe:" ++ ",".intercalate (([Hazard.d2, .d3, .d5].filter (fun h => decide (h ∈ hz))).map name)
      (cat, out ++ " ## ?")
    | _ => (cat, "bad-op")
  | "optshape" :: rest =>
    match parseQ (rest.length + 1) rest with
    | some (q0, []) => let q := construct q0; (cat, showQ (optimize q) ++ " ## ?")
    | _ => (cat, "bad-op")
  | "negshape" :: rest =>
    match parseQ (rest.length + 1) rest with
    | some (q0, []) => let q := construct q0; (cat, showQ (negate q) ++ " ## ?")
    | _ => (cat, "bad-op")
  | "shape" :: rest =>
    match parseQ (rest.length + 1) rest with
    | some (q0, []) => (cat, showQ (construct q0) ++ " ## ?")
    | _ => (cat, "bad-op")
  | _ => (cat, "bad-op")

/-! The session also keeps the catalog of index *models* (C01/C02 states): every `doc` line is an
`index_doc` on the model of that index.  `applye2e` evaluates the tree over the models (`applyQM`) and, as
specification, over the specification tables (`applyQ`) – `c04_end_to_end` says the two agree. -/

def setDocM (ix : IndexM) (d : Int) (v : Option (List Int)) : Option IndexM :=
  match ix, v with
  | .field s, none => some (.field (Field.indexDoc s d none))
  | .field s, some [x] => some (.field (Field.indexDoc s d (some x)))
  | .field _, _ => none
  | .keyword s, v => some (.keyword (Keyword.indexDoc s d v))
  | .text t, v => some (.text (AMap.set t d v))

def stepM (st : Catalog × MCatalog) (toks : List String) : (Catalog × MCatalog) × String :=
  let (cat, mcat) := st
  match toks with
  | ["cfg", "index", "field"] => ((cat ++ [.field []], mcat ++ [.field Field.init]), "ok")
  | ["cfg", "index", "keyword"] => ((cat ++ [.keyword []], mcat ++ [.keyword Keyword.init]), "ok")
  | ["cfg", "index", "text"] => ((cat ++ [.text []], mcat ++ [.text []]), "ok")
  | "doc" :: i :: d :: vs =>
    let (cat', out) := step cat toks
    if out == "ok" then
      match i.toNat?, d.toInt?, (if vs = ["none"] then some none else (intList? vs).map some) with
      | some i, some d, some v =>
        match mcat[i]? with
        | some ix =>
          match setDocM ix d v with
          | some ix' => ((cat', mcat.set i ix'), "ok")
          | none => ((cat, mcat), "bad-op")
        | none => ((cat, mcat), "bad-op")
      | _, _, _ => ((cat, mcat), "bad-op")
    else ((cat, mcat), out)
  | "applye2e" :: rest =>
    match parseQ (rest.length + 1) rest with
    | some (q0, []) =>
      let q := construct q0
      ((cat, mcat), showRes (applyQM mcat q) ++ " ## " ++ showRes (applyQ cat q))
    | _ => ((cat, mcat), "bad-op")
  | _ =>
    let (cat', out) := step cat toks
    ((cat', mcat), out)

def sess : Sess := { σ := Catalog × MCatalog, st := ([], []), step := stepM }
end Driver.QueryS
