import Driver.Sess
namespace Driver.ReadsS
/-- reads cannot change a model state: they have type `State → Args → Result`.  The session only
acknowledges; the observation is entirely on the implementation side. -/
def step (_ : Unit) (toks : List String) : Unit × String :=
  match toks with
  | "cfg" :: _ => ((), "ok")
  | ["op"] => ((), "ok")
  | ["read"] => ((), "unchanged")
  | _ => ((), "bad-op")
def sess : Sess := { σ := Unit, st := (), step := step }
end Driver.ReadsS
