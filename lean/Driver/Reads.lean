import HypatiaModel.ConcurrencyReads
import HypatiaModel.ConcurrencyFacetReads
import Driver.Concurrency
import Driver.Sess
namespace Driver.ReadsS
open Hyp Hyp.CIdx Hyp.Alias Driver.ConcurrencyS

/-!
Session `reads` (C18).  In the pure models a read has type `State → Args → Result`, so for an
ordinary read the session only acknowledges (`unchanged`); the observation is on the
implementation side.  `read prov …` is answered from the **object-level** model: the catalog
operations of the case are replayed on the heaps of persistent objects (`ConcurrencyIndex.lean`,
`ConcurrencyText.lean`), the read runs on them (`ConcurrencyReads.lean`), and the answer is the
provenance of the container it hands back – `stored` (a container of the index: two calls return
the very same object) or `fresh` (allocated by the call).
-/

structure St where
  cutoff : Nat := 10
  x : Txs := {}

def showProv : Prov → String
  | .stored => "prov stored"
  | .fresh => "prov fresh"
  | .caller => "prov caller"

/-- the word of `props/c09.py: WORDS[a % 10]` has an in-vocabulary id in text index `t` -/
def wordWid (t : XTx) (a : Nat) : Option Nat :=
  match AMap.get t.heap.wids (a % 10) with
  | some wid => if (AMap.get t.heap.wordinfo wid).isSome then some wid else none
  | none => none

def prov (st : St) (what : String) (a : Nat) : Option Prov :=
  let x := st.x
  match what with
  | "fdocids" => some (provF x.f.heap x.f.docids.2)
  | "fni" => some (provF x.f.heap x.f.notIndexed.2)
  | "feq" => some (provF x.f.heap (.obj (x.f.scan (fun v => v == Int.ofNat (a % 8))).2))
  | "frange" => some (provF x.f.heap (.obj (x.f.scan (fun v => Int.ofNat (a % 4) ≤ v && v ≤ Int.ofNat (a % 4 + 3))).2))
  | "kdocids" => some (provK x.k.heap x.k.docids.2)
  | "kni" => some (provK x.k.heap x.k.notIndexed.2)
  | "keq" => some (provK x.k.heap (.obj (x.k.searchOne (Int.ofNat (a % 5))).2))
  | "kany" => some (provK x.k.heap (.obj (x.k.searchOr [Int.ofNat (a % 5), Int.ofNat ((a + 1) % 5)]).2))
  | "cdocids" => some (provK x.c.heap x.c.docids.2)
  | "cni" => some (provK x.c.heap x.c.notIndexed.2)
  | "tapply" =>
    match wordWid x.t a with
    | none => some (Alias.trivial 0 true .fresh)                    -- `_trivial([])`: a new bucket
    | some wid => some (provT x.t.heap (x.t.applyOkapi (fun _ w => w) id wid).2)
  | "uapply" =>
    match wordWid x.u a with
    | none => some (Alias.trivial 0 true .fresh)
    | some wid =>
      match (x.u.applyCosine false id id wid).2 with
      | some o => some (provT x.u.heap o)
      | none => none
  | _ => none

/-- arguments of `read prov ccounts a` (the same derivation as `props/c18.py: counts_args`):
docids `a % 8, (a / 3) % 8, a % 8, 97` (a repeated and an unknown id), omit list by `a % 4`:
none / `a:b` / `d` / `a:b:c, f`; `include_facets` = configured facets minus the omit paths' prefixes -/
def countsArgs (a : Nat) : List Int × List Int :=
  let ds : List Int := [Int.ofNat (a % 8), Int.ofNat ((a / 3) % 8), Int.ofNat (a % 8), 97]
  let om : List Nat := match a % 4 with
    | 0 => []
    | 1 => [1]
    | 2 => [3]
    | _ => [2, 5]
  let eff := om.foldl (fun acc j => (facetPrefixes j).foldl LSet.insert acc) []
  (ds, LSet.diff allFacets eff)

/-- `FacetIndex.counts` on the object-level heap: the dictionary (sorted by facet number), provided
the call logged no write and left the heap's posting objects alone -/
def countsRead (st : St) (a : Nat) : String :=
  let args := countsArgs a
  let r := st.x.c.facetCounts args.2 args.1
  if r.1.writes.length = st.x.c.writes.length ∧ r.1.next = st.x.c.next then
    let keys := sortInts (r.2.map (·.1))
    "prov fresh counts=" ++ ",".intercalate (keys.map (fun k => s!"{k}:{(AMap.get r.2 k).getD 0}"))
  else "prov WROTE"

def step (st : St) (toks : List String) : St × String :=
  match toks with
  | ["cfg", "cutoff", n] => match n.toNat? with | some n => ({ st with cutoff := n }, "ok") | none => (st, "bad-op")
  | "cfg" :: _ => (st, "ok")
  | ["op"] => (st, "ok")                                -- (old replays: no object-level replay)
  | "op" :: _ :: rest =>
    match applyOp 2 st.cutoff st.x rest with
    | some x => ({ st with x := x }, "ok")
    | none => (st, "bad-op")
  | ["read"] => (st, "unchanged")
  | ["read", "prov", "ccounts", a] =>
    match a.toNat? with
    | none => (st, "bad-op")
    | some a => (st, countsRead st a)
  | ["read", "prov", what, a] =>
    match a.toNat? with
    | none => (st, "bad-op")
    | some a => match prov st what a with
      | some p => (st, showProv p)
      | none => (st, "bad-op")
  | _ => (st, "bad-op")

def sess : Sess := { σ := St, st := {}, step := step }
end Driver.ReadsS
