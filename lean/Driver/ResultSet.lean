import HypatiaModel.ResultSet
import HypatiaModel.Spec.ResultSetSpec
import Driver.FieldSort
namespace Driver.ResultSetS
open Hyp Hyp.Field Hyp.RSet

/-!
Session `resultset`: numbered field indexes and numbered result-set slots.

  ix <i> index d v | ix <i> unindex d | ix <i> reset                     index commands of session `field`
  new <slot> <kind> <numids|auto> <resolver> d1 d2 …                       ResultSet(ids, numids, resolver)
        kind: list tuple pyset frozenset ifset (collections, ids in iteration order) | gen iter (one-shot)
        resolver: none | plus (d ↦ object d+1000) | neg (d ↦ object -d-1)
  query <slot> <i> <resolver> <ge|le|gt|lt|eq> c                           index.<op>(c).execute(resolver=…)
  first <slot> <resolve> | one <slot> <resolve> | len <slot>
  all <slot> <resolve> | iter <slot> | take <slot> k                       drained item by item
  sort <src> <dst> <i> <reverse> <limit> <sort_type|none> <raise>          dst = src.sort(index i, …); the same
        call is made once more before and that result drained, so the answer shows len and content
  intersect <src> <dst> rs <other> | intersect <src> <dst> <kind> d1 d2 …  dst = src.intersect(…)

Answers `model ## spec`; the spec part is computed from the sequence the slot denotes and is given where
the property determines the answer (otherwise the model's answer is repeated).
-/

structure St where
  idx : AMap Nat FieldS.St := []
  slots : AMap Nat (RS Int) := []

def getIdx (st : St) (i : Nat) : FieldS.St := (AMap.get st.idx i).getD {}

def resolver? (t : String) : Option (Option (Int → Int)) :=
  match t with
  | "none" => some none
  | "plus" => some (some (fun d => d + 1000))
  | "neg" => some (some (fun d => -d - 1))
  | _ => none

def showVal : Val Int → String
  | .id d => toString d
  | .obj r => "@" ++ toString r

def showErr : Err → String
  | .unsortable ds => "err Unsortable " ++ showIdSet ds.eraseDups
  | .valueError => "err ValueError"
  | .noResults => "err NoResults"
  | .multipleResults => "err MultipleResults"

def showOptVal : Except Err (Option (Val Int)) → String
  | .ok none => "none"
  | .ok (some v) => showVal v
  | .error e => showErr e

def showDrain (items : List (Val Int)) (e : Option Err) : String :=
  "[" ++ " ".intercalate (items.map showVal) ++ "] " ++ (match e with | none => "ok" | some e => showErr e)

def isStreamKind (k : String) : Option Bool :=
  if k = "gen" || k = "iter" then some true
  else if k = "list" || k = "tuple" || k = "pyset" || k = "frozenset" || k = "ifset" then some false
  else none

def mkIds (kind : String) (ds : List Int) : Option Ids := do
  let s ← isStreamKind kind
  pure (if s then .stream { ids := ds } else .coll ds)

def consistentB (rs : RS Int) : Bool := decide (Spec.Consistent rs)

def setSlot (st : St) (k : Nat) (rs : RS Int) : St := { st with slots := AMap.set st.slots k rs }

def runQuery (s : State Int) (op : String) (c : Int) : Option (List Int) :=
  match op with
  | "ge" => some (applyGe s c)
  | "le" => some (applyLe s c)
  | "gt" => some (applyGt s c)
  | "lt" => some (applyLt s c)
  | "eq" => some (applyEq s c)
  | _ => none

/-- `len=… <content>` of a freshly sorted result set (model) -/
def showSorted (rs : RS Int) : String :=
  let c := rs.ids.contents
  s!"len={rs.len} " ++ (if rs.ids.hasLen then "list " else "gen ") ++ FieldSortS.showList c.1 ++
    (match c.2 with | none => " ok" | some ds => " Unsortable " ++ showIdSet ds.eraseDups)

def doSort (st : St) (src dst i : Nat) (rev : Bool) (lim : Option Int) (ty : Option SortType)
    (ru : Bool) : Option (St × String) := do
  let rs ← AMap.get st.slots src
  let ix := getIdx st i
  let r := rs.sort (Field.sort ix.s) rev lim ty ru
  let st1 := setSlot st src r.1
  match r.2 with
  | .error e =>
    -- the exception is the whole answer; where the property determines it, it is the model's
    pure (st1, showErr e)
  | .ok rs' =>
    let st2 := setSlot st1 dst rs'
    let sq := Spec.seq rs
    let allSortable := sq.all (fun d => Field.Spec.sortable ix.t d)
    let n := Field.Spec.cut (lim.map Int.toNat) (Field.Spec.sortables ix.t sq).length
    let specLen := if consistentB rs && allSortable then n else rs'.len
    pure (st2, showSorted rs' ++ " ## " ++ s!"len={specLen} " ++
      FieldSortS.specAnswer ix.t sq rev lim (rs.effType ty) ru)

def step (st : St) (toks : List String) : St × String :=
  let bad := (st, "bad-op")
  match toks with
  | "cfg" :: _ => (st, "ok")
  | "ix" :: i :: rest =>
    match i.toNat? with
    | some i =>
      let (s', out) := FieldS.step (getIdx st i) rest
      ({ st with idx := AMap.set st.idx i s' }, out)
    | none => bad
  | "new" :: slot :: kind :: num :: res :: ds =>
    match slot.toNat?, intList? ds, resolver? res with
    | some k, some ds, some res =>
      match mkIds kind ds, (if num = "auto" then some ds.length else num.toNat?) with
      | some ids, some n => (setSlot st k { ids := ids, numids := n, resolver := res }, "ok")
      | _, _ => bad
    | _, _, _ => bad
  | ["query", slot, i, res, op, c] =>
    match slot.toNat?, i.toNat?, resolver? res, c.toInt? with
    | some k, some i, some res, some c =>
      match runQuery (getIdx st i).s op c with
      | some ids => (setSlot st k (ofQuery (sortInts ids) res), "ok")
      | none => bad
    | _, _, _, _ => bad
  | ["first", slot, b] =>
    match slot.toNat?.bind (AMap.get st.slots), boolTok? b with
    | some rs, some b =>
      let r := rs.first b
      let spec := if (Spec.pending rs).isNone || !(Spec.seq rs).isEmpty
        then showOptVal (.ok (Spec.first (rs.present b) (Spec.seq rs))) else showOptVal r.2
      (setSlot st slot.toNat! r.1, showOptVal r.2 ++ " ## " ++ spec)
    | _, _ => bad
  | ["one", slot, b] =>
    match slot.toNat?.bind (AMap.get st.slots), boolTok? b with
    | some rs, some b =>
      let r := rs.one b
      let spec := if consistentB rs then showOptVal (Spec.one (rs.present b) (Spec.seq rs)) else showOptVal r.2
      (setSlot st slot.toNat! r.1, showOptVal r.2 ++ " ## " ++ spec)
    | _, _ => bad
  | ["len", slot] =>
    match slot.toNat?.bind (AMap.get st.slots) with
    | some rs =>
      let spec := if consistentB rs then (Spec.seq rs).length else rs.len
      (st, toString rs.len ++ " ## " ++ toString spec)
    | none => bad
  | ["all", slot, b] =>
    match slot.toNat?.bind (AMap.get st.slots), boolTok? b with
    | some rs, some b =>
      let r := rs.all b
      (setSlot st slot.toNat! r.1, showDrain r.2.1 r.2.2 ++ " ## " ++
        showDrain ((Spec.seq rs).map (rs.present b)) ((Spec.pending rs).map Err.unsortable))
    | _, _ => bad
  | ["iter", slot] =>
    match slot.toNat?.bind (AMap.get st.slots) with
    | some rs =>
      let r := rs.iter
      (setSlot st slot.toNat! r.1, showDrain r.2.1 r.2.2 ++ " ## " ++
        showDrain ((Spec.seq rs).map (rs.present true)) ((Spec.pending rs).map Err.unsortable))
    | none => bad
  | ["take", slot, k] =>
    match slot.toNat?.bind (AMap.get st.slots), k.toNat? with
    | some rs, some k =>
      let r := rs.take k
      (setSlot st slot.toNat! r.1, showDrain r.2.1 r.2.2)
    | _, _ => bad
  | ["sort", src, dst, i, rev, lim, ty, ru] =>
    match src.toNat?, dst.toNat?, i.toNat?, boolTok? rev, optInt? lim, FieldSortS.sortType? ty, boolTok? ru with
    | some src, some dst, some i, some rev, some lim, some ty, some ru =>
      (doSort st src dst i rev lim ty ru).getD bad
    | _, _, _, _, _, _, _ => bad
  | ["intersect", src, dst, "rs", other] =>
    match src.toNat?, dst.toNat?, other.toNat? with
    | some src, some dst, some other =>
      match AMap.get st.slots src, AMap.get st.slots other with
      | some rs, some o =>
        if src = other then
          -- the receiver is its own argument: `x in self.ids` while iterating it
          let r := rs.intersectRS rs
          let st1 := setSlot st src (match rs.ids with | .coll _ => r.1 | .stream _ => r.2.1)
          match r.2.2 with
          | .error e => (st1, showErr e)
          | .ok res => (setSlot st1 dst res, s!"ok len={res.len}")
        else
          let r := rs.intersectRS o
          let st1 := setSlot (setSlot st src r.1) other r.2.1
          let spec := fun (m : String) =>
            if (Spec.pending rs).isNone && (Spec.pending o).isNone
            then s!"ok len={(Spec.intersect (Spec.seq rs) (Spec.seq o)).length}" else m
          match r.2.2 with
          | .error e => (st1, showErr e ++ " ## " ++ spec (showErr e))
          | .ok res => (setSlot st1 dst res, s!"ok len={res.len}" ++ " ## " ++ spec s!"ok len={res.len}")
      | _, _ => bad
    | _, _, _ => bad
  | "intersect" :: src :: dst :: kind :: ds =>
    match src.toNat?, dst.toNat?, intList? ds with
    | some src, some dst, some ds =>
      match AMap.get st.slots src, mkIds kind ds with
      | some rs, some arg =>
        let r := rs.intersectIds arg
        let st1 := setSlot st src r.1
        let spec := fun (m : String) =>
          if (Spec.pending rs).isNone then s!"ok len={(Spec.intersect (Spec.seq rs) ds).length}" else m
        match r.2.2 with
        | .error e => (st1, showErr e ++ " ## " ++ spec (showErr e))
        | .ok res => (setSlot st1 dst res, s!"ok len={res.len}" ++ " ## " ++ spec s!"ok len={res.len}")
      | _, _ => bad
    | _, _, _ => bad
  | _ => bad

def sess : Sess := { σ := St, st := {}, step := step }
end Driver.ResultSetS
