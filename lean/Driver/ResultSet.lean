import HypatiaModel.ResultSet
import HypatiaModel.ResultSetObj
import HypatiaModel.Spec.ResultSetSpec
import Driver.FieldSort
namespace Driver.ResultSetS
open Hyp Hyp.Field Hyp.RSet Hyp.RSet.Obj

/-!
Session `resultset`: numbered field indexes and numbered result-set slots.

  ix <i> index d v | ix <i> unindex d | ix <i> reset                     index commands of session `field`
  new <slot> <kind> <numids|auto> <resolver> d1 d2 …                       ResultSet(ids, numids, resolver)
        kind: list tuple pyset frozenset ifset (collections, ids in iteration order) | gen iter (one-shot)
        resolver: none | plus (d ↦ object d+1000) | neg (d ↦ object -d-1) | plus/m/r, neg/m/r: the same, but
        the resolver raises KeyError for every id d with d mod m = r (a stale docid)
  query <slot> <i> <resolver> <ge|le|gt|lt|eq> c                           index.<op>(c).execute(resolver=…)
  first <slot> <resolve> | one <slot> <resolve> | len <slot>
  all <slot> <resolve> | iter <slot> | take <slot> k                       drained item by item
  sort <src> <dst> <i> <reverse> <limit> <sort_type|none> <raise>          dst = src.sort(index i, …); the same
        call is made once more before and that result drained, so the answer shows len and content
  intersect <src> <dst> rs <other> | intersect <src> <dst> <kind> d1 d2 …  dst = src.intersect(…)
  hall <slot> <h> <resolve> | hiter <slot> <h>                             h = slot.all(resolve) | iter(slot): only kept
  hdrain <h> | htake <h> k                                                 the loop over what was kept (all / k items)
        (object-level: `HypatiaModel/ResultSetObj.lean`; the spec answers for `hdrain` while nothing but
        first / one / len happened to the result set since `h` was taken: the whole sequence)

Answers `model ## spec`; the spec part is computed from the sequence the slot denotes and is given where
the property determines the answer (otherwise the model's answer is repeated).
-/

/-- what a resolver gives: an object, or `none` when it raises KeyError -/
abbrev R := Option Int

def bad (r : R) : Bool := r.isNone

structure HEntry where
  h : Handle R
  slot : Nat
  born : Nat
  pulled : Bool := false

structure St where
  idx : AMap Nat FieldS.St := []
  slots : AMap Nat (RS R) := []
  tow : AMap Nat Tower := []           -- the iterator objects behind the stream-valued slots
  handles : AMap Nat HEntry := []
  epoch : AMap Nat Nat := []           -- per slot: bumped by everything but first / one / len
  nextObj : Nat := 0

def getIdx (st : St) (i : Nat) : FieldS.St := (AMap.get st.idx i).getD {}

def resolver? (t : String) : Option (Option (Int → R)) :=
  let base : String → Option (Int → Int) := fun n =>
    if n = "plus" then some (fun d => d + 1000) else if n = "neg" then some (fun d => -d - 1) else none
  match t.splitOn "/" with
  | ["none"] => some none
  | [n] => (base n).map (fun f => some (fun d => some (f d)))
  | [n, m, r] =>
    match base n, m.toNat?, r.toNat? with
    | some f, some m, some r => some (some (fun d => if d % (m : Int) = (r : Int) then none else some (f d)))
    | _, _, _ => none
  | _ => none

def showVal : Val R → String
  | .id d => toString d
  | .obj (some r) => "@" ++ toString r
  | .obj none => "err KeyError"

def showErr : Err → String
  | .unsortable ds => "err Unsortable " ++ showIdSet ds.eraseDups
  | .valueError => "err ValueError"
  | .noResults => "err NoResults"
  | .multipleResults => "err MultipleResults"

def showOptVal : Except Err (Option (Val R)) → String
  | .ok none => "none"
  | .ok (some v) => showVal v
  | .error e => showErr e

def showDrain (items : List (Val R)) (e : Option Err) : String :=
  "[" ++ " ".intercalate (items.map showVal) ++ "] " ++ (match e with | none => "ok" | some e => showErr e)

/-- a loop that ended by itself, by the resolver's KeyError, or by the Unsortable of the iterator -/
def showPulled (p : Pulled R) (raised : Option (List Int)) : String :=
  "[" ++ " ".intercalate (p.items.map showVal) ++ "] " ++
    (if p.failed then "err KeyError" else
      match (if p.hitEnd then raised else none) with
      | none => "ok"
      | some ds => showErr (.unsortable ds))

def isStreamKind (k : String) : Option Bool :=
  if k = "gen" || k = "iter" then some true
  else if k = "list" || k = "tuple" || k = "pyset" || k = "frozenset" || k = "ifset" then some false
  else none

def mkIds (kind : String) (ds : List Int) : Option Ids := do
  let s ← isStreamKind kind
  pure (if s then .stream { ids := ds } else .coll ds)

def consistentB (rs : RS R) : Bool := decide (Spec.Consistent rs)

def bump (st : St) (k : Nat) : St :=
  { st with epoch := AMap.set st.epoch k ((AMap.get st.epoch k).getD 0 + 1) }

/-- a NEW result-set object in slot `k` (a stream gets a fresh tower) -/
def setSlot (st : St) (k : Nat) (rs : RS R) : St :=
  let st := bump st k
  match rs.ids with
  | .coll _ => { st with slots := AMap.set st.slots k rs, tow := AMap.erase st.tow k }
  | .stream _ =>
    { st with slots := AMap.set st.slots k rs, nextObj := st.nextObj + 1,
              tow := AMap.set st.tow k { obj := st.nextObj, height := 0, topLen := 0 } }

/-- the SAME result-set object after one of its methods ran (`pushed`: `first()` found an id in a stream) -/
def updSlot (st : St) (k : Nat) (rs' : RS R) (pushed : Bool := false) (peek : Bool := false) : St :=
  let st := if peek then st else bump st k
  let tow' := match (AMap.get st.slots k).map (·.ids), rs'.ids, AMap.get st.tow k with
    | some (.stream g), .stream g', some t => AMap.set st.tow k (t.sync pushed g g')
    | _, .stream _, _ => st.tow
    | _, .coll _, _ => AMap.erase st.tow k
  { st with slots := AMap.set st.slots k rs', tow := tow' }

/-- no kept `_resolve_all` generator still waits to read slot `k` (a slot is not reused then) -/
def replaceable (st : St) (k : Nat) : Bool :=
  st.handles.all (fun e => match e.2.h with | .lazy s _ => s != k | _ => true)

/-- `list(rs.all(resolve))` / `list(islice(iter(rs), k))` when the resolver may raise: the loop of
`_resolve_all` ends at the first id it raises for, which has been pulled from a one-shot `ids` -/
def drainSlot (rs : RS R) (resolve : Bool) (k : Option Nat) : Option (RS R × String) :=
  let res := if resolve then rs.resolver else none
  let p := plan (Spec.seq rs) k res bad
  if p.failed then some ((rs.take p.n).1, showPulled p none) else none

def specDrain (rs : RS R) (resolve : Bool) : String :=
  showPulled (plan (Spec.seq rs) none (if resolve then rs.resolver else none) bad) (Spec.pending rs)

/-- `k` items (none: all) of the loop over a kept object -/
def pullStarted (st : St) (hid : Nat) (e : HEntry) (k : Option Nat) : St × String :=
  let keep := fun (st : St) (h : Handle R) =>
    { st with handles := AMap.set st.handles hid { e with h := h, pulled := true } }
  match e.h with
  | .coll xs => (keep st e.h, showPulled (plan xs k none bad) none)
  | .own g res =>
    let p := plan g.ids k res bad
    let g1 : Stream := { g with ids := g.ids.drop p.n }
    if p.failed then (keep st .dead, showPulled p none)
    else if p.hitEnd then let f := finish g1; (keep st (.own f.1 res), showPulled p f.2)
    else (keep st (.own g1 res), showPulled p none)
  | .alias slot obj level res =>
    match AMap.get st.slots slot, AMap.get st.tow slot with
    | some rs, some t =>
      match rs.ids with
      | .stream g =>
        if t.obj = obj then
          let p := plan (avail t level g) k res bad
          let c := consume t level p.n g
          let f := if p.hitEnd then finish c.2 else (c.2, none)
          let st1 := bump st slot
          let st2 := { st1 with slots := AMap.set st1.slots slot { rs with ids := .stream f.1 },
                                tow := AMap.set st1.tow slot c.1 }
          (keep st2 (if p.failed then .dead else e.h), showPulled p f.2)
        else (keep st .dead, "[] ok")
      | .coll _ => (keep st .dead, "[] ok")
    | _, _ => (keep st .dead, "[] ok")
  | .lazy _ _ => (st, "bad-op")
  | .dead => (keep st .dead, "[] ok")

def pullHandle (st : St) (hid : Nat) (k : Option Nat) : Option (St × String) := do
  let e ← AMap.get st.handles hid
  match e.h with
  | .lazy slot f =>
    if k = some 0 then pure (st, "[] ok")      -- islice(g, 0) never calls next(): the body does not start
    else
      let rs ← AMap.get st.slots slot
      pure (pullStarted st hid { e with h := start slot rs (AMap.get st.tow slot) f } k)
  | _ => pure (pullStarted st hid e k)

/-- the property's answer for the loop over a kept object while nothing but first / one / len happened to the
result set since it was taken: the whole sequence (through the resolver if `all()` resolves) -/
def specHandle (st : St) (e : HEntry) : Option String := do
  if e.pulled || (AMap.get st.epoch e.slot).getD 0 != e.born then none
  let rs ← AMap.get st.slots e.slot
  let res : Option (Int → R) := match e.h with
    | .lazy _ f => some f
    | .own _ r => r
    | .alias _ _ _ r => r
    | _ => none
  pure (showPulled (plan (Spec.seq rs) none res bad) (Spec.pending rs))

def runQuery (s : State Int) (op : String) (c : Int) : Option (List Int) :=
  match op with
  | "ge" => some (applyGe s c)
  | "le" => some (applyLe s c)
  | "gt" => some (applyGt s c)
  | "lt" => some (applyLt s c)
  | "eq" => some (applyEq s c)
  | _ => none

/-- `len=… <content>` of a freshly sorted result set (model) -/
def showSorted (rs : RS R) : String :=
  let c := rs.ids.contents
  s!"len={rs.len} " ++ (if rs.ids.hasLen then "list " else "gen ") ++ FieldSortS.showList c.1 ++
    (match c.2 with | none => " ok" | some ds => " Unsortable " ++ showIdSet ds.eraseDups)

def doSort (st : St) (src dst i : Nat) (rev : Bool) (lim : Option Int) (ty : Option SortType)
    (ru : Bool) : Option (St × String) := do
  let rs ← AMap.get st.slots src
  let ix := getIdx st i
  let r := rs.sort (Field.sort ix.s) rev lim ty ru
  let st1 := updSlot st src r.1
  if !replaceable st1 dst then none else
  match r.2 with
  | .error e =>
    -- the exception is the whole answer; where the property determines it, it is the model's
    pure (st1, showErr e)
  | .ok rs' =>
    let st2 := setSlot st1 dst rs'
    let sq := Spec.seq rs
    let allSortable := sq.all (fun d => Field.Spec.sortable ix.t d)
    let n := Field.Spec.cut (lim.map Int.toNat) (Field.Spec.sortables ix.t sq).length
    let specLen := if consistentB rs && allSortable then n else rs'.len
    pure (st2, showSorted rs' ++ " ## " ++ s!"len={specLen} " ++
      FieldSortS.specAnswer ix.t sq rev lim (rs.effType ty) ru)

/-- `first()` found an id in a one-shot `ids`: it stacked a chain object holding it -/
def pushed (rs : RS R) (r : Except Err (Option (Val R))) : Bool :=
  match rs.ids, r with
  | .stream _, .ok (some _) => true
  | _, _ => false

def step (st : St) (toks : List String) : St × String :=
  let bad := (st, "bad-op")
  match toks with
  | "cfg" :: _ => (st, "ok")
  | "ix" :: i :: rest =>
    match i.toNat? with
    | some i =>
      let (s', out) := FieldS.step (getIdx st i) rest
      ({ st with idx := AMap.set st.idx i s' }, out)
    | none => bad
  | "new" :: slot :: kind :: num :: res :: ds =>
    match slot.toNat?, intList? ds, resolver? res with
    | some k, some ds, some res =>
      match mkIds kind ds, (if num = "auto" then some ds.length else num.toNat?) with
      | some ids, some n =>
        if replaceable st k then (setSlot st k { ids := ids, numids := n, resolver := res }, "ok") else bad
      | _, _ => bad
    | _, _, _ => bad
  | ["query", slot, i, res, op, c] =>
    match slot.toNat?, i.toNat?, resolver? res, c.toInt? with
    | some k, some i, some res, some c =>
      match runQuery (getIdx st i).s op c with
      | some ids => if replaceable st k then (setSlot st k (ofQuery (sortInts ids) res), "ok") else bad
      | none => bad
    | _, _, _, _ => bad
  | ["first", slot, b] =>
    match slot.toNat?.bind (AMap.get st.slots), boolTok? b with
    | some rs, some b =>
      let r := rs.first b
      let spec := if (Spec.pending rs).isNone || !(Spec.seq rs).isEmpty
        then showOptVal (.ok (Spec.first (rs.present b) (Spec.seq rs))) else showOptVal r.2
      (updSlot st slot.toNat! r.1 (pushed rs r.2) true, showOptVal r.2 ++ " ## " ++ spec)
    | _, _ => bad
  | ["one", slot, b] =>
    match slot.toNat?.bind (AMap.get st.slots), boolTok? b with
    | some rs, some b =>
      let r := rs.one b
      let spec := if consistentB rs then showOptVal (Spec.one (rs.present b) (Spec.seq rs)) else showOptVal r.2
      (updSlot st slot.toNat! r.1 (pushed rs r.2) true, showOptVal r.2 ++ " ## " ++ spec)
    | _, _ => bad
  | ["len", slot] =>
    match slot.toNat?.bind (AMap.get st.slots) with
    | some rs =>
      let spec := if consistentB rs then (Spec.seq rs).length else rs.len
      (st, toString rs.len ++ " ## " ++ toString spec)
    | none => bad
  | ["all", slot, b] =>
    match slot.toNat?.bind (AMap.get st.slots), boolTok? b with
    | some rs, some b =>
      match drainSlot rs b none with
      | some (rs', out) => (updSlot st slot.toNat! rs', out ++ " ## " ++ specDrain rs b)
      | none =>
      let r := rs.all b
      (updSlot st slot.toNat! r.1, showDrain r.2.1 r.2.2 ++ " ## " ++ specDrain rs b)
    | _, _ => bad
  | ["iter", slot] =>
    match slot.toNat?.bind (AMap.get st.slots) with
    | some rs =>
      match drainSlot rs true none with
      | some (rs', out) => (updSlot st slot.toNat! rs', out ++ " ## " ++ specDrain rs true)
      | none =>
      let r := rs.iter
      (updSlot st slot.toNat! r.1, showDrain r.2.1 r.2.2 ++ " ## " ++ specDrain rs true)
    | none => bad
  | ["take", slot, k] =>
    match slot.toNat?.bind (AMap.get st.slots), k.toNat? with
    | some rs, some k =>
      match drainSlot rs true (some k) with
      | some (rs', out) => (updSlot st slot.toNat! rs', out)
      | none =>
      let r := rs.take k
      (updSlot st slot.toNat! r.1, showDrain r.2.1 r.2.2)
    | _, _ => bad
  | ["sort", src, dst, i, rev, lim, ty, ru] =>
    match src.toNat?, dst.toNat?, i.toNat?, boolTok? rev, optInt? lim, FieldSortS.sortType? ty, boolTok? ru with
    | some src, some dst, some i, some rev, some lim, some ty, some ru =>
      (doSort st src dst i rev lim ty ru).getD bad
    | _, _, _, _, _, _, _ => bad
  | ["intersect", src, dst, "rs", other] =>
    match src.toNat?, dst.toNat?, other.toNat? with
    | some src, some dst, some other =>
      match AMap.get st.slots src, AMap.get st.slots other with
      | some rs, some o =>
        if src = other then
          -- the receiver is its own argument: `x in self.ids` while iterating it
          let r := rs.intersectRS rs
          let st1 := updSlot st src (match rs.ids with | .coll _ => r.1 | .stream _ => r.2.1)
          if !replaceable st1 dst then bad else
          match r.2.2 with
          | .error e => (st1, showErr e)
          | .ok res => (setSlot st1 dst res, s!"ok len={res.len}")
        else
          let r := rs.intersectRS o
          let st1 := updSlot (updSlot st src r.1) other r.2.1
          if !replaceable st1 dst then bad else
          let spec := fun (m : String) =>
            if (Spec.pending rs).isNone && (Spec.pending o).isNone
            then s!"ok len={(Spec.intersect (Spec.seq rs) (Spec.seq o)).length}" else m
          match r.2.2 with
          | .error e => (st1, showErr e ++ " ## " ++ spec (showErr e))
          | .ok res => (setSlot st1 dst res, s!"ok len={res.len}" ++ " ## " ++ spec s!"ok len={res.len}")
      | _, _ => bad
    | _, _, _ => bad
  | "intersect" :: src :: dst :: kind :: ds =>
    match src.toNat?, dst.toNat?, intList? ds with
    | some src, some dst, some ds =>
      match AMap.get st.slots src, mkIds kind ds with
      | some rs, some arg =>
        let r := rs.intersectIds arg
        let st1 := updSlot st src r.1
        if !replaceable st1 dst then bad else
        let spec := fun (m : String) =>
          if (Spec.pending rs).isNone then s!"ok len={(Spec.intersect (Spec.seq rs) ds).length}" else m
        match r.2.2 with
        | .error e => (st1, showErr e ++ " ## " ++ spec (showErr e))
        | .ok res => (setSlot st1 dst res, s!"ok len={res.len}" ++ " ## " ++ spec s!"ok len={res.len}")
      | _, _ => bad
    | _, _, _ => bad
  | ["hall", slot, h, b] =>
    match slot.toNat?, h.toNat?, boolTok? b with
    | some slot, some h, some b =>
      match AMap.get st.slots slot with
      | some rs =>
        let e : HEntry := { h := allHandle slot rs (AMap.get st.tow slot) b, slot := slot,
                            born := (AMap.get st.epoch slot).getD 0 }
        ({ st with handles := AMap.set st.handles h e }, "ok")
      | none => bad
    | _, _, _ => bad
  | ["hiter", slot, h] =>
    match slot.toNat?, h.toNat? with
    | some slot, some h =>
      match AMap.get st.slots slot with
      | some rs =>
        let e : HEntry := { h := iterHandle slot rs (AMap.get st.tow slot), slot := slot,
                            born := (AMap.get st.epoch slot).getD 0 }
        ({ st with handles := AMap.set st.handles h e }, "ok")
      | none => bad
    | _, _ => bad
  | ["hdrain", h] =>
    match h.toNat? with
    | some h =>
      match AMap.get st.handles h, pullHandle st h none with
      | some e, some (st', out) => (st', out ++ " ## " ++ (specHandle st e).getD out)
      | _, _ => bad
    | none => bad
  | ["htake", h, k] =>
    match h.toNat?, k.toNat? with
    | some h, some k => (pullHandle st h (some k)).getD bad
    | _, _ => bad
  | _ => bad

def sess : Sess := { σ := St, st := {}, step := step }
end Driver.ResultSetS
