import HypatiaModel.TextScore
import HypatiaModel.TextSort
import HypatiaModel.Spec.ScoreSpec
import Driver.Sess
/-!
Session `score`: Okapi / cosine relevance scores of a text index (C08, C20).
Floats travel as the decimal value of their IEEE-754 bit pattern.
-/
namespace Driver.ScoreS
open Hyp Hyp.Score Hyp.QP

structure St where
  kind : Kind := .okapi
  s : State := {}
  t : ScoreSpec.Table := []
  termTab : AMap Nat (List Nat) := []
  globTab : AMap Nat (List Nat) := []
  /-- the index's `K1` / `B` attributes (`cfg k1` / `cfg b`: overridden on a subclass or on the instance) -/
  k1 : Float := 12 / 10
  b : Float := 75 / 100
  /-- `cfg loop c`: the compiled scoring loop, which keeps the constants of okascore.c whatever the attributes say -/
  cLoop : Bool := false

/-- what the real index computes with: the loop's `K1`, `B` and `query_weight`'s `K1` -/
def modelP (st : St) : Bm25 Float :=
  if st.cLoop then { k1 := 12 / 10, b := 75 / 100, kq := st.k1 } else { k1 := st.k1, b := st.b, kq := st.k1 }

/-- what the documentation promises: the formulas with the index's `K1`, `B` -/
def specP (st : St) : Bm25 Float := { k1 := st.k1, b := st.b, kq := st.k1 }

def showF (x : Float) : String := toString x.toBits.toNat
def float? (t : String) : Option Float := t.toNat?.map (fun n => Float.ofBits (UInt64.ofNat n))

def showMap (m : AMap Int Float) : String :=
  "{" ++ " ".intercalate ((m.mergeSort (fun a b => decide (a.1 ≤ b.1))).map (fun p => s!"{p.1}:{showF p.2}")) ++ "}"

def showSetErr : SetOps.Err → String
  | .indexError => "err IndexError"
  | .valueError => "err ValueError"
  | .assertionError => "err AssertionError"

def showRes : Res Float → String
  | .ok m => showMap m
  | .error e => showSetErr e

def lexOf (st : St) : Lex where
  termWids ws := match ws with
    | [[id]] => (AMap.get st.termTab id).getD []
    | _ => []
  globWids p := match p with
    | [id] => (AMap.get st.globTab id).getD []
    | _ => []

/-- prefix tree syntax: `a id` | `p id` | `g id` | `n T` | `and k T…` | `or k T…` -/
partial def tree? : List String → Option (Tree × List String)
  | "a" :: id :: rest => do let id ← id.toNat?; pure (.atom [id], rest)
  | "p" :: id :: rest => do let id ← id.toNat?; pure (.phrase [[id]], rest)
  | "g" :: id :: rest => do let id ← id.toNat?; pure (.glob [id], rest)
  | "n" :: rest => do let (t, r) ← tree? rest; pure (.notN t, r)
  | "and" :: k :: rest => do
    let k ← k.toNat?
    let (ts, r) ← trees? k rest
    pure (.andN ts, r)
  | "or" :: k :: rest => do
    let k ← k.toNat?
    let (ts, r) ← trees? k rest
    pure (.orN ts, r)
  | _ => none
where
  trees? : Nat → List String → Option (List Tree × List String)
    | 0, r => some ([], r)
    | k + 1, r => do
      let (t, r1) ← tree? r
      let (ts, r2) ← trees? k r1
      pure (t :: ts, r2)

def spec (st : St) (f : Int → Option Float) : String := showMap (ScoreSpec.asMap st.t f)

def specScore (st : St) (wids : List Nat) : Int → Option Float :=
  @ScoreSpec.score Float _ (specP st) st.kind st.t wids
def specPhrase (st : St) (wids : List Nat) : Int → Option Float :=
  @ScoreSpec.phraseScore Float _ (specP st) st.kind st.t wids
def mApply (st : St) (t : Tree) : Except ApplyErr (Option (AMap Int Float)) :=
  @Score.apply Float _ (modelP st) st.kind st.s (lexOf st) t

/-- `k v k v …` (values as bit patterns) -/
def pairs? : List String → Option (AMap Int Float)
  | [] => some []
  | k :: v :: rest => do
    let k ← k.toInt?; let v ← float? v; let r ← pairs? rest
    pure ((k, v) :: r)
  | _ => none

/-- `d f len d f len …` -/
def triples? : List String → Option (List (Int × Nat × Nat))
  | [] => some []
  | d :: f :: l :: rest => do
    let d ← d.toInt?; let f ← f.toNat?; let l ← l.toNat?; let r ← triples? rest
    pure ((d, f, l) :: r)
  | _ => none

def step (st : St) (toks : List String) : St × String :=
  match toks with
  | ["cfg", "kind", "okapi"] => ({ st with kind := .okapi }, "ok")
  | ["cfg", "kind", "cosine"] => ({ st with kind := .cosine }, "ok")
  | ["cfg", "k1", x] =>
    match float? x with
    | some x => ({ st with k1 := x }, "ok")
    | none => (st, "bad-op")
  | ["cfg", "b", x] =>
    match float? x with
    | some x => ({ st with b := x }, "ok")
    | none => (st, "bad-op")
  | ["cfg", "loop", "c"] => ({ st with cLoop := true }, "ok")
  | ["cfg", "loop", "python"] => ({ st with cLoop := false }, "ok")
  | "cfg" :: _ => (st, "ok")
  | "index" :: d :: ws =>
    match d.toInt?, natList? ws with
    | some d, some ws =>
      ({ st with s := stepD st.s (.index d ws), t := ScoreSpec.stepT st.t (.index d ws) }, "ok")
    | _, _ => (st, "bad-op")
  | "reindex" :: d :: ws =>
    match d.toInt?, natList? ws with
    | some d, some ws =>
      let out := match Score.step st.s (.reindex d ws) with
        | .ok _ => "ok"
        | .error _ => "err KeyError"
      ({ st with s := stepD st.s (.reindex d ws), t := ScoreSpec.stepT st.t (.reindex d ws) }, out)
    | _, _ => (st, "bad-op")
  | ["unindex", d] =>
    match d.toInt? with
    | some d => ({ st with s := stepD st.s (.unindex d), t := ScoreSpec.stepT st.t (.unindex d) }, "ok")
    | none => (st, "bad-op")
  | ["reset"] => ({ st with s := {}, t := [] }, "ok")
  | "lex" :: "t" :: id :: ws =>
    match id.toNat?, natList? ws with
    | some id, some ws => ({ st with termTab := AMap.set st.termTab id ws }, "ok")
    | _, _ => (st, "bad-op")
  | "lex" :: "g" :: id :: ws =>
    match id.toNat?, natList? ws with
    | some id, some ws => ({ st with globTab := AMap.set st.globTab id ws }, "ok")
    | _, _ => (st, "bad-op")
  | ["count"] => (st, s!"{numDocs st.s.T} ## {ScoreSpec.N st.t}")
  | ["search", id] =>
    match id.toNat? with
    | some id =>
      let wids := (lexOf st).termWids [[id]]
      match (@search Float _ (modelP st) st.kind st.s wids : Option (Res Float)) with
      | none => (st, "none")
      | some r => (st, showRes r ++ " ## " ++ spec st (specScore st wids))
    | none => (st, "bad-op")
  | ["glob", id] =>
    match id.toNat? with
    | some id =>
      let wids := (lexOf st).globWids [id]
      (st, showRes (@searchGlob Float _ (modelP st) st.kind st.s wids) ++ " ## " ++ spec st (specScore st wids))
    | none => (st, "bad-op")
  | ["phrase", id] =>
    match id.toNat? with
    | some id =>
      let wids := (lexOf st).termWids [[id]]
      (st, showRes (@searchPhrase Float _ (modelP st) st.kind st.s wids) ++ " ## " ++
        spec st (specPhrase st wids))
    | none => (st, "bad-op")
  | "qw" :: ids =>
    match natList? ids with
    | some ids =>
      let wids := ids.flatMap (fun id => (lexOf st).termWids [[id]])
      (st, showF (@queryWeight Float _ (modelP st) st.kind st.s wids) ++ " ## " ++
        showF (@ScoreSpec.queryWeight Float _ (specP st) st.kind st.t wids))
    | none => (st, "bad-op")
  | "apply" :: rest =>
    match tree? rest with
    | some (t, []) =>
      match mApply st t with
      | .ok none => (st, "none")
      | .ok (some m) => (st, showMap m)
      | .error .queryError => (st, "err QueryError")
      | .error (.setops e) => (st, showSetErr e)
    | _ => (st, "bad-op")
  | "applyb" :: rest =>
    -- are all normalised scores in (0, 1] (up to rounding)?  the specification says yes
    match tree? rest with
    | some (t, []) =>
      match mApply st t with
      | .ok none => (st, "none ## none")
      | .ok (some m) =>
        let bad := m.filter (fun p => !(0 < p.2 && p.2 ≤ 1 + 1e-6))
        (st, (if bad.isEmpty then "in-bound" else "out-of-bound") ++ " ## in-bound")
      | .error .queryError => (st, "err QueryError")
      | .error (.setops e) => (st, showSetErr e)
    | _ => (st, "bad-op")
  | "applysort" :: rev :: lim :: rest =>
    match boolTok? rev, optInt? lim, tree? rest with
    | some rev, some lim, some (t, []) =>
      match mApply st t with
      | .ok none => (st, "none")
      | .ok (some m) =>
        match TextSort.sort (.weighted m) rev lim with
        | .ok (.same _) => (st, "same")
        | .ok (.ids l) =>
          (st, "S[" ++ " ".intercalate (l.map (fun d => s!"{d}:{showF ((AMap.get m d).getD 0)}")) ++ "]")
        | .error _ => (st, "err TypeError")
      | .error .queryError => (st, "err QueryError")
      | .error (.setops e) => (st, showSetErr e)
    | _, _, _ => (st, "bad-op")
  | "sort" :: rev :: lim :: rest =>
    match boolTok? rev, optInt? lim, pairs? rest with
    | some rev, some lim, some m =>
      match TextSort.sort (.weighted m) rev lim with
      | .ok (.same _) => (st, "same")
      | .ok (.ids l) => (st, "[" ++ showInts l ++ "]")
      | .error _ => (st, "err TypeError")
    | _, _, _ => (st, "bad-op")
  | "sortset" :: rev :: lim :: rest =>
    match boolTok? rev, optInt? lim, intList? rest with
    | some rev, some lim, some ids =>
      match (TextSort.sort (.plain ids) rev lim : Except TextSort.Err (TextSort.Output Float)) with
      | .ok (.same _) => (st, "same")
      | .ok (.ids l) => (st, "[" ++ showInts l ++ "]")
      | .error _ => (st, "err TypeError")
    | _, _, _ => (st, "bad-op")
  | "okascore" :: idfv :: mean :: rest =>
    match float? idfv, float? mean, triples? rest with
    | some idfv, some mean, some tr =>
      let d2len : Int → Nat := fun d => ((tr.find? (fun p => p.1 == d)).map (fun p => p.2.2)).getD 0
      -- the C function: its own constants, whatever the index's attributes
      let m : AMap Int Float := @scoreLoop Float _ Bm25.default (tr.map (fun p => (p.1, p.2.1))) d2len idfv mean
      -- specification: the docstring's TF with the given mean, times the given idf
      let sp : AMap Int Float := tr.map (fun p =>
        let f := Float.ofNat p.2.1
        (p.1, f * (1.2 + 1) / (f + 1.2 * ((1 - 0.75) + 0.75 * Float.ofNat p.2.2 / mean)) * idfv))
      (st, showMap m ++ " ## " ++ showMap sp)
    | _, _, _ => (st, "bad-op")
  | _ => (st, "bad-op")

def sess : Sess := { σ := St, st := {}, step := step }
end Driver.ScoreS
