/-!
Line-protocol plumbing shared by all model sessions.  A session is a state
machine `step : σ → List String → σ × String` over the tokens of one input line;
every input line produces exactly one output line.
-/
namespace Driver

structure Sess where
  σ : Type
  st : σ
  step : σ → List String → σ × String

def Sess.run1 (s : Sess) (toks : List String) : Sess × String :=
  let (st', out) := s.step s.st toks
  ({ s with st := st' }, out)

def natList? (toks : List String) : Option (List Nat) := toks.mapM String.toNat?
def intList? (toks : List String) : Option (List Int) := toks.mapM String.toInt?

def showNats (l : List Nat) : String := " ".intercalate (l.map toString)
def showInts (l : List Int) : String := " ".intercalate (l.map toString)

def sortInts (l : List Int) : List Int := l.mergeSort (fun a b => decide (a ≤ b))
def showIdSet (l : List Int) : String :=
  let s := sortInts l
  "{" ++ showInts s ++ "}"

/-- split a token list at the first occurrence of `sep` -/
def splitAt (sep : String) : List String → List String × List String
  | [] => ([], [])
  | t :: ts => if t = sep then ([], ts) else
      let (a, b) := splitAt sep ts
      (t :: a, b)

/-- split a token list at every occurrence of `sep` -/
def splitAll (sep : String) (ts : List String) : List (List String) :=
  let rec go : List String → List String → List (List String) → List (List String)
    | [], cur, acc => (cur.reverse :: acc).reverse
    | t :: ts, cur, acc => if t = sep then go ts [] (cur.reverse :: acc) else go ts (t :: cur) acc
  go ts [] []

def optInt? (t : String) : Option (Option Int) :=
  if t = "none" then some none else (t.toInt?).map some

def boolTok? (t : String) : Option Bool :=
  if t = "1" then some true else if t = "0" then some false else none

end Driver
