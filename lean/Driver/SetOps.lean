import HypatiaModel.SetOps
import HypatiaModel.Spec.SetOpsSpec
import HypatiaModel.Spec.NBestSpec
import HypatiaModel.Bisect
import Driver.Sess
/-!
Sessions `setops` (mass_weightedUnion / mass_weightedIntersection) and `setopsnbest` (NBest).
Floats travel as the decimal value of their IEEE-754 bit pattern (exact both ways).
-/
namespace Driver.SetOpsS
open Hyp Hyp.SetOps

def showF (x : Float) : String := toString x.toBits.toNat
def float? (t : String) : Option Float := t.toNat?.map (fun n => Float.ofBits (UInt64.ofNat n))

def sortMap (m : WMap Float) : WMap Float := m.mergeSort (fun a b => decide (a.1 ≤ b.1))
def showMap (m : WMap Float) : String :=
  "{" ++ " ".intercalate ((sortMap m).map (fun p => s!"{p.1}:{showF p.2}")) ++ "}"

def showErr : Err → String
  | .indexError => "err IndexError"
  | .valueError => "err ValueError"
  | .assertionError => "err AssertionError"

def showT : Except Err (Triv Float) → String
  | .ok t => showMap t.val
  | .error e => showErr e

/-- is the result the caller's own operand object? (not part of the specification) -/
def showTag : Except Err (Triv Float) → String
  | .ok (.operand _) => "operand"
  | .ok (.fresh _) => "fresh"
  | .error e => showErr e

/-- `k v k v …` -/
def pairs? : List String → Option (WMap Float)
  | [] => some []
  | k :: v :: rest => do
    let k ← k.toInt?; let v ← float? v; let r ← pairs? rest
    pure ((k, v) :: r)
  | _ => none

/-- `w none` or `w k v k v …` -/
def operand? : List String → Option (Option (WMap Float) × Float)
  | [w, "none"] => do let w ← float? w; pure (none, w)
  | w :: rest => do let w ← float? w; let m ← pairs? rest; pure (some m, w)
  | [] => none

def operands? (toks : List String) : Option (List (Option (WMap Float) × Float)) :=
  if toks.isEmpty then some [] else (splitAll "|" toks).mapM operand?

def step (_ : Unit) (toks : List String) : Unit × String :=
  match toks with
  | "cfg" :: _ => ((), "ok")
  | "union" :: rest =>
    match operands? rest with
    | some L =>
      match L.mapM (fun p => p.1.map (fun m => (m, p.2))) with
      | some L' => ((), showT (massUnionT L') ++ " ## " ++ showMap (SetSpec.unionMap L'))
      | none => ((), "bad-op")
    | none => ((), "bad-op")
  | "uniontag" :: rest =>
    match operands? rest with
    | some L =>
      match L.mapM (fun p => p.1.map (fun m => (m, p.2))) with
      | some L' => ((), showTag (massUnionT L'))
      | none => ((), "bad-op")
    | none => ((), "bad-op")
  | "intertag" :: rest =>
    match operands? rest with
    | some L => ((), showTag (massInterT L))
    | none => ((), "bad-op")
  | "inter" :: rest =>
    match operands? rest with
    | some L => ((), showT (massInterT L) ++ " ## " ++ showMap (SetSpec.interMap (SetSpec.present L)))
    | none => ((), "bad-op")
  | _ => ((), "bad-op")

def sess : Sess := { σ := Unit, st := (), step := step }

/-! ### NBest -/
open Hyp.NBest in
structure NSt where
  s : Option (State Int Int) := none
  held : List (Int × Int) := []

def showPairs (l : List (Int × Int)) : String :=
  "[" ++ " ".intercalate (l.map (fun p => s!"{p.1}:{p.2}")) ++ "]"

def ipairs? : List String → Option (List (Int × Int))
  | [] => some []
  | k :: v :: rest => do
    let k ← k.toInt?; let v ← v.toInt?; let r ← ipairs? rest
    pure ((k, v) :: r)
  | _ => none

def stepN (st : NSt) (toks : List String) : NSt × String :=
  match toks with
  | "cfg" :: _ => (st, "ok")
  | ["new", n] =>
    match n.toInt? with
    | some n =>
      match (NBest.new n : Except NBest.Err (NBest.State Int Int)) with
      | .ok s => ({ s := some s, held := [] }, "ok")
      | .error _ => ({ s := none, held := [] }, "err ValueError")
    | none => (st, "bad-op")
  | "addmany" :: rest =>
    match st.s, ipairs? rest with
    | some s, some ps =>
      ({ s := some (NBest.addMany s ps), held := NBestSpec.step s.cap st.held (.addMany ps) }, "ok")
    | _, _ => (st, "bad-op")
  | ["add", i, sc] =>
    match st.s, i.toInt?, sc.toInt? with
    | some s, some i, some sc =>
      ({ s := some (NBest.add s (i, sc)), held := NBestSpec.step s.cap st.held (.addMany [(i, sc)]) }, "ok")
    | _, _, _ => (st, "bad-op")
  | ["pop"] =>
    match st.s with
    | some s =>
      let sp := match st.held.getLast? with
        | some p => s!"{p.1}:{p.2}"
        | none => "err IndexError"
      let held' := NBestSpec.step s.cap st.held .pop
      match NBest.popSmallest s with
      | .ok (p, s') => ({ s := some s', held := held' }, s!"{p.1}:{p.2} ## " ++ sp)
      | .error _ => ({ s := some s, held := held' }, "err IndexError ## " ++ sp)
    | none => (st, "bad-op")
  | ["best"] =>
    match st.s with
    | some s => (st, showPairs (NBest.getBest s) ++ " ## " ++ showPairs st.held)
    | none => (st, "bad-op")
  | ["len"] =>
    match st.s with
    | some s => (st, s!"{NBest.len s} ## {st.held.length}")
    | none => (st, "bad-op")
  | ["cap"] =>
    match st.s with
    | some s => (st, s!"{s.cap}")
    | none => (st, "bad-op")
  | "bisect" :: x :: rest =>
    -- `bisect.bisect_left(scores, x)` (the binary search of Lib/bisect.py, `c17_bisect_left`); on an ascending
    -- list the specification's answer is the number of entries `< x`
    match x.toInt?, intList? rest with
    | some x, some a =>
      let asc := (a.zip a.tail).all (fun p => decide (p.1 ≤ p.2))
      let m := NBest.bisectLeft a x 0 a.length
      (st, if asc then s!"{m} ## {(a.filter (fun s => decide (s < x))).length}" else s!"{m}")
    | _, _ => (st, "bad-op")
  | _ => (st, "bad-op")

def sessNBest : Sess := { σ := NSt, st := {}, step := stepN }
end Driver.SetOpsS
