import HypatiaModel.TextIndex
import HypatiaModel.Spec.TextSpec
import HypatiaModel.TextScoreBridge
import Driver.Lexicon
/-!
Session `text` (C03, C06 text part).  Strings travel as `u<hex>.<hex>…`.

Configuration: the lexicon lines of session `lexicon` (`cfg word|lower|stop|pipeline`), plus
  cfg space <hex> …        the code points `\s` matches (query tokenizer)
  cfg backend okapi|cosine
anything else starting with `cfg` is accepted (`family` is the implementation's business).

Commands:
  index <d> <str> …   index_doc(d, text)  (`text` after `_text2list`)      -> ok | err KeyError
  index <d> none      index_doc(d, obj) whose discriminator yields nothing -> ok | err KeyError
  unindex <d>                                                              -> ok | err KeyError
  reset                                                                    -> ok
  q <query>    apply / applyContains / applyEq        -> `{ids} ## {ids}` | None | err ParseError | err QueryError
  nq <query>   applyNotContains / applyNotEq          -> `{ids} ## {ids}` | err …
  qk <query>   keys of the SCORED apply (C08/C20 model over this state) ## keys of the key-set model
  obs          indexed/not_indexed/docids + counts    -> `… ## …`   (obsfresh: the same, by c06_text_fresh)
  repr <d>     document_repr(d)                       -> <str> | none   (## the table's tokens, joined)
  tree <query> the parse tree (debugging)

The specification's answer (after `##`) is printed for `q`/`nq` when the parsed tree has no word
with `*`/`?` inside a phrase (a shape the property does not speak about: the code re-tokenises
the phrase and drops the glob characters) – also for trees that are not `admissible` (finding
D14), so that the defect stays visible as implementation ≠ specification.
-/
namespace Driver.TextS
open Hyp Hyp.Text Hyp.QP
open Driver.QParserS (str? showStr hex? showTree)
open Driver.LexiconS (LexCfg cfgStep cfgOf showStrs)

structure St where
  lc : LexCfg := {}
  spaces : List Nat := []
  okapi : Bool := true
  s : State := {}
  t : Spec.Table := []

mutual
def phrasesPlain : Tree → Bool
  | .atom _ => true
  | .phrase ws => ws.all (fun w => !Lex.isGlob w)
  | .glob _ => true
  | .notN t => phrasesPlain t
  | .andN ts => phrasesPlainL ts
  | .orN ts => phrasesPlainL ts
def phrasesPlainL : List Tree → Bool
  | [] => true
  | t :: ts => phrasesPlain t && phrasesPlainL ts
end

/-- `' '.join(words)` -/
def joinSp : List Str → Str
  | [] => []
  | [w] => w
  | w :: ws => w ++ 32 :: joinSp ws

def spaceOf (st : St) : Nat → Bool := fun c => st.spaces.contains c

def obs (st : St) : String :=
  let s := st.s
  let T := st.t
  let withText := (AMap.keys T).filter (fun d => (Spec.tokensOf T d).isSome)
  let noText := (AMap.keys T).filter (fun d => (Spec.tokensOf T d).isNone)
  let words := (withText.flatMap (fun d => (Spec.tokensOf T d).getD [])).eraseDups
  s!"indexed={showIdSet (indexed s)} ni={showIdSet s.notIndexed} docids={showIdSet (docids s)} " ++
  s!"ic={s.base.indexedCount} nic={s.notIndexed.length} dc={(docids s).length} wc={s.base.wordCount}" ++
  " ## " ++
  s!"indexed={showIdSet withText} ni={showIdSet noText} docids={showIdSet (AMap.keys T)} " ++
  s!"ic={withText.length} nic={noText.length} dc={(AMap.keys T).length} wc={words.length}"

def apply1 (st : St) (op : Op) (d : Int) : St × String :=
  let cfg := cfgOf st.lc
  let defined := updateDefined st.s.base d
  ({ st with s := step cfg st.okapi st.s op, t := Spec.stepT cfg st.t op },
   if defined then "ok" else "err KeyError")

def step (st : St) (toks : List String) : St × String :=
  match cfgStep st.lc toks with
  | some (some c) => ({ st with lc := c }, "ok")
  | some none => (st, "bad-op")
  | none =>
  let cfg := cfgOf st.lc
  match toks with
  | "cfg" :: "space" :: rest =>
    match rest.mapM hex? with
    | some cs => ({ st with spaces := cs ++ st.spaces }, "ok")
    | none => (st, "bad-op")
  | ["cfg", "backend", "okapi"] => ({ st with okapi := true }, "ok")
  | ["cfg", "backend", "cosine"] => ({ st with okapi := false }, "ok")
  | "cfg" :: _ => (st, "ok")
  | ["index", d, "none"] =>
    match d.toInt? with
    | some d => apply1 st (.index d none) d
    | none => (st, "bad-op")
  | "index" :: d :: rest =>
    match d.toInt?, rest.mapM str? with
    | some d, some text => apply1 st (.index d (some text)) d
    | _, _ => (st, "bad-op")
  | ["unindex", d] =>
    match d.toInt? with
    | some d => apply1 st (.unindex d) d
    | none => (st, "bad-op")
  | ["reset"] => ({ st with s := Text.step cfg st.okapi st.s .reset, t := [] }, "ok")
  | ["q", q] =>
    match str? q with
    | none => (st, "bad-op")
    | some q =>
      match apply cfg (spaceOf st) st.s q with
      | .error .parseError => (st, "err ParseError")
      | .error .queryError => (st, "err QueryError")
      | .error .typeError => (st, "err TypeError")
      | .ok none => (st, "None")
      | .ok (some r) =>
        match parseQuery (lexOf cfg) (spaceOf st) q with
        | .ok (t, _) =>
          if phrasesPlain t then (st, showIdSet r ++ " ## " ++ showIdSet (Spec.contains st.t t))
          else (st, showIdSet r)
        | .error _ => (st, showIdSet r)
  | ["nq", q] =>
    match str? q with
    | none => (st, "bad-op")
    | some q =>
      match applyNotContains cfg (spaceOf st) st.s q with
      | .error .parseError => (st, "err ParseError")
      | .error .queryError => (st, "err QueryError")
      | .error .typeError => (st, "err TypeError")
      | .ok r =>
        match parseQuery (lexOf cfg) (spaceOf st) q with
        | .ok (t, _) =>
          if phrasesPlain t then (st, showIdSet r ++ " ## " ++ showIdSet (Spec.notContains st.t t))
          else (st, showIdSet r)
        | .error _ => (st, showIdSet r)
  | ["qk", q] =>
    -- the SCORED result of `apply` (C08/C20 model read off this state: `scoreState` / `scoreLex`), keys only,
    -- against the key-set model's answer (`c20_scored_keys_are_c03_result`)
    match str? q with
    | none => (st, "bad-op")
    | some q =>
      match parseQuery (lexOf cfg) (spaceOf st) q with
      | .error _ => (st, "err ParseError")
      | .ok (t, _) =>
        if leadingGlobLeaf t then (st, "err QueryError") else
        let kind : Score.Kind := if st.okapi then .okapi else .cosine
        let scored : String :=
          -- keys only: the BM25 parameters do not matter here (default `OkapiIndex`)
          match @Score.apply Float _ Score.Bm25.default kind (scoreState st.s) (scoreLex cfg st.s) t with
          | .error .queryError => "err QueryError"
          | .error (.setops _) => "err SetOps"
          | .ok none => "None"
          | .ok (some m) => showIdSet (AMap.keys m)
        let keys : String :=
          match exec (indexOf cfg st.s.base) t with
          | .error _ => "err QueryError"
          | .ok none => "None"
          | .ok (some r) => showIdSet r
        (st, scored ++ " ## " ++ keys)
  | ["tree", q] =>
    match str? q with
    | none => (st, "bad-op")
    | some q =>
      match parseQuery (lexOf cfg) (spaceOf st) q with
      | .ok (t, _) => (st, showTree t ++ (if Spec.admissible cfg t then " admissible" else " not-admissible"))
      | .error _ => (st, "err ParseError")
  | ["obs"] => (st, obs st)
  | ["obsfresh"] => (st, obs st)   -- by c06_text_fresh a fresh index reports the same
  | ["repr", d] =>
    match d.toInt? with
    | none => (st, "bad-op")
    | some d =>
      let m := match documentRepr st.s d with
        | some ws => showStr (joinSp ws)
        | none => "none"
      let sp := match Spec.tokensOf st.t d with
        | some toks => showStr (joinSp toks)
        | none => "none"
      (st, m ++ " ## " ++ sp)
  | _ => (st, "bad-op")

def sess : Sess := { σ := St, st := {}, step := step }
end Driver.TextS
