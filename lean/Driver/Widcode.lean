import HypatiaModel.Widcode
import Driver.Sess
namespace Driver.WidcodeS
open Hyp.Widcode

def isInfix (p d : List Nat) : Bool :=
  match d with
  | [] => p.isPrefixOf []
  | b :: rest => p.isPrefixOf (b :: rest) || isInfix p rest

def P : Nat := 2305843009213693951  -- 2^61 - 1

/-- Horner digest of the concatenated codes of the ids lo, lo+1, …, hi-1 -/
def digest (lo hi : Nat) : Nat × Nat := Id.run do
  let mut acc := 0
  let mut len := 0
  for w in [lo:hi] do
    for b in enc1 w do
      acc := (acc * 256 + b) % P
      len := len + 1
  return (acc, len)

def step (_ : Unit) (toks : List String) : Unit × String :=
  match toks with
  | "enc" :: rest =>
    match natList? rest with
    | some ws => if ws.all (· < 0x10000000) then ((), showNats (encode ws)) else ((), "err AssertionError")
    | none => ((), "bad-op")
  | "dec" :: rest =>
    match natList? rest with
    | some bs => ((), showNats (decode bs))
    | none => ((), "bad-op")
  | "find" :: rest =>
    let (a, b) := splitAt "|" rest
    match natList? a, natList? b with
    | some p, some d => ((), (if phraseFind (encode p) (encode d) then "1" else "0") ++ " ## " ++
        (if isInfix p d then "1" else "0"))
    | _, _ => ((), "bad-op")
  | "rawfind" :: rest =>
    let (a, b) := splitAt "|" rest
    match natList? a, natList? b with
    | some p, some d => ((), if rawFind (encode p) (encode d) then "1" else "0")
    | _, _ => ((), "bad-op")
  | ["digest", lo, hi] =>
    match lo.toNat?, hi.toNat? with
    | some lo, some hi => let (a, l) := digest lo hi; ((), s!"{a} {l}")
    | _, _ => ((), "bad-op")
  | ["rt", lo, hi] =>
    match lo.toNat?, hi.toNat? with
    | some lo, some hi =>
      let ws := (List.range (hi - lo)).map (· + lo)
      ((), if decode (encode ws) == ws then "ok" else "mismatch")
    | _, _ => ((), "bad-op")
  | _ => ((), "bad-op")

def sess : Sess := { σ := Unit, st := (), step := step }
end Driver.WidcodeS
