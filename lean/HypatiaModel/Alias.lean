/-!
# Provenance of containers on read paths (C18)

Every container a read path touches is either one the index *stores* (`stored`: mutating it would
corrupt the index) or one *freshly allocated* for this call (`fresh`).  The tables below record, for
each BTrees / hypatia operation used on a read path, where its result comes from – read off the
code, validated by the correspondence run (object identity, before/after snapshots).
-/
namespace Hyp.Alias

inductive Prov where
  | stored      -- a container held by the index (posting set, not-indexed set, d2w tree …)
  | caller      -- the caller's own collection
  | fresh       -- allocated by this call
deriving DecidableEq, Repr

/-! BTrees -/
def multiunion (_ : List Prov) : Prov := .fresh
def treeSetCopy (_ : Prov) : Prov := .fresh             -- `family.IF.TreeSet(docids)`, `IF.Set(indexed)`
def bucketCopy (_ : Prov) : Prov := .fresh              -- `IF.Bucket(d2w)`
def difference (_ _ : Prov) : Prov := .fresh
def setUnion (_ _ : Prov) : Prov := .fresh
def weightedUnion (_ _ : Prov) : Prov := .fresh
def weightedIntersection (_ _ : Prov) : Prov := .fresh
/-- `IF.intersection(None, s)` returns `s` itself -/
def intersectionWithNone (s : Prov) : Prov := s

/-! hypatia -/
/-- `BaseIndexMixin.docids` -/
def docids (notIndexedEmpty indexedEmpty : Bool) : Prov :=
  if notIndexedEmpty then treeSetCopy .stored
  else if indexedEmpty then .stored                     -- returns the stored not-indexed set
  else setUnion .stored (treeSetCopy .stored)

/-- `BaseIndexMixin._negate` -/
def negate (positiveEmpty : Bool) (all positive : Prov) : Prov :=
  if positiveEmpty then all else difference all positive

/-- `Query.union`: returns an operand unchanged when the other is empty -/
def queryUnion (leftEmpty rightEmpty : Bool) (left right : Prov) : Prov :=
  if !leftEmpty && rightEmpty then left
  else if !rightEmpty && leftEmpty then right
  else weightedUnion left right

/-- `setops._trivial` -/
def trivial (n : Nat) (weightIsOne : Bool) (only : Prov) : Prov :=
  if n = 0 then .fresh else if weightIsOne then only else weightedUnion .fresh only

/-- `mass_weightedUnion` of the pairs produced by `_search_wids` -/
def massUnion (ps : List (Prov × Bool)) : Prov :=
  match ps with
  | [] => trivial 0 true .fresh
  | [(p, w1)] => trivial 1 w1 p
  | _ => .fresh

/-- `OkapiIndex._search_wids`: a new `IF.Bucket` per word id, weight 1 -/
def okapiSearchWid : Prov × Bool := (.fresh, true)

/-- `CosineIndex._search_wids`: the stored `d2w` tree itself (a copy when it is still a dict), weight idf -/
def cosineSearchWid (isDict idfIsOne : Bool) : Prov × Bool :=
  (if isDict then bucketCopy .stored else .stored, idfIsOne)

/-- the container `TextIndex.apply` rescales in place for a one-word query -/
def applyTargetOkapi (nwids : Nat) : Prov := massUnion (List.replicate nwids okapiSearchWid)
def applyTargetCosine (nwids : Nat) (isDict idfIsOne : Bool) : Prov :=
  massUnion (List.replicate nwids (cosineSearchWid isDict idfIsOne))

/-- the container `scan_forward` removes found ids from -/
def scanForwardTarget (docids : Prov) : Prov := treeSetCopy docids

end Hyp.Alias
