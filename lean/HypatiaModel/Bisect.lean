import HypatiaModel.NBest

/-!
# `bisect.bisect_left` as CPython computes it

`NBest.add` does `i = bisect_left(scores, score); scores.insert(i, score); items.insert(i, item)`.  The model
`NBest.insertAsc` finds the position by a linear scan; `bisectLeft` below is the binary search of
`Lib/bisect.py` (`while lo < hi: mid = (lo + hi) // 2; if a[mid] < x: lo = mid + 1 else: hi = mid`), and
`insertBisect` the insertion at the index it returns.  `Lemmas/Bisect.lean` proves that on an ascending list –
which the collector's list always is – the two insertions coincide.
-/
namespace Hyp.NBest
variable {ι σ : Type} [LT σ] [DecidableLT σ]

/-- `bisect_left(a, x, lo, hi)` -/
def bisectLeft (a : List σ) (x : σ) (lo hi : Nat) : Nat :=
  if h : lo < hi then
    match a[(lo + hi) / 2]? with
    | some s => if s < x then bisectLeft a x ((lo + hi) / 2 + 1) hi else bisectLeft a x lo ((lo + hi) / 2)
    | none => lo                       -- `a[mid]` out of range: not reached for `hi ≤ len(a)`
  else lo
termination_by hi - lo
decreasing_by all_goals omega

/-- `i = bisect_left(scores, score); scores.insert(i, score); items.insert(i, item)` -/
def insertBisect (p : ι × σ) (l : List (ι × σ)) : List (ι × σ) :=
  l.insertIdx (bisectLeft (l.map (·.2)) p.2 0 l.length) p

/-- the number of leading entries `< x`: where the linear scan of `insertAsc` stops -/
def scanPos (x : σ) : List σ → Nat
  | [] => 0
  | s :: ss => if s < x then scanPos x ss + 1 else 0

end Hyp.NBest
