import HypatiaModel.Legacy
import HypatiaModel.Facet

/-!
# hypatia.catalog: `Catalog` and `CatalogQuery`  (C12)

A catalog is the ordered list of its named indexes (a `PersistentMapping` iterates in
insertion order).  An index is a field, keyword or facet index (the existing models).

`discriminate` is abstracted to an *outcome per index*: every entry carries its discriminator
as a function `Doc → Disc` (an attribute name and a callable are both such functions; `Doc` is
any type).  `Disc.missing` = the attribute is absent / the callable returned the default
marker, `Disc.reject` = the value is a `Persistent` or `Broken` object (→ `ValueError`).

Errors are values: every mutating call returns the new catalog *and* the exception, because an
exception raised by the j-th index leaves the indexes before it already updated.
-/
namespace Hyp.Catalog
open Hyp Hyp.Legacy

export Hyp.Legacy (Err IdSet)

/-- what a discriminator yields for a field / keyword / facet index -/
inductive DVal where
  | int (v : Int)                  -- an orderable scalar (ranked)
  | kws (l : List Int)             -- a list/tuple of keywords
  | str                            -- a `str` (rejected by KeywordIndex.index_doc with TypeError)
  | paths (l : List Facet.Facet)   -- a list of facet paths
  deriving Repr

/-- outcome of `BaseIndexMixin.discriminate(obj, default)` -/
inductive Disc where
  | missing                        -- `value is _marker` → the default
  | value (v : DVal)
  | reject                         -- Persistent / Broken → ValueError
  deriving Repr

inductive Index where
  | field (s : Field.State Int)
  | keyword (s : Keyword.State Int)
  | facet (s : Facet.State)

inductive Kind where
  | field | keyword | facet
  deriving DecidableEq, Repr

def Index.kind : Index → Kind
  | .field _ => .field
  | .keyword _ => .keyword
  | .facet _ => .facet

/-- the exception `index_doc` raises for this discriminator outcome (a function of the index
*kind*, not of its state) -/
def Kind.error : Kind → Disc → Option Err
  | _, .missing => none
  | _, .reject => some .valueError
  | .field, .value (.int _) => none
  | .keyword, .value (.kws _) => none
  | .keyword, .value .str => some .typeError
  | .facet, .value (.paths _) => none
  | _, .value _ => some .unmodelled

def Kind.rejects (k : Kind) (v : Disc) : Bool := (k.error v).isSome

/-- `index.index_doc(docid, obj)` given the outcome of `self.discriminate(obj, _marker)`;
returns the index afterwards and the exception, if any -/
def Index.indexDoc (ix : Index) (d : Int) : Disc → Index × Option Err
  | .reject => (ix, some .valueError)
  | .missing =>
    match ix with
    | .field s => (.field (Field.indexDoc s d none), none)
    | .keyword s => (.keyword (Keyword.indexDoc s d none), none)
    | .facet s => (.facet (Facet.indexDoc s d none), none)
  | .value v =>
    match ix, v with
    | .field s, .int x => (.field (Field.indexDoc s d (some x)), none)
    | .keyword s, .kws l => (.keyword (Keyword.indexDoc s d (some l)), none)
    | .keyword s, .str => (.keyword (Keyword.indexStr s d), some .typeError)
    | .facet s, .paths l => (.facet (Facet.indexDoc s d (some l)), none)
    | ix, _ => (ix, some .unmodelled)

/-- `index.reindex_doc(docid, obj)`: `FieldIndex`, `KeywordIndex` (and `FacetIndex` through it)
define it as `self.index_doc(docid, obj)` -/
def Index.reindexDoc (ix : Index) (d : Int) (v : Disc) : Index × Option Err := ix.indexDoc d v

def Index.unindexDoc : Index → Int → Index
  | .field s, d => .field (Field.unindexDoc s d)
  | .keyword s, d => .keyword (Keyword.unindexDoc s d)
  | .facet s, d => .facet { s with ks := Keyword.unindexDoc s.ks d }

def Index.reset : Index → Index
  | .field _ => .field Field.init
  | .keyword s => .keyword (Keyword.reset s)
  | .facet s => .facet { s with ks := Keyword.reset s.ks }

/-- a legacy query argument for one index -/
inductive QArg where
  | int (q : LQ Int)               -- for a field or keyword index
  | fac (q : LQ Facet.Facet)       -- for a facet index

/-- `index.apply(query)` -/
def Index.apply : Index → QArg → Except Err IdSet
  | .field s, .int q => fieldApply s q
  | .keyword s, .int q => kwApply s.view q
  | .facet s, .fac q => kwApply s.ks.view q
  | _, _ => .error .unmodelled

/-- `BaseIndexMixin.apply_intersect(query, docids)` -/
def Index.applyIntersect (ix : Index) (q : QArg) (docids : Option IdSet) : Except Err IdSet := do
  let result ← ix.apply q
  match docids with
  | none => pure result
  | some ds => pure (LSet.inter result ds)         -- `IF.weightedIntersection(result, docids)[1]`

/-- What `FieldIndex.sort(docids, reverse=…, limit=…)` is *specified* to produce (property C07;
its algorithms are modelled there): the ids it yields and whether `Unsortable` is raised after
them.  Sortable ids by value (descending when reversed; the order among equal values is not
fixed by the contract – here: by docid), cut to `limit`; `Unsortable` iff some id has no value
and the limit was not filled.  `limit < 1` → `ValueError` before anything else; an index
without any value raises `Unsortable` at once (not after iteration) for a non-empty request. -/
def fieldSort (s : Field.State Int) (ids : IdSet) (reverse : Bool) (limit : Option Int) :
    Except Err (List Int × Bool) :=
  if (match limit with | some l => decide (l < 1) | none => false) then .error .valueError
  else if ids = [] then .ok ([], false)                      -- `if not docids: return []`
  else if s.numDocs = 0 then .error .unsortable              -- `if not numdocs: raise Unsortable(docids)`
  else
    let sortable := ids.filter (fun d => (AMap.get s.rev d).isSome)
    let key := fun d => (AMap.get s.rev d).getD 0
    let byId := Sort.isort (fun a b => decide (a ≤ b)) sortable
    let sorted := Sort.isort (fun a b => if reverse then decide (key b ≤ key a) else decide (key a ≤ key b)) byId
    let out := match limit with
      | some l => sorted.take l.toNat
      | none => sorted
    let filled := match limit with
      | some l => decide (l.toNat ≤ sortable.length)
      | none => false
    .ok (out, decide (sortable.length < ids.length) && !filled)

/-- `index.sort(...)`: only the field index has one -/
def Index.sort (ix : Index) (ids : IdSet) (reverse : Bool) (limit : Option Int) :
    Except Err (List Int × Bool) :=
  match ix with
  | .field s => fieldSort s ids reverse limit
  | _ => .error .attributeError

/-! ## Catalog -/

structure Entry (Doc : Type) where
  name : String                    -- the key under which the catalog holds the index
  nameAttr : Option String         -- the index's own `__name__` attribute
  disc : Doc → Disc                -- `self.discriminator` (attribute name or callable)
  ix : Index

abbrev Cat (Doc : Type) := List (Entry Doc)

variable {Doc : Type}

/-- `catalog.get(name)` -/
def get (c : Cat Doc) (name : String) : Option (Entry Doc) := c.find? (fun e => e.name == name)

/-- `Catalog.__setitem__(name, index)`: `index.__name__ = name`, then the mapping's
`__setitem__` (an existing key keeps its position) -/
def setitem (c : Cat Doc) (name : String) (e : Entry Doc) : Cat Doc :=
  let e' := { e with name := name, nameAttr := some name }
  if c.any (fun x => x.name == name) then c.map (fun x => if x.name == name then e' else x)
  else c ++ [e']

/-- a docid as handed to the catalog -/
inductive DocId where
  | int (n : Int)
  | bool (b : Bool)                -- `isinstance(True, int)`: accepted, stored as 1 / 0
  | other                          -- str, float, None, …
  deriving Repr

/-- `assertint(docid)`: `some n` = accepted (as the integer `n`), `none` = `ValueError` -/
def assertint : DocId → Option Int
  | .int n => some n
  | .bool b => some (if b then 1 else 0)
  | .other => none

/-- `for index in self.values(): f(index)` where `f` may raise: the indexes before the raising
one are updated, the raising one is left as `f` left it, the rest is untouched -/
def fanout (f : Entry Doc → Index × Option Err) : Cat Doc → Cat Doc × Option Err
  | [] => ([], none)
  | e :: es =>
    match f e with
    | (ix', some err) => ({ e with ix := ix' } :: es, some err)
    | (ix', none) =>
      let r := fanout f es
      ({ e with ix := ix' } :: r.1, r.2)

/-- `Catalog.index_doc(docid, obj)` -/
def indexDoc (c : Cat Doc) (d : DocId) (obj : Doc) : Cat Doc × Option Err :=
  match assertint d with
  | none => (c, some .valueError)
  | some n => fanout (fun e => e.ix.indexDoc n (e.disc obj)) c

/-- `Catalog.reindex_doc(docid, obj)` -/
def reindexDoc (c : Cat Doc) (d : DocId) (obj : Doc) : Cat Doc × Option Err :=
  match assertint d with
  | none => (c, some .valueError)
  | some n => fanout (fun e => e.ix.reindexDoc n (e.disc obj)) c

/-- `Catalog.unindex_doc(docid)` -/
def unindexDoc (c : Cat Doc) (d : DocId) : Cat Doc × Option Err :=
  match assertint d with
  | none => (c, some .valueError)
  | some n => fanout (fun e => (e.ix.unindexDoc n, none)) c

/-- `Catalog.reset()` -/
def reset (c : Cat Doc) : Cat Doc × Option Err := fanout (fun e => (e.ix.reset, none)) c

inductive Op (Doc : Type) where
  | index (d : DocId) (obj : Doc)
  | reindex (d : DocId) (obj : Doc)
  | unindex (d : DocId)
  | reset

/-- one catalog call: the catalog afterwards and the exception, if any -/
def stepE (c : Cat Doc) : Op Doc → Cat Doc × Option Err
  | .index d obj => indexDoc c d obj
  | .reindex d obj => reindexDoc c d obj
  | .unindex d => unindexDoc c d
  | .reset => reset c

def step (c : Cat Doc) (op : Op Doc) : Cat Doc := (stepE c op).1

/-- the catalog after a history of calls (exceptions are caught by the caller and the history goes on) -/
def run (c : Cat Doc) (h : List (Op Doc)) : Cat Doc := h.foldl step c

/-! ## CatalogQuery -/

/-- the second component of the `(num, result)` pair -/
inductive Result where
  | ids (s : IdSet)                        -- an id set (`IFSet`, or the empty tuple `()`)
  | seq (l : List Int) (raised : Bool)     -- what `index.sort` returned: yields `l`, then raises `Unsortable` iff `raised`
  deriving Repr

structure SortArgs where
  sortIndex : Option String := none
  limit : Option Int := none
  reverse : Bool := false

/-- `CatalogQuery.sort(docidset, sort_index, limit, sort_type, reverse)` -/
def sort (c : Cat Doc) (docidset : IdSet) (a : SortArgs) : Except Err (Nat × Result) :=
  let numdocs := docidset.length
  match a.sortIndex with
  | none => .ok (numdocs, .ids docidset)                     -- `limit` is ignored without a sort index
  | some name =>
    match get c name with
    | none => .error .keyError                               -- `self.catalog[sort_index]`
    | some e => do
      let r ← e.ix.sort docidset a.reverse a.limit
      let n := match a.limit with
        | some l => if l = 0 then numdocs else min numdocs l.toNat   -- `if limit: numdocs = min(numdocs, limit)`
        | none => numdocs
      pure (n, .seq r.1 r.2)

/-- the per-index step of both loops: `self.catalog.get(index_name)` (→ `ValueError`), then `apply` -/
def resolve (c : Cat Doc) (t : String × QArg) : Except Err IdSet :=
  match get c t.1 with
  | none => .error .valueError
  | some e => e.ix.apply t.2

/-- the loop of the unordered mode over the (lazily evaluated) per-index answers:
`none` = early return `(0, r)` on an empty answer, `some rs` = the collected non-empty answers -/
def collect : List (Except Err IdSet) → Except Err (Option (List IdSet))
  | [] => .ok (some [])
  | .error e :: _ => .error e
  | .ok [] :: _ => .ok none                                  -- `if not r: return 0, r`
  | .ok r :: rest => do
    match ← collect rest with
    | none => pure none
    | some rs => pure (some (r :: rs))

/-- unordered mode after the loop: smallest answer first, then intersect with every answer -/
def intersectAll (results : List IdSet) : IdSet :=
  match Sort.isort (fun a b => decide (a.length ≤ b.length)) results with
  | [] => []                                                 -- `if not results: return 0, ()`
  | smallest :: _ => results.foldl LSet.inter smallest       -- `weightedIntersection(result, r)[1]`

/-- ordered mode: `for index_name in index_query_order:`; the state is `result` (`None` at first);
`none` = early return on an empty intermediate result -/
def ordered (c : Cat Doc) (terms : List (String × QArg)) :
    List String → Option IdSet → Except Err (Option (Option IdSet))
  | [], res => .ok (some res)
  | n :: rest, res =>
    match terms.lookup n with
    | none => ordered c terms rest res                        -- `if index_query is _marker: continue`
    | some q =>
      match get c n with
      | none => .error .valueError
      | some e => do
        let result ← e.ix.applyIntersect q res
        if result = [] then pure none                         -- `if not result: return 0, result`
        else ordered c terms rest (some result)

structure SearchArgs extends SortArgs where
  terms : List (String × QArg) := []          -- the remaining keyword arguments, in call order
  order : Option (List String) := none        -- `index_query_order`

/-- `CatalogQuery.search(**query)` -/
def search (c : Cat Doc) (a : SearchArgs) : Except Err (Nat × Result) :=
  match a.order with
  | none => do
    match ← collect (a.terms.map (resolve c)) with
    | none => pure (0, .ids [])
    | some results =>
      let result := intersectAll results
      if result = [] then pure (0, .ids [])                   -- no term, or empty intersection
      else sort c result a.toSortArgs
  | some order => do
    match ← ordered c a.terms order none with
    | none => pure (0, .ids [])
    | some none => pure (0, .ids [])                          -- no index named in the order was queried
    | some (some result) => sort c result a.toSortArgs

/-- `CatalogQuery.query(queryobject, sort_index, limit, sort_type, reverse, names)`;
`results` is what `queryobject._apply(names)` returned (property C04) -/
def query (c : Cat Doc) (results : IdSet) (a : SortArgs) : Except Err (Nat × Result) := sort c results a

/-- `__call__ = query` -/
def call (c : Cat Doc) (results : IdSet) (a : SortArgs) : Except Err (Nat × Result) := query c results a

/-- `And(q1, …, qn)._apply` over the operands' answers (used by the driver for `query`):
`Query.intersect` returns an empty set when either side is empty -/
def andApply : List IdSet → IdSet
  | [] => []
  | r :: rest => rest.foldl (fun res right =>
      if res.length = 0 then [] else
      if right.length = 0 then [] else LSet.inter res right) r

end Hyp.Catalog
