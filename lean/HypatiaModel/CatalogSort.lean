import HypatiaModel.Catalog
import HypatiaModel.FieldSort
import HypatiaModel.QueryModel
import HypatiaModel.ResultSet

/-!
# hypatia.catalog.CatalogQuery with the sort index's own `sort`  (C12 ∘ C07)

`Catalog.lean` takes `FieldIndex.sort` at its contract (`fieldSort`: what C07 specifies).  Here
`CatalogQuery.sort / search / query / __call__` call the **model of `FieldIndex.sort` itself**
(`HypatiaModel/FieldSort.lean`: `limit` validation, empty request, empty index, the `sort_type` dispatch, the
heuristics choosing between forward scan, n-best and timsort, the three algorithms) – the `sort_type` argument
is passed through as the code does.  `searchSet` is the part of `search` in front of the final `self.sort`
call (both loops with their early exits); `Lemmas/CatalogSort.lean` proves that `Catalog.search` is
`searchSet` followed by `Catalog.sort`, so the two models share the loops by theorem.
-/
namespace Hyp.Catalog
open Hyp Hyp.Legacy
open Hyp.Field (SortRes SortType)

/-- the second component of the `(num, result)` pair -/
inductive ResultM where
  | ids (s : IdSet)                  -- an id set (`IFSet`, or the empty tuple `()`)
  | sorted (r : SortRes)             -- what `index.sort` returned: `[]` or a generator
  deriving Repr

/-- `index.sort(docids, reverse=…, limit=…, sort_type=…)` (`raise_unsortable` keeps its default `True`);
only the field index has one.  `ValueError` / `Unsortable` raised by the call itself are exceptions of the
caller. -/
def Index.sortM (ix : Index) (ids : IdSet) (reverse : Bool) (limit : Option Int) (st : Option SortType) :
    Except Err SortRes :=
  match ix with
  | .field s =>
    match Field.sort s ids reverse limit st true with
    | .valueError => .error .valueError
    | .unsortableAtCall _ => .error .unsortable
    | r => .ok r
  | _ => .error .attributeError

variable {Doc : Type}

/-- `CatalogQuery.sort(docidset, sort_index, limit, sort_type, reverse)` -/
def sortM (c : Cat Doc) (docidset : IdSet) (a : SortArgs) (st : Option SortType) : Except Err (Nat × ResultM) :=
  let numdocs := docidset.length
  match a.sortIndex with
  | none => .ok (numdocs, .ids docidset)
  | some name =>
    match get c name with
    | none => .error .keyError
    | some e => do
      let r ← e.ix.sortM docidset a.reverse a.limit st
      let n := match a.limit with
        | some l => if l = 0 then numdocs else min numdocs l.toNat
        | none => numdocs
      pure (n, .sorted r)

/-- the docid set `search` hands to `self.sort`; `none` = it returns `(0, r)` / `(0, ())` itself -/
def searchSet (c : Cat Doc) (a : SearchArgs) : Except Err (Option IdSet) :=
  match a.order with
  | none => do
    match ← collect (a.terms.map (resolve c)) with
    | none => pure none
    | some results =>
      let result := intersectAll results
      if result = [] then pure none else pure (some result)
  | some order => do
    match ← ordered c a.terms order none with
    | none => pure none
    | some none => pure none
    | some (some result) => pure (some result)

/-- `CatalogQuery.search(**query)` with `sort_type` -/
def searchM (c : Cat Doc) (a : SearchArgs) (st : Option SortType) : Except Err (Nat × ResultM) := do
  match ← searchSet c a with
  | none => pure (0, .ids [])
  | some result => sortM c result a.toSortArgs st

/-- `CatalogQuery.query(queryobject, sort_index, limit, sort_type, reverse)`; `results` is what
`queryobject._apply(names)` returned -/
def queryM (c : Cat Doc) (results : IdSet) (a : SortArgs) (st : Option SortType) : Except Err (Nat × ResultM) :=
  sortM c results a st

/-- `__call__ = query` -/
def callM (c : Cat Doc) (results : IdSet) (a : SortArgs) (st : Option SortType) : Except Err (Nat × ResultM) :=
  queryM c results a st

/-! ## the catalog's indexes as the index models a query object evaluates over (C04) -/

/-- the index as `hypatia.query` sees it (`names`: the dictionary of facet leaf values, see `QueryModel.lean`) -/
def toIndexM (names : List Facet.Facet) : Index → Query.IndexM
  | .field s => .field s
  | .keyword s => .keyword s
  | .facet s => .facet names s

def mcatOf (names : List Facet.Facet) (c : Cat Doc) : Query.MCatalog := c.map (fun e => toIndexM names e.ix)

/-- `index.execute()` / `query.execute()`: `ResultSet(docids, len(docids), resolver)` of the `_apply` result -/
def executeM {R : Type} (names : List Facet.Facet) (c : Cat Doc) (q : Query.Q) (resolver : Option (Int → R)) :
    Except Query.Err (RSet.RS R) :=
  (Query.applyQM (mcatOf names c) q).map (fun ids => RSet.ofQuery ids resolver)

end Hyp.Catalog
