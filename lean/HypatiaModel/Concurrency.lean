/-!
# Concurrency abstraction for C19

**Specification level.**  Two transactions `a`, `b` start from the same committed base and commit in
some order; each commit either succeeds or fails with ConflictError (both outcomes are admissible).
`visible` = the operations an observer must see afterwards: the base, then the operations of the
transactions that committed, in commit order – i.e. serial execution.

**Object level.**  (further down) optimistic commit with BTrees' three-way merges.
-/
namespace Hyp.Concurrency

inductive Who where | a | b
deriving DecidableEq, Repr

structure CLog where
  base : List Nat := []
  opsA : List Nat := []
  opsB : List Nat := []
  order : List Who := []
deriving Repr

def CLog.ops (l : CLog) : Who → List Nat
  | .a => l.opsA
  | .b => l.opsB

def okOf (okA okB : Bool) : Who → Bool
  | .a => okA
  | .b => okB

/-- the operations visible after both commits, given which commits succeeded -/
def CLog.visible (l : CLog) (okA okB : Bool) : List Nat :=
  l.base ++ (l.order.filter (okOf okA okB)).flatMap l.ops

/-! ## object level: optimistic commit with three-way merge

A heap maps object ids to objects; an object is either a counter (`BTrees.Length`) or a bucket
(a BTrees bucket / set: key ↦ value).  A transaction works on a private copy of the snapshot and
records what it wrote.  Committing second, every object both transactions wrote is merged with the
class's `_p_resolveConflict(old, committed, new)`:

* `Length`: `committed + new - old`;
* bucket: per key – a key changed (inserted, deleted, re-valued) on both sides is a conflict;
  otherwise the changed side wins.  (Real BTrees refuse in *more* cases – empty buckets, deleted
  first key, splits – which only turns a success into ConflictError, admissible by the property.)
-/

inductive Obj where
  | counter (n : Int)
  | bucket (m : List (Int × Int))      -- association list key ↦ value, keys unique
deriving Repr, DecidableEq

def bget (m : List (Int × Int)) (k : Int) : Option Int := m.lookup k

/-- three-way merge of one key: `none` = conflict -/
def mergeKey (old com new : Option Int) : Option (Option Int) :=
  if com = old then some new
  else if new = old then some com
  else none

/-- `Length._p_resolveConflict` -/
def mergeCounter (old com new : Int) : Int := com + new - old

end Hyp.Concurrency

namespace Hyp.Concurrency

/-! ### heaps of keyed objects and optimistic commit of the second transaction -/

/-- position = (object id, key); a heap gives each position an optional value
(`none` = key absent).  Counters (`Length`) are kept in a separate component. -/
abbrev Pos := Nat × Int
abbrev Heap := Pos → Option Int
abbrev Counters := Nat → Int

/-- a transaction as a deterministic program: the positions it *reads*, and, given the heap it runs
on, the list of writes it performs and the counter deltas (`Length.change`) it issues -/
structure Txn where
  reads : Pos → Bool
  writes : Heap → List (Pos × Option Int)
  deltas : Heap → List (Nat × Int)

def applyWrites (h : Heap) : List (Pos × Option Int) → Heap
  | [] => h
  | (p, v) :: ws => applyWrites (fun q => if q = p then v else h q) ws

def applyDeltas (c : Counters) : List (Nat × Int) → Counters
  | [] => c
  | (i, d) :: ds => applyDeltas (fun j => if j = i then c j + d else c j) ds

/-- running a transaction on a heap (serially) -/
def Txn.run (t : Txn) (h : Heap) (c : Counters) : Heap × Counters :=
  (applyWrites h (t.writes h), applyDeltas c (t.deltas h))

/-- three-way merge of the whole keyed heap at commit of the second transaction; `none` = ConflictError -/
def mergeAt (old com new : Heap) (p : Pos) : Option (Option Int) := mergeKey (old p) (com p) (new p)

def mergeCounters (old com new : Counters) : Counters := fun i => mergeCounter (old i) (com i) (new i)

end Hyp.Concurrency
