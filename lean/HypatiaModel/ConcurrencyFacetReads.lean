import HypatiaModel.ConcurrencyReads

/-!
# Object-level layer, the facet index's own read: `FacetIndex.counts` (C18)

`counts(docids, omit_facets)` builds `effective_omits` (a new `OO.Set`), `include_facets =
OO.difference(self.facets, effective_omits)` (new), and for every docid reads
`self._rev_index.get(docid)`, intersects (`OO.intersection`: new) and bumps a plain `dict`.  None of
the sets it builds is ever assigned to a stored object, the two dicts (`counts`, `isect_cache`) are
not persistent: on the heap of persistent objects (`ConcurrencyIndex.lean`) the call only *reads* –
one reverse entry per docid – and its stored-write set is empty.

`incl` is `include_facets`, computed by the caller from the configured facets and the omit list.
The memo `isect_cache` (keyed by the tuple of a document's facets) is part of C13's model
(`Facet.countsLoop`), which proves it transparent; it is left out here, and
`Properties/C18Facet.lean` proves that the result is the same dictionary as a function of the facet.
-/
namespace Hyp.CIdx
open Hyp

variable {K : Type} [DecidableEq K]

/-- `count = counts.get(facet, 0); count += 1; counts[facet] = count` -/
def bumpK (c : AMap K Nat) (f : K) : AMap K Nat := AMap.set c f ((AMap.get c f).getD 0 + 1)

/-- the loop `for docid in docids:` of `counts()` -/
def facetCountsLoop (rev : AMap Int (List K)) (incl : List K) : List Int → AMap K Nat → AMap K Nat
  | [], c => c
  | d :: ds, c =>
    match AMap.get rev d with
    | none => facetCountsLoop rev incl ds c                 -- unknown / facet-less id: `continue`
    | some avail => facetCountsLoop rev incl ds ((LSet.inter incl avail).foldl bumpK c)

/-- `FacetIndex.counts(docids, omit_facets)` inside a transaction: logs the reverse entries it reads,
allocates no persistent object, writes nothing -/
def KTx.facetCounts (x : KTx K) (incl : List K) (ds : List Int) : KTx K × AMap K Nat :=
  (ds.foldl (fun x d => x.rd (.rev d)) x, facetCountsLoop x.heap.rev incl ds [])

end Hyp.CIdx
