import HypatiaModel.Field
import HypatiaModel.Keyword
import HypatiaModel.Concurrency

/-!
# Object-level layer of C19: which persistent objects hypatia's index operations read and write

`Concurrency.lean` carries the generic optimistic-commit abstraction.  This file lays the **field
index** and the **keyword index** (and the facet index, which inherits the keyword index's
containers) out as the persistent objects ZODB stores and merges:

* the forward `OOBTree`   `fwd : key ↦ Oid`   – a *reference* to a posting object,
* posting objects          `post : Oid ↦ members` (field: `IF.TreeSet`; keyword: `IF.Set` or
  `IF.TreeSet`, a *different object* after `_insert_forward` replaced the small set),
* the reverse `IOBTree`    `rev : docid ↦ value` (keyword: the document's `OO.Set`; that set is
  created by the operation that stores it and never mutated afterwards, so it is kept inline),
* `_not_indexed`           `ni` (an `IF.TreeSet`),
* `_num_docs`              `len` (a `BTrees.Length`).

A posting object that is no longer referenced (emptied and `del`eted from the forward tree, or
replaced at `tree_threshold`) stays in the heap with its last state, exactly as it stays in the
storage: a concurrent transaction that started earlier still holds a reference to it.

A transaction (`FTx` / `KTx`) runs `index_doc` / `unindex_doc` (`reindex_doc = index_doc`) on a
private copy of the snapshot and records every location it reads and writes (`Loc`: object +
key).  Objects it creates get identities `(me, n)`; two transactions have different `me`.

`commitSecond base a b`: `a` has committed (its heap is the committed state), now `b` commits.
Every object `b` wrote is stored; if `a` wrote it too, it is merged by the class's
`_p_resolveConflict(old, committed, new)`:

* `Length`: `com + new - old`;
* buckets / sets / one-bucket trees (`resolveMap`, `resolveSet`): **conflict** when the committed
  or the new state is empty (BTrees error 12); per key three-way merge, **conflict** when both
  sides changed the key (errors 1–9; a value that is a reference changed on both sides included);
  **conflict** when the merged state would be empty (error 10).

Real BTrees refuse in more cases (first key of a bucket deleted – error 13, bucket splits,
multi-bucket trees – error 11, references that cannot be compared).  That only turns a success
into `ConflictError`, which C19 admits; the direction that matters – *real success ⇒ this merge
succeeds with the same state* – is what the harness checks on every generated case.
-/
namespace Hyp.CIdx
open Hyp

/-- identity of a persistent object created by an index operation: (creating transaction, serial) -/
abbrev Oid := Nat × Nat

/-- the persistent objects of one index -/
inductive ObjId where
  | fwd | rev | ni | len
  | post (o : Oid)
deriving DecidableEq, Repr

/-- a location = object + key (`whole`: the object as a whole – creation, `clear()`, truth test /
`len()` of a posting) -/
inductive Loc (V : Type) where
  | fwd (v : V)
  | rev (d : Int)
  | ni (d : Int)
  | len
  | post (o : Oid) (d : Int)
  | whole (o : Oid)
deriving DecidableEq, Repr

def Loc.obj {V : Type} : Loc V → ObjId
  | .fwd _ => .fwd
  | .rev _ => .rev
  | .ni _ => .ni
  | .len => .len
  | .post o _ => .post o
  | .whole o => .post o

/-- did a transaction with write log `w` register object `o` (`_p_changed`)? -/
def dirty {V : Type} (w : List (Loc V)) (o : ObjId) : Bool := w.any (fun l => decide (l.obj = o))

/-! ## `_p_resolveConflict` of the container classes -/

/-- three-way merge of one key of a bucket (`Concurrency.mergeKey` for any value type) -/
def mergeVal {β : Type} [DecidableEq β] (old com new : Option β) : Option (Option β) :=
  if com = old then some new
  else if new = old then some com
  else none

/-- per-key merge over a key universe; `none` = both sides changed one key -/
def mergeEntries {κ β : Type} [DecidableEq κ] [DecidableEq β] (old com new : AMap κ β) :
    List κ → Option (AMap κ β)
  | [] => some []
  | k :: ks =>
    match mergeVal (AMap.get old k) (AMap.get com k) (AMap.get new k), mergeEntries old com new ks with
    | some (some v), some r => some ((k, v) :: r)
    | some none, some r => some r
    | _, _ => none

/-- `Bucket._p_resolveConflict` / `_Tree._p_resolveConflict` of a one-bucket tree -/
def resolveMap {κ β : Type} [DecidableEq κ] [DecidableEq β] (old com new : AMap κ β) :
    Option (AMap κ β) :=
  if com.isEmpty || new.isEmpty then none                                   -- error 12
  else
    match mergeEntries old com new (Keyword.dedup (AMap.keys com ++ AMap.keys new ++ AMap.keys old)) with
    | some (e :: r) => some (e :: r)
    | _ => none                                                             -- errors 1–9 / error 10

/-- three-way merge of the membership of one key of a set -/
def mergeMem (old com new : Bool) : Option Bool :=
  if com = old then some new
  else if new = old then some com
  else none

def mergeMembers (old com new : List Int) : List Int → Option (List Int)
  | [] => some []
  | k :: ks =>
    match mergeMem (decide (k ∈ old)) (decide (k ∈ com)) (decide (k ∈ new)), mergeMembers old com new ks with
    | some true, some r => some (k :: r)
    | some false, some r => some r
    | _, _ => none

/-- `Set._p_resolveConflict` / `TreeSet` (one bucket) -/
def resolveSet (old com new : List Int) : Option (List Int) :=
  if com.isEmpty || new.isEmpty then none                                   -- error 12
  else
    match mergeMembers old com new (Keyword.dedup (com ++ new ++ old)) with
    | some (e :: r) => some (e :: r)
    | _ => none                                                             -- errors 4–9 / error 10

/-- what the storage ends up with for one object at `b`'s commit: `b` did not write it – the
committed state stays; `b` wrote it and `a` did not – `b`'s state; both – `_p_resolveConflict` -/
def mergeObj {σ : Type} (resolve : σ → σ → σ → Option σ) (da db : Bool) (old com new : σ) : Option σ :=
  if db then (if da then resolve old com new else some new) else some com

/-! ## field index -/

structure FHeap (V : Type) where
  fwd : AMap V Oid := []
  rev : AMap Int V := []
  ni : List Int := []
  len : Int := 0
  post : AMap Oid (List Int) := []

/-- a running transaction: private heap, identity, allocator, read and write log -/
structure FTx (V : Type) where
  heap : FHeap V := {}
  me : Nat := 0
  next : Nat := 0
  reads : List (Loc V) := []
  writes : List (Loc V) := []

namespace FTx
variable {V : Type} [DecidableEq V]

def rd (x : FTx V) (l : Loc V) : FTx V := { x with reads := l :: x.reads }
def wr (x : FTx V) (l : Loc V) : FTx V := { x with writes := l :: x.writes }

/-- `_not_indexed.remove(docid)` (only called when present) -/
def niRemove (x : FTx V) (d : Int) : FTx V :=
  { x with heap := { x.heap with ni := LSet.remove x.heap.ni d }, writes := .ni d :: x.writes }
/-- `_not_indexed.add(docid)` (only called when absent) -/
def niAdd (x : FTx V) (d : Int) : FTx V :=
  { x with heap := { x.heap with ni := LSet.insert x.heap.ni d }, writes := .ni d :: x.writes }
/-- `del rev_index[docid]` -/
def revErase (x : FTx V) (d : Int) : FTx V :=
  { x with heap := { x.heap with rev := AMap.erase x.heap.rev d }, writes := .rev d :: x.writes }
/-- `rev_index[docid] = value` -/
def revSet (x : FTx V) (d : Int) (v : V) : FTx V :=
  { x with heap := { x.heap with rev := AMap.set x.heap.rev d v }, writes := .rev d :: x.writes }
/-- `del self._fwd_index[value]` -/
def fwdErase (x : FTx V) (v : V) : FTx V :=
  { x with heap := { x.heap with fwd := AMap.erase x.heap.fwd v }, writes := .fwd v :: x.writes }
/-- `self._fwd_index[value] = set` -/
def fwdSet (x : FTx V) (v : V) (o : Oid) : FTx V :=
  { x with heap := { x.heap with fwd := AMap.set x.heap.fwd v o }, writes := .fwd v :: x.writes }
/-- `set.insert(docid)` / `set.remove(docid)` on posting object `o` (only called when it changes `o`) -/
def postPut (x : FTx V) (o : Oid) (d : Int) (s : List Int) : FTx V :=
  { x with heap := { x.heap with post := AMap.set x.heap.post o s }, writes := .post o d :: x.writes }
/-- `self._num_docs.change(delta)` -/
def lenChange (x : FTx V) (delta : Int) : FTx V :=
  { x with heap := { x.heap with len := x.heap.len + delta }, writes := .len :: x.writes }
/-- `family.IF.TreeSet()`: a new object -/
def alloc (x : FTx V) : FTx V × Oid :=
  ({ x with heap := { x.heap with post := AMap.set x.heap.post (x.me, x.next) [] },
            next := x.next + 1 }, (x.me, x.next))

/-- members of posting object `o` (a dangling reference reads as empty; excluded by the invariant) -/
def members (x : FTx V) (o : Oid) : List Int := (AMap.get x.heap.post o).getD []

/-- `FieldIndex.unindex_doc` -/
def unindexDoc (x : FTx V) (d : Int) : FTx V :=
  let x := x.rd (.ni d)
  let x := if d ∈ x.heap.ni then x.niRemove d else x
  let x := x.rd (.rev d)
  match AMap.get x.heap.rev d with
  | none => x                                        -- not in index
  | some v =>
    let x := x.revErase d
    let x := x.rd (.fwd v)
    let x :=
      match AMap.get x.heap.fwd v with
      | none => x                                    -- `self._fwd_index[value]`: KeyError, `set = 1`
      | some o =>
        let x := x.rd (.post o d)
        if d ∈ x.members o then
          let s' := LSet.remove (x.members o) d
          let x := (x.postPut o d s').rd (.whole o)
          if s' = [] then x.fwdErase v else x        -- `if not set: del self._fwd_index[value]`
        else x                                       -- `set.remove`: KeyError, `set = 1`
    x.lenChange (-1)

/-- the tail of `index_doc`: forward insert (a new `TreeSet` for a new value), count, reverse entry -/
def insertDoc (x : FTx V) (d : Int) (v : V) : FTx V :=
  let x := x.rd (.fwd v)
  let (x, o) :=
    match AMap.get x.heap.fwd v with
    | some o => (x, o)
    | none => let (x, o) := x.alloc; (x.fwdSet v o, o)
  let x := x.rd (.post o d)
  let x := if d ∈ x.members o then x else x.postPut o d (LSet.insert (x.members o) d)
  let x := x.lenChange 1
  x.revSet d v

/-- `FieldIndex.index_doc` (= `reindex_doc`) -/
def indexDoc (x : FTx V) (d : Int) (val : Option V) : FTx V :=
  match val with
  | none =>
    let x := x.rd (.ni d)
    if d ∈ x.heap.ni then x
    else (unindexDoc x d).niAdd d
  | some v =>
    let x := x.rd (.ni d)
    let x := if d ∈ x.heap.ni then x.niRemove d else x
    let x := x.rd (.rev d)
    match AMap.get x.heap.rev d with
    | some _ =>
      let x := x.rd (.fwd v)
      let upToDate :=
        match AMap.get x.heap.fwd v with
        | some o => decide (d ∈ x.members o)
        | none => false
      let x := match AMap.get x.heap.fwd v with
        | some o => x.rd (.post o d)
        | none => x
      if upToDate then x                              -- already up to date
      else insertDoc (unindexDoc x d) d v
    | none => insertDoc x d v

end FTx

/-- the operations a C19 transaction performs on one index -/
inductive TOp (W : Type) where
  | index (d : Int) (v : Option W)       -- `index_doc` / `reindex_doc`
  | unindex (d : Int)

def TOp.doc {W : Type} : TOp W → Int
  | .index d _ => d
  | .unindex d => d

namespace FTx
variable {V : Type} [DecidableEq V]

def step (x : FTx V) : TOp V → FTx V
  | .index d v => indexDoc x d v
  | .unindex d => unindexDoc x d

def run (x : FTx V) (ops : List (TOp V)) : FTx V := ops.foldl step x

/-- a transaction `me` begins on snapshot `h` -/
def start (h : FHeap V) (me : Nat) : FTx V := { heap := h, me := me }

end FTx

section FieldCommit
variable {V : Type} [DecidableEq V]

/-- the posting objects after `b`'s commit, given `b`'s objects: new objects are stored, objects of
the snapshot are merged -/
def mergePosts (base a : AMap Oid (List Int)) (wa wb : List (Loc V)) :
    AMap Oid (List Int) → Option (AMap Oid (List Int))
  | [] => some a
  | (o, sb) :: rest =>
    match mergePosts base a wa wb rest,
          (match AMap.get base o with
           | none => some sb
           | some s0 => mergeObj resolveSet (dirty wa (.post o)) (dirty wb (.post o)) s0
                          ((AMap.get a o).getD s0) sb) with
    | some r, some s => some (AMap.set r o s)
    | _, _ => none

/-- `a` committed first (always succeeds: nothing was committed since its snapshot); `b` commits
second.  `none` = ConflictError (the storage keeps `a.heap`). -/
def commitSecond (base : FHeap V) (a b : FTx V) : Option (FHeap V) :=
  match mergeObj resolveMap (dirty a.writes .fwd) (dirty b.writes .fwd) base.fwd a.heap.fwd b.heap.fwd,
        mergeObj resolveMap (dirty a.writes .rev) (dirty b.writes .rev) base.rev a.heap.rev b.heap.rev,
        mergeObj resolveSet (dirty a.writes .ni) (dirty b.writes .ni) base.ni a.heap.ni b.heap.ni,
        mergePosts base.post a.heap.post a.writes b.writes b.heap.post with
  | some fwd, some rev, some ni, some post =>
    some { fwd := fwd, rev := rev, ni := ni,
           len := Concurrency.mergeCounter base.len a.heap.len b.heap.len, post := post }
  | _, _, _, _ => none

/-- the members a forward key leads to -/
def FHeap.posting (h : FHeap V) (v : V) : List Int :=
  match AMap.get h.fwd v with
  | some o => (AMap.get h.post o).getD []
  | none => []

/-- the index state in the vocabulary of C01: references resolved, unreferenced objects dropped -/
def FHeap.view (h : FHeap V) : Field.State V :=
  { fwd := h.fwd.map (fun e => (e.1, (AMap.get h.post e.2).getD [])),
    rev := h.rev, numDocs := h.len, notIndexed := h.ni }

end FieldCommit

/-! ## keyword index (and facet index) -/

open Hyp.Keyword (Tag Tag.set Tag.tree dedup)

structure KHeap (K : Type) where
  fwd : AMap K Oid := []
  rev : AMap Int (List K) := []
  ni : List Int := []
  len : Int := 0
  post : AMap Oid (Tag × List Int) := []

/-- `tree_threshold`, and whether `_insert_forward` empties the small set it replaces
(`word_idx.clear()`, the repair of D20) -/
structure KCfg where
  thr : Nat := 64
  clearReplaced : Bool := true

structure KTx (K : Type) where
  heap : KHeap K := {}
  me : Nat := 0
  next : Nat := 0
  reads : List (Loc K) := []
  writes : List (Loc K) := []

namespace KTx
variable {K : Type} [DecidableEq K]

def rd (x : KTx K) (l : Loc K) : KTx K := { x with reads := l :: x.reads }
def niRemove (x : KTx K) (d : Int) : KTx K :=
  { x with heap := { x.heap with ni := LSet.remove x.heap.ni d }, writes := .ni d :: x.writes }
def niAdd (x : KTx K) (d : Int) : KTx K :=
  { x with heap := { x.heap with ni := LSet.insert x.heap.ni d }, writes := .ni d :: x.writes }
def revErase (x : KTx K) (d : Int) : KTx K :=
  { x with heap := { x.heap with rev := AMap.erase x.heap.rev d }, writes := .rev d :: x.writes }
def revSet (x : KTx K) (d : Int) (v : List K) : KTx K :=
  { x with heap := { x.heap with rev := AMap.set x.heap.rev d v }, writes := .rev d :: x.writes }
def fwdErase (x : KTx K) (k : K) : KTx K :=
  { x with heap := { x.heap with fwd := AMap.erase x.heap.fwd k }, writes := .fwd k :: x.writes }
def fwdSet (x : KTx K) (k : K) (o : Oid) : KTx K :=
  { x with heap := { x.heap with fwd := AMap.set x.heap.fwd k o }, writes := .fwd k :: x.writes }
/-- `insert` / `remove` of one member of posting object `o` (only called when it changes `o`) -/
def postPut (x : KTx K) (o : Oid) (d : Int) (p : Tag × List Int) : KTx K :=
  { x with heap := { x.heap with post := AMap.set x.heap.post o p }, writes := .post o d :: x.writes }
/-- `word_idx.clear()` -/
def postClear (x : KTx K) (o : Oid) (t : Tag) : KTx K :=
  { x with heap := { x.heap with post := AMap.set x.heap.post o (t, []) }, writes := .whole o :: x.writes }
def lenChange (x : KTx K) (delta : Int) : KTx K :=
  { x with heap := { x.heap with len := x.heap.len + delta }, writes := .len :: x.writes }
/-- `Set()` / `TreeSet(word_idx)`: a new object with the given state -/
def alloc (x : KTx K) (p : Tag × List Int) : KTx K × Oid :=
  ({ x with heap := { x.heap with post := AMap.set x.heap.post (x.me, x.next) p },
            next := x.next + 1 }, (x.me, x.next))

def obj (x : KTx K) (o : Oid) : Tag × List Int := (AMap.get x.heap.post o).getD (Tag.set, [])

/-- `idx[word].remove(docid); if not idx[word]: del idx[word]` for a word whose posting object `o`
holds the document -/
def unpostOne (x : KTx K) (d : Int) (w : K) (o : Oid) : KTx K :=
  let s' := LSet.remove (x.obj o).2 d
  let x := (x.postPut o d ((x.obj o).1, s')).rd (.whole o)
  if s' = [] then x.fwdErase w else x

/-- the loop `for word in words: idx[word].remove(docid); if not idx[word]: del idx[word]`;
`false` = `KeyError` (unreachable from a consistent state) -/
def unpostAll (x : KTx K) (d : Int) : List K → KTx K × Bool
  | [] => (x, true)
  | w :: ws =>
    let x := x.rd (.fwd w)
    match AMap.get x.heap.fwd w with
    | none => (x, false)
    | some o =>
      let x := x.rd (.post o d)
      if d ∈ (x.obj o).2 then unpostAll (unpostOne x d w o) d ws
      else (x, false)

/-- `KeywordIndex.unindex_doc` -/
def unindexDoc (x : KTx K) (d : Int) : KTx K :=
  let x := x.rd (.ni d)
  let x := if d ∈ x.heap.ni then x.niRemove d else x
  let x := x.rd (.rev d)
  match AMap.get x.heap.rev d with
  | none => x
  | some kws =>
    let r := unpostAll x d kws
    if r.2 then (r.1.revErase d).lenChange (-1) else r.1

/-- `word_idx = idx.get(word); if word_idx is None: idx[word] = word_idx = Set()` -/
def postingFor (x : KTx K) (w : K) : KTx K × Oid :=
  match AMap.get x.heap.fwd w with
  | some o => (x, o)
  | none =>
    let r := x.alloc (Tag.set, [])
    (r.1.fwdSet w r.2, r.2)

/-- `if not isinstance(word_idx, TreeSet) and len(word_idx) >= self.tree_threshold:
idx[word] = TreeSet(word_idx); word_idx.clear()` – `p` = the set's class and its members before the
insertion, `s'` = its members now -/
def promote (c : KCfg) (x : KTx K) (w : K) (o : Oid) (p : Tag × List Int) (s' : List Int) : KTx K :=
  if p.1 ≠ Tag.tree ∧ c.thr ≤ s'.length then
    let r := x.alloc (Tag.tree, s')                                          -- `TreeSet(word_idx)`
    let x := r.1.fwdSet w r.2                                                -- `idx[word] = …`
    if c.clearReplaced then x.postClear o p.1 else x                         -- `word_idx.clear()`
  else x

/-- one round of the loop in `_insert_forward` -/
def insertOne (c : KCfg) (x : KTx K) (d : Int) (w : K) : KTx K :=
  let r := postingFor (x.rd (.fwd w)) w
  let p := r.1.obj r.2
  let s' := LSet.insert p.2 d
  let x := r.1.rd (.post r.2 d)
  let x := if d ∈ p.2 then x else x.postPut r.2 d (p.1, s')                 -- `word_idx.insert(docid)`
  promote c (x.rd (.whole r.2)) w r.2 p s'

/-- `KeywordIndex._insert_forward` -/
def insertForward (c : KCfg) (x : KTx K) (d : Int) : List K → KTx K
  | [] => x
  | w :: ws => insertForward c (insertOne c x d w) d ws

/-- `KeywordIndex._insert_reverse` -/
def insertReverse (x : KTx K) (d : Int) (words : List K) : KTx K :=
  if words = [] then x else x.revSet d words

/-- `KeywordIndex.index_doc` (= `reindex_doc`) for the marker / a list or tuple -/
def indexDoc (c : KCfg) (x : KTx K) (d : Int) (v : Option (List K)) : KTx K :=
  match v with
  | none =>
    let x := x.rd (.ni d)
    if d ∈ x.heap.ni then x
    else (unindexDoc x d).niAdd d
  | some seq =>
    let x := x.rd (.ni d)
    let x := if d ∈ x.heap.ni then x.niRemove d else x
    let x := x.rd (.rev d)
    let old := AMap.get x.heap.rev d
    if seq = [] then
      match old with
      | some (_ :: _) => unindexDoc x d
      | _ => x
    else
      let new := dedup seq
      match old with
      | none => (insertReverse (insertForward c x d new) d new).lenChange 1
      | some oldk =>
        let added := LSet.diff new oldk
        let removed := LSet.diff oldk new
        if added = [] ∧ removed = [] then x
        else
          let r := unpostAll x d removed
          if r.2 then insertReverse (insertForward c r.1 d added) d new
          else r.1

/-- body of `FacetIndex.index_doc`'s innermost loop: `fwset.insert(docid)` (a new `IF.Set` when
absent, never replaced) and `revset.insert(fac)` -/
def facetAddOne (x : KTx K) (d : Int) (fac : K) : KTx K :=
  let r := postingFor (x.rd (.fwd fac)) fac
  let p := r.1.obj r.2
  let x := r.1.rd (.post r.2 d)
  let x := if d ∈ p.2 then x else x.postPut r.2 d (p.1, LSet.insert p.2 d)
  let x := x.rd (.rev d)
  x.revSet d (LSet.insert ((AMap.get x.heap.rev d).getD []) fac)

/-- `FacetIndex.index_doc`; `cands` = the prefix expansions of the document's facet paths -/
def facetIndexDoc (facets : List K) (x : KTx K) (d : Int) (v : Option (List K)) : KTx K :=
  match v with
  | none => (unindexDoc x d).niAdd d            -- `unindex_doc` took it out of `_not_indexed` if it was there
  | some cands =>
    let x := x.rd (.ni d)
    let x := if d ∈ x.heap.ni then x.niRemove d else x
    let x := x.rd (.rev d)
    let x := match AMap.get x.heap.rev d with
      | some _ => unindexDoc x d
      | none => x
    let hits := cands.filter (· ∈ facets)
    let x := hits.foldl (fun x fac => facetAddOne x d fac) x
    if hits = [] then x else x.lenChange 1

def step (c : KCfg) (x : KTx K) : TOp (List K) → KTx K
  | .index d v => indexDoc c x d v
  | .unindex d => unindexDoc x d

def run (c : KCfg) (x : KTx K) (ops : List (TOp (List K))) : KTx K := ops.foldl (step c) x

def facetStep (facets : List K) (x : KTx K) : TOp (List K) → KTx K
  | .index d v => facetIndexDoc facets x d v
  | .unindex d => unindexDoc x d

def facetRun (facets : List K) (x : KTx K) (ops : List (TOp (List K))) : KTx K :=
  ops.foldl (facetStep facets) x

def start (h : KHeap K) (me : Nat) : KTx K := { heap := h, me := me }

end KTx

section KeywordCommit
variable {K : Type} [DecidableEq K]

/-- `_p_resolveConflict` of a posting object: the class (tag) of an object never changes -/
def resolvePosting (old com new : Tag × List Int) : Option (Tag × List Int) :=
  (resolveSet old.2 com.2 new.2).map (fun s => (old.1, s))

def mergePostsK (base a : AMap Oid (Tag × List Int)) (wa wb : List (Loc K)) :
    AMap Oid (Tag × List Int) → Option (AMap Oid (Tag × List Int))
  | [] => some a
  | (o, sb) :: rest =>
    match mergePostsK base a wa wb rest,
          (match AMap.get base o with
           | none => some sb
           | some s0 => mergeObj resolvePosting (dirty wa (.post o)) (dirty wb (.post o)) s0
                          ((AMap.get a o).getD s0) sb) with
    | some r, some s => some (AMap.set r o s)
    | _, _ => none

def commitSecondK (base : KHeap K) (a b : KTx K) : Option (KHeap K) :=
  match mergeObj resolveMap (dirty a.writes .fwd) (dirty b.writes .fwd) base.fwd a.heap.fwd b.heap.fwd,
        mergeObj resolveMap (dirty a.writes .rev) (dirty b.writes .rev) base.rev a.heap.rev b.heap.rev,
        mergeObj resolveSet (dirty a.writes .ni) (dirty b.writes .ni) base.ni a.heap.ni b.heap.ni,
        mergePostsK base.post a.heap.post a.writes b.writes b.heap.post with
  | some fwd, some rev, some ni, some post =>
    some { fwd := fwd, rev := rev, ni := ni,
           len := Concurrency.mergeCounter base.len a.heap.len b.heap.len, post := post }
  | _, _, _, _ => none

def KHeap.posting (h : KHeap K) (k : K) : List Int :=
  match AMap.get h.fwd k with
  | some o => ((AMap.get h.post o).getD (Tag.set, [])).2
  | none => []

/-- the index state in the vocabulary of C02 (`thr` is configuration, not stored state) -/
def KHeap.view (h : KHeap K) (thr : Nat) : Keyword.State K :=
  { fwd := h.fwd.map (fun e => (e.1, (AMap.get h.post e.2).getD (Tag.set, []))),
    rev := h.rev, numDocs := h.len, notIndexed := h.ni, thr := thr }

end KeywordCommit

end Hyp.CIdx
