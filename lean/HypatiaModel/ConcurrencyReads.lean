import HypatiaModel.ConcurrencyText
import HypatiaModel.Alias

/-!
# Object-level layer, read operations (C18)

The read paths of the field, keyword and text index on the **same heaps of persistent objects**
the C19 / C09 layers use (`ConcurrencyIndex.lean`, `ConcurrencyText.lean`): a read runs inside a
transaction, logs the locations it reads, may **allocate** containers (`multiunion`, `IF.Set(…)`,
`IF.union`, `IF.difference`, `IF.TreeSet(docids)`, `IF.Bucket()`, `weightedUnion`) – new objects
with identities `(me, next)` like the postings an indexing operation creates – and may mutate
containers in place (`scan_forward` removes the ids it has yielded from its working copy;
`TextIndex.apply` divides every score of its result by the query weight).  What a read hands
back is a *reference* (`RRef` / an `Oid`): sometimes to a container the index stores
(`not_indexed()`, `docids()` of an index without indexed documents, `KeywordIndex.search` of one
word with `operator='and'`, `CosineIndex._search_wids` for an `IFBTree` posting), which is why the
in-place mutations matter.

`Properties/C18Index.lean` proves that every write of every read below goes to an object allocated
during the call – except the one case the provenance table of `Alias.lean` already singles out
(cosine, one word, `IFBTree` posting, idf exactly 1, which cannot occur).

Reads of a whole container (`len`, iteration) are logged as reads of its current keys.
-/
namespace Hyp.CIdx
open Hyp Hyp.Alias

/-- what a read of a field / keyword index hands back: the stored `_not_indexed` set itself, or a
set object (a stored posting, or a set allocated by the call) -/
inductive RRef where
  | ni
  | obj (o : Oid)
deriving DecidableEq, Repr

/-! ## field index -/

namespace FTx
variable {V : Type} [DecidableEq V]

/-- a new set object with the given members (`multiunion(…)`, `IF.Set(…)`, `IF.union(…)`, …) -/
def allocW (x : FTx V) (s : List Int) : FTx V × Oid :=
  ({ x with heap := { x.heap with post := AMap.set x.heap.post (x.me, x.next) s },
            next := x.next + 1, writes := .whole (x.me, x.next) :: x.writes }, (x.me, x.next))

/-- reading a container as a whole: all its current keys -/
def rdAllNi (x : FTx V) : FTx V := x.heap.ni.foldl (fun x d => x.rd (.ni d)) x
def rdAllRev (x : FTx V) : FTx V := (AMap.keys x.heap.rev).foldl (fun x d => x.rd (.rev d)) x

/-- the members of what a reference leads to -/
def deref (x : FTx V) : RRef → List Int
  | .ni => x.heap.ni
  | .obj o => x.members o

/-- `self._fwd_index.get(value)`: the stored posting, by reference -/
def lookup (x : FTx V) (v : V) : FTx V × Option Oid := (x.rd (.fwd v), AMap.get x.heap.fwd v)

/-- `family.IF.multiunion(self._fwd_index.values(…))` over the stored keys that satisfy `p`
(`applyEq`: `p = (· = v)`; `applyInRange`, `applyGe`, …: a range predicate): reads the keys and
their postings, allocates the result -/
def scan (x : FTx V) (p : V → Bool) : FTx V × Oid :=
  let ks := (AMap.keys x.heap.fwd).filter p
  let x1 := ks.foldl (fun x v =>
    match AMap.get x.heap.fwd v with
    | some o => (x.rd (.fwd v)).rd (.whole o)
    | none => x.rd (.fwd v)) x
  x1.allocW (Keyword.dedup (ks.flatMap (fun v => x.heap.posting v)))

/-- `not_indexed()`: the stored set itself -/
def notIndexed (x : FTx V) : FTx V × RRef := (x, .ni)

/-- `BaseIndexMixin.docids()` -/
def docids (x : FTx V) : FTx V × RRef :=
  let x := x.rdAllNi.rdAllRev
  if x.heap.ni = [] then
    let r := x.allocW (AMap.keys x.heap.rev)                       -- `IF.Set(indexed)`
    (r.1, .obj r.2)
  else if x.heap.rev = [] then (x, .ni)                            -- the stored set
  else
    let r1 := x.allocW (AMap.keys x.heap.rev)                      -- `IF.Set(indexed)`
    let r2 := r1.1.allocW (LSet.union x.heap.ni (AMap.keys x.heap.rev))   -- `IF.union(not_indexed, indexed)`
    (r2.1, .obj r2.2)

/-- `BaseIndexMixin._negate` given the positive answer -/
def negate (x : FTx V) (positive : Oid) : FTx V × RRef :=
  let r := x.docids
  let x := r.1.rd (.whole positive)
  if x.members positive = [] then (x, r.2)
  else
    let r2 := x.allocW (LSet.diff (x.deref r.2) (x.members positive))   -- `IF.difference(all, positive)`
    (r2.1, .obj r2.2)

/-- the inner loops of `scan_forward`: the docids of one posting that are still in the working
copy are removed from it and yielded, until `limit` (0 = none) is reached -/
def scanPosting (x : FTx V) (copy : Oid) (limit : Nat) : List Int → List Int → FTx V × List Int × Bool
  | [], out => (x, out, false)
  | d :: ds, out =>
    let x := x.rd (.post copy d)
    if d ∈ x.members copy then
      let x := x.postPut copy d (LSet.remove (x.members copy) d)        -- `docids.remove(docid)`: the copy
      let out := out ++ [d]
      if limit ≠ 0 ∧ out.length ≥ limit then (x, out, true) else scanPosting x copy limit ds out
    else scanPosting x copy limit ds out

def scanValues (x : FTx V) (copy : Oid) (limit : Nat) : List V → List Int → FTx V × List Int
  | [], out => (x, out)
  | v :: vs, out =>
    let x := x.rd (.fwd v)
    match AMap.get x.heap.fwd v with
    | none => scanValues x copy limit vs out
    | some o =>
      let r := scanPosting (x.rd (.whole o)) copy limit (x.members o) out
      if r.2.2 then (r.1, r.2.1) else scanValues r.1 copy limit vs r.2.1

/-- `FieldIndex.scan_forward(docids, limit)`; `order` = the forward keys in ascending order;
returns the yielded docids, the working copy and what is left in it (the unsortable ones) -/
def scanForward (x : FTx V) (src : RRef) (order : List V) (limit : Nat) : FTx V × List Int × Oid :=
  let r := x.allocW (x.deref src)                                   -- `IF.TreeSet(docids)`: a copy
  let r2 := scanValues r.1 r.2 limit order []
  (r2.1, r2.2, r.2)

end FTx

/-! ## keyword index -/

namespace KTx
variable {K : Type} [DecidableEq K]
open Hyp.Keyword (Tag)

def allocW (x : KTx K) (s : List Int) : KTx K × Oid :=
  ({ x with heap := { x.heap with post := AMap.set x.heap.post (x.me, x.next) (Tag.set, s) },
            next := x.next + 1, writes := .whole (x.me, x.next) :: x.writes }, (x.me, x.next))

def rdAllNi (x : KTx K) : KTx K := x.heap.ni.foldl (fun x d => x.rd (.ni d)) x
def rdAllRev (x : KTx K) : KTx K := (AMap.keys x.heap.rev).foldl (fun x d => x.rd (.rev d)) x

def notIndexed (x : KTx K) : KTx K × RRef := (x, .ni)

/-- `BaseIndexMixin.docids()` -/
def docids (x : KTx K) : KTx K × RRef :=
  let x := x.rdAllNi.rdAllRev
  if x.heap.ni = [] then
    let r := x.allocW (AMap.keys x.heap.rev)
    (r.1, .obj r.2)
  else if x.heap.rev = [] then (x, .ni)
  else
    let r1 := x.allocW (AMap.keys x.heap.rev)
    let r2 := r1.1.allocW (LSet.union x.heap.ni (AMap.keys x.heap.rev))
    (r2.1, .obj r2.2)

/-- `KeywordIndex.search([word], operator='and')` (`applyEq`, `applyAll` of one keyword):
`IF.intersection(None, set)` is `set` – the **stored** posting – unless it is empty or the keyword
is unknown (then a new `IF.Set()`) -/
def searchOne (x : KTx K) (k : K) : KTx K × Oid :=
  let x := x.rd (.fwd k)
  match AMap.get x.heap.fwd k with
  | some o =>
    let x := x.rd (.whole o)
    if (x.obj o).2 = [] then x.allocW [] else (x, o)
  | none =>
    let r := x.allocW []                       -- `self._fwd_index.get(word, IF.Set())`
    r.1.allocW []                              -- `return self.family.IF.Set()`

/-- `KeywordIndex.search(words, operator='or')`: `IF.multiunion(sets)` -/
def searchOr (x : KTx K) (ks : List K) : KTx K × Oid :=
  let x1 := ks.foldl (fun x k =>
    match AMap.get x.heap.fwd k with
    | some o => (x.rd (.fwd k)).rd (.whole o)
    | none => x.rd (.fwd k)) x
  let r := x1.allocW (Keyword.dedup (ks.flatMap (fun k => x.heap.posting k)))
  if (r.1.obj r.2).2 = [] then r.1.allocW [] else r

end KTx

/-! ## text index -/

namespace TTx
variable {W Wt : Type} [DecidableEq W] [DecidableEq Wt]

/-- a new `IF.Bucket` / `IFBTree` result object -/
def allocR (x : TTx W Wt) (m : AMap Int Wt) : TTx W Wt × Oid := x.alloc m

def rdTree (x : TTx W Wt) (o : Oid) : TTx W Wt := (x.treeOf o).foldl (fun x e => x.rd (.tree o e.1)) (x.rd (.whole o))

/-- `OkapiIndex._search_wids([wid])` for an in-vocabulary word: reads the posting, the document
lengths and the two `Length`s, fills a **new** `IF.Bucket` (`score wid d f` = the BM25 score);
the pair's weight is 1 -/
def okapiSearchWid (x : TTx W Wt) (score : Int → Wt → Wt) (wid : Nat) : TTx W Wt × Oid :=
  let x := ((x.rd .indexedCount).rd .totalDocLen).rd (.wi wid)
  let x := match AMap.get x.heap.wordinfo wid with
    | some (.ref o) => x.rdTree o
    | _ => x
  let post := x.heap.posting wid
  let x := post.foldl (fun x e => x.rd (.docweight e.1)) x
  let r := x.allocR []                                              -- `result = IF.Bucket()`
  (post.foldl (fun x e => x.treePut r.2 e.1 (score e.1 e.2)) r.1, r.2)   -- `result[docid] = tf * idf`

/-- `CosineIndex._search_wids([wid])`: the **stored** `IFBTree` itself, or a new `IF.Bucket(d2w)`
when the posting is still a dict; the pair's weight is the idf -/
def cosineSearchWid (x : TTx W Wt) (wid : Nat) : TTx W Wt × Option Oid :=
  let x := x.rd (.wi wid)
  match AMap.get x.heap.wordinfo wid with
  | some (.ref o) => (x.rd (.whole o), some o)
  | some (.dict m) => let r := x.allocR m; (r.1, some r.2)
  | none => (x, none)                                                -- (caller removes OOV words first)

/-- `mass_weightedUnion([(r, weight)])` = `_trivial`: the operand itself when the weight is 1,
otherwise `weightedUnion(IF.Bucket(), r, 0, weight)` – a new bucket (`scale` = times the weight) -/
def trivialOne (x : TTx W Wt) (r : Oid) (weightIsOne : Bool) (scale : Wt → Wt) : TTx W Wt × Oid :=
  if weightIsOne then (x, r)
  else
    let r0 := x.allocR []
    r0.1.allocR ((x.treeOf r).map (fun e => (e.1, scale e.2)))

/-- the loop `for docid, score in results.items(): results[docid] = score / qw` of `TextIndex.apply` -/
def rescale (x : TTx W Wt) (r : Oid) (div : Wt → Wt) : TTx W Wt :=
  (x.treeOf r).foldl (fun x e => x.treePut r e.1 (div e.2)) (x.rdTree r)

/-- `TextIndex.apply` of a one-word query on the Okapi back end -/
def applyOkapi (x : TTx W Wt) (score : Int → Wt → Wt) (div : Wt → Wt) (wid : Nat) : TTx W Wt × Oid :=
  let r := okapiSearchWid x score wid
  let t := trivialOne r.1 r.2 true id
  (rescale t.1 t.2 div, t.2)

/-- `TextIndex.apply` of a one-word query on the cosine back end; `idfIsOne`: the inverse document
frequency `log(1 + N / n)` of the word equals 1 -/
def applyCosine (x : TTx W Wt) (idfIsOne : Bool) (scale div : Wt → Wt) (wid : Nat) : TTx W Wt × Option Oid :=
  let r := cosineSearchWid x wid
  match r.2 with
  | none => (r.1, none)
  | some o =>
    let t := trivialOne r.1 o idfIsOne scale
    (rescale t.1 t.2 div, some t.2)

/-- `TextIndex.not_indexed()` -/
def notIndexed (x : TTx W Wt) : TTx W Wt × Unit := (x, ())

end TTx

/-! ## provenance of a returned reference, read off the heap the call started from -/

/-- a field / keyword result: stored when it is the not-indexed set or an object of the snapshot -/
def provF {V : Type} [DecidableEq V] (before : FHeap V) : RRef → Prov
  | .ni => .stored
  | .obj o => if (AMap.get before.post o).isSome then .stored else .fresh

def provK {K : Type} [DecidableEq K] (before : KHeap K) : RRef → Prov
  | .ni => .stored
  | .obj o => if (AMap.get before.post o).isSome then .stored else .fresh

def provT {W Wt : Type} (before : THeap W Wt) (o : Oid) : Prov :=
  if (AMap.get before.tree o).isSome then .stored else .fresh

end Hyp.CIdx
