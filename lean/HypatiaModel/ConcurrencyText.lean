import HypatiaModel.ConcurrencyIndex
import HypatiaModel.Prim.Sort

/-!
# Object-level layer, text index (C19 / C09 / C18)

The **text index** (`hypatia/text/__init__.py: TextIndex`, `baseindex.py: BaseIndex`,
`okapiindex.py`, `cosineindex.py`, `lexicon.py: Lexicon`) laid out as the persistent objects ZODB
stores and merges, in the style of `ConcurrencyIndex.lean`:

* the lexicon: `_wids` (`OIBTree` word ↦ wid), `_words` (`IOBTree` wid ↦ word), `word_count`
  (a `Length`; `_new_wid` increments it and then skips ids that are taken);
* `_wordinfo` (`IOBTree` wid ↦ posting).  A posting is **either a plain `dict`** `{docid: weight}`
  – a *value stored inside the bucket*: it has no identity of its own, any change of it is a change
  of the bucket key `wid`, and an in-place mutation is invisible to the persistence machinery until
  the bucket key is assigned again ("not redundant: Persistency!") – **or a reference to an
  `IFBTree` object** with its own identity (`PVal.ref`), from `DICT_CUTOFF` members on
  (`_add_wordinfo` / `_mass_add_wordinfo`: `if isinstance(doc2score, dict) and len(doc2score) ==
  DICT_CUTOFF: doc2score = IF.BTree(doc2score)`; never converted back);
* `_docwords` (`IOBTree` docid ↦ encoded wid string – kept as the wid list, the code is injective:
  C16), `_docweight` (`IFBTree` docid ↦ weight);
* the `Length`s `word_count`, `indexed_count`, and Okapi's `_totaldoclen`;
* `TextIndex._not_indexed` (`IF.TreeSet`).

A transaction `TTx` runs `TextIndex.index_doc` (= `reindex_doc`) / `unindex_doc` on a private copy
of the snapshot.  It records every location it **reads** (`reads`) and every **mutation step** it
performs (`log`, newest first).  A step is *notifying* (`notify = true`: a method of a persistent
object – `tree[k] = v`, `del tree[k]`, `Length.change`, `TreeSet.add` – which registers that
object with the transaction) or *plain* (`notify = false`: `doc2score[docid] = f` /
`del doc2score[docid]` on a dict that lives inside the `_wordinfo` bucket).  `writes` = the
notifying steps = what `_p_changed` sees = what commit stores and merges.  C09's discipline
("every plain step is followed by a notifying step on the same object") is a property of `log`;
C19's merge looks at `writes` only.

What is *as the code really behaves* (BTrees 6.5, ZODB 6.3, measured):
* assigning to an object-valued tree (`IOBTree`, `OIBTree`) registers the bucket even when the
  very same object is assigned again – that is what makes the re-assignment idiom work, and it is
  why `_add_wordinfo` / `_del_wordinfo` on an `IFBTree` posting also write the `_wordinfo` key
  (with an unchanged reference);
* assigning an *equal* value to a float-valued tree (`IFBTree` posting, `_docweight`) is a no-op
  that does not register the bucket (`treePut`, `dwtSet` log nothing then);
* `Length.change(0)` registers the `Length` (`_mass_add_wordinfo` always calls
  `word_count.change(new_word_count)`);
* `sourceToWordIds` calls `self.word_count._p_deactivate()`; under MVCC (always on in ZODB ≥ 5) the
  reloaded value is the snapshot's, and a changed object is not deactivated: a no-op;
* the real bucket merge compares *values* with `<`; plain dicts are not orderable, the error is
  swallowed and counts as "changed": a doubly written `_wordinfo` bucket in which some key holds a
  dict in all three states **always** conflicts in reality.  The model compares dict values
  structurally (it merges more often than BTrees do; only *real success ⇒ model success* is
  needed and checked).

`commitSecondT` takes the first committer's heap as the committed state, i.e. it presupposes that
everything a transaction changed is registered – true for the unchanged code (`TSound`), not for
the two slips below, which exist for C09's negative theorems only.

`TCfg.addReassign = false` / `massRootOnly = true` are the two seeded slips of C09 (`_add_wordinfo`
updating a stored dict in place without the re-assignment; `_mass_add_wordinfo` flagging the tree's
root instead of storing the posting again): they exist to state the negative theorems.
-/
namespace Hyp.CIdx
open Hyp

/-- a value of `_wordinfo`: a plain dict stored in the bucket, or a reference to an `IFBTree` -/
inductive PVal (Wt : Type) where
  | dict (m : AMap Int Wt)
  | ref (o : Oid)
deriving DecidableEq, Repr

/-- the persistent objects of one text index (with its lexicon) -/
inductive TObj where
  | wids | words | lexCount
  | wordinfo
  | wiRoot                      -- the root of the `_wordinfo` tree as distinct from its bucket (C09 slip only)
  | docwords | docweight
  | wordCount | indexedCount | totalDocLen
  | ni
  | tree (o : Oid)
deriving DecidableEq, Repr

/-- a location = object + key -/
inductive TLoc (W : Type) where
  | wids (w : W)
  | words (i : Nat)
  | lexCount
  | wi (i : Nat)
  | wiRoot
  | docwords (d : Int)
  | docweight (d : Int)
  | wordCount | indexedCount | totalDocLen
  | ni (d : Int)
  | tree (o : Oid) (d : Int)
  | whole (o : Oid)             -- creation / truth test `if doc2score:` of an `IFBTree`
deriving DecidableEq, Repr

def TLoc.obj {W : Type} : TLoc W → TObj
  | .wids _ => .wids
  | .words _ => .words
  | .lexCount => .lexCount
  | .wi _ => .wordinfo
  | .wiRoot => .wiRoot
  | .docwords _ => .docwords
  | .docweight _ => .docweight
  | .wordCount => .wordCount
  | .indexedCount => .indexedCount
  | .totalDocLen => .totalDocLen
  | .ni _ => .ni
  | .tree o _ => .tree o
  | .whole o => .tree o

/-- one mutation step -/
structure TStep (W : Type) where
  loc : TLoc W
  notify : Bool
deriving DecidableEq, Repr

structure THeap (W Wt : Type) where
  wids : AMap W Nat := []
  words : AMap Nat W := []
  lexCount : Int := 0
  wordinfo : AMap Nat (PVal Wt) := []
  docwords : AMap Int (List Nat) := []
  docweight : AMap Int Wt := []
  wordCount : Int := 0
  indexedCount : Int := 0
  totalDocLen : Int := 0
  ni : List Int := []
  tree : AMap Oid (AMap Int Wt) := []

/-- configuration: `DICT_CUTOFF`, the back end (`OkapiIndex` maintains `_totaldoclen`),
`_get_frequencies` (wid ↦ weight in first-occurrence order, and the document weight), `int(·)` of a
document weight (Okapi's `_change_doc_len`), and the two seeded slips -/
structure TCfg (Wt : Type) where
  cutoff : Nat := 10
  okapi : Bool := true
  freq : List Nat → AMap Nat Wt × Wt
  wtInt : Wt → Int
  addReassign : Bool := true
  massRootOnly : Bool := false

structure TTx (W Wt : Type) where
  heap : THeap W Wt := {}
  me : Nat := 0
  next : Nat := 0
  reads : List (TLoc W) := []
  log : List (TStep W) := []

namespace TTx
variable {W Wt : Type} [DecidableEq W] [DecidableEq Wt]

/-- the locations written through a persistent object's own methods (what `_p_changed` sees) -/
def writes (x : TTx W Wt) : List (TLoc W) := (x.log.filter (·.notify)).map (·.loc)

def rd (x : TTx W Wt) (l : TLoc W) : TTx W Wt := { x with reads := l :: x.reads }
/-- a notifying step -/
def nt (x : TTx W Wt) (l : TLoc W) : TTx W Wt := { x with log := ⟨l, true⟩ :: x.log }
/-- a plain step (in-place mutation of a dict inside a bucket) -/
def pl (x : TTx W Wt) (l : TLoc W) : TTx W Wt := { x with log := ⟨l, false⟩ :: x.log }

/-! ### primitive steps -/

/-- `self._wids[word] = wid` -/
def widsSet (x : TTx W Wt) (w : W) (i : Nat) : TTx W Wt :=
  { x with heap := { x.heap with wids := AMap.set x.heap.wids w i } }.nt (.wids w)
/-- `self._words[wid] = word` -/
def wordsSet (x : TTx W Wt) (i : Nat) (w : W) : TTx W Wt :=
  { x with heap := { x.heap with words := AMap.set x.heap.words i w } }.nt (.words i)
/-- `count.change(delta)` of the lexicon's `word_count` -/
def lexChange (x : TTx W Wt) (delta : Int) : TTx W Wt :=
  { x with heap := { x.heap with lexCount := x.heap.lexCount + delta } }.nt .lexCount
/-- `self._wordinfo[wid] = doc2score` -/
def wiSet (x : TTx W Wt) (i : Nat) (v : PVal Wt) : TTx W Wt :=
  { x with heap := { x.heap with wordinfo := AMap.set x.heap.wordinfo i v } }.nt (.wi i)
/-- `del self._wordinfo[wid]` -/
def wiErase (x : TTx W Wt) (i : Nat) : TTx W Wt :=
  { x with heap := { x.heap with wordinfo := AMap.erase x.heap.wordinfo i } }.nt (.wi i)
/-- `doc2score[docid] = f` on the dict stored under `wid`: the bucket's value changes in memory,
nobody is told -/
def dictPut (x : TTx W Wt) (i : Nat) (m : AMap Int Wt) (d : Int) (f : Wt) : TTx W Wt :=
  { x with heap := { x.heap with wordinfo := AMap.set x.heap.wordinfo i (.dict (AMap.set m d f)) } }.pl (.wi i)
/-- `del doc2score[docid]` on the dict stored under `wid` -/
def dictDel (x : TTx W Wt) (i : Nat) (m : AMap Int Wt) (d : Int) : TTx W Wt :=
  { x with heap := { x.heap with wordinfo := AMap.set x.heap.wordinfo i (.dict (AMap.erase m d)) } }.pl (.wi i)
/-- `wordinfo._p_changed = True` on the tree's root (seeded slip) -/
def wiRootTouch (x : TTx W Wt) : TTx W Wt := x.nt .wiRoot
/-- `self._docwords[docid] = widcode.encode(wids)` -/
def dwSet (x : TTx W Wt) (d : Int) (ws : List Nat) : TTx W Wt :=
  { x with heap := { x.heap with docwords := AMap.set x.heap.docwords d ws } }.nt (.docwords d)
def dwErase (x : TTx W Wt) (d : Int) : TTx W Wt :=
  { x with heap := { x.heap with docwords := AMap.erase x.heap.docwords d } }.nt (.docwords d)
/-- `self._docweight[docid] = docweight` (float-valued tree: an equal value is a no-op) -/
def dwtSet (x : TTx W Wt) (d : Int) (f : Wt) : TTx W Wt :=
  if AMap.get x.heap.docweight d = some f then x
  else { x with heap := { x.heap with docweight := AMap.set x.heap.docweight d f } }.nt (.docweight d)
def dwtErase (x : TTx W Wt) (d : Int) : TTx W Wt :=
  { x with heap := { x.heap with docweight := AMap.erase x.heap.docweight d } }.nt (.docweight d)
def wcChange (x : TTx W Wt) (delta : Int) : TTx W Wt :=
  { x with heap := { x.heap with wordCount := x.heap.wordCount + delta } }.nt .wordCount
def icChange (x : TTx W Wt) (delta : Int) : TTx W Wt :=
  { x with heap := { x.heap with indexedCount := x.heap.indexedCount + delta } }.nt .indexedCount
def tdlChange (x : TTx W Wt) (delta : Int) : TTx W Wt :=
  { x with heap := { x.heap with totalDocLen := x.heap.totalDocLen + delta } }.nt .totalDocLen
def niRemove (x : TTx W Wt) (d : Int) : TTx W Wt :=
  { x with heap := { x.heap with ni := LSet.remove x.heap.ni d } }.nt (.ni d)
def niAdd (x : TTx W Wt) (d : Int) : TTx W Wt :=
  { x with heap := { x.heap with ni := LSet.insert x.heap.ni d } }.nt (.ni d)

/-- the `IFBTree` object `o` (a dangling reference reads as empty; excluded by the invariant) -/
def treeOf (x : TTx W Wt) (o : Oid) : AMap Int Wt := (AMap.get x.heap.tree o).getD []

/-- `doc2score[docid] = f` on an `IFBTree` (an equal value is a no-op) -/
def treePut (x : TTx W Wt) (o : Oid) (d : Int) (f : Wt) : TTx W Wt :=
  if AMap.get (x.treeOf o) d = some f then x
  else { x with heap := { x.heap with tree := AMap.set x.heap.tree o (AMap.set (x.treeOf o) d f) } }.nt (.tree o d)
/-- `del doc2score[docid]` on an `IFBTree` (only called when present) -/
def treeDel (x : TTx W Wt) (o : Oid) (d : Int) : TTx W Wt :=
  { x with heap := { x.heap with tree := AMap.set x.heap.tree o (AMap.erase (x.treeOf o) d) } }.nt (.tree o d)
/-- `self.family.IF.BTree(doc2score)`: a new object with the dict's contents -/
def alloc (x : TTx W Wt) (m : AMap Int Wt) : TTx W Wt × Oid :=
  ({ x with heap := { x.heap with tree := AMap.set x.heap.tree (x.me, x.next) m },
            next := x.next + 1 }.nt (.whole (x.me, x.next)), (x.me, x.next))

/-! ### the lexicon -/

/-- `while count() in self._words: count.change(1)`; the bound – one probe more than there are
ids – is never what stops the loop -/
def skipLoop (x : TTx W Wt) : Nat → TTx W Wt
  | 0 => x
  | n + 1 =>
    let x := (x.rd .lexCount).rd (.words x.heap.lexCount.toNat)
    if (AMap.get x.heap.words x.heap.lexCount.toNat).isSome then skipLoop (x.lexChange 1) n else x

/-- `Lexicon._new_wid` -/
def newWid (x : TTx W Wt) : TTx W Wt × Nat :=
  let x := x.lexChange 1
  let x := skipLoop x (x.heap.words.length + 1)
  (x.rd .lexCount, x.heap.lexCount.toNat)

/-- `Lexicon._getWordIdCreate` -/
def getWidCreate (x : TTx W Wt) (w : W) : TTx W Wt × Nat :=
  let x := x.rd (.wids w)
  match AMap.get x.heap.wids w with
  | some i => (x, i)
  | none =>
    let r := newWid x
    ((r.1.widsSet w r.2).wordsSet r.2 w, r.2)

/-- `Lexicon.sourceToWordIds` on the token list the pipeline produced -/
def sourceToWordIds (x : TTx W Wt) : List W → TTx W Wt × List Nat
  | [] => (x, [])
  | w :: ws =>
    let r := getWidCreate x w
    let r2 := sourceToWordIds r.1 ws
    (r2.1, r.2 :: r2.2)

/-! ### `_wordinfo` -/

/-- the body shared by `_add_wordinfo` and one round of `_mass_add_wordinfo`'s loop for a word that
has a posting; `reassign = false` is the seeded slip -/
def addExisting (c : TCfg Wt) (reassign : Bool) (x : TTx W Wt) (wid : Nat) (f : Wt) (d : Int)
    (v : PVal Wt) : TTx W Wt :=
  match v with
  | .dict m =>
    if m.length = c.cutoff then
      let r := x.alloc m                             -- `doc2score = IF.BTree(doc2score)`
      let x := r.1.treePut r.2 d f                   -- `doc2score[docid] = f`
      x.wiSet wid (.ref r.2)                         -- `self._wordinfo[wid] = doc2score`
    else
      let x := x.dictPut wid m d f                   -- `doc2score[docid] = f`, in place
      if reassign then x.wiSet wid (.dict (AMap.set m d f)) else x   -- "not redundant: Persistency!"
  | .ref o =>
    let x := x.treePut o d f
    x.wiSet wid (.ref o)                             -- the same reference is stored again

/-- `BaseIndex._add_wordinfo(wid, f, docid)` -/
def addWordinfo (c : TCfg Wt) (x : TTx W Wt) (wid : Nat) (f : Wt) (d : Int) : TTx W Wt :=
  let x := x.rd (.wi wid)
  match AMap.get x.heap.wordinfo wid with
  | none => (x.wcChange 1).wiSet wid (.dict [(d, f)])         -- `doc2score = {}`: a new dict
  | some v => addExisting c c.addReassign x wid f d v

/-- one round of the loop of `_mass_add_wordinfo`; the second component is 1 for a new word -/
def massRound (c : TCfg Wt) (x : TTx W Wt) (d : Int) (wid : Nat) (f : Wt) : TTx W Wt × Int :=
  let x := x.rd (.wi wid)
  match AMap.get x.heap.wordinfo wid with
  | none => (x.wiSet wid (.dict [(d, f)]), 1)
  | some v => (addExisting c (!c.massRootOnly) x wid f d v, 0)

/-- the loop of `_mass_add_wordinfo`; the second component counts the new words -/
def massLoop (c : TCfg Wt) (x : TTx W Wt) (d : Int) : AMap Nat Wt → TTx W Wt × Int
  | [] => (x, 0)
  | (wid, f) :: rest =>
    let r := massRound c x d wid f
    let r2 := massLoop c r.1 d rest
    (r2.1, r.2 + r2.2)

/-- `BaseIndex._mass_add_wordinfo(wid2weight, docid)` -/
def massAdd (c : TCfg Wt) (x : TTx W Wt) (d : Int) (w2w : AMap Nat Wt) : TTx W Wt :=
  let r := massLoop c x d w2w
  let x := if c.massRootOnly then r.1.wiRootTouch else r.1
  x.wcChange r.2                                              -- `change(0)` registers too

/-- `BaseIndex._del_wordinfo(wid, docid)`; `false` = `KeyError` (unreachable from a consistent state) -/
def delWordinfo (x : TTx W Wt) (wid : Nat) (d : Int) : TTx W Wt × Bool :=
  let x := x.rd (.wi wid)
  match AMap.get x.heap.wordinfo wid with
  | none => (x, false)
  | some (.dict m) =>
    if (AMap.get m d).isNone then (x, false)
    else
      let x := x.dictDel wid m d                              -- `del doc2score[docid]`, in place
      if AMap.erase m d ≠ [] then (x.wiSet wid (.dict (AMap.erase m d)), true)
      else ((x.wiErase wid).wcChange (-1), true)
  | some (.ref o) =>
    let x := x.rd (.tree o d)
    if (AMap.get (x.treeOf o) d).isNone then (x, false)
    else
      let x := (x.treeDel o d).rd (.whole o)                  -- `if doc2score:`
      if x.treeOf o ≠ [] then (x.wiSet wid (.ref o), true)
      else ((x.wiErase wid).wcChange (-1), true)

/-- `for wid in …: self._del_wordinfo(wid, docid)` -/
def delAll (x : TTx W Wt) (d : Int) : List Nat → TTx W Wt × Bool
  | [] => (x, true)
  | w :: ws =>
    let r := delWordinfo x w d
    if r.2 then delAll r.1 d ws else (r.1, false)

/-- `for wid in …: self._add_wordinfo(wid, new_wid2w[wid], docid)` -/
def addAll (c : TCfg Wt) (x : TTx W Wt) (d : Int) (w2w : AMap Nat Wt) : List Nat → TTx W Wt
  | [] => x
  | w :: ws =>
    match AMap.get w2w w with
    | some f => addAll c (addWordinfo c x w f d) d w2w ws
    | none => addAll c x d w2w ws                              -- (not a key: cannot happen)

/-- keys of an `IF.TreeSet` in iteration order -/
def sortedKeys (l : List Nat) : List Nat := Sort.isort (fun a b => decide (a ≤ b)) (Keyword.dedup l)

/-! ### `BaseIndex` / `OkapiIndex` -/

/-- the three loops of `BaseIndex.reindex_doc`: word ids only in the old version are deleted, ids
only in the new one added, ids in both re-weighted when the weight changed; `false` = `KeyError` -/
def reindexLoops (c : TCfg Wt) (x : TTx W Wt) (d : Int) (old new : AMap Nat Wt) : TTx W Wt × Bool :=
  let oldSet := sortedKeys (AMap.keys old)
  let newSet := sortedKeys (AMap.keys new)
  let inBoth := oldSet.filter (· ∈ newSet)
  let onlyOld := oldSet.filter (· ∉ inBoth)
  let onlyNew := newSet.filter (· ∉ inBoth)
  let r1 := delAll x d onlyOld
  if !r1.2 then (r1.1, false)
  else
    let x := addAll c r1.1 d new onlyNew
    let changed := inBoth.filter (fun w => AMap.get old w ≠ AMap.get new w)
    (addAll c x d new changed, true)

/-- `BaseIndex.reindex_doc`; returns `len(new_wids)`; `false` = `KeyError` -/
def baseReindex (c : TCfg Wt) (x : TTx W Wt) (d : Int) (words : List W) : TTx W Wt × Nat × Bool :=
  let x := x.rd (.docwords d)                                  -- `self.get_words(docid)`
  match AMap.get x.heap.docwords d with
  | none => (x, 0, false)
  | some oldWids =>
    let r := sourceToWordIds x words
    let r1 := reindexLoops c r.1 d (c.freq oldWids).1 (c.freq r.2).1
    if !r1.2 then (r1.1, 0, false)
    else
      let x := r1.1.dwtSet d (c.freq r.2).2
      let x := x.dwSet d r.2
      (x, r.2.length, true)

/-- `BaseIndex.index_doc`; returns `len(wids)` -/
def baseIndex (c : TCfg Wt) (x : TTx W Wt) (d : Int) (words : List W) : TTx W Wt × Nat × Bool :=
  let x := x.rd (.docwords d)                                  -- `if docid in self._docwords`
  if (AMap.get x.heap.docwords d).isSome then baseReindex c x d words
  else
    let r := sourceToWordIds x words
    let fr := c.freq r.2
    let x := massAdd c r.1 d fr.1
    let x := x.dwtSet d fr.2
    let x := x.dwSet d r.2
    (x.icChange 1, r.2.length, true)

/-- `OkapiIndex.reindex_doc`: `_change_doc_len(-self._docweight[docid])`, the base method,
`_change_doc_len(count)`; `CosineIndex` inherits the base method -/
def reindexDoc (c : TCfg Wt) (x : TTx W Wt) (d : Int) (words : List W) : TTx W Wt :=
  if c.okapi then
    let x := x.rd (.docweight d)
    match AMap.get x.heap.docweight d with
    | none => x                                                -- KeyError
    | some f =>
      let x := x.tdlChange (-(c.wtInt f))
      let r := baseReindex c x d words
      if r.2.2 then r.1.tdlChange r.2.1 else r.1
  else (baseReindex c x d words).1

/-- `OkapiIndex.index_doc` / `BaseIndex.index_doc` -/
def indexText (c : TCfg Wt) (x : TTx W Wt) (d : Int) (words : List W) : TTx W Wt :=
  if c.okapi then
    let x := x.rd (.docwords d)
    if (AMap.get x.heap.docwords d).isSome then reindexDoc c x d words
    else
      let r := baseIndex c x d words
      if r.2.2 then r.1.tdlChange r.2.1 else r.1
  else (baseIndex c x d words).1

/-- `BaseIndex.unindex_doc` (after `OkapiIndex.unindex_doc`'s `_change_doc_len`) -/
def baseUnindex (x : TTx W Wt) (d : Int) : TTx W Wt :=
  let x := x.rd (.docwords d)
  match AMap.get x.heap.docwords d with
  | none => x
  | some wids =>
    let r := delAll x d (sortedKeys wids)
    if !r.2 then r.1
    else ((r.1.dwErase d).dwtErase d).icChange (-1)

/-- `OkapiIndex.unindex_doc` / `BaseIndex.unindex_doc` -/
def unindexText (c : TCfg Wt) (x : TTx W Wt) (d : Int) : TTx W Wt :=
  if c.okapi then
    let x := x.rd (.docwords d)
    if (AMap.get x.heap.docwords d).isNone then x
    else
      let x := x.rd (.docweight d)
      match AMap.get x.heap.docweight d with
      | none => x                                              -- KeyError
      | some f => baseUnindex (x.tdlChange (-(c.wtInt f))) d
  else baseUnindex x d

/-! ### `TextIndex` -/

/-- `TextIndex.unindex_doc` -/
def unindexDoc (c : TCfg Wt) (x : TTx W Wt) (d : Int) : TTx W Wt :=
  let x := x.rd (.ni d)
  let x := if d ∈ x.heap.ni then x.niRemove d else x
  unindexText c x d

/-- `TextIndex.index_doc` (= `reindex_doc`); `none` = the discriminator returned its default;
`some words` = the tokens of the text after the lexicon's pipeline -/
def indexDoc (c : TCfg Wt) (x : TTx W Wt) (d : Int) (v : Option (List W)) : TTx W Wt :=
  match v with
  | none => (unindexDoc c x d).niAdd d
  | some words =>
    let x := x.rd (.ni d)
    let x := if d ∈ x.heap.ni then x.niRemove d else x
    indexText c x d words

def step (c : TCfg Wt) (x : TTx W Wt) : TOp (List W) → TTx W Wt
  | .index d v => indexDoc c x d v
  | .unindex d => unindexDoc c x d

def run (c : TCfg Wt) (x : TTx W Wt) (ops : List (TOp (List W))) : TTx W Wt := ops.foldl (step c) x

def start (h : THeap W Wt) (me : Nat) : TTx W Wt := { heap := h, me := me }

end TTx

/-! ## the second commit -/

section TextCommit
variable {W Wt : Type} [DecidableEq W] [DecidableEq Wt]

def tdirty (w : List (TLoc W)) (o : TObj) : Bool := w.any (fun l => decide (l.obj = o))

/-- the `IFBTree` objects after `b`'s commit: new objects are stored, objects of the snapshot are
merged (`_Tree._p_resolveConflict` of a one-bucket tree = the bucket's) -/
def mergeTrees (base a : AMap Oid (AMap Int Wt)) (wa wb : List (TLoc W)) :
    AMap Oid (AMap Int Wt) → Option (AMap Oid (AMap Int Wt))
  | [] => some a
  | (o, sb) :: rest =>
    match mergeTrees base a wa wb rest,
          (match AMap.get base o with
           | none => some sb
           | some s0 => mergeObj resolveMap (tdirty wa (.tree o)) (tdirty wb (.tree o)) s0
                          ((AMap.get a o).getD s0) sb) with
    | some r, some s => some (AMap.set r o s)
    | _, _ => none

/-- `a` committed first, `b` commits second; `none` = ConflictError -/
def commitSecondT (base : THeap W Wt) (a b : TTx W Wt) : Option (THeap W Wt) :=
  let da := tdirty a.writes
  let db := tdirty b.writes
  match mergeObj resolveMap (da .wids) (db .wids) base.wids a.heap.wids b.heap.wids,
        mergeObj resolveMap (da .words) (db .words) base.words a.heap.words b.heap.words,
        mergeObj resolveMap (da .wordinfo) (db .wordinfo) base.wordinfo a.heap.wordinfo b.heap.wordinfo,
        mergeObj resolveMap (da .docwords) (db .docwords) base.docwords a.heap.docwords b.heap.docwords,
        mergeObj resolveMap (da .docweight) (db .docweight) base.docweight a.heap.docweight b.heap.docweight,
        mergeObj resolveSet (da .ni) (db .ni) base.ni a.heap.ni b.heap.ni,
        mergeTrees base.tree a.heap.tree a.writes b.writes b.heap.tree with
  | some wids, some words, some wi, some dw, some dwt, some ni, some tree =>
    some { wids := wids, words := words,
           lexCount := Concurrency.mergeCounter base.lexCount a.heap.lexCount b.heap.lexCount,
           wordinfo := wi, docwords := dw, docweight := dwt,
           wordCount := Concurrency.mergeCounter base.wordCount a.heap.wordCount b.heap.wordCount,
           indexedCount := Concurrency.mergeCounter base.indexedCount a.heap.indexedCount b.heap.indexedCount,
           totalDocLen := Concurrency.mergeCounter base.totalDocLen a.heap.totalDocLen b.heap.totalDocLen,
           ni := ni, tree := tree }
  | _, _, _, _, _, _, _ => none

/-- the posting of a word id, references resolved -/
def THeap.posting (h : THeap W Wt) (wid : Nat) : AMap Int Wt :=
  match AMap.get h.wordinfo wid with
  | some (.dict m) => m
  | some (.ref o) => (AMap.get h.tree o).getD []
  | none => []

end TextCommit

/-! ## the two back ends' `_get_frequencies`

Weights are compared (`old_wid2w[wid] != newscore`), stored and merged, never computed with, at
this level.  Okapi: weight = the term count, document weight = `len(wids)`.  Cosine: weight =
`(1 + ln count) / W`, `W = sqrt(Σ (1 + ln countᵢ)²)` summed in first-occurrence order – kept
symbolically as (count, all counts in first-occurrence order): equal symbols give equal floats. -/
namespace TextFreq

abbrev SWt := Int × List Int

/-- `d[wid] = dget(wid, 0) + 1` keeping first-occurrence order -/
def bump : AMap Nat Int → Nat → AMap Nat Int
  | [], w => [(w, 1)]
  | (k, n) :: rest, w => if k = w then (k, n + 1) :: rest else (k, n) :: bump rest w

def counts (wids : List Nat) : AMap Nat Int := wids.foldl bump []

def okapiFreq (wids : List Nat) : AMap Nat SWt × SWt :=
  ((counts wids).map (fun e => (e.1, (e.2, []))), ((wids.length : Int), []))

def cosineFreq (wids : List Nat) : AMap Nat SWt × SWt :=
  let cs := counts wids
  let all := cs.map (·.2)
  (cs.map (fun e => (e.1, (e.2, all))), (0, all))

def okapiCfg (cutoff : Nat) : TCfg SWt := { cutoff := cutoff, okapi := true, freq := okapiFreq, wtInt := (·.1) }
def cosineCfg (cutoff : Nat) : TCfg SWt := { cutoff := cutoff, okapi := false, freq := cosineFreq, wtInt := (·.1) }

end TextFreq

end Hyp.CIdx
