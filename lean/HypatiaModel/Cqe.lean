import HypatiaModel.Query

/-!
# hypatia.query – `parse_query` / `_AstParser`, name substitution, `__eq__`   (property C10)

Python's own parser (`ast.parse`) is third-party: the harness calls the real one and hands the
resulting tree to this model as a `PyAst`.  What is modelled here is **hypatia's** code:

* `_AstParser.parse` (`parse`): statement count / `IndexError` on an empty body / "Not an
  expression", then `walk`;
* `_AstParser.walk` (`walk`): the bottom-up visit – children first, in `ast.iter_child_nodes` order,
  then `process_<NodeType>`; an unknown node type raises `ValueError` *after* its children were
  visited; every `process_*` method including the dynamically typed corners (`children[0].id` on a
  non-`Name` → `AttributeError`, `operator.neg` on a non-number → `TypeError`, `catalog[name]` →
  `KeyError`, 3-child vs 5-child `Compare`, `callable(right)` in `process_In`/`process_NotIn`,
  the `any()/all()` closures of `process_Call`, `_value` wrapping `ast.Name` into `Name` – also
  inside lists and tuples (`process_List`));
* `BoolOp.__init__` flattening (`mkBool`), `Comparator.negate` for the `not in any/all` case;
* `Comparator._get_value` (`getValue`: through nested lists/tuples, `NameError`; `TypeError` when
  `names` is `None`), which `_Range._get_start/_get_end` apply to the bounds as well (fix D21);
* the four `__eq__` methods (`weq`) over objects whose leaf equality is Python's
  (`1 == True == 1.0`, `Const.pyEq`).

The result of `walk` is a dynamically typed Python object `W`: nothing forces it to be a query
(known finding D11: bare value expressions are returned, not rejected).

Floats are the exact dyadic rationals CPython holds (`±m·2^e`, `±inf`); NaN cannot be written as a
literal and is not represented.
-/
namespace Hyp.Cqe
open Hyp.Query (Cmp)

/-! ## Python constants -/

/-- a CPython `float` other than NaN: `(-1)^neg · m · 2^e`, or `(-1)^neg · ∞` when `inf` -/
structure PyFloat where
  neg : Bool
  inf : Bool
  m : Nat
  e : Int
deriving DecidableEq, Repr, Inhabited

namespace PyFloat
def zero : PyFloat := ⟨false, false, 0, 0⟩
def isZero (f : PyFloat) : Bool := !f.inf && f.m == 0
def ofInt (i : Int) : PyFloat := ⟨decide (i < 0), false, i.natAbs, 0⟩
def negate (f : PyFloat) : PyFloat := { f with neg := !f.neg }

/-- `==` of two numbers: exact comparison of the values (CPython compares int with float exactly);
`-0.0 == 0.0` -/
def eq (a b : PyFloat) : Bool :=
  if a.isZero || b.isZero then a.isZero && b.isZero
  else if a.inf || b.inf then a.inf && b.inf && a.neg == b.neg
  else a.neg == b.neg &&
    a.m * 2 ^ (a.e - min a.e b.e).toNat == b.m * 2 ^ (b.e - min a.e b.e).toNat
end PyFloat

/-- the values an `ast.Constant` can carry -/
inductive Const where
  | none
  | bool (b : Bool)
  | int (i : Int)
  | float (f : PyFloat)
  | complex (re im : PyFloat)
  | str (s : String)
  | bytes (b : List Nat)
  | ellipsis
deriving DecidableEq, Repr, Inhabited

namespace Const
/-- numeric view `(re, im)`; `bool` is a subclass of `int` -/
def num? : Const → Option (PyFloat × PyFloat)
  | .bool b => some (.ofInt (if b then 1 else 0), .zero)
  | .int i => some (.ofInt i, .zero)
  | .float f => some (f, .zero)
  | .complex re im => some (re, im)
  | _ => Option.none

/-- Python's `==` on constants -/
def pyEq (a b : Const) : Bool :=
  match a.num?, b.num? with
  | some (r, i), some (r', i') => r.eq r' && i.eq i'
  | Option.none, Option.none => decide (a = b)
  | _, _ => false

/-- `operator.neg` -/
def neg? : Const → Option Const
  | .bool b => some (.int (-(if b then 1 else 0)))
  | .int i => some (.int (-i))
  | .float f => some (.float f.negate)
  | .complex re im => some (.complex re.negate im.negate)
  | _ => Option.none

/-- `operator.pos` -/
def pos? : Const → Option Const
  | .bool b => some (.int (if b then 1 else 0))
  | .int i => some (.int i)
  | .float f => some (.float f)
  | .complex re im => some (.complex re im)
  | _ => Option.none
end Const

/-! ## the part of Python's AST `_AstParser` can meet -/

inductive BoolK where | and | or
deriving DecidableEq, Repr, Inhabited

inductive UnOp where | not | usub | uadd | invert
deriving DecidableEq, Repr, Inhabited

inductive BinOp where
  | bitAnd | bitOr
  | other (ty : String)          -- Add, Sub, BitXor, …: no `process_<ty>`
deriving DecidableEq, Repr, Inhabited

inductive CmpOp where | eq | notEq | lt | ltE | gt | gtE | isOp | isNot | inOp | notIn
deriving DecidableEq, Repr, Inhabited

/-- expression nodes, children in `ast.iter_child_nodes` order.  `name`/`attribute`/`list`/`tuple`
stand for the `Load` context (the only one an expression statement has outside comprehension
targets); everything else – and those four in `Store`/`Del` context – is `other` with its type
name and all its children (context nodes included, as childless `other`s). -/
inductive PyAst where
  | boolOp (op : BoolK) (values : List PyAst)
  | unaryOp (op : UnOp) (operand : PyAst)
  | binOp (left : PyAst) (op : BinOp) (right : PyAst)
  | compare (left : PyAst) (rest : List (CmpOp × PyAst))     -- ops and comparators, paired
  | call (func : PyAst) (args : List PyAst)                   -- args, then `keyword` nodes (as `other`)
  | name (id : String)
  | attribute (value : PyAst) (attr : String)
  | constant (c : Const)
  | list (elts : List PyAst)
  | tuple (elts : List PyAst)
  | other (ty : String) (children : List PyAst)
deriving Repr, Inhabited

/-- statements of the module body: an expression statement or anything else -/
inductive Stmt where
  | expr (e : PyAst)
  | other (ty : String)
deriving Repr, Inhabited

/-! ## Python objects the walk produces -/

/-- `hypatia.query` objects and plain values, dynamically typed as in Python -/
inductive W where
  | const (c : Const)
  | list (l : List W)
  | tuple (l : List W)
  | nameObj (n : String)                      -- hypatia.query.Name
  | astName (id : String)                     -- ast.Name (process_Name / process_Attribute)
  | callFactory (all : Bool) (values : W)     -- the closure `process_Call` returns for any()/all()
  | cmp (c : Cmp) (index : String) (value : W)
  | range (neg : Bool) (index : String) (start stop : W) (sx ex : Bool)   -- InRange / NotInRange
  | and (qs : List W)
  | or (qs : List W)
  | not (q : W)
deriving Repr, Inhabited

/-- what visiting a comparison-operator node returns: `process_comparator(cls)` (a closure with
`.type = cls`) or the `process_In` / `process_NotIn` closure (`.type = Contains / NotContains`) -/
inductive Factory where
  | cmp (c : Cmp)
  | isIn (neg : Bool)
deriving DecidableEq, Repr, Inhabited

inductive Err where
  | valueError | attributeError | typeError | keyError | indexError | nameError
deriving DecidableEq, Repr, Inhabited

namespace W
/-- `isinstance(w, Query)` -/
def isQuery : W → Bool
  | .cmp _ _ _ => true
  | .range _ _ _ _ _ _ => true
  | .and _ => true
  | .or _ => true
  | .not _ => true
  | _ => false

/-- `callable(w)`: among expression results only the any()/all() closure is -/
def callable : W → Bool
  | .callFactory _ _ => true
  | _ => false

/-- `_AstParser._value` -/
def wrap : W → W
  | .astName id => .nameObj id
  | w => w
end W

/-- `BoolOp.__init__`: operands of the same class are promoted one level -/
def flatOf (k : BoolK) : W → List W
  | .and xs => match k with | .and => xs | .or => [.and xs]
  | .or xs => match k with | .or => xs | .and => [.or xs]
  | w => [w]

def mkBool (k : BoolK) (ws : List W) : W :=
  match k with
  | .and => .and (ws.flatMap (flatOf .and))
  | .or => .or (ws.flatMap (flatOf .or))

/-- `_AstParser._get_index`: `_index_name` (ValueError unless an `ast.Name`), then `catalog[name]` -/
def getIndex (cat : List String) : W → Except Err String
  | .astName id => if cat.contains id then .ok id else .error .keyError
  | _ => .error .valueError

def cmpOpW : CmpOp → Except Err Factory
  | .eq => .ok (.cmp .eq)
  | .notEq => .ok (.cmp .noteq)
  | .lt => .ok (.cmp .lt)
  | .ltE => .ok (.cmp .le)
  | .gt => .ok (.cmp .gt)
  | .gtE => .ok (.cmp .ge)
  | .inOp => .ok (.isIn false)
  | .notIn => .ok (.isIn true)
  | .isOp => .error .valueError          -- no process_Is
  | .isNot => .error .valueError         -- no process_IsNot

def cmpOps : List CmpOp → Except Err (List Factory)
  | [] => .ok []
  | o :: os => do
    let f ← cmpOpW o
    let fs ← cmpOps os
    pure (f :: fs)

/-- `factory.type` -/
def Factory.type : Factory → Cmp
  | .cmp c => c
  | .isIn false => .contains
  | .isIn true => .notcontains

/-- `right(index)` for a callable `right` -/
def callWithIndex (right : W) (index : String) : Except Err W :=
  match right with
  | .callFactory all values => .ok (.cmp (if all then .all else .any) index values.wrap)
  | _ => .error .typeError

/-- `.negate()` of a comparator object -/
def negateCmp : W → Except Err W
  | .cmp c i v => .ok (.cmp c.negate i v)
  | _ => .error .attributeError

/-- `factory(left, right)` – the 3-children branch of `process_Compare` -/
def factoryCall (cat : List String) (f : Factory) (left right : W) : Except Err W :=
  match f with
  | .cmp c => do
    let i ← getIndex cat left
    pure (.cmp c i right.wrap)
  | .isIn neg =>
    if right.callable then do
      let i ← getIndex cat left
      let q ← callWithIndex right i
      if neg then negateCmp q else pure q
    else do
      let i ← getIndex cat right
      pure (.cmp (if neg then .notcontains else .contains) i left.wrap)

/-- the 5-children branch of `process_Compare` -/
def rangeCall (cat : List String) (start : W) (f1 f2 : Factory) (indexName stop : W) : Except Err W :=
  let op1 := f1.type
  let op2 := f2.type
  if (op1 = .lt ∨ op1 = .le) ∧ (op2 = .lt ∨ op2 = .le) then do
    let i ← getIndex cat indexName
    pure (.range false i start.wrap stop.wrap (decide (op1 = .lt)) (decide (op2 = .lt)))
  else .error .valueError

/-- `process_Call` after the children were visited -/
def processCall (func : W) (args : List W) : Except Err W :=
  match func with
  | .astName id =>
    if id = "any" ∨ id = "all" then
      match args with
      | [values] => .ok (.callFactory (decide (id = "all")) values)
      | _ => .error .valueError            -- wrong number of arguments
    else .error .valueError                -- illegal function call
  | _ => .error .valueError                -- str(node.func) is never 'any'/'all'

/-- visiting the operator child of a `UnaryOp` (`Invert` has no processor) -/
def unOpOk : UnOp → Except Err Unit
  | .invert => .error .valueError
  | _ => .ok ()

/-- `process_UnaryOp`: `operator(query)` with `Not`, `operator.neg`, `operator.pos` -/
def applyUn (op : UnOp) (x : W) : Except Err W :=
  match op with
  | .not => .ok (.not x)
  | .usub => match x with
    | .const c => match c.neg? with
      | some c' => .ok (.const c')
      | none => .error .typeError
    | _ => .error .typeError
  | .uadd => match x with
    | .const c => match c.pos? with
      | some c' => .ok (.const c')
      | none => .error .typeError
    | _ => .error .typeError
  | .invert => .error .valueError

/-- visiting the operator child of a `BinOp` -/
def binOpK : BinOp → Except Err BoolK
  | .bitAnd => .ok .and
  | .bitOr => .ok .or
  | .other _ => .error .valueError

mutual
/-- `_AstParser.walk` -/
def walk (cat : List String) : PyAst → Except Err W
  | .name id => .ok (.astName id)
  | .attribute v attr => do
    let c ← walk cat v
    match c with
    | .astName id => pure (.astName (id ++ "." ++ attr))     -- '.'.join((name.id, node.attr))
    | _ => .error .attributeError                            -- children[0].id
  | .constant c => .ok (.const c)
  | .list elts => do
    let cs ← walkList cat elts
    pure (.list (cs.map W.wrap))
  | .tuple elts => do
    let cs ← walkList cat elts
    pure (.tuple (cs.map W.wrap))
  | .unaryOp op operand => do
    unOpOk op                                   -- the operator node is the first child
    let x ← walk cat operand
    applyUn op x
  | .binOp l op r => do
    let wl ← walk cat l
    let k ← binOpK op                           -- second child; the right operand is not visited if it fails
    let wr ← walk cat r
    if !wl.isQuery then .error .valueError
    else if !wr.isQuery then .error .valueError
    else pure (mkBool k [wl, wr])
  | .boolOp k values => do
    let ws ← walkList cat values
    if ws.all W.isQuery then pure (mkBool k ws) else .error .valueError
  | .compare l rest => do
    let wl ← walk cat l
    let fs ← cmpOps (rest.map Prod.fst)
    let ws ← walkPairs cat rest
    match fs, ws with                           -- len(children) == 3 / == 5 / anything else
    | [f], [right] => factoryCall cat f wl right
    | [f1, f2], [indexName, stop] => rangeCall cat wl f1 f2 indexName stop
    | _, _ => .error .valueError
  | .call f args => do
    let wf ← walk cat f
    let wa ← walkList cat args
    processCall wf wa
  | .other _ children => do
    let _ ← walkList cat children
    .error .valueError                          -- "Unhandled expression element"
def walkList (cat : List String) : List PyAst → Except Err (List W)
  | [] => .ok []
  | a :: as => do
    let w ← walk cat a
    let ws ← walkList cat as
    pure (w :: ws)
def walkPairs (cat : List String) : List (CmpOp × PyAst) → Except Err (List W)
  | [] => .ok []
  | (_, a) :: ps => do
    let w ← walk cat a
    let ws ← walkPairs cat ps
    pure (w :: ws)
end

/-- `_AstParser.parse` on the body of the module `ast.parse` returned -/
def parse (cat : List String) (body : List Stmt) : Except Err W :=
  match body with
  | [] => .error .indexError                    -- statements[0]
  | [.expr e] => walk cat e
  | [.other _] => .error .valueError            -- "Not an expression."
  | _ :: _ :: _ => .error .valueError           -- "Can only process single expression."

/-! ## name substitution at execution time -/

abbrev Names := Option (List (String × W))      -- the `names` argument; `none` is Python's None

def lookupName (names : Names) (n : String) : Except Err W :=
  match names with
  | none => .error .typeError                   -- `name not in None`
  | some m => match m.lookup n with
    | some v => .ok v
    | none => .error .nameError

mutual
/-- `Comparator._get_value` -/
def getValue (names : Names) : W → Except Err W
  | .list l => do
    let l' ← getValueList names l
    pure (.list l')
  | .tuple l => do
    let l' ← getValueList names l
    pure (.tuple l')
  | .nameObj n => lookupName names n
  | w => .ok w
def getValueList (names : Names) : List W → Except Err (List W)
  | [] => .ok []
  | w :: ws => do
    let v ← getValue names w
    let vs ← getValueList names ws
    pure (v :: vs)
end

/-- the constant a leaf hands to its index: `cmp` with `_get_value`, `range` with
`_get_start`, `_get_end` (in this order; both are `_get_value` of the bound since fix D21) -/
def resolveLeaf (names : Names) : W → Except Err W
  | .cmp c i v => do
    let v' ← getValue names v
    pure (.cmp c i v')
  | .range n i s e sx ex => do
    let s' ← getValue names s
    let e' ← getValue names e
    pure (.range n i s' e' sx ex)
  | _ => .error .attributeError

mutual
/-- the comparator/range leaves of a query object, left to right (`iter_children`) -/
def leaves : W → List W
  | .and qs => leavesList qs
  | .or qs => leavesList qs
  | .not q => leaves q
  | w => [w]
def leavesList : List W → List W
  | [] => []
  | q :: qs => leaves q ++ leavesList qs
end

/-! ## a retained query object executed several times -/

/-- one execution: what every leaf hands to its index, and the object afterwards.  `_get_value`
builds new lists/tuples, `_get_start/_get_end` likewise: executing writes nothing into the object. -/
def execOnce (names : Names) (w : W) : W × List (Except Err W) :=
  (w, (leaves w).map (resolveLeaf names))

/-- successive executions of the same object with different `names` -/
def execSeq : W → List Names → W × List (List (Except Err W))
  | w, [] => (w, [])
  | w, n :: ns =>
    let (w1, r) := execOnce n w
    let (w2, rs) := execSeq w1 ns
    (w2, r :: rs)

/-! ## `__eq__` -/

mutual
/-- `a == b` for two separately constructed objects: `Comparator.__eq__`, `_Range.__eq__`,
`BoolOp.__eq__`, `Name.__eq__`, list/tuple equality, Python's equality of constants.  `Not`,
`ast.Name` and function objects define no `__eq__` (identity), so distinct objects are unequal. -/
def weq : W → W → Bool
  | .const a, .const b => a.pyEq b
  | .list a, .list b => weqList a b
  | .tuple a, .tuple b => weqList a b
  | .nameObj a, .nameObj b => a == b
  | .cmp c i v, .cmp c' i' v' => c == c' && (i == i' && weq v v')
  | .range n i s e sx ex, .range n' i' s' e' sx' ex' =>
    n == n' && (i == i' && (weq s s' && (weq e e' && (sx == sx' && ex == ex'))))
  | .and a, .and b => weqList a b
  | .or a, .or b => weqList a b
  | _, _ => false
def weqList : List W → List W → Bool
  | [], [] => true
  | a :: as, b :: bs => weq a b && weqList as bs
  | _, _ => false
end

end Hyp.Cqe
