import HypatiaModel.Cqe
import HypatiaModel.QueryModel

/-!
# Executing a parsed query expression over index models  (C10 → C04)

`parse_query(expr, catalog)` returns a query object whose leaf values may hold `Name`s; `execute(names=…)`
resolves every leaf (`Comparator._get_value`, `_Range._get_start/_get_end`) and runs `_apply`.  Here:

* `resolveTree names w` – the object with every comparator value and range bound resolved (`resolveLeaf` of
  `Cqe.lean` at every leaf, left to right; the first unbound name raises `NameError`).  The code resolves a leaf
  when `_apply` reaches it, so with an unbound name in an operand that `And`'s early exit skips it raises
  nothing where this function does; when every name is bound (the hypothesis of `c10_parse_substitute_execute`)
  every resolution succeeds and the order is immaterial.
* `W.toQuery? ix w` – a resolved object as a tree of the query algebra of C04/C05 (`Hyp.Query.Q`: numbered
  indexes, integer values, lists/tuples of integers), `none` when a value is not of that kind.
* `execParsed` – resolution, then `_apply` over a catalog of index models (`applyQM`).
-/
namespace Hyp.Cqe
open Hyp.Query (Cmp)

mutual
def resolveTree (names : Names) : W → Except Err W
  | .and qs => do
    let qs' ← resolveTrees names qs
    pure (.and qs')
  | .or qs => do
    let qs' ← resolveTrees names qs
    pure (.or qs')
  | .not q => do
    let q' ← resolveTree names q
    pure (.not q')
  | .cmp c i v => resolveLeaf names (.cmp c i v)
  | .range n i s e sx ex => resolveLeaf names (.range n i s e sx ex)
  | w => resolveLeaf names w
def resolveTrees (names : Names) : List W → Except Err (List W)
  | [] => .ok []
  | q :: qs => do
    let q' ← resolveTree names q
    let qs' ← resolveTrees names qs
    pure (q' :: qs')
end

def W.toInt? : W → Option Int
  | .const (.int i) => some i
  | _ => none

def W.toVal? : W → Option Hyp.Query.Val
  | .const (.int i) => some (.one i)
  | .list l => (l.mapM W.toInt?).map .many
  | .tuple l => (l.mapM W.toInt?).map .many
  | _ => none

mutual
def W.toQuery? (ix : String → Option Nat) : W → Option Hyp.Query.Q
  | .cmp c i v => match ix i, v.toVal? with
    | some n, some x => some (.cmp c n x)
    | _, _ => none
  | .range neg i s e sx ex => match ix i, s.toInt?, e.toInt? with
    | some n, some lo, some hi => some (.range neg n lo hi sx ex)
    | _, _, _ => none
  | .and l => (W.toQueryL? ix l).map .and
  | .or l => (W.toQueryL? ix l).map .or
  | .not q => (W.toQuery? ix q).map .not
  | _ => none
def W.toQueryL? (ix : String → Option Nat) : List W → Option (List Hyp.Query.Q)
  | [] => some []
  | q :: qs => match W.toQuery? ix q, W.toQueryL? ix qs with
    | some x, some xs => some (x :: xs)
    | _, _ => none
end

inductive XErr where
  | cqe (e : Err)                 -- raised while resolving names
  | notInAlgebra                  -- a resolved value that is not an integer / a list of integers
  | query (e : Hyp.Query.Err)     -- raised by `_apply`
deriving Repr

/-- `parsed.execute(names=names)` as far as the id set: resolution, then `_apply` over the index models -/
def execParsed (ix : String → Option Nat) (mc : Hyp.Query.MCatalog) (names : Names) (w : W) :
    Except XErr Hyp.Query.IdSet :=
  match resolveTree names w with
  | .error e => .error (.cqe e)
  | .ok w' =>
    match w'.toQuery? ix with
    | none => .error .notInAlgebra
    | some q =>
      match Hyp.Query.applyQM mc q with
      | .error e => .error (.query e)
      | .ok r => .ok r

end Hyp.Cqe
