import HypatiaModel.Keyword

/-!
# hypatia.facet.FacetIndex  (index_doc with prefix expansion, counts)

A facet name / facet path is a string with ':' structure.  `s.split(':')` and `':'.join`
are inverse bijections between strings and non-empty lists of ':'-free segments, so a facet
is represented by its segment list (`"a:b:c"` = `[a, b, c]`, `""` = `[""]`); segments are
ranked to `Nat` by the harness (only equality of segments matters).  The candidates
`':'.join(categories[:i])`, `i = 1 … n`, are the non-empty prefixes of the segment list.

The state is the inherited `KeywordIndex` state (postings keep their representation tags:
`FacetIndex.index_doc` creates `IF.Set`s and never promotes, the inherited `optimize()` may
convert) plus the configured facet set.  Queries, `unindex_doc`, `reset`, `optimize` are
inherited.
-/
namespace Hyp.Facet
open Hyp Hyp.Keyword

abbrev Facet := List Nat

structure State where
  facets : List Facet := []            -- `self.facets = family.OO.Set(facets)`
  ks : Keyword.State Facet := {}

/-- `FacetIndex.__init__` -/
def init (facets : List Facet) : State := { facets := dedup facets }

/-- `[':'.join(categories[:i]) for i in 1 … len(categories)]` -/
def prefixes : Facet → List Facet
  | [] => []
  | x :: xs => [x] :: (prefixes xs).map (x :: ·)

/-- body of the innermost loop: `fwd[fac].insert(docid)` (a fresh `IF.Set` when absent, no
promotion) and `rev[docid].insert(fac)` (a fresh `OO.Set` when absent) -/
def addOne (s : Keyword.State Facet) (d : Int) (fac : Facet) : Keyword.State Facet :=
  let p := (AMap.get s.fwd fac).getD (Tag.set, [])
  { s with fwd := AMap.set s.fwd fac (p.1, LSet.insert p.2 d),
           rev := AMap.set s.rev d (LSet.insert ((AMap.get s.rev d).getD []) fac) }

/-- `for fac in self.facets: if fac == facet_candidate: changed = True; …` -/
def addCandidate (facets : List Facet) (d : Int) (acc : Keyword.State Facet × Bool) (cand : Facet) :
    Keyword.State Facet × Bool :=
  if cand ∈ facets then (addOne acc.1 d cand, true) else acc

def addPath (facets : List Facet) (d : Int) (acc : Keyword.State Facet × Bool) (path : Facet) :
    Keyword.State Facet × Bool :=
  (prefixes path).foldl (addCandidate facets d) acc

def addPaths (facets : List Facet) (d : Int) (acc : Keyword.State Facet × Bool) (paths : List Facet) :
    Keyword.State Facet × Bool :=
  paths.foldl (addPath facets d) acc

/-- `FacetIndex.index_doc` -/
def indexDoc (s : State) (d : Int) (v : Option (List Facet)) : State :=
  match v with
  | none =>
    let k := Keyword.unindexDoc s.ks d           -- always, even if already not-indexed
    { s with ks := { k with notIndexed := LSet.insert k.notIndexed d } }
  | some paths =>
    let k1 := { s.ks with notIndexed := LSet.remove s.ks.notIndexed d }
    let k2 := match AMap.get k1.rev d with
      | some _ => Keyword.unindexDoc k1 d
      | none => k1
    let r := addPaths s.facets d (k2, false) paths
    { s with ks := if r.2 then { r.1 with numDocs := r.1.numDocs + 1 } else r.1 }

inductive Op where
  | index (d : Int) (v : Option (List Facet))
  | unindex (d : Int)
  | reset
  | optimize
  | setThr (n : Nat)

def step (s : State) : Op → State
  | .index d v => indexDoc s d v
  | .unindex d => { s with ks := Keyword.unindexDoc s.ks d }
  | .reset => { s with ks := Keyword.reset s.ks }
  | .optimize => { s with ks := Keyword.optimize s.ks }
  | .setThr n => { s with ks := { s.ks with thr := n } }

def run (facets : List Facet) (h : List Op) : State := h.foldl step (init facets)

/-! ## counts -/

/-- the omit list with all ancestors: `effective_omits` -/
def effectiveOmits (om : List Facet) : List Facet :=
  om.foldl (fun acc o => (prefixes o).foldl LSet.insert acc) []

/-- lexicographic order on segment lists (stands for the `OOSet`'s iteration order) -/
def lexLe : Facet → Facet → Bool
  | [], _ => true
  | _ :: _, [] => false
  | a :: as, b :: bs => if a < b then true else if b < a then false else lexLe as bs

/-- `ck = tuple(available_facets)`: the members in the set's iteration order -/
def cacheKey (avail : List Facet) : List Facet := Sort.isort lexLe avail

def bump (counts : AMap Facet Nat) (f : Facet) : AMap Facet Nat :=
  AMap.set counts f ((AMap.get counts f).getD 0 + 1)

abbrev Cache := AMap (List Facet) (List Facet)

/-- the loop `for docid in docids:` of `counts()` with its memo `isect_cache` -/
def countsLoop (rev : AMap Int (List Facet)) (incl : List Facet) :
    List Int → AMap Facet Nat × Cache → AMap Facet Nat × Cache
  | [], acc => acc
  | d :: ds, (counts, cache) =>
    match AMap.get rev d with
    | none => countsLoop rev incl ds (counts, cache)      -- unknown / facet-less id: `continue`
    | some avail =>
      let ck := cacheKey avail
      match AMap.get cache ck with
      | some appr => countsLoop rev incl ds (appr.foldl bump counts, cache)
      | none =>
        let appr := LSet.inter incl avail                  -- `OO.intersection(include, available)`
        countsLoop rev incl ds (appr.foldl bump counts, AMap.set cache ck appr)

/-- `FacetIndex.counts(docids, omit_facets)` -/
def counts (s : State) (ds : List Int) (om : List Facet) : AMap Facet Nat :=
  let incl := LSet.diff s.facets (effectiveOmits om)     -- `OO.difference(self.facets, effective_omits)`
  (countsLoop s.ks.rev incl ds ([], [])).1

end Hyp.Facet
