import HypatiaModel.Prim.AMap

/-!
# hypatia.field.FieldIndex  (indexing, comparison queries, enumeration)

State = the four persistent attributes.  `Option V` as the indexed value stands for the
outcome of `discriminate`: `none` = the discriminator returned the default marker.

BTrees behaviour assumed (definitions below, exercised by the correspondence run):
`fwd.values(lo, hi, exlo, exhi)` = the postings of the keys inside the range (a `None`
bound is open), `multiunion` = set union, `IF.difference`, `IF.union`.
-/
namespace Hyp.Field

structure State (V : Type) where
  fwd : AMap V (List Int) := []
  rev : AMap Int V := []
  numDocs : Int := 0
  notIndexed : List Int := []

variable {V : Type} [DecidableEq V] [LT V] [DecidableLT V] [LE V] [DecidableLE V]

def init : State V := {}

/-- `FieldIndex.unindex_doc` -/
def unindexDoc (s : State V) (d : Int) : State V :=
  let ni := LSet.remove s.notIndexed d
  match AMap.get s.rev d with
  | none => { s with notIndexed := ni }
  | some v =>
    let rev := AMap.erase s.rev d
    let fwd :=
      match AMap.get s.fwd v with
      | some set =>
        if d ∈ set then
          let set' := LSet.remove set d
          if set' = [] then AMap.erase s.fwd v else AMap.set s.fwd v set'
        else s.fwd        -- set.remove raised KeyError: `set = 1`, nothing deleted
      | none => s.fwd     -- self._fwd_index[value] raised KeyError
    { fwd := fwd, rev := rev, numDocs := s.numDocs - 1, notIndexed := ni }

/-- the tail of `index_doc`: insert into forward index, bump count, set reverse entry -/
def insertDoc (s : State V) (d : Int) (v : V) : State V :=
  let set := (AMap.get s.fwd v).getD []
  { s with fwd := AMap.set s.fwd v (LSet.insert set d),
           numDocs := s.numDocs + 1,
           rev := AMap.set s.rev d v }

/-- `FieldIndex.index_doc` (= `reindex_doc`) -/
def indexDoc (s : State V) (d : Int) (val : Option V) : State V :=
  match val with
  | none =>
    if d ∈ s.notIndexed then s
    else
      let s' := unindexDoc s d
      { s' with notIndexed := LSet.insert s'.notIndexed d }
  | some v =>
    let s1 := { s with notIndexed := LSet.remove s.notIndexed d }
    match AMap.get s1.rev d with
    | some _ =>
      if d ∈ (AMap.get s1.fwd v).getD [] then s1      -- already up to date
      else insertDoc (unindexDoc s1 d) d v
    | none => insertDoc s1 d v

inductive Op (V : Type) where
  | index (d : Int) (v : Option V)
  | unindex (d : Int)
  | reset

def step (s : State V) : Op V → State V
  | .index d v => indexDoc s d v
  | .unindex d => unindexDoc s d
  | .reset => init

def run (h : List (Op V)) : State V := h.foldl step init

/-! ## queries -/

def inLo (lo : Option V) (exlo : Bool) (k : V) : Bool :=
  match lo with
  | none => true
  | some l => if exlo then decide (l < k) else decide (l ≤ k)

def inHi (hi : Option V) (exhi : Bool) (k : V) : Bool :=
  match hi with
  | none => true
  | some h => if exhi then decide (k < h) else decide (k ≤ h)

/-- `IF.multiunion` -/
def multiunion (sets : List (List Int)) : List Int := sets.foldl LSet.union []

/-- `self._fwd_index.values(lo, hi, excludemin, excludemax)` -/
def valuesInRange (s : State V) (lo hi : Option V) (exlo exhi : Bool) : List (List Int) :=
  (s.fwd.filter (fun p => inLo lo exlo p.1 && inHi hi exhi p.1)).map (·.2)

def applyInRange (s : State V) (lo hi : Option V) (exlo exhi : Bool) : List Int :=
  multiunion (valuesInRange s lo hi exlo exhi)

/-- `search(queries, 'or')` for plain (non-RangeValue) query values -/
def searchOr (s : State V) (qs : List V) : List Int :=
  let sets := qs.map (fun q => multiunion (valuesInRange s (some q) (some q) false false))
  match sets with
  | [x] => x
  | _ => multiunion sets

def applyEq (s : State V) (v : V) : List Int := searchOr s [v]
def applyAny (s : State V) (vs : List V) : List Int := searchOr s vs
def applyGe (s : State V) (v : V) : List Int := applyInRange s (some v) none false false
def applyLe (s : State V) (v : V) : List Int := applyInRange s none (some v) false false
def applyGt (s : State V) (v : V) : List Int := applyInRange s (some v) none true false
def applyLt (s : State V) (v : V) : List Int := applyInRange s none (some v) false true

def indexed (s : State V) : List Int := AMap.keys s.rev

/-- `BaseIndexMixin.docids` -/
def docids (s : State V) : List Int :=
  if s.notIndexed.length = 0 then indexed s
  else if (indexed s).length = 0 then s.notIndexed
  else LSet.union s.notIndexed (indexed s)

/-- `BaseIndexMixin._negate` -/
def negate (s : State V) (positive : List Int) : List Int :=
  if positive.length = 0 then docids s else LSet.diff (docids s) positive

def applyNotEq (s : State V) (v : V) : List Int := negate s (applyEq s v)
def applyNotAny (s : State V) (vs : List V) : List Int := negate s (applyAny s vs)
def applyNotInRange (s : State V) (lo hi : Option V) (exlo exhi : Bool) : List Int :=
  negate s (applyInRange s lo hi exlo exhi)

/-- the legacy `applyEq((a, b))`: a 2-tuple constant is a range (finding D13) -/
def applyEqTuple (s : State V) (a b : V) : List Int :=
  multiunion [multiunion (valuesInRange s (some a) (some b) false false)]

/-! ## enumeration / statistics -/
def indexedCount (s : State V) : Int := s.numDocs
def notIndexedCount (s : State V) : Nat := s.notIndexed.length
def wordCount (s : State V) : Nat := s.fwd.length
def uniqueValues (s : State V) : List V := AMap.keys s.fwd
def documentRepr (s : State V) (d : Int) : Option V := AMap.get s.rev d

end Hyp.Field
