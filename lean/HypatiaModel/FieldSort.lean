import HypatiaModel.Field
import HypatiaModel.Prim.Sort

/-!
# hypatia.field.FieldIndex.sort  (C07)

Every algorithm is written the way the Python code is written; the result of a call is what an
observer of the public API can see:

* the call itself raises (`ValueError`, or `Unsortable(docids)` for an empty index),
* the call returns the list `[]`,
* the call returns a generator: it yields `ids` and then, on exhaustion, possibly raises
  `Unsortable(missing)` (`Gen.raised`).  The exception, if any, comes after every yielded id by
  construction of the generator bodies (each `raise Unsortable` is the last statement).

The sentinels `ASC`/`DESC` (class `_MissingValue`) are modelled by `none` in `Option V`; which of the
two is meant is decided by the comparison used (`ltAsc`: `none` greater than everything, `ltDesc`:
`none` less than everything), exactly the four rich comparisons that `total_ordering` derives from
`__gt__`/`__eq__`.

Python built-ins assumed (definitions here, exercised by the correspondence run):
`sorted(xs[, key][, reverse])` is a stable sort that only uses `<` (`sortedPy`, `sortedPyRev`: with
`reverse=True` equal elements keep their input order as well); tuples compare lexicographically
(`==` on the first components, then `<`/`<=` on the first differing one);
`heapq.nlargest(n, it) = sorted(it, reverse=True)[:n]`; `bisect.insort` = `insort_right` (insert in
front of the first element that is greater); BTree keys / TreeSet members iterate in ascending order.
-/
namespace Hyp.Field
open Hyp.Sort

variable {V : Type} [DecidableEq V] [LT V] [DecidableLT V] [LE V] [DecidableLE V]

/-! ## Python orderings -/

/-- `a < b` on values-or-`ASC` (`none` = `ASC`, greater than everything but itself) -/
def ltAsc : Option V → Option V → Bool
  | some a, some b => decide (a < b)
  | some _, none => true
  | none, _ => false

/-- `a <= b` on values-or-`ASC` -/
def leAsc : Option V → Option V → Bool
  | some a, some b => decide (a ≤ b)
  | some _, none => true
  | none, some _ => false
  | none, none => true

/-- `a < b` on values-or-`DESC` (`none` = `DESC`, less than everything but itself) -/
def ltDesc : Option V → Option V → Bool
  | some a, some b => decide (a < b)
  | none, some _ => true
  | _, none => false

/-- tuple `<` on `(value, docid)` -/
def pairLt (ltK : Option V → Option V → Bool) (a b : Option V × Int) : Bool :=
  if a.1 = b.1 then decide (a.2 < b.2) else ltK a.1 b.1

/-- tuple `<=` on `(value, docid)` -/
def pairLe (leK : Option V → Option V → Bool) (a b : Option V × Int) : Bool :=
  if a.1 = b.1 then decide (a.2 ≤ b.2) else leK a.1 b.1

/-- `sorted(xs)`: stable, built on `<` only (`x` stays in front of `y` unless `y < x`) -/
def sortedPy {α : Type} (lt : α → α → Bool) (xs : List α) : List α :=
  isort (fun x y => !lt y x) xs

/-- `sorted(xs, reverse=True)`: descending, equal elements keep their input order -/
def sortedPyRev {α : Type} (lt : α → α → Bool) (xs : List α) : List α :=
  isort (fun x y => !lt x y) xs

/-- `sorted(xs, key=f)`: the keys are computed once (decorate, sort on the key only, undecorate) -/
def sortedByKey {α β : Type} (lt : β → β → Bool) (f : α → β) (xs : List α) : List α :=
  (sortedPy (fun (x y : β × α) => lt x.1 y.1) (xs.map (fun a => (f a, a)))).map Prod.snd

/-- `sorted(xs, key=f, reverse=True)` -/
def sortedByKeyRev {α β : Type} (lt : β → β → Bool) (f : α → β) (xs : List α) : List α :=
  (sortedPyRev (fun (x y : β × α) => lt x.1 y.1) (xs.map (fun a => (f a, a)))).map Prod.snd

/-! ## results -/

/-- a generator returned by `sort`: the ids it yields, then the `docids` of the `Unsortable` it
raises on exhaustion (if it does) -/
structure Gen where
  ids : List Int
  raised : Option (List Int) := none
  deriving DecidableEq, Repr

inductive SortRes where
  | valueError                              -- the call raised ValueError
  | unsortableAtCall (docids : List Int)    -- the call raised Unsortable(docids) (empty index)
  | emptyList                               -- the call returned `[]`
  | gen (g : Gen)                           -- the call returned a generator
  deriving DecidableEq, Repr

/-- what iteration of the result shows: ids, then possibly Unsortable (`none` for ValueError) -/
def SortRes.observe : SortRes → Option Gen
  | .valueError => none
  | .unsortableAtCall ds => some { ids := [], raised := some ds }
  | .emptyList => some { ids := [] }
  | .gen g => some g

inductive SortType where
  | fwscan | nbest | timsort | stable | optimal
  | other            -- any other string
  deriving DecidableEq, Repr

/-- the three algorithms -/
inductive Algo where
  | fwscan | nbest | timsort
  deriving DecidableEq, Repr

/-- Python truthiness of `limit` (`None` and `0` are falsy) -/
def limitOf : Option Nat → Option Nat
  | some 0 => none
  | l => l

/-- `n += 1; yield docid; if limit and n >= limit: return` – is the generator done after the
`n`-th yield? -/
def limitReached (limit : Option Nat) (n : Nat) : Bool :=
  match limitOf limit with
  | some l => decide (n ≥ l)
  | none => false

/-! ## forward scan -/

/-- `for set in fwd_index.values(): for docid in set:` – the docids of the index in iteration
order: keys ascending, each posting (a TreeSet) ascending -/
def fwdFlat (s : State V) : List Int :=
  (sortedPy (fun (a b : V × List Int) => decide (a.1 < b.1)) s.fwd).flatMap
    (fun p => sortedPy (fun (a b : Int) => decide (a < b)) p.2)

/-- the loop of `scan_forward` over the remaining index entries: (yielded, remaining requested
ids, left by `return`) -/
def scanLoop (limit : Option Nat) : List Int → List Int → Nat → List Int × List Int × Bool
  | [], rem, _ => ([], rem, false)
  | d :: rest, rem, n =>
    if d ∈ rem then
      let rem' := LSet.remove rem d
      if limitReached limit (n + 1) then ([d], rem', true)
      else
        let r := scanLoop limit rest rem' (n + 1)
        (d :: r.1, r.2.1, r.2.2)
    else scanLoop limit rest rem n

/-- `FieldIndex.scan_forward` -/
def scanForward (s : State V) (docids : List Int) (limit : Option Nat) (raiseU : Bool) : Gen :=
  let r := scanLoop limit (fwdFlat s) docids 0
  { ids := r.1,
    raised := if !r.2.2 && raiseU && !r.2.1.isEmpty then some r.2.1 else none }

/-! ## n-best -/

/-- `nsort(docids, rev_index, missing)` -/
def nsort (s : State V) (docids : List Int) : List (Option V × Int) :=
  docids.map (fun d => (AMap.get s.rev d, d))

/-- the hand-rolled `insort`/`pop` loop of `nbest_ascending` ("lifted from heapq.nsmallest") -/
def nbestLoop {α : Type} (lt le : α → α → Bool) (result : List α) : List α → List α
  | [] => result
  | elem :: rest =>
    match result.getLast? with
    | none => result                                  -- not reached: `result` is non-empty
    | some los =>
      if le los elem then nbestLoop lt le result rest  -- `if los <= elem: continue`
      else nbestLoop lt le ((insertBy lt elem result).dropLast) rest

/-- the tail shared by both n-best variants: yield the ids that have a value, collect the others -/
def nbestEmit (result : List (Option V × Int)) (raiseU : Bool) : Gen :=
  let missing := result.filterMap (fun p => if p.1.isNone then some p.2 else none)
  { ids := result.filterMap (fun p => if p.1.isSome then some p.2 else none),
    raised := if raiseU && !missing.isEmpty then some missing else none }

/-- `FieldIndex.nbest_ascending` (`limit` is not `None`: `sort` has checked) -/
def nbestAscending (s : State V) (docids : List Int) (limit : Nat) (raiseU : Bool) : Gen :=
  let h := nsort s docids
  let result := sortedPy (pairLt ltAsc) (h.take limit)       -- sorted(islice(it, 0, limit))
  if result.isEmpty then { ids := [] }
  else nbestEmit (nbestLoop (pairLt ltAsc) (pairLe leAsc) result (h.drop limit)) raiseU

/-- `FieldIndex.nbest_descending`: `heapq.nlargest(limit, nsort(.., DESC))` -/
def nbestDescending (s : State V) (docids : List Int) (limit : Nat) (raiseU : Bool) : Gen :=
  nbestEmit ((sortedPyRev (pairLt ltDesc) (nsort s docids)).take limit) raiseU

/-! ## timsort -/

/-- the loop of `_timsort` over the sorted docids -/
def timLoop (limit : Option Nat) (missing : List Int) : List Int → Nat → List Int
  | [], _ => []
  | d :: rest, n =>
    if d ∈ missing then timLoop limit missing rest n
    else if limitReached limit (n + 1) then [d]
    else d :: timLoop limit missing rest (n + 1)

/-- does `_timsort` leave through `return` (so that the final `raise` is not reached)? -/
def timReturned (limit : Option Nat) (missing : List Int) : List Int → Nat → Bool
  | [], _ => false
  | d :: rest, n =>
    if d ∈ missing then timReturned limit missing rest n
    else if limitReached limit (n + 1) then true
    else timReturned limit missing rest (n + 1)

/-- `FieldIndex._timsort` -/
def timsort (s : State V) (docids : List Int) (limit : Option Nat) (reverse raiseU : Bool) : Gen :=
  let key := fun d => AMap.get s.rev d                       -- `get`, ASC for a missing docid
  let missing := docids.filter (fun d => (key d).isNone)     -- appended by `get`, in input order
  let sorted := if reverse then sortedByKeyRev ltAsc key docids else sortedByKey ltAsc key docids
  { ids := timLoop limit missing sorted 0,
    raised := if !timReturned limit missing sorted 0 && raiseU && !missing.isEmpty
              then some missing else none }

/-! ## choice of the algorithm (heuristics; IEEE doubles as in Python) -/

def fdiv (a b : Nat) : Float := Float.ofNat a / Float.ofNat b

/-- `fwscan_wins(limit, rlen, numdocs)` -/
def fwscanWins (limit : Option Nat) (rlen numdocs : Nat) : Bool :=
  let docratio := fdiv rlen numdocs
  let limitratio := match limitOf limit with
    | some l => fdiv l numdocs
    | none => 1
  let div : Float := 65536.0
  if docratio >= 16384 / div then true
  else if docratio >= 256 / div then
    if 512 / div <= docratio && docratio < 1024 / div && limitratio <= 4 / div then true
    else if 1024 / div <= docratio && docratio < 2048 / div && limitratio <= 32 / div then true
    else if 2048 / div <= docratio && docratio < 4096 / div && limitratio <= 128 / div then true
    else if 4096 / div <= docratio && docratio < 8192 / div && limitratio <= 512 / div then true
    else if 8192 / div <= docratio && docratio < 16384 / div && limitratio <= 4096 / div then true
    else false
  else false

/-- `nbest_ascending_wins(limit, rlen, numdocs)` -/
def nbestAscendingWins (limit : Option Nat) (rlen numdocs : Nat) : Bool :=
  match limitOf limit with
  | none => false
  | some l =>
    let limitratio := fdiv l numdocs
    if numdocs ≤ 768 then true
    else
      let docratio := fdiv rlen numdocs
      let div : Float := 65536.0
      if docratio < 4096 / div then true
      else if docratio == 1 && limitratio <= 8192 / div then true
      else if 1 > docratio && docratio >= 32768 / div && limitratio <= 4096 / div then true
      else if 32768 / div > docratio && docratio >= 4096 / div && limitratio <= 2048 / div then true
      else false

/-- the `sort_type is None` branch of `sort_forward` -/
def chooseForward (limit : Option Nat) (rlen numdocs : Nat) : Algo :=
  if fwscanWins limit rlen numdocs then .fwscan
  else if (limitOf limit).isSome && nbestAscendingWins limit rlen numdocs then .nbest
  else .timsort

/-- the `sort_type is None` branch of `sort_reverse` -/
def chooseReverse (limit : Option Nat) (rlen : Nat) : Algo :=
  match limitOf limit with
  | some l => if l < 300 || fdiv l rlen > 0.09 then .nbest else .timsort
  | none => .timsort

/-! ## dispatch -/

/-- one algorithm run with the given flags; `none` = the combination is rejected with ValueError
(`fwscan` with `reverse`, `nbest` without a limit) -/
def sortWith (s : State V) (a : Algo) (docids : List Int) (reverse : Bool) (limit : Option Nat)
    (raiseU : Bool) : Option Gen :=
  match a, reverse, limit with
  | .fwscan, false, _ => some (scanForward s docids limit raiseU)
  | .fwscan, true, _ => none                         -- 'Unknown sort type fwscan'
  | .nbest, _, none => none                          -- 'nbest requires a limit'
  | .nbest, false, some l => some (nbestAscending s docids l raiseU)
  | .nbest, true, some l => some (nbestDescending s docids l raiseU)
  | .timsort, _, _ => some (timsort s docids limit reverse raiseU)

/-- `sort_forward` / `sort_reverse` after the `sort_type` has been normalised -/
def sortDispatch (s : State V) (docids : List Int) (reverse : Bool) (limit : Option Nat)
    (numdocs : Nat) (st : Option SortType) (raiseU : Bool) : SortRes :=
  let algo : Option Algo :=
    match st with
    | none => some (if reverse then chooseReverse limit docids.length
                    else chooseForward limit docids.length numdocs)
    | some .fwscan => some .fwscan
    | some .nbest => some .nbest
    | some .timsort => some .timsort
    | some _ => none                                  -- 'Unknown sort type %s'
  match algo with
  | none => .valueError
  | some a =>
    match sortWith s a docids reverse limit raiseU with
    | none => .valueError
    | some g => .gen g

/-- `limit = int(limit); if limit < 1: raise ValueError` -/
def limitInvalid (limit : Option Int) : Bool :=
  match limit with
  | some l => decide (l < 1)
  | none => false

/-- `STABLE → TIMSORT`, `OPTIMAL → None` -/
def normType : Option SortType → Option SortType
  | some .stable => some .timsort
  | some .optimal => none
  | x => x

/-- `FieldIndex.sort` -/
def sort (s : State V) (docids : List Int) (reverse : Bool) (limit : Option Int)
    (st : Option SortType) (raiseU : Bool) : SortRes :=
  if limitInvalid limit then .valueError
  else if docids.isEmpty then .emptyList
  else if s.numDocs = 0 then (if raiseU then .unsortableAtCall docids else .emptyList)
  else sortDispatch s docids reverse (limit.map Int.toNat) s.numDocs.toNat (normType st) raiseU

end Hyp.Field
