import HypatiaModel.Facet

/-!
# Enumeration / statistics observers of the keyword and facet index (C06)

`KeywordIndex` (and `FacetIndex`, which inherits everything but `index_doc`/`document_repr`)
answer `indexed()`, `not_indexed()`, `word_count()`, `unique_values()`, `document_repr()` from
their own containers (`Keyword.indexed` … `Keyword.documentRepr` in `Keyword.lean`) and take
`docids()`, `indexed_count()`, `not_indexed_count()`, `docids_count()` from `BaseIndexMixin`
(`len` of the corresponding set).  The `_num_docs` `Length` is maintained by `index_doc` /
`unindex_doc` but read by no method of these two classes.

`freshOps t`: the calls that build a new index from a docid ↦ value mapping, one `index_doc`
per document.
-/
namespace Hyp.Keyword
variable {K : Type} [DecidableEq K]

/-- `BaseIndexMixin.docids_count` = `len(self.docids())` -/
def docidsCount (s : State K) : Nat := (docids s).length

/-- the `_num_docs` counter (`BTrees.Length`); not read by any public method of the class -/
def numDocsCounter (s : State K) : Int := s.numDocs

/-- index every entry of a docid ↦ value mapping once -/
def freshOps (t : AMap Int (Option (List K))) : List (Op K) := t.map (fun p => Op.index p.1 p.2)

/-- a new `KeywordIndex` with `tree_threshold = thr` that indexed the mapping `t` once -/
def fresh (thr : Nat) (t : AMap Int (Option (List K))) : State K := run (Op.setThr thr :: freshOps t)

end Hyp.Keyword

namespace Hyp.Facet
open Hyp Hyp.Keyword

def indexed (s : State) : List Int := Keyword.indexed s.ks
def notIndexed (s : State) : List Int := s.ks.notIndexed
def docids (s : State) : List Int := Keyword.docids s.ks
def indexedCount (s : State) : Nat := Keyword.indexedCount s.ks
def notIndexedCount (s : State) : Nat := Keyword.notIndexedCount s.ks
def docidsCount (s : State) : Nat := Keyword.docidsCount s.ks
def wordCount (s : State) : Nat := Keyword.wordCount s.ks
def uniqueValues (s : State) : List Facet := Keyword.uniqueValues s.ks
/-- `FacetIndex.document_repr`: the `OOSet` of facets the document is listed under -/
def documentRepr (s : State) (d : Int) : Option (List Facet) := Keyword.documentRepr s.ks d

def freshOps (t : AMap Int (Option (List Facet))) : List Op := t.map (fun p => Op.index p.1 p.2)

/-- a new `FacetIndex` over `facets` with `tree_threshold = thr` that indexed the mapping once -/
def fresh (facets : List Facet) (thr : Nat) (t : AMap Int (Option (List Facet))) : State :=
  run facets (Op.setThr thr :: freshOps t)

end Hyp.Facet
