import HypatiaModel.Prim.AMap
import HypatiaModel.Prim.Sort

/-!
# hypatia.keyword.KeywordIndex  (indexing, Eq/Any/All queries and negations, optimize)

State = the four persistent attributes plus the instance's `tree_threshold`.
A posting carries a *representation tag* (`IF.Set` or `IF.TreeSet`): `_insert_forward`
promotes a `Set` to a `TreeSet` when it reaches `tree_threshold`, `optimize()` converts both
ways.  The value handed to `index_doc` is `none` (the discriminator returned the default
marker) or `some seq` (a list/tuple of keywords); a `str` value is the separate operation
`indexStr` (rejected with `TypeError`).

BTrees behaviour assumed (definitions below, exercised by the correspondence run):
`OO.Set(seq)` = the members of `seq` without duplicates, `OO.difference`, `IF.multiunion`,
`IF.intersection(None, x) = x`, `IF.intersection`, `IF.union`, `IF.difference`, `len`.
Iteration order of an `OOSet` is not modelled (it is observable only on the unreachable
`KeyError` branches, see `unpostAll`).
-/
namespace Hyp.Keyword

inductive Tag where
  | set      -- family.IF.Set
  | tree     -- family.IF.TreeSet
  deriving DecidableEq, Repr

abbrev Fwd (K : Type) := AMap K (Tag × List Int)

structure State (K : Type) where
  fwd : Fwd K := []
  rev : AMap Int (List K) := []
  numDocs : Int := 0
  notIndexed : List Int := []
  thr : Nat := 64               -- `tree_threshold` (class default 64, settable on the instance)

variable {K : Type} [DecidableEq K]

def init : State K := {}

/-- `family.OO.Set(seq)`: duplicates collapse -/
def dedup : List K → List K
  | [] => []
  | x :: xs => LSet.insert (dedup xs) x

/-- The loop `for word in words: idx[word].remove(docid); if not idx[word]: del idx[word]`
(in `unindex_doc`, and – with `fwd = idx[word]` – over `kw_removed` in `index_doc`).
The flag is `false` when `idx[word]` or `.remove(docid)` raised `KeyError`; the forward map is
returned as mutated up to that point.  (Unreachable from `run`: theorem `c02_no_keyerror`.) -/
def unpostAll (fwd : Fwd K) (d : Int) : List K → Fwd K × Bool
  | [] => (fwd, true)
  | w :: ws =>
    match AMap.get fwd w with
    | none => (fwd, false)
    | some (tag, set) =>
      if d ∈ set then
        let set' := LSet.remove set d
        let fwd' := if set' = [] then AMap.erase fwd w else AMap.set fwd w (tag, set')
        unpostAll fwd' d ws
      else (fwd, false)

/-- `KeywordIndex.unindex_doc` -/
def unindexDoc (s : State K) (d : Int) : State K :=
  let ni := LSet.remove s.notIndexed d
  match AMap.get s.rev d with
  | none => { s with notIndexed := ni }            -- `self._rev_index[docid]`: KeyError → return
  | some kws =>
    let r := unpostAll s.fwd d kws
    if r.2 then
      { s with fwd := r.1, rev := AMap.erase s.rev d, numDocs := s.numDocs - 1, notIndexed := ni }
    else { s with fwd := r.1, notIndexed := ni }   -- KeyError inside the loop → return

/-- `KeywordIndex._insert_forward` -/
def insertForward (thr : Nat) (fwd : Fwd K) (d : Int) : List K → Fwd K
  | [] => fwd
  | w :: ws =>
    let p := (AMap.get fwd w).getD (Tag.set, [])          -- `idx[word] = word_idx = Set()`
    let set' := LSet.insert p.2 d
    let tag' := if p.1 ≠ Tag.tree ∧ thr ≤ set'.length then Tag.tree else p.1
    insertForward thr (AMap.set fwd w (tag', set')) d ws

/-- `KeywordIndex._insert_reverse` -/
def insertReverse (rev : AMap Int (List K)) (d : Int) (words : List K) : AMap Int (List K) :=
  if words = [] then rev else AMap.set rev d words

/-- `KeywordIndex.index_doc` (= `reindex_doc`) for the marker / a list or tuple -/
def indexDoc (s : State K) (d : Int) (v : Option (List K)) : State K :=
  match v with
  | none =>
    if d ∈ s.notIndexed then s
    else
      let s' := unindexDoc s d
      { s' with notIndexed := LSet.insert s'.notIndexed d }
  | some seq =>
    let s1 := { s with notIndexed := LSet.remove s.notIndexed d }
    let old := AMap.get s1.rev d
    if seq = [] then                                  -- `if not seq:`
      match old with
      | some (_ :: _) => unindexDoc s1 d              -- `if old_kw: self.unindex_doc(docid)`
      | _ => s1
    else
      let new := dedup seq
      match old with
      | none =>
        { s1 with fwd := insertForward s1.thr s1.fwd d new,
                  rev := insertReverse s1.rev d new,
                  numDocs := s1.numDocs + 1 }
      | some oldk =>
        let added := LSet.diff new oldk
        let removed := LSet.diff oldk new
        if added = [] ∧ removed = [] then s1
        else
          let r := unpostAll s1.fwd d removed
          if r.2 then
            { s1 with fwd := insertForward s1.thr r.1 d added, rev := insertReverse s1.rev d new }
          else { s1 with fwd := r.1 }                 -- KeyError propagates out of index_doc

/-- `index_doc` with a `str` value: the docid leaves `_not_indexed`, then `TypeError` -/
def indexStr (s : State K) (d : Int) : State K :=
  { s with notIndexed := LSet.remove s.notIndexed d }

/-- `KeywordIndex.optimize` -/
def optimize (s : State K) : State K :=
  { s with fwd := s.fwd.map (fun e =>
      (e.1, (if s.thr ≤ e.2.2.length then Tag.tree else Tag.set, e.2.2))) }

/-- `KeywordIndex.reset` (the instance's `tree_threshold` stays) -/
def reset (s : State K) : State K := { thr := s.thr }

inductive Op (K : Type) where
  | index (d : Int) (v : Option (List K))
  | indexStr (d : Int)
  | unindex (d : Int)
  | reset
  | optimize
  | setThr (n : Nat)

def step (s : State K) : Op K → State K
  | .index d v => indexDoc s d v
  | .indexStr d => indexStr s d
  | .unindex d => unindexDoc s d
  | .reset => reset s
  | .optimize => optimize s
  | .setThr n => { s with thr := n }

def run (h : List (Op K)) : State K := h.foldl step init

/-! ## queries

Everything a query reads of the index: `self._fwd_index.get(word, IF.Set())` as a set of ids
(iteration, `len`), `indexed()`, `not_indexed()`. -/
structure View (K : Type) where
  post : K → List Int
  indexed : List Int
  notIndexed : List Int

def posting (fwd : Fwd K) (k : K) : List Int :=
  match AMap.get fwd k with
  | some p => p.2
  | none => []

def State.view (s : State K) : View K :=
  { post := posting s.fwd, indexed := AMap.keys s.rev, notIndexed := s.notIndexed }

/-- `IF.multiunion` -/
def multiunion (sets : List (List Int)) : List Int := sets.foldl LSet.union []

/-- the loop `for set in sets: rs = IF.intersection(rs, set); if not rs: break` -/
def interLoop : Option (List Int) → List (List Int) → Option (List Int)
  | rs, [] => rs
  | rs, st :: rest =>
    let rs' := match rs with
      | none => st
      | some r => LSet.inter r st
    if rs' = [] then some rs' else interLoop (some rs') rest

namespace View

/-- `search(query, 'or')` -/
def searchOr (v : View K) (q : List K) : List Int := multiunion (q.map v.post)

/-- `search(query, 'and')`: `sets.sort(key=len)`, intersect smallest first, stop when empty -/
def searchAnd (v : View K) (q : List K) : List Int :=
  let sets := Sort.isort (fun a b => decide (a.length ≤ b.length)) (q.map v.post)
  (interLoop none sets).getD []          -- `if rs: return rs else: return IF.Set()`

/-- `BaseIndexMixin.docids` -/
def docids (v : View K) : List Int :=
  if v.notIndexed.length = 0 then v.indexed
  else if v.indexed.length = 0 then v.notIndexed
  else LSet.union v.notIndexed v.indexed

/-- `BaseIndexMixin._negate` -/
def negate (v : View K) (positive : List Int) : List Int :=
  if positive.length = 0 then docids v else LSet.diff (docids v) positive

def applyEq (v : View K) (k : K) : List Int := searchAnd v [k]          -- `self.apply([value])`
def applyAny (v : View K) (ks : List K) : List Int := searchOr v ks
def applyAll (v : View K) (ks : List K) : List Int := searchAnd v ks
def applyNotEq (v : View K) (k : K) : List Int := negate v (applyEq v k)
def applyNotAny (v : View K) (ks : List K) : List Int := negate v (applyAny v ks)
def applyNotAll (v : View K) (ks : List K) : List Int := negate v (applyAll v ks)

end View

def applyEq (s : State K) (k : K) : List Int := s.view.applyEq k
def applyAny (s : State K) (ks : List K) : List Int := s.view.applyAny ks
def applyAll (s : State K) (ks : List K) : List Int := s.view.applyAll ks
def applyNotEq (s : State K) (k : K) : List Int := s.view.applyNotEq k
def applyNotAny (s : State K) (ks : List K) : List Int := s.view.applyNotAny ks
def applyNotAll (s : State K) (ks : List K) : List Int := s.view.applyNotAll ks
def docids (s : State K) : List Int := s.view.docids

/-- the query objects of `hypatia.query` that a keyword index supports -/
inductive QObj (K : Type) where
  | eq (k : K) | noteq (k : K)
  | any (ks : List K) | notany (ks : List K)
  | all (ks : List K) | notall (ks : List K)

/-- `Comparator._apply` dispatch, as written: `NotAll._apply` calls `applyAll` (finding D2) -/
def QObj.apply (s : State K) : QObj K → List Int
  | .eq k => applyEq s k
  | .noteq k => applyNotEq s k
  | .any ks => applyAny s ks
  | .notany ks => applyNotAny s ks
  | .all ks => applyAll s ks
  | .notall ks => applyAll s ks

/-- the index's own entry points `applyEq … applyNotAll` -/
def QObj.applyIndex (s : State K) : QObj K → List Int
  | .eq k => applyEq s k
  | .noteq k => applyNotEq s k
  | .any ks => applyAny s ks
  | .notany ks => applyNotAny s ks
  | .all ks => applyAll s ks
  | .notall ks => applyNotAll s ks

/-! ## enumeration / statistics -/
def indexed (s : State K) : List Int := AMap.keys s.rev
def indexedCount (s : State K) : Nat := s.rev.length        -- `len(self.indexed())`
def notIndexedCount (s : State K) : Nat := s.notIndexed.length
def wordCount (s : State K) : Nat := s.fwd.length
def uniqueValues (s : State K) : List K := AMap.keys s.fwd
def documentRepr (s : State K) (d : Int) : Option (List K) := AMap.get s.rev d

end Hyp.Keyword
