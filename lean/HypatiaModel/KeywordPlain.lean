import HypatiaModel.Keyword

/-!
# The keyword index with the posting representation erased

`Plain.State` is `Keyword.State` without representation tags and without `tree_threshold`;
`erase` forgets them.  The plain operations are the tagged ones with every tag test removed;
`optimize()` and threshold changes do nothing.  `HypatiaProofs/Lemmas/KeywordErase.lean` proves
that `erase` commutes with every operation and that every query gives the same answer on a
state and on its erasure (C02, representation independence); the refinement invariant is
stated on the erased state.
-/
namespace Hyp.Keyword.Plain
open Hyp Hyp.Keyword

abbrev Fwd (K : Type) := AMap K (List Int)

structure State (K : Type) where
  fwd : Fwd K := []
  rev : AMap Int (List K) := []
  numDocs : Int := 0
  notIndexed : List Int := []

variable {K : Type} [DecidableEq K]

def init : State K := {}

def unpostAll (fwd : Fwd K) (d : Int) : List K → Fwd K × Bool
  | [] => (fwd, true)
  | w :: ws =>
    match AMap.get fwd w with
    | none => (fwd, false)
    | some set =>
      if d ∈ set then
        let set' := LSet.remove set d
        let fwd' := if set' = [] then AMap.erase fwd w else AMap.set fwd w set'
        unpostAll fwd' d ws
      else (fwd, false)

def unindexDoc (s : State K) (d : Int) : State K :=
  let ni := LSet.remove s.notIndexed d
  match AMap.get s.rev d with
  | none => { s with notIndexed := ni }
  | some kws =>
    let r := unpostAll s.fwd d kws
    if r.2 then
      { fwd := r.1, rev := AMap.erase s.rev d, numDocs := s.numDocs - 1, notIndexed := ni }
    else { s with fwd := r.1, notIndexed := ni }

def insertForward (fwd : Fwd K) (d : Int) : List K → Fwd K
  | [] => fwd
  | w :: ws => insertForward (AMap.set fwd w (LSet.insert ((AMap.get fwd w).getD []) d)) d ws

def indexDoc (s : State K) (d : Int) (v : Option (List K)) : State K :=
  match v with
  | none =>
    if d ∈ s.notIndexed then s
    else
      let s' := unindexDoc s d
      { s' with notIndexed := LSet.insert s'.notIndexed d }
  | some seq =>
    let s1 := { s with notIndexed := LSet.remove s.notIndexed d }
    let old := AMap.get s1.rev d
    if seq = [] then
      match old with
      | some (_ :: _) => unindexDoc s1 d
      | _ => s1
    else
      let new := dedup seq
      match old with
      | none =>
        { s1 with fwd := insertForward s1.fwd d new,
                  rev := insertReverse s1.rev d new,
                  numDocs := s1.numDocs + 1 }
      | some oldk =>
        let added := LSet.diff new oldk
        let removed := LSet.diff oldk new
        if added = [] ∧ removed = [] then s1
        else
          let r := unpostAll s1.fwd d removed
          if r.2 then
            { s1 with fwd := insertForward r.1 d added, rev := insertReverse s1.rev d new }
          else { s1 with fwd := r.1 }

def indexStr (s : State K) (d : Int) : State K :=
  { s with notIndexed := LSet.remove s.notIndexed d }

def step (s : State K) : Op K → State K
  | .index d v => indexDoc s d v
  | .indexStr d => indexStr s d
  | .unindex d => unindexDoc s d
  | .reset => init
  | .optimize => s
  | .setThr _ => s

def run (h : List (Op K)) : State K := h.foldl step init

def posting (fwd : Fwd K) (k : K) : List Int := (AMap.get fwd k).getD []

def State.view (s : State K) : View K :=
  { post := posting s.fwd, indexed := AMap.keys s.rev, notIndexed := s.notIndexed }

end Hyp.Keyword.Plain

namespace Hyp.Keyword
variable {K : Type} [DecidableEq K]

/-- forget representation tags and the threshold -/
def eraseFwd (fwd : Fwd K) : Plain.Fwd K := fwd.map (fun e => (e.1, e.2.2))

def erase (s : State K) : Plain.State K :=
  { fwd := eraseFwd s.fwd, rev := s.rev, numDocs := s.numDocs, notIndexed := s.notIndexed }

/-- operations that only touch the representation -/
def Op.isRepr : Op K → Bool
  | .optimize => true
  | .setThr _ => true
  | _ => false

end Hyp.Keyword
