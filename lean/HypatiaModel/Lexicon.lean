import HypatiaModel.ParseTree
import HypatiaModel.Prim.AMap
import HypatiaModel.Prim.Sort
/-!
# hypatia.text.lexicon, hypatia.text.htmlsplitter (and the stop-word elements)

Strings are lists of code points (`Str`, see `ParseTree.lean`).

## Character tables (`Tables`)
`isWord c` – does the regex `\w` (str pattern, Unicode) match the one-character string;
`lower c`  – `chr(c).lower()` (may be several code points: U+0130 ↦ `i` U+0307).
They are DATA: the harness computes them from CPython for the alphabet in use and sends them as
`cfg` lines; every theorem is parametric in them.  ASSUMPTION (trusted, see `props/c15.py`):
`str.lower()` acts code point by code point; CPython satisfies this for every code point except
U+03A3 (final-sigma rule), which the generators' alphabet leaves out.

## Pipeline elements (`Elem`)
* `Splitter`: `process` = `(?u)\w+` `findall`, `processGlob` = `(?u)\w+[\w*?]*` `findall`.  Both are
  instances of one scanner `tokens start cont` for a regex `S C*` (`S ⊆ C` character classes).
* `CaseNormalizer`: `[w.lower() for w in lst]` (no `processGlob`: `parseTerms` uses `process`).
* `StopWordRemover`: `[w for w in lst if w not in dict]`; the dictionary is a parameter.
* `StopWordAndSingleCharRemover`: the same with `chr(c)`, `c in range(255)`, added to the dictionary.
* `HTMLWordSplitter`: per chunk `MARKUP.sub(' ', chunk.lower())`, then `\w+` / `\w+[\w*?]*`;
  `MARKUP = (<[^<>]*>|&[A-Za-z]+;)`.

## Lexicon
`State` = (`_wids` word ↦ id, `_words` id ↦ word, `word_count` Length).  `_new_wid` increments the
counter and then skips ids that are taken (`skipTaken`; the loop's bound – one probe more than there
are ids – is never what stops it: `skipTaken_free` in `Lemmas/LexiconInv.lean`).
`sourceToWordIds` is the only call that writes; `termToWordIds`, `parseTerms`, `isGlob`,
`globToWordIds`, `get_word`, `get_wid` are functions of the state.

`globToWordIds`: literal prefix = the characters before the first `*`/`?`; no glob character →
plain lookup; empty prefix → `QueryError`; otherwise the regex `re.escape(prefix)` + (`*` ↦ `.*`,
`?` ↦ `.`, other ↦ escaped literal) + `\Z`, compiled with `re.DOTALL`, is `match`ed against the
keys of `self._wids.keys(prefix)` (keys ≥ prefix in code-point order) until the first key that does
not start with the prefix.  Assumed of `re`: an escaped character matches itself, `.` (DOTALL)
any one character, `.*` any run, `\Z` only at the end, `match` anchors at the start (`matchPat`).
-/
namespace Hyp.Lex
open Hyp.QP (Str)

/-! ## character tables -/

structure Tables where
  /-- `re.match(r"\w", chr(c))` -/
  isWord : Nat → Bool
  /-- `chr(c).lower()` -/
  lower : Nat → Str

def STAR : Nat := 42    -- '*'
def QM : Nat := 63      -- '?'
def LT : Nat := 60      -- '<'
def GT : Nat := 62      -- '>'
def AMP : Nat := 38     -- '&'
def SEMI : Nat := 59    -- ';'
def SPACE : Nat := 32

def isGlobChar (c : Nat) : Bool := c == STAR || c == QM

/-- `s.lower()` -/
def lowerStr (t : Tables) (s : Str) : Str := s.flatMap t.lower

/-! ## `findall` for a regex `S C*` -/

/-- scanner state: `none` = between tokens, `some w` = inside a token (`w` reversed) -/
def tokensAux (start cont : Nat → Bool) : Str → Option Str → List Str
  | [], none => []
  | [], some w => [w.reverse]
  | c :: cs, none => if start c then tokensAux start cont cs (some [c]) else tokensAux start cont cs none
  | c :: cs, some w =>
    if cont c then tokensAux start cont cs (some (c :: w))
    else w.reverse :: (if start c then tokensAux start cont cs (some [c]) else tokensAux start cont cs none)

/-- `re.compile("S C*").findall(s)` -/
def tokens (start cont : Nat → Bool) (s : Str) : List Str := tokensAux start cont s none

/-- `Splitter.rx.findall(s)`, `htmlsplitter.WORDS.findall(s)`: `\w+` -/
def splitWords (t : Tables) (s : Str) : List Str := tokens t.isWord t.isWord s

/-- `Splitter.rxGlob.findall(s)`, `htmlsplitter.GLOBS.findall(s)`: `\w+[\w*?]*` -/
def splitGlobs (t : Tables) (s : Str) : List Str :=
  tokens t.isWord (fun c => t.isWord c || isGlobChar c) s

/-! ## `MARKUP.sub(' ', text)` -/

def isAsciiLetter (c : Nat) : Bool := (65 ≤ c && c ≤ 90) || (97 ≤ c && c ≤ 122)

/-- `[^<>]*>` at the head: number of characters matched -/
def tagTail : Str → Option Nat
  | [] => none
  | c :: cs =>
    if c == GT then some 1
    else if c == LT then none
    else (tagTail cs).map (· + 1)

/-- `[A-Za-z]*;` at the head: number of characters matched -/
def entTail : Str → Option Nat
  | [] => none
  | c :: cs =>
    if c == SEMI then some 1
    else if isAsciiLetter c then (entTail cs).map (· + 1)
    else none

/-- `(<[^<>]*>|&[A-Za-z]+;)` at the head of `c :: cs`: length of the match -/
def markupLen (c : Nat) (cs : Str) : Option Nat :=
  if c == LT then (tagTail cs).map (· + 1)
  else if c == AMP then
    match cs with
    | d :: ds => if isAsciiLetter d then (entTail ds).map (· + 2) else none
    | [] => none
  else none

/-- `MARKUP.sub(' ', s)`; `skip` = characters of the current match still to be dropped -/
def stripAux : Str → Nat → Str
  | [], _ => []
  | _ :: cs, k + 1 => stripAux cs k
  | c :: cs, 0 =>
    match markupLen c cs with
    | some n => SPACE :: stripAux cs (n - 1)
    | none => c :: stripAux cs 0

def stripMarkup (s : Str) : Str := stripAux s 0

/-! ## pipeline elements -/

inductive Elem where
  | splitter
  | caseNorm
  | stop (dict : List Str)
  | stopSingle (dict : List Str)
  | html
deriving Repr, DecidableEq

/-- `chr(c) for c in range(255)` -/
def isSingle (w : Str) : Bool :=
  match w with
  | [c] => c < 255
  | _ => false

/-- `element.process(lst)` -/
def process (t : Tables) : Elem → List Str → List Str
  | .splitter, l => l.flatMap (splitWords t)
  | .caseNorm, l => l.map (lowerStr t)
  | .stop d, l => l.filter (fun w => !d.contains w)
  | .stopSingle d, l => l.filter (fun w => !(d.contains w || isSingle w))
  | .html, l => l.flatMap (fun s => splitWords t (stripMarkup (lowerStr t s)))

/-- `getattr(element, "processGlob", element.process)(lst)` -/
def processGlob (t : Tables) : Elem → List Str → List Str
  | .splitter, l => l.flatMap (splitGlobs t)
  | .html, l => l.flatMap (fun s => splitGlobs t (stripMarkup (lowerStr t s)))
  | e, l => process t e l

/-- `for element in self._pipeline: last = element.process(last)` -/
def runPipeline (t : Tables) (p : List Elem) (l : List Str) : List Str :=
  p.foldl (fun acc e => process t e acc) l

def runPipelineGlob (t : Tables) (p : List Elem) (l : List Str) : List Str :=
  p.foldl (fun acc e => processGlob t e acc) l

/-- the configuration of a lexicon: character tables and `Lexicon(*pipeline)` -/
structure Cfg where
  tables : Tables
  pipeline : List Elem

/-! ## the lexicon -/

structure State where
  /-- `_wids` -/
  wids : AMap Str Nat := []
  /-- `_words` -/
  words : AMap Nat Str := []
  /-- `word_count` (a `Length`) -/
  count : Nat := 0
deriving Repr

/-- `while count() in self._words: count.change(1)`; `probes` bounds the loop by the number of ids
that can be taken plus one -/
def skipTaken (taken : List Nat) : Nat → Nat → Nat
  | 0, c => c
  | n + 1, c => if taken.contains c then skipTaken taken n (c + 1) else c

/-- `_new_wid` -/
def newWid (s : State) : Nat :=
  let taken := AMap.keys s.words
  skipTaken taken (taken.length + 1) (s.count + 1)

/-- `_getWordIdCreate` -/
def getWordIdCreate (s : State) (w : Str) : State × Nat :=
  match AMap.get s.wids w with
  | some wid => (s, wid)
  | none =>
    let wid := newWid s
    ({ wids := AMap.set s.wids w wid, words := AMap.set s.words wid w, count := wid }, wid)

/-- `[self._getWordIdCreate(x) for x in last]` -/
def createAll : State → List Str → State × List Nat
  | s, [] => (s, [])
  | s, w :: ws =>
    let (s1, i) := getWordIdCreate s w
    let (s2, is) := createAll s1 ws
    (s2, i :: is)

/-- `sourceToWordIds(text)`; `text` already through `_text2list` (a `str` is the one-element list;
`None` is `''`) -/
def sourceToWordIds (cfg : Cfg) (s : State) (text : List Str) : State × List Nat :=
  createAll s (runPipeline cfg.tables cfg.pipeline text)

/-- `self._wids.get(word, 0)` / `get_wid` -/
def getWid (s : State) (w : Str) : Nat := (AMap.get s.wids w).getD 0

/-- `termToWordIds(text)` -/
def termToWordIds (cfg : Cfg) (s : State) (text : List Str) : List Nat :=
  (runPipeline cfg.tables cfg.pipeline text).map (getWid s)

/-- `parseTerms(text)` -/
def parseTerms (cfg : Cfg) (text : List Str) : List Str :=
  runPipelineGlob cfg.tables cfg.pipeline text

/-- `isGlob(word)` -/
def isGlob (w : Str) : Bool := w.contains STAR || w.contains QM

/-- `get_word(wid)`: `none` = `KeyError` -/
def getWord (s : State) (wid : Nat) : Option Str := AMap.get s.words wid

/-- `word_count()` -/
def wordCount (s : State) : Nat := s.count

/-! ## globs -/

/-- the three regex constructs `globToWordIds` emits -/
inductive Pat where
  | lit (c : Nat)     -- `re.escape(c)`
  | anyOne            -- `.`  (DOTALL)
  | anyRun            -- `.*`
deriving Repr, DecidableEq

/-- the `for c in pattern` loop -/
def translate (rest : Str) : List Pat :=
  rest.map (fun c => if c == STAR then .anyRun else if c == QM then .anyOne else .lit c)

/-- does `f` hold for some suffix of the string (the positions `.*` can stop at) -/
def anySuffix (f : Str → Bool) : Str → Bool
  | [] => f []
  | c :: cs => f (c :: cs) || anySuffix f cs

/-- `re.compile(pat + r"\Z", re.DOTALL).match(s) is not None` -/
def matchPat : List Pat → Str → Bool
  | [], s => s.isEmpty
  | .lit c :: p, s =>
    match s with
    | x :: s' => x == c && matchPat p s'
    | [] => false
  | .anyOne :: p, s =>
    match s with
    | _ :: s' => matchPat p s'
    | [] => false
  | .anyRun :: p, s => anySuffix (matchPat p) s

/-- `a <= b` for `str` (code-point lexicographic) -/
def leStr : Str → Str → Bool
  | [], _ => true
  | _ :: _, [] => false
  | a :: as, b :: bs => a < b || (a == b && leStr as bs)

inductive Err where
  | queryError
  | keyError
deriving Repr, DecidableEq

/-- `globToWordIds(pattern)` -/
def globToWordIds (s : State) (pattern : Str) : Except Err (List Nat) :=
  let pre := pattern.takeWhile (fun c => !isGlobChar c)
  let rest := pattern.dropWhile (fun c => !isGlobChar c)
  if rest.isEmpty then
    -- no globbing characters
    let wid := getWid s pre
    if wid != 0 then .ok [wid] else .ok []
  else if pre.isEmpty then .error .queryError      -- "shouldn't start with glob character"
  else
    let pat := pre.map Pat.lit ++ translate rest
    -- self._wids.keys(prefix): keys >= prefix, in order
    let keys := (Sort.isort leStr (AMap.keys s.wids)).dropWhile (fun k => !leStr pre k)
    -- for key in keys: if not key.startswith(prefix): break
    let scanned := keys.takeWhile (fun k => pre.isPrefixOf k)
    .ok ((scanned.filter (matchPat pat)).map (getWid s))

end Hyp.Lex
