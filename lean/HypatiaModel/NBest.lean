/-!
# hypatia.nbest.NBest

`_scores` / `_items` are parallel lists that only ever receive the same `insert(i, ·)`,
`del [0]` and `pop(0)`; the model keeps them as one list of `(item, score)` pairs, ascending
by score (`l[i] = (_items[i], _scores[i])`).

`bisect_left(scores, score)` on an ascending list is the number of entries `< score`
(the binary search is CPython's; `insertAsc` is the insertion "in front of the first entry that
is not `< score`", which is where that index points on an ascending list – and the list is always
ascending, lemma `asc_run`).
A new entry therefore goes in *front* of entries with an equal score; `getbest` reverses the
list, so among equal scores the earlier entry is reported first, and `del [0]` / `pop(0)`
remove the *latest* of the entries with the smallest score.
-/
namespace Hyp.NBest

inductive Err where
  | valueError   -- NBest(N) with N < 1
  | indexError   -- pop_smallest() on an empty collector
deriving Repr, DecidableEq

structure State (ι σ : Type) where
  cap : Nat
  /-- ascending by score; `l[i] = (_items[i], _scores[i])` -/
  l : List (ι × σ) := []

variable {ι σ : Type} [LT σ] [DecidableLT σ] [LE σ] [DecidableLE σ]

/-- `NBest(N)` -/
def new (N : Int) : Except Err (State ι σ) :=
  if N < 1 then .error .valueError else .ok { cap := N.toNat }

/-- `i = bisect_left(scores, score); scores.insert(i, score); items.insert(i, item)` -/
def insertAsc (p : ι × σ) : List (ι × σ) → List (ι × σ)
  | [] => [p]
  | e :: es => if e.2 < p.2 then e :: insertAsc p es else p :: e :: es

/-- `n >= capacity and score <= scores[0]` (the local `n` always equals `len(scores)`) -/
def skips (s : State ι σ) (p : ι × σ) : Bool :=
  match s.l with
  | [] => false          -- n >= capacity cannot hold (capacity >= 1), `scores[0]` is not evaluated
  | e :: _ => decide (s.l.length ≥ s.cap) && decide (p.2 ≤ e.2)

/-- one iteration of the loop of `addmany` -/
def add (s : State ι σ) (p : ι × σ) : State ι σ :=
  if skips s p then s
  else
    let l' := insertAsc p s.l
    if s.l.length = s.cap then { s with l := l'.tail } else { s with l := l' }

omit [LE σ] [DecidableLE σ] in
theorem length_insertAsc (p : ι × σ) (l : List (ι × σ)) : (insertAsc p l).length = l.length + 1 := by
  induction l with
  | nil => rfl
  | cons e es ih => unfold insertAsc; split <;> simp [ih]

/-- an `add` never grows the collector by more than one entry (why `mass_weightedUnion`'s loop ends) -/
theorem length_add_le (s : State ι σ) (p : ι × σ) : (add s p).l.length ≤ s.l.length + 1 := by
  unfold add
  have := length_insertAsc p s.l
  cases h : skips s p with
  | true => simp
  | false =>
    by_cases h2 : s.l.length = s.cap
    · simp [h2]; omega
    · simp [h2, this]

/-- `addmany(sequence)` -/
def addMany (s : State ι σ) (ps : List (ι × σ)) : State ι σ := ps.foldl add s

/-- `getbest()`: best first -/
def getBest (s : State ι σ) : List (ι × σ) := s.l.reverse

/-- `len(nbest)` -/
def len (s : State ι σ) : Nat := s.l.length

/-- `pop_smallest()` -/
def popSmallest (s : State ι σ) : Except Err ((ι × σ) × State ι σ) :=
  match s.l with
  | [] => .error .indexError
  | e :: es => .ok (e, { s with l := es })

/-- operations of a session on one collector -/
inductive Op (ι σ : Type) where
  | addMany (ps : List (ι × σ))
  | pop

/-- state after an operation (a failing `pop_smallest` leaves the collector unchanged) -/
def step (s : State ι σ) : Op ι σ → State ι σ
  | .addMany ps => addMany s ps
  | .pop => match popSmallest s with
    | .ok (_, s') => s'
    | .error _ => s

def run (s : State ι σ) (ops : List (Op ι σ)) : State ι σ := ops.foldl step s

end Hyp.NBest
