/-!
# hypatia.text.parsetree

Parse-tree nodes and the *structure* of `executeQuery`.

Strings are lists of code points (`Nat`), as in `Widcode.lean` (a Python `str` may hold
lone surrogates, a Lean `String` may not).  `Tree` has one constructor per node class:
`AtomNode`, `PhraseNode`, `GlobNode`, `NotNode`, `AndNode`, `OrNode`.

`exec` mirrors `executeQuery` of every node class over an abstract index
(`search`, `search_phrase`, `search_glob`, and the three set operations used):
`NotNode.executeQuery` raises `QueryError`, `AndNode.executeQuery` unwraps `NotNode`
children itself (in *any* position), results `None` ("matches every document") are
dropped.  The index primitives are total functions here: what they may raise is the
business of the index/lexicon properties (C03/C15), not of the parser.
-/
namespace Hyp.QP

/-- a Python `str`: list of code points -/
abbrev Str := List Nat

inductive Tree where
  | atom (w : Str)
  | phrase (ws : List Str)
  | glob (p : Str)
  | notN (t : Tree)
  | andN (ts : List Tree)
  | orN (ts : List Tree)
deriving Repr, Inhabited

namespace Tree

/-- `isinstance(t, parsetree.NotNode)` / `t.nodeType() == "NOT"` -/
def isNot : Tree → Bool
  | .notN _ => true
  | _ => false

end Tree

/-- the only exception `parsetree.py` raises while executing -/
inductive ExecErr where
  | queryError
deriving Repr, DecidableEq

/-- what `executeQuery` uses of the index; `R` is the type of weighted result sets -/
structure Index (R : Type) where
  /-- `index.search(word)`: `None` when the word has no word ids (matches every document) -/
  search : Str → Option R
  /-- `index.search_phrase(words)` -/
  searchPhrase : List Str → R
  /-- `index.search_glob(pattern)` -/
  searchGlob : Str → R
  /-- `mass_weightedIntersection([(r,1)…], family)` -/
  inter : List R → R
  /-- `mass_weightedUnion([(r,1)…], family)` -/
  union : List R → R
  /-- `family.IF.difference(a, b)` -/
  diff : R → R → R

mutual
/-- `node.executeQuery(index)`; `none` is Python's `None` -/
def exec {R : Type} (ix : Index R) : Tree → Except ExecErr (Option R)
  | .atom w => .ok (ix.search w)
  | .phrase ws => .ok (some (ix.searchPhrase ws))
  | .glob p => .ok (some (ix.searchGlob p))
  | .notN _ => .error .queryError      -- "NOT parse tree node cannot be executed directly"
  | .andN ts =>
    match execAnd ix ts with
    | .error e => .error e
    | .ok (L, nots) =>
      let set := ix.inter L
      .ok (some (if nots.isEmpty then set else ix.diff set (ix.union nots)))
  | .orN ts =>
    match execOr ix ts with
    | .error e => .error e
    | .ok L => .ok (some (ix.union L))

/-- the `for subnode in self.getValue()` loop of `AndNode.executeQuery`: (L, Nots) -/
def execAnd {R : Type} (ix : Index R) : List Tree → Except ExecErr (List R × List R)
  | [] => .ok ([], [])
  | .notN t :: rest =>
    match exec ix t with
    | .error e => .error e
    | .ok r =>
      match execAnd ix rest with
      | .error e => .error e
      | .ok (L, nots) => .ok (L, (match r with | some x => [x] | none => []) ++ nots)
  | t :: rest =>
    match exec ix t with
    | .error e => .error e
    | .ok r =>
      match execAnd ix rest with
      | .error e => .error e
      | .ok (L, nots) => .ok ((match r with | some x => [x] | none => []) ++ L, nots)

/-- the loop of `OrNode.executeQuery` -/
def execOr {R : Type} (ix : Index R) : List Tree → Except ExecErr (List R)
  | [] => .ok []
  | t :: rest =>
    match exec ix t with
    | .error e => .error e
    | .ok r =>
      match execOr ix rest with
      | .error e => .error e
      | .ok L => .ok ((match r with | some x => [x] | none => []) ++ L)
end

end Hyp.QP
