/-!
# Persistence abstraction for C09

Two layers.

**Txn log (specification level).**  A history of catalog operations interleaved with
`commit / abort / savepoint / rollback j / evict / reopen`.  `effective` = the operations whose
effects an observer must see: those of committed transactions followed by the surviving
prefix of the running one.  An operation that raised in the middle (`failop`) poisons the
transaction; the property only speaks about it being aborted or rolled back.

**Cell store (what ZODB does, abstractly).**  Persistent objects are cells with a committed
value (`disk`), savepoint layers (`layers`, ZODB's TmpStore), an in-memory value (`cur`) and a
registration flag (`dirty`).  An operation is a list of *actions* on cells; an action either
notifies the persistence machinery (`notify = true`: `obj[k] = v`, `obj.attr = v`, any BTrees /
Length / Set mutation) or not (`notify = false`: in-place mutation of a plain dict/list held
inside a persistent container – the `_wordinfo` dict values below `DICT_CUTOFF`).  Commit,
abort, savepoint, rollback, eviction and reopen act on cells exactly as ZODB does: only
registered cells are written, invalidated or kept.
-/
namespace Hyp.Persist

/-! ## specification level: which operations survive -/

inductive Cmd where
  | op (k : Nat)            -- a catalog operation (identified by its position in the history)
  | failop (k : Nat)        -- an operation that raised part-way
  | commit | abort
  | savepoint
  | rollback (j : Nat)      -- roll back to the j-th live savepoint of this transaction
  | evict                   -- cacheMinimize
  | reopen                  -- abort + close + reopen from the storage file with an empty cache
deriving Repr, DecidableEq

structure Log where
  committed : List Nat := []
  pending : List Nat := []
  saves : List (List Nat) := []
  poisoned : Bool := false
deriving Repr

inductive Outcome where
  | ok | badSavepoint | poisonedCommit
deriving Repr, DecidableEq

def Log.step (l : Log) : Cmd → Log × Outcome
  | .op k => ({ l with pending := l.pending ++ [k] }, .ok)
  | .failop _ => ({ l with poisoned := true }, .ok)
  | .commit =>
    if l.poisoned then (l, .poisonedCommit)     -- outside the property: partial effects would persist
    else ({ committed := l.committed ++ l.pending }, .ok)
  | .abort => ({ committed := l.committed }, .ok)
  | .savepoint => ({ l with saves := l.saves ++ [l.pending] }, .ok)
  | .rollback j =>
    match l.saves[j]? with
    | some p => ({ l with pending := p, saves := l.saves.take (j + 1), poisoned := false }, .ok)
    | none => (l, .badSavepoint)
  | .evict => (l, .ok)
  | .reopen => ({ committed := l.committed }, .ok)

def Log.effective (l : Log) : List Nat := l.committed ++ l.pending

def Log.run (cmds : List Cmd) : Log := cmds.foldl (fun l c => (l.step c).1) {}

end Hyp.Persist

namespace Hyp.Persist

/-! ## cell store: ZODB's treatment of persistent objects, abstractly -/

abbrev Val := Int
abbrev Store := Nat → Val

structure Action where
  cell : Nat
  f : Val → Val
  notify : Bool

/-- an operation of an index = the list of actions it performs on persistent cells -/
abbrev Block := List Action

structure Low where
  disk : Store
  layers : List (List (Nat × Val)) := []      -- savepoint overlays, oldest first (TmpStore)
  cur : Store
  dirty : List Nat := []                       -- registered with the transaction since the last savepoint

def upd (σ : Store) (c : Nat) (v : Val) : Store := fun x => if x = c then v else σ x

/-- what a (re)load of cell `c` returns given the first `n` savepoint layers -/
def stored (disk : Store) (layers : List (List (Nat × Val))) (c : Nat) : Val :=
  layers.foldl (fun acc layer => match layer.lookup c with | some v => v | none => acc) (disk c)

def Low.act (s : Low) (a : Action) : Low :=
  { s with cur := upd s.cur a.cell (a.f (s.cur a.cell)),
           dirty := if a.notify && !s.dirty.contains a.cell then a.cell :: s.dirty else s.dirty }

def Low.block (s : Low) (b : Block) : Low := b.foldl Low.act s

def layerCells (layers : List (List (Nat × Val))) : List Nat := layers.flatMap (fun l => l.map (·.1))

/-- `transaction.savepoint()`: registered objects are written to the temporary store -/
def Low.savepoint (s : Low) : Low :=
  { s with layers := s.layers ++ [s.dirty.map (fun c => (c, s.cur c))], dirty := [] }

/-- `savepoint.rollback()`: registered objects and everything in the temporary store are invalidated;
they reload from the store as of that savepoint.  Unregistered cells keep their in-memory value. -/
def Low.rollback (s : Low) (j : Nat) : Low :=
  let keep := s.layers.take (j + 1)
  let invalid := s.dirty ++ layerCells s.layers
  { s with layers := keep,
           cur := fun c => if invalid.contains c then stored s.disk keep c else s.cur c,
           dirty := [] }

/-- `commit`: registered objects are written from memory, savepointed objects from the temporary store -/
def Low.commit (s : Low) : Low :=
  { disk := fun c => if s.dirty.contains c then s.cur c else stored s.disk s.layers c,
    layers := [], cur := s.cur, dirty := [] }

/-- `abort`: registered / savepointed objects are invalidated and reload from the committed storage -/
def Low.abort (s : Low) : Low :=
  let invalid := s.dirty ++ layerCells s.layers
  { disk := s.disk, layers := [],
    cur := fun c => if invalid.contains c then s.disk c else s.cur c, dirty := [] }

/-- `cacheMinimize`: unregistered objects become ghosts and reload on next access -/
def Low.evict (s : Low) : Low :=
  { s with cur := fun c => if s.dirty.contains c then s.cur c else stored s.disk s.layers c }

/-- abort, close, reopen with an empty cache -/
def Low.reopen (s : Low) : Low := { disk := s.disk, layers := [], cur := s.disk, dirty := [] }

/-- abstract effect of a block on a store: the functions are applied, notification is irrelevant -/
def absBlock (σ : Store) (b : Block) : Store := b.foldl (fun σ a => upd σ a.cell (a.f (σ a.cell))) σ
def absRun (σ : Store) (bs : List Block) : Store := bs.foldl absBlock σ

/-- every cell a block touches is also notified by it ("not redundant: Persistency!") -/
def Disciplined (b : Block) : Prop := ∀ a ∈ b, ∃ a' ∈ b, a'.cell = a.cell ∧ a'.notify = true

/-- commands over blocks -/
inductive LCmd where
  | op (b : Block) | failop (b : Block)
  | commit | abort | savepoint | rollback (j : Nat) | evict | reopen

def Low.step (s : Low) : LCmd → Low
  | .op b => s.block b
  | .failop b => s.block b
  | .commit => s.commit
  | .abort => s.abort
  | .savepoint => s.savepoint
  | .rollback j => s.rollback j
  | .evict => s.evict
  | .reopen => s.reopen

/-- the same history at specification level (a log of blocks) -/
structure BLog where
  committed : List Block := []
  pending : List Block := []
  saves : List (List Block) := []
  poisoned : Bool := false

def BLog.step (l : BLog) : LCmd → BLog
  | .op b => { l with pending := l.pending ++ [b] }
  | .failop _ => { l with poisoned := true }
  | .commit => { committed := l.committed ++ l.pending }
  | .abort => { committed := l.committed }
  | .savepoint => { l with saves := l.saves ++ [l.pending] }
  | .rollback j =>
    match l.saves[j]? with
    | some p => { l with pending := p, saves := l.saves.take (j + 1), poisoned := false }
    | none => l
  | .evict => l
  | .reopen => { committed := l.committed }

/-- the command sequences the property quantifies over: blocks are disciplined; after an operation
that raised, the transaction is aborted, rolled back to a live savepoint, or the database reopened -/
def BLog.valid (l : BLog) : LCmd → Prop
  | .op b => Disciplined b ∧ l.poisoned = false
  | .failop b => Disciplined b
  | .commit => l.poisoned = false
  | .abort => True
  | .savepoint => l.poisoned = false
  | .rollback j => j < l.saves.length
  | .evict => l.poisoned = false
  | .reopen => True

end Hyp.Persist
