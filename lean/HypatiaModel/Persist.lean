/-!
# Persistence abstraction for C09

Two layers.

**Txn log (specification level).**  A history of catalog operations interleaved with
`commit / abort / savepoint / rollback j / evict / reopen`.  `effective` = the operations whose
effects an observer must see: those of committed transactions followed by the surviving
prefix of the running one.  An operation that raised in the middle (`failop`) poisons the
transaction; the property only speaks about it being aborted or rolled back.

**Cell store (what ZODB does, abstractly).**  Persistent objects are cells with a committed
value (`disk`), savepoint layers (`layers`, ZODB's TmpStore), an in-memory value (`cur`) and a
registration flag (`dirty`).  An operation is a list of *actions* on cells; an action either
notifies the persistence machinery (`notify = true`: `obj[k] = v`, `obj.attr = v`, any BTrees /
Length / Set mutation) or not (`notify = false`: in-place mutation of a plain dict/list held
inside a persistent container – the `_wordinfo` dict values below `DICT_CUTOFF`).  Commit,
abort, savepoint, rollback, eviction and reopen act on cells exactly as ZODB does: only
registered cells are written, invalidated or kept.
-/
namespace Hyp.Persist

/-! ## specification level: which operations survive -/

inductive Cmd where
  | op (k : Nat)            -- a catalog operation (identified by its position in the history)
  | failop (k : Nat)        -- an operation that raised part-way
  | commit | abort
  | savepoint
  | rollback (j : Nat)      -- roll back to the j-th live savepoint of this transaction
  | evict                   -- cacheMinimize
  | reopen                  -- abort + close + reopen from the storage file with an empty cache
deriving Repr, DecidableEq

structure Log where
  committed : List Nat := []
  pending : List Nat := []
  saves : List (List Nat) := []
  poisoned : Bool := false
deriving Repr

inductive Outcome where
  | ok | badSavepoint | poisonedCommit
deriving Repr, DecidableEq

def Log.step (l : Log) : Cmd → Log × Outcome
  | .op k => ({ l with pending := l.pending ++ [k] }, .ok)
  | .failop _ => ({ l with poisoned := true }, .ok)
  | .commit =>
    if l.poisoned then (l, .poisonedCommit)     -- outside the property: partial effects would persist
    else ({ committed := l.committed ++ l.pending }, .ok)
  | .abort => ({ committed := l.committed }, .ok)
  | .savepoint => ({ l with saves := l.saves ++ [l.pending] }, .ok)
  | .rollback j =>
    match l.saves[j]? with
    | some p => ({ l with pending := p, saves := l.saves.take (j + 1), poisoned := false }, .ok)
    | none => (l, .badSavepoint)
  | .evict => (l, .ok)
  | .reopen => ({ committed := l.committed }, .ok)

def Log.effective (l : Log) : List Nat := l.committed ++ l.pending

def Log.run (cmds : List Cmd) : Log := cmds.foldl (fun l c => (l.step c).1) {}

end Hyp.Persist
