import HypatiaModel.Persist
import HypatiaModel.ConcurrencyText

/-!
# C09 from the object level: the blocks of the modelled index operations

`Persist.lean` proves its refinement for histories whose operation blocks are `Disciplined`
(every cell a block touches is also notified in it).  Here the blocks are **derived** from the
object-level models of `ConcurrencyIndex.lean` / `ConcurrencyText.lean` instead of being written
by hand: an operation's block is the list of mutation steps the model operation appends to its log,

* field / keyword / facet index: every entry of `writes` – all containers are BTrees objects
  (`OOBTree`, `IOBTree`, `TreeSet`, `Set`, `Length`), each mutation is a method of the persistent
  object itself and registers it;
* text index: every entry of `log` – the in-place changes of a dict stored *inside* the
  `_wordinfo` bucket are plain steps (`notify = false`) on the bucket's cell, everything else
  notifies.

`blockOf cell eff steps` turns steps into `Persist.Action`s given any numbering `cell` of the
persistent objects and any effect `eff i` of the `i`-th step on the (abstract) cell value;
discipline depends on neither.
-/
namespace Hyp.Persist
open Hyp Hyp.CIdx

/-- a low-level step of an index operation: a mutation of persistent object `obj` (or of a plain
container stored inside it), announced to the persistence machinery or not -/
structure OStep (σ : Type) where
  obj : σ
  notify : Bool

def blockAux {σ : Type} (cell : σ → Nat) (eff : Nat → Val → Val) : Nat → List (OStep σ) → Block
  | _, [] => []
  | i, s :: rest => { cell := cell s.obj, f := eff i, notify := s.notify } :: blockAux cell eff (i + 1) rest

/-- the block of a step list -/
def blockOf {σ : Type} (cell : σ → Nat) (eff : Nat → Val → Val) (steps : List (OStep σ)) : Block :=
  blockAux cell eff 0 steps

/-- the entries a log (newest first) gained, oldest first -/
def gained {α : Type} (before after : List α) : List α := (after.take (after.length - before.length)).reverse

section Ops
variable {V K W Wt : Type} [DecidableEq V] [DecidableEq K] [DecidableEq W] [DecidableEq Wt]

/-- `FieldIndex.index_doc` / `unindex_doc` as low-level steps -/
def fieldSteps (x : FTx V) (op : TOp V) : List (OStep ObjId) :=
  (gained x.writes (x.step op).writes).map fun l => ⟨l.obj, true⟩

/-- `KeywordIndex.index_doc` / `unindex_doc` -/
def keywordSteps (c : KCfg) (x : KTx K) (op : TOp (List K)) : List (OStep ObjId) :=
  (gained x.writes (KTx.step c x op).writes).map fun l => ⟨l.obj, true⟩

/-- `FacetIndex.index_doc` / `unindex_doc` -/
def facetSteps (facets : List K) (x : KTx K) (op : TOp (List K)) : List (OStep ObjId) :=
  (gained x.writes (KTx.facetStep facets x op).writes).map fun l => ⟨l.obj, true⟩

/-- `TextIndex.index_doc` / `unindex_doc`: the in-place dict mutations are plain steps on the
`_wordinfo` bucket -/
def textSteps (c : TCfg Wt) (x : TTx W Wt) (op : TOp (List W)) : List (OStep TObj) :=
  (gained x.log (TTx.step c x op).log).map fun s => ⟨s.loc.obj, s.notify⟩

/-- one call of `_add_wordinfo` -/
def addWordinfoSteps (c : TCfg Wt) (x : TTx W Wt) (wid : Nat) (f : Wt) (d : Int) : List (OStep TObj) :=
  (gained x.log (TTx.addWordinfo c x wid f d).log).map fun s => ⟨s.loc.obj, s.notify⟩

/-- one call of `_mass_add_wordinfo` -/
def massAddSteps (c : TCfg Wt) (x : TTx W Wt) (d : Int) (w2w : AMap Nat Wt) : List (OStep TObj) :=
  (gained x.log (TTx.massAdd c x d w2w).log).map fun s => ⟨s.loc.obj, s.notify⟩

end Ops

end Hyp.Persist
