/-!
# Association-list maps and list sets

What hypatia assumes of a BTree / dict used as a *map*: `get`, `set`
(`m[k] = v`), `erase` (`del m[k]`), key enumeration.  Iteration order is not
part of this interface; where the code relies on ordered iteration the model
sorts explicitly (see `Prim/Sort.lean`).  Uniqueness of keys is a separate
invariant (`AMap.WF`), not a subtype.
-/
namespace Hyp

abbrev AMap (K V : Type) := List (K × V)

namespace AMap
variable {K V : Type} [DecidableEq K]

def get : AMap K V → K → Option V
  | [], _ => none
  | (k', v) :: rest, k => if k' = k then some v else get rest k

def erase (m : AMap K V) (k : K) : AMap K V := m.filter (fun p => !decide (p.1 = k))

def set (m : AMap K V) (k : K) (v : V) : AMap K V := (k, v) :: erase m k

def keys (m : AMap K V) : List K := m.map (·.1)

def contains (m : AMap K V) (k : K) : Bool := (get m k).isSome

/-- keys are pairwise distinct -/
def WF (m : AMap K V) : Prop := (keys m).Nodup

@[simp] theorem get_nil (k : K) : get ([] : AMap K V) k = none := rfl

theorem get_cons (k' : K) (v : V) (m : AMap K V) (k : K) :
    get ((k', v) :: m) k = if k' = k then some v else get m k := rfl

theorem get_erase (m : AMap K V) (k k' : K) :
    get (erase m k) k' = if k = k' then none else get m k' := by
  induction m with
  | nil => simp [erase]
  | cons p m ih =>
    obtain ⟨a, b⟩ := p
    unfold erase at ih ⊢
    by_cases h : a = k
    · subst h
      by_cases h2 : a = k'
      · subst h2; simp [List.filter, ih]
      · simp [List.filter, ih, get_cons, h2]
    · by_cases h2 : k = k'
      · subst h2
        simp [List.filter, h, get_cons, ih]
      · simp [List.filter, h, get_cons, ih, h2]

theorem get_set (m : AMap K V) (k : K) (v : V) (k' : K) :
    get (set m k v) k' = if k = k' then some v else get m k' := by
  unfold set
  rw [get_cons, get_erase]
  by_cases h : k = k' <;> simp [h]

theorem mem_keys_iff (m : AMap K V) (k : K) : k ∈ keys m ↔ (get m k).isSome := by
  induction m with
  | nil => simp [keys]
  | cons p m ih =>
    obtain ⟨a, b⟩ := p
    unfold keys at ih ⊢
    simp only [List.map_cons, List.mem_cons, get_cons]
    by_cases h : a = k
    · simp [h]
    · simp only [h, if_false]
      rw [← ih]
      constructor
      · rintro (h' | h')
        · exact absurd h'.symm h
        · exact h'
      · intro h'; exact Or.inr h'

theorem not_mem_keys_iff (m : AMap K V) (k : K) : k ∉ keys m ↔ get m k = none := by
  rw [mem_keys_iff]; cases get m k <;> simp

theorem keys_erase (m : AMap K V) (k : K) :
    keys (erase m k) = (keys m).filter (fun y => !decide (y = k)) := by
  induction m with
  | nil => rfl
  | cons p m ih =>
    obtain ⟨a, b⟩ := p
    unfold keys erase at ih ⊢
    by_cases h : a = k <;> simp [List.filter, h, ih]

theorem WF_nil : WF ([] : AMap K V) := by simp [WF, keys]

theorem WF_erase {m : AMap K V} (h : WF m) (k : K) : WF (erase m k) := by
  unfold WF at *
  rw [keys_erase]
  exact h.filter _

theorem WF_set {m : AMap K V} (h : WF m) (k : K) (v : V) : WF (set m k v) := by
  unfold WF set at *
  show ((k, v) :: erase m k |>.map (·.1)).Nodup
  simp only [List.map_cons, List.nodup_cons]
  refine ⟨?_, WF_erase h k⟩
  have := keys_erase m k
  unfold keys at this
  rw [this]
  simp

theorem mem_of_get {m : AMap K V} {k : K} {v : V} (h : get m k = some v) : (k, v) ∈ m := by
  induction m with
  | nil => simp at h
  | cons p m ih =>
    obtain ⟨a, b⟩ := p
    rw [get_cons] at h
    by_cases h2 : a = k
    · simp [h2] at h; subst h2; subst h; simp
    · simp [h2] at h; exact List.mem_cons_of_mem _ (ih h)

theorem get_of_mem {m : AMap K V} (hwf : WF m) {k : K} {v : V} (h : (k, v) ∈ m) :
    get m k = some v := by
  induction m with
  | nil => simp at h
  | cons p m ih =>
    obtain ⟨a, b⟩ := p
    rw [get_cons]
    unfold WF keys at hwf
    simp only [List.map_cons, List.nodup_cons] at hwf
    rcases List.mem_cons.mp h with h' | h'
    · injection h' with h1 h2; subst h1; subst h2; simp
    · have : a ≠ k := by
        intro e; subst e
        exact hwf.1 (List.mem_map.mpr ⟨(a, v), h', rfl⟩)
      simp only [this, if_false]
      exact ih hwf.2 h'

theorem length_keys (m : AMap K V) : (keys m).length = m.length := by simp [keys]

/-- erasing an existing key of a well-formed map removes exactly one entry -/
theorem length_erase_of_get {m : AMap K V} (hwf : WF m) {k : K} {v : V}
    (h : get m k = some v) : (erase m k).length + 1 = m.length := by
  induction m with
  | nil => simp at h
  | cons p m ih =>
    obtain ⟨a, b⟩ := p
    unfold WF keys at hwf
    simp only [List.map_cons, List.nodup_cons] at hwf
    rw [get_cons] at h
    by_cases h2 : a = k
    · subst h2
      have hn : get m a = none := (not_mem_keys_iff m a).mp hwf.1
      have : erase m a = m := by
        unfold erase
        apply List.filter_eq_self.mpr
        intro p hp
        obtain ⟨x, y⟩ := p
        simp only [ne_eq, decide_not, Bool.not_eq_eq_eq_not, Bool.not_true, decide_eq_false_iff_not]
        intro e; subst e
        have := get_of_mem (m := m) hwf.2 hp
        rw [hn] at this; cases this
      unfold erase at this ⊢
      simp [List.filter, this]
    · simp only [h2, if_false] at h
      have := ih hwf.2 h
      unfold erase at this ⊢
      simp [List.filter, h2]
      omega

theorem erase_of_get_none {m : AMap K V} {k : K} (h : get m k = none) : erase m k = m := by
  induction m with
  | nil => rfl
  | cons p m ih =>
    obtain ⟨a, b⟩ := p
    rw [get_cons] at h
    by_cases h2 : a = k
    · simp [h2] at h
    · simp only [h2, if_false] at h
      unfold erase at ih ⊢
      simp [List.filter, h2, ih h]

end AMap

/-! list sets of docids -/
namespace LSet
variable {α : Type} [DecidableEq α]

def insert (s : List α) (x : α) : List α := if x ∈ s then s else x :: s
def remove (s : List α) (x : α) : List α := s.filter (fun y => !decide (y = x))
def union (a b : List α) : List α := b.foldl insert a
def inter (a b : List α) : List α := a.filter (· ∈ b)
def diff (a b : List α) : List α := a.filter (· ∉ b)

theorem mem_insert (s : List α) (x y : α) : y ∈ insert s x ↔ y = x ∨ y ∈ s := by
  unfold insert
  by_cases h : x ∈ s
  · simp only [h, if_true]
    constructor
    · exact Or.inr
    · rintro (e | e)
      · exact e ▸ h
      · exact e
  · simp [h]

theorem mem_remove (s : List α) (x y : α) : y ∈ remove s x ↔ y ≠ x ∧ y ∈ s := by
  simp [remove, and_comm]

theorem mem_union (a b : List α) (y : α) : y ∈ union a b ↔ y ∈ a ∨ y ∈ b := by
  unfold union
  induction b generalizing a with
  | nil => simp
  | cons x b ih =>
    simp only [List.foldl_cons, ih, mem_insert, List.mem_cons]
    constructor
    · rintro ((h | h) | h)
      · exact Or.inr (Or.inl h)
      · exact Or.inl h
      · exact Or.inr (Or.inr h)
    · rintro (h | h | h)
      · exact Or.inl (Or.inr h)
      · exact Or.inl (Or.inl h)
      · exact Or.inr h

theorem mem_inter (a b : List α) (y : α) : y ∈ inter a b ↔ y ∈ a ∧ y ∈ b := by
  simp [inter]

theorem mem_diff (a b : List α) (y : α) : y ∈ diff a b ↔ y ∈ a ∧ y ∉ b := by
  simp [diff]

theorem nodup_insert {s : List α} (h : s.Nodup) (x : α) : (insert s x).Nodup := by
  unfold insert
  by_cases hx : x ∈ s <;> simp [hx, h]

theorem nodup_remove {s : List α} (h : s.Nodup) (x : α) : (remove s x).Nodup :=
  h.filter _

theorem nodup_union {a : List α} (h : a.Nodup) (b : List α) : (union a b).Nodup := by
  unfold union
  induction b generalizing a with
  | nil => simpa
  | cons x b ih => exact ih (nodup_insert h x)

theorem nodup_inter {a : List α} (h : a.Nodup) (b : List α) : (inter a b).Nodup := h.filter _
theorem nodup_diff {a : List α} (h : a.Nodup) (b : List α) : (diff a b).Nodup := h.filter _

theorem length_insert_of_not_mem {s : List α} {x : α} (h : x ∉ s) :
    (insert s x).length = s.length + 1 := by simp [insert, h]

theorem remove_of_not_mem {s : List α} {x : α} (h : x ∉ s) : remove s x = s := by
  unfold remove
  apply List.filter_eq_self.mpr
  intro y hy
  simp only [Bool.not_eq_eq_eq_not, Bool.not_true, decide_eq_false_iff_not]
  intro e; subst e; exact h hy

theorem length_remove_of_mem {s : List α} (hn : s.Nodup) {x : α} (h : x ∈ s) :
    (remove s x).length + 1 = s.length := by
  induction s with
  | nil => simp at h
  | cons a s ih =>
    simp only [List.nodup_cons] at hn
    by_cases e : a = x
    · subst e
      have h2 := remove_of_not_mem hn.1
      unfold remove at h2 ⊢
      simp [List.filter, h2]
    · have hx : x ∈ s := by
        rcases List.mem_cons.mp h with h' | h'
        · exact absurd h'.symm e
        · exact h'
      have := ih hn.2 hx
      unfold remove at this ⊢
      simp [List.filter, e]
      omega

end LSet

end Hyp
