/-!
Order laws assumed of index values ("mutually orderable values"): a linear order whose
`<` is the strict part of `≤`.  Kept as an explicit, Mathlib-free structure so that model
files stay executable; `Int` and `String`-like orders satisfy it.
-/
namespace Hyp

structure OrdLaws (V : Type) [LT V] [LE V] : Prop where
  le_refl : ∀ a : V, a ≤ a
  le_trans : ∀ a b c : V, a ≤ b → b ≤ c → a ≤ c
  le_antisymm : ∀ a b : V, a ≤ b → b ≤ a → a = b
  le_total : ∀ a b : V, a ≤ b ∨ b ≤ a
  lt_iff : ∀ a b : V, a < b ↔ (a ≤ b ∧ ¬ b ≤ a)

theorem OrdLaws.not_le {V : Type} [LT V] [LE V] (o : OrdLaws V) (a b : V) : ¬ a ≤ b ↔ b < a := by
  rw [o.lt_iff]
  constructor
  · intro h; exact ⟨(o.le_total a b).resolve_left h, h⟩
  · exact fun h => h.2

theorem OrdLaws.not_lt {V : Type} [LT V] [LE V] (o : OrdLaws V) (a b : V) : ¬ a < b ↔ b ≤ a := by
  rw [o.lt_iff]
  constructor
  · intro h
    rcases o.le_total a b with h1 | h1
    · exact Classical.byContradiction fun h2 => h ⟨h1, h2⟩
    · exact h1
  · intro h h2; exact h2.2 h

theorem intOrdLaws : OrdLaws Int where
  le_refl := Int.le_refl
  le_trans := fun _ _ _ => Int.le_trans
  le_antisymm := fun _ _ => Int.le_antisymm
  le_total := Int.le_total
  lt_iff := by intro a b; omega

end Hyp
