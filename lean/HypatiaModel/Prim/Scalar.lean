/-!
# Scalars: one definition, run over `Float`, proved over `ℝ`

Scoring code (`SetOps`, `Okapi`, `Cosine`, `TextIndex.apply`) is written once over a type `α`
with `[Scalar α]`.  The driver instantiates `α := Float` (IEEE double, the type CPython computes
in); the theorems of C08/C17/C20 instantiate `α := ℝ` (`HypatiaProofs/Lemmas/ScalarReal.lean`).
The class only names the operations; their laws are those of the instance in use.

`beq` is Python's `==` on numbers (`weight != 1` in `setops._trivial`, the zero guard of
`TextIndex.apply`), `ltb` is `<` (`TextIndex.sort`).
-/
namespace Hyp

class Scalar (α : Type) extends Add α, Mul α, Div α, Sub α where
  nat : Nat → α
  log : α → α
  sqrt : α → α
  beq : α → α → Bool
  ltb : α → α → Bool

instance : Scalar Float where
  nat := Float.ofNat
  log := Float.log
  sqrt := Float.sqrt
  beq a b := a == b
  ltb a b := a < b

namespace Scalar
variable {α : Type} [Scalar α]

/-- left-to-right sum, as a Python `for` loop with `+=` starting from `0` computes it -/
def sumFrom (z : α) (l : List α) : α := l.foldl (· + ·) z

end Scalar
end Hyp
