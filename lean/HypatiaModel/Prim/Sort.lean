/-!
# Stable insertion sort

Model of Python's `sorted(xs, key=…)` / `list.sort()` (stable) that the kernel can evaluate
(`List.mergeSort` is well-founded recursion and does not reduce under `decide`).
`le x y = true` means "x may stay in front of y".  `isort le` is stable: an element is
inserted in front of the first element it is `le` to, and elements are inserted from the
right, so equal elements keep their input order.  For a descending stable sort pass the
flipped comparison (`fun x y => le y x`), as `sorted(reverse=True)` also keeps equal
elements in input order.
-/
namespace Hyp.Sort
variable {α : Type}

def insertBy (le : α → α → Bool) (x : α) : List α → List α
  | [] => [x]
  | y :: ys => if le x y then x :: y :: ys else y :: insertBy le x ys

def isort (le : α → α → Bool) : List α → List α
  | [] => []
  | x :: xs => insertBy le x (isort le xs)

theorem insertBy_perm (le : α → α → Bool) (x : α) (l : List α) :
    (insertBy le x l).Perm (x :: l) := by
  induction l with
  | nil => exact List.Perm.refl _
  | cons y ys ih =>
    unfold insertBy
    split
    · exact List.Perm.refl _
    · exact (List.Perm.cons y ih).trans (List.Perm.swap x y ys)

theorem isort_perm (le : α → α → Bool) (l : List α) : (isort le l).Perm l := by
  induction l with
  | nil => exact List.Perm.refl _
  | cons x xs ih => exact (insertBy_perm le x _).trans (List.Perm.cons x ih)

theorem mem_isort (le : α → α → Bool) (l : List α) (a : α) : a ∈ isort le l ↔ a ∈ l :=
  (isort_perm le l).mem_iff

theorem length_isort (le : α → α → Bool) (l : List α) : (isort le l).length = l.length :=
  (isort_perm le l).length_eq

/-- `le` is a total preorder -/
structure TotalPreorder (le : α → α → Bool) : Prop where
  total : ∀ a b, le a b = true ∨ le b a = true
  trans : ∀ a b c, le a b = true → le b c = true → le a c = true

theorem insertBy_sorted {le : α → α → Bool} (tp : TotalPreorder le) (x : α) (l : List α)
    (h : l.Pairwise (fun a b => le a b = true)) :
    (insertBy le x l).Pairwise (fun a b => le a b = true) := by
  induction l with
  | nil => simp [insertBy]
  | cons y ys ih =>
    unfold insertBy
    rw [List.pairwise_cons] at h
    split
    · next hxy =>
      rw [List.pairwise_cons]
      refine ⟨?_, List.pairwise_cons.mpr h⟩
      intro a ha
      rcases List.mem_cons.mp ha with rfl | ha'
      · exact hxy
      · exact tp.trans _ _ _ hxy (h.1 a ha')
    · next hxy =>
      rw [List.pairwise_cons]
      refine ⟨?_, ih h.2⟩
      intro a ha
      have := (insertBy_perm le x ys).mem_iff.mp ha
      rcases List.mem_cons.mp this with rfl | ha'
      · rcases tp.total a y with h1 | h1
        · exact absurd h1 hxy
        · exact h1
      · exact h.1 a ha'

theorem isort_sorted {le : α → α → Bool} (tp : TotalPreorder le) (l : List α) :
    (isort le l).Pairwise (fun a b => le a b = true) := by
  induction l with
  | nil => simp [isort]
  | cons x xs ih => exact insertBy_sorted tp x _ ih

/-- inserting an element that fails `p` does not disturb the `p`-part -/
theorem filter_insertBy_neg (le : α → α → Bool) (p : α → Bool) (x : α) (l : List α)
    (hx : p x = false) : (insertBy le x l).filter p = l.filter p := by
  induction l with
  | nil => simp [insertBy, hx]
  | cons y ys ih =>
    unfold insertBy
    split
    · simp [List.filter, hx]
    · simp only [List.filter_cons, ih]

/-- **Stability**: restricted to a class of mutually equivalent elements (`le` both ways), the
sort keeps the input order. -/
theorem filter_isort_of_equiv (le : α → α → Bool) (p : α → Bool) (l : List α)
    (heq : ∀ a b, a ∈ l → b ∈ l → p a = true → p b = true → le a b = true) :
    (isort le l).filter p = l.filter p := by
  induction l with
  | nil => rfl
  | cons x xs ih =>
    have ih' := ih (fun a b ha hb => heq a b (List.mem_cons_of_mem _ ha) (List.mem_cons_of_mem _ hb))
    show (insertBy le x (isort le xs)).filter p = _
    cases hx : p x with
    | false => rw [filter_insertBy_neg le p x _ hx, ih']; simp [List.filter, hx]
    | true =>
      -- x is inserted in front of the first element of its class
      have key : ∀ m : List α, (∀ b ∈ m, p b = true → le x b = true) →
          (insertBy le x m).filter p = x :: m.filter p := by
        intro m hm
        induction m with
        | nil => simp [insertBy, hx]
        | cons y ys ihm =>
          unfold insertBy
          split
          · simp [List.filter, hx]
          · next hxy =>
            have hy : p y = false := by
              cases hpy : p y with
              | false => rfl
              | true => exact absurd (hm y (by simp) hpy) hxy
            simp only [List.filter_cons, hy]
            exact ihm (fun b hb => hm b (List.mem_cons_of_mem _ hb))
      rw [key _ (fun b hb hpb => heq x b (by simp) (List.mem_cons_of_mem _ ((mem_isort le xs b).mp hb)) hx hpb), ih']
      simp [List.filter, hx]

end Hyp.Sort
