import HypatiaModel.Prim.AMap
import HypatiaModel.Spec.FieldSpec

/-!
# hypatia.query  – query AST, `_apply`, `negate`, `_optimize`

Leaves are answered at *specification level*: a field index by `Field.Spec` over its
document table (justified by the C01 refinement), keyword/facet indexes by their keyword
table, a text index by token membership.  What is modelled from hypatia/query is the
composition: `BoolOp.__init__` flattening, `And._apply` / `Or._apply` with
`Query.intersect` / `Query.union` short-cuts, `negate` of every node, `Not._apply`,
and `_optimize` exactly as written (Eq/NotEq folding, the lowers/uppers pairing loops as
repaired, single-child collapse, re-construction through the flattening constructor).
`NotAll._apply` calls `applyAll` (finding D2) – mirrored here, not in `sem`.
-/
namespace Hyp.Query
open Hyp

inductive Cmp where
  | eq | noteq | gt | ge | lt | le | any | notany | all | notall | contains | notcontains
deriving DecidableEq, Repr, Inhabited

inductive Val where
  | one (x : Int)
  | many (xs : List Int)
deriving DecidableEq, Repr, Inhabited

inductive Q where
  | cmp (c : Cmp) (idx : Nat) (v : Val)
  | range (neg : Bool) (idx : Nat) (lo hi : Int) (exlo exhi : Bool)
  | and (qs : List Q)
  | or (qs : List Q)
  | not (q : Q)
deriving Repr, Inhabited

inductive Err where
  | attributeError | typeError | indexError | valueError
  | parseError | queryError      -- raised by a text index (hypatia.text.parsetree), see `QueryModel.lean`
deriving DecidableEq, Repr

inductive IndexT where
  | field (t : Field.Spec.Table Int)
  | keyword (t : AMap Int (Option (List Int)))
  | text (t : AMap Int (Option (List Int)))

abbrev Catalog := List IndexT
abbrev IdSet := List Int

/-! ## leaf semantics (specification level) -/

def kwKnown (t : AMap Int (Option (List Int))) : IdSet := AMap.keys t

def kwSat (t : AMap Int (Option (List Int))) (p : List Int → Bool) : IdSet :=
  (kwKnown t).filter (fun d => match (AMap.get t d).bind id with | some ks => p ks | none => false)

def kwNeg (t : AMap Int (Option (List Int))) (pos : IdSet) : IdSet :=
  (kwKnown t).filter (fun d => !decide (d ∈ pos))

def valList : Val → List Int
  | .one x => [x]
  | .many xs => xs

/-- `index.applyX(value)` for the index kinds and the comparators they implement;
`AttributeError` where the class has no such method. -/
def leafPos (ix : IndexT) (c : Cmp) (v : Val) : Except Err IdSet :=
  match ix, c, v with
  | .field t, .eq, .one x => .ok (Field.Spec.eq t x)
  | .field t, .gt, .one x => .ok (Field.Spec.gt t x)
  | .field t, .ge, .one x => .ok (Field.Spec.ge t x)
  | .field t, .lt, .one x => .ok (Field.Spec.lt t x)
  | .field t, .le, .one x => .ok (Field.Spec.le t x)
  | .field t, .any, v => .ok (Field.Spec.any t (valList v))
  | .field _, .all, _ => .error .attributeError
  | .field _, .contains, _ => .error .attributeError
  | .keyword t, .eq, .one x => .ok (kwSat t (fun ks => decide (x ∈ ks)))
  | .keyword t, .any, v => .ok (kwSat t (fun ks => (valList v).any (fun x => decide (x ∈ ks))))
  | .keyword t, .all, v =>
      .ok (if (valList v).isEmpty then [] else kwSat t (fun ks => (valList v).all (fun x => decide (x ∈ ks))))
  | .keyword _, .gt, _ => .error .attributeError
  | .keyword _, .ge, _ => .error .attributeError
  | .keyword _, .lt, _ => .error .attributeError
  | .keyword _, .le, _ => .error .attributeError
  | .keyword _, .contains, _ => .error .attributeError
  | .text t, .contains, .one x => .ok (kwSat t (fun ks => decide (x ∈ ks)))
  | .text t, .eq, .one x => .ok (kwSat t (fun ks => decide (x ∈ ks)))
  | .text _, _, _ => .error .attributeError
  | _, _, _ => .error .typeError

def known : IndexT → IdSet
  | .field t => Field.Spec.known t
  | .keyword t => kwKnown t
  | .text t => kwKnown t

def negOf (ix : IndexT) (pos : IdSet) : IdSet := (known ix).filter (fun d => !decide (d ∈ pos))

/-- the positive comparator a negative one is `_negate`d from -/
def Cmp.positive : Cmp → Option Cmp
  | .noteq => some .eq
  | .notany => some .any
  | .notall => some .all
  | .notcontains => some .contains
  | _ => none

/-- what `index.applyX(value)` returns for all twelve comparators -/
def leafIndex (ix : IndexT) (c : Cmp) (v : Val) : Except Err IdSet :=
  match c.positive with
  | some p => (leafPos ix p v).map (negOf ix)
  | none => leafPos ix c v

def rangePos (ix : IndexT) (lo hi : Int) (el eh : Bool) : Except Err IdSet :=
  match ix with
  | .field t => .ok (Field.Spec.inRange t (some lo) (some hi) el eh)
  | _ => .error .attributeError

def getIndex (cat : Catalog) (i : Nat) : Except Err IndexT :=
  match cat[i]? with
  | some ix => .ok ix
  | none => .error .indexError

/-- `Comparator._apply`: the dispatch table of hypatia/query, including `NotAll -> applyAll` (D2) -/
def applyCmp (cat : Catalog) (c : Cmp) (i : Nat) (v : Val) : Except Err IdSet := do
  let ix ← getIndex cat i
  match c with
  | .notall => leafIndex ix .all v
  | c => leafIndex ix c v

def applyRange (cat : Catalog) (neg : Bool) (i : Nat) (lo hi : Int) (el eh : Bool) : Except Err IdSet := do
  let ix ← getIndex cat i
  let pos ← rangePos ix lo hi el eh
  pure (if neg then negOf ix pos else pos)

/-! ## `negate` -/

def Cmp.negate : Cmp → Cmp
  | .eq => .noteq | .noteq => .eq
  | .gt => .le | .le => .gt
  | .lt => .ge | .ge => .lt
  | .any => .notany | .notany => .any
  | .all => .notall | .notall => .all
  | .contains => .notcontains | .notcontains => .contains

/-- `BoolOp.__init__`: arguments of the same type are promoted one level -/
def flatAnd : Q → List Q
  | .and xs => xs
  | q => [q]

def flatOr : Q → List Q
  | .or xs => xs
  | q => [q]

def mkAnd (qs : List Q) : Q := .and (qs.flatMap flatAnd)

def mkOr (qs : List Q) : Q := .or (qs.flatMap flatOr)

mutual
def negate : Q → Q
  | .cmp c i v => .cmp c.negate i v
  | .range neg i lo hi el eh => .range (!neg) i lo hi el eh
  | .and qs => mkOr (negateList qs)
  | .or qs => mkAnd (negateList qs)
  | .not q => q
def negateList : List Q → List Q
  | [] => []
  | q :: qs => negate q :: negateList qs
end

/-! building a tree through the Python constructors, bottom-up (what `And(a, And(b, c))` yields) -/
mutual
def construct : Q → Q
  | .cmp c i v => .cmp c i v
  | .range neg i lo hi el eh => .range neg i lo hi el eh
  | .and qs => mkAnd (constructList qs)
  | .or qs => mkOr (constructList qs)
  | .not q => .not (construct q)
def constructList : List Q → List Q
  | [] => []
  | q :: qs => construct q :: constructList qs
end

/-! number of constructors; `negate` never increases it, which makes `Not._apply` terminate -/
mutual
def size : Q → Nat
  | .cmp _ _ _ => 1
  | .range _ _ _ _ _ _ => 1
  | .and qs => 1 + sizeList qs
  | .or qs => 1 + sizeList qs
  | .not q => 1 + size q
def sizeList : List Q → Nat
  | [] => 0
  | q :: qs => size q + sizeList qs
end

/-! ## `_apply` -/

/-- `Query.intersect` -/
def intersect (left right : IdSet) : IdSet :=
  if left.length = 0 || right.length = 0 then [] else LSet.inter left right

/-- `Query.union` -/
def union (left right : IdSet) : IdSet :=
  if left.length ≠ 0 && right.length = 0 then left
  else if right.length ≠ 0 && left.length = 0 then right
  else LSet.union left right

/-- what `_apply` asks of the indexes: `Comparator._apply` and `_Range._apply` as oracles.  The
composition below is written once over the oracle; it is instantiated with the specification-level
leaves (`specLeaves`, this file) and with the index models of C01/C02 (`HypatiaModel/QueryModel.lean`). -/
structure Leaves where
  cmp : Cmp → Nat → Val → Except Err IdSet
  range : Bool → Nat → Int → Int → Bool → Bool → Except Err IdSet

/-- `_apply` with an explicit evaluation budget for `Not` (which re-enters on the negated
tree).  `applyQ` below instantiates the budget with `size q`, which always suffices
(`negate` does not grow a tree); the budget is never exhausted on any input (`applyFuel_enough`
is exercised by the driver printing `err fuel` otherwise). -/
def applyFuelL (L : Leaves) : Nat → Q → Except Err IdSet
  | 0, _ => .error .valueError
  | fuel + 1, q =>
    match q with
    | .cmp c i v => L.cmp c i v
    | .range neg i lo hi el eh => L.range neg i lo hi el eh
    | .not q => applyFuelL L fuel (negate q)
    | .and [] => .error .indexError
    | .and (q0 :: rest) => do
      let r0 ← applyFuelL L fuel q0
      rest.foldlM (fun result q =>
        if result.length = 0 then pure [] else do
          let right ← applyFuelL L fuel q
          pure (intersect result right)) r0
    | .or [] => .error .indexError
    | .or (q0 :: rest) => do
      let r0 ← applyFuelL L fuel q0
      rest.foldlM (fun result q => do
          let right ← applyFuelL L fuel q
          pure (union result right)) r0

def applyQL (L : Leaves) (q : Q) : Except Err IdSet := applyFuelL L (size q + 1) q

/-- leaves answered at specification level -/
def specLeaves (cat : Catalog) : Leaves := { cmp := applyCmp cat, range := applyRange cat }

def applyFuel (cat : Catalog) : Nat → Q → Except Err IdSet := applyFuelL (specLeaves cat)

def applyQ (cat : Catalog) (q : Q) : Except Err IdSet := applyFuel cat (size q + 1) q

/-! ## well-typed trees: every comparator is one its index class implements -/

def supports : IndexT → Cmp → Bool
  | .field _, c => decide (c ∈ [Cmp.eq, .noteq, .gt, .ge, .lt, .le, .any, .notany])
  | .keyword _, c => decide (c ∈ [Cmp.eq, .noteq, .any, .notany, .all, .notall])
  | .text _, c => decide (c ∈ [Cmp.eq, .noteq, .contains, .notcontains])

def valOk : Cmp → Val → Bool
  | .any, _ => true | .notany, _ => true | .all, _ => true | .notall, _ => true
  | _, .one _ => true
  | _, .many _ => false

mutual
def wellTypedW (sup : IndexT → Cmp → Bool) (cat : Catalog) : Q → Bool
  | .cmp c i v => match cat[i]? with
    | some ix => sup ix c && valOk c v
    | none => false
  | .range _ i _ _ _ _ => match cat[i]? with
    | some (.field _) => true
    | _ => false
  | .and qs => !qs.isEmpty && wellTypedListW sup cat qs
  | .or qs => !qs.isEmpty && wellTypedListW sup cat qs
  | .not q => wellTypedW sup cat q
def wellTypedListW (sup : IndexT → Cmp → Bool) (cat : Catalog) : List Q → Bool
  | [] => true
  | q :: qs => wellTypedW sup cat q && wellTypedListW sup cat qs
end

/-- every comparator is implemented by its index class -/
def wellTyped (cat : Catalog) (q : Q) : Bool := wellTypedW supports cat q

/-- `supports` minus `All`/`NotAll` (whose query-object negation is finding D2) -/
def supportsStrict (ix : IndexT) (c : Cmp) : Bool :=
  supports ix c && !decide (c = .all) && !decide (c = .notall)

def wellTypedStrict (cat : Catalog) (q : Q) : Bool := wellTypedW supportsStrict cat q

/-! ## `_optimize` -/

/-- `(index, value, strict)` of a `Gt`/`Ge` node -/
def lowerOf : Q → Option (Nat × Int × Bool)
  | .cmp .gt i (.one x) => some (i, x, true)
  | .cmp .ge i (.one x) => some (i, x, false)
  | _ => none

/-- `(index, value, strict)` of a `Lt`/`Le` node -/
def upperOf : Q → Option (Nat × Int × Bool)
  | .cmp .lt i (.one x) => some (i, x, true)
  | .cmp .le i (.one x) => some (i, x, false)
  | _ => none

structure Pair where
  queries : List (Option Q)
  lowers : AMap Nat (Nat × Int × Bool) := []   -- index ↦ (position, value, strict)
  uppers : AMap Nat (Nat × Int × Bool) := []

/-- one iteration of the pairing loop of `And._optimize` (as repaired: the matched entry is deleted) -/
def andStep (st : Pair) (iq : Q × Nat) : Pair :=
  let (query, i) := iq
  match lowerOf query with
  | some (idx, lo, exlo) =>
    match AMap.get st.uppers idx with
    | some (iu, hi, exhi) =>
      { st with queries := (st.queries.set i (some (.range false idx lo hi exlo exhi))).set iu none,
                uppers := AMap.erase st.uppers idx }
    | none => { st with lowers := AMap.set st.lowers idx (i, lo, exlo) }
  | none =>
    match upperOf query with
    | some (idx, hi, exhi) =>
      match AMap.get st.lowers idx with
      | some (il, lo, exlo) =>
        { st with queries := (st.queries.set il (some (.range false idx lo hi exlo exhi))).set i none,
                  lowers := AMap.erase st.lowers idx }
      | none => { st with uppers := AMap.set st.uppers idx (i, hi, exhi) }
    | none => st

/-- one iteration of the pairing loop of `Or._optimize`: `Lt/Le a` with `Gt/Ge b` becomes
`NotInRange.fromGTLT(lt.negate(), gt.negate())` = not (a ⋖ x ⋖ b) with the strictness flipped -/
def orStep (st : Pair) (iq : Q × Nat) : Pair :=
  let (query, i) := iq
  match upperOf query with            -- type(query) in (Lt, Le): stored in `lowers` by the code
  | some (idx, a, strictLt) =>
    match AMap.get st.uppers idx with
    | some (iu, b, strictGt) =>
      { st with queries := (st.queries.set i (some (.range true idx a b (!strictLt) (!strictGt)))).set iu none,
                uppers := AMap.erase st.uppers idx }
    | none => { st with lowers := AMap.set st.lowers idx (i, a, strictLt) }
  | none =>
    match lowerOf query with          -- type(query) in (Gt, Ge)
    | some (idx, b, strictGt) =>
      match AMap.get st.lowers idx with
      | some (il, a, strictLt) =>
        { st with queries := (st.queries.set il (some (.range true idx a b (!strictLt) (!strictGt)))).set i none,
                  lowers := AMap.erase st.lowers idx }
      | none => { st with uppers := AMap.set st.uppers idx (i, b, strictGt) }
    | none => st

def pairLoop (step : Pair → Q × Nat → Pair) (qs : List Q) : List Q :=
  let st := qs.zipIdx.foldl step { queries := qs.map some }
  st.queries.filterMap id

/-- `_optimize_eq` / `_optimize_not_eq`: all operands are `c` comparators with scalar values on one index -/
def foldSame (c : Cmp) : List Q → Option (Nat × List Int)
  | [] => none
  | .cmp c' i (.one x) :: rest =>
    if c' = c then
      match rest with
      | [] => some (i, [x])
      | _ => match foldSame c rest with
        | some (j, xs) => if i = j then some (i, x :: xs) else none
        | none => none
    else none
  | _ => none

def optFuel : Nat → Q → Q
  | 0, q => q
  | fuel + 1, q =>
    match q with
    | .cmp c i v => .cmp c i v
    | .range neg i lo hi el eh => .range neg i lo hi el eh
    | .not q => optFuel fuel (negate q)
    | .and qs =>
      match foldSame .eq qs with
      | some (i, xs) => .cmp .all i (.many xs)
      | none =>
        match foldSame .noteq qs with
        | some (i, xs) => .cmp .notany i (.many xs)
        | none =>
          match pairLoop andStep (qs.map (optFuel fuel)) with
          | [q] => q
          | qs' => mkAnd qs'
    | .or qs =>
      match foldSame .eq qs with
      | some (i, xs) => .cmp .any i (.many xs)
      | none =>
        match foldSame .noteq qs with
        | some (i, xs) => .cmp .notall i (.many xs)
        | none =>
          match pairLoop orStep (qs.map (optFuel fuel)) with
          | [q] => q
          | qs' => mkOr qs'

def optimize (q : Q) : Q := optFuel (size q + 1) q

/-! ## set-theoretic reading (the specification of C04) -/

def docs (cat : Catalog) : IdSet := cat.foldl (fun acc ix => LSet.union acc (known ix)) []

/-- the comparator's own meaning (so `NotAll` is the complement of `All` – not what D2 does) -/
def semCmp (cat : Catalog) (c : Cmp) (i : Nat) (v : Val) : Except Err IdSet := do
  let ix ← getIndex cat i
  leafIndex ix c v

def interAll : List IdSet → IdSet
  | [] => []
  | [x] => x
  | x :: xs => LSet.inter x (interAll xs)

def unionAll (l : List IdSet) : IdSet := l.foldl LSet.union []

mutual
def sem (cat : Catalog) : Q → Except Err IdSet
  | .cmp c i v => semCmp cat c i v
  | .range neg i lo hi el eh => applyRange cat neg i lo hi el eh
  | .and qs => (semList cat qs).map interAll
  | .or qs => (semList cat qs).map unionAll
  | .not q => (sem cat q).map (fun r => LSet.diff (docs cat) r)
def semList (cat : Catalog) : List Q → Except Err (List IdSet)
  | [] => .ok []
  | q :: qs => do
    let r ← sem cat q
    let rs ← semList cat qs
    pure (r :: rs)
end

/-! ## the hypotheses of the optimiser theorem (C05)

`hazards cat q` follows `_optimize` down the tree and lists which of the three recorded findings a
rewrite step of this run of the optimiser meets; `OptSafe` = none.  Decidable, evaluated by the driver
(`optsafe`).  Nothing else is excluded: well-typed trees with `OptSafe` are optimised soundly
(`c05_optimize_sound_partial`). -/

inductive Hazard where
  | d2   -- a fold produces `NotAll`, whose `_apply` calls `applyAll`
  | d3   -- a fold produces a comparator the index class does not implement
  | d5   -- an Or-pairing produces `NotInRange` on a field index that has value-less documents
deriving DecidableEq, Repr

/-- every document the index knows has a value -/
def hasValuesB : IndexT → Bool
  | .field t => (Field.Spec.known t).all (fun d => (Field.Spec.valueOf t d).isSome)
  | .keyword t => (kwKnown t).all (fun d => ((AMap.get t d).bind id).isSome)
  | .text t => (kwKnown t).all (fun d => ((AMap.get t d).bind id).isSome)

/-- folding the operands on index `i` into one `c` comparator -/
def foldHazard (cat : Catalog) (i : Nat) (c : Cmp) : List Hazard :=
  match cat[i]? with
  | some ix => if supports ix c then (if c = .notall then [.d2] else []) else [.d3]
  | none => [.d3]

def isLowerOn (idx : Nat) (q : Q) : Bool :=
  match lowerOf q with
  | some (j, _, _) => j == idx
  | none => false

/-- the Or loop pairs on index `idx` exactly when the (optimised) operands contain both an `Lt/Le` and a
`Gt/Ge` on `idx` -/
def orPairHazard (cat : Catalog) (qs : List Q) : List Hazard :=
  if qs.all (fun q =>
      match upperOf q with
      | some (idx, _, _) =>
        !(qs.any (isLowerOn idx)) ||
          (match cat[idx]? with
           | some ix => hasValuesB ix
           | none => true)
      | none => true)
  then [] else [.d5]

def hazFuel (cat : Catalog) : Nat → Q → List Hazard
  | 0, _ => []
  | fuel + 1, q =>
    match q with
    | .cmp _ _ _ => []
    | .range _ _ _ _ _ _ => []
    | .not q => hazFuel cat fuel (negate q)
    | .and qs =>
      match foldSame .eq qs with
      | some (i, _) => foldHazard cat i .all
      | none =>
        match foldSame .noteq qs with
        | some (i, _) => foldHazard cat i .notany
        | none => qs.flatMap (hazFuel cat fuel)
    | .or qs =>
      match foldSame .eq qs with
      | some (i, _) => foldHazard cat i .any
      | none =>
        match foldSame .noteq qs with
        | some (i, _) => foldHazard cat i .notall
        | none => qs.flatMap (hazFuel cat fuel) ++ orPairHazard cat (qs.map (optFuel fuel))

def hazards (cat : Catalog) (q : Q) : List Hazard := hazFuel cat (size q + 1) q

/-- no rewrite of `optimize q` over `cat` meets D2, D3 or D5 -/
def OptSafe (cat : Catalog) (q : Q) : Bool := (hazards cat q).isEmpty

end Hyp.Query
