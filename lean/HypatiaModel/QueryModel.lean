import HypatiaModel.Query
import HypatiaModel.Spec.KeywordSpec

/-!
# hypatia.query over the index *models*

`Query.lean` answers the leaves of a query tree at specification level.  Here the same `_apply`
composition (`applyQL`, one definition) is run over a catalog of index **model states** – `Field.State Int`
(C01's model of FieldIndex) and `Keyword.State Int` (C02's model of KeywordIndex/FacetIndex's keyword part) –
the leaves being the models' own `applyEq/applyNotEq/applyGt/…/applyInRange/applyNotInRange/applyAny/
applyNotAny/applyAll/applyNotAll`.  `Properties/C04.lean` (`c04_end_to_end`) proves that, for all histories
of every index, the two catalogs give the same outcome on every tree.

A text index stays a specification-level table here (its model, C03, is not part of this composition).
-/
namespace Hyp.Query
open Hyp

inductive IndexM where
  | field (s : Field.State Int)
  | keyword (s : Keyword.State Int)
  | text (t : AMap Int (Option (List Int)))

abbrev MCatalog := List IndexM

/-- `index.applyX(value)` on the index models, positive comparators (same dispatch and error cases as
`leafPos`) -/
def leafPosM (ix : IndexM) (c : Cmp) (v : Val) : Except Err IdSet :=
  match ix, c, v with
  | .field s, .eq, .one x => .ok (Field.applyEq s x)
  | .field s, .gt, .one x => .ok (Field.applyGt s x)
  | .field s, .ge, .one x => .ok (Field.applyGe s x)
  | .field s, .lt, .one x => .ok (Field.applyLt s x)
  | .field s, .le, .one x => .ok (Field.applyLe s x)
  | .field s, .any, v => .ok (Field.applyAny s (valList v))
  | .field _, .all, _ => .error .attributeError
  | .field _, .contains, _ => .error .attributeError
  | .keyword s, .eq, .one x => .ok (Keyword.applyEq s x)
  | .keyword s, .any, v => .ok (Keyword.applyAny s (valList v))
  | .keyword s, .all, v => .ok (Keyword.applyAll s (valList v))
  | .keyword _, .gt, _ => .error .attributeError
  | .keyword _, .ge, _ => .error .attributeError
  | .keyword _, .lt, _ => .error .attributeError
  | .keyword _, .le, _ => .error .attributeError
  | .keyword _, .contains, _ => .error .attributeError
  | .text t, c, v => leafPos (.text t) c v
  | _, _, _ => .error .typeError

/-- `BaseIndexMixin._negate` of the index -/
def negM (ix : IndexM) (pos : IdSet) : IdSet :=
  match ix with
  | .field s => Field.negate s pos
  | .keyword s => s.view.negate pos
  | .text t => negOf (.text t) pos

/-- what `index.applyX(value)` returns for all twelve comparators -/
def leafIndexM (ix : IndexM) (c : Cmp) (v : Val) : Except Err IdSet :=
  match c.positive with
  | some p => (leafPosM ix p v).map (negM ix)
  | none => leafPosM ix c v

/-! the negative leaves are the models' `applyNotX` functions -/
theorem leafIndexM_field_noteq (s : Field.State Int) (x : Int) :
    leafIndexM (.field s) .noteq (.one x) = .ok (Field.applyNotEq s x) := rfl
theorem leafIndexM_field_notany (s : Field.State Int) (v : Val) :
    leafIndexM (.field s) .notany v = .ok (Field.applyNotAny s (valList v)) := rfl
theorem leafIndexM_keyword_noteq (s : Keyword.State Int) (x : Int) :
    leafIndexM (.keyword s) .noteq (.one x) = .ok (Keyword.applyNotEq s x) := rfl
theorem leafIndexM_keyword_notany (s : Keyword.State Int) (v : Val) :
    leafIndexM (.keyword s) .notany v = .ok (Keyword.applyNotAny s (valList v)) := rfl
theorem leafIndexM_keyword_notall (s : Keyword.State Int) (v : Val) :
    leafIndexM (.keyword s) .notall v = .ok (Keyword.applyNotAll s (valList v)) := rfl

def rangePosM (ix : IndexM) (lo hi : Int) (el eh : Bool) : Except Err IdSet :=
  match ix with
  | .field s => .ok (Field.applyInRange s (some lo) (some hi) el eh)
  | _ => .error .attributeError

def getIndexM (cat : MCatalog) (i : Nat) : Except Err IndexM :=
  match cat[i]? with
  | some ix => .ok ix
  | none => .error .indexError

/-- `Comparator._apply`: the dispatch table of hypatia/query, including `NotAll -> applyAll` (D2) -/
def applyCmpM (cat : MCatalog) (c : Cmp) (i : Nat) (v : Val) : Except Err IdSet := do
  let ix ← getIndexM cat i
  match c with
  | .notall => leafIndexM ix .all v
  | c => leafIndexM ix c v

/-- `InRange._apply` = `applyInRange`, `NotInRange._apply` = `applyNotInRange` -/
def applyRangeM (cat : MCatalog) (neg : Bool) (i : Nat) (lo hi : Int) (el eh : Bool) : Except Err IdSet := do
  let ix ← getIndexM cat i
  let pos ← rangePosM ix lo hi el eh
  pure (if neg then negM ix pos else pos)

theorem applyRangeM_field_not (s : Field.State Int) (lo hi : Int) (el eh : Bool) :
    applyRangeM [.field s] true 0 lo hi el eh = .ok (Field.applyNotInRange s (some lo) (some hi) el eh) := rfl

def modelLeaves (cat : MCatalog) : Leaves := { cmp := applyCmpM cat, range := applyRangeM cat }

/-- `q._apply(names)` over the index models -/
def applyQM (cat : MCatalog) (q : Q) : Except Err IdSet := applyQL (modelLeaves cat) q

/-! ## one history per index -/

/-- the history of one index of the catalog -/
inductive IndexH where
  | field (h : List (Field.Op Int))
  | keyword (h : List (Keyword.Op Int))
  | text (t : AMap Int (Option (List Int)))

/-- the keyword specification table as a query-level table: the ids the index knows, each with its
keyword list (`none` = indexed without a value).  A document indexed with an empty keyword list is not
known to the index (C02) and has no row. -/
def kwTable (T : Keyword.Spec.Table Int) : AMap Int (Option (List Int)) :=
  (Keyword.Spec.known T).map (fun d => (d, (AMap.get T d).bind id))

/-- the index models after the histories -/
def modelIndex : IndexH → IndexM
  | .field h => .field (Field.run h)
  | .keyword h => .keyword (Keyword.run h)
  | .text t => .text t

/-- the specification tables after the same histories -/
def specIndex : IndexH → IndexT
  | .field h => .field (Field.Spec.table h)
  | .keyword h => .keyword (kwTable (Keyword.Spec.table h))
  | .text t => .text t

def modelCatalog (hs : List IndexH) : MCatalog := hs.map modelIndex
def specCatalog (hs : List IndexH) : Catalog := hs.map specIndex

end Hyp.Query
