import HypatiaModel.Query
import HypatiaModel.Spec.KeywordSpec
import HypatiaModel.Spec.FacetSpec
import HypatiaModel.Spec.TextSpec

/-!
# hypatia.query over the index *models*

`Query.lean` answers the leaves of a query tree at specification level.  Here the same `_apply`
composition (`applyQL`, one definition) is run over a catalog of index **model states** of all four index
kinds –

* `Field.State Int` (C01's model of FieldIndex),
* `Keyword.State Int` (C02's model of KeywordIndex),
* `Facet.State` (C13's model of FacetIndex: the inherited keyword state over facet names + the configured
  facet set),
* `Text.State` (C03's model of TextIndex: lexicon, postings, encoded documents)

– the leaves being the models' own `applyEq/applyNotEq/applyGt/…/applyInRange/applyNotInRange/applyAny/
applyNotAny/applyAll/applyNotAll/applyContains/applyNotContains`.  `Properties/C04.lean` (`c04_end_to_end`)
proves that, for all histories of every index, the two catalogs give the same outcome on every tree.

## values of facet and text leaves

The query AST carries integer values.  A facet index and a text index come with a *dictionary*:
`names : List Facet` (facet names, e.g. `a:b`) resp. `qs : List Str` (query **strings** in the text query
language: words, phrases, globs, `AND/OR/NOT`, parentheses); the leaf value `x` stands for the `x`-th entry.
At specification level the row of a document then lists the numbers of the dictionary entries it is listed
under (facet: C13's `listed`) resp. satisfies (text: the parsed string read as boolean logic over the
document's tokens, C03's `sat`), so that `Eq/Contains x` keeps its reading "x is in the document's row".
A number outside the dictionary names the facet `[]` (no string has an empty segment list; no document is
listed under it) resp. the empty query string (which the parser rejects) – `leavesListed` says a tree has
no such text leaf.
-/
namespace Hyp.Query
open Hyp

/-- the `x`-th entry of a dictionary -/
def nth {α : Type} (l : List α) (dflt : α) (x : Int) : α :=
  if x < 0 then dflt else (l[x.toNat]?).getD dflt

inductive IndexM where
  | field (s : Field.State Int)
  | keyword (s : Keyword.State Int)
  | facet (names : List Facet.Facet) (s : Facet.State)
  | text (cfg : Lex.Cfg) (sp : Nat → Bool) (qs : List QP.Str) (s : Text.State)

abbrev MCatalog := List IndexM

def textErr : Text.Err → Err
  | .parseError => .parseError
  | .queryError => .queryError
  | .typeError => .typeError

/-- `TextIndex.applyContains(qs[x])` (= `applyEq`).  Python's `None` (a query whose only word vanishes in
the pipeline, outside C03's `admissible`) is what `len()` makes of it in `_negate`/`intersect`/`union`:
`TypeError`. -/
def textPos (cfg : Lex.Cfg) (sp : Nat → Bool) (qs : List QP.Str) (s : Text.State) (x : Int) :
    Except Err IdSet :=
  match Text.applyContains cfg sp s (nth qs [] x) with
  | .error e => .error (textErr e)
  | .ok none => .error .typeError
  | .ok (some r) => .ok r

/-- `index.applyX(value)` on the index models, positive comparators (same dispatch and error cases as
`leafPos`) -/
def leafPosM (ix : IndexM) (c : Cmp) (v : Val) : Except Err IdSet :=
  match ix, c, v with
  | .field s, .eq, .one x => .ok (Field.applyEq s x)
  | .field s, .gt, .one x => .ok (Field.applyGt s x)
  | .field s, .ge, .one x => .ok (Field.applyGe s x)
  | .field s, .lt, .one x => .ok (Field.applyLt s x)
  | .field s, .le, .one x => .ok (Field.applyLe s x)
  | .field s, .any, v => .ok (Field.applyAny s (valList v))
  | .field _, .all, _ => .error .attributeError
  | .field _, .contains, _ => .error .attributeError
  | .keyword s, .eq, .one x => .ok (Keyword.applyEq s x)
  | .keyword s, .any, v => .ok (Keyword.applyAny s (valList v))
  | .keyword s, .all, v => .ok (Keyword.applyAll s (valList v))
  | .keyword _, .gt, _ => .error .attributeError
  | .keyword _, .ge, _ => .error .attributeError
  | .keyword _, .lt, _ => .error .attributeError
  | .keyword _, .le, _ => .error .attributeError
  | .keyword _, .contains, _ => .error .attributeError
  | .facet ns s, .eq, .one x => .ok (Keyword.applyEq s.ks (nth ns [] x))
  | .facet ns s, .any, v => .ok (Keyword.applyAny s.ks ((valList v).map (nth ns [])))
  | .facet ns s, .all, v => .ok (Keyword.applyAll s.ks ((valList v).map (nth ns [])))
  | .facet _ _, .gt, _ => .error .attributeError
  | .facet _ _, .ge, _ => .error .attributeError
  | .facet _ _, .lt, _ => .error .attributeError
  | .facet _ _, .le, _ => .error .attributeError
  | .facet _ _, .contains, _ => .error .attributeError
  | .text cfg sp qs s, .contains, .one x => textPos cfg sp qs s x
  | .text cfg sp qs s, .eq, .one x => textPos cfg sp qs s x
  | .text _ _ _ _, _, _ => .error .attributeError
  | _, _, _ => .error .typeError

/-- `BaseIndexMixin._negate` of the index -/
def negM (ix : IndexM) (pos : IdSet) : IdSet :=
  match ix with
  | .field s => Field.negate s pos
  | .keyword s => s.view.negate pos
  | .facet _ s => s.ks.view.negate pos
  | .text _ _ _ s => if pos.isEmpty then Text.docids s else LSet.diff (Text.docids s) pos

/-- what `index.applyX(value)` returns for all twelve comparators -/
def leafIndexM (ix : IndexM) (c : Cmp) (v : Val) : Except Err IdSet :=
  match c.positive with
  | some p => (leafPosM ix p v).map (negM ix)
  | none => leafPosM ix c v

/-! the negative leaves are the models' `applyNotX` functions -/
theorem leafIndexM_field_noteq (s : Field.State Int) (x : Int) :
    leafIndexM (.field s) .noteq (.one x) = .ok (Field.applyNotEq s x) := rfl
theorem leafIndexM_field_notany (s : Field.State Int) (v : Val) :
    leafIndexM (.field s) .notany v = .ok (Field.applyNotAny s (valList v)) := rfl
theorem leafIndexM_keyword_noteq (s : Keyword.State Int) (x : Int) :
    leafIndexM (.keyword s) .noteq (.one x) = .ok (Keyword.applyNotEq s x) := rfl
theorem leafIndexM_keyword_notany (s : Keyword.State Int) (v : Val) :
    leafIndexM (.keyword s) .notany v = .ok (Keyword.applyNotAny s (valList v)) := rfl
theorem leafIndexM_keyword_notall (s : Keyword.State Int) (v : Val) :
    leafIndexM (.keyword s) .notall v = .ok (Keyword.applyNotAll s (valList v)) := rfl
theorem leafIndexM_facet_noteq (ns : List Facet.Facet) (s : Facet.State) (x : Int) :
    leafIndexM (.facet ns s) .noteq (.one x) = .ok (Keyword.applyNotEq s.ks (nth ns [] x)) := rfl
theorem leafIndexM_facet_notany (ns : List Facet.Facet) (s : Facet.State) (v : Val) :
    leafIndexM (.facet ns s) .notany v = .ok (Keyword.applyNotAny s.ks ((valList v).map (nth ns []))) := rfl
theorem leafIndexM_facet_notall (ns : List Facet.Facet) (s : Facet.State) (v : Val) :
    leafIndexM (.facet ns s) .notall v = .ok (Keyword.applyNotAll s.ks ((valList v).map (nth ns []))) := rfl

/-- `NotContains` / `NotEq` on a text index model is `TextIndex.applyNotContains` of the query string -/
theorem leafIndexM_text_notcontains (cfg : Lex.Cfg) (sp : Nat → Bool) (qs : List QP.Str) (s : Text.State)
    (x : Int) :
    leafIndexM (.text cfg sp qs s) .notcontains (.one x) =
      (match Text.applyNotContains cfg sp s (nth qs [] x) with
       | .ok r => .ok r
       | .error e => .error (textErr e)) := by
  unfold leafIndexM leafPosM textPos Text.applyNotContains
  simp only [Cmp.positive]
  cases Text.applyContains cfg sp s (nth qs [] x) with
  | error e => rfl
  | ok o =>
    cases o with
    | none => rfl
    | some r =>
      simp only [Except.map, negM]
      cases r <;> rfl

theorem leafIndexM_text_noteq (cfg : Lex.Cfg) (sp : Nat → Bool) (qs : List QP.Str) (s : Text.State) (x : Int) :
    leafIndexM (.text cfg sp qs s) .noteq (.one x) = leafIndexM (.text cfg sp qs s) .notcontains (.one x) := rfl

def rangePosM (ix : IndexM) (lo hi : Int) (el eh : Bool) : Except Err IdSet :=
  match ix with
  | .field s => .ok (Field.applyInRange s (some lo) (some hi) el eh)
  | _ => .error .attributeError

def getIndexM (cat : MCatalog) (i : Nat) : Except Err IndexM :=
  match cat[i]? with
  | some ix => .ok ix
  | none => .error .indexError

/-- `Comparator._apply`: the dispatch table of hypatia/query, including `NotAll -> applyAll` (D2) -/
def applyCmpM (cat : MCatalog) (c : Cmp) (i : Nat) (v : Val) : Except Err IdSet := do
  let ix ← getIndexM cat i
  match c with
  | .notall => leafIndexM ix .all v
  | c => leafIndexM ix c v

/-- `InRange._apply` = `applyInRange`, `NotInRange._apply` = `applyNotInRange` -/
def applyRangeM (cat : MCatalog) (neg : Bool) (i : Nat) (lo hi : Int) (el eh : Bool) : Except Err IdSet := do
  let ix ← getIndexM cat i
  let pos ← rangePosM ix lo hi el eh
  pure (if neg then negM ix pos else pos)

theorem applyRangeM_field_not (s : Field.State Int) (lo hi : Int) (el eh : Bool) :
    applyRangeM [.field s] true 0 lo hi el eh = .ok (Field.applyNotInRange s (some lo) (some hi) el eh) := rfl

def modelLeaves (cat : MCatalog) : Leaves := { cmp := applyCmpM cat, range := applyRangeM cat }

/-- `q._apply(names)` over the index models -/
def applyQM (cat : MCatalog) (q : Q) : Except Err IdSet := applyQL (modelLeaves cat) q

/-! ## one history per index -/

/-- the history of one index of the catalog (a facet index with its configured facets `F0`, a text index with
its lexicon configuration, back end and white-space predicate), plus the dictionary of leaf values -/
inductive IndexH where
  | field (h : List (Field.Op Int))
  | keyword (h : List (Keyword.Op Int))
  | facet (names F0 : List Facet.Facet) (h : List Facet.Op)
  | text (cfg : Lex.Cfg) (okapi : Bool) (sp : Nat → Bool) (qs : List QP.Str) (h : List Text.Op)

/-- the keyword specification table as a query-level table: the ids the index knows, each with its
keyword list (`none` = indexed without a value).  A document indexed with an empty keyword list is not
known to the index (C02) and has no row. -/
def kwTable (T : Keyword.Spec.Table Int) : AMap Int (Option (List Int)) :=
  (Keyword.Spec.known T).map (fun d => (d, (AMap.get T d).bind id))

/-- the numbers of the dictionary entries that occur in `ks` -/
def numsOf {K : Type} [DecidableEq K] (names : List K) (ks : List K) : List Int :=
  ((List.range names.length).filter (fun i =>
    match names[i]? with
    | some k => decide (k ∈ ks)
    | none => false)).map Int.ofNat

/-- a facet index's specification table (docid ↦ the configured facets it is listed under, C13) as a
query-level table: the row of a document holds the numbers of the names it is listed under -/
def facetTable (names : List Facet.Facet) (T : Keyword.Spec.Table Facet.Facet) : AMap Int (Option (List Int)) :=
  (Keyword.Spec.known T).map (fun d => (d, ((AMap.get T d).bind id).map (numsOf names)))

/-- the numbers of the query strings that the parser accepts and a document with tokens `toks` satisfies
(C03's `sat`) -/
def satNums (cfg : Lex.Cfg) (sp : Nat → Bool) (qs : List QP.Str) (toks : List QP.Str) : List Int :=
  ((List.range qs.length).filter (fun i =>
    match qs[i]? with
    | some q =>
      (match QP.parseQuery (Text.lexOf cfg) sp q with
       | .ok (t, _) => Text.Spec.sat t toks
       | .error _ => false)
    | none => false)).map Int.ofNat

/-- a text index's document table (docid ↦ tokens, or no text; C03) as a query-level table: the row of a
document with text holds the numbers of the query strings it satisfies -/
def textTable (cfg : Lex.Cfg) (sp : Nat → Bool) (qs : List QP.Str) (T : Text.Spec.Table) :
    AMap Int (Option (List Int)) :=
  (AMap.keys T).map (fun d => (d, (Text.Spec.tokensOf T d).map (satNums cfg sp qs)))

/-- the index models after the histories -/
def modelIndex : IndexH → IndexM
  | .field h => .field (Field.run h)
  | .keyword h => .keyword (Keyword.run h)
  | .facet names F0 h => .facet names (Facet.run F0 h)
  | .text cfg okapi sp qs h => .text cfg sp qs (Text.run cfg okapi h)

/-- the specification tables after the same histories -/
def specIndex : IndexH → IndexT
  | .field h => .field (Field.Spec.table h)
  | .keyword h => .keyword (kwTable (Keyword.Spec.table h))
  | .facet names F0 h =>
    .keyword (facetTable names (Facet.Spec.kwTable (Keyword.dedup F0) (Facet.Spec.table h)))
  | .text cfg _ sp qs h => .text (textTable cfg sp qs (Text.Spec.table cfg h))

def modelCatalog (hs : List IndexH) : MCatalog := hs.map modelIndex
def specCatalog (hs : List IndexH) : Catalog := hs.map specIndex

/-! ## the hypotheses of the composition with C03 (decidable; the driver evaluates them) -/

/-- the parser accepts the query string and the parsed tree is `admissible` (C03: finding D14 and leading
glob characters excluded) -/
def queryOK (cfg : Lex.Cfg) (sp : Nat → Bool) (q : QP.Str) : Bool :=
  match QP.parseQuery (Text.lexOf cfg) sp q with
  | .ok (t, _) => Text.Spec.admissible cfg t
  | .error _ => false

/-- C03's hypotheses for a text index of the catalog: fewer than 2^28 words in the lexicon (`Small`), every
query string of the dictionary accepted and admissible.  Nothing is asked of the other index kinds. -/
def histOK : IndexH → Bool
  | .text cfg okapi sp qs h =>
    decide ((Text.run cfg okapi h).base.lex.count < 0x10000000) && qs.all (queryOK cfg sp)
  | _ => true

def textCmp (c : Cmp) : Bool := decide (c ∈ [Cmp.eq, .noteq, .contains, .notcontains])

/-- a `Contains/NotContains/Eq/NotEq` leaf on a text index names an entry of the dictionary -/
def listedAt (h : IndexH) (c : Cmp) (v : Val) : Bool :=
  match h, v with
  | .text _ _ _ qs _, .one x => !textCmp c || (decide (0 ≤ x) && decide (x.toNat < qs.length))
  | _, _ => true

def listedLeaf (hs : List IndexH) (c : Cmp) (i : Nat) (v : Val) : Bool :=
  match hs[i]? with
  | some h => listedAt h c v
  | none => true

mutual
/-- every comparator leaf of the tree satisfies `p` -/
def leavesAll (p : Cmp → Nat → Val → Bool) : Q → Bool
  | .cmp c i v => p c i v
  | .range _ _ _ _ _ _ => true
  | .and qs => leavesAllList p qs
  | .or qs => leavesAllList p qs
  | .not q => leavesAll p q
def leavesAllList (p : Cmp → Nat → Val → Bool) : List Q → Bool
  | [] => true
  | q :: qs => leavesAll p q && leavesAllList p qs
end

/-- every text leaf of the tree names a query string of its index's dictionary -/
def leavesListed (hs : List IndexH) (q : Q) : Bool := leavesAll (listedLeaf hs) q

end Hyp.Query
