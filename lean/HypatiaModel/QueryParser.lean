import HypatiaModel.ParseTree
/-!
# hypatia.text.queryparser

* `scan` – `_tokenizer_regex.findall(query)`; the regex
  `[()] | -? (?: "[^"]*" | [^()\s"]+ )` as a scanner over code points.  `isSpace` is
  Python's `\s` for `str` patterns (a parameter: the harness passes the code points).
  `findall` semantics: at every position the alternatives are tried in order, with the
  optional hyphen tried first *with* and then *without* the hyphen (backtracking); a
  position where nothing matches is skipped (white space, a quote without a closing quote).
* `classify` – `_keywords.get(token.upper(), _ATOM)`.  ASSUMPTION (validated by the harness
  by sweeping all code points): `str.upper()` maps no non-ASCII character to a string made
  of the letters of AND/OR/NOT, so upper-casing ASCII letters decides keyword-ness.
* `parseOr / orTail / parseAnd / andTail / parseTerm / atoms / parseAtom` – the recursive
  descent `_parseOrExpr / _parseAndExpr / _parseNotExpr / _parseTerm / _parseAtom`, the two
  `while` loops as tail functions.  `none` is Python's `None` ("only stop words").  Every
  function returns the remaining tokens with a proof that they are not longer than its
  input; termination is by (remaining tokens, rank of the function) – no fuel.
  `_EOF` is the end of the token list.  The ignored terms (`self._ignored`) are returned
  as a writer output, in the order `_parseAtom` appends them.
* The lexicon is a parameter (`Lex`): `parseTerms`, `isGlob`.
-/
namespace Hyp.QP

/-! ## Tokenizer -/

def LP : Nat := 40      -- '('
def RP : Nat := 41      -- ')'
def QUOTE : Nat := 34   -- '"'
def HYPHEN : Nat := 45  -- '-'

/-- `[^()\s"]` -/
def ordinary (isSpace : Nat → Bool) (c : Nat) : Bool :=
  !(c == LP || c == RP || isSpace c || c == QUOTE)

/-- `[^"]*"` : the text up to the first quote, and what follows that quote -/
def splitQuote : Str → Option (Str × Str)
  | [] => none
  | c :: cs =>
    if c == QUOTE then some ([], cs)
    else match splitQuote cs with
      | some (b, r) => some (c :: b, r)
      | none => none

/-- `[^()\s"]*` greedy: the longest prefix of ordinary characters, and the rest -/
def run (isSpace : Nat → Bool) : Str → Str × Str
  | [] => ([], [])
  | c :: cs =>
    if ordinary isSpace c then
      let (a, b) := run isSpace cs
      (c :: a, b)
    else ([], c :: cs)

/-- `"[^"]*"` at the head of `s`: (matched text, rest) -/
def quotedAt : Str → Option (Str × Str)
  | [] => none
  | c :: cs =>
    if c == QUOTE then
      match splitQuote cs with
      | some (b, r) => some (c :: (b ++ [QUOTE]), r)
      | none => none
    else none

/-- `[^()\s"]+` at the head of `s`: (matched text, rest) -/
def runAt (isSpace : Nat → Bool) (s : Str) : Option (Str × Str) :=
  match run isSpace s with
  | ([], _) => none
  | (a, r) => some (a, r)

/-- `(?: "[^"]*" | [^()\s"]+ )` at the head of `s`: (matched text, rest) -/
def atomBody (isSpace : Nat → Bool) (s : Str) : Option (Str × Str) :=
  match quotedAt s with
  | some x => some x
  | none => runAt isSpace s

/-- `- (?: … )` at the head of `c :: cs` (the optional hyphen taken) -/
def hyphenAt (isSpace : Nat → Bool) (c : Nat) (cs : Str) : Option (Str × Str) :=
  if c == HYPHEN then
    match atomBody isSpace cs with
    | some (b, r) => some (c :: b, r)
    | none => none
  else none

/-- `-? (?: … )` at the head of `c :: cs`: first with the hyphen, then (backtracking) without -/
def atomAt (isSpace : Nat → Bool) (c : Nat) (cs : Str) : Option (Str × Str) :=
  match hyphenAt isSpace c cs with
  | some x => some x
  | none => atomBody isSpace (c :: cs)

theorem splitQuote_length {s b r : Str} (h : splitQuote s = some (b, r)) :
    b.length + r.length + 1 = s.length := by
  induction s generalizing b r with
  | nil => simp [splitQuote] at h
  | cons c cs ih =>
    unfold splitQuote at h
    split at h
    · cases h; simp
    · cases h2 : splitQuote cs with
      | none => simp [h2] at h
      | some p =>
        obtain ⟨b', r'⟩ := p
        simp only [h2] at h
        cases h
        have := ih h2
        simp; omega

theorem run_length (sp : Nat → Bool) (s : Str) :
    (run sp s).1.length + (run sp s).2.length = s.length := by
  induction s with
  | nil => simp [run]
  | cons c cs ih =>
    unfold run
    split
    · simp at ih ⊢; omega
    · simp

theorem quotedAt_length {s a r : Str} (h : quotedAt s = some (a, r)) : r.length < s.length := by
  cases s with
  | nil => simp [quotedAt] at h
  | cons c cs =>
    simp only [quotedAt] at h
    split at h
    · split at h
      · rename_i b' r' h2
        cases h
        have := splitQuote_length h2
        simp; omega
      · cases h
    · cases h

theorem runAt_length {sp : Nat → Bool} {s a r : Str} (h : runAt sp s = some (a, r)) :
    r.length < s.length := by
  unfold runAt at h
  have hl := run_length sp s
  cases hr : run sp s with
  | mk a' r' =>
    rw [hr] at h hl
    cases a' with
    | nil => simp at h
    | cons x xs =>
      simp at h
      obtain ⟨_, rfl⟩ := h
      simp at hl; omega

theorem atomBody_length {sp : Nat → Bool} {s a r : Str} (h : atomBody sp s = some (a, r)) :
    r.length < s.length := by
  unfold atomBody at h
  cases hq : quotedAt s with
  | some x => simp only [hq] at h; cases h; exact quotedAt_length hq
  | none => simp only [hq] at h; exact runAt_length h

theorem atomAt_length {sp : Nat → Bool} {c : Nat} {cs a r : Str}
    (h : atomAt sp c cs = some (a, r)) : r.length < (c :: cs).length := by
  unfold atomAt at h
  cases hh : hyphenAt sp c cs with
  | none => simp only [hh] at h; exact atomBody_length h
  | some x =>
    simp only [hh] at h
    cases h
    unfold hyphenAt at hh
    split at hh
    · cases hb : atomBody sp cs with
      | none => simp [hb] at hh
      | some p =>
        obtain ⟨b', r'⟩ := p
        simp only [hb] at hh
        cases hh
        have := atomBody_length hb
        simp; omega
    · cases hh

/-- `_tokenizer_regex.findall(query)` -/
def scan (isSpace : Nat → Bool) (s : Str) : List Str :=
  match s with
  | [] => []
  | c :: cs =>
    if c == LP || c == RP then [c] :: scan isSpace cs
    else
      match h : atomAt isSpace c cs with
      | some (tok, rest) =>
        have : rest.length < (c :: cs).length := atomAt_length h
        tok :: scan isSpace rest
      | none => scan isSpace cs      -- no match at this position: the character is skipped
termination_by s.length

/-! ## Token classification -/

inductive Tok where
  | and | or | not | lp | rp
  | atom (s : Str)
deriving Repr, DecidableEq

def upperAscii (c : Nat) : Nat := if 97 ≤ c ∧ c ≤ 122 then c - 32 else c

/-- `_keywords.get(token.upper(), _ATOM)` -/
def classify (t : Str) : Tok :=
  let u := t.map upperAscii
  if u == [65, 78, 68] then .and          -- "AND"
  else if u == [79, 82] then .or          -- "OR"
  else if u == [78, 79, 84] then .not     -- "NOT"
  else if u == [LP] then .lp
  else if u == [RP] then .rp
  else .atom t

def tokenize (isSpace : Nat → Bool) (q : Str) : List Tok := (scan isSpace q).map classify

/-! ## Recursive descent -/

/-- what the parser uses of the lexicon -/
structure Lex where
  /-- `lexicon.parseTerms(term)`: the words of an ATOM token (stop words removed) -/
  parseTerms : Str → List Str
  /-- `lexicon.isGlob(word)` -/
  isGlob : Str → Bool

/-- the `ParseError`s of `queryparser.py` (all one Python class; the kind is kept for reading) -/
inductive PErr where
  | required (what : String)     -- "Token %r required, %r found"
  | noPositive                   -- "a term must have at least one positive word"
  | onlyCommon                   -- "Query contains only common words"
deriving Repr, DecidableEq

abbrev Rest (ts : List Tok) := {r : List Tok // r.length ≤ ts.length}

/-- `term[0] == "-"` -/
def startsWithHyphen : Str → Bool
  | c :: _ => c == HYPHEN
  | [] => false

/-- `_parseAtom` (after `_get(_ATOM)`): `none` = only stop words, the term goes to `_ignored` -/
def parseAtom (lx : Lex) (term : Str) : Option Tree :=
  match lx.parseTerms term with
  | [] => none
  | [w] =>
    let t := if lx.isGlob w then Tree.glob w else Tree.atom w
    some (if startsWithHyphen term then Tree.notN t else t)
  | ws =>
    let t := Tree.phrase ws
    some (if startsWithHyphen term then Tree.notN t else t)

/-- the ATOM tokens at the head of `ts` (`while self._peek(_ATOM)`), and the rest -/
def atoms : (ts : List Tok) → List Str × Rest ts
  | .atom s :: rest =>
    let (l, ⟨r, h⟩) := atoms rest
    (s :: l, ⟨r, by simp; omega⟩)
  | ts => ([], ⟨ts, Nat.le_refl _⟩)

/-- the end of `_parseTerm`'s ATOM branch, given the nodes of all atoms of the run -/
def combineAtoms (nodes : List (Option Tree)) : Except PErr (Option Tree) :=
  let nodes := nodes.filterMap id                            -- [x for x in nodes if x]
  -- sorted([(isinstance(n, NotNode), i, n) …]): stable partition, positive nodes first
  let sorted := nodes.filter (fun n => !n.isNot) ++ nodes.filter (fun n => n.isNot)
  match sorted with
  | [] => .ok none                                           -- only stop words
  | x :: xs =>
    if x.isNot then .error .noPositive
    else if xs.isEmpty then .ok (some x)
    else .ok (some (Tree.andN (x :: xs)))

/-- terms appended to `_ignored` by the `_parseAtom` calls of one run of atoms -/
def ignoredOf (lx : Lex) (terms : List Str) : List Str :=
  terms.filter (fun s => (lx.parseTerms s).isEmpty)

/-- the end of `_parseOrExpr` -/
def mkOr (L : List Tree) : Option Tree :=
  match L with
  | [] => none
  | [x] => some x
  | xs => some (Tree.orN xs)

/-- the end of `_parseAndExpr` -/
def mkAnd (L nots : List Tree) : Option Tree :=
  match L with
  | [] => none                                               -- only stop words (Nots dropped)
  | _ =>
    match L ++ nots with
    | [x] => some x
    | xs => some (Tree.andN xs)

def optList (t : Option Tree) : List Tree :=
  match t with
  | some x => [x]
  | none => []

/-- result of a sub-parser: value, terms it appended to `_ignored`, remaining tokens -/
abbrev Res (α : Type) (ts : List Tok) := Except PErr (α × List Str × Rest ts)

mutual
/-- `_parseOrExpr` -/
def parseOr (lx : Lex) (ts : List Tok) : Res (Option Tree) ts :=
  match parseAnd lx ts with
  | .error e => .error e
  | .ok (first, ig1, ⟨r1, h1⟩) =>
    match orTail lx r1 with
    | .error e => .error e
    | .ok (more, ig2, ⟨r2, h2⟩) =>
      .ok (mkOr (optList first ++ more), ig1 ++ ig2, ⟨r2, by omega⟩)
termination_by (ts.length, 3)
decreasing_by all_goals (simp_wf; try simp [Prod.lex_def]; try omega)

/-- `while self._check(_OR): L.append(self._parseAndExpr())`, `None`s already filtered -/
def orTail (lx : Lex) (ts : List Tok) : Res (List Tree) ts :=
  match ts with
  | .or :: rest =>
    match parseAnd lx rest with
    | .error e => .error e
    | .ok (t, ig1, ⟨r1, h1⟩) =>
      match orTail lx r1 with
      | .error e => .error e
      | .ok (more, ig2, ⟨r2, h2⟩) =>
        .ok (optList t ++ more, ig1 ++ ig2, ⟨r2, by simp; omega⟩)
  | ts' => .ok ([], [], ⟨ts', Nat.le_refl _⟩)
termination_by (ts.length, 0)
decreasing_by all_goals (simp_wf; try simp [Prod.lex_def]; try omega)

/-- `_parseAndExpr` -/
def parseAnd (lx : Lex) (ts : List Tok) : Res (Option Tree) ts :=
  match parseTerm lx ts with
  | .error e => .error e
  | .ok (t, ig1, ⟨r1, h1⟩) =>
    match andTail lx r1 with
    | .error e => .error e
    | .ok ((L, nots), ig2, ⟨r2, h2⟩) =>
      .ok (mkAnd (optList t ++ L) nots, ig1 ++ ig2, ⟨r2, by omega⟩)
termination_by (ts.length, 2)
decreasing_by all_goals (simp_wf; try simp [Prod.lex_def]; try omega)

/-- the `while 1:` loop of `_parseAndExpr` (with `_parseNotExpr` inlined): (L, Nots) -/
def andTail (lx : Lex) (ts : List Tok) : Res (List Tree × List Tree) ts :=
  match ts with
  | .and :: .not :: rest =>               -- AND, then _parseNotExpr sees NOT
    match parseTerm lx rest with
    | .error e => .error e
    | .ok (t, ig1, ⟨r1, h1⟩) =>
      match andTail lx r1 with
      | .error e => .error e
      | .ok ((L, nots), ig2, ⟨r2, h2⟩) =>
        -- t None: _parseNotExpr returns None, `continue`; else NotNode(t) is a NotNode
        .ok ((L, (optList t).map Tree.notN ++ nots), ig1 ++ ig2, ⟨r2, by simp; omega⟩)
  | .and :: rest =>                       -- AND, then _parseNotExpr = _parseTerm
    match parseTerm lx rest with
    | .error e => .error e
    | .ok (t, ig1, ⟨r1, h1⟩) =>
      match andTail lx r1 with
      | .error e => .error e
      | .ok ((L, nots), ig2, ⟨r2, h2⟩) =>
        match t with
        | none => .ok ((L, nots), ig1 ++ ig2, ⟨r2, by simp; omega⟩)        -- `continue`
        | some x =>
          if x.isNot then .ok ((L, x :: nots), ig1 ++ ig2, ⟨r2, by simp; omega⟩)
          else .ok ((x :: L, nots), ig1 ++ ig2, ⟨r2, by simp; omega⟩)
  | .not :: rest =>                       -- NOT Term
    match parseTerm lx rest with
    | .error e => .error e
    | .ok (t, ig1, ⟨r1, h1⟩) =>
      match andTail lx r1 with
      | .error e => .error e
      | .ok ((L, nots), ig2, ⟨r2, h2⟩) =>
        .ok ((L, (optList t).map Tree.notN ++ nots), ig1 ++ ig2, ⟨r2, by simp; omega⟩)
  | ts' => .ok (([], []), [], ⟨ts', Nat.le_refl _⟩)
termination_by (ts.length, 0)
decreasing_by all_goals (simp_wf; try simp [Prod.lex_def]; try omega)

/-- `_parseTerm` -/
def parseTerm (lx : Lex) (ts : List Tok) : Res (Option Tree) ts :=
  match ts with
  | .lp :: rest =>
    match parseOr lx rest with
    | .error e => .error e
    | .ok (t, ig, ⟨r1, h1⟩) =>
      match r1, h1 with
      | .rp :: r2, h => .ok (t, ig, ⟨r2, by simp at h ⊢; omega⟩)
      | _, _ => .error (.required ")")
  | .atom s :: rest =>
    match atoms (.atom s :: rest) with
    | (terms, ⟨r, h⟩) =>
      match combineAtoms (terms.map (parseAtom lx)) with
      | .error e => .error e
      | .ok t => .ok (t, ignoredOf lx terms, ⟨r, h⟩)
  | _ => .error (.required "ATOM")
termination_by (ts.length, 1)
decreasing_by all_goals (simp_wf; try simp [Prod.lex_def]; try omega)
end

/-- `QueryParser.parseQueryEx` on a token list: (tree, ignored) -/
def parseTokens (lx : Lex) (ts : List Tok) : Except PErr (Tree × List Str) :=
  match parseOr lx ts with
  | .error e => .error e
  | .ok (t, ig, ⟨r, _⟩) =>
    match r with
    | [] =>
      match t with
      | some x => .ok (x, ig)
      | none => .error .onlyCommon
    | _ :: _ => .error (.required "EOF")

/-- `QueryParser(lexicon).parseQueryEx(query)` / `TextIndex.parse_query` (tree only) -/
def parseQuery (lx : Lex) (isSpace : Nat → Bool) (q : Str) : Except PErr (Tree × List Str) :=
  parseTokens lx (tokenize isSpace q)

/-- `TextIndex.check_query`: `try: parse_query(q); return True except ParseError: return False` -/
def checkQuery (lx : Lex) (isSpace : Nat → Bool) (q : Str) : Bool :=
  match parseQuery lx isSpace q with
  | .ok _ => true
  | .error _ => false

end Hyp.QP
