import HypatiaModel.FieldSort

/-!
# hypatia.util.ResultSet  (C11)

`ResultSet(ids, numids, resolver, sort_type)`.  `ids` is "only guaranteed to be iterable": the code
distinguishes objects with `__len__` (lists, tuples, sets, BTrees sets – re-iterable; `Ids.coll`, in
iteration order) from one-shot iterators (generators, `itertools.chain` objects, what
`FieldIndex.sort` returns; `Ids.stream`).  A stream is a consumable cursor: the ids it will still
yield and the `Unsortable` it raises on exhaustion, if any (a generator that has raised is closed:
afterwards it is empty and silent).

Result sets are mutable objects (`first` re-chains `self.ids`, `sort` materialises it, iteration of a
stream consumes it), so every operation returns the new state of the receiver next to its result;
exceptions are values.
-/
namespace Hyp.RSet
open Hyp.Field (SortRes SortType)

structure Stream where
  ids : List Int
  raises : Option (List Int) := none
  deriving DecidableEq, Repr

inductive Ids where
  | coll (xs : List Int)
  | stream (g : Stream)
  deriving DecidableEq, Repr

inductive Err where
  | unsortable (docids : List Int)
  | valueError
  | noResults
  | multipleResults
  deriving DecidableEq, Repr

/-- one `next()` on a one-shot iterator -/
inductive Step where
  | item (d : Int)
  | stop
  | raised (docids : List Int)

def Stream.next (g : Stream) : Stream × Step :=
  match g.ids, g.raises with
  | x :: rest, r => ({ ids := rest, raises := r }, .item x)
  | [], none => (g, .stop)
  | [], some ds => ({ ids := [] }, .raised ds)

/-- `itertools.chain([x], g)` -/
def Stream.chain1 (x : Int) (g : Stream) : Stream := { ids := x :: g.ids, raises := g.raises }

/-- `hasattr(ids, '__len__')` -/
def Ids.hasLen : Ids → Bool
  | .coll _ => true
  | .stream _ => false

/-- what one complete iteration yields, and the exception that ends it -/
def Ids.contents : Ids → List Int × Option (List Int)
  | .coll xs => (xs, none)
  | .stream g => (g.ids, g.raises)

/-- the object after one complete iteration -/
def Ids.exhausted : Ids → Ids
  | .coll xs => .coll xs
  | .stream _ => .stream { ids := [] }

/-- `list(itertools.islice(iter(ids), k))`: the object afterwards, the items, the exception -/
def Ids.take (k : Nat) : Ids → Ids × List Int × Option (List Int)
  | .coll xs => (.coll xs, xs.take k, none)
  | .stream g =>
    if k ≤ g.ids.length then (.stream { ids := g.ids.drop k, raises := g.raises }, g.ids.take k, none)
    else (.stream { ids := [] }, g.ids, g.raises)

/-- `list(ids)`: the object afterwards and the list, or the exception -/
def Ids.materialise : Ids → Ids × Except (List Int) (List Int)
  | .coll xs => (.coll xs, .ok xs)
  | .stream g =>
    match g.raises with
    | none => (.stream { ids := [] }, .ok g.ids)
    | some ds => (.stream { ids := [] }, .error ds)

structure RS (R : Type) where
  ids : Ids
  numids : Nat
  resolver : Option (Int → R) := none
  sortType : Option SortType := none

/-- a value handed out by `first`/`one`/`all`: the docid, or the resolved object -/
inductive Val (R : Type) where
  | id (d : Int)
  | obj (r : R)
  deriving DecidableEq, Repr

variable {R : Type}

/-- `resolver is None or not resolve` decides between ids and resolved objects -/
def RS.present (rs : RS R) (resolve : Bool) (d : Int) : Val R :=
  match rs.resolver with
  | some f => if resolve then .obj (f d) else .id d
  | none => .id d

/-- `len(rs)` -/
def RS.len (rs : RS R) : Nat := rs.numids

/-- `rs.first(resolve)`: `for id_ in self.ids: [re-chain if no __len__]; return id_` – else `None` -/
def RS.first (rs : RS R) (resolve : Bool) : RS R × Except Err (Option (Val R)) :=
  match rs.ids with
  | .coll [] => (rs, .ok none)
  | .coll (x :: _) => (rs, .ok (some (rs.present resolve x)))
  | .stream g =>
    match g.next with
    | (g', .item x) => ({ rs with ids := .stream (g'.chain1 x) }, .ok (some (rs.present resolve x)))
    | (g', .stop) => ({ rs with ids := .stream g' }, .ok none)
    | (g', .raised ds) => ({ rs with ids := .stream g' }, .error (.unsortable ds))

/-- `rs.one(resolve)` -/
def RS.one (rs : RS R) (resolve : Bool) : RS R × Except Err (Option (Val R)) :=
  if rs.numids = 1 then rs.first resolve
  else if rs.numids > 1 then (rs, .error .multipleResults)
  else (rs, .error .noResults)

/-- `list(rs.all(resolve))` drained item by item: the items and the exception that ended it -/
def RS.all (rs : RS R) (resolve : Bool) : RS R × List (Val R) × Option Err :=
  let c := rs.ids.contents
  ({ rs with ids := rs.ids.exhausted }, c.1.map (rs.present resolve), c.2.map Err.unsortable)

/-- `list(rs)` = `list(iter(rs.all()))` -/
def RS.iter (rs : RS R) : RS R × List (Val R) × Option Err := rs.all true

/-- `list(itertools.islice(iter(rs), k))` -/
def RS.take (rs : RS R) (k : Nat) : RS R × List (Val R) × Option Err :=
  let t := rs.ids.take k
  ({ rs with ids := t.1 }, t.2.1.map (rs.present true), t.2.2.map Err.unsortable)

/-- an index as `ResultSet.sort` sees it: `index.sort(docids, reverse, limit, sort_type, raise_unsortable)` -/
abbrev IndexSort := List Int → Bool → Option Int → Option SortType → Bool → SortRes

/-- what `index.sort` returned, as an `ids` object -/
def ofSortRes : SortRes → Except Err Ids
  | .valueError => .error .valueError
  | .unsortableAtCall ds => .error (.unsortable ds)
  | .emptyList => .ok (.coll [])
  | .gen g => .ok (.stream { ids := g.ids, raises := g.raised })

/-- `if limit: numids = min(numids, limit)` -/
def limitNumids (numids : Nat) (limit : Option Int) : Nat :=
  match limit with
  | none => numids
  | some l => if l = 0 then numids else min numids l.toNat

/-- `if sort_type is None: sort_type = self.sort_type` -/
def RS.effType (rs : RS R) (st : Option SortType) : Option SortType :=
  match st with
  | none => rs.sortType
  | some x => some x

/-- `rs.sort(index, reverse, limit, sort_type, raise_unsortable)` -/
def RS.sort (rs : RS R) (idx : IndexSort) (reverse : Bool) (limit : Option Int)
    (st : Option SortType) (raiseU : Bool) : RS R × Except Err (RS R) :=
  let st := rs.effType st
  -- "indexes have no obligation to be able to sort generators": ids = list(ids); self.ids = ids
  match rs.ids.materialise with
  | (ids', .error ds) => ({ rs with ids := ids' }, .error (.unsortable ds))
  | (_, .ok xs) =>
    let rs' := { rs with ids := .coll xs }
    match ofSortRes (idx xs reverse limit st raiseU) with
    | .error e => (rs', .error e)
    | .ok ids => (rs', .ok { ids := ids, numids := limitNumids rs.numids limit,
                             resolver := rs.resolver, sortType := some .stable })

/-- the list comprehension of `intersect` once `docids` supports membership tests -/
def RS.intersectWith (rs : RS R) (docids : List Int) : RS R × Except Err (RS R) :=
  let c := rs.ids.contents
  let rs' := { rs with ids := rs.ids.exhausted }
  match c.2 with
  | some ds => (rs', .error (.unsortable ds))
  | none =>
    let filtered := c.1.filter (fun x => decide (x ∈ docids))
    (rs', .ok { ids := .coll filtered, numids := filtered.length, resolver := rs.resolver })

/-- `rs.intersect(other)` with `other` a ResultSet (a one-shot `other.ids` is materialised and stored
back); returns the receiver, the other result set, and the result -/
def RS.intersectRS (rs other : RS R) : RS R × RS R × Except Err (RS R) :=
  match other.ids with
  | .coll xs => let r := rs.intersectWith xs; (r.1, other, r.2)
  | .stream _ =>
    match other.ids.materialise with
    | (ids', .error ds) => (rs, { other with ids := ids' }, .error (.unsortable ds))
    | (_, .ok xs) => let r := rs.intersectWith xs; (r.1, { other with ids := .coll xs }, r.2)

/-- `rs.intersect(docids)` with `docids` a collection or a one-shot iterator (no `__contains__`:
`docids = list(docids)`); returns the receiver, the argument afterwards, and the result -/
def RS.intersectIds (rs : RS R) (docids : Ids) : RS R × Ids × Except Err (RS R) :=
  match docids with
  | .coll xs => let r := rs.intersectWith xs; (r.1, docids, r.2)
  | .stream _ =>
    match docids.materialise with
    | (ids', .error ds) => (rs, ids', .error (.unsortable ds))
    | (ids', .ok xs) => let r := rs.intersectWith xs; (r.1, ids', r.2)

/-- `BaseIndexMixin.resultset_from_query`: `ResultSet(docids, len(docids), resolver)` -/
def ofQuery (docids : List Int) (resolver : Option (Int → R)) : RS R :=
  { ids := .coll docids, numids := docids.length, resolver := resolver }

end Hyp.RSet
