import HypatiaModel.ResultSet

/-!
# The iterator objects behind a one-shot `ids`, and what a caller can hold on to  (C11)

`ResultSet.all()` hands out `self.ids` itself (no resolver / `resolve=False`) or a generator
`_resolve_all` whose body - `for id_ in self.ids: yield resolver(id_)` - only starts, and only then reads
`self.ids`, at the first `next()`.  `iter(rs)` is `iter(rs.all())`.  A caller may keep such an object
(`docs = rs.all()`), call other methods, and loop later.  With a one-shot `ids` the objects matter:

* `first()` pulls one id from the CURRENT `self.ids` object and rebinds `self.ids = chain([id], old)`.  The
  objects form a tower: a base generator, and `height` chain objects on top of each other; only the top one
  can still hold its own one-element prefix (`topLen`), every lower one has yielded its prefix to the
  `first()` that stacked the next object on it.  The result set's stream value (`Hyp.RSet.Stream`) is the
  top prefix followed by what the base will still yield.
* an object of the tower a caller kept is the top object (it yields exactly the stream) or a lower one (it
  yields the stream without the top prefix, and pulls from the base behind the result set's back).
* `sort` / `intersect` materialise the stream: every object of the tower is exhausted afterwards.

A resolver may raise (a stale docid): the generator that called it is finished from then on, the id it had
pulled is gone from the one-shot iterator underneath.
-/
namespace Hyp.RSet.Obj
open Hyp.RSet

/-- identity and shape of the tower of iterator objects behind a stream-valued `ids` -/
structure Tower where
  obj : Nat
  height : Nat
  topLen : Nat
  deriving DecidableEq, Repr

/-- the tower after an operation of the result set turned its stream `g` into `g'`: `first()` that found an
id stacked a new chain object holding it; everything else only pulled from the top object -/
def Tower.sync (t : Tower) (pushed : Bool) (g g' : Stream) : Tower :=
  if pushed then { t with height := t.height + 1, topLen := 1 }
  else { t with topLen := t.topLen - (g.ids.length - g'.ids.length) }

/-- the ids the object at `level` can still yield -/
def avail (t : Tower) (level : Nat) (g : Stream) : List Int :=
  if level = t.height then g.ids else g.ids.drop t.topLen

/-- `n` successful `next()` calls on the object at `level` (`n ≤ (avail t level g).length`) -/
def consume (t : Tower) (level n : Nat) (g : Stream) : Tower × Stream :=
  if level = t.height then ({ t with topLen := t.topLen - n }, { g with ids := g.ids.drop n })
  else (t, { g with ids := g.ids.take t.topLen ++ (g.ids.drop t.topLen).drop n })

/-- one more `next()` when nothing is available: the base generator ends, or raises and is closed -/
def finish (g : Stream) : Stream × Option (List Int) := ({ g with raises := none }, g.raises)

/-- what `k` `next()` calls (`none`: until it ends) on an iterator that can still yield `av` amount to, the
items going through `res` (which raises where `bad` holds) -/
structure Pulled (R : Type) where
  n : Nat
  items : List (Val R)
  hitEnd : Bool
  failed : Bool

def plan {R : Type} (av : List Int) (k : Option Nat) (res : Option (Int → R)) (bad : R → Bool) : Pulled R :=
  let want := match k with | none => av.length + 1 | some k => k
  let cand := av.take want
  match res with
  | none => { n := cand.length, items := cand.map Val.id, hitEnd := decide (want > av.length), failed := false }
  | some f =>
    let good := cand.takeWhile (fun d => !bad (f d))
    if good.length < cand.length then
      { n := good.length + 1, items := good.map (fun d => Val.obj (f d)), hitEnd := false, failed := true }
    else
      { n := cand.length, items := cand.map (fun d => Val.obj (f d)), hitEnd := decide (want > av.length),
        failed := false }

/-- an object a caller got from `all()` / `iter()` and still holds -/
inductive Handle (R : Type) where
  /-- the collection itself (`all()` of a list-backed result without resolver): every loop starts afresh -/
  | coll (xs : List Int)
  /-- a private one-shot iterator: a list iterator, or a `_resolve_all` generator bound to one -/
  | own (g : Stream) (res : Option (Int → R))
  /-- the object at `level` of the tower `obj` of result set `slot` (through `res`: a started generator) -/
  | alias (slot obj level : Nat) (res : Option (Int → R))
  /-- a `_resolve_all` generator whose body has not started: it will read `slot.ids` when it does -/
  | lazy (slot : Nat) (f : Int → R)
  /-- a finished generator -/
  | dead

/-- `rs.all(resolve)` -/
def allHandle {R : Type} (slot : Nat) (rs : RS R) (t : Option Tower) (resolve : Bool) : Handle R :=
  match rs.resolver, resolve with
  | some f, true => .lazy slot f
  | _, _ =>
    match rs.ids, t with
    | .coll xs, _ => .coll xs
    | .stream _, some t => .alias slot t.obj t.height none
    | .stream _, none => .dead

/-- `iter(rs)` = `iter(rs.all())` -/
def iterHandle {R : Type} (slot : Nat) (rs : RS R) (t : Option Tower) : Handle R :=
  match allHandle slot rs t true with
  | .coll xs => .own { ids := xs } none
  | h => h

/-- the first `next()` of a `_resolve_all` generator: `for id_ in self.ids` binds what `ids` is NOW -/
def start {R : Type} (slot : Nat) (rs : RS R) (t : Option Tower) (f : Int → R) : Handle R :=
  match rs.ids, t with
  | .coll xs, _ => .own { ids := xs } (some f)
  | .stream _, some t => .alias slot t.obj t.height (some f)
  | .stream _, none => .dead

end Hyp.RSet.Obj
