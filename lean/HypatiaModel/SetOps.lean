import HypatiaModel.Prim.AMap
import HypatiaModel.Prim.Sort
import HypatiaModel.Prim.Scalar
import HypatiaModel.NBest

/-!
# hypatia.text.setops

`mass_weightedIntersection`, `mass_weightedUnion`, `_trivial` over docid → score maps
(`WMap α`, an association list; BTrees hands the keys out in ascending order, the driver sorts
on output).  Scores and weights are `[Scalar α]`.

BTrees behaviour assumed (definitions `wUnion`, `wInter`; exercised by the correspondence run):
`IF.weightedUnion(x, y, wx, wy)[1]` maps a key of both to `wx·x[k] + wy·y[k]`, a key of only
`x` to `wx·x[k]`, a key of only `y` to `wy·y[k]`; `IF.weightedIntersection(x, y, wx, wy)[1]`
keeps the keys of both with `wx·x[k] + wy·y[k]`.  `len(x)` is the number of keys.
-/
namespace Hyp.SetOps
open Hyp

abbrev WMap (α : Type) := AMap Int α

inductive Err where
  | indexError       -- `pop_smallest()` on an empty queue
  | valueError       -- `(x, wx), (y, wy) = L[:2]` with fewer than two entries
  | assertionError   -- `assert len(L) <= 1` in `_trivial`
deriving Repr, DecidableEq

variable {α : Type} [Scalar α]

/-- `family.IF.weightedUnion(x, y, wx, wy)[1]` -/
def wUnion (x y : WMap α) (wx wy : α) : WMap α :=
  x.map (fun p => (p.1, match AMap.get y p.1 with
                        | some v => wx * p.2 + wy * v
                        | none => wx * p.2))
  ++ (y.filter (fun p => !(AMap.contains x p.1))).map (fun p => (p.1, wy * p.2))

/-- `family.IF.weightedIntersection(x, y, wx, wy)[1]` -/
def wInter (x y : WMap α) (wx wy : α) : WMap α :=
  x.filterMap (fun p => match AMap.get y p.1 with
                        | some v => some (p.1, wx * p.2 + wy * v)
                        | none => none)

/-- what `_trivial` hands back: the operand object itself or a new bucket -/
inductive Triv (α : Type) where
  | operand (m : WMap α)   -- `return result` with `weight == 1`: the caller's own map
  | fresh (m : WMap α)

def Triv.val : Triv α → WMap α
  | .operand m => m
  | .fresh m => m

/-- `_trivial(L, family)` -/
def trivial (L : List (WMap α × α)) : Except Err (Triv α) :=
  match L with
  | [] => .ok (.fresh [])
  | [(m, w)] =>
    if Scalar.beq w (Scalar.nat 1) then .ok (.operand m)
    else .ok (.fresh (wUnion [] m (Scalar.nat 0) w))
  | _ :: _ :: _ => .error .assertionError

/-- `sorted(L, key=lambda x: len(x[0]))` (stable) -/
def sortBySize (L : List (WMap α × α)) : List (WMap α × α) :=
  Sort.isort (fun a b => decide (a.1.length ≤ b.1.length)) L

/-- `mass_weightedIntersection(L, family)`; a `none` map is Python's `None` -/
def massInterT (L : List (Option (WMap α) × α)) : Except Err (Triv α) :=
  let L1 := L.filterMap (fun p => p.1.map (fun x => (x, p.2)))
  if L1.length < 2 then trivial L1
  else
    match sortBySize L1 with
    | (x, wx) :: (y, wy) :: rest =>
      .ok (.fresh (rest.foldl (fun acc p => wInter acc p.1 (Scalar.nat 1) p.2) (wInter x y wx wy)))
    | _ => .error .valueError

def massInter (L : List (Option (WMap α) × α)) : Except Err (WMap α) :=
  (massInterT L).map Triv.val

abbrev Queue (α : Type) := NBest.State (WMap α × α) Nat

/-- the `while len(merge) > 1` loop and the final `pop_smallest` of `mass_weightedUnion` -/
def mergeLoop (q : Queue α) : Except Err (WMap α) :=
  match h : q.l with
  | [] => .error .indexError
  | [((r, _), _)] => .ok r
  | ((x, wx), _) :: ((y, wy), _) :: rest =>
    let z := wUnion x y wx wy
    mergeLoop (NBest.add { q with l := rest } ((z, Scalar.nat 1), z.length))
termination_by q.l.length
decreasing_by
  have := NBest.length_add_le { q with l := rest } ((wUnion x y wx wy, Scalar.nat 1), (wUnion x y wx wy).length)
  simp only [h, List.length_cons] at this ⊢
  omega

/-- `mass_weightedUnion(L, family)` -/
def massUnionT (L : List (WMap α × α)) : Except Err (Triv α) :=
  if L.length < 2 then trivial L
  else
    let merge : Queue α := { cap := L.length }
    let merge := L.foldl (fun q p => NBest.add q (p, p.1.length)) merge
    (mergeLoop merge).map .fresh

def massUnion (L : List (WMap α × α)) : Except Err (WMap α) :=
  (massUnionT L).map Triv.val

end Hyp.SetOps
