import HypatiaModel.Catalog
import HypatiaModel.Spec.FieldSpec
import HypatiaModel.Spec.KeywordSpec
import HypatiaModel.Spec.FacetSpec

/-!
# Specification vocabulary for the catalog (C12)

**Fan-out.**  Each index is looked at *on its own*: `project pre disc op` is the list of calls
(none or one) that an index with discriminator `disc`, standing behind the indexes `pre`, receives for the catalog
call `op`, with the value *its own* discriminator extracts; `standalone` performs exactly
these calls on every index separately.  An index sees an `index`/`reindex` call iff the docid
is an integer (`bool` counts: Python's `bool` is an `int`; the id is then 1 / 0) and no index
in front of it raised for this document (`ValueError` for a persistent/broken value,
`TypeError` for a `str` under a keyword index) – the catalog does not roll back.

**Legacy search.**  `fieldPred`/`kwAnswer` give the meaning of a legacy query argument over the
index's document table: value → equal, 2-tuple → inclusive range, `RangeValue` → range with
open ends, list → any member, dict → any (`or`, the field index's default, or any unknown
operator on a field index) / all (`and`, the keyword index's default; all of nothing is nothing).
The answer of the search is `interAll` of the answers of the queried indexes: in the unordered
mode all keyword arguments, in the ordered mode **only the indexes named in
`index_query_order`** that also have a query argument (a query for an index not named there is
ignored).  No queried index → nothing (not everything).  `num` is the size of the intersection,
capped by `limit` only when a sort index is given (without a sort index `limit` is ignored).
-/
namespace Hyp.Catalog.Spec
open Hyp Hyp.Legacy Hyp.Catalog

variable {Doc : Type}

/-! ## fan-out -/

/-- a call as one index receives it -/
inductive IxOp where
  | index (d : Int) (v : Disc)       -- `index_doc` / `reindex_doc` with the discriminated value
  | unindex (d : Int)
  | reset

/-- performing the call on the index itself -/
def stepOp (ix : Index) : IxOp → Index
  | .index d v => (ix.indexDoc d v).1
  | .unindex d => ix.unindexDoc d
  | .reset => ix.reset

def runOps (ix : Index) (ops : List IxOp) : Index := ops.foldl stepOp ix

/-- what the fan-out needs to know of an index standing in front: its kind and discriminator -/
abbrev Cfg (Doc : Type) := Kind × (Doc → Disc)

def cfgOf (e : Entry Doc) : Cfg Doc := (e.ix.kind, e.disc)

/-- an index of this kind with this discriminator raises for this document -/
def raises (k : Cfg Doc) (obj : Doc) : Bool := k.1.rejects (k.2 obj)

/-- the calls an index with discriminator `disc`, standing behind indexes `pre`, receives for one
catalog call -/
def project (pre : List (Cfg Doc)) (disc : Doc → Disc) : Op Doc → List IxOp
  | .index d obj | .reindex d obj =>
    match assertint d with
    | none => []
    | some n => if pre.any (raises · obj) then [] else [.index n (disc obj)]
  | .unindex d =>
    match assertint d with
    | none => []
    | some n => [.unindex n]
  | .reset => [.reset]

/-- every index on its own, each with its own projected history -/
def standalone (pre : List (Cfg Doc)) : List (Entry Doc) → List (Op Doc) → List (Entry Doc)
  | [], _ => []
  | e :: es, h =>
    { e with ix := runOps e.ix (h.flatMap (project pre e.disc)) } :: standalone (pre ++ [cfgOf e]) es h

/-- the exception of one catalog call: bad docid, else that of the first index that raises -/
def raised (c : Cat Doc) : Op Doc → Option Err
  | .index d obj | .reindex d obj =>
    match assertint d with
    | none => some .valueError
    | some _ => (c.find? (fun e => raises (cfgOf e) obj)).bind (fun e => e.ix.kind.error (e.disc obj))
  | .unindex d =>
    match assertint d with
    | none => some .valueError
    | some _ => none
  | .reset => none

/-! the received calls as histories of the stand-alone index models -/

def fieldOp : IxOp → Option (Field.Op Int)
  | .index d .missing => some (.index d none)
  | .index d (.value (.int v)) => some (.index d (some v))
  | .index _ _ => none                                  -- rejected: the index is not touched
  | .unindex d => some (.unindex d)
  | .reset => some .reset

def kwOp : IxOp → Option (Keyword.Op Int)
  | .index d .missing => some (.index d none)
  | .index d (.value (.kws l)) => some (.index d (some l))
  | .index d (.value .str) => some (.indexStr d)        -- TypeError after un-marking the docid
  | .index _ _ => none
  | .unindex d => some (.unindex d)
  | .reset => some .reset

def facetOp : IxOp → Option Facet.Op
  | .index d .missing => some (.index d none)
  | .index d (.value (.paths l)) => some (.index d (some l))
  | .index _ _ => none
  | .unindex d => some (.unindex d)
  | .reset => some .reset

/-! ## legacy query arguments -/

def elemSat : Elem Int → Int → Bool
  | .val c, v => decide (v = c)
  | .range lo hi, v => Field.inLo lo false v && Field.inHi hi false v

/-- the members of a dict's `'query'` entry -/
def members {α : Type} : Shape α → List (Elem α)
  | .bare e => [e]
  | .pair a b => [.val a, .val b]
  | .seq es => es

/-- the condition on a document's value that a field-index query argument expresses -/
def fieldPred : LQ Int → Except Err (Int → Bool)
  | .plain (.bare e) => .ok (elemSat e)
  | .plain (.pair a b) => .ok (fun v => decide (a ≤ v) && decide (v ≤ b))
  | .plain (.seq es) => .ok (fun v => es.any (elemSat · v))
  | .dict _ none => .error .keyError
  | .dict (some .and) (some sh) => .ok (fun v => !(members sh).isEmpty && (members sh).all (elemSat · v))
  | .dict _ (some sh) => .ok (fun v => (members sh).any (elemSat · v))

def fieldAnswer (t : Field.Spec.Table Int) (q : LQ Int) : Except Err IdSet :=
  (fieldPred q).map (Field.Spec.sat t)

/-- a keyword-index query argument over the keyword table (default operator: `and`) -/
def kwAnswer {K : Type} [DecidableEq K] (t : Keyword.Spec.Table K) : LQ K → Except Err IdSet
  | .dict _ none => .error .keyError
  | .dict op (some sh) => go sh (op.getD .and)
  | .plain sh => go sh .and
where
  go (sh : Shape K) (op : Oper) : Except Err IdSet :=
    match sh with
    | .bare (.range _ _) => .error .typeError
    | sh =>
      match words (members sh) with
      | none => .error .unmodelled
      | some ws =>
        match op with
        | .or => .ok (Keyword.Spec.any t ws)
        | .and => .ok (Keyword.Spec.all t ws)
        | .other => .error .typeError

/-- two answers agree: the same exception, or the same set of ids -/
def SameAnswer (a b : Except Err IdSet) : Prop :=
  match a, b with
  | .ok x, .ok y => ∀ d, d ∈ x ↔ d ∈ y
  | .error e, .error e' => e = e'
  | _, _ => False

/-! ## an index inside a catalog, specified from its own projected history -/

/-- a newly created index (nothing indexed yet) -/
def Fresh : Index → Prop
  | .field s => s = Field.init
  | .keyword s => s = Keyword.init
  | .facet s => ∃ F, s = Facet.init F

/-- the specification's answer of an index created as `ix0` that received the calls `ops` -/
def tableAnswer (ix0 : Index) (ops : List IxOp) (q : QArg) : Except Err IdSet :=
  match ix0, q with
  | .field _, .int q => fieldAnswer (Field.Spec.table (ops.filterMap fieldOp)) q
  | .keyword _, .int q => kwAnswer (Keyword.Spec.table (ops.filterMap kwOp)) q
  | .facet s, .fac q =>
    kwAnswer (Facet.Spec.kwTable s.facets (Facet.Spec.table (ops.filterMap facetOp))) q
  | _, _ => .error .unmodelled

/-- the specification's answer of the index named `t.1` in the catalog created as `es` (standing
behind `P`) after history `h`: computed from the table of that index's own projected history -/
def specResolveAux (h : List (Op Doc)) (t : String × QArg) :
    List (Cfg Doc) → List (Entry Doc) → Except Err IdSet
  | _, [] => .error .valueError
  | P, e :: es =>
    if e.name == t.1 then tableAnswer e.ix (h.flatMap (project P e.disc)) t.2
    else specResolveAux h t (P ++ [cfgOf e]) es

def specResolve (c0 : Cat Doc) (h : List (Op Doc)) (t : String × QArg) : Except Err IdSet :=
  specResolveAux h t [] c0

/-! ## search -/

/-- intersection of the answers of the queried indexes; none queried → nothing -/
def interAll : List IdSet → IdSet
  | [] => []
  | s :: rest => s.filter (fun d => rest.all (fun r => decide (d ∈ r)))

/-- unordered mode, exceptions included: answers are computed in call order; an exception
propagates unless an earlier answer was already empty -/
def unordered : List (Except Err IdSet) → List IdSet → Except Err IdSet
  | [], acc => .ok (interAll acc.reverse)
  | .error e :: _, _ => .error e
  | .ok s :: rest, acc => if s = [] then .ok [] else unordered rest (s :: acc)

/-- ordered mode, exceptions included: an exception propagates unless the intersection so far
was already empty -/
def orderedGo : List (Except Err IdSet) → List IdSet → Except Err IdSet
  | [], acc => .ok (interAll acc.reverse)
  | .error e :: _, _ => .error e
  | .ok s :: rest, acc =>
    if interAll (acc.reverse ++ [s]) = [] then .ok [] else orderedGo rest (s :: acc)

/-- the `(name, query)` pairs that take part in the ordered mode -/
def applicable (terms : List (String × QArg)) (order : List String) : List (String × QArg) :=
  order.filterMap (fun n => (terms.lookup n).map (fun q => (n, q)))

/-- `num` of the returned pair -/
def num (size : Nat) (sortIndex : Option String) (limit : Option Int) : Nat :=
  match sortIndex, limit with
  | some _, some l => min size l.toNat
  | _, _ => size

/-- the sort contract (C07) over the sort index's table, as the sequence of *values* of the
ids produced (tie order is free) and whether `Unsortable` follows -/
def sortKeys (t : Field.Spec.Table Int) (ids : IdSet) (reverse : Bool) (limit : Option Int) :
    List Int × Bool :=
  let vals := ids.filterMap (Field.Spec.valueOf t)
  let sorted := Sort.isort (fun a b => if reverse then decide (b ≤ a) else decide (a ≤ b)) vals
  match limit with
  | some l => (sorted.take l.toNat, decide (vals.length < ids.length) && decide (vals.length < l.toNat))
  | none => (sorted, decide (vals.length < ids.length))

end Hyp.Catalog.Spec
