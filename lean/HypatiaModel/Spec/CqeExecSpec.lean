import HypatiaModel.Spec.CqeSpec
import HypatiaModel.CqeExec

/-!
# Specification vocabulary of C10 → C04: the hand-built tree with the names substituted
-/
namespace Hyp.Cqe

mutual
/-- the hand-built tree with every name of every leaf value replaced by its binding – the object one would
build by hand from the bound values (`none`: some name is unbound) -/
def Q.substW (σ : String → Option W) : Q → Option W
  | .cmp c i v => (v.subst σ).map (.cmp c i)
  | .range n i s e sx ex => match s.subst σ, e.subst σ with
    | some a, some b => some (.range n i a b sx ex)
    | _, _ => none
  | .and l => (Q.substWL σ l).map .and
  | .or l => (Q.substWL σ l).map .or
  | .not q => (Q.substW σ q).map .not
def Q.substWL (σ : String → Option W) : List Q → Option (List W)
  | [] => some []
  | q :: qs => match Q.substW σ q, Q.substWL σ qs with
    | some w, some ws => some (w :: ws)
    | _, _ => none
end

mutual
/-- the names occurring in the leaf values of a tree -/
def Q.names : Q → List String
  | .cmp _ _ v => v.names
  | .range _ _ s e _ _ => s.names ++ e.names
  | .and l => Q.namesL l
  | .or l => Q.namesL l
  | .not q => Q.names q
def Q.namesL : List Q → List String
  | [] => []
  | q :: qs => Q.names q ++ Q.namesL qs
end

/-- the substituted hand-built tree as a tree of the query algebra of C04/C05 -/
def Q.substQuery? (ix : String → Option Nat) (σ : String → Option W) (q : Q) : Option Hyp.Query.Q :=
  (q.substW σ).bind (W.toQuery? ix)

end Hyp.Cqe
