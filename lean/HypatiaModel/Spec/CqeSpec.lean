import HypatiaModel.Cqe

/-!
# Specification vocabulary of C10: the expression language

* `V`, `Q` – the trees one builds **by hand** with the query classes: values (constants, `Name`s,
  lists, tuples) and comparators / ranges / `And` / `Or` / `Not`; `embedV`, `embed` say which Python
  object a tree stands for, `Q.mk` is what the `And(..)` / `Or(..)` constructors build.
* `SV`, `Sx` – the **spellings**: the surface syntax of the documented expression language
  (`index <op> value`, `lo <[=] index <[=] hi`, `value [not] in index`, `index [not] in any(v)/all(v)`,
  `and`/`or`/`not`, `&`/`|`; values: literals, `-x`, `+x`, dotted names, lists, tuples).
  Parentheses leave no trace in Python's AST: they are the nesting of `Sx`.
  `Sx.toAst` is the AST CPython's grammar gives a spelling (validated against the real `ast.parse`
  on every run), `Sx.tree` the query tree it denotes.
* `unparse` – the recogniser of the language on ASTs (inverse of `toAst`).
* `V.subst` – a value with every name replaced by its binding; `structEq` – structural identity.
-/
namespace Hyp.Cqe
open Hyp.Query (Cmp)

/-! ## hand-built trees -/

inductive V where
  | const (c : Const)
  | name (n : String)                 -- Name('n')
  | list (l : List V)
  | tuple (l : List V)
deriving Repr, Inhabited

inductive Q where
  | cmp (c : Cmp) (idx : String) (v : V)
  | range (neg : Bool) (idx : String) (s e : V) (sx ex : Bool)    -- InRange / NotInRange
  | and (l : List Q)
  | or (l : List Q)
  | not (q : Q)
deriving Repr, Inhabited

mutual
def embedV : V → W
  | .const c => .const c
  | .name n => .nameObj n
  | .list l => .list (embedVs l)
  | .tuple l => .tuple (embedVs l)
def embedVs : List V → List W
  | [] => []
  | v :: vs => embedV v :: embedVs vs
end

mutual
/-- the Python object a tree stands for -/
def embed : Q → W
  | .cmp c i v => .cmp c i (embedV v)
  | .range n i s e sx ex => .range n i (embedV s) (embedV e) sx ex
  | .and l => .and (embedL l)
  | .or l => .or (embedL l)
  | .not q => .not (embed q)
def embedL : List Q → List W
  | [] => []
  | q :: qs => embed q :: embedL qs
end

mutual
/-- partial inverse of `embedV`: is this object a value of the language? -/
def unembedV : W → Option V
  | .const c => some (.const c)
  | .nameObj n => some (.name n)
  | .list l => (unembedVs l).map .list
  | .tuple l => (unembedVs l).map .tuple
  | _ => none
def unembedVs : List W → Option (List V)
  | [] => some []
  | w :: ws => match unembedV w, unembedVs ws with
    | some v, some vs => some (v :: vs)
    | _, _ => none
end

mutual
/-- partial inverse of `embed`: is this object a query tree over values of the language? -/
def unembed : W → Option Q
  | .cmp c i v => (unembedV v).map (.cmp c i)
  | .range n i s e sx ex => match unembedV s, unembedV e with
    | some s', some e' => some (.range n i s' e' sx ex)
    | _, _ => none
  | .and l => (unembedL l).map .and
  | .or l => (unembedL l).map .or
  | .not q => (unembed q).map .not
  | _ => none
def unembedL : List W → Option (List Q)
  | [] => some []
  | w :: ws => match unembed w, unembedL ws with
    | some q, some qs => some (q :: qs)
    | _, _ => none
end

/-- `And(*qs)` / `Or(*qs)` built by hand: same-class operands are promoted one level -/
def Q.flatOf (k : BoolK) : Q → List Q
  | .and xs => match k with | .and => xs | .or => [.and xs]
  | .or xs => match k with | .or => xs | .and => [.or xs]
  | q => [q]

def Q.mk (k : BoolK) (qs : List Q) : Q :=
  match k with
  | .and => .and (qs.flatMap (Q.flatOf .and))
  | .or => .or (qs.flatMap (Q.flatOf .or))

/-! ## spellings -/

/-- `NAME ('.' NAME)*` -/
structure Dotted where
  head : String
  tail : List String
deriving Repr, Inhabited, DecidableEq

/-- the name the walk builds: `'.'.join(...)` -/
def Dotted.id (d : Dotted) : String := d.tail.foldl (fun acc x => acc ++ "." ++ x) d.head

def Dotted.toAst (d : Dotted) : PyAst := d.tail.foldl PyAst.attribute (.name d.head)

inductive SV where
  | lit (c : Const)               -- a literal (numbers unsigned, adjacent string literals joined)
  | neg (v : SV)                  -- '-' v
  | pos (v : SV)                  -- '+' v
  | name (d : Dotted)
  | list (l : List SV)            -- '[' v, … ']'
  | tuple (l : List SV)           -- '(' v, … ')'
deriving Repr, Inhabited

inductive Sx where
  | cmp (c : Cmp) (idx : Dotted) (v : SV)
  | range (idx : Dotted) (s e : SV) (sx ex : Bool)     -- s <[=] idx <[=] e
  | kw (k : BoolK) (l : List Sx)                       -- x and y and …   /   x or y or …
  | amp (k : BoolK) (l r : Sx)                         -- x & y   /   x | y
  | not (x : Sx)
deriving Repr, Inhabited

mutual
def SV.toAst : SV → PyAst
  | .lit c => .constant c
  | .neg v => .unaryOp .usub (SV.toAst v)
  | .pos v => .unaryOp .uadd (SV.toAst v)
  | .name d => d.toAst
  | .list l => .list (SV.toAsts l)
  | .tuple l => .tuple (SV.toAsts l)
def SV.toAsts : List SV → List PyAst
  | [] => []
  | v :: vs => SV.toAst v :: SV.toAsts vs
end

mutual
/-- the value a value spelling denotes (`-x`, `+x` need a number) -/
def SV.val : SV → Option V
  | .lit c => some (.const c)
  | .neg v => match SV.val v with
    | some (.const c) => (c.neg?).map .const
    | _ => none
  | .pos v => match SV.val v with
    | some (.const c) => (c.pos?).map .const
    | _ => none
  | .name d => some (.name d.id)
  | .list l => (SV.vals l).map .list
  | .tuple l => (SV.vals l).map .tuple
def SV.vals : List SV → Option (List V)
  | [] => some []
  | v :: vs => match SV.val v, SV.vals vs with
    | some x, some xs => some (x :: xs)
    | _, _ => none
end

def callAst (fn : String) (arg : PyAst) : PyAst := .call (.name fn) [arg]

/-- AST of `index <op> value` etc. for the twelve comparators -/
def cmpAst (c : Cmp) (idx v : PyAst) : PyAst :=
  match c with
  | .eq => .compare idx [(.eq, v)]
  | .noteq => .compare idx [(.notEq, v)]
  | .lt => .compare idx [(.lt, v)]
  | .le => .compare idx [(.ltE, v)]
  | .gt => .compare idx [(.gt, v)]
  | .ge => .compare idx [(.gtE, v)]
  | .contains => .compare v [(.inOp, idx)]
  | .notcontains => .compare v [(.notIn, idx)]
  | .any => .compare idx [(.inOp, callAst "any" v)]
  | .notany => .compare idx [(.notIn, callAst "any" v)]
  | .all => .compare idx [(.inOp, callAst "all" v)]
  | .notall => .compare idx [(.notIn, callAst "all" v)]

def ltOp (exclusive : Bool) : CmpOp := if exclusive then .lt else .ltE

def ampOp : BoolK → BinOp
  | .and => .bitAnd
  | .or => .bitOr

mutual
/-- the AST of a spelling -/
def Sx.toAst : Sx → PyAst
  | .cmp c idx v => cmpAst c idx.toAst v.toAst
  | .range idx s e sx ex => .compare s.toAst [(ltOp sx, idx.toAst), (ltOp ex, e.toAst)]
  | .kw k l => .boolOp k (Sx.toAsts l)
  | .amp k l r => .binOp (Sx.toAst l) (ampOp k) (Sx.toAst r)
  | .not x => .unaryOp .not (Sx.toAst x)
def Sx.toAsts : List Sx → List PyAst
  | [] => []
  | x :: xs => Sx.toAst x :: Sx.toAsts xs
end

mutual
/-- the tree a spelling denotes: what the query classes build from its parts -/
def Sx.tree : Sx → Option Q
  | .cmp c idx v => (v.val).map (.cmp c idx.id)
  | .range idx s e sx ex => match s.val, e.val with
    | some s', some e' => some (.range false idx.id s' e' sx ex)
    | _, _ => none
  | .kw k l => (Sx.trees l).map (Q.mk k)
  | .amp k l r => match Sx.tree l, Sx.tree r with
    | some a, some b => some (Q.mk k [a, b])
    | _, _ => none
  | .not x => (Sx.tree x).map .not
def Sx.trees : List Sx → Option (List Q)
  | [] => some []
  | x :: xs => match Sx.tree x, Sx.trees xs with
    | some q, some qs => some (q :: qs)
    | _, _ => none
end

mutual
/-- every index named by the spelling is in the catalog -/
def Sx.inCat (cat : List String) : Sx → Bool
  | .cmp _ idx _ => cat.contains idx.id
  | .range idx _ _ _ _ => cat.contains idx.id
  | .kw _ l => Sx.allInCat cat l
  | .amp _ l r => Sx.inCat cat l && Sx.inCat cat r
  | .not x => Sx.inCat cat x
def Sx.allInCat (cat : List String) : List Sx → Bool
  | [] => true
  | x :: xs => Sx.inCat cat x && Sx.allInCat cat xs
end

/-! ## the recogniser: which ASTs are spellings -/

def undot : PyAst → Option Dotted
  | .name id => some ⟨id, []⟩
  | .attribute v attr => (undot v).map (fun d => ⟨d.head, d.tail ++ [attr]⟩)
  | _ => none

mutual
def unparseV : PyAst → Option SV
  | .constant c => some (.lit c)
  | .unaryOp .usub a => (unparseV a).map .neg
  | .unaryOp .uadd a => (unparseV a).map .pos
  | .name id => some (.name ⟨id, []⟩)
  | .attribute v attr => (undot (.attribute v attr)).map .name
  | .list l => (unparseVs l).map .list
  | .tuple l => (unparseVs l).map .tuple
  | _ => none
def unparseVs : List PyAst → Option (List SV)
  | [] => some []
  | a :: as => match unparseV a, unparseVs as with
    | some v, some vs => some (v :: vs)
    | _, _ => none
end

def plainCmp : CmpOp → Option Cmp
  | .eq => some .eq
  | .notEq => some .noteq
  | .lt => some .lt
  | .ltE => some .le
  | .gt => some .gt
  | .gtE => some .ge
  | _ => none

def ltFlag : CmpOp → Option Bool
  | .lt => some true
  | .ltE => some false
  | _ => none

/-- `idx in any(v)` / `idx in all(v)` / `v in idx` (and the `not in` forms) -/
def unparseIn (neg : Bool) (l r : PyAst) : Option Sx :=
  match r with
  | .call f args =>
    match f, args with
    | .name fn, [arg] =>
      if fn = "any" then
        match undot l, unparseV arg with
        | some idx, some v => some (.cmp (if neg then .notany else .any) idx v)
        | _, _ => none
      else if fn = "all" then
        match undot l, unparseV arg with
        | some idx, some v => some (.cmp (if neg then .notall else .all) idx v)
        | _, _ => none
      else none
    | _, _ => none
  | _ =>
    match undot r, unparseV l with
    | some idx, some v => some (.cmp (if neg then .notcontains else .contains) idx v)
    | _, _ => none

mutual
def unparse : PyAst → Option Sx
  | .compare l [(op, r)] =>
    match op with
    | .inOp => unparseIn false l r
    | .notIn => unparseIn true l r
    | op => match plainCmp op, undot l, unparseV r with
      | some c, some idx, some v => some (.cmp c idx v)
      | _, _, _ => none
  | .compare s [(o1, i), (o2, e)] =>
    match ltFlag o1, ltFlag o2, unparseV s, undot i, unparseV e with
    | some sx, some ex, some s', some idx, some e' => some (.range idx s' e' sx ex)
    | _, _, _, _, _ => none
  | .boolOp k l => (unparseL l).map (.kw k)
  | .binOp l .bitAnd r => match unparse l, unparse r with
    | some a, some b => some (.amp .and a b)
    | _, _ => none
  | .binOp l .bitOr r => match unparse l, unparse r with
    | some a, some b => some (.amp .or a b)
    | _, _ => none
  | .unaryOp .not x => (unparse x).map .not
  | _ => none
def unparseL : List PyAst → Option (List Sx)
  | [] => some []
  | a :: as => match unparse a, unparseL as with
    | some x, some xs => some (x :: xs)
    | _, _ => none
end

/-- the specification's answer for an AST: the tree of the spelling it is, if it is one whose
indexes exist -/
def specParse (cat : List String) (a : PyAst) : Option Q :=
  match unparse a with
  | some s => if s.inCat cat then s.tree else none
  | none => none

/-! ## substitution, structural identity -/

mutual
/-- the value with every name replaced by its binding (`none`: some name is unbound) -/
def V.subst (σ : String → Option W) : V → Option W
  | .const c => some (.const c)
  | .name n => σ n
  | .list l => (V.substs σ l).map .list
  | .tuple l => (V.substs σ l).map .tuple
def V.substs (σ : String → Option W) : List V → Option (List W)
  | [] => some []
  | v :: vs => match V.subst σ v, V.substs σ vs with
    | some w, some ws => some (w :: ws)
    | _, _ => none
end

mutual
/-- the names occurring in a value -/
def V.names : V → List String
  | .const _ => []
  | .name n => [n]
  | .list l => V.namesL l
  | .tuple l => V.namesL l
def V.namesL : List V → List String
  | [] => []
  | v :: vs => V.names v ++ V.namesL vs
end

mutual
/-- values equal in Python's sense: same shape, equal names, constants `==` -/
def valEq : V → V → Bool
  | .const a, .const b => a.pyEq b
  | .name a, .name b => a == b
  | .list a, .list b => valEqL a b
  | .tuple a, .tuple b => valEqL a b
  | _, _ => false
def valEqL : List V → List V → Bool
  | [], [] => true
  | a :: as, b :: bs => valEq a b && valEqL as bs
  | _, _ => false
end

mutual
/-- structural identity of trees built from comparators, ranges, And and Or: same constructors,
same index, same flags, same number of operands, leaf values equal in Python's sense -/
def structEq : Q → Q → Bool
  | .cmp c i v, .cmp c' i' v' => c == c' && (i == i' && valEq v v')
  | .range n i s e sx ex, .range n' i' s' e' sx' ex' =>
    n == n' && (i == i' && (valEq s s' && (valEq e e' && (sx == sx' && ex == ex'))))
  | .and a, .and b => structEqL a b
  | .or a, .or b => structEqL a b
  | _, _ => false
def structEqL : List Q → List Q → Bool
  | [], [] => true
  | a :: as, b :: bs => structEq a b && structEqL as bs
  | _, _ => false
end

mutual
/-- the comparator/range/And/Or fragment (no `Not`) -/
def Q.notFree : Q → Bool
  | .cmp _ _ _ => true
  | .range _ _ _ _ _ _ => true
  | .and l => Q.notFreeL l
  | .or l => Q.notFreeL l
  | .not _ => false
def Q.notFreeL : List Q → Bool
  | [] => true
  | q :: qs => Q.notFree q && Q.notFreeL qs
end

mutual
/-- flattened normal form without `NotInRange` (which has no spelling of its own): what a
spelling can denote -/
def Q.flat : Q → Bool
  | .cmp _ _ _ => true
  | .range n _ _ _ _ _ => !n
  | .and l => Q.flatL .and l
  | .or l => Q.flatL .or l
  | .not q => Q.flat q
def Q.flatL (k : BoolK) : List Q → Bool
  | [] => true
  | q :: qs =>
    (match k, q with
      | .and, .and _ => false
      | .or, .or _ => false
      | _, _ => true) && Q.flat q && Q.flatL k qs
end


/-! ## which trees have a spelling -/

/-- a constant that is one literal token: numbers are written unsigned, a complex literal is
purely imaginary -/
def Const.isLiteral : Const → Bool
  | .int i => decide (0 ≤ i)
  | .float f => !f.neg
  | .complex re im => decide (re = PyFloat.zero) && !im.neg
  | _ => true

/-- a constant that a literal, or `-` applied to a literal, evaluates to -/
def Const.spellable : Const → Bool
  | .complex re im => (decide (re = PyFloat.zero) && !im.neg) || (decide (re = PyFloat.zero.negate) && im.neg)
  | _ => true

mutual
def SV.litOk : SV → Bool
  | .lit c => c.isLiteral
  | .neg v => SV.litOk v
  | .pos v => SV.litOk v
  | .name _ => true
  | .list l => SV.litOkL l
  | .tuple l => SV.litOkL l
def SV.litOkL : List SV → Bool
  | [] => true
  | v :: vs => SV.litOk v && SV.litOkL vs
end

mutual
/-- every `lit` of the spelling is a literal token -/
def Sx.litOk : Sx → Bool
  | .cmp _ _ v => v.litOk
  | .range _ s e _ _ => s.litOk && e.litOk
  | .kw _ l => Sx.litOkL l
  | .amp _ l r => Sx.litOk l && Sx.litOk r
  | .not x => Sx.litOk x
def Sx.litOkL : List Sx → Bool
  | [] => true
  | x :: xs => Sx.litOk x && Sx.litOkL xs
end

mutual
def V.spellable : V → Bool
  | .const c => c.spellable
  | .name _ => true
  | .list l => V.spellableL l
  | .tuple l => V.spellableL l
def V.spellableL : List V → Bool
  | [] => true
  | v :: vs => V.spellable v && V.spellableL vs
end

mutual
def Q.spellable : Q → Bool
  | .cmp _ _ v => v.spellable
  | .range _ _ s e _ _ => s.spellable && e.spellable
  | .and l => Q.spellableL l
  | .or l => Q.spellableL l
  | .not q => Q.spellable q
def Q.spellableL : List Q → Bool
  | [] => true
  | q :: qs => Q.spellable q && Q.spellableL qs
end

mutual
/-- every index the tree refers to is in the catalog -/
def Q.inCat (cat : List String) : Q → Bool
  | .cmp _ i _ => cat.contains i
  | .range _ i _ _ _ _ => cat.contains i
  | .and l => Q.allInCat cat l
  | .or l => Q.allInCat cat l
  | .not q => Q.inCat cat q
def Q.allInCat (cat : List String) : List Q → Bool
  | [] => true
  | q :: qs => Q.inCat cat q && Q.allInCat cat qs
end

/-! ## where known finding D11 lives, syntactically -/

mutual
/-- the expression has the shape of a value: it can only evaluate to a value of the language
(or raise) -/
def valueShaped : PyAst → Bool
  | .constant _ => true
  | .name _ => true
  | .attribute _ _ => true
  | .list l => valueShapedL l
  | .tuple l => valueShapedL l
  | .unaryOp .usub x => valueShaped x
  | .unaryOp .uadd x => valueShaped x
  | .unaryOp .invert _ => true
  | .other _ _ => true
  | _ => false
def valueShapedL : List PyAst → Bool
  | [] => true
  | a :: as => valueShaped a && valueShapedL as
end

/-- the right operand of `in` / `not in`: a value, or a call whose argument is a value -/
def inOperandOk : PyAst → Bool
  | .call _ args => valueShapedL args
  | a => valueShaped a

def pairOk : CmpOp × PyAst → Bool
  | (.inOp, r) => inOperandOk r
  | (.notIn, r) => inOperandOk r
  | (_, r) => valueShaped r

mutual
/-- no bare value stands where a query is required (top level, operands of and/or/&/|/not) and no
query or call stands where a value is required -/
def noBare : PyAst → Bool
  | .compare l rest => valueShaped l && rest.all pairOk
  | .boolOp _ vs => noBareL vs
  | .binOp l _ r => noBare l && noBare r
  | .unaryOp .not x => noBare x
  | .unaryOp .invert _ => true
  | .other _ _ => true
  | _ => false
def noBareL : List PyAst → Bool
  | [] => true
  | a :: as => noBare a && noBareL as
end

/-! ## explicit embedding into the query algebra of C04/C05

`Hyp.Query.Q` (HypatiaModel/Query.lean) has integer values and numbered indexes; the trees of the
expression language whose values are integers (or lists/tuples of integers) embed into it, given a
numbering `ix` of the catalog's index names.  `Hyp.Query.Cmp` is shared. -/

def V.toInt? : V → Option Int
  | .const (.int i) => some i
  | _ => none

def V.toVal? : V → Option Hyp.Query.Val
  | .const (.int i) => some (.one i)
  | .list l => (l.mapM V.toInt?).map .many
  | .tuple l => (l.mapM V.toInt?).map .many
  | _ => none

mutual
def Q.toQuery? (ix : String → Option Nat) : Q → Option Hyp.Query.Q
  | .cmp c i v => match ix i, v.toVal? with
    | some n, some x => some (.cmp c n x)
    | _, _ => none
  | .range neg i s e sx ex => match ix i, s.toInt?, e.toInt? with
    | some n, some lo, some hi => some (.range neg n lo hi sx ex)
    | _, _, _ => none
  | .and l => (Q.toQueryL? ix l).map .and
  | .or l => (Q.toQueryL? ix l).map .or
  | .not q => (Q.toQuery? ix q).map .not
def Q.toQueryL? (ix : String → Option Nat) : List Q → Option (List Hyp.Query.Q)
  | [] => some []
  | q :: qs => match Q.toQuery? ix q, Q.toQueryL? ix qs with
    | some x, some xs => some (x :: xs)
    | _, _ => none
end

end Hyp.Cqe
