import HypatiaModel.Facet
import HypatiaModel.Spec.KeywordSpec

/-!
# Specification vocabulary for the facet index (C13)

Document table: docid ↦ `some paths` (the facet paths last supplied) or `none` (withdrawn).
A document is *listed* under exactly the configured facets that are a ':'-prefix (or the
whole) of one of its current paths.  Eq/Any/All and negations are the keyword semantics
(`KeywordSpec`) over the table docid ↦ listed facets.  `counts ds omit` maps every
configured facet that is not omitted (not a ':'-prefix of an `omit_facets` entry) to the number of
entries of `ds` listed under it, when that number is positive.
-/
namespace Hyp.Facet.Spec
open Hyp Hyp.Facet

abbrev Table := AMap Int (Option (List Facet))

def stepT (t : Table) : Op → Table
  | .index d v => AMap.set t d v
  | .unindex d => AMap.erase t d
  | .reset => []
  | .optimize => t
  | .setThr _ => t

def table (h : List Op) : Table := h.foldl stepT []

/-- `f` is a non-empty ':'-prefix of (or equal to) `p` -/
def isPrefix (f p : Facet) : Bool := !f.isEmpty && f.isPrefixOf p

def pathsOf (t : Table) (d : Int) : List Facet :=
  match AMap.get t d with
  | some (some ps) => ps
  | _ => []

/-- the configured facets a document with these paths is listed under -/
def listed (facets : List Facet) (paths : List Facet) : List Facet :=
  facets.filter (fun f => paths.any (isPrefix f))

/-- the keyword-index table this facet table induces: docid ↦ listed facets -/
def kwTable (facets : List Facet) (t : Table) : Keyword.Spec.Table Facet :=
  t.map (fun e => (e.1, e.2.map (listed facets)))

def omitted (om : List Facet) (f : Facet) : Bool := om.any (isPrefix f)

def countOf (facets : List Facet) (t : Table) (ds : List Int) (f : Facet) : Nat :=
  (ds.filter (fun d => decide (f ∈ listed facets (pathsOf t d)))).length

def counts (facets : List Facet) (t : Table) (ds : List Int) (om : List Facet) : List (Facet × Nat) :=
  (facets.filter (fun f => !omitted om f)).filterMap (fun f =>
    let n := countOf facets t ds f
    if n = 0 then none else some (f, n))

end Hyp.Facet.Spec
