import HypatiaModel.Field

/-!
# Specification vocabulary for the field index (C01, C06)

The *document table* of a history: docid ↦ `some v` (currently indexed with value `v`) or
`none` (known to the index, the discriminator produced no value).  Queries are set
comprehensions over the table.
-/
namespace Hyp.Field.Spec
open Hyp

variable {V : Type} [DecidableEq V] [LT V] [DecidableLT V] [LE V] [DecidableLE V]

abbrev Table (V : Type) := AMap Int (Option V)

def stepT (t : Table V) : Op V → Table V
  | .index d v => AMap.set t d v
  | .unindex d => AMap.erase t d
  | .reset => []

def table (h : List (Op V)) : Table V := h.foldl stepT []

/-- the value a document currently has, if any -/
def valueOf (t : Table V) (d : Int) : Option V := (AMap.get t d).bind id

/-- the ids the index currently knows (with or without a value) -/
def known (t : Table V) : List Int := AMap.keys t

/-- ids whose current value satisfies `p` -/
def sat (t : Table V) (p : V → Bool) : List Int :=
  (known t).filter (fun d => match valueOf t d with | some v => p v | none => false)

def inRange (t : Table V) (lo hi : Option V) (exlo exhi : Bool) : List Int :=
  sat t (fun v => inLo lo exlo v && inHi hi exhi v)

def eq (t : Table V) (c : V) : List Int := sat t (fun v => decide (v = c))
def any (t : Table V) (cs : List V) : List Int := sat t (fun v => decide (v ∈ cs))
def gt (t : Table V) (c : V) : List Int := sat t (fun v => decide (c < v))
def ge (t : Table V) (c : V) : List Int := sat t (fun v => decide (c ≤ v))
def lt (t : Table V) (c : V) : List Int := sat t (fun v => decide (v < c))
def le (t : Table V) (c : V) : List Int := sat t (fun v => decide (v ≤ c))
def neg (t : Table V) (pos : List Int) : List Int := (known t).filter (fun d => !decide (d ∈ pos))

end Hyp.Field.Spec
