import HypatiaModel.Keyword

/-!
# Specification vocabulary for the keyword index (C02; re-used by C13)

The *document table* of a history: docid ↦ what the last `index_doc` call supplied –
`some kws` (a keyword list, possibly with duplicates, possibly empty) or `none` (the
discriminator gave no value: the document is *withdrawn*).  `unindex_doc` forgets the id.

A document's current keyword set is `kwOf t d`.  The index *knows* an id when it is
withdrawn or has at least one keyword (a document indexed with an empty keyword list is
not tracked at all).  Queries are set comprehensions over the table.

A `str` value is rejected by `index_doc` (`TypeError`); such a call is not one of the
property's history steps.  The code clears a "withdrawn" mark before rejecting, so the
table forgets a withdrawn id there (see `stepT`); nothing else changes.
-/
namespace Hyp.Keyword.Spec
open Hyp

variable {K : Type} [DecidableEq K]

abbrev Table (K : Type) := AMap Int (Option (List K))

def stepT (t : Table K) : Op K → Table K
  | .index d v => AMap.set t d v
  | .indexStr d => if AMap.get t d = some none then AMap.erase t d else t
  | .unindex d => AMap.erase t d
  | .reset => []
  | .optimize => t
  | .setThr _ => t

def table (h : List (Op K)) : Table K := h.foldl stepT []

/-- the document's current keywords (as a list; only membership matters) -/
def kwOf (t : Table K) (d : Int) : List K :=
  match AMap.get t d with
  | some (some l) => l
  | _ => []

/-- last indexed without a value -/
def withdrawn (t : Table K) (d : Int) : Bool := decide (AMap.get t d = some none)

/-- the ids the index currently knows -/
def isKnown (t : Table K) (d : Int) : Bool := withdrawn t d || !(kwOf t d).isEmpty

/-- the same as a proposition: withdrawn, or at least one keyword -/
def Known (t : Table K) (d : Int) : Prop := AMap.get t d = some none ∨ kwOf t d ≠ []

def known (t : Table K) : List Int := (AMap.keys t).filter (isKnown t)

def eq (t : Table K) (k : K) : List Int := (known t).filter (fun d => decide (k ∈ kwOf t d))
def any (t : Table K) (ks : List K) : List Int :=
  (known t).filter (fun d => ks.any (fun k => decide (k ∈ kwOf t d)))
/-- `all of K`: the empty list matches nothing -/
def all (t : Table K) (ks : List K) : List Int :=
  if ks = [] then [] else (known t).filter (fun d => ks.all (fun k => decide (k ∈ kwOf t d)))
def neg (t : Table K) (pos : List Int) : List Int := (known t).filter (fun d => !decide (d ∈ pos))

/-- meaning of a query object -/
def sem (t : Table K) : QObj K → List Int
  | .eq k => eq t k
  | .noteq k => neg t (eq t k)
  | .any ks => any t ks
  | .notany ks => neg t (any t ks)
  | .all ks => all t ks
  | .notall ks => neg t (all t ks)

end Hyp.Keyword.Spec
