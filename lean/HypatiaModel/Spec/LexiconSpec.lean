import HypatiaModel.Lexicon
/-!
# Specification vocabulary for the lexicon (C15)

* `Call` – the four calls of the property's quantifier; `step`/`run` – the state after any
  interleaving of them (only `sourceToWordIds` has a state-changing model function; the other three
  are functions *of* the state, so `step` returns the state unchanged for them).
* `seen` – the set of words source text has produced so far (what "known word" means).
* `GlobMatch pat w` – the shell-style meaning of a pattern: `*` any run of characters, `?` exactly
  one, any other character itself, anchored at both ends.  `globMatchB` is its decision procedure
  (used by the driver's specification channel).
-/
namespace Hyp.Lex
open Hyp.QP (Str)

inductive Call where
  | source (text : List Str)
  | term (text : List Str)
  | glob (pattern : Str)
  | parse (text : List Str)
deriving Repr

/-- the state after a call -/
def step (cfg : Cfg) (s : State) : Call → State
  | .source text => (sourceToWordIds cfg s text).1
  | .term _ => s
  | .glob _ => s
  | .parse _ => s

/-- the state after any interleaving of calls on a new lexicon -/
def run (cfg : Cfg) (calls : List Call) : State := calls.foldl (step cfg) {}

namespace Spec

/-- the source texts among the calls -/
def sources : List Call → List (List Str)
  | [] => []
  | .source t :: cs => t :: sources cs
  | _ :: cs => sources cs

/-- the words source text has produced (as a duplicate-free list) -/
def seen (cfg : Cfg) (calls : List Call) : List Str :=
  (sources calls).foldl (fun acc t => LSet.union acc (runPipeline cfg.tables cfg.pipeline t)) []

inductive GlobMatch : Str → Str → Prop
  | nil : GlobMatch [] []
  | star {p : Str} (s : Str) {t : Str} : GlobMatch p t → GlobMatch (STAR :: p) (s ++ t)
  | one {p : Str} (c : Nat) {s : Str} : GlobMatch p s → GlobMatch (QM :: p) (c :: s)
  | lit {c : Nat} {p s : Str} : isGlobChar c = false → GlobMatch p s → GlobMatch (c :: p) (c :: s)

def globMatchB : Str → Str → Bool
  | [], s => s.isEmpty
  | c :: p, s =>
    if c == STAR then anySuffix (globMatchB p) s
    else
      match s with
      | x :: s' => (c == QM || x == c) && globMatchB p s'
      | [] => false

/-- the specification's answer to `globToWordIds` for a pattern with a non-glob first character:
the ids of the known words that match, in word order -/
def globIds (s : State) (pattern : Str) : List Nat :=
  ((Sort.isort leStr (AMap.keys s.wids)).filter (globMatchB pattern)).map (getWid s)

end Spec
end Hyp.Lex
