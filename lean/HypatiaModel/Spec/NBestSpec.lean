import HypatiaModel.Prim.Sort
import HypatiaModel.NBest

/-!
# What an N-best collector holds

"Exactly the N highest-scoring items, best first, earlier items winning ties": the first `N`
entries of the *stable* descending sort of the pairs in arrival order.  `pop_smallest`
removes the last entry of that list (the worst; among equal worst the one that arrived last).
-/
namespace Hyp.NBestSpec
variable {ι σ : Type} [LE σ] [DecidableLE σ]

/-- `a` may stay in front of `b` in a descending order -/
def descLe (a b : ι × σ) : Bool := decide (b.2 ≤ a.2)

/-- stable descending sort (`sorted(pairs, key=score, reverse=True)`) -/
def sortDesc (pairs : List (ι × σ)) : List (ι × σ) := Sort.isort descLe pairs

/-- the `N` best of `pairs`, best first, earlier wins ties -/
def best (N : Nat) (pairs : List (ι × σ)) : List (ι × σ) := (sortDesc pairs).take N

/-- what is held after an operation, given what was held before (best first) -/
def step (N : Nat) (held : List (ι × σ)) : NBest.Op ι σ → List (ι × σ)
  | .addMany ps => best N (held ++ ps)
  | .pop => held.dropLast

def run (N : Nat) (held : List (ι × σ)) (ops : List (NBest.Op ι σ)) : List (ι × σ) :=
  ops.foldl (step N) held

end Hyp.NBestSpec
