import HypatiaModel.QueryParser
/-!
# Specification for C14: the documented text-query grammar, with its semantic actions

The module docstring of `hypatia/text/queryparser.py`:

    Start   = OrExpr
    OrExpr  = AndExpr ('OR' AndExpr)*
    AndExpr = Term ('AND' NotExpr | 'NOT' AndExpr)*
    NotExpr = ['NOT'] Term
    Term    = '(' OrExpr ')' | ATOM+

(`'NOT' AndExpr` inside a starred group generates the same token strings as `'NOT' Term`
inside the same group, because the `AndExpr` after `NOT` is itself `Term (…)*`; the flat
reading is the one whose meaning the property states: "OR binds loosest, then AND / AND NOT /
NOT".)

`Derives lx sym tokens value ignored` is this grammar as an inductive relation.  The
value of a phrase is `none` when all of it was stop words ("terms consisting only of stop
words are dropped and reported as ignored"), else `some tree`:

* ATOM:   the lexicon's words of the token: none -> dropped and reported; one word -> Atom,
          or Glob when it has `*`/`?`; several -> Phrase; a leading hyphen negates it.
* ATOM+:  adjacent atoms are ANDed, the negated ones after the positive ones (each group in
          input order); there must be a positive one (unless everything was dropped).
* AndExpr: the values of the first Term and of the `AND Term`s are the positive operands,
          those of `AND NOT Term` / `NOT Term` the negated ones; dropped operands vanish; no
          positive operand -> the whole expression is dropped; one operand -> itself.
* OrExpr: `Or` of the operands that were not dropped; one -> itself; none -> dropped.
* Start:  an OrExpr spanning all tokens whose value is not dropped.

The specification vocabulary for trees: `WF` (the shape every accepted query has) and
`Executable` (exactly the trees on which `executeQuery` never reaches
`NotNode.executeQuery`).
-/
namespace Hyp.QP.Spec
open Hyp.QP

/-! ## semantic actions -/

/-- node for the words of one ATOM -/
def leaf (lx : Lex) : List Str → Option Tree
  | [] => none
  | [w] => some (if lx.isGlob w then .glob w else .atom w)
  | ws => some (.phrase ws)

/-- value of one ATOM token: a leading hyphen means "must not be present" -/
def atomNode (lx : Lex) (term : Str) : Option Tree :=
  (leaf lx (lx.parseTerms term)).map (fun t => if term.head? = some HYPHEN then .notN t else t)

/-- AND of operands: none -> dropped, one -> itself -/
def conj : List Tree → Option Tree
  | [] => none
  | [x] => some x
  | xs => some (.andN xs)

/-- OR of operands: none -> dropped, one -> itself -/
def disj : List Tree → Option Tree
  | [] => none
  | [x] => some x
  | xs => some (.orN xs)

def positive (t : Tree) : Bool := !t.isNot

/-! ## the grammar -/

inductive Sym where
  | term | andE | orE
deriving DecidableEq, Repr

/-- a sub-phrase: its tokens, its value, the terms it reports as ignored -/
structure Seg where
  toks : List Tok
  val : Option Tree
  ig : List Str

/-- the operator in front of a later operand of an AndExpr -/
inductive AndOp where
  | and | andNot | not
deriving DecidableEq, Repr

def AndOp.toks : AndOp → List Tok
  | .and => [.and]
  | .andNot => [.and, .not]
  | .not => [.not]

def AndOp.neg : AndOp → Bool
  | .and => false
  | _ => true

/-- positive operand contributed by an item of an AndExpr -/
def posVal (it : AndOp × Seg) : Option Tree := if it.1.neg then none else it.2.val
/-- negated operand contributed by an item of an AndExpr -/
def negVal (it : AndOp × Seg) : Option Tree := if it.1.neg then it.2.val.map .notN else none

def optL (t : Option Tree) : List Tree := match t with | some x => [x] | none => []

inductive Derives (lx : Lex) : Sym → List Tok → Option Tree → List Str → Prop where
  /-- Term = '(' OrExpr ')' -/
  | paren {ts v ig} :
      Derives lx .orE ts v ig →
      Derives lx .term (.lp :: ts ++ [.rp]) v ig
  /-- Term = ATOM+ -/
  | atoms (terms : List Str) :
      terms ≠ [] →
      (terms.filterMap (atomNode lx) = [] ∨ ∃ t ∈ terms.filterMap (atomNode lx), positive t) →
      Derives lx .term (terms.map .atom)
        (conj ((terms.filterMap (atomNode lx)).filter positive ++
               (terms.filterMap (atomNode lx)).filter (fun t => !positive t)))
        (terms.filter (fun s => lx.parseTerms s = []))
  /-- AndExpr = Term ('AND' ['NOT'] Term | 'NOT' Term)* -/
  | andE {ts0 v0 ig0} (items : List (AndOp × Seg)) :
      Derives lx .term ts0 v0 ig0 →
      (∀ it ∈ items, Derives lx .term it.2.toks it.2.val it.2.ig) →
      Derives lx .andE (ts0 ++ items.flatMap (fun it => it.1.toks ++ it.2.toks))
        (if optL v0 ++ items.filterMap posVal = [] then none
         else conj (optL v0 ++ items.filterMap posVal ++ items.filterMap negVal))
        (ig0 ++ items.flatMap (fun it => it.2.ig))
  /-- OrExpr = AndExpr ('OR' AndExpr)* -/
  | orE {ts0 v0 ig0} (items : List Seg) :
      Derives lx .andE ts0 v0 ig0 →
      (∀ it ∈ items, Derives lx .andE it.toks it.val it.ig) →
      Derives lx .orE (ts0 ++ items.flatMap (fun it => Tok.or :: it.toks))
        (disj (optL v0 ++ items.filterMap (fun it => it.val)))
        (ig0 ++ items.flatMap (fun it => it.ig))

/-- Start = OrExpr (all tokens), not dropped: the tree and the ignored terms of a query -/
def Query (lx : Lex) (ts : List Tok) (t : Tree) (ig : List Str) : Prop :=
  Derives lx .orE ts (some t) ig

/-- the same for query *strings*: keywords in any mixture of case, tokens as the tokenizer
cuts them -/
def QueryStr (lx : Lex) (isSpace : Nat → Bool) (q : Str) (t : Tree) (ig : List Str) : Prop :=
  Query lx (tokenize isSpace q) t ig

/-- the ATOM tokens of a token list, in order -/
def atomsOf : List Tok → List Str
  | [] => []
  | .atom s :: ts => s :: atomsOf ts
  | _ :: ts => atomsOf ts

/-! ## tokens: what the tokenizer regex `[()] | -? (?: "[^"]*" | [^()\s"]+ )` matches -/

/-- `"[^"]*"` -/
def IsQuoted (b : Str) : Prop := ∃ body, b = QUOTE :: (body ++ [QUOTE]) ∧ QUOTE ∉ body

/-- `[^()\s"]+` -/
def IsWord (isSpace : Nat → Bool) (b : Str) : Prop := b ≠ [] ∧ ∀ c ∈ b, ordinary isSpace c = true

def IsAtomText (isSpace : Nat → Bool) (b : Str) : Prop := IsQuoted b ∨ IsWord isSpace b

/-- a string the tokenizer regex matches as a whole -/
def IsToken (isSpace : Nat → Bool) (t : Str) : Prop :=
  t = [LP] ∨ t = [RP] ∨ IsAtomText isSpace t ∨ ∃ b, t = HYPHEN :: b ∧ IsAtomText isSpace b

/-- characters that can only disappear between tokens: white space and double quotes -/
def keptChar (isSpace : Nat → Bool) (c : Nat) : Bool := !(isSpace c || c == QUOTE)

/-! ## tree shapes -/

/-- shape of every tree an accepted query yields: `NotNode` occurs only as a non-first child
of an `AndNode`, after all positive children, and its operand is not a `NotNode`;
`AndNode`/`OrNode` have at least two children; phrases at least two words; globs are what the
lexicon calls a glob, atoms are not. -/
inductive WF (lx : Lex) : Tree → Prop where
  | atom {w} : lx.isGlob w = false → WF lx (.atom w)
  | glob {p} : lx.isGlob p = true → WF lx (.glob p)
  | phrase {ws} : 2 ≤ ws.length → WF lx (.phrase ws)
  | andN (pos negs : List Tree) :
      pos ≠ [] → 2 ≤ pos.length + negs.length →
      (∀ t ∈ pos, WF lx t) → (∀ t ∈ negs, WF lx t) →
      WF lx (.andN (pos ++ negs.map .notN))
  | orN (ts : List Tree) : 2 ≤ ts.length → (∀ t ∈ ts, WF lx t) → WF lx (.orN ts)

/-- `executeQuery` does not reach `NotNode.executeQuery`: a `NotNode` is only ever a direct
child of an `AndNode` (which unwraps it itself) -/
inductive Executable : Tree → Prop where
  | atom {w} : Executable (.atom w)
  | glob {p} : Executable (.glob p)
  | phrase {ws} : Executable (.phrase ws)
  | andN (ts : List Tree) :
      (∀ t ∈ ts, t.isNot = false → Executable t) → (∀ u, Tree.notN u ∈ ts → Executable u) →
      Executable (.andN ts)
  | orN (ts : List Tree) : (∀ t ∈ ts, Executable t) → Executable (.orN ts)

end Hyp.QP.Spec
