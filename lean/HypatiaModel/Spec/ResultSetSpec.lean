import HypatiaModel.ResultSet
import HypatiaModel.Spec.SortSpec

/-!
# Specification vocabulary for result sets (C11)

A result set *denotes* a sequence of docids (`seq`), whatever object holds them.  The property speaks
about that sequence: `len` is its length, iteration / `all` yield it (through the resolver), `first`
is its head, `one` its sole element, `intersect` filters it, `sort` reorders it (C07).
`Consistent` is the situation the property is about: the separately tracked count agrees with the
sequence and no `Unsortable` is pending (every id was sortable).
-/
namespace Hyp.RSet.Spec
open Hyp.RSet

variable {R : Type}

/-- the sequence of docids the result set denotes -/
def seq (rs : RS R) : List Int := rs.ids.contents.1

/-- the `Unsortable` a complete iteration would end with -/
def pending (rs : RS R) : Option (List Int) := rs.ids.contents.2

/-- count and sequence agree, nothing pending -/
def Consistent (rs : RS R) : Prop := rs.numids = (seq rs).length ∧ pending rs = none

instance (rs : RS R) : Decidable (Consistent rs) := by unfold Consistent; exact inferInstance

/-- `first()`: the first element or `None` -/
def first (present : Int → Val R) (s : List Int) : Option (Val R) := s.head?.map present

/-- `one()`: the sole element, else NoResults / MultipleResults -/
def one (present : Int → Val R) (s : List Int) : Except Err (Option (Val R)) :=
  match s with
  | [] => .error .noResults
  | [x] => .ok (some (present x))
  | _ :: _ :: _ => .error .multipleResults

/-- `intersect`: the ids present in both, in the original order -/
def intersect (s other : List Int) : List Int := s.filter (fun x => decide (x ∈ other))

end Hyp.RSet.Spec
