import HypatiaModel.TextScore
import HypatiaModel.Spec.SetOpsSpec

/-!
# The documented relevance formulas, evaluated on the current document table

`T : docid → word-id list` is all there is.  From the docstrings of `okapiindex.py` and
`cosineindex.py`:

    N        number of documents                      len(D)   number of words of D
    f(t)     number of documents containing t         E(len)   mean of len(D) over all documents
    f(D,t)   occurrences of t in D
    IDF(t)   = ln(1 + N / f(t))

    Okapi    score(D,Q) = Σ_{t ∈ Q, t in D}  f(D,t)·(k1+1) / (f(D,t) + k1·((1−b) + b·len(D)/E(len))) · IDF(t)
             k1, b: the index's BM25 free parameters `K1`, `B` (1.2 and 0.75 unless overridden)
    cosine   score(D,Q) = Σ_{t ∈ Q, t in D}  w(D,t)/W(D) · IDF(t),   w(D,t) = 1 + ln f(D,t),
             W(D) = sqrt(Σ_{t in D} w(D,t)²)

A query term list may repeat a term (each repeat counts).  A document that contains none of
the terms gets no score (`none`).  Nothing here refers to the model's functions.
-/
namespace Hyp.ScoreSpec
open Hyp Hyp.Scalar
abbrev Table := AMap Int (List Nat)
variable {α : Type} [Scalar α] [Score.Bm25 α]

def N (T : Table) : Nat := T.length
def df (T : Table) (t : Nat) : Nat := (T.filter (fun p => p.2.contains t)).length
def totalLen (T : Table) : Nat := (T.map (fun p => p.2.length)).foldl (· + ·) 0
def meanLen (T : Table) : α := nat (totalLen T) / nat (N T)
def idf (T : Table) (t : Nat) : α := log (nat 1 + nat (N T) / nat (df T t))

/-- the index's parameters (`Score.Bm25`; the documented formulas know one `K1`: wherever the
specification is evaluated `kq = k1`) -/
def k1 : α := Score.Bm25.k1
def b : α := Score.Bm25.b
def kq : α := Score.Bm25.kq

/-- TF(D,t) of the Okapi docstring -/
def okapiTF (T : Table) (ws : List Nat) (t : Nat) : α :=
  nat (ws.count t) * (k1 + nat 1) /
    (nat (ws.count t) + k1 * ((nat 1 - b) + b * nat ws.length / meanLen T))

/-- sum of a non-empty list, `none` for the empty one -/
abbrev sum1 : List α → Option α := SetSpec.sum1

/-- the query terms that occur in the document (repeats kept) -/
def matched (ws : List Nat) (terms : List Nat) : List Nat := terms.filter (fun t => ws.contains t)

def okapiScore (T : Table) (terms : List Nat) (d : Int) : Option α :=
  match AMap.get T d with
  | none => none
  | some ws => sum1 ((matched ws terms).map (fun t => okapiTF T ws t * idf T t))

/-- w(D,t) = 1 + ln f(D,t) -/
def wdt (ws : List Nat) (t : Nat) : α := nat 1 + log (nat (ws.count t))

/-- W(D) -/
def bigW (ws : List Nat) : α :=
  sqrt ((ws.eraseDups.map (fun t => wdt ws t * wdt ws t)).foldl (· + ·) (nat 0))

def cosineScore (T : Table) (terms : List Nat) (d : Int) : Option α :=
  match AMap.get T d with
  | none => none
  | some ws => sum1 ((matched ws terms).map (fun t => wdt ws t / bigW ws * idf T t))

def score (k : Score.Kind) : Table → List Nat → Int → Option α :=
  match k with
  | .okapi => okapiScore
  | .cosine => cosineScore

/-- phrase: the documents containing the word ids contiguously, each scored over all the
phrase's word ids -/
def phraseScore (k : Score.Kind) (T : Table) (wids : List Nat) (d : Int) : Option α :=
  match AMap.get T d with
  | none => none
  | some ws => if wids ≠ [] ∧ Score.containsPhrase wids ws then score k T wids d else none

/-- Okapi: Σ IDF(t)·(k1+1) over the query's in-vocabulary terms; cosine: sqrt Σ IDF(t)² -/
def queryWeight (k : Score.Kind) (T : Table) (terms : List Nat) : α :=
  let ts := terms.filter (fun t => 0 < df T t)
  match k with
  | .okapi => (ts.map (fun t => idf T t * (kq + nat 1))).foldl (· + ·) (nat 0)
  | .cosine => sqrt ((ts.map (fun t => idf T t * idf T t)).foldl (· + ·) (nat 0))

/-- the table a history leaves behind -/
def stepT (T : Table) : Score.Op → Table
  | .index d ws => AMap.set T d ws
  | .reindex d ws => if (AMap.get T d).isSome then AMap.set T d ws else T
  | .unindex d => AMap.erase T d
  | .reset => []

def tableOf (ops : List Score.Op) : Table := ops.foldl stepT []

/-- the result as a map (for the driver) -/
def asMap (T : Table) (f : Int → Option α) : AMap Int α :=
  (AMap.keys T).filterMap (fun d => (f d).map (fun v => (d, v)))

end Hyp.ScoreSpec
