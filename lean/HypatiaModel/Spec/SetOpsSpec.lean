import HypatiaModel.SetOps

/-!
# Weighted union / intersection: the definition

For a list `L` of `(map, weight)` pairs and a docid `k`:
`contribs L k` = the products `weight · map[k]` of the maps that contain `k`, in list order;
union value = their sum, defined iff some map contains `k`; intersection value = the same sum,
defined iff `L` is non-empty and every map contains `k` (zero maps give the empty result, the
degenerate case of the property statement).  `None` operands of an intersection stand for
"every document" and are dropped before anything else.
-/
namespace Hyp.SetSpec
open Hyp Hyp.SetOps
variable {α : Type} [Scalar α]

/-- `weight · map[k]` for the maps that contain `k` -/
def contribs (L : List (WMap α × α)) (k : Int) : List α :=
  L.filterMap (fun p => (AMap.get p.1 k).map (fun v => p.2 * v))

/-- sum of a non-empty list -/
def sum1 : List α → Option α
  | [] => none
  | c :: cs => some (cs.foldl (· + ·) c)

/-- value of the weighted union at `k` (`none` = `k` is not a key of the result) -/
def unionAt (L : List (WMap α × α)) (k : Int) : Option α := sum1 (contribs L k)

/-- value of the weighted intersection at `k` -/
def interAt (L : List (WMap α × α)) (k : Int) : Option α :=
  if L.all (fun p => AMap.contains p.1 k) then unionAt L k else none

/-- the operands of an intersection that are not `None` -/
def present (L : List (Option (WMap α) × α)) : List (WMap α × α) :=
  L.filterMap (fun p => p.1.map (fun x => (x, p.2)))

/-- every key of every map, once -/
def allKeys (L : List (WMap α × α)) : List Int :=
  (L.flatMap (fun p => AMap.keys p.1)).eraseDups

/-- the result as a map (for the driver): keys in order of first occurrence -/
def unionMap (L : List (WMap α × α)) : WMap α :=
  (allKeys L).filterMap (fun k => (unionAt L k).map (fun v => (k, v)))

def interMap (L : List (WMap α × α)) : WMap α :=
  (allKeys L).filterMap (fun k => (interAt L k).map (fun v => (k, v)))

end Hyp.SetSpec
