import HypatiaModel.FieldSort
import HypatiaModel.Spec.FieldSpec

/-!
# Specification vocabulary for sorting by a field index (C07)

Everything is said about the *document table* of the history (`FieldSpec.Table`): an id is
*sortable* when the table has a value for it; the order asked for is the order of those values
(descending when reversed).  `SortOK` is the property's sentence, clause by clause.
-/
namespace Hyp.Field.Spec
open Hyp Hyp.Sort

variable {V : Type} [DecidableEq V] [LT V] [DecidableLT V] [LE V] [DecidableLE V]

/-- the index has a value for `d` -/
def sortable (t : Table V) (d : Int) : Bool := (valueOf t d).isSome

/-- `a` may come before `b`: ascending by value, descending when `rev` -/
def keyLe (t : Table V) (rev : Bool) (a b : Int) : Prop :=
  ∀ va vb, valueOf t a = some va → valueOf t b = some vb → if rev then vb ≤ va else va ≤ vb

/-- value order on optional values (only ever used on present values) -/
def optLe (rev : Bool) : Option V → Option V → Bool
  | some x, some y => if rev then decide (y ≤ x) else decide (x ≤ y)
  | _, _ => true

def keyLeB (t : Table V) (rev : Bool) (a b : Int) : Bool := optLe rev (valueOf t a) (valueOf t b)

/-- the requested ids the index can sort, in the order they were given -/
def sortables (t : Table V) (docids : List Int) : List Int := docids.filter (sortable t)

/-- the requested ids the index has no value for -/
def missing (t : Table V) (docids : List Int) : List Int := docids.filter (fun d => !sortable t d)

/-- number of ids to deliver: all, or the first `limit` -/
def cut (limit : Option Nat) (n : Nat) : Nat :=
  match limit with
  | none => n
  | some l => min l n

/-- the stable answer: sortable ids ordered by value, equal values in input order (each id paired
with its value, stable insertion sort on the values, values dropped again) -/
def stableSort (t : Table V) (rev : Bool) (docids : List Int) : List Int :=
  (isort (fun (x y : Option V × Int) => optLe rev x.1 y.1)
    ((sortables t docids).map (fun d => (valueOf t d, d)))).map Prod.snd

/-- does the index have a value for any document? -/
def nonEmptyIndex (t : Table V) : Bool := t.any (fun p => p.2.isSome)

/-- **The property, ids part.**  `out` is an acceptable answer to "sort `docids`, cut at `limit`". -/
structure SortOK (t : Table V) (docids : List Int) (rev : Bool) (limit : Option Nat)
    (out : List Int) : Prop where
  /-- each id once -/
  nodup : out.Nodup
  /-- only requested ids the index has a value for -/
  subset : ∀ d ∈ out, d ∈ docids ∧ sortable t d = true
  /-- ordered by value -/
  sorted : out.Pairwise (keyLe t rev)
  /-- all sortable ids, or exactly `limit` of them -/
  length : out.length = cut limit (sortables t docids).length
  /-- cut to the *first* ids: what was left out does not sort before anything delivered -/
  omitted : ∀ d ∈ docids, sortable t d = true → d ∉ out → ∀ e ∈ out, keyLe t rev e d

/-- **The property, exception part**: Unsortable is due exactly when it was asked for, some requested
id has no value, and the limit (if any) was not already filled by sortable ids. -/
def shouldRaise (t : Table V) (docids : List Int) (limit : Option Nat) (raiseU : Bool) : Bool :=
  raiseU && !(missing t docids).isEmpty &&
    (match limit with
     | none => true
     | some l => decide ((sortables t docids).length < l))

/-- flag combinations `FieldIndex.sort` rejects with ValueError once it gets to choose an algorithm
(non-empty request, non-empty index): a limit below 1 always; forward scan cannot run in reverse,
n-best needs a limit, unknown sort type -/
def rejects (rev : Bool) (limit : Option Int) (st : Option SortType) : Bool :=
  match st with
  | some .fwscan => rev
  | some .nbest => limit.isNone
  | some .other => true
  | _ => false

/-- a limit below 1 is rejected whatever else is asked -/
def badLimit (limit : Option Int) : Bool := limitInvalid limit

/-- is the answer required to be the stable one? -/
def stableRequired (st : Option SortType) : Bool :=
  st = some .stable || st = some .timsort

end Hyp.Field.Spec
