import HypatiaModel.TextIndex
import HypatiaModel.Spec.LexiconSpec
/-!
# Specification vocabulary for text search (C03)

* `Table` – the document table of a history: docid ↦ `some tokens` (the token sequence of the text
  last indexed for it, tokenised by the lexicon's pipeline like all indexed text) or `none` (the
  document is known but has no text: the discriminator returned its default).
* `sat t toks` – the query tree read as boolean logic over one document's token sequence:
  a word = the token occurs; a phrase = the words occur contiguously and in order; a glob = some
  token fits the pattern (`GlobMatch`, decided by `globMatchB`); `AND` = all operands, with a `NOT`
  (or leading-hyphen) operand negated; `OR` = some operand.
* `contains` / `notContains` – the specification's answers: the indexed documents satisfying the
  query; all known documents (with or without text) except those.
* `admissible` – the decidable side condition of the theorem (finding D14): query words survive
  a second pass through the pipeline unchanged (`runPipeline [w] = [w]`; the code tokenises query
  words twice – `parseTerms`, then `termToWordIds`), and glob patterns do not start with a glob
  character.
-/
namespace Hyp.Text.Spec
open Hyp.QP (Str Tree)
open Hyp.Lex (Cfg)

abbrev Table := AMap Int (Option (List Str))

def stepT (cfg : Cfg) (T : Table) : Op → Table
  | .index d (some text) => AMap.set T d (some (Lex.runPipeline cfg.tables cfg.pipeline text))
  | .index d none => AMap.set T d none
  | .unindex d => AMap.erase T d
  | .reset => []

/-- the document table after a history -/
def table (cfg : Cfg) (h : List Op) : Table := h.foldl (stepT cfg) []

/-- the token sequence of an indexed document -/
def tokensOf (T : Table) (d : Int) : Option (List Str) :=
  match AMap.get T d with
  | some (some toks) => some toks
  | _ => none

/-- `ws` occurs contiguously in `toks` -/
def infixB (ws : List Str) : List Str → Bool
  | [] => ws.isPrefixOf []
  | t :: toks => ws.isPrefixOf (t :: toks) || infixB ws toks

mutual
def sat : Tree → List Str → Bool
  | .atom w, toks => toks.contains w
  | .phrase ws, toks => infixB ws toks
  | .glob p, toks => toks.any (Lex.Spec.globMatchB p)
  | .notN t, toks => !sat t toks
  | .andN ts, toks => satAll ts toks
  | .orN ts, toks => satAny ts toks
def satAll : List Tree → List Str → Bool
  | [], _ => true
  | t :: ts, toks => sat t toks && satAll ts toks
def satAny : List Tree → List Str → Bool
  | [], _ => false
  | t :: ts, toks => sat t toks || satAny ts toks
end

/-- does document `d` satisfy the query -/
def satDoc (T : Table) (t : Tree) (d : Int) : Bool :=
  match tokensOf T d with
  | some toks => sat t toks
  | none => false

/-- Contains / Eq -/
def contains (T : Table) (t : Tree) : List Int := (AMap.keys T).filter (satDoc T t)

/-- NotContains / NotEq: every known document (indexed or not) that does not satisfy the query -/
def notContains (T : Table) (t : Tree) : List Int := (AMap.keys T).filter (fun d => !satDoc T t d)

/-! ### bookkeeping (C06) -/

/-- docid ↦ the text (or "no text") it was last indexed with -/
abbrev Texts := AMap Int (Option (List Str))

def stepX (X : Texts) : Op → Texts
  | .index d v => AMap.set X d v
  | .unindex d => AMap.erase X d
  | .reset => []

/-- the current docid ↦ text mapping of a history -/
def texts (h : List Op) : Texts := h.foldl stepX []

/-- a fresh index is built by indexing the current mapping once -/
def freshOps (X : Texts) : List Op := X.map (fun p => Op.index p.1 p.2)

/-- the distinct words of the documents that currently have text -/
def wordsInUse (T : Table) : List Str :=
  LSet.union [] ((AMap.keys T).flatMap (fun d => (tokensOf T d).getD []))

/-- total number of tokens of the documents that currently have text -/
def sumLens : Table → Nat
  | [] => 0
  | (_, v) :: rest => ((v.map List.length).getD 0) + sumLens rest

/-- the word is a fixed point of the (plain) pipeline -/
def stableWord (cfg : Cfg) (w : Str) : Bool := Lex.runPipeline cfg.tables cfg.pipeline [w] == [w]

mutual
def admissible (cfg : Cfg) : Tree → Bool
  | .atom w => stableWord cfg w
  | .phrase ws => ws.all (stableWord cfg)
  | .glob p => match p with | c :: _ => !Lex.isGlobChar c | [] => true
  | .notN t => admissible cfg t
  | .andN ts => admissibles cfg ts
  | .orN ts => admissibles cfg ts
def admissibles (cfg : Cfg) : List Tree → Bool
  | [] => true
  | t :: ts => admissible cfg t && admissibles cfg ts
end

end Hyp.Text.Spec
