import HypatiaModel.Lexicon
import HypatiaModel.Widcode
import HypatiaModel.QueryParser
/-!
# hypatia.text: `BaseIndex` (+ the Okapi/cosine differences that matter below the scores) and `TextIndex`

This is the text index at the level of KEY SETS: a posting is the set of docids of
`_wordinfo[wid]` (a `{docid: weight}` map in the code), result sets are the key sets of the
`IFBucket`s.  Weights, `_docweight`, `query_weight` and the division in `TextIndex.apply` are the
business of C08/C20; none of them adds or removes a key (`weightedUnion`/`weightedIntersection`
key sets are union/intersection, `results[docid] = score/qw` rewrites existing keys).  The third
loop of `reindex_doc` (words in both versions: weight update) therefore does not appear.

* `Base` – `_lexicon` state, `_wordinfo` (wid ↦ docids), `_docwords` (docid ↦ *encoded* wid string,
  `Widcode.encode`), the `Length` counters `word_count`, `indexed_count` and Okapi's `_totaldoclen`.
  Okapi's `_docweight[d]` (= number of words of `d`) is read back as the length of the decoded
  `_docwords[d]`.
* `addWordinfo` / `delWordinfo` – `_add_wordinfo` (and one round of `_mass_add_wordinfo`) /
  `_del_wordinfo` incl. creation/deletion of the posting and the `word_count` change.
  `_del_wordinfo` raises `KeyError` when the posting or the docid is missing; the model function
  returns the state unchanged there, `delDefined` is the condition under which it does not raise,
  and `Lemmas/TextInv.lean` proves it for every call `unindex_doc`/`reindex_doc` make on a
  reachable state (the driver reports `err KeyError` if it ever failed).
* `indexDoc` → `reindexDoc` (differential update: words only in the old version are deleted, words
  only in the new one added), `unindexDoc`, `reset` (the lexicon is not reset: it is shared).
* `search`, `searchGlob`, `searchPhrase` (intersect the postings, then the boundary-checked
  substring scan `Widcode.phraseFind` over the encoded document), `_remove_oov_wids`.
* `indexOf` packs them as the `QP.Index` record `ParseTree.exec` runs on;
  `mass_weightedIntersection` / `mass_weightedUnion` over `(r, 1)` pairs are `interAll` / `unionAll`
  on key sets (the empty list gives the empty bucket, one element gives itself).
* `TextIndex`: `index_doc` (discriminator default ⇒ unindex and remember in `_not_indexed`),
  `unindex_doc`, `reset`, `apply` (parse, execute), `applyContains = apply`,
  `applyNotContains = _negate(applyContains)`, `applyEq = applyContains`,
  `applyNotEq = applyNotContains`.  Exceptions: `ParseError` from the parser, `QueryError` from
  `NotNode.executeQuery` or from `globToWordIds` (pattern starting with a glob character).  A tree
  is executed completely (no short-cuts in And/Or), and nothing else raises, so "some glob leaf
  starts with a glob character" is checked before `exec` instead of threading `Except` through the
  result sets.  `apply` can return Python's `None` (a single atom whose word vanishes in the
  pipeline); `_negate` then fails with `TypeError` (`len(None)`).
-/
namespace Hyp.Text
open Hyp.QP (Str Tree)
open Hyp.Lex (Cfg)

/-! ## BaseIndex -/

structure Base where
  lex : Lex.State := {}
  wordinfo : AMap Nat (List Int) := []
  docwords : AMap Int (List Nat) := []
  wordCount : Int := 0
  indexedCount : Int := 0
  totalDocLen : Int := 0
deriving Repr

/-- the docids of `_wordinfo[wid]` (empty when there is no such posting) -/
def posting (b : Base) (wid : Nat) : List Int := (AMap.get b.wordinfo wid).getD []

/-- `_add_wordinfo(wid, f, docid)` / one round of the `_mass_add_wordinfo` loop -/
def addWordinfo (b : Base) (wid : Nat) (d : Int) : Base :=
  match AMap.get b.wordinfo wid with
  | none => { b with wordinfo := AMap.set b.wordinfo wid [d], wordCount := b.wordCount + 1 }
  | some ds => { b with wordinfo := AMap.set b.wordinfo wid (LSet.insert ds d) }

/-- `_del_wordinfo(wid, docid)` does not raise `KeyError` -/
def delDefined (b : Base) (wid : Nat) (d : Int) : Bool :=
  match AMap.get b.wordinfo wid with
  | none => false
  | some ds => ds.contains d

/-- `_del_wordinfo(wid, docid)` -/
def delWordinfo (b : Base) (wid : Nat) (d : Int) : Base :=
  match AMap.get b.wordinfo wid with
  | none => b                                     -- KeyError (see `delDefined`)
  | some ds =>
    let ds' := LSet.remove ds d
    if ds'.isEmpty then { b with wordinfo := AMap.erase b.wordinfo wid, wordCount := b.wordCount - 1 }
    else { b with wordinfo := AMap.set b.wordinfo wid ds' }

/-- the distinct elements, as the keys of the `{wid: weight}` dict / the `TreeSet` of wids -/
def distinct (l : List Nat) : List Nat := l.foldl LSet.insert []

/-- `get_words(docid)`: `none` = `KeyError` -/
def getWords (b : Base) (d : Int) : Option (List Nat) := (AMap.get b.docwords d).map Widcode.decode

/-- `BaseIndex.reindex_doc` (entered with `docid in self._docwords`; `oldLen` = Okapi's
`_docweight[docid]`, subtracted by `OkapiIndex.reindex_doc`) -/
def reindexDoc (cfg : Cfg) (okapi : Bool) (b : Base) (d : Int) (text : List Str) : Base × Nat :=
  let oldWids := (getWords b d).getD []
  let (lex', newWids) := Lex.sourceToWordIds cfg b.lex text
  let b := { b with lex := lex', totalDocLen := if okapi then b.totalDocLen - oldWids.length else b.totalDocLen }
  let oldSet := distinct oldWids
  let newSet := distinct newWids
  let onlyOld := LSet.diff oldSet newSet
  let onlyNew := LSet.diff newSet oldSet
  let b := onlyOld.foldl (fun b w => delWordinfo b w d) b
  let b := onlyNew.foldl (fun b w => addWordinfo b w d) b
  ({ b with docwords := AMap.set b.docwords d (Widcode.encode newWids) }, newWids.length)

/-- `BaseIndex.index_doc`; returns `len(wids)` -/
def baseIndexDoc (cfg : Cfg) (okapi : Bool) (b : Base) (d : Int) (text : List Str) : Base × Nat :=
  if AMap.contains b.docwords d then reindexDoc cfg okapi b d text
  else
    let (lex', wids) := Lex.sourceToWordIds cfg b.lex text
    let b := { b with lex := lex' }
    let b := (distinct wids).foldl (fun b w => addWordinfo b w d) b     -- _mass_add_wordinfo
    ({ b with docwords := AMap.set b.docwords d (Widcode.encode wids),
              indexedCount := b.indexedCount + 1 }, wids.length)

/-- `OkapiIndex.index_doc` (`okapi = true`: add the count to `_totaldoclen`) / `CosineIndex` -/
def indexDoc (cfg : Cfg) (okapi : Bool) (b : Base) (d : Int) (text : List Str) : Base :=
  let (b, count) := baseIndexDoc cfg okapi b d text
  if okapi then { b with totalDocLen := b.totalDocLen + count } else b

/-- `unindex_doc` (Okapi: subtract `_docweight[docid]` first) -/
def unindexDoc (okapi : Bool) (b : Base) (d : Int) : Base :=
  match getWords b d with
  | none => b
  | some wids =>
    let b := { b with totalDocLen := if okapi then b.totalDocLen - wids.length else b.totalDocLen }
    let b := (distinct wids).foldl (fun b w => delWordinfo b w d) b
    { b with docwords := AMap.erase b.docwords d, indexedCount := b.indexedCount - 1 }

/-- the `KeyError`s `unindex_doc`/`reindex_doc` could raise do not occur -/
def updateDefined (b : Base) (d : Int) : Bool :=
  match getWords b d with
  | none => true
  | some wids => (distinct wids).all (fun w => delDefined b w d)

/-- `reset()`: everything but the (shared) lexicon -/
def resetBase (b : Base) : Base := { lex := b.lex }

/-! ## searching (key sets) -/

/-- `mass_weightedUnion([(r, 1) …])` -/
def unionAll (l : List (List Int)) : List Int := l.foldl LSet.union []

/-- `mass_weightedIntersection([(r, 1) …])` -/
def interAll : List (List Int) → List Int
  | [] => []
  | x :: xs => xs.foldl LSet.inter x

/-- `_remove_oov_wids` -/
def removeOov (b : Base) (wids : List Nat) : List Nat := wids.filter (fun w => AMap.contains b.wordinfo w)

/-- `search(term)`; `none` = Python's `None` -/
def search (cfg : Cfg) (b : Base) (term : Str) : Option (List Int) :=
  let wids := Lex.termToWordIds cfg b.lex [term]
  if wids.isEmpty then none
  else some (unionAll ((removeOov b wids).map (posting b)))

/-- `search_glob(pattern)` -/
def searchGlob (b : Base) (pattern : Str) : Except Lex.Err (List Int) :=
  match Lex.globToWordIds b.lex pattern with
  | .error e => .error e
  | .ok wids => .ok (unionAll ((removeOov b wids).map (posting b)))

/-- `search_phrase(phrase)` -/
def searchPhrase (cfg : Cfg) (b : Base) (phrase : List Str) : List Int :=
  let wids := Lex.termToWordIds cfg b.lex phrase
  let cleaned := removeOov b wids
  if wids.length != cleaned.length then []       -- at least one wid was OOV
  else
    let hits := interAll (wids.map (posting b))
    if hits.isEmpty then hits
    else
      let code := Widcode.encode wids
      hits.filter (fun d =>
        match AMap.get b.docwords d with
        | some docwords => Widcode.phraseFind code docwords
        | none => false)                         -- KeyError: a posting names an unknown document

/-- the index as `parsetree.py` sees it -/
def indexOf (cfg : Cfg) (b : Base) : QP.Index (List Int) :=
  { search := search cfg b
    searchPhrase := searchPhrase cfg b
    searchGlob := fun p => match searchGlob b p with | .ok r => r | .error _ => []
    inter := interAll
    union := unionAll
    diff := LSet.diff }

/-! ## TextIndex -/

structure State where
  base : Base := {}
  notIndexed : List Int := []
deriving Repr

inductive Op where
  /-- `index_doc(docid, obj)`; `none` = the discriminator returned the default -/
  | index (d : Int) (text : Option (List Str))
  | unindex (d : Int)
  | reset
deriving Repr

/-- `TextIndex.unindex_doc` -/
def tUnindex (okapi : Bool) (s : State) (d : Int) : State :=
  { base := unindexDoc okapi s.base d, notIndexed := LSet.remove s.notIndexed d }

def step (cfg : Cfg) (okapi : Bool) (s : State) : Op → State
  | .index d none =>
    let s := tUnindex okapi s d
    { s with notIndexed := LSet.insert s.notIndexed d }
  | .index d (some text) =>
    { base := indexDoc cfg okapi s.base d text, notIndexed := LSet.remove s.notIndexed d }
  | .unindex d => tUnindex okapi s d
  | .reset => { base := resetBase s.base, notIndexed := [] }

def run (cfg : Cfg) (okapi : Bool) (h : List Op) : State := h.foldl (step cfg okapi) {}

/-- `indexed()` -/
def indexed (s : State) : List Int := AMap.keys s.base.docwords

/-- `docids()` (key set) -/
def docids (s : State) : List Int := LSet.union s.notIndexed (indexed s)

/-- `document_repr(docid, default)`: the words of the document (joined with blanks by the code);
`none` = the default (`KeyError` from `_docwords[docid]` or `get_word`) -/
def documentRepr (s : State) (d : Int) : Option (List Str) :=
  match getWords s.base d with
  | none => none
  | some wids => wids.mapM (Lex.getWord s.base.lex)

/-- `indexed_count()`, `not_indexed_count()`, `docids_count()`, `word_count()` -/
def indexedCount (s : State) : Int := s.base.indexedCount
def notIndexedCount (s : State) : Nat := s.notIndexed.length
def docidsCount (s : State) : Nat := (docids s).length
def wordCount (s : State) : Int := s.base.wordCount

/-- the lexicon as the query parser sees it: `parseTerms(token)`, `isGlob(word)` -/
def lexOf (cfg : Cfg) : QP.Lex :=
  { parseTerms := fun t => Lex.parseTerms cfg [t], isGlob := Lex.isGlob }

mutual
/-- some `GlobNode` of the tree holds a pattern that starts with `*` or `?` (⇒ `QueryError`) -/
def leadingGlobLeaf : Tree → Bool
  | .atom _ => false
  | .phrase _ => false
  | .glob p => match p with | c :: _ => Lex.isGlobChar c | [] => false
  | .notN t => leadingGlobLeaf t
  | .andN ts => leadingGlobLeafs ts
  | .orN ts => leadingGlobLeafs ts
def leadingGlobLeafs : List Tree → Bool
  | [] => false
  | t :: ts => leadingGlobLeaf t || leadingGlobLeafs ts
end

inductive Err where
  | parseError
  | queryError
  | typeError
deriving Repr, DecidableEq

/-- `TextIndex.apply(querytext)` = `applyContains` = `applyEq`; `some none` is Python's `None` -/
def apply (cfg : Cfg) (isSpace : Nat → Bool) (s : State) (q : Str) : Except Err (Option (List Int)) :=
  match QP.parseQuery (lexOf cfg) isSpace q with
  | .error _ => .error .parseError
  | .ok (t, _) =>
    if leadingGlobLeaf t then .error .queryError
    else
      match QP.exec (indexOf cfg s.base) t with
      | .error _ => .error .queryError
      | .ok r => .ok r

def applyContains := @apply
def applyEq := @applyContains

/-- `applyNotContains` = `_negate(applyContains, value)` = `applyNotEq` -/
def applyNotContains (cfg : Cfg) (isSpace : Nat → Bool) (s : State) (q : Str) : Except Err (List Int) :=
  match applyContains cfg isSpace s q with
  | .error e => .error e
  | .ok none => .error .typeError                 -- len(None)
  | .ok (some positive) =>
    if positive.isEmpty then .ok (docids s) else .ok (LSet.diff (docids s) positive)

def applyNotEq := @applyNotContains

end Hyp.Text
