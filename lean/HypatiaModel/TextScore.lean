import HypatiaModel.SetOps
import HypatiaModel.ParseTree

/-!
# Relevance scoring: hypatia.text.okapiindex / okascore.c / cosineindex / baseindex (scoring part)

State = the current document table (`docid → word-id list`, what `_docwords` holds) plus
`OkapiIndex._totaldoclen`, the one statistic the code keeps as a running counter instead of
deriving it from its maps.  Everything else a score depends on is *computed from the table*:

* `indexed_count()` / `len(_docweight)`  = number of table entries,
* `_wordinfo[t]`  = `docsWith T t` (docid ↦ frequency) resp. `cosTermMap` (docid ↦ w/W),
* `_docweight[d]`  = `len(T[d])` (Okapi) resp. `cosW T[d]` (cosine),

so "scores depend only on the current corpus" is visible in the types; that the *real* index
agrees is what the correspondence run checks after index / reindex / unindex / reset histories.

Word ids are `Nat`; what the lexicon maps a term / phrase / glob pattern to is a parameter
(`Lex`), read from the real lexicon by the harness.  Scalars are `[Scalar α]`: `Float` runs,
`ℝ` is proved (C08).  The pure-Python loop of `_search_wids` and the C function
`okascore.score` compute the same expression in the same order (`okapiTf … * idf`), so there
is one model function for both; the harness runs the real index with either.
-/
namespace Hyp.Score
open Hyp Hyp.SetOps

abbrev Table := AMap Int (List Nat)

inductive Kind where
  | okapi
  | cosine
deriving DecidableEq, Repr

structure State where
  T : Table := []
  /-- `OkapiIndex._totaldoclen()` -/
  tot : Int := 0

inductive Op where
  /-- `index.index_doc(d, text)` (new document, or existing: goes through `reindex_doc`) -/
  | index (d : Int) (ws : List Nat)
  /-- `index.reindex_doc(d, text)` called directly -/
  | reindex (d : Int) (ws : List Nat)
  | unindex (d : Int)
  | reset

inductive OpErr where
  | keyError     -- `reindex_doc` of an unknown docid
deriving DecidableEq, Repr

def docWords (T : Table) (d : Int) : List Nat := (AMap.get T d).getD []

/-- `_docweight[d]` of an Okapi index -/
def docLen (T : Table) (d : Int) : Nat := (docWords T d).length

/-- one operation on an `OkapiIndex` / `CosineIndex` (the cosine index has no counter; the
field is carried along and ignored) -/
def step (s : State) : Op → Except OpErr State
  | .index d ws =>
    match AMap.get s.T d with
    | none => .ok { T := AMap.set s.T d ws, tot := s.tot + ws.length }
    | some old =>
      -- `if docid in self._docwords: return self.reindex_doc(docid, text)`
      .ok { T := AMap.set s.T d ws, tot := s.tot - old.length + ws.length }
  | .reindex d ws =>
    match AMap.get s.T d with
    | none => .error .keyError
    | some old =>
      -- `_change_doc_len(-self._docweight[docid])`, `BaseIndex.reindex_doc`, `_change_doc_len(count)`
      .ok { T := AMap.set s.T d ws, tot := s.tot - old.length + ws.length }
  | .unindex d =>
    match AMap.get s.T d with
    | none => .ok s
    | some old => .ok { T := AMap.erase s.T d, tot := s.tot - old.length }
  | .reset => .ok {}

/-- a failing operation leaves the index unchanged -/
def stepD (s : State) (op : Op) : State :=
  match step s op with
  | .ok s' => s'
  | .error _ => s

def run (ops : List Op) : State := ops.foldl stepD {}

/-- The BM25 free parameters of an `OkapiIndex`.  `K1` and `B` are class attributes ("BM25 free
parameters") that a subclass or an instance may override.  `k1`, `b` are what the *scoring loop* uses:
`self.K1` / `self.B` in the pure-Python `_search_wids`, the `#define`s `K1 1.2` / `B 0.75` of
`okascore.c` in the compiled one ("okascore hardcodes the values of K, B1": the compiled loop does not
see an override).  `kq` is what `query_weight` reads: `self.K1`, with either loop. -/
class Bm25 (α : Type) where
  k1 : α
  b : α
  kq : α

variable {α : Type} [Scalar α]
open Scalar

/-- `K1 = 1.2`, `B = 0.75`: the class attributes of `OkapiIndex` and the constants of `okascore.c` -/
@[reducible] def Bm25.default : Bm25 α := { k1 := nat 12 / nat 10, b := nat 75 / nat 100, kq := nat 12 / nat 10 }

theorem Bm25.default_k1 : (@Bm25.k1 α Bm25.default) = nat 12 / nat 10 := rfl
theorem Bm25.default_b : (@Bm25.b α Bm25.default) = nat 75 / nat 100 := rfl
theorem Bm25.default_kq : (@Bm25.kq α Bm25.default) = nat 12 / nat 10 := rfl

variable [Bm25 α]

/-- `indexed_count()` = `len(_docweight)` -/
def numDocs (T : Table) : Nat := T.length

/-- `_wordinfo[w]` of an Okapi index: docid ↦ f(d, w), for the documents containing `w` -/
def docsWith (T : Table) (w : Nat) : List (Int × Nat) :=
  T.filterMap (fun p => if p.2.count w = 0 then none else some (p.1, p.2.count w))

/-- `wid in self._wordinfo` -/
def inVocab (T : Table) (w : Nat) : Bool := !(docsWith T w).isEmpty

/-- `_remove_oov_wids` -/
def removeOov (T : Table) (wids : List Nat) : List Nat := wids.filter (inVocab T)

/-- `inverse_doc_frequency(term_count, num_items)` = log(1 + N/n) -/
def idf (n N : Nat) : α := log (nat 1 + nat N / nat n)

/-- `K1`, `B` as the scoring loop reads them, `K1` as `query_weight` reads it (see `Bm25`) -/
def k1 : α := Bm25.k1
def b : α := Bm25.b
def kq : α := Bm25.kq

/-- the body of the scoring loop, Python and C:
`lenweight = B_from1 + B * len / meandoclen; tf = f * K1_plus1 / (f + K1 * lenweight)` -/
def okapiTf (f len : Nat) (mean : α) : α :=
  let lenweight : α := (nat 1 - b) + b * nat len / mean
  nat f * (k1 + nat 1) / (nat f + k1 * lenweight)

/-- `okascore.score(result, d2f.items(), docid2len, idf, meandoclen)` / the Python loop -/
def scoreLoop (d2f : List (Int × Nat)) (d2len : Int → Nat) (idfv mean : α) : WMap α :=
  d2f.map (fun p => (p.1, okapiTf p.2 (d2len p.1) mean * idfv))

/-- `meandoclen = self._totaldoclen() / float(self.indexed_count())` -/
def meanLen (s : State) : α := nat s.tot.toNat / nat (numDocs s.T)

/-- one `(result, 1)` entry of Okapi `_search_wids` -/
def okapiTermMap (s : State) (w : Nat) : WMap α :=
  let d2f := docsWith s.T w
  scoreLoop d2f (docLen s.T) (idf d2f.length (numDocs s.T)) (meanLen s)

/-- distinct words of a document in first-occurrence order (the key order of the dict in
`_get_frequencies`) -/
def distinct (ws : List Nat) : List Nat := ws.eraseDups

/-- `doc_term_weight(count)` = 1 + ln count -/
def docTermWeight (c : Nat) : α := nat 1 + log (nat c)

/-- `W` of `CosineIndex._get_frequencies`: sqrt of the sum of squared term weights -/
def cosW (ws : List Nat) : α :=
  sqrt (sumFrom (nat 0) ((distinct ws).map (fun w => docTermWeight (ws.count w) * docTermWeight (ws.count w))))

/-- `_wordinfo[w][d]` of a cosine index: w(d,t)/W(d) -/
def cosWeight (ws : List Nat) (w : Nat) : α := docTermWeight (ws.count w) / cosW ws

/-- `_wordinfo[w]` of a cosine index -/
def cosTermMap (T : Table) (w : Nat) : WMap α :=
  T.filterMap (fun p => if p.2.count w = 0 then none else some (p.1, cosWeight p.2 w))

/-- `_search_wids(wids)`: one (map, weight) pair per word id -/
def searchWids (k : Kind) (s : State) (wids : List Nat) : List (WMap α × α) :=
  match k with
  | .okapi => wids.map (fun w => (okapiTermMap s w, nat 1))
  | .cosine => wids.map (fun w =>
      let m : WMap α := cosTermMap s.T w
      (m, idf m.length (numDocs s.T)))

abbrev Res (α : Type) := Except SetOps.Err (WMap α)

/-- `index.search(term)` given `wids = lexicon.termToWordIds(term)`; `none` = Python `None` -/
def search (k : Kind) (s : State) (wids : List Nat) : Option (Res α) :=
  if wids.isEmpty then none
  else some (massUnion (searchWids k s (removeOov s.T wids)))

/-- `index.search_glob(pattern)` given `wids = lexicon.globToWordIds(pattern)` -/
def searchGlob (k : Kind) (s : State) (wids : List Nat) : Res α :=
  massUnion (searchWids k s (removeOov s.T wids))

/-- `p` occurs contiguously in `d` (what the encoded-string scan of `search_phrase` decides,
C16 `c16_phraseFind_iff_sublist`) -/
def containsPhrase (p : List Nat) : List Nat → Bool
  | [] => p.isEmpty
  | x :: xs => p.isPrefixOf (x :: xs) || containsPhrase p xs

/-- `index.search_phrase(phrase)` given `wids = lexicon.termToWordIds(phrase)` -/
def searchPhrase (k : Kind) (s : State) (wids : List Nat) : Res α :=
  if (removeOov s.T wids).length ≠ wids.length then .ok []
  else
    match massInter ((searchWids k s wids).map (fun p => (some p.1, p.2))) with
    | .error e => .error e
    | .ok hits =>
      if hits.isEmpty then .ok hits
      else .ok (hits.filter (fun p => containsPhrase wids (docWords s.T p.1)))

/-- `index.query_weight(terms)` given the concatenated `termToWordIds` of the terms -/
def queryWeight (k : Kind) (s : State) (wids : List Nat) : α :=
  let N := numDocs s.T
  let ws := removeOov s.T wids
  match k with
  | .okapi => sumFrom (nat 0) (ws.map (fun t => idf (docsWith s.T t).length N * (nat 1 + kq)))
  | .cosine => sqrt (sumFrom (nat 0) (ws.map (fun t =>
      let wt : α := idf (docsWith s.T t).length N
      wt * wt)))

/-! ### parse trees: `executeQuery`, `terms()`, `TextIndex.apply` -/
open Hyp.QP

/-- what the lexicon answers: `termToWordIds` of a term (a word, or the word list of a
phrase) and `globToWordIds` of a pattern -/
structure Lex where
  termWids : List Str → List Nat
  globWids : Str → List Nat

def seqRes : List (Res α) → Except SetOps.Err (List (WMap α))
  | [] => .ok []
  | r :: rs =>
    match r, seqRes rs with
    | .ok x, .ok xs => .ok (x :: xs)
    | .error e, _ => .error e
    | _, .error e => .error e

/-- the index as `executeQuery` sees it -/
def textIndex (k : Kind) (s : State) (lex : Lex) : Index (Res α) where
  search w := search k s (lex.termWids [w])
  searchPhrase ws := searchPhrase k s (lex.termWids ws)
  searchGlob p := searchGlob k s (lex.globWids p)
  inter L := match seqRes L with
    | .ok ms => massInter (ms.map (fun m => (some m, nat 1)))
    | .error e => .error e
  union L := match seqRes L with
    | .ok ms => massUnion (ms.map (fun m => (m, nat 1)))
    | .error e => .error e
  diff a c := match a, c with
    | .ok x, .ok y => .ok (x.filter (fun p => !(AMap.contains y p.1)))
    | .error e, _ => .error e
    | _, .error e => .error e

mutual
/-- `tree.terms()`: NOT subtrees contribute nothing, repeats are kept -/
def terms : Tree → List (List Str)
  | .atom w => [[w]]
  | .phrase ws => [ws]
  | .glob p => [[p]]
  | .notN _ => []
  | .andN ts => termsL ts
  | .orN ts => termsL ts
def termsL : List Tree → List (List Str)
  | [] => []
  | t :: ts => terms t ++ termsL ts
end

inductive ApplyErr where
  | queryError
  | setops (e : SetOps.Err)
deriving Repr, DecidableEq

/-- `TextIndex.apply(querytext)` after parsing: execute, then divide every score by
`query_weight(tree.terms())` (by 1 if that is 0); `none` = the query matched "everything" -/
def apply (k : Kind) (s : State) (lex : Lex) (t : Tree) : Except ApplyErr (Option (WMap α)) :=
  match exec (textIndex k s lex) t with
  | .error _ => .error .queryError
  | .ok none => .ok none
  | .ok (some (.error e)) => .error (.setops e)
  | .ok (some (.ok results)) =>
    if results.isEmpty then .ok (some results)
    else
      let qw : α := queryWeight k s ((terms t).flatMap lex.termWids)
      let qw : α := if Scalar.beq qw (nat 0) then nat 1 else qw
      .ok (some (results.map (fun p => (p.1, p.2 / qw))))

end Hyp.Score
