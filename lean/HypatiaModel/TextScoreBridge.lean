import HypatiaModel.TextIndex
import HypatiaModel.TextScore

/-!
# The scoring model read off the key-set model  (C03 ∘ C08/C20)

`TextScore.lean` (C08/C20) keeps the document table docid ↦ word ids ("what `_docwords` holds") and takes the
lexicon's answers as a parameter; `TextIndex.lean` (C03) keeps the lexicon, the postings and the *encoded*
`_docwords`.  `scoreState` / `scoreLex` read the former off the latter: the table is `_docwords` decoded
(`get_words`), the counter is `_totaldoclen`, `termWids` / `globWids` are the lexicon's `termToWordIds` /
`globToWordIds` (`[]` for a pattern the lexicon rejects – `TextIndex.apply` raises before executing then).
-/
namespace Hyp.Text

def scoreState (s : State) : Score.State :=
  { T := s.base.docwords.map (fun p => (p.1, Widcode.decode p.2)), tot := s.base.totalDocLen }

def scoreLex (cfg : Lex.Cfg) (s : State) : Score.Lex :=
  { termWids := Lex.termToWordIds cfg s.base.lex
    globWids := fun p => match Lex.globToWordIds s.base.lex p with | .ok ws => ws | .error _ => [] }

end Hyp.Text
