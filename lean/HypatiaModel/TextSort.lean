import HypatiaModel.TextScore

/-!
# hypatia.text.TextIndex.sort

`sort(result, reverse=False, limit=None)`: an empty `result` is handed back as it is (whatever
its type); a result without `.items` (a set of docids) raises `TypeError`; otherwise the
`(weight, docid)` tuples are sorted with `list.sort(reverse=not reverse)` – tuple order, so equal
weights are ordered by docid – and `result[:limit]` is taken `if limit:` (so `None` **and** `0`
mean "no limit", a negative limit cuts from the end, as Python slices do).
-/
namespace Hyp.TextSort
open Hyp Hyp.SetOps
variable {α : Type} [Scalar α]

/-- a query result: with weights (`.items()`), or a plain collection of docids -/
inductive Input (α : Type) where
  | weighted (m : WMap α)
  | plain (ids : List Int)

inductive Output (α : Type) where
  /-- `return result`: the caller's (empty) object -/
  | same (r : Input α)
  | ids (l : List Int)

inductive Err where
  | typeError
deriving DecidableEq, Repr

/-- tuple comparison `(w₁, d₁) < (w₂, d₂)` -/
def tupleLt (a c : α × Int) : Bool :=
  Scalar.ltb a.1 c.1 || (Scalar.beq a.1 c.1 && decide (a.2 < c.2))

/-- `a` may stay in front of `c` in the sorted list -/
def inFront (reverse : Bool) (a c : α × Int) : Bool :=
  if reverse then !(tupleLt c a) else !(tupleLt a c)

/-- `result[:limit]` under `if limit:` -/
def cut (limit : Option Int) (l : List Int) : List Int :=
  match limit with
  | none => l
  | some n =>
    if n = 0 then l
    else if n > 0 then l.take n.toNat
    else l.take (l.length - (-n).toNat)

def isEmpty : Input α → Bool
  | .weighted m => m.isEmpty
  | .plain ids => ids.isEmpty

/-- `TextIndex.sort(result, reverse, limit)` -/
def sort (result : Input α) (reverse : Bool) (limit : Option Int) : Except Err (Output α) :=
  if isEmpty result then .ok (.same result)
  else
    match result with
    | .plain _ => .error .typeError
    | .weighted m =>
      let items : List (α × Int) := m.map (fun p => (p.2, p.1))
      let sorted := Sort.isort (inFront reverse) items
      .ok (.ids (cut limit (sorted.map (·.2))))

end Hyp.TextSort
