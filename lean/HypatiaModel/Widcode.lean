/-!
# hypatia.text.widcode  (and the phrase scan of `BaseIndex.search_phrase`)

Strings are lists of code points (`Nat` < 256).  `enc1` is what `_encoding[w]`
/ `_encode(w)` produce, `decode` is `re.findall("[\x80-\xFF][\x00-\x7F]*")`
followed by the per-chunk decode, `phraseFind` is the `find` loop of
`search_phrase` (a hit counts when it is followed by end-of-string or by a
byte with the high bit set).
-/
namespace Hyp.Widcode

def enc1 (w : Nat) : List Nat :=
  if w < 0x80 then [0x80 + w]
  else if w < 0x4000 then [0x80 + w / 0x80, w % 0x80]
  else if w < 0x200000 then [0x80 + w / 0x4000, (w / 0x80) % 0x80, w % 0x80]
  else [0x80 + w / 0x200000, (w / 0x4000) % 0x80, (w / 0x80) % 0x80, w % 0x80]

def encode (ws : List Nat) : List Nat := ws.flatMap enc1

def decode1 (hd : Nat) (tl : List Nat) : Nat :=
  tl.foldl (fun acc b => acc * 0x80 + b) (hd - 0x80)

/-- mirrors `_prog.findall(code)` followed by the per-chunk decode -/
def decodeAux : List Nat → Option (Nat × List Nat) → List Nat → List Nat
  | [], none, acc => acc.reverse
  | [], some (h, t), acc => (decode1 h t.reverse :: acc).reverse
  | b :: bs, cur, acc =>
    if 0x80 ≤ b then
      match cur with
      | none => decodeAux bs (some (b, [])) acc
      | some (h, t) => decodeAux bs (some (b, [])) (decode1 h t.reverse :: acc)
    else
      match cur with
      | none => decodeAux bs none acc   -- stray continuation byte: skipped by findall
      | some (h, t) => decodeAux bs (some (h, b :: t)) acc

def decode (code : List Nat) : List Nat := decodeAux code none []

/-- does `code` occur at the head of `doc`, followed by end-of-string or a high byte -/
def matchAt (code doc : List Nat) : Bool :=
  code.isPrefixOf doc &&
    (match doc.drop code.length with
     | [] => true
     | b :: _ => decide (0x80 ≤ b))

/-- the scan loop of `search_phrase`: some occurrence of `code` in `doc` ends on a boundary -/
def phraseFind (code : List Nat) : List Nat → Bool
  | [] => matchAt code []
  | b :: rest => matchAt code (b :: rest) || phraseFind code rest

/-- plain `str.find(code) >= 0` (the pre-fix behaviour, kept for the C16 statement
about raw substring hits) -/
def rawFind (code : List Nat) : List Nat → Bool
  | [] => code.isPrefixOf []
  | b :: rest => code.isPrefixOf (b :: rest) || rawFind code rest

end Hyp.Widcode
