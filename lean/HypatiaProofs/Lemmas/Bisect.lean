import HypatiaProofs.Lemmas.NBest
import HypatiaModel.Bisect

/-!
# The linear scan of the model is CPython's binary search

On a list ascending by score the binary search `bisectLeft` returns the number of leading entries with a
smaller score (`scanPos`), which is where `insertAsc` inserts: `insertAsc = insertBisect` on every list the
collector can hold.
-/
set_option linter.unusedSectionVars false
set_option linter.unusedSimpArgs false
set_option linter.unusedVariables false
namespace Hyp.NBest
open Hyp

variable {ι σ : Type} [LT σ] [DecidableLT σ] [LE σ] [DecidableLE σ]

theorem le_lt_trans (o : OrdLaws σ) {a b c : σ} (h1 : a ≤ b) (h2 : b < c) : a < c := by
  rw [o.lt_iff] at h2 ⊢
  exact ⟨o.le_trans _ _ _ h1 h2.1, fun h => h2.2 (o.le_trans _ _ _ h h1)⟩

theorem scanPos_le (x : σ) (a : List σ) : scanPos x a ≤ a.length := by
  induction a with
  | nil => simp [scanPos]
  | cons s ss ih => simp only [scanPos]; split <;> simp <;> omega

/-- on an ascending list the entries `< x` are exactly those in front of `scanPos` -/
theorem lt_iff_scanPos (o : OrdLaws σ) (x : σ) : ∀ (a : List σ), a.Pairwise (· ≤ ·) →
    ∀ (i : Nat) (h : i < a.length), a[i] < x ↔ i < scanPos x a
  | [], _, i, h => by simp at h
  | s :: ss, hasc, i, h => by
    obtain ⟨hs, hss⟩ := List.pairwise_cons.mp hasc
    simp only [scanPos]
    by_cases hlt : s < x
    · simp only [hlt, if_true]
      cases i with
      | zero => simp [hlt]
      | succ j =>
        simp only [List.getElem_cons_succ]
        rw [lt_iff_scanPos o x ss hss j (by simpa using h)]
        omega
    · simp only [hlt, if_false, Nat.not_lt_zero, iff_false]
      cases i with
      | zero => simpa using hlt
      | succ j =>
        simp only [List.getElem_cons_succ]
        intro hj
        exact hlt (le_lt_trans o (hs _ (List.getElem_mem _)) hj)

/-- **the binary search finds the scan position** (any window `lo ≤ pos ≤ hi ≤ len`) -/
theorem bisectLeft_eq_scanPos (o : OrdLaws σ) (x : σ) (a : List σ) (hasc : a.Pairwise (· ≤ ·)) :
    ∀ (n lo hi : Nat), hi - lo = n → lo ≤ scanPos x a → scanPos x a ≤ hi → hi ≤ a.length →
      bisectLeft a x lo hi = scanPos x a := by
  intro n
  induction n using Nat.strongRecOn with
  | ind n ih =>
    intro lo hi hn h1 h2 h3
    rw [bisectLeft]
    by_cases hlt : lo < hi
    · simp only [hlt, dite_true]
      have hmid : (lo + hi) / 2 < a.length := by omega
      rw [List.getElem?_eq_getElem hmid]
      simp only
      have key := lt_iff_scanPos o x a hasc ((lo + hi) / 2) hmid
      by_cases hm : a[(lo + hi) / 2] < x
      · simp only [hm, if_true]
        have := key.mp hm
        exact ih (hi - ((lo + hi) / 2 + 1)) (by omega) _ _ rfl (by omega) h2 h3
      · simp only [hm, if_false]
        have : ¬ (lo + hi) / 2 < scanPos x a := fun h => hm (key.mpr h)
        exact ih ((lo + hi) / 2 - lo) (by omega) _ _ rfl h1 (by omega) (by omega)
    · simp only [hlt, dite_false]
      omega

/-- the linear scan inserts at `scanPos` (any list) -/
theorem insertAsc_eq_insertIdx (p : ι × σ) : ∀ l : List (ι × σ),
    insertAsc p l = l.insertIdx (scanPos p.2 (l.map (·.2))) p
  | [] => by simp [insertAsc, scanPos]
  | e :: es => by
    simp only [insertAsc, List.map_cons, scanPos]
    by_cases h : e.2 < p.2
    · simp only [h, if_true, List.insertIdx_succ_cons, insertAsc_eq_insertIdx p es]
    · simp only [h, if_false, List.insertIdx_zero]

theorem asc_scores {l : List (ι × σ)} (h : Asc l) : (l.map (·.2)).Pairwise (· ≤ ·) := by
  unfold Asc at h
  exact List.pairwise_map.mpr h

/-- **`insertAsc` is the insertion at `bisect_left`'s index** on every ascending list -/
theorem insertAsc_eq_insertBisect (o : OrdLaws σ) (p : ι × σ) (l : List (ι × σ)) (h : Asc l) :
    insertAsc p l = insertBisect p l ∧
      bisectLeft (l.map (·.2)) p.2 0 l.length = scanPos p.2 (l.map (·.2)) := by
  have hb := bisectLeft_eq_scanPos o p.2 (l.map (·.2)) (asc_scores h) l.length 0 l.length rfl
    (Nat.zero_le _) (by simpa using scanPos_le p.2 (l.map (·.2))) (by simp)
  exact ⟨by rw [insertAsc_eq_insertIdx, insertBisect, hb], hb⟩

/-- `scanPos` counts the entries with a smaller score (ascending list) -/
theorem scanPos_eq_count (o : OrdLaws σ) (x : σ) : ∀ (a : List σ), a.Pairwise (· ≤ ·) →
    scanPos x a = (a.filter (fun s => decide (s < x))).length
  | [], _ => rfl
  | s :: ss, hasc => by
    obtain ⟨hs, hss⟩ := List.pairwise_cons.mp hasc
    simp only [scanPos, List.filter_cons]
    by_cases hlt : s < x
    · simp [hlt, scanPos_eq_count o x ss hss]
    · simp only [hlt, if_false, decide_false, Bool.false_eq_true]
      symm
      rw [List.length_eq_zero_iff, List.filter_eq_nil_iff]
      intro t ht
      simp only [decide_eq_true_eq]
      intro htx
      exact hlt (le_lt_trans o (hs t ht) htx)

end Hyp.NBest
