import HypatiaProofs.Lemmas.CatalogFanout
import HypatiaProofs.Lemmas.CatalogSearch
import HypatiaProofs.Lemmas.Legacy
import HypatiaProofs.Lemmas.FacetCounts

/-!
Lemmas for C12 that join the parts: the exception of a catalog call, duplicate-free answers,
and "an index inside a catalog, after any history, answers a legacy query exactly as the
specification says over the table of its own projected history".
-/
set_option linter.unusedSectionVars false
set_option linter.unusedSimpArgs false
namespace Hyp.Catalog
open Hyp Hyp.Legacy Hyp.Catalog.Spec

variable {Doc : Type}

/-! ## the exception of a call -/

theorem fanout_err (f : Entry Doc → Index × Option Err) (c : Cat Doc) :
    (fanout f c).2 = (c.find? (fun e => (f e).2.isSome)).bind (fun e => (f e).2) := by
  induction c with
  | nil => rfl
  | cons e es ih =>
    unfold fanout
    cases hf : f e with
    | mk ix' err =>
      cases err with
      | some er => simp [List.find?_cons, hf]
      | none => simp [List.find?_cons, hf, ih]

theorem stepE_err (c : Cat Doc) (op : Op Doc) : (stepE c op).2 = raised c op := by
  have key : ∀ n obj, (fanout (fun e => e.ix.indexDoc n (e.disc obj)) c).2 =
      (c.find? (fun e => raises (cfgOf e) obj)).bind (fun e => e.ix.kind.error (e.disc obj)) := by
    intro n obj
    rw [fanout_err]
    simp only [Index.indexDoc_err]
    rfl
  have none_err : ∀ (g : Index → Index), (fanout (fun e : Entry Doc => (g e.ix, none)) c).2 = none := by
    intro g
    rw [fanout_err]
    simp
  cases op with
  | index d obj =>
    cases hd : assertint d with
    | none => simp only [stepE, indexDoc, raised, hd]
    | some n => simp only [stepE, indexDoc, raised, hd]; exact key n obj
  | reindex d obj =>
    cases hd : assertint d with
    | none => simp only [stepE, reindexDoc, raised, hd]
    | some n => simp only [stepE, reindexDoc, raised, hd, Index.reindexDoc]; exact key n obj
  | unindex d =>
    cases hd : assertint d with
    | none => simp only [stepE, unindexDoc, raised, hd]
    | some n => simp only [stepE, unindexDoc, raised, hd]; exact none_err (fun ix => ix.unindexDoc n)
  | reset => simp only [stepE, reset, raised]; exact none_err (fun ix => ix.reset)

/-! ## duplicate-free answers -/

section kw
variable {K : Type} [DecidableEq K]
open Hyp.Keyword

theorem kw_nodup_multiunion (sets : List (List Int)) : (Keyword.multiunion sets).Nodup := by
  unfold Keyword.multiunion
  suffices ∀ acc : List Int, acc.Nodup → (sets.foldl LSet.union acc).Nodup from this [] List.nodup_nil
  induction sets with
  | nil => intro acc h; exact h
  | cons x xs ih => intro acc h; exact ih _ (LSet.nodup_union h x)

theorem interLoop_nodup (sets : List (List Int)) (hn : ∀ s ∈ sets, s.Nodup) :
    ∀ acc : Option (List Int), (∀ r, acc = some r → r.Nodup) →
      ((interLoop acc sets).getD []).Nodup := by
  induction sets with
  | nil =>
    intro acc h
    cases acc with
    | none => simp [interLoop]
    | some r => simpa [interLoop] using h r rfl
  | cons st rest ih =>
    intro acc h
    have step : ∀ rs' : List Int, rs'.Nodup →
        ((if rs' = [] then some rs' else interLoop (some rs') rest).getD []).Nodup := by
      intro rs' hrs
      by_cases he : rs' = []
      · simp [he]
      · simp only [he, if_false]
        apply ih (fun s hs => hn s (List.mem_cons_of_mem _ hs))
        intro r hr
        simp only [Option.some.injEq] at hr
        rw [← hr]; exact hrs
    cases acc with
    | none => exact step st (hn st (by simp))
    | some r => exact step (LSet.inter r st) (LSet.nodup_inter (h r rfl) st)

theorem kwApply_nodup (v : View K) (hp : ∀ k, (v.post k).Nodup) (q : LQ K) (r : IdSet)
    (h : kwApply v q = .ok r) : r.Nodup := by
  have search : ∀ ws op r, kwSearch v ws op = .ok r → r.Nodup := by
    intro ws op r h
    cases op with
    | or =>
      simp only [kwSearch, Except.ok.injEq] at h; subst h
      exact kw_nodup_multiunion _
    | and =>
      simp only [kwSearch, Except.ok.injEq] at h; subst h
      unfold View.searchAnd
      apply interLoop_nodup
      · intro s hs
        rw [Sort.mem_isort] at hs
        obtain ⟨k, _, rfl⟩ := List.mem_map.mp hs
        exact hp k
      · intro r hr; cases hr
    | other => simp [kwSearch] at h
  have shape : ∀ sh op r, kwApply.kwShape v sh op = .ok r → r.Nodup := by
    intro sh op r h
    cases sh with
    | bare e =>
      cases e with
      | val k => exact search _ _ _ h
      | range lo hi => simp [kwApply.kwShape] at h
    | pair a b => exact search _ _ _ h
    | seq es =>
      unfold kwApply.kwShape at h
      (try dsimp only at h)
      cases hw : words es with
      | none => rw [hw] at h; simp at h
      | some ws => rw [hw] at h; exact search _ _ _ h
  cases q with
  | plain sh => exact shape sh _ r h
  | dict op q =>
    cases q with
    | none => simp [kwApply] at h
    | some sh => exact shape sh _ r h

theorem view_post_nodup (h : List (Keyword.Op K)) (k : K) : ((Keyword.run h).view.post k).Nodup := by
  rw [← view_erase]
  exact Plain.posting_nodup (Keyword.run_inv h).fwd_ok k

end kw

/-! ## a fresh index, run on its own calls, answers as the specification says -/

theorem apply_runOps_spec (ix0 : Index) (hf : Fresh ix0) (ops : List IxOp) (q : QArg) :
    SameAnswer ((runOps ix0 ops).apply q) (tableAnswer ix0 ops q) := by
  cases ix0 with
  | field s =>
    simp only [Fresh] at hf; subst hf
    rw [runOps_field]
    cases q with
    | int q => exact fieldApply_spec (Field.run_inv (ops.filterMap fieldOp)) q
    | fac q => simp [Index.apply, tableAnswer, SameAnswer]
  | keyword s =>
    simp only [Fresh] at hf; subst hf
    rw [runOps_keyword]
    cases q with
    | int q => exact kwApply_spec (Keyword.run_viewOK (ops.filterMap kwOp)) q
    | fac q => simp [Index.apply, tableAnswer, SameAnswer]
  | facet s =>
    obtain ⟨F, rfl⟩ := hf
    rw [runOps_facet]
    cases q with
    | int q => simp [Index.apply, tableAnswer, SameAnswer]
    | fac q =>
      have := kwApply_spec (Facet.facet_run_viewOK F (ops.filterMap facetOp)) q
      exact this

theorem apply_runOps_nodup (ix0 : Index) (hf : Fresh ix0) (ops : List IxOp) (q : QArg) (r : IdSet)
    (h : (runOps ix0 ops).apply q = .ok r) : r.Nodup := by
  cases ix0 with
  | field s =>
    rw [runOps_field] at h
    cases q with
    | int q => exact nodup_fieldApply _ q r h
    | fac q => simp [Index.apply] at h
  | keyword s =>
    simp only [Fresh] at hf; subst hf
    rw [runOps_keyword] at h
    cases q with
    | int q => exact kwApply_nodup _ (view_post_nodup _) q r h
    | fac q => simp [Index.apply] at h
  | facet s =>
    obtain ⟨F, rfl⟩ := hf
    rw [runOps_facet] at h
    cases q with
    | int q => simp [Index.apply] at h
    | fac q =>
      refine kwApply_nodup _ ?_ q r h
      intro k
      have hinv := (Facet.run_finv F (ops.filterMap facetOp)).2
      show ((Facet.run F (ops.filterMap facetOp)).ks.view.post k).Nodup
      rw [← Keyword.view_erase]
      exact Keyword.Plain.posting_nodup hinv.fwd_ok k

/-! ## the specification's per-index answer inside a catalog -/

theorem resolve_standalone_spec (h : List (Op Doc)) (t : String × QArg) :
    ∀ (es : List (Entry Doc)) (P : List (Cfg Doc)), (∀ e ∈ es, Fresh e.ix) →
      SameAnswer (resolve (standalone P es h) t) (specResolveAux h t P es) ∧
      (∀ r, resolve (standalone P es h) t = .ok r → r.Nodup) := by
  intro es
  induction es with
  | nil => intro P _; exact ⟨rfl, fun r h => by simp [resolve, standalone, get] at h⟩
  | cons e es ih =>
    intro P hfr
    unfold resolve standalone specResolveAux get
    rw [List.find?_cons]
    by_cases hn : (e.name == t.1) = true
    · simp only [hn, if_true]
      exact ⟨apply_runOps_spec e.ix (hfr e (by simp)) _ t.2,
        fun r hr => apply_runOps_nodup e.ix (hfr e (by simp)) _ t.2 r hr⟩
    · have hn' : (e.name == t.1) = false := by simpa using hn
      simp only [hn', Bool.false_eq_true, if_false]
      exact ih (P ++ [cfgOf e]) (fun x hx => hfr x (List.mem_cons_of_mem _ hx))

/-- lift a term-wise agreement to the whole list of answers -/
theorem answers_of_spec (f g : String × QArg → Except Err IdSet) (terms : List (String × QArg))
    (specSets : List IdSet) (hg : terms.map g = specSets.map Except.ok)
    (hfg : ∀ t ∈ terms, SameAnswer (f t) (g t)) (hnd : ∀ t ∈ terms, ∀ r, f t = .ok r → r.Nodup) :
    ∃ sets, terms.map f = sets.map Except.ok ∧ (∀ s ∈ sets, s.Nodup) ∧
      (sets = [] ↔ specSets = []) ∧
      ∀ d, (∀ s ∈ sets, d ∈ s) ↔ (∀ s ∈ specSets, d ∈ s) := by
  induction terms generalizing specSets with
  | nil =>
    cases specSets with
    | nil => exact ⟨[], rfl, by simp, by simp, by simp⟩
    | cons s ss => simp at hg
  | cons t ts ih =>
    cases specSets with
    | nil => simp at hg
    | cons s ss =>
      simp only [List.map_cons, List.cons.injEq] at hg
      obtain ⟨hg1, hg2⟩ := hg
      obtain ⟨sets, h1, h2, _, h4⟩ := ih ss hg2 (fun x hx => hfg x (List.mem_cons_of_mem _ hx))
        (fun x hx => hnd x (List.mem_cons_of_mem _ hx))
      have hsa := hfg t (by simp)
      rw [hg1] at hsa
      cases hft : f t with
      | error e => rw [hft] at hsa; exact absurd hsa (by simp [SameAnswer])
      | ok r =>
        rw [hft] at hsa
        refine ⟨r :: sets, by simp [hft, h1], ?_, by simp, ?_⟩
        · intro x hx
          rcases List.mem_cons.mp hx with rfl | hx
          · exact hnd t (by simp) _ hft
          · exact h2 x hx
        · intro d
          simp only [List.mem_cons, forall_eq_or_imp]
          rw [h4 d]
          have : d ∈ r ↔ d ∈ s := hsa d
          rw [this]

end Hyp.Catalog
