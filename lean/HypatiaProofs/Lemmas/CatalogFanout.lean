import HypatiaModel.Spec.CatalogSpec

/-!
Lemmas for C12, fan-out: a catalog call is the call on every index (up to the first one that
raises); a history of catalog calls leaves every index in the state of its own projected history.
-/
set_option linter.unusedSectionVars false
set_option linter.unusedSimpArgs false
namespace Hyp.Catalog
open Hyp Hyp.Legacy Hyp.Catalog.Spec

variable {Doc : Type}

/-! ## one index -/

theorem Index.indexDoc_err (ix : Index) (d : Int) (v : Disc) :
    (ix.indexDoc d v).2 = ix.kind.error v := by
  cases v with
  | missing => cases ix <;> rfl
  | reject => cases ix <;> rfl
  | value x => cases ix <;> cases x <;> rfl

theorem Index.indexDoc_kind (ix : Index) (d : Int) (v : Disc) :
    (ix.indexDoc d v).1.kind = ix.kind := by
  cases v with
  | missing => cases ix <;> rfl
  | reject => cases ix <;> rfl
  | value x => cases ix <;> cases x <;> rfl

theorem Index.unindexDoc_kind (ix : Index) (d : Int) : (ix.unindexDoc d).kind = ix.kind := by
  cases ix <;> rfl

theorem Index.reset_kind (ix : Index) : ix.reset.kind = ix.kind := by
  cases ix <;> rfl

theorem stepOp_kind (ix : Index) (op : IxOp) : (stepOp ix op).kind = ix.kind := by
  cases op with
  | index d v => exact Index.indexDoc_kind ix d v
  | unindex d => exact Index.unindexDoc_kind ix d
  | reset => exact Index.reset_kind ix

theorem runOps_kind (ix : Index) (ops : List IxOp) : (runOps ix ops).kind = ix.kind := by
  induction ops generalizing ix with
  | nil => rfl
  | cons op ops ih =>
    show (runOps (stepOp ix op) ops).kind = _
    rw [ih, stepOp_kind]

theorem runOps_append (ix : Index) (a b : List IxOp) :
    runOps ix (a ++ b) = runOps (runOps ix a) b := by
  unfold runOps; rw [List.foldl_append]

theorem entry_eta (e : Entry Doc) : { e with ix := e.ix } = e := by cases e; rfl

theorem cfgOf_with (e : Entry Doc) (ix : Index) (h : ix.kind = e.ix.kind) :
    cfgOf { e with ix := ix } = cfgOf e := by
  unfold cfgOf; simp [h]

/-! ## `fanout` -/

/-- nobody raises: every index is updated -/
theorem fanout_all (f : Entry Doc → Index × Option Err) (c : Cat Doc)
    (h : ∀ e ∈ c, (f e).2 = none) :
    fanout f c = (c.map (fun e => { e with ix := (f e).1 }), none) := by
  induction c with
  | nil => rfl
  | cons e es ih =>
    have he := h e (by simp)
    have ih' := ih (fun x hx => h x (List.mem_cons_of_mem _ hx))
    unfold fanout
    cases hf : f e with
    | mk ix' err =>
      rw [hf] at he
      simp only at he
      subst he
      simp only [ih', List.map_cons, hf]

/-- the first index that raises stops the loop: the indexes in front of it are updated, it is
left as its own call left it, the indexes behind it are untouched -/
theorem fanout_raise (f : Entry Doc → Index × Option Err) (pre post : Cat Doc) (e : Entry Doc)
    (err : Err) (hpre : ∀ x ∈ pre, (f x).2 = none) (he : (f e).2 = some err) :
    fanout f (pre ++ e :: post) =
      (pre.map (fun x => { x with ix := (f x).1 }) ++ { e with ix := (f e).1 } :: post, some err) := by
  induction pre with
  | nil =>
    simp only [List.nil_append, List.map_nil]
    unfold fanout
    cases hf : f e with
    | mk ix' er =>
      rw [hf] at he; simp only at he; subst he; rfl
  | cons x xs ih =>
    have hx := hpre x (by simp)
    have ih' := ih (fun y hy => hpre y (List.mem_cons_of_mem _ hy))
    simp only [List.cons_append, List.map_cons]
    unfold fanout
    cases hf : f x with
    | mk ix' er =>
      rw [hf] at hx; simp only at hx; subst hx
      simp only [ih']

theorem fanout_names (f : Entry Doc → Index × Option Err) (c : Cat Doc) :
    (fanout f c).1.map (·.name) = c.map (·.name) := by
  induction c with
  | nil => rfl
  | cons e es ih =>
    unfold fanout
    cases hf : f e with
    | mk ix' err =>
      cases err with
      | some er => rfl
      | none => simp only [List.map_cons, ih]

/-! ## one catalog call = every index's own projected call -/

/-- when no call reaches the indexes, they stay as they are -/
theorem standalone_nil_ops (pre : List (Cfg Doc)) (es : List (Entry Doc)) (op : Op Doc)
    (hb : ∀ (suf : List (Cfg Doc)) disc, project (pre ++ suf) disc op = []) :
    standalone pre es [op] = es := by
  induction es generalizing pre with
  | nil => rfl
  | cons e es ih =>
    unfold standalone
    have h0 := hb [] e.disc
    simp only [List.append_nil] at h0
    simp only [List.flatMap_cons, List.flatMap_nil, List.append_nil, h0]
    refine List.cons_eq_cons.mpr ⟨by cases e; rfl, ?_⟩
    apply ih
    intro suf disc
    rw [List.append_assoc]
    exact hb _ disc

/-- `index_doc` / `reindex_doc` with a valid docid -/
theorem fanout_index_eq (n : Int) (obj : Doc) (op : Op Doc)
    (hop : ∀ pre disc, project pre disc op =
      if pre.any (raises · obj) then [] else [.index n (disc obj)]) :
    ∀ (es : List (Entry Doc)) (pre : List (Cfg Doc)), pre.any (raises · obj) = false →
      (fanout (fun e => e.ix.indexDoc n (e.disc obj)) es).1 = standalone pre es [op] := by
  intro es
  induction es with
  | nil => intro pre _; rfl
  | cons e es ih =>
    intro pre hpre
    unfold fanout standalone
    have hproj : project pre e.disc op = [.index n (e.disc obj)] := by rw [hop]; simp [hpre]
    simp only [List.flatMap_cons, List.flatMap_nil, List.append_nil, hproj]
    have hrun : runOps e.ix [IxOp.index n (e.disc obj)] = (e.ix.indexDoc n (e.disc obj)).1 := rfl
    have herr := Index.indexDoc_err e.ix n (e.disc obj)
    cases hf : e.ix.indexDoc n (e.disc obj) with
    | mk ix' err =>
      rw [hf] at herr hrun
      simp only at herr hrun
      cases err with
      | some er =>
        simp only [hrun]
        congr 1
        symm
        apply standalone_nil_ops
        intro suf disc
        rw [hop]
        have : raises (cfgOf e) obj = true := by
          unfold raises cfgOf Kind.rejects; simp [← herr]
        simp [this]
      | none =>
        simp only [hrun]
        congr 1
        apply ih
        have : raises (cfgOf e) obj = false := by
          unfold raises cfgOf Kind.rejects; simp [← herr]
        simp [hpre, this]

theorem fanout_total_eq (g : Index → Index) (x : IxOp) (hx : ∀ ix, stepOp ix x = g ix) (op : Op Doc)
    (hop : ∀ pre disc, project pre disc op = [x]) :
    ∀ (es : List (Entry Doc)) (pre : List (Cfg Doc)),
      (fanout (fun e => (g e.ix, none)) es).1 = standalone pre es [op] := by
  intro es
  induction es with
  | nil => intro pre; rfl
  | cons e es ih =>
    intro pre
    unfold fanout standalone
    simp only [List.flatMap_cons, List.flatMap_nil, List.append_nil, hop]
    have : runOps e.ix [x] = g e.ix := hx e.ix
    rw [this]
    congr 1
    exact ih _

/-- **one call fans out**: the catalog after any call is every index after its own projected call -/
theorem step_eq_standalone (c : Cat Doc) (op : Op Doc) : step c op = standalone [] c [op] := by
  cases op with
  | index d obj =>
    cases hd : assertint d with
    | none =>
      have : step c (.index d obj) = c := by simp only [step, stepE, indexDoc, hd]
      rw [this]
      symm; apply standalone_nil_ops; intro suf disc; simp only [project, hd]
    | some n =>
      have : step c (.index d obj) = (fanout (fun e => e.ix.indexDoc n (e.disc obj)) c).1 := by
        simp only [step, stepE, indexDoc, hd]
      rw [this]
      exact fanout_index_eq n obj _ (by intro pre disc; simp only [project, hd]) c [] (by simp)
  | reindex d obj =>
    cases hd : assertint d with
    | none =>
      have : step c (.reindex d obj) = c := by simp only [step, stepE, reindexDoc, hd]
      rw [this]
      symm; apply standalone_nil_ops; intro suf disc; simp only [project, hd]
    | some n =>
      have : step c (.reindex d obj) = (fanout (fun e => e.ix.indexDoc n (e.disc obj)) c).1 := by
        simp only [step, stepE, reindexDoc, hd, Index.reindexDoc]
      rw [this]
      exact fanout_index_eq n obj _ (by intro pre disc; simp only [project, hd]) c [] (by simp)
  | unindex d =>
    cases hd : assertint d with
    | none =>
      have : step c (.unindex d) = c := by simp only [step, stepE, unindexDoc, hd]
      rw [this]
      symm; apply standalone_nil_ops; intro suf disc; simp only [project, hd]
    | some n =>
      have : step c (.unindex d) = (fanout (fun e => (e.ix.unindexDoc n, none)) c).1 := by
        simp only [step, stepE, unindexDoc, hd]
      rw [this]
      exact fanout_total_eq (fun ix => ix.unindexDoc n) (.unindex n) (fun _ => rfl) _
        (by intro pre disc; simp only [project, hd]) c []
  | reset =>
    have : step c .reset = (fanout (fun e => (e.ix.reset, none)) c).1 := by
      simp only [step, stepE, reset]
    rw [this]
    exact fanout_total_eq (fun ix => ix.reset) .reset (fun _ => rfl) _
      (by intro pre disc; rfl) c []

/-! ## histories -/

theorem standalone_cons_op (op : Op Doc) (h : List (Op Doc)) :
    ∀ (es : List (Entry Doc)) (pre : List (Cfg Doc)),
      standalone pre (standalone pre es [op]) h = standalone pre es (op :: h) := by
  intro es
  induction es with
  | nil => intro pre; rfl
  | cons e es ih =>
    intro pre
    simp only [standalone, List.flatMap_cons, List.flatMap_nil, List.append_nil]
    rw [runOps_append]
    congr 1
    rw [cfgOf_with e _ (runOps_kind _ _)]
    exact ih _

/-- **histories fan out**: after any history of catalog calls every index is in the state of its
own projected history -/
theorem run_eq_standalone (c : Cat Doc) (h : List (Op Doc)) : run c h = standalone [] c h := by
  induction h generalizing c with
  | nil =>
    unfold run
    simp only [List.foldl_nil]
    have : ∀ (es : List (Entry Doc)) pre, standalone pre es [] = es := by
      intro es
      induction es with
      | nil => intro _; rfl
      | cons e es ih =>
        intro pre
        simp only [standalone, List.flatMap_nil]
        exact List.cons_eq_cons.mpr ⟨by cases e; rfl, ih _⟩
    exact (this c []).symm
  | cons op h ih =>
    show run (step c op) h = _
    rw [ih, step_eq_standalone, standalone_cons_op]

/-- position-wise reading of `standalone` -/
theorem standalone_append (P : List (Cfg Doc)) (pre post : List (Entry Doc)) (e : Entry Doc)
    (h : List (Op Doc)) :
    standalone P (pre ++ e :: post) h =
      standalone P pre h ++
        { e with ix := runOps e.ix (h.flatMap (project (P ++ pre.map cfgOf) e.disc)) } ::
          standalone (P ++ pre.map cfgOf ++ [cfgOf e]) post h := by
  induction pre generalizing P with
  | nil => simp [standalone]
  | cons x xs ih =>
    simp only [List.cons_append, standalone, List.map_cons]
    rw [ih]
    simp [List.append_assoc]

theorem standalone_length (P : List (Cfg Doc)) (es : List (Entry Doc)) (h : List (Op Doc)) :
    (standalone P es h).length = es.length := by
  induction es generalizing P with
  | nil => rfl
  | cons e es ih => simp [standalone, ih]

theorem standalone_names (P : List (Cfg Doc)) (es : List (Entry Doc)) (h : List (Op Doc)) :
    (standalone P es h).map (·.name) = es.map (·.name) := by
  induction es generalizing P with
  | nil => rfl
  | cons e es ih => simp [standalone, ih]

/-! ## the received calls as histories of the stand-alone models -/

theorem runOps_field (ops : List IxOp) : ∀ s : Field.State Int,
    runOps (.field s) ops = .field ((ops.filterMap fieldOp).foldl Field.step s) := by
  induction ops with
  | nil => intro s; rfl
  | cons op ops ih =>
    intro s
    show runOps (stepOp (.field s) op) ops = _
    cases op with
    | index d v =>
      cases v with
      | missing => exact ih _
      | reject => exact ih _
      | value x => cases x <;> exact ih _
    | unindex d => exact ih _
    | reset => exact ih _

theorem runOps_keyword (ops : List IxOp) : ∀ s : Keyword.State Int,
    runOps (.keyword s) ops = .keyword ((ops.filterMap kwOp).foldl Keyword.step s) := by
  induction ops with
  | nil => intro s; rfl
  | cons op ops ih =>
    intro s
    show runOps (stepOp (.keyword s) op) ops = _
    cases op with
    | index d v =>
      cases v with
      | missing => exact ih _
      | reject => exact ih _
      | value x => cases x <;> exact ih _
    | unindex d => exact ih _
    | reset => exact ih _

theorem runOps_facet (ops : List IxOp) : ∀ s : Facet.State,
    runOps (.facet s) ops = .facet ((ops.filterMap facetOp).foldl Facet.step s) := by
  induction ops with
  | nil => intro s; rfl
  | cons op ops ih =>
    intro s
    show runOps (stepOp (.facet s) op) ops = _
    cases op with
    | index d v =>
      cases v with
      | missing => exact ih _
      | reject => exact ih _
      | value x => cases x <;> exact ih _
    | unindex d => exact ih _
    | reset => exact ih _

/-! ## `__setitem__` -/

/-- every stored index reports the key it is stored under, keys are distinct -/
def Named (c : Cat Doc) : Prop :=
  (∀ e ∈ c, e.nameAttr = some e.name) ∧ (c.map (·.name)).Nodup

theorem named_nil : Named ([] : Cat Doc) := ⟨by simp, by simp⟩

theorem named_setitem {c : Cat Doc} (h : Named c) (name : String) (e : Entry Doc) :
    Named (setitem c name e) := by
  obtain ⟨h1, h2⟩ := h
  unfold setitem
  (try dsimp only)
  split
  · refine ⟨?_, ?_⟩
    · intro x hx
      obtain ⟨y, hy, rfl⟩ := List.mem_map.mp hx
      split
      · rfl
      · exact h1 y hy
    · have : (c.map (fun x => if (x.name == name) = true then
          { e with name := name, nameAttr := some name } else x)).map (·.name) = c.map (·.name) := by
        rw [List.map_map]
        apply List.map_congr_left
        intro x _
        simp only [Function.comp]
        split
        · next hx => simp at hx; exact hx.symm
        · rfl
      rw [this]; exact h2
  · next hnone =>
    refine ⟨?_, ?_⟩
    · intro x hx
      rcases List.mem_append.mp hx with hx | hx
      · exact h1 x hx
      · simp at hx; subst hx; rfl
    · rw [List.map_append]
      simp only [List.map_cons, List.map_nil]
      rw [List.nodup_append]
      refine ⟨h2, by simp, ?_⟩
      intro a ha b hb
      simp at hb; subst hb
      intro hab; subst hab
      obtain ⟨y, hy, hyn⟩ := List.mem_map.mp ha
      apply hnone
      simp only [List.any_eq_true]
      exact ⟨y, hy, by simp [hyn]⟩

theorem get_some_name {c : Cat Doc} {name : String} {e : Entry Doc} (h : get c name = some e) :
    e ∈ c ∧ e.name = name := by
  unfold get at h
  have := List.find?_some h
  exact ⟨List.mem_of_find?_eq_some h, by simpa using this⟩

theorem get_setitem_same (c : Cat Doc) (name : String) (e : Entry Doc) :
    ∃ e', get (setitem c name e) name = some e' ∧ e'.ix = e.ix ∧ e'.nameAttr = some name := by
  unfold setitem
  (try dsimp only)
  split
  · next hany =>
    induction c with
    | nil => simp at hany
    | cons x xs ih =>
      simp only [List.map_cons]
      by_cases hx : (x.name == name) = true
      · simp only [hx, if_true]
        refine ⟨{ e with name := name, nameAttr := some name }, ?_, rfl, rfl⟩
        unfold get
        rw [List.find?_cons]
        simp
      · have hany' : xs.any (fun x => x.name == name) = true := by
          simpa [List.any_cons, hx] using hany
        obtain ⟨e', h1, h2, h3⟩ := ih hany'
        refine ⟨e', ?_, h2, h3⟩
        unfold get at h1 ⊢
        simp only [hx, if_false]
        rw [List.find?_cons]
        have hx' : (x.name == name) = false := by simpa using hx
        simp only [Bool.false_eq_true, if_false, hx']
        exact h1
  · next hnone =>
    refine ⟨{ e with name := name, nameAttr := some name }, ?_, rfl, rfl⟩
    unfold get
    rw [List.find?_append]
    have : c.find? (fun e => e.name == name) = none := by
      rw [List.find?_eq_none]
      intro x hx hxn
      apply hnone
      simp only [List.any_eq_true]
      exact ⟨x, hx, hxn⟩
    simp [this, List.find?]

end Hyp.Catalog
