import HypatiaModel.Spec.CatalogSpec

/-!
Lemmas for C12, `CatalogQuery.search`: both loops compute the intersection of the per-index
answers; `sort` and the `num` component.
-/
set_option linter.unusedSectionVars false
set_option linter.unusedSimpArgs false
namespace Hyp.Catalog
open Hyp Hyp.Legacy Hyp.Catalog.Spec

variable {Doc : Type}

/-! ## unordered mode -/

theorem collect_all_nonempty (sets : List IdSet) (h : ∀ s ∈ sets, s ≠ []) :
    collect (sets.map Except.ok) = .ok (some sets) := by
  induction sets with
  | nil => rfl
  | cons s rest ih =>
    have hs := h s (by simp)
    have ih' := ih (fun x hx => h x (List.mem_cons_of_mem _ hx))
    cases s with
    | nil => exact absurd rfl hs
    | cons a as =>
      simp only [List.map_cons]
      unfold collect
      rw [ih']
      rfl

theorem collect_some_empty (sets : List IdSet) (h : ∃ s ∈ sets, s = []) :
    collect (sets.map Except.ok) = .ok none := by
  induction sets with
  | nil => obtain ⟨s, hs, _⟩ := h; simp at hs
  | cons s rest ih =>
    cases s with
    | nil => rfl
    | cons a as =>
      have : ∃ s ∈ rest, s = [] := by
        obtain ⟨x, hx, he⟩ := h
        rcases List.mem_cons.mp hx with rfl | hx
        · cases he
        · exact ⟨x, hx, he⟩
      simp only [List.map_cons]
      unfold collect
      rw [ih this]
      rfl

theorem mem_foldl_inter (results : List IdSet) (acc : IdSet) (d : Int) :
    d ∈ results.foldl LSet.inter acc ↔ d ∈ acc ∧ ∀ r ∈ results, d ∈ r := by
  induction results generalizing acc with
  | nil => simp
  | cons r rest ih =>
    simp only [List.foldl_cons, ih, LSet.mem_inter, List.mem_cons, forall_eq_or_imp]
    exact and_assoc

theorem nodup_foldl_inter (results : List IdSet) (acc : IdSet) (h : acc.Nodup) :
    (results.foldl LSet.inter acc).Nodup := by
  induction results generalizing acc with
  | nil => exact h
  | cons r rest ih => exact ih _ (LSet.nodup_inter h r)

/-- smallest-first intersection = the intersection -/
theorem mem_intersectAll (results : List IdSet) (d : Int) :
    d ∈ intersectAll results ↔ results ≠ [] ∧ ∀ r ∈ results, d ∈ r := by
  unfold intersectAll
  cases hs : Sort.isort (fun a b => decide (a.length ≤ b.length)) results with
  | nil =>
    have : results = [] := by
      have := Sort.length_isort (fun a b : IdSet => decide (a.length ≤ b.length)) results
      rw [hs] at this
      exact List.length_eq_zero_iff.mp this.symm
    simp [this]
  | cons smallest rest =>
    have hmem : smallest ∈ results := by
      rw [← Sort.mem_isort (fun a b : IdSet => decide (a.length ≤ b.length)), hs]; simp
    have hne : results ≠ [] := List.ne_nil_of_mem hmem
    simp only [mem_foldl_inter, hne, ne_eq, not_false_eq_true, true_and]
    exact ⟨fun h => h.2, fun h => ⟨h _ hmem, h⟩⟩

theorem nodup_intersectAll (results : List IdSet) (h : ∀ r ∈ results, r.Nodup) :
    (intersectAll results).Nodup := by
  unfold intersectAll
  cases hs : Sort.isort (fun a b => decide (a.length ≤ b.length)) results with
  | nil => simp
  | cons smallest rest =>
    have hmem : smallest ∈ results := by
      rw [← Sort.mem_isort (fun a b : IdSet => decide (a.length ≤ b.length)), hs]; simp
    exact nodup_foldl_inter _ _ (h _ hmem)

/-- the answer of the unordered loop as an id list -/
def unorderedAnswer (sets : List IdSet) : IdSet :=
  if sets.any (fun s => s.isEmpty) then [] else intersectAll sets

theorem mem_unorderedAnswer (sets : List IdSet) (d : Int) :
    d ∈ unorderedAnswer sets ↔ sets ≠ [] ∧ ∀ s ∈ sets, d ∈ s := by
  unfold unorderedAnswer
  split
  · next h =>
    simp only [List.any_eq_true, List.isEmpty_iff] at h
    obtain ⟨s, hs, he⟩ := h
    subst he
    simp only [List.not_mem_nil, false_iff, not_and]
    intro _ hall
    exact absurd (hall [] hs) (by simp)
  · exact mem_intersectAll sets d

theorem nodup_unorderedAnswer (sets : List IdSet) (h : ∀ s ∈ sets, s.Nodup) :
    (unorderedAnswer sets).Nodup := by
  unfold unorderedAnswer
  split
  · simp
  · exact nodup_intersectAll sets h

/-- the unordered mode of `search`, once every queried index has answered -/
theorem search_unordered_eq (c : Cat Doc) (a : SearchArgs) (sets : List IdSet)
    (horder : a.order = none) (hres : a.terms.map (resolve c) = sets.map Except.ok) :
    search c a =
      if unorderedAnswer sets = [] then .ok (0, .ids []) else sort c (unorderedAnswer sets) a.toSortArgs := by
  unfold search
  rw [horder, hres]
  (try dsimp only)
  unfold unorderedAnswer
  by_cases hany : sets.any (fun s => s.isEmpty) = true
  · have : ∃ s ∈ sets, s = [] := by
      simp only [List.any_eq_true, List.isEmpty_iff] at hany; exact hany
    rw [collect_some_empty sets this]
    simp [hany]
    rfl
  · have hall : ∀ s ∈ sets, s ≠ [] := by
      intro s hs he
      apply hany
      simp only [List.any_eq_true, List.isEmpty_iff]
      exact ⟨s, hs, he⟩
    rw [collect_all_nonempty sets hall]
    simp only [hany, Bool.false_eq_true, if_false]
    show (if intersectAll sets = [] then pure (0, Result.ids []) else sort c (intersectAll sets) a.toSortArgs) = _
    rfl

/-! ## ordered mode -/

/-- membership in the running intersection -/
def inRes (res : Option IdSet) (d : Int) : Prop :=
  match res with
  | none => True
  | some ds => d ∈ ds

/-- `apply_intersect`'s result: the answer, met with the running intersection if there is one -/
def meet : Option IdSet → IdSet → IdSet
  | none, s => s
  | some ds, s => LSet.inter s ds

theorem mem_meet (res : Option IdSet) (s : IdSet) (d : Int) :
    d ∈ meet res s ↔ inRes res d ∧ d ∈ s := by
  cases res with
  | none => simp [meet, inRes]
  | some ds => simp only [meet, inRes, LSet.mem_inter]; exact and_comm

theorem nodup_meet (res : Option IdSet) (s : IdSet) (h : s.Nodup) : (meet res s).Nodup := by
  cases res with
  | none => exact h
  | some ds => exact LSet.nodup_inter h ds

/-- the loop of the ordered mode over the answers of the applicable indexes -/
def orderedFold : List IdSet → Option IdSet → Option (Option IdSet)
  | [], res => some res
  | s :: rest, res => if meet res s = [] then none else orderedFold rest (some (meet res s))

theorem ordered_eq_fold (c : Cat Doc) (terms : List (String × QArg)) :
    ∀ (order : List String) (res : Option IdSet) (sets : List IdSet),
      (applicable terms order).map (resolve c) = sets.map Except.ok →
      ordered c terms order res = .ok (orderedFold sets res) := by
  intro order
  induction order with
  | nil =>
    intro res sets h
    cases sets with
    | nil => rfl
    | cons s ss => simp [applicable] at h
  | cons n rest ih =>
    intro res sets h
    unfold ordered
    cases hl : terms.lookup n with
    | none =>
      have : applicable terms (n :: rest) = applicable terms rest := by
        unfold applicable; simp [List.filterMap_cons, hl]
      rw [this] at h
      exact ih res sets h
    | some q =>
      have happ : applicable terms (n :: rest) = (n, q) :: applicable terms rest := by
        unfold applicable; simp [List.filterMap_cons, hl]
      rw [happ] at h
      cases sets with
      | nil => simp at h
      | cons s ss =>
        simp only [List.map_cons, List.cons.injEq] at h
        obtain ⟨h1, h2⟩ := h
        unfold resolve at h1
        (try dsimp only at h1)
        cases hg : get c n with
        | none => rw [hg] at h1; cases h1
        | some e =>
          rw [hg] at h1
          (try dsimp only at h1)
          (try dsimp only)
          have hai : e.ix.applyIntersect q res = .ok (meet res s) := by
            unfold Index.applyIntersect
            rw [h1]
            cases res <;> rfl
          rw [hai]
          show (if meet res s = [] then pure none else ordered c terms rest (some (meet res s))) = _
          unfold orderedFold
          by_cases he : meet res s = []
          · simp only [he, if_true]; rfl
          · simp only [he, if_false]
            exact ih _ _ h2

theorem orderedFold_none (sets : List IdSet) : ∀ res, orderedFold sets res = none →
    ∀ d, ¬ (inRes res d ∧ ∀ s ∈ sets, d ∈ s) := by
  induction sets with
  | nil => intro res h; simp [orderedFold] at h
  | cons s rest ih =>
    intro res h d
    unfold orderedFold at h
    rintro ⟨hr, hall⟩
    have hd : d ∈ meet res s := (mem_meet res s d).mpr ⟨hr, hall s (by simp)⟩
    by_cases he : meet res s = []
    · rw [he] at hd; simp at hd
    · simp only [he, if_false] at h
      exact ih _ h d ⟨hd, fun x hx => hall x (List.mem_cons_of_mem _ hx)⟩

theorem orderedFold_some (sets : List IdSet) : ∀ res I, orderedFold sets res = some (some I) →
    (∀ d, d ∈ I ↔ inRes res d ∧ ∀ s ∈ sets, d ∈ s) ∧ (sets ≠ [] → I ≠ []) := by
  induction sets with
  | nil =>
    intro res I h
    simp only [orderedFold, Option.some.injEq] at h
    subst h
    exact ⟨fun d => by simp [inRes], fun h => absurd rfl h⟩
  | cons s rest ih =>
    intro res I h
    unfold orderedFold at h
    by_cases he : meet res s = []
    · simp [he] at h
    · simp only [he, if_false] at h
      obtain ⟨h1, h2⟩ := ih _ _ h
      refine ⟨?_, ?_⟩
      · intro d
        rw [h1]
        simp only [inRes, List.mem_cons, forall_eq_or_imp, mem_meet]
        exact and_assoc
      · intro _
        cases rest with
        | nil =>
          simp only [orderedFold, Option.some.injEq] at h
          rw [← h]; exact he
        | cons x xs => exact h2 (by simp)

theorem orderedFold_some_ne (l : List IdSet) : ∀ r : IdSet, orderedFold l (some r) ≠ some none := by
  induction l with
  | nil => intro r h; simp [orderedFold] at h
  | cons x xs ih =>
    intro r h
    unfold orderedFold at h
    by_cases he : meet (some r) x = []
    · simp [he] at h
    · simp only [he, if_false] at h
      exact ih _ h

theorem orderedFold_some_none (sets : List IdSet) : ∀ res, orderedFold sets res = some none →
    sets = [] ∧ res = none := by
  cases sets with
  | nil => intro res h; simp [orderedFold] at h; exact ⟨rfl, h⟩
  | cons s rest =>
    intro res h
    unfold orderedFold at h
    by_cases he : meet res s = []
    · simp [he] at h
    · simp only [he, if_false] at h
      exact absurd h (orderedFold_some_ne _ _)

theorem orderedFold_nodup (sets : List IdSet) (hn : ∀ s ∈ sets, s.Nodup) :
    ∀ res I, (∀ ds, res = some ds → ds.Nodup) → orderedFold sets res = some (some I) → I.Nodup := by
  induction sets with
  | nil =>
    intro res I hres h
    simp only [orderedFold, Option.some.injEq] at h
    exact hres I h
  | cons s rest ih =>
    intro res I hres h
    unfold orderedFold at h
    by_cases he : meet res s = []
    · simp [he] at h
    · simp only [he, if_false] at h
      refine ih (fun x hx => hn x (List.mem_cons_of_mem _ hx)) _ I ?_ h
      intro ds hds
      simp only [Option.some.injEq] at hds
      subst hds
      exact nodup_meet res s (hn s (by simp))

/-- the answer of the ordered loop as an id list -/
def orderedAnswer (sets : List IdSet) : IdSet :=
  match orderedFold sets none with
  | some (some I) => I
  | _ => []

theorem mem_orderedAnswer (sets : List IdSet) (d : Int) :
    d ∈ orderedAnswer sets ↔ sets ≠ [] ∧ ∀ s ∈ sets, d ∈ s := by
  unfold orderedAnswer
  cases h : orderedFold sets none with
  | none =>
    have := orderedFold_none sets none h d
    simp only [inRes, true_and] at this
    simp only [List.not_mem_nil, false_iff, not_and]
    exact fun _ => this
  | some o =>
    cases o with
    | none =>
      have := (orderedFold_some_none sets none h).1
      simp [this]
    | some I =>
      obtain ⟨h1, h2⟩ := orderedFold_some sets none I h
      rw [h1]
      simp only [inRes, true_and]
      constructor
      · intro hall
        refine ⟨?_, hall⟩
        intro he; subst he
        simp only [orderedFold, Option.some.injEq] at h
        cases h
      · exact fun h => h.2

theorem nodup_orderedAnswer (sets : List IdSet) (hn : ∀ s ∈ sets, s.Nodup) :
    (orderedAnswer sets).Nodup := by
  unfold orderedAnswer
  cases h : orderedFold sets none with
  | none => simp
  | some o =>
    cases o with
    | none => simp
    | some I => exact orderedFold_nodup sets hn none I (by intro ds h; cases h) h

/-- the ordered mode of `search`, once every applicable index has answered -/
theorem search_ordered_eq (c : Cat Doc) (a : SearchArgs) (order : List String) (sets : List IdSet)
    (horder : a.order = some order)
    (hres : (applicable a.terms order).map (resolve c) = sets.map Except.ok) :
    search c a =
      if orderedAnswer sets = [] then .ok (0, .ids []) else sort c (orderedAnswer sets) a.toSortArgs := by
  unfold search
  rw [horder]
  (try dsimp only)
  rw [ordered_eq_fold c a.terms order none sets hres]
  unfold orderedAnswer
  cases h : orderedFold sets none with
  | none => rfl
  | some o =>
    cases o with
    | none => rfl
    | some I =>
      have hne : I ≠ [] := by
        cases sets with
        | nil => simp [orderedFold] at h
        | cons s ss => exact (orderedFold_some _ none I h).2 (by simp)
      simp only [hne, if_false]
      rfl

/-! ## the specification's intersection -/

theorem mem_interAll (sets : List IdSet) (d : Int) :
    d ∈ Spec.interAll sets ↔ sets ≠ [] ∧ ∀ s ∈ sets, d ∈ s := by
  cases sets with
  | nil => simp [Spec.interAll]
  | cons s rest =>
    simp only [Spec.interAll, List.mem_filter, List.all_eq_true, decide_eq_true_eq, ne_eq,
      reduceCtorEq, not_false_eq_true, true_and, List.mem_cons, forall_eq_or_imp]

/-! ## `sort` -/

theorem sort_no_index (c : Cat Doc) (I : IdSet) (a : SortArgs) (h : a.sortIndex = none) :
    sort c I a = .ok (I.length, .ids I) := by
  unfold sort; rw [h]

theorem fieldSort_ok (s : Field.State Int) (I : IdSet) (rev : Bool) (limit : Option Int)
    (hl : ∀ l, limit = some l → 1 ≤ l) (hne : I = [] ∨ s.numDocs ≠ 0) :
    ∃ l r, fieldSort s I rev limit = .ok (l, r) ∧ (∀ d ∈ l, d ∈ I) ∧
      (∀ n, limit = some n → l.length ≤ n.toNat) := by
  have hsub : ∀ x, x ∈ (Sort.isort (fun a b => if rev then decide ((AMap.get s.rev b).getD 0 ≤ (AMap.get s.rev a).getD 0)
        else decide ((AMap.get s.rev a).getD 0 ≤ (AMap.get s.rev b).getD 0))
      (Sort.isort (fun a b => decide (a ≤ b)) (I.filter (fun d => (AMap.get s.rev d).isSome)))) → x ∈ I := by
    intro x hx
    rw [Sort.mem_isort, Sort.mem_isort] at hx
    exact (List.mem_filter.mp hx).1
  by_cases hI : I = []
  · subst hI
    refine ⟨[], false, ?_, by simp, by simp⟩
    cases limit with
    | none => simp [fieldSort]
    | some l =>
      have := hl l rfl
      have h1 : ¬ l < 1 := by omega
      simp [fieldSort, h1]
  · have hnd : s.numDocs ≠ 0 := by
      rcases hne with h | h
      · exact absurd h hI
      · exact h
    cases limit with
    | none =>
      cases hfs : fieldSort s I rev none with
      | error e => simp only [fieldSort, Bool.false_eq_true, if_false, hI, hnd] at hfs; cases hfs
      | ok p =>
        simp only [fieldSort, Bool.false_eq_true, if_false, hI, hnd] at hfs
        have := Except.ok.inj hfs
        subst this
        exact ⟨_, _, rfl, fun d hd => hsub d hd, fun n hn => by cases hn⟩
    | some l =>
      have := hl l rfl
      have h1 : ¬ l < 1 := by omega
      cases hfs : fieldSort s I rev (some l) with
      | error e =>
        simp only [fieldSort, h1, decide_false, Bool.false_eq_true, if_false, hI, hnd] at hfs; cases hfs
      | ok p =>
        simp only [fieldSort, h1, decide_false, Bool.false_eq_true, if_false, hI, hnd] at hfs
        have := Except.ok.inj hfs
        subst this
        refine ⟨_, _, rfl, fun d hd => hsub d (List.mem_of_mem_take hd), ?_⟩
        intro n hn
        simp only [Option.some.injEq] at hn
        subst hn
        simp only [List.length_take]
        omega

/-- `num` and the shape of the result under a sort index that is a field index -/
theorem sort_field (c : Cat Doc) (I : IdSet) (a : SortArgs) (name : String) (e : Entry Doc)
    (s : Field.State Int) (hs : a.sortIndex = some name) (hg : get c name = some e)
    (hix : e.ix = .field s) (hl : ∀ l, a.limit = some l → 1 ≤ l) (hne : I = [] ∨ s.numDocs ≠ 0) :
    ∃ l r, sort c I a = .ok (Spec.num I.length a.sortIndex a.limit, .seq l r) ∧ (∀ d ∈ l, d ∈ I) ∧
      (∀ n, a.limit = some n → l.length ≤ n.toNat) := by
  obtain ⟨l, r, h1, h2, h3⟩ := fieldSort_ok s I a.reverse a.limit hl hne
  refine ⟨l, r, ?_, h2, h3⟩
  simp only [sort, hs, hg, Index.sort, hix, h1, Spec.num]
  cases hlim : a.limit with
  | none => rfl
  | some n =>
    have := hl n hlim
    have hn0 : n ≠ 0 := by omega
    show Except.ok (if n = 0 then I.length else min I.length n.toNat, Result.seq l r) = _
    simp [hn0]

end Hyp.Catalog
