import HypatiaProofs.Lemmas.CatalogEnd
import HypatiaProofs.Properties.C07
import HypatiaModel.CatalogSort
import HypatiaProofs.Lemmas.ResultSet
import HypatiaProofs.Lemmas.QueryEndToEnd

/-!
# `CatalogQuery` with the sort index's own `sort` (C12 ∘ C07)

* `search` (the C12 model) = `searchSet`, then `sort`: the composed `searchM` shares both loops with it;
* `searchSet` is the intersection of the per-index answers (both modes);
* `sortM` over a catalog whose sort index is the field index model after a history: `num`, the C07 clauses
  for what iteration of the result shows, and the two exceptions of the call itself.
-/
set_option linter.unusedSectionVars false
set_option linter.unusedSimpArgs false
set_option linter.unusedVariables false
namespace Hyp.Catalog
open Hyp Hyp.Legacy Hyp.Catalog.Spec
open Hyp.Field (SortRes SortType Gen)

variable {Doc : Type}

/-- `search` is `searchSet` followed by `self.sort` -/
theorem search_eq_searchSet (c : Cat Doc) (a : SearchArgs) :
    search c a = (do
      match ← searchSet c a with
      | none => pure (0, .ids [])
      | some result => sort c result a.toSortArgs) := by
  unfold search searchSet
  cases a.order with
  | none =>
    simp only
    cases collect (a.terms.map (resolve c)) with
    | error e => rfl
    | ok o =>
      cases o with
      | none => rfl
      | some results =>
        simp only [bind, Except.bind]
        by_cases h : intersectAll results = [] <;> simp [h, pure, Except.pure]
  | some order =>
    simp only
    cases ordered c a.terms order none with
    | error e => rfl
    | ok o =>
      cases o with
      | none => rfl
      | some o' => cases o' <;> rfl

theorem searchM_eq_searchSet (c : Cat Doc) (a : SearchArgs) (st : Option SortType) :
    searchM c a st = (do
      match ← searchSet c a with
      | none => pure (0, .ids [])
      | some result => sortM c result a.toSortArgs st) := rfl

/-- the unordered loop, once every queried index has answered -/
theorem searchSet_unordered (c : Cat Doc) (a : SearchArgs) (sets : List IdSet)
    (horder : a.order = none) (hres : a.terms.map (resolve c) = sets.map Except.ok) :
    searchSet c a = .ok (if unorderedAnswer sets = [] then none else some (unorderedAnswer sets)) := by
  unfold searchSet
  rw [horder, hres]
  (try dsimp only)
  unfold unorderedAnswer
  by_cases hany : sets.any (fun s => s.isEmpty) = true
  · have : ∃ s ∈ sets, s = [] := by
      simp only [List.any_eq_true, List.isEmpty_iff] at hany; exact hany
    rw [collect_some_empty sets this]
    simp [hany]
    rfl
  · have hall : ∀ s ∈ sets, s ≠ [] := by
      intro s hs he
      apply hany
      simp only [List.any_eq_true, List.isEmpty_iff]
      exact ⟨s, hs, he⟩
    rw [collect_all_nonempty sets hall]
    simp only [hany, Bool.false_eq_true, if_false, bind, Except.bind]
    by_cases h : intersectAll sets = [] <;> simp [h, pure, Except.pure]

/-- the ordered loop, once every applicable index has answered -/
theorem searchSet_ordered (c : Cat Doc) (a : SearchArgs) (order : List String) (sets : List IdSet)
    (horder : a.order = some order)
    (hres : (applicable a.terms order).map (resolve c) = sets.map Except.ok) :
    searchSet c a = .ok (if orderedAnswer sets = [] then none else some (orderedAnswer sets)) := by
  unfold searchSet
  rw [horder]
  (try dsimp only)
  rw [ordered_eq_fold c a.terms order none sets hres]
  unfold orderedAnswer
  cases h : orderedFold sets none with
  | none => rfl
  | some o =>
    cases o with
    | none => rfl
    | some I =>
      have hne : I ≠ [] := by
        cases sets with
        | nil => simp [orderedFold] at h
        | cons s ss => exact (orderedFold_some _ none I h).2 (by simp)
      simp only [hne, if_false]
      rfl

theorem searchM_of_set (c : Cat Doc) (a : SearchArgs) (st : Option SortType) (I : IdSet)
    (h : searchSet c a = .ok (if I = [] then none else some I)) :
    searchM c a st = if I = [] then .ok (0, .ids []) else sortM c I a.toSortArgs st := by
  rw [searchM_eq_searchSet, h]
  by_cases hI : I = [] <;> simp [hI, bind, Except.bind, pure, Except.pure]

/-! ## `sortM` -/

theorem sortM_no_index (c : Cat Doc) (I : IdSet) (a : SortArgs) (st : Option SortType)
    (h : a.sortIndex = none) : sortM c I a st = .ok (I.length, .ids I) := by
  simp [sortM, h]

/-- the shape of `sortM` under a field sort index -/
theorem sortM_field_eq (c : Cat Doc) (I : IdSet) (a : SortArgs) (st : Option SortType) (name : String)
    (e : Entry Doc) (s : Field.State Int) (hs : a.sortIndex = some name) (hg : get c name = some e)
    (hix : e.ix = .field s) :
    sortM c I a st =
      match Field.sort s I a.reverse a.limit st true with
      | .valueError => .error .valueError
      | .unsortableAtCall _ => .error .unsortable
      | r => .ok ((match a.limit with
                   | some l => if l = 0 then I.length else min I.length l.toNat
                   | none => I.length), .sorted r) := by
  simp only [sortM, hs, hg, Index.sortM, hix]
  cases Field.sort s I a.reverse a.limit st true <;> rfl

theorem num_of_goodLimit (size : Nat) (name : String) (limit : Option Int) :
    Field.Spec.badLimit limit = false →
    (match limit with
     | some l => if l = 0 then size else min size l.toNat
     | none => size) = Spec.num size (some name) limit := by
  intro hb
  cases limit with
  | none => rfl
  | some l =>
    have : ¬ l < 1 := by simpa [Field.Spec.badLimit, Field.limitInvalid] using hb
    have h0 : l ≠ 0 := by omega
    simp [Spec.num, h0]

theorem observe_ok_not_bad {s : Field.State Int} {I : IdSet} {rev : Bool} {limit : Option Int}
    {st : Option SortType} {ru : Bool} {g : Gen}
    (h : (Field.sort s I rev limit st ru).observe = some g) : Field.Spec.badLimit limit = false := by
  rcases Field.sort_cases s I rev limit st ru with
    ⟨hb, e⟩ | ⟨hb, _, _⟩ | ⟨hb, _, _, _⟩ | ⟨hb, _, _, _, _⟩ | ⟨hb, _, _, _, _⟩
  · rw [e] at h; cases h
  all_goals exact hb

/-- **`sortM` under a field sort index that ran the history `hf`**: `num`, and what iteration of the result
shows satisfies C07 -/
theorem sortM_field_ok (c : Cat Doc) (I : IdSet) (hnd : I.Nodup) (a : SortArgs) (st : Option SortType)
    (name : String) (e : Entry Doc) (hf : List (Field.Op Int)) (hs : a.sortIndex = some name)
    (hg : get c name = some e) (hix : e.ix = .field (Field.run hf)) (n : Nat) (res : ResultM)
    (hr : sortM c I a st = .ok (n, res)) :
    n = Spec.num I.length a.sortIndex a.limit ∧
    ∃ r g, res = .sorted r ∧ r.observe = some g ∧
      Field.Spec.SortOK (Field.Spec.table hf) I a.reverse (a.limit.map Int.toNat) g.ids ∧
      g.raised.isSome = Field.Spec.shouldRaise (Field.Spec.table hf) I (a.limit.map Int.toNat) true ∧
      (g.raised.isSome = true → ∀ d ∈ I, Field.Spec.sortable (Field.Spec.table hf) d = true → d ∈ g.ids) := by
  rw [sortM_field_eq c I a st name e _ hs hg hix] at hr
  cases hsr : Field.sort (Field.run hf) I a.reverse a.limit st true with
  | valueError => rw [hsr] at hr; cases hr
  | unsortableAtCall ds => rw [hsr] at hr; cases hr
  | emptyList =>
    rw [hsr] at hr
    simp only [Except.ok.injEq, Prod.mk.injEq] at hr
    have hobs : (Field.sort (Field.run hf) I a.reverse a.limit st true).observe = some { ids := [] } := by
      rw [hsr]; rfl
    have hb := observe_ok_not_bad hobs
    obtain ⟨h1, h2, h3⟩ := Field.c07_sort_ok intOrdLaws hf I hnd a.reverse a.limit st true _ hobs
    refine ⟨?_, .emptyList, _, hr.2.symm, rfl, h1, h2, h3⟩
    rw [← hr.1, hs]; exact num_of_goodLimit _ _ _ hb
  | gen g =>
    rw [hsr] at hr
    simp only [Except.ok.injEq, Prod.mk.injEq] at hr
    have hobs : (Field.sort (Field.run hf) I a.reverse a.limit st true).observe = some g := by
      rw [hsr]; rfl
    have hb := observe_ok_not_bad hobs
    obtain ⟨h1, h2, h3⟩ := Field.c07_sort_ok intOrdLaws hf I hnd a.reverse a.limit st true _ hobs
    refine ⟨?_, .gen g, g, hr.2.symm, rfl, h1, h2, h3⟩
    rw [← hr.1, hs]; exact num_of_goodLimit _ _ _ hb

/-- the exceptions of the call itself -/
theorem sortM_field_errors (c : Cat Doc) (I : IdSet) (a : SortArgs) (st : Option SortType)
    (name : String) (e : Entry Doc) (hf : List (Field.Op Int)) (hs : a.sortIndex = some name)
    (hg : get c name = some e) (hix : e.ix = .field (Field.run hf)) :
    (sortM c I a st = .error .valueError ↔
      Field.Spec.badLimit a.limit = true ∨
        (I ≠ [] ∧ (∃ d v, Field.Spec.valueOf (Field.Spec.table hf) d = some v) ∧
          Field.Spec.rejects a.reverse a.limit st = true)) ∧
    (sortM c I a st = .error .unsortable ↔
      Field.Spec.badLimit a.limit = false ∧ I ≠ [] ∧
        ¬ ∃ d v, Field.Spec.valueOf (Field.Spec.table hf) d = some v) := by
  rw [sortM_field_eq c I a st name e _ hs hg hix]
  have hv := Field.c07_sort_valueError_iff hf I a.reverse a.limit st true
  have hnz : (Field.run hf).numDocs ≠ 0 ↔ ∃ d v, Field.Spec.valueOf (Field.Spec.table hf) d = some v := by
    rw [ne_eq, Field.numDocs_zero_iff (Field.run_inv hf)]
    constructor
    · intro hne
      apply Classical.byContradiction
      intro hno
      apply hne
      intro d
      cases hvd : Field.Spec.valueOf (Field.Spec.table hf) d with
      | none => rfl
      | some v => exact absurd ⟨d, v, hvd⟩ hno
    · rintro ⟨d, v, hvd⟩ hall
      rw [hall d] at hvd; cases hvd
  constructor
  · rw [← hv]
    cases Field.sort (Field.run hf) I a.reverse a.limit st true <;> simp
  · rcases Field.sort_cases (Field.run hf) I a.reverse a.limit st true with
      ⟨hb, e⟩ | ⟨hb, hd, e⟩ | ⟨hb, hd, hn, e⟩ | ⟨hb, hd, hn, hr, e⟩ | ⟨hb, hd, hn, hr, al, g, _, e, _⟩
    · rw [e]; simp [hb]
    · rw [e]; simp [hd]
    · rw [e]
      have : ¬ ∃ d v, Field.Spec.valueOf (Field.Spec.table hf) d = some v := fun hx => (hnz.mpr hx) hn
      simp [hb, hd, this]
    · rw [e]; simp [hnz.mp hn]
    · rw [e]; simp [hnz.mp hn]

/-! ## the catalog after a history: the sort index is the field model after its projected history -/

theorem get_append_of_name {pre post : Cat Doc} {e : Entry Doc} {name : String}
    (hpre : ∀ x ∈ pre, x.name ≠ name) (he : e.name = name) : get (pre ++ e :: post) name = some e := by
  unfold get
  induction pre with
  | nil => simp [he]
  | cons x xs ih =>
    have hx : (x.name == name) = false := by simpa using hpre x (by simp)
    simp only [List.cons_append, List.find?_cons, hx]
    exact ih (fun y hy => hpre y (List.mem_cons_of_mem _ hy))

/-- the sort index of the catalog after the history `h`, when it was created as a fresh field index: the C01
model after its own projected history -/
theorem get_run_field (pre post : Cat Doc) (e : Entry Doc) (name : String) (h : List (Op Doc))
    (hpre : ∀ x ∈ pre, x.name ≠ name) (he : e.name = name) (hfield : e.ix = .field Field.init) :
    ∃ e', get (run (pre ++ e :: post) h) name = some e' ∧
      e'.ix = .field (Field.run ((h.flatMap (project (pre.map cfgOf) e.disc)).filterMap fieldOp)) := by
  rw [run_eq_standalone, standalone_append]
  simp only [List.nil_append]
  refine ⟨_, get_append_of_name ?_ he, ?_⟩
  · intro x hx
    have hn := standalone_names ([] : List (Cfg Doc)) pre h
    obtain ⟨i, hi, rfl⟩ := List.mem_iff_getElem.mp hx
    have : (standalone [] pre h)[i].name = (pre[i]'(by rw [← standalone_length [] pre h]; exact hi)).name := by
      have := congrArg (fun l => l[i]?) hn
      simp only [List.getElem?_map] at this
      rw [List.getElem?_eq_getElem hi, List.getElem?_eq_getElem (by rw [← standalone_length [] pre h]; exact hi)] at this
      simpa using this
    rw [this]
    exact hpre _ (List.getElem_mem _)
  · show runOps e.ix _ = _
    rw [hfield]
    exact runOps_field _ _

/-! ## the catalog's indexes after a catalog history are index models after (projected) histories -/

theorem mcatOf_standalone (names : List Facet.Facet) (h : List (Op Doc)) :
    ∀ (es : List (Entry Doc)) (P : List (Cfg Doc)), (∀ e ∈ es, Fresh e.ix) →
      ∃ hs : List Query.IndexH, mcatOf names (standalone P es h) = Query.modelCatalog hs ∧
        hs.all Query.noText = true := by
  intro es
  induction es with
  | nil => intro P _; exact ⟨[], rfl, rfl⟩
  | cons e es ih =>
    intro P hfr
    obtain ⟨hs, h1, h2⟩ := ih (P ++ [cfgOf e]) (fun x hx => hfr x (List.mem_cons_of_mem _ hx))
    have hfe := hfr e (by simp)
    have hcons : ∀ x : Query.IndexH, Query.noText x = true →
        toIndexM names (runOps e.ix (h.flatMap (project P e.disc))) = Query.modelIndex x →
        ∃ hs' : List Query.IndexH, mcatOf names (standalone P (e :: es) h) = Query.modelCatalog hs' ∧
          hs'.all Query.noText = true := by
      intro x hx hm
      refine ⟨x :: hs, ?_, by simp [hx, h2]⟩
      show toIndexM names _ :: mcatOf names (standalone (P ++ [cfgOf e]) es h) = _
      rw [h1, hm]; rfl
    cases hix : e.ix with
    | field s =>
      rw [hix] at hfe; simp only [Fresh] at hfe; subst hfe
      exact hcons (.field ((h.flatMap (project P e.disc)).filterMap fieldOp)) rfl
        (by rw [hix, runOps_field]; rfl)
    | keyword s =>
      rw [hix] at hfe; simp only [Fresh] at hfe; subst hfe
      exact hcons (.keyword ((h.flatMap (project P e.disc)).filterMap kwOp)) rfl
        (by rw [hix, runOps_keyword]; rfl)
    | facet s =>
      rw [hix] at hfe
      obtain ⟨F, rfl⟩ := hfe
      exact hcons (.facet names F ((h.flatMap (project P e.disc)).filterMap facetOp)) rfl
        (by rw [hix, runOps_facet]; rfl)

/-! ## `query.execute().sort(index, …)`: `ResultSet.sort` (C11) over the field index model (C07) -/

theorem rs_sort_field {R : Type} (hf : List (Field.Op Int)) (I : IdSet) (hnd : I.Nodup)
    (resolver : Option (Int → R)) (reverse : Bool) (limit : Option Int) (st : Option SortType) (raiseU : Bool)
    (rs' : RSet.RS R)
    (hs : ((RSet.ofQuery I resolver).sort (Field.sort (Field.run hf)) reverse limit st raiseU).2 = .ok rs') :
    rs'.len = Field.Spec.cut (limit.map Int.toNat) I.length ∧
    Field.Spec.SortOK (Field.Spec.table hf) I reverse (limit.map Int.toNat) (RSet.Spec.seq rs') ∧
    (RSet.Spec.pending rs').isSome = Field.Spec.shouldRaise (Field.Spec.table hf) I (limit.map Int.toNat) raiseU ∧
    ((RSet.Spec.pending rs').isSome = true →
      ∀ d ∈ I, Field.Spec.sortable (Field.Spec.table hf) d = true → d ∈ RSet.Spec.seq rs') ∧
    rs'.sortType = some .stable ∧ rs'.resolver = resolver := by
  have hp : RSet.Spec.pending (RSet.ofQuery I resolver) = none := rfl
  rw [RSet.sort_of_pending_none _ _ reverse limit st raiseU hp] at hs
  have hseq : RSet.Spec.seq (RSet.ofQuery I resolver) = I := rfl
  have heff : (RSet.ofQuery I resolver).effType st = st := by cases st <;> rfl
  rw [hseq, heff] at hs
  cases hr : RSet.ofSortRes (Field.sort (Field.run hf) I reverse limit st raiseU) with
  | error e => rw [hr] at hs; cases hs
  | ok ids =>
    rw [hr] at hs
    simp only [Except.ok.injEq] at hs
    obtain ⟨g, hg, hcont⟩ := RSet.ofSortRes_ok hr
    obtain ⟨hok, hraise, hcomp⟩ := Field.c07_sort_ok intOrdLaws hf I hnd reverse limit st raiseU g hg
    have hb := RSet.observe_some_not_badLimit hg
    have e_ids : rs'.ids = ids := by rw [← hs]
    have hseq' : RSet.Spec.seq rs' = g.ids := by simp [RSet.Spec.seq, e_ids, hcont]
    have hpend : RSet.Spec.pending rs' = g.raised := by simp [RSet.Spec.pending, e_ids, hcont]
    refine ⟨?_, by rw [hseq']; exact hok, by rw [hpend]; exact hraise, by rw [hpend, hseq']; exact hcomp,
      by rw [← hs], by rw [← hs]; rfl⟩
    show rs'.numids = _
    rw [← hs]
    show RSet.limitNumids I.length limit = _
    exact RSet.limitNumids_eq_cut _ _ hb

end Hyp.Catalog
