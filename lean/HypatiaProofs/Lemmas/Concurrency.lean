import HypatiaModel.Concurrency

set_option linter.unusedSectionVars false
set_option linter.unusedSimpArgs false
set_option linter.unusedVariables false
namespace Hyp.Concurrency

/-- the final write to position `p` in a write list, if any -/
def lastWrite : List (Pos × Option Int) → Pos → Option (Option Int)
  | [], _ => none
  | (q, v) :: ws, p =>
    match lastWrite ws p with
    | some w => some w
    | none => if p = q then some v else none

theorem applyWrites_eq (ws : List (Pos × Option Int)) (h : Heap) (p : Pos) :
    applyWrites h ws p = match lastWrite ws p with | some v => v | none => h p := by
  induction ws generalizing h with
  | nil => rfl
  | cons x xs ih =>
    obtain ⟨q, v⟩ := x
    simp only [applyWrites, lastWrite]
    rw [ih]
    cases hl : lastWrite xs p with
    | some w => rfl
    | none => by_cases e : p = q <;> simp [e]

def deltaSum : List (Nat × Int) → Nat → Int
  | [], _ => 0
  | (i, d) :: ds, j => (if j = i then d else 0) + deltaSum ds j

theorem applyDeltas_eq (ds : List (Nat × Int)) (c : Counters) (j : Nat) :
    applyDeltas c ds j = c j + deltaSum ds j := by
  induction ds generalizing c with
  | nil => simp [applyDeltas, deltaSum]
  | cons x xs ih =>
    obtain ⟨i, d⟩ := x
    simp only [applyDeltas, deltaSum]
    rw [ih]
    by_cases e : j = i <;> simp [e] <;> omega

end Hyp.Concurrency
