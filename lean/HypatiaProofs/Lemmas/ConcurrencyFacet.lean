import HypatiaProofs.Lemmas.ConcurrencyKeywordRun

/-!
Object-level facet index (C19): `FacetIndex.index_doc` on the heap of persistent objects
(`KTx.facetIndexDoc`, `ConcurrencyIndex.lean`).  The facet index inherits the keyword index's
containers and `unindex_doc`; its own `index_doc` inserts into `IF.Set` postings it never replaces,
so – unlike `KeywordIndex._insert_forward` – no step depends on `tree_threshold` and none of the
lemmas below needs the D20 repair (`clearReplaced`).

* structure (`KS`) and footprint (`KF`, together `KG`) are preserved by every facet operation;
* the operation simulates `pfacetIndexDoc`, the same code on the representation-erased keyword state
  (`Keyword.Plain.State`) – `Facet.indexDoc` of C13 with the candidate list already expanded and
  for any key type.
-/
set_option linter.unusedSectionVars false
set_option linter.unusedSimpArgs false
set_option linter.unusedVariables false
namespace Hyp.CIdx
open Hyp Hyp.Keyword

variable {K : Type} [DecidableEq K]

/-- `facetAddOne` up to and including `fwset.insert(docid)` -/
def KTx.facetPost (x : KTx K) (d : Int) (fac : K) : KTx K :=
  let r := KTx.postingFor (x.rd (.fwd fac)) fac
  let p := r.1.obj r.2
  let x := r.1.rd (.post r.2 d)
  if d ∈ p.2 then x else x.postPut r.2 d (p.1, LSet.insert p.2 d)

theorem facetAddOne_eq (x : KTx K) (d : Int) (fac : K) :
    KTx.facetAddOne x d fac =
      ((KTx.facetPost x d fac).rd (.rev d)).revSet d
        (LSet.insert ((AMap.get (KTx.facetPost x d fac).heap.rev d).getD []) fac) := rfl

/-! ## structure, and what changes under the forward key -/

theorem facetPost_ks_upd {H : KHeap K} {x : KTx K} (hs : KS H x) (d : Int) (w : K) :
    KS H (KTx.facetPost x d w) ∧ Upd w x (KTx.facetPost x d w) ∧
    ∃ o', AMap.get (KTx.facetPost x d w).heap.fwd w = some o' ∧
      kmem (KTx.facetPost x d w).heap o' =
        LSet.insert (((AMap.get x.heap.fwd w).map (kmem x.heap)).getD []) d := by
  unfold KTx.facetPost
  simp only
  obtain ⟨u1, m1⟩ := upd_postingFor (ks_rd hs (.fwd w)) w
  obtain ⟨k1, f1⟩ := ks_postingFor (ks_rd hs (.fwd w)) w
  have m1' : kmem (KTx.postingFor (x.rd (.fwd w)) w).1.heap (KTx.postingFor (x.rd (.fwd w)) w).2 =
      ((AMap.get x.heap.fwd w).map (kmem x.heap)).getD [] := m1
  generalize KTx.postingFor (x.rd (.fwd w)) w = r at u1 m1' k1 f1 ⊢
  have hobj : (r.1.obj r.2).2 = kmem r.1.heap r.2 := rfl
  by_cases hm : d ∈ (r.1.obj r.2).2
  · simp only [hm, if_true]
    refine ⟨ks_rd k1 _, ((upd_rd w x _).trans u1).trans (upd_rd w _ _), r.2, f1, ?_⟩
    show kmem r.1.heap r.2 = _
    rw [← m1']; rw [hobj] at hm; simp [LSet.insert, hm]
  · simp only [hm, if_false]
    refine ⟨ks_postPut (ks_rd k1 _) f1 d _,
      ((upd_rd w x _).trans u1).trans ((upd_rd w _ _).trans (upd_postPut (ks_rd k1 _) f1 d _)), r.2, f1, ?_⟩
    show kmem ((r.1.rd (.post r.2 d)).postPut r.2 d _).heap r.2 = _
    rw [kmem_postPut]; simp [hobj, m1']

theorem ks_facetAddOne {H : KHeap K} {x : KTx K} (h : KS H x) (d : Int) (fac : K) :
    KS H (KTx.facetAddOne x d fac) := by
  rw [facetAddOne_eq]
  exact ks_revSet (ks_rd (facetPost_ks_upd h d fac).1 _) d _

theorem ks_facetFold {H : KHeap K} (d : Int) : ∀ (hits : List K) (x : KTx K), KS H x →
    KS H (hits.foldl (fun x fac => KTx.facetAddOne x d fac) x) := by
  intro hits
  induction hits with
  | nil => intro x h; exact h
  | cons w ws ih => intro x h; exact ih _ (ks_facetAddOne h d w)

/-! ## footprint -/

theorem kg_facetPost {H : KHeap K} {D : List Int} {x : KTx K} (h : KG H D x) {d : Int} (hd : d ∈ D) (w : K) :
    KG H D (KTx.facetPost x d w) := by
  unfold KTx.facetPost
  simp only
  have k2 := kg_postingFor (kg_rd h (.fwd w)) w
  have f2 := (ks_postingFor (ks_rd h.s (.fwd w)) w).2
  generalize KTx.postingFor (x.rd (.fwd w)) w = r at k2 f2 ⊢
  split
  · exact kg_rd k2 _
  · refine ⟨ks_postPut (ks_rd k2.s _) f2 d _, kf_postPut (kf_rd k2.f _) (ks_rd k2.s _) f2 hd _ ?_⟩
    intro d' hd'
    show d' ∈ LSet.insert (r.1.obj r.2).2 d ↔ _
    rw [LSet.mem_insert]
    exact ⟨fun h => h.elim (fun e => absurd e hd') id, fun h => Or.inr h⟩

theorem kg_facetAddOne {H : KHeap K} {D : List Int} {x : KTx K} (h : KG H D x) {d : Int} (hd : d ∈ D)
    (fac : K) : KG H D (KTx.facetAddOne x d fac) := by
  rw [facetAddOne_eq]
  exact kg_revSet (kg_rd (kg_facetPost h hd fac) _) hd _

theorem kg_facetFold {H : KHeap K} {D : List Int} {d : Int} (hd : d ∈ D) : ∀ (hits : List K) (x : KTx K),
    KG H D x → KG H D (hits.foldl (fun x fac => KTx.facetAddOne x d fac) x) := by
  intro hits
  induction hits with
  | nil => intro x h; exact h
  | cons w ws ih => intro x h; exact ih _ (kg_facetAddOne h hd w)

theorem kg_facetIndexDoc {H : KHeap K} {D : List Int} (F : List K) {x : KTx K} (h : KG H D x) {d : Int}
    (hd : d ∈ D) (v : Option (List K)) : KG H D (KTx.facetIndexDoc F x d v) := by
  unfold KTx.facetIndexDoc
  cases v with
  | none => exact kg_niAdd (kg_unindexDoc h hd) hd
  | some cands =>
    simp only
    have h1 := kg_dropNi h hd
    generalize ((if d ∈ (x.rd (.ni d)).heap.ni then (x.rd (.ni d)).niRemove d else x.rd (.ni d)).rd (.rev d)) = x1 at h1 ⊢
    rcases opt_cases' (AMap.get x1.heap.rev d) with hr | ⟨l, hr⟩
    · simp only [hr]
      have h3 := kg_facetFold hd (cands.filter (· ∈ F)) x1 h1
      split
      · exact h3
      · exact kg_lenChange h3 1
    · simp only [hr]
      have h3 := kg_facetFold hd (cands.filter (· ∈ F)) _ (kg_unindexDoc h1 hd)
      split
      · exact h3
      · exact kg_lenChange h3 1

theorem kg_facetRun {H : KHeap K} {D : List Int} (F : List K) :
    ∀ (ops : List (TOp (List K))) (x : KTx K), KG H D x → (∀ op ∈ ops, op.doc ∈ D) →
      KG H D (KTx.facetRun F x ops) := by
  intro ops
  induction ops with
  | nil => intro x h _; exact h
  | cons op ops ih =>
    intro x h hd
    simp only [KTx.facetRun, List.foldl_cons] at ih ⊢
    apply ih _ _ (fun o ho => hd o (List.mem_cons_of_mem _ ho))
    have hd0 := hd op (by simp)
    cases op with
    | index d v => exact kg_facetIndexDoc F h hd0 v
    | unindex d => exact kg_unindexDoc h hd0

/-! ## simulation of the representation-erased facet `index_doc` -/

/-- body of the innermost loop of `FacetIndex.index_doc` on the erased state (`Facet.paddOne` for
any key type) -/
def paddOneK (s : Plain.State K) (d : Int) (fac : K) : Plain.State K :=
  { s with fwd := AMap.set s.fwd fac (LSet.insert ((AMap.get s.fwd fac).getD []) d),
           rev := AMap.set s.rev d (LSet.insert ((AMap.get s.rev d).getD []) fac) }

/-- `FacetIndex.index_doc` on the erased state; `cands` = the prefix expansions of the paths -/
def pfacetIndexDoc (F : List K) (s : Plain.State K) (d : Int) (v : Option (List K)) : Plain.State K :=
  match v with
  | none =>
    let k := Plain.unindexDoc s d
    { k with notIndexed := LSet.insert k.notIndexed d }
  | some cands =>
    let s1 := { s with notIndexed := LSet.remove s.notIndexed d }
    let s2 := match AMap.get s1.rev d with
      | some _ => Plain.unindexDoc s1 d
      | none => s1
    let hits := cands.filter (· ∈ F)
    let s3 := hits.foldl (fun s fac => paddOneK s d fac) s2
    if hits = [] then s3 else { s3 with numDocs := s3.numDocs + 1 }

theorem kgood_facetAddOne {H : KHeap K} {x : KTx K} {s : Plain.State K} (h : KGood H x s) (d : Int) (fac : K) :
    KGood H (KTx.facetAddOne x d fac) (paddOneK s d fac) := by
  obtain ⟨k, u, o', f4, m4⟩ := facetPost_ks_upd h.ks d fac
  have hw : ((AMap.get x.heap.fwd fac).map (kmem x.heap)).getD [] = (AMap.get s.fwd fac).getD [] := by
    rw [h.sim.fwd fac]
  rw [hw] at m4
  have hf := fsim_of_upd_set h.sim.fwd u f4 m4
  refine ⟨⟨?_, ?_, ?_, ?_⟩, ks_facetAddOne h.ks d fac⟩
  · exact fsim_congr (h := (KTx.facetPost x d fac).heap) rfl rfl hf
  · show AMap.set (KTx.facetPost x d fac).heap.rev d
      (LSet.insert ((AMap.get (KTx.facetPost x d fac).heap.rev d).getD []) fac) = _
    rw [u.rev, h.sim.rev]; rfl
  · show (KTx.facetPost x d fac).heap.ni = _
    rw [u.ni]; exact h.sim.ni
  · show (KTx.facetPost x d fac).heap.len = _
    rw [u.len]; exact h.sim.len

theorem kgood_facetFold {H : KHeap K} (d : Int) : ∀ (hits : List K) (x : KTx K) (s : Plain.State K),
    KGood H x s → KGood H (hits.foldl (fun x fac => KTx.facetAddOne x d fac) x)
      (hits.foldl (fun s fac => paddOneK s d fac) s) := by
  intro hits
  induction hits with
  | nil => intro x s h; exact h
  | cons w ws ih => intro x s h; exact ih _ _ (kgood_facetAddOne h d w)

theorem kgood_lenChange {H : KHeap K} {x : KTx K} {s : Plain.State K} (h : KGood H x s) (n : Int) :
    KGood H (x.lenChange n) { s with numDocs := s.numDocs + n } :=
  ⟨⟨h.sim.fwd, h.sim.rev, h.sim.ni, by show x.heap.len + n = _; rw [h.sim.len]⟩, ks_lenChange h.ks n⟩

theorem kgood_facetIndexDoc {H : KHeap K} (F : List K) {x : KTx K} {s : Plain.State K} (h : KGood H x s)
    (d : Int) (v : Option (List K)) :
    KGood H (KTx.facetIndexDoc F x d v) (pfacetIndexDoc F s d v) := by
  unfold KTx.facetIndexDoc pfacetIndexDoc
  cases v with
  | none => exact kgood_niAdd (kgood_unindexDoc h d) d
  | some cands =>
    simp only
    have h1 := kgood_dropNi h d
    generalize ((if d ∈ (x.rd (.ni d)).heap.ni then (x.rd (.ni d)).niRemove d else x.rd (.ni d)).rd (.rev d)) = x1 at h1 ⊢
    have hrev : x1.heap.rev = s.rev := h1.sim.rev
    rw [hrev]
    rcases opt_cases' (AMap.get s.rev d) with hr | ⟨l, hr⟩
    · simp only [hr]
      have h3 := kgood_facetFold d (cands.filter (· ∈ F)) x1 _ h1
      split
      · exact h3
      · exact kgood_lenChange h3 1
    · simp only [hr]
      have h3 := kgood_facetFold d (cands.filter (· ∈ F)) _ _ (kgood_unindexDoc h1 d)
      split
      · exact h3
      · exact kgood_lenChange h3 1

/-! ## the identity of a transaction never changes -/

theorem facetAddOne_me (x : KTx K) (d : Int) (fac : K) : (KTx.facetAddOne x d fac).me = x.me := by
  rw [facetAddOne_eq]
  show (KTx.facetPost x d fac).me = _
  unfold KTx.facetPost
  simp only
  have := postingFor_me (x.rd (.fwd fac)) fac
  generalize KTx.postingFor (x.rd (.fwd fac)) fac = r at this ⊢
  split <;> exact this

theorem facetFold_me (d : Int) : ∀ (hits : List K) (x : KTx K),
    (hits.foldl (fun x fac => KTx.facetAddOne x d fac) x).me = x.me := by
  intro hits
  induction hits with
  | nil => intro x; rfl
  | cons w ws ih => intro x; simp only [List.foldl_cons]; rw [ih, facetAddOne_me]

theorem facetIndexDoc_me (F : List K) (x : KTx K) (d : Int) (v : Option (List K)) :
    (KTx.facetIndexDoc F x d v).me = x.me := by
  unfold KTx.facetIndexDoc
  cases v with
  | none => exact unindexDocK_me x d
  | some cands =>
    simp only
    have h1 : ((if d ∈ (x.rd (.ni d)).heap.ni then (x.rd (.ni d)).niRemove d else x.rd (.ni d)).rd (.rev d)).me = x.me := by
      split <;> rfl
    generalize ((if d ∈ (x.rd (.ni d)).heap.ni then (x.rd (.ni d)).niRemove d else x.rd (.ni d)).rd (.rev d)) = x1 at h1 ⊢
    rcases opt_cases' (AMap.get x1.heap.rev d) with hr | ⟨l, hr⟩
    · simp only [hr]
      split
      · rw [facetFold_me]; exact h1
      · show (List.foldl _ x1 _).me = _
        rw [facetFold_me]; exact h1
    · simp only [hr]
      split
      · rw [facetFold_me, unindexDocK_me]; exact h1
      · show (List.foldl _ (x1.unindexDoc d) _).me = _
        rw [facetFold_me, unindexDocK_me]; exact h1

theorem facetRun_me (F : List K) (ops : List (TOp (List K))) : ∀ (x : KTx K), (KTx.facetRun F x ops).me = x.me := by
  induction ops with
  | nil => intro x; rfl
  | cons op ops ih =>
    intro x
    simp only [KTx.facetRun, List.foldl_cons] at ih ⊢
    rw [ih]
    cases op with
    | index d v => exact facetIndexDoc_me F x d v
    | unindex d => exact unindexDocK_me x d

end Hyp.CIdx
