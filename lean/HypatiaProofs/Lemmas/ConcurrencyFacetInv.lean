import HypatiaProofs.Lemmas.ConcurrencyFacet
import HypatiaProofs.Lemmas.ConcurrencyKeywordMerge

/-!
Object-level facet index (C19): `pfacetIndexDoc` – `FacetIndex.index_doc` on the representation-erased
keyword state – preserves the C02 / C13 refinement invariant `Keyword.Inv`, for the table in which
the document maps to the *hits* (the candidates that are configured facets).  This is the proof of
`Lemmas/Facet.lean` (`paddOne_core`, `addCands_inv`, `addPaths_tail`, `indexDoc_finv`) for an
arbitrary key type and with the candidate list already expanded, as the object model has it.
Then: a whole facet transaction (`facetRun_spec`, the counterpart of `krun_spec`).
-/
set_option linter.unusedSectionVars false
set_option linter.unusedSimpArgs false
set_option linter.unusedVariables false
namespace Hyp.CIdx
open Hyp Hyp.Keyword Hyp.Keyword.Spec

variable {K : Type} [DecidableEq K]

theorem linsert_ne_nil {α : Type} [DecidableEq α] (l : List α) (x : α) : LSet.insert l x ≠ [] := by
  unfold LSet.insert; split
  · next hm => intro e; rw [e] at hm; cases hm
  · simp

theorem tequiv_of_get' {t t' : Table K} (h : ∀ d, AMap.get t d = AMap.get t' d) : TEquiv t t' :=
  ⟨fun d => by rw [h d], fun d k => by unfold kwOf; rw [h d]⟩

theorem paddOneK_core {p : Plain.State K} {t0 : Table K} {d : Int}
    {A : List K} (h : InvCore p (AMap.set t0 d (some A))) (c : K) :
    InvCore (paddOneK p d c) (AMap.set t0 d (some (c :: A))) := by
  have hA : ∀ k, k ∈ kws p.rev d ↔ k ∈ A := by
    intro k; rw [h.rev_mem, kwOf_set]; simp
  have hndr : (kws p.rev d).Nodup := by
    unfold kws
    cases hg : AMap.get p.rev d with
    | none => simp
    | some l => simpa using h.rev_nd d l hg
  unfold paddOneK
  refine ⟨?_, ?_, ?_, ?_, ?_, ?_, AMap.WF_set h.wf_rev _ _, h.nd_ni⟩
  · intro d' k; (try dsimp only); rw [kws_set, kwOf_set]
    by_cases e : d = d'
    · subst e
      simp only [if_true, Option.getD_some, List.mem_cons]
      show k ∈ LSet.insert (kws p.rev d) c ↔ _
      rw [LSet.mem_insert, hA]
    · simp only [e, if_false]
      have := h.rev_mem d' k
      rw [kwOf_set] at this; simpa [e] using this
  · intro d' l'; (try dsimp only); rw [AMap.get_set]
    by_cases e : d = d'
    · simp only [e, if_true, Option.some.injEq]; intro e2; rw [← e2]; exact linsert_ne_nil _ _
    · simp only [e, if_false]; exact h.rev_ne d' l'
  · intro d' l'; (try dsimp only); rw [AMap.get_set]
    by_cases e : d = d'
    · subst e
      simp only [if_true, Option.some.injEq]; intro e2; rw [← e2]
      exact LSet.nodup_insert hndr c
    · simp only [e, if_false]; exact h.rev_nd d' l'
  · intro d'; (try dsimp only)
    rw [h.ni_eq, AMap.get_set, AMap.get_set]
    by_cases e : d = d' <;> simp [e]
  · intro k x; (try dsimp only); rw [Plain.posting_set, kws_set]
    by_cases e1 : c = k
    · subst e1
      simp only [if_true]
      show x ∈ LSet.insert (Plain.posting p.fwd c) d ↔ _
      rw [LSet.mem_insert]
      by_cases e2 : d = x
      · subst e2
        simp only [if_true, true_or, true_iff]
        show c ∈ LSet.insert (kws p.rev d) c
        rw [LSet.mem_insert]; exact Or.inl rfl
      · simp only [e2, if_false]
        rw [h.fwd_eq]
        constructor
        · rintro (hh | hh)
          · exact absurd hh.symm e2
          · exact hh
        · exact Or.inr
    · simp only [e1, if_false]
      by_cases e2 : d = x
      · subst e2
        simp only [if_true]
        show _ ↔ k ∈ LSet.insert (kws p.rev d) c
        rw [LSet.mem_insert, h.fwd_eq]
        constructor
        · exact Or.inr
        · rintro (hh | hh)
          · exact absurd hh.symm e1
          · exact hh
      · simp only [e2, if_false]; exact h.fwd_eq k x
  · (try dsimp only)
    apply h.fwd_ok.set
    · exact linsert_ne_nil _ _
    · exact LSet.nodup_insert (Plain.posting_nodup h.fwd_ok c) d

theorem paddOneK_length {p : Plain.State K} (hwf : AMap.WF p.rev) (d : Int) (c : K) :
    (paddOneK p d c).rev.length = p.rev.length + (if AMap.get p.rev d = none then 1 else 0) := by
  unfold paddOneK
  (try dsimp only)
  cases hg : AMap.get p.rev d with
  | none => rw [length_set_of_none _ hg]; simp
  | some l => rw [length_set_of_some hwf _ hg]; simp

/-- loop invariant of `index_doc`'s nested loops: `A` is the set of facets recorded so far; the
counter is changed once, after the loops -/
structure FLoopInv (p : Plain.State K) (t0 : Table K) (d : Int) (A : List K) : Prop where
  core : InvCore p (AMap.set t0 d (some A))
  num : p.numDocs + (if A = [] then 0 else 1) = p.rev.length

theorem paddOneK_numDocs (p : Plain.State K) (d : Int) (c : K) : (paddOneK p d c).numDocs = p.numDocs := rfl

theorem paddFold_inv (t0 : Table K) (d : Int) : ∀ (hits : List K) (p : Plain.State K) (A : List K),
    FLoopInv p t0 d A →
      ∃ A', FLoopInv (hits.foldl (fun s fac => paddOneK s d fac) p) t0 d A' ∧
        ∀ f, f ∈ A' ↔ f ∈ A ∨ f ∈ hits := by
  intro hits
  induction hits with
  | nil => intro p A h; exact ⟨A, h, by simp⟩
  | cons c cs ih =>
    intro p A h
    simp only [List.foldl_cons]
    have hstep : FLoopInv (paddOneK p d c) t0 d (c :: A) := by
      refine ⟨paddOneK_core h.core c, ?_⟩
      rw [paddOneK_length h.core.wf_rev, paddOneK_numDocs]
      have hn : AMap.get p.rev d = none ↔ A = [] := by
        rw [h.core.rev_none_iff, kwOf_set]; simp
      have := h.num
      by_cases hA : A = []
      · simp only [hA, if_true] at this
        simp [hn.mpr hA]; omega
      · simp only [hA, if_false] at this
        have : ¬ AMap.get p.rev d = none := fun e => hA (hn.mp e)
        simp [this]; omega
    obtain ⟨A', h1, h2⟩ := ih _ _ hstep
    refine ⟨A', h1, ?_⟩
    intro f
    rw [h2, List.mem_cons, List.mem_cons]
    constructor
    · rintro ((hh | hh) | hh)
      · exact Or.inr (Or.inl hh)
      · exact Or.inl hh
      · exact Or.inr (Or.inr hh)
    · rintro (hh | hh | hh)
      · exact Or.inl (Or.inr hh)
      · exact Or.inl (Or.inl hh)
      · exact Or.inr hh

theorem invCore_setNum' {p : Plain.State K} {t : Table K} (h : InvCore p t) (n : Int) :
    InvCore { p with numDocs := n } t :=
  ⟨h.rev_mem, h.rev_ne, h.rev_nd, h.ni_eq, h.fwd_eq, h.fwd_ok, h.wf_rev, h.nd_ni⟩

/-- the loops of `index_doc` plus the final `if changed: self._num_docs.change(1)`, started in a
state that does not know `d` -/
theorem paddFold_tail (d : Int) (p : Plain.State K) (t0 : Table K) (h2 : Inv p t0)
    (hd : AMap.get t0 d = none) (hits : List K) :
    ∃ A', Inv (if hits = [] then hits.foldl (fun s fac => paddOneK s d fac) p
               else { hits.foldl (fun s fac => paddOneK s d fac) p with
                      numDocs := (hits.foldl (fun s fac => paddOneK s d fac) p).numDocs + 1 })
            (AMap.set t0 d (some A')) ∧ ∀ f, f ∈ A' ↔ f ∈ hits := by
  have hl0 : FLoopInv p t0 d [] := by
    refine ⟨?_, ?_⟩
    · apply h2.toInvCore.congr
      constructor
      · intro d'; rw [AMap.get_set]
        by_cases e : d = d'
        · subst e; simp [hd]
        · simp [e]
      · intro d' k; rw [kwOf_set]
        by_cases e : d = d'
        · subst e; simp [kwOf, hd]
        · simp [e]
    · simp only [if_true]; have := h2.num; omega
  obtain ⟨A', hl, hA⟩ := paddFold_inv t0 d hits p [] hl0
  have hA' : ∀ f, f ∈ A' ↔ f ∈ hits := by intro f; rw [hA]; simp
  refine ⟨A', ?_, hA'⟩
  by_cases hh : hits = []
  · have he : A' = [] := by
      apply List.eq_nil_iff_forall_not_mem.mpr
      intro f hf; have := (hA' f).mp hf; rw [hh] at this; cases this
    simp only [hh, if_true]
    rw [hh] at hl
    refine ⟨hl.core, ?_⟩
    have := hl.num
    simp only [he, if_true] at this
    omega
  · have hne : A' ≠ [] := by
      intro e
      obtain ⟨f, hf⟩ := List.exists_mem_of_ne_nil _ hh
      have := (hA' f).mpr hf; rw [e] at this; cases this
    simp only [hh, if_false]
    refine ⟨invCore_setNum' hl.core _, ?_⟩
    have := hl.num
    simp only [hne, if_false] at this
    exact this

/-- **`FacetIndex.index_doc` refines** "the document now lists the hits" (`none`: withdrawn) -/
theorem pfacetIndexDoc_inv (F : List K) {s : Plain.State K} {t : Table K} (h : Inv s t) (d : Int)
    (v : Option (List K)) :
    Inv (pfacetIndexDoc F s d v) (AMap.set t d (v.map (List.filter (· ∈ F)))) := by
  unfold pfacetIndexDoc
  cases v with
  | none =>
    (try dsimp only)
    have h1 := unindexDoc_inv h d
    have h2 := markNotIndexed_inv h1 d (by rw [AMap.get_erase]; simp)
    apply h2.congr
    apply tequiv_of_get'
    intro d'
    simp only [Option.map_none, AMap.get_set, AMap.get_erase]
    by_cases e : d = d' <;> simp [e]
  | some cands =>
    (try dsimp only)
    have h1 : Inv { s with notIndexed := LSet.remove s.notIndexed d } (unmark t d) := unmark_inv h d
    have hnw := unmark_not_withdrawn t d
    have h2 : Inv (match AMap.get s.rev d with
          | some _ => Plain.unindexDoc { s with notIndexed := LSet.remove s.notIndexed d } d
          | none => { s with notIndexed := LSet.remove s.notIndexed d })
        (AMap.erase (unmark t d) d) := by
      cases hr : AMap.get s.rev d with
      | some l => exact unindexDoc_inv h1 d
      | none =>
        (try dsimp only)
        have hk : kwOf (unmark t d) d = [] := (h1.rev_none_iff d).mp hr
        apply h1.congr
        constructor
        · intro d'; rw [AMap.get_erase]
          by_cases e : d = d'
          · subst e; simp [hnw]
          · simp [e]
        · intro d' k; rw [kwOf_erase]
          by_cases e : d = d'
          · subst e; simp [hk]
          · simp [e]
    obtain ⟨A', hinv, hA⟩ := paddFold_tail d _ _ h2 (by rw [AMap.get_erase]; simp) (cands.filter (· ∈ F))
    have te : TEquiv (AMap.set (AMap.erase (unmark t d) d) d (some A'))
        (AMap.set t d (some (cands.filter (· ∈ F)))) := by
      constructor
      · intro d'
        rw [AMap.get_set, AMap.get_set, AMap.get_erase]
        by_cases e : d = d'
        · simp [e]
        · simp only [e, if_false]; rw [unmark_get_ne _ e]
      · intro d' k
        rw [kwOf_set, kwOf_set, kwOf_erase, unmark_kwOf]
        by_cases e : d = d'
        · simp only [e, if_true, Option.getD_some]
          exact hA k
        · simp [e]
    exact hinv.congr te

/-! ## a whole facet transaction -/

/-- a facet call as the keyword-table step it refines: the document lists its hits -/
def TOp.hits (F : List K) : TOp (List K) → TOp (List K)
  | .index d v => .index d (v.map (List.filter (· ∈ F)))
  | .unindex d => .unindex d

/-- the table docid ↦ listed facets after the calls `ops` of a facet index configured with `F` -/
def tableAfterFacet (F : List K) (t : Table K) (ops : List (TOp (List K))) : Table K :=
  tableAfterK t (ops.map (TOp.hits F))

theorem docsOf_hits (F : List K) (ops : List (TOp (List K))) : docsOf (ops.map (TOp.hits F)) = docsOf ops := by
  unfold docsOf
  rw [List.map_map]
  apply List.map_congr_left
  intro op _
  cases op <;> rfl

theorem tableAfterFacet_append (F : List K) (t : Table K) (opsA opsB : List (TOp (List K))) :
    tableAfterFacet F t (opsA ++ opsB) = tableAfterFacet F (tableAfterFacet F t opsA) opsB := by
  simp [tableAfterFacet, tableAfterK, List.foldl_append]

theorem facetRun_good {H : KHeap K} {D : List Int} (F : List K) :
    ∀ (ops : List (TOp (List K))) (x : KTx K) (s : Plain.State K) (t : Table K), KGood H x s →
      Keyword.Inv s t → KG H D x → (∀ op ∈ ops, op.doc ∈ D) →
      ∃ s', KGood H (KTx.facetRun F x ops) s' ∧ Keyword.Inv s' (tableAfterFacet F t ops) ∧
        KG H D (KTx.facetRun F x ops) := by
  intro ops
  induction ops with
  | nil => intro x s t hg hi hf _; exact ⟨s, hg, hi, hf⟩
  | cons op ops ih =>
    intro x s t hg hi hf hd
    have hd0 := hd op (by simp)
    simp only [KTx.facetRun, tableAfterFacet, tableAfterK, List.map_cons, List.foldl_cons] at ih ⊢
    cases op with
    | index d v =>
      exact ih _ _ _ (kgood_facetIndexDoc F hg d v) (pfacetIndexDoc_inv F hi d v) (kg_facetIndexDoc F hf hd0 v)
        (fun o ho => hd o (List.mem_cons_of_mem _ ho))
    | unindex d =>
      exact ih _ _ _ (kgood_unindexDoc hg d) (unindexDoc_inv hi d) (kg_unindexDoc hf hd0)
        (fun o ho => hd o (List.mem_cons_of_mem _ ho))

/-- **one facet transaction**: refinement invariant and footprint of its private heap (no hypothesis
on `tree_threshold` or the D20 repair: `FacetIndex.index_doc` never replaces a posting object) -/
theorem facetRun_spec {H : KHeap K} {t : Table K} (hI : KOInv H t) (F : List K)
    (me : Nat) (hown : ∀ o, (AMap.get H.post o).isSome → o.1 ≠ me) (ops : List (TOp (List K))) :
    KOInv (KTx.facetRun F (KTx.start H me) ops).heap (tableAfterFacet F t ops) ∧
    KG H (docsOf ops) (KTx.facetRun F (KTx.start H me) ops) := by
  obtain ⟨s', hg, hi, hf⟩ := facetRun_good (D := docsOf ops) F ops (KTx.start H me) (pview H) t
    (kgood_start hI.wf me hown) hI.inv ⟨ks_start hI.wf me hown, kf_start H _ me⟩
    (fun op h => List.mem_map.mpr ⟨op, h, rfl⟩)
  exact ⟨⟨kinv_of_sim hg.sim hi hg.ks.wf_fwd, kwf_of_ks hg.ks⟩, hf⟩

theorem get_tableAfterFacet_out (F : List K) (ops : List (TOp (List K))) (t : Table K) (d : Int)
    (hd : d ∉ docsOf ops) : AMap.get (tableAfterFacet F t ops) d = AMap.get t d :=
  get_tableAfterK_out _ t d (by rw [docsOf_hits]; exact hd)

theorem get_tableAfterFacet_congr (F : List K) (ops : List (TOp (List K))) (t t' : Table K) (d : Int)
    (h : AMap.get t d = AMap.get t' d) :
    AMap.get (tableAfterFacet F t ops) d = AMap.get (tableAfterFacet F t' ops) d :=
  get_tableAfterK_congr _ t t' d h

end Hyp.CIdx
