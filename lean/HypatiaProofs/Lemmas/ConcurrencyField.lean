import HypatiaProofs.Lemmas.ConcurrencyMerge
import HypatiaProofs.Lemmas.Field

/-!
Object-level field index (C19): every operation of a transaction on the heap of persistent
objects simulates the C01 model on the heap's `view`; hence the C01 refinement invariant carries
over (`OInv`), for any transaction.
-/
set_option linter.unusedSectionVars false
set_option linter.unusedSimpArgs false
set_option linter.unusedVariables false
namespace Hyp.CIdx
open Hyp Hyp.Field Hyp.Field.Spec

variable {V : Type} [DecidableEq V] [LT V] [DecidableLT V] [LE V] [DecidableLE V]

theorem get_mapVal {κ α β : Type} [DecidableEq κ] (f : α → β) (m : AMap κ α) (k : κ) :
    AMap.get (m.map (fun e => (e.1, f e.2))) k = (AMap.get m k).map f := by
  induction m with
  | nil => rfl
  | cons e m ih =>
    obtain ⟨a, b⟩ := e
    simp only [List.map_cons, AMap.get_cons]
    by_cases h : a = k <;> simp [h, ih]

theorem keys_mapVal {κ α β : Type} (f : α → β) (m : AMap κ α) :
    AMap.keys (m.map (fun e => (e.1, f e.2))) = AMap.keys m := by
  simp [AMap.keys, List.map_map, Function.comp_def]

/-- the members a reference leads to -/
def deref (h : FHeap V) (o : Oid) : List Int := (AMap.get h.post o).getD []

theorem get_view_fwd (h : FHeap V) (v : V) :
    AMap.get h.view.fwd v = (AMap.get h.fwd v).map (deref h) :=
  get_mapVal (fun o => (AMap.get h.post o).getD []) h.fwd v

theorem posting_eq (h : FHeap V) (v : V) : h.posting v = (AMap.get h.view.fwd v).getD [] := by
  rw [get_view_fwd]; unfold FHeap.posting deref
  cases AMap.get h.fwd v <;> rfl

/-- structural well-formedness of the heap: references resolve, no posting object is shared -/
structure Wf (h : FHeap V) : Prop where
  refs : ∀ v o, AMap.get h.fwd v = some o → (AMap.get h.post o).isSome
  inj : ∀ v v' o, AMap.get h.fwd v = some o → AMap.get h.fwd v' = some o → v = v'
  wf_fwd : AMap.WF h.fwd

/-- `s` is the heap with references resolved, up to the order of forward entries -/
structure Sim (h : FHeap V) (s : Field.State V) : Prop where
  fwd : ∀ v, (AMap.get h.fwd v).map (deref h) = AMap.get s.fwd v
  rev : h.rev = s.rev
  ni : h.ni = s.notIndexed
  len : h.len = s.numDocs

theorem sim_view (h : FHeap V) : Sim h h.view :=
  ⟨fun v => (get_view_fwd h v).symm, rfl, rfl, rfl⟩

/-- the invariant of C01 only looks at the forward map through `get` -/
theorem inv_of_sim {h : FHeap V} {s : Field.State V} {t : Table V} (hs : Sim h s) (hi : Field.Inv s t)
    (hw : AMap.WF h.fwd) : Field.Inv h.view t := by
  have hg : ∀ v, AMap.get h.view.fwd v = AMap.get s.fwd v := fun v => by rw [get_view_fwd, hs.fwd]
  have hr : h.view.rev = s.rev := hs.rev
  have hn : h.view.notIndexed = s.notIndexed := hs.ni
  have hl : h.view.numDocs = s.numDocs := hs.len
  constructor
  · intro d; rw [hr]; exact hi.rev_eq d
  · intro d; rw [hn]; exact hi.ni_eq d
  · intro v d; rw [hg, hr]; exact hi.fwd_eq v d
  · intro v set; rw [hg]; exact hi.fwd_ne v set
  · rw [hr]; exact hi.wf_rev
  · show AMap.WF (h.fwd.map _); unfold AMap.WF
    rw [keys_mapVal (fun o => (AMap.get h.post o).getD []) h.fwd]; exact hw
  · exact hi.wf_t
  · rw [hn]; exact hi.nd_ni
  · intro v set; rw [hg]; exact hi.nd_post v set
  · rw [hl, hr]; exact hi.num

/-- the object-level refinement invariant: the C01 invariant on the resolved heap + structure -/
structure OInv (h : FHeap V) (t : Table V) : Prop where
  inv : Field.Inv h.view t
  wf : Wf h

/-! ### closed forms of the two primitive operations (heap, write log, identity, allocator) -/

theorem opt_cases {α : Type} (o : Option α) : o = none ∨ ∃ a, o = some a := by cases o <;> simp

theorem unindexDoc_heap (x : FTx V) (d : Int) :
    (x.unindexDoc d).heap =
      match AMap.get x.heap.rev d with
      | none => { x.heap with ni := LSet.remove x.heap.ni d }
      | some v =>
        match AMap.get x.heap.fwd v with
        | none => { x.heap with ni := LSet.remove x.heap.ni d, rev := AMap.erase x.heap.rev d,
                                len := x.heap.len + -1 }
        | some o =>
          if d ∈ deref x.heap o then
            { ni := LSet.remove x.heap.ni d, rev := AMap.erase x.heap.rev d, len := x.heap.len + -1,
              post := AMap.set x.heap.post o (LSet.remove (deref x.heap o) d),
              fwd := if LSet.remove (deref x.heap o) d = [] then AMap.erase x.heap.fwd v else x.heap.fwd }
          else { x.heap with ni := LSet.remove x.heap.ni d, rev := AMap.erase x.heap.rev d,
                             len := x.heap.len + -1 } := by
  unfold FTx.unindexDoc
  simp only [FTx.rd, FTx.niRemove, FTx.revErase, FTx.postPut, FTx.fwdErase, FTx.lenChange, FTx.members, deref]
  have hni : (if d ∈ x.heap.ni then LSet.remove x.heap.ni d else x.heap.ni) = LSet.remove x.heap.ni d := by
    split
    · rfl
    · next h => exact (LSet.remove_of_not_mem h).symm
  by_cases hn : d ∈ x.heap.ni
  all_goals
    simp only [hn, if_true, if_false]
    rcases opt_cases (AMap.get x.heap.rev d) with hr | ⟨v, hr⟩
    · simp [hr, LSet.remove_of_not_mem, hn]
    · simp only [hr]
      rcases opt_cases (AMap.get x.heap.fwd v) with hf | ⟨o, hf⟩
      · simp [hf, LSet.remove_of_not_mem, hn]
      · simp only [hf]
        by_cases hm : d ∈ (AMap.get x.heap.post o).getD []
        · simp only [hm, if_true]
          by_cases he : LSet.remove ((AMap.get x.heap.post o).getD []) d = [] <;>
            simp [he, LSet.remove_of_not_mem, hn]
        · simp [hm, LSet.remove_of_not_mem, hn]

theorem unindexDoc_writes (x : FTx V) (d : Int) :
    (x.unindexDoc d).writes =
      let w0 := (if d ∈ x.heap.ni then [Loc.ni d] else []) ++ x.writes
      match AMap.get x.heap.rev d with
      | none => w0
      | some v =>
        match AMap.get x.heap.fwd v with
        | none => .len :: .rev d :: w0
        | some o =>
          if d ∈ deref x.heap o then
            .len :: ((if LSet.remove (deref x.heap o) d = [] then [Loc.fwd v] else []) ++
              .post o d :: .rev d :: w0)
          else .len :: .rev d :: w0 := by
  unfold FTx.unindexDoc
  simp only [FTx.rd, FTx.niRemove, FTx.revErase, FTx.postPut, FTx.fwdErase, FTx.lenChange, FTx.members, deref]
  by_cases hn : d ∈ x.heap.ni
  all_goals
    simp only [hn, if_true, if_false]
    rcases opt_cases (AMap.get x.heap.rev d) with hr | ⟨v, hr⟩
    · simp [hr]
    · simp only [hr]
      rcases opt_cases (AMap.get x.heap.fwd v) with hf | ⟨o, hf⟩
      · simp [hf]
      · simp only [hf]
        by_cases hm : d ∈ (AMap.get x.heap.post o).getD []
        · simp only [hm, if_true]
          by_cases he : LSet.remove ((AMap.get x.heap.post o).getD []) d = [] <;> simp [he]
        · simp [hm]

theorem unindexDoc_me (x : FTx V) (d : Int) : (x.unindexDoc d).me = x.me := by
  unfold FTx.unindexDoc
  simp only [FTx.rd, FTx.niRemove, FTx.revErase, FTx.postPut, FTx.fwdErase, FTx.lenChange, FTx.members]
  by_cases hn : d ∈ x.heap.ni
  all_goals
    simp only [hn, if_true, if_false]
    rcases opt_cases (AMap.get x.heap.rev d) with hr | ⟨v, hr⟩
    · simp [hr]
    · simp only [hr]
      rcases opt_cases (AMap.get x.heap.fwd v) with hf | ⟨o, hf⟩
      · simp [hf]
      · simp only [hf]; split <;> (try split) <;> rfl

theorem unindexDoc_next (x : FTx V) (d : Int) : (x.unindexDoc d).next = x.next := by
  unfold FTx.unindexDoc
  simp only [FTx.rd, FTx.niRemove, FTx.revErase, FTx.postPut, FTx.fwdErase, FTx.lenChange, FTx.members]
  by_cases hn : d ∈ x.heap.ni
  all_goals
    simp only [hn, if_true, if_false]
    rcases opt_cases (AMap.get x.heap.rev d) with hr | ⟨v, hr⟩
    · simp [hr]
    · simp only [hr]
      rcases opt_cases (AMap.get x.heap.fwd v) with hf | ⟨o, hf⟩
      · simp [hf]
      · simp only [hf]; split <;> (try split) <;> rfl

theorem insertDoc_heap (x : FTx V) (d : Int) (v : V) :
    (x.insertDoc d v).heap =
      match AMap.get x.heap.fwd v with
      | some o =>
        { x.heap with
            post := if d ∈ deref x.heap o then x.heap.post
                    else AMap.set x.heap.post o (LSet.insert (deref x.heap o) d),
            len := x.heap.len + 1, rev := AMap.set x.heap.rev d v }
      | none =>
        { x.heap with
            fwd := AMap.set x.heap.fwd v (x.me, x.next),
            post := AMap.set (AMap.set x.heap.post (x.me, x.next) []) (x.me, x.next) [d],
            len := x.heap.len + 1, rev := AMap.set x.heap.rev d v } := by
  unfold FTx.insertDoc
  simp only [FTx.rd, FTx.alloc, FTx.fwdSet, FTx.postPut, FTx.revSet, FTx.lenChange, FTx.members, deref]
  rcases opt_cases (AMap.get x.heap.fwd v) with hf | ⟨o, hf⟩
  · simp [hf, AMap.get_set, LSet.insert]
  · simp only [hf]
    by_cases hm : d ∈ (AMap.get x.heap.post o).getD [] <;> simp [hm]

theorem insertDoc_writes (x : FTx V) (d : Int) (v : V) :
    (x.insertDoc d v).writes =
      match AMap.get x.heap.fwd v with
      | some o => .rev d :: .len :: ((if d ∈ deref x.heap o then [] else [Loc.post o d]) ++ x.writes)
      | none => .rev d :: .len :: .post (x.me, x.next) d :: .fwd v :: x.writes := by
  unfold FTx.insertDoc
  simp only [FTx.rd, FTx.alloc, FTx.fwdSet, FTx.postPut, FTx.revSet, FTx.lenChange, FTx.members, deref]
  rcases opt_cases (AMap.get x.heap.fwd v) with hf | ⟨o, hf⟩
  · simp [hf, AMap.get_set]
  · simp only [hf]
    by_cases hm : d ∈ (AMap.get x.heap.post o).getD [] <;> simp [hm]

theorem insertDoc_me (x : FTx V) (d : Int) (v : V) : (x.insertDoc d v).me = x.me := by
  unfold FTx.insertDoc
  simp only [FTx.rd, FTx.alloc, FTx.fwdSet, FTx.postPut, FTx.revSet, FTx.lenChange, FTx.members]
  rcases opt_cases (AMap.get x.heap.fwd v) with hf | ⟨o, hf⟩
  · simp only [hf]; split <;> simp
  · simp only [hf]; split <;> simp

theorem insertDoc_next (x : FTx V) (d : Int) (v : V) :
    (x.insertDoc d v).next = if (AMap.get x.heap.fwd v).isSome then x.next else x.next + 1 := by
  unfold FTx.insertDoc
  simp only [FTx.rd, FTx.alloc, FTx.fwdSet, FTx.postPut, FTx.revSet, FTx.lenChange, FTx.members]
  rcases opt_cases (AMap.get x.heap.fwd v) with hf | ⟨o, hf⟩
  · simp only [hf]; split <;> simp
  · simp only [hf]; split <;> simp

end Hyp.CIdx
