import HypatiaProofs.Lemmas.ConcurrencyFieldSim

/-!
Object-level field index (C19): the *footprint* of a transaction.  `Frame H D x`: what a
transaction that only handles the documents `D` has done to its private copy `x` of the snapshot
`H` – reverse entries / not-indexed marks / posting members of other documents untouched; a
forward key either still refers to the snapshot's posting object or that object has been emptied
and abandoned and the key now refers to an object of this transaction; the write log is sound.
-/
set_option linter.unusedSectionVars false
set_option linter.unusedSimpArgs false
set_option linter.unusedVariables false
namespace Hyp.CIdx
open Hyp Hyp.Field Hyp.Field.Spec
variable {V : Type} [DecidableEq V] [LT V] [DecidableLT V] [LE V] [DecidableLE V]

/-- the posting `unindex_doc` removes the document from: forward key and object -/
def unindexTarget (h : FHeap V) (d : Int) : Option (V × Oid) :=
  match AMap.get h.rev d with
  | none => none
  | some v =>
    match AMap.get h.fwd v with
    | none => none
    | some o => if d ∈ deref h o then some (v, o) else none

theorem unindexTarget_some {h : FHeap V} {d : Int} {v : V} {o : Oid} (e : unindexTarget h d = some (v, o)) :
    AMap.get h.rev d = some v ∧ AMap.get h.fwd v = some o ∧ d ∈ deref h o := by
  unfold unindexTarget at e
  rcases opt_cases (AMap.get h.rev d) with hr | ⟨v', hr⟩
  · simp [hr] at e
  · simp only [hr] at e
    rcases opt_cases (AMap.get h.fwd v') with hf | ⟨o', hf⟩
    · simp [hf] at e
    · simp only [hf] at e
      by_cases hm : d ∈ deref h o'
      · simp only [hm, if_true, Option.some.injEq, Prod.mk.injEq] at e
        obtain ⟨e1, e2⟩ := e; subst e1; subst e2; exact ⟨hr, hf, hm⟩
      · simp [hm] at e

theorem unindexDoc_rev (x : FTx V) (d : Int) : (x.unindexDoc d).heap.rev = AMap.erase x.heap.rev d := by
  rw [unindexDoc_heap]
  rcases opt_cases (AMap.get x.heap.rev d) with hr | ⟨v, hr⟩
  · simp only [hr]; exact (AMap.erase_of_get_none hr).symm
  · simp only [hr]
    rcases opt_cases (AMap.get x.heap.fwd v) with hf | ⟨o, hf⟩
    · simp only [hf]
    · simp only [hf]; split <;> rfl

theorem unindexDoc_ni (x : FTx V) (d : Int) : (x.unindexDoc d).heap.ni = LSet.remove x.heap.ni d := by
  rw [unindexDoc_heap]
  rcases opt_cases (AMap.get x.heap.rev d) with hr | ⟨v, hr⟩
  · simp only [hr]
  · simp only [hr]
    rcases opt_cases (AMap.get x.heap.fwd v) with hf | ⟨o, hf⟩
    · simp only [hf]
    · simp only [hf]; split <;> rfl

theorem unindexDoc_post (x : FTx V) (d : Int) :
    (x.unindexDoc d).heap.post =
      match unindexTarget x.heap d with
      | some (_, o) => AMap.set x.heap.post o (LSet.remove (deref x.heap o) d)
      | none => x.heap.post := by
  rw [unindexDoc_heap]; unfold unindexTarget
  rcases opt_cases (AMap.get x.heap.rev d) with hr | ⟨v, hr⟩
  · simp only [hr]
  · simp only [hr]
    rcases opt_cases (AMap.get x.heap.fwd v) with hf | ⟨o, hf⟩
    · simp only [hf]
    · simp only [hf]; split <;> rfl

theorem unindexDoc_fwd (x : FTx V) (d : Int) :
    (x.unindexDoc d).heap.fwd =
      match unindexTarget x.heap d with
      | some (v, o) => if LSet.remove (deref x.heap o) d = [] then AMap.erase x.heap.fwd v else x.heap.fwd
      | none => x.heap.fwd := by
  rw [unindexDoc_heap]; unfold unindexTarget
  rcases opt_cases (AMap.get x.heap.rev d) with hr | ⟨v, hr⟩
  · simp only [hr]
  · simp only [hr]
    rcases opt_cases (AMap.get x.heap.fwd v) with hf | ⟨o, hf⟩
    · simp only [hf]
    · simp only [hf]; split <;> rfl

theorem dirty_cons (l : Loc V) (w : List (Loc V)) (o : ObjId) :
    dirty (l :: w) o = (decide (l.obj = o) || dirty w o) := by simp [dirty]

theorem dirty_append (a b : List (Loc V)) (o : ObjId) : dirty (a ++ b) o = (dirty a o || dirty b o) := by
  simp [dirty]

/-- soundness of the write log of `unindex_doc`: an object it does not register is unchanged -/
theorem unindexDoc_dirty (x : FTx V) (d : Int) :
    (∀ ob, dirty x.writes ob = true → dirty (x.unindexDoc d).writes ob = true) ∧
    (dirty (x.unindexDoc d).writes .rev = false → (x.unindexDoc d).heap.rev = x.heap.rev) ∧
    (dirty (x.unindexDoc d).writes .ni = false → (x.unindexDoc d).heap.ni = x.heap.ni) ∧
    (dirty (x.unindexDoc d).writes .fwd = false → (x.unindexDoc d).heap.fwd = x.heap.fwd) ∧
    (∀ o, dirty (x.unindexDoc d).writes (.post o) = false →
      AMap.get (x.unindexDoc d).heap.post o = AMap.get x.heap.post o) := by
  rw [unindexDoc_heap, unindexDoc_writes]
  by_cases hn : d ∈ x.heap.ni <;>
  rcases opt_cases (AMap.get x.heap.rev d) with hr | ⟨v, hr⟩
  all_goals simp only [hr, hn, if_true, if_false]
  all_goals try (rcases opt_cases (AMap.get x.heap.fwd v) with hf | ⟨o, hf⟩ <;> simp only [hf])
  all_goals try (by_cases hm : d ∈ deref x.heap o <;> simp only [hm, if_true, if_false])
  all_goals try (by_cases he : LSet.remove (deref x.heap o) d = [] <;> simp only [he, if_true, if_false])
  all_goals
    refine ⟨?_, ?_, ?_, ?_, ?_⟩
    · intro ob h; simp [dirty_cons, dirty_append, h]
    · simp [dirty_cons, dirty_append, Loc.obj, LSet.remove_of_not_mem, hn]
    · simp [dirty_cons, dirty_append, Loc.obj, LSet.remove_of_not_mem, hn]
    · simp [dirty_cons, dirty_append, Loc.obj, LSet.remove_of_not_mem, hn]
    · intro o'; simp [dirty_cons, dirty_append, Loc.obj, AMap.get_set]; try (intro h1; simp [h1])
/-- what a transaction on the documents `D` has done to its private copy of the snapshot `H` -/
structure Frame (H : FHeap V) (D : List Int) (x : FTx V) : Prop where
  rev_out : ∀ d, d ∉ D → AMap.get x.heap.rev d = AMap.get H.rev d
  ni_out : ∀ d, d ∉ D → (d ∈ x.heap.ni ↔ d ∈ H.ni)
  post_base : ∀ o s0, AMap.get H.post o = some s0 →
      ∃ s, AMap.get x.heap.post o = some s ∧ ∀ d, d ∉ D → (d ∈ s ↔ d ∈ s0)
  fwd_cases : ∀ v, AMap.get x.heap.fwd v = AMap.get H.fwd v ∨
      ((∀ o, AMap.get H.fwd v = some o →
          AMap.get x.heap.post o = some [] ∧ ∀ v', AMap.get x.heap.fwd v' ≠ some o) ∧
       (∀ q, AMap.get x.heap.fwd v = some q → q.1 = x.me))
  clean_fwd : dirty x.writes .fwd = false → x.heap.fwd = H.fwd
  clean_rev : dirty x.writes .rev = false → x.heap.rev = H.rev
  clean_ni : dirty x.writes .ni = false → x.heap.ni = H.ni
  clean_post : ∀ o, dirty x.writes (.post o) = false → (AMap.get H.post o).isSome →
      AMap.get x.heap.post o = AMap.get H.post o
  fresh_owner : ∀ o, (AMap.get x.heap.post o).isSome → (AMap.get H.post o).isSome ∨ o.1 = x.me
  base_owner : ∀ o, (AMap.get H.post o).isSome → o.1 ≠ x.me

theorem frame_start (H : FHeap V) (D : List Int) (me : Nat)
    (hown : ∀ o, (AMap.get H.post o).isSome → o.1 ≠ me) : Frame H D (FTx.start H me) where
  rev_out := fun _ _ => rfl
  ni_out := fun _ _ => Iff.rfl
  post_base := fun o s0 h => ⟨s0, h, fun _ _ => Iff.rfl⟩
  fwd_cases := fun _ => Or.inl rfl
  clean_fwd := fun _ => rfl
  clean_rev := fun _ => rfl
  clean_ni := fun _ => rfl
  clean_post := fun _ _ _ => rfl
  fresh_owner := fun _ h => Or.inl h
  base_owner := hown


theorem frame_unindexDoc {H : FHeap V} {D : List Int} {x : FTx V} (hf : Frame H D x) (hw : Wf x.heap)
    {d : Int} (hd : d ∈ D) : Frame H D (x.unindexDoc d) := by
  have hne : ∀ d', d' ∉ D → d ≠ d' := fun d' h e => h (e ▸ hd)
  obtain ⟨dmono, drev, dni, dfwd, dpost⟩ := unindexDoc_dirty x d
  have clean : ∀ ob, dirty (x.unindexDoc d).writes ob = false → dirty x.writes ob = false := by
    intro ob h
    cases h' : dirty x.writes ob with
    | false => rfl
    | true => rw [dmono ob h'] at h; exact absurd h (by simp)
  -- an object nobody refers to is not the one `unindex_doc` modifies
  have hunref : ∀ v o o', unindexTarget x.heap d = some (v, o) →
      (∀ v', AMap.get x.heap.fwd v' ≠ some o') → o ≠ o' := by
    intro v o o' ht hu e
    exact hu v (e ▸ (unindexTarget_some ht).2.1)
  constructor
  · intro d' hd'
    rw [unindexDoc_rev, AMap.get_erase]; simp only [hne d' hd', if_false]; exact hf.rev_out d' hd'
  · intro d' hd'
    rw [unindexDoc_ni, LSet.mem_remove]
    have := hne d' hd'
    constructor
    · intro h; exact (hf.ni_out d' hd').mp h.2
    · intro h; exact ⟨fun e => this e.symm, (hf.ni_out d' hd').mpr h⟩
  · intro o0 s0 h0
    obtain ⟨s, hs, hmem⟩ := hf.post_base o0 s0 h0
    rw [unindexDoc_post]
    rcases opt_cases (unindexTarget x.heap d) with ht | ⟨⟨v, o⟩, ht⟩
    · simp only [ht]; exact ⟨s, hs, hmem⟩
    · simp only [ht]; rw [AMap.get_set]
      by_cases e : o = o0
      · subst e
        simp only [if_true]
        refine ⟨_, rfl, ?_⟩
        intro d' hd'
        rw [LSet.mem_remove]
        have hds : deref x.heap o = s := by simp [deref, hs]
        rw [hds, ← hmem d' hd']
        have := hne d' hd'
        constructor
        · exact fun h => h.2
        · exact fun h => ⟨fun e => this e.symm, h⟩
      · simp only [e, if_false]; exact ⟨s, hs, hmem⟩
  · intro v1
    rw [unindexDoc_me]
    rcases opt_cases (unindexTarget x.heap d) with ht | ⟨⟨v, o⟩, ht⟩
    · rw [unindexDoc_fwd, unindexDoc_post]; simp only [ht]; exact hf.fwd_cases v1
    · obtain ⟨hr, hfv, hm⟩ := unindexTarget_some ht
      have hpost : ∀ o', o ≠ o' → AMap.get (x.unindexDoc d).heap.post o' = AMap.get x.heap.post o' := by
        intro o' e; rw [unindexDoc_post]; simp only [ht]; rw [AMap.get_set]; simp [e]
      have hposto : AMap.get (x.unindexDoc d).heap.post o = some (LSet.remove (deref x.heap o) d) := by
        rw [unindexDoc_post]; simp only [ht]; rw [AMap.get_set]; simp
      by_cases he : LSet.remove (deref x.heap o) d = []
      · have hfwd : (x.unindexDoc d).heap.fwd = AMap.erase x.heap.fwd v := by
          rw [unindexDoc_fwd]; simp only [ht, he, if_true]
        have hunr : ∀ v', AMap.get (AMap.erase x.heap.fwd v) v' ≠ some o := by
          intro v'; rw [AMap.get_erase]
          by_cases e : v = v'
          · simp [e]
          · simp only [e, if_false]; intro h; exact e (hw.inj v v' o hfv h)
        rw [hfwd]
        -- abandoned objects stay abandoned
        have keepR : ∀ v2, ((∀ o', AMap.get H.fwd v2 = some o' →
              AMap.get x.heap.post o' = some [] ∧ ∀ v', AMap.get x.heap.fwd v' ≠ some o')) →
            (∀ o', AMap.get H.fwd v2 = some o' →
              AMap.get (x.unindexDoc d).heap.post o' = some [] ∧
              ∀ v', AMap.get (AMap.erase x.heap.fwd v) v' ≠ some o') := by
          intro v2 h o' ho'
          obtain ⟨h1, h2⟩ := h o' ho'
          refine ⟨by rw [hpost o' (hunref v o o' ht h2)]; exact h1, ?_⟩
          intro v'; rw [AMap.get_erase]; split
          · simp
          · exact h2 v'
        by_cases e : v = v1
        · subst e
          right
          refine ⟨?_, by rw [AMap.get_erase]; simp⟩
          rcases hf.fwd_cases v with hL | hR
          · intro o' ho'
            have : o' = o := by rw [hfv] at hL; rw [← hL] at ho'; cases ho'; rfl
            subst this
            exact ⟨by rw [hposto, he], hunr⟩
          · exact keepR v hR.1
        · rw [AMap.get_erase]; simp only [e, if_false]
          rcases hf.fwd_cases v1 with hL | hR
          · exact Or.inl hL
          · exact Or.inr ⟨keepR v1 hR.1, hR.2⟩
      · have hfwd : (x.unindexDoc d).heap.fwd = x.heap.fwd := by
          rw [unindexDoc_fwd]; simp only [ht, he, if_false]
        rw [hfwd]
        rcases hf.fwd_cases v1 with hL | hR
        · exact Or.inl hL
        · refine Or.inr ⟨?_, hR.2⟩
          intro o' ho'
          obtain ⟨h1, h2⟩ := hR.1 o' ho'
          exact ⟨by rw [hpost o' (hunref v o o' ht h2)]; exact h1, h2⟩
  · intro h; rw [dfwd h]; exact hf.clean_fwd (clean _ h)
  · intro h; rw [drev h]; exact hf.clean_rev (clean _ h)
  · intro h; rw [dni h]; exact hf.clean_ni (clean _ h)
  · intro o h h0; rw [dpost o h]; exact hf.clean_post o (clean _ h) h0
  · intro o' h
    rw [unindexDoc_me]
    rw [unindexDoc_post] at h
    rcases opt_cases (unindexTarget x.heap d) with ht | ⟨⟨v, o⟩, ht⟩
    · simp only [ht] at h; exact hf.fresh_owner o' h
    · simp only [ht] at h; rw [AMap.get_set] at h
      by_cases e : o = o'
      · subst e; exact hf.fresh_owner o (hw.refs v o (unindexTarget_some ht).2.1)
      · simp only [e, if_false] at h; exact hf.fresh_owner o' h
  · intro o h; rw [unindexDoc_me]; exact hf.base_owner o h

theorem insertDoc_rev (x : FTx V) (d : Int) (v : V) : (x.insertDoc d v).heap.rev = AMap.set x.heap.rev d v := by
  rw [insertDoc_heap]; rcases opt_cases (AMap.get x.heap.fwd v) with hf | ⟨o, hf⟩ <;> simp only [hf]

theorem insertDoc_ni (x : FTx V) (d : Int) (v : V) : (x.insertDoc d v).heap.ni = x.heap.ni := by
  rw [insertDoc_heap]; rcases opt_cases (AMap.get x.heap.fwd v) with hf | ⟨o, hf⟩ <;> simp only [hf]

theorem insertDoc_dirty (x : FTx V) (d : Int) (v : V) :
    (∀ ob, dirty x.writes ob = true → dirty (x.insertDoc d v).writes ob = true) ∧
    (dirty (x.insertDoc d v).writes .fwd = false → (x.insertDoc d v).heap.fwd = x.heap.fwd) ∧
    (∀ o, dirty (x.insertDoc d v).writes (.post o) = false →
      AMap.get (x.insertDoc d v).heap.post o = AMap.get x.heap.post o) := by
  rw [insertDoc_heap, insertDoc_writes]
  rcases opt_cases (AMap.get x.heap.fwd v) with hf | ⟨o, hf⟩
  · simp only [hf]
    refine ⟨?_, ?_, ?_⟩
    · intro ob h; simp [dirty_cons, dirty_append, h]
    · simp [dirty_cons, Loc.obj]
    · intro o'; simp [dirty_cons, Loc.obj, AMap.get_set]; intro h1; simp [h1]
  · simp only [hf]
    by_cases hm : d ∈ deref x.heap o <;> simp only [hm, if_true, if_false]
    all_goals
      refine ⟨?_, ?_, ?_⟩
      · intro ob h; simp [dirty_cons, dirty_append, h]
      · simp [dirty_cons, dirty_append, Loc.obj]
      · intro o'; simp [dirty_cons, dirty_append, Loc.obj, AMap.get_set]; try (intro h1; simp [h1])

theorem frame_insertDoc {H : FHeap V} {D : List Int} {x : FTx V} (hf : Frame H D x) (hw : Wf x.heap)
    (hH : ∀ v o, AMap.get H.fwd v = some o → (AMap.get H.post o).isSome)
    {d : Int} (hd : d ∈ D) (v : V) : Frame H D (x.insertDoc d v) := by
  have hne : ∀ d', d' ∉ D → d ≠ d' := fun d' h e => h (e ▸ hd)
  obtain ⟨dmono, dfwd, dpost⟩ := insertDoc_dirty x d v
  have clean : ∀ ob, dirty (x.insertDoc d v).writes ob = false → dirty x.writes ob = false := by
    intro ob h
    cases h' : dirty x.writes ob with
    | false => rfl
    | true => rw [dmono ob h'] at h; exact absurd h (by simp)
  have hrevd : dirty (x.insertDoc d v).writes .rev = true := by
    rw [insertDoc_writes]; rcases opt_cases (AMap.get x.heap.fwd v) with h | ⟨o, h⟩ <;>
      simp [h, dirty_cons, Loc.obj]
  constructor
  · intro d' hd'
    rw [insertDoc_rev, AMap.get_set]; simp only [hne d' hd', if_false]; exact hf.rev_out d' hd'
  · intro d' hd'; rw [insertDoc_ni]; exact hf.ni_out d' hd'
  · intro o0 s0 h0
    obtain ⟨s, hs, hmem⟩ := hf.post_base o0 s0 h0
    have hown := hf.base_owner o0 (by simp [h0])
    rw [insertDoc_heap]
    rcases opt_cases (AMap.get x.heap.fwd v) with hfv | ⟨o, hfv⟩
    · simp only [hfv, AMap.get_set]
      have : (x.me, x.next) ≠ o0 := fun e => hown (by rw [← e])
      simp only [this, if_false]; exact ⟨s, hs, hmem⟩
    · simp only [hfv]
      by_cases hm : d ∈ deref x.heap o
      · simp only [hm, if_true]; exact ⟨s, hs, hmem⟩
      · simp only [hm, if_false, AMap.get_set]
        by_cases e : o = o0
        · subst e
          simp only [if_true]
          refine ⟨_, rfl, ?_⟩
          intro d' hd'
          rw [LSet.mem_insert]
          have hds : deref x.heap o = s := by simp [deref, hs]
          rw [hds, ← hmem d' hd']
          have := hne d' hd'
          constructor
          · rintro (h | h)
            · exact absurd h.symm this
            · exact h
          · exact fun h => Or.inr h
        · simp only [e, if_false]; exact ⟨s, hs, hmem⟩
  · intro v1
    rw [insertDoc_me, insertDoc_heap]
    rcases opt_cases (AMap.get x.heap.fwd v) with hfv | ⟨o, hfv⟩
    · simp only [hfv]
      -- a new posting object: not one of the snapshot's
      have hq : ∀ o', (AMap.get H.post o').isSome → (x.me, x.next) ≠ o' :=
        fun o' h e => hf.base_owner o' h (by rw [← e])
      have keepR : ∀ v2, ((∀ o', AMap.get H.fwd v2 = some o' →
            AMap.get x.heap.post o' = some [] ∧ ∀ v', AMap.get x.heap.fwd v' ≠ some o')) →
          (∀ o', AMap.get H.fwd v2 = some o' →
            AMap.get (AMap.set (AMap.set x.heap.post (x.me, x.next) []) (x.me, x.next) [d]) o' = some [] ∧
            ∀ v', AMap.get (AMap.set x.heap.fwd v (x.me, x.next)) v' ≠ some o') := by
        intro v2 h o' ho'
        obtain ⟨h1, h2⟩ := h o' ho'
        have hb := hq o' (hH v2 o' ho')
        refine ⟨by simp only [AMap.get_set, hb, if_false]; exact h1, ?_⟩
        intro v'; rw [AMap.get_set]; split
        · intro e; cases e; exact hb rfl
        · exact h2 v'
      by_cases e : v = v1
      · subst e
        right
        refine ⟨?_, by rw [AMap.get_set]; simp⟩
        rcases hf.fwd_cases v with hL | hR
        · intro o' ho'; rw [hfv] at hL; rw [← hL] at ho'; cases ho'
        · exact keepR v hR.1
      · rw [AMap.get_set]; simp only [e, if_false]
        rcases hf.fwd_cases v1 with hL | hR
        · exact Or.inl hL
        · exact Or.inr ⟨keepR v1 hR.1, hR.2⟩
    · simp only [hfv]
      rcases hf.fwd_cases v1 with hL | hR
      · exact Or.inl hL
      · refine Or.inr ⟨?_, hR.2⟩
        intro o' ho'
        obtain ⟨h1, h2⟩ := hR.1 o' ho'
        refine ⟨?_, h2⟩
        by_cases hm : d ∈ deref x.heap o
        · simp only [hm, if_true]; exact h1
        · simp only [hm, if_false, AMap.get_set]
          have : o ≠ o' := fun e => h2 v (e ▸ hfv)
          simp only [this, if_false]; exact h1
  · intro h; rw [dfwd h]; exact hf.clean_fwd (clean _ h)
  · intro h; rw [hrevd] at h; exact absurd h (by simp)
  · intro h; rw [insertDoc_ni]; exact hf.clean_ni (clean _ h)
  · intro o h h0; rw [dpost o h]; exact hf.clean_post o (clean _ h) h0
  · intro o' h
    rw [insertDoc_me]
    rw [insertDoc_heap] at h
    rcases opt_cases (AMap.get x.heap.fwd v) with hfv | ⟨o, hfv⟩
    · simp only [hfv, AMap.get_set] at h
      by_cases e : (x.me, x.next) = o'
      · right; rw [← e]
      · simp only [e, if_false] at h; exact hf.fresh_owner o' h
    · simp only [hfv] at h
      by_cases hm : d ∈ deref x.heap o
      · simp only [hm, if_true] at h; exact hf.fresh_owner o' h
      · simp only [hm, if_false, AMap.get_set] at h
        by_cases e : o = o'
        · subst e; exact hf.fresh_owner o (hw.refs v o hfv)
        · simp only [e, if_false] at h; exact hf.fresh_owner o' h
  · intro o h; rw [insertDoc_me]; exact hf.base_owner o h

theorem frame_rd {H : FHeap V} {D : List Int} {x : FTx V} (hf : Frame H D x) (l : Loc V) :
    Frame H D (x.rd l) :=
  ⟨hf.rev_out, hf.ni_out, hf.post_base, hf.fwd_cases, hf.clean_fwd, hf.clean_rev, hf.clean_ni, hf.clean_post,
   hf.fresh_owner, hf.base_owner⟩

theorem frame_niRemove {H : FHeap V} {D : List Int} {x : FTx V} (hf : Frame H D x) {d : Int} (hd : d ∈ D) :
    Frame H D (x.niRemove d) := by
  have hne : ∀ d', d' ∉ D → d ≠ d' := fun d' h e => h (e ▸ hd)
  refine { hf with ni_out := ?_, clean_fwd := ?_, clean_rev := ?_, clean_ni := ?_, clean_post := ?_ }
  · intro d' hd'
    show d' ∈ LSet.remove x.heap.ni d ↔ _
    rw [LSet.mem_remove, ← hf.ni_out d' hd']
    have := hne d' hd'
    exact ⟨fun h => h.2, fun h => ⟨fun e => this e.symm, h⟩⟩
  · intro h; exact hf.clean_fwd (by simpa [FTx.niRemove, dirty_cons, Loc.obj] using h)
  · intro h; exact hf.clean_rev (by simpa [FTx.niRemove, dirty_cons, Loc.obj] using h)
  · intro h; simp [FTx.niRemove, dirty_cons, Loc.obj] at h
  · intro o h h0; exact hf.clean_post o (by simpa [FTx.niRemove, dirty_cons, Loc.obj] using h) h0

theorem frame_niAdd {H : FHeap V} {D : List Int} {x : FTx V} (hf : Frame H D x) {d : Int} (hd : d ∈ D) :
    Frame H D (x.niAdd d) := by
  have hne : ∀ d', d' ∉ D → d ≠ d' := fun d' h e => h (e ▸ hd)
  refine { hf with ni_out := ?_, clean_fwd := ?_, clean_rev := ?_, clean_ni := ?_, clean_post := ?_ }
  · intro d' hd'
    show d' ∈ LSet.insert x.heap.ni d ↔ _
    rw [LSet.mem_insert, ← hf.ni_out d' hd']
    have := hne d' hd'
    exact ⟨fun h => h.elim (fun e => absurd e.symm this) id, fun h => Or.inr h⟩
  · intro h; exact hf.clean_fwd (by simpa [FTx.niAdd, dirty_cons, Loc.obj] using h)
  · intro h; exact hf.clean_rev (by simpa [FTx.niAdd, dirty_cons, Loc.obj] using h)
  · intro h; simp [FTx.niAdd, dirty_cons, Loc.obj] at h
  · intro o h h0; exact hf.clean_post o (by simpa [FTx.niAdd, dirty_cons, Loc.obj] using h) h0

theorem frame_indexDoc {H : FHeap V} {D : List Int} {x : FTx V} {s : Field.State V} (hg : Good x s)
    (hf : Frame H D x) (hH : ∀ v o, AMap.get H.fwd v = some o → (AMap.get H.post o).isSome)
    {d : Int} (hd : d ∈ D) (val : Option V) : Frame H D (x.indexDoc d val) := by
  unfold FTx.indexDoc
  cases val with
  | none =>
    simp only
    by_cases hin : d ∈ (x.rd (.ni d)).heap.ni
    · simp only [hin, if_true]; exact frame_rd hf _
    · simp only [hin, if_false]
      exact frame_niAdd (frame_unindexDoc (frame_rd hf _) hg.wf hd) hd
  | some v =>
    simp only
    have h1 : ∃ s1, Good ((if d ∈ (x.rd (.ni d)).heap.ni then (x.rd (.ni d)).niRemove d else x.rd (.ni d)).rd (.rev d)) s1 ∧
        Frame H D ((if d ∈ (x.rd (.ni d)).heap.ni then (x.rd (.ni d)).niRemove d else x.rd (.ni d)).rd (.rev d)) := by
      by_cases hin : d ∈ (x.rd (.ni d)).heap.ni
      · simp only [hin, if_true]
        exact ⟨_, good_rd (good_niRemove (good_rd hg _) d) _, frame_rd (frame_niRemove (frame_rd hf _) hd) _⟩
      · simp only [hin, if_false]
        exact ⟨_, good_rd (good_rd hg _) _, frame_rd (frame_rd hf _) _⟩
    generalize ((if d ∈ (x.rd (.ni d)).heap.ni then (x.rd (.ni d)).niRemove d else x.rd (.ni d)).rd (.rev d)) = x1 at h1 ⊢
    obtain ⟨s1, g1, f1⟩ := h1
    rcases opt_cases (AMap.get x1.heap.rev d) with hr | ⟨w, hr⟩
    · simp only [hr]; exact frame_insertDoc f1 g1.wf hH hd v
    · simp only [hr]
      have hfv' : AMap.get (x1.rd (.fwd v)).heap.fwd v = AMap.get x1.heap.fwd v := rfl
      rcases opt_cases (AMap.get x1.heap.fwd v) with hf' | ⟨o, hf'⟩
      · simp only [hfv', hf', Bool.false_eq_true, if_false]
        exact frame_insertDoc (frame_unindexDoc (frame_rd f1 _) g1.wf hd)
          (good_unindexDoc (good_rd g1 _) d).wf hH hd v
      · simp only [hfv', hf']
        split
        · exact frame_rd (frame_rd f1 _) _
        · exact frame_insertDoc (frame_unindexDoc (frame_rd (frame_rd f1 _) _) g1.wf hd)
            (good_unindexDoc (good_rd (good_rd g1 _) _) d).wf hH hd v
end Hyp.CIdx
