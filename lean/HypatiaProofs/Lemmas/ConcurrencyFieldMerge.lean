import HypatiaProofs.Lemmas.ConcurrencyFieldRun

/-!
Object-level field index (C19): the second commit.  Two transactions `a`, `b` from one snapshot
on disjoint documents; `a` has committed.  If `commitSecond` does not report a conflict, the merged
heap satisfies the object-level refinement invariant for the table "`a`'s calls, then `b`'s"
(`merged_inv`).  The proof goes forward key by forward key (`merged_posting`): both transactions
still use the snapshot's posting object (per-member merge); one of them abandoned it (then it is
empty there, and the BTrees rule "committed or new state empty ⇒ conflict" guarantees the other
did not write it); both changed the key (the bucket merge refuses).
-/
set_option linter.unusedSectionVars false
set_option linter.unusedSimpArgs false
set_option linter.unusedVariables false
namespace Hyp.CIdx
open Hyp Hyp.Field Hyp.Field.Spec
variable {V : Type} [DecidableEq V] [LT V] [DecidableLT V] [LE V] [DecidableLE V]

/-- two transactions `a`, `b` from the snapshot `H` on disjoint documents -/
structure Ctx (H : FHeap V) (t : Table V) (a b : FTx V) (tA tB : Table V) (DA DB : List Int) : Prop where
  iH : OInv H t
  iA : OInv a.heap tA
  iB : OInv b.heap tB
  fA : Frame H DA a
  fB : Frame H DB b
  disj : ∀ d, d ∈ DA → d ∉ DB
  owners : a.me ≠ b.me

theorem commitSecond_some {H : FHeap V} {a b : FTx V} {M : FHeap V} (h : commitSecond H a b = some M) :
    mergeObj resolveMap (dirty a.writes .fwd) (dirty b.writes .fwd) H.fwd a.heap.fwd b.heap.fwd = some M.fwd ∧
    mergeObj resolveMap (dirty a.writes .rev) (dirty b.writes .rev) H.rev a.heap.rev b.heap.rev = some M.rev ∧
    mergeObj resolveSet (dirty a.writes .ni) (dirty b.writes .ni) H.ni a.heap.ni b.heap.ni = some M.ni ∧
    mergePosts H.post a.heap.post a.writes b.writes b.heap.post = some M.post ∧
    M.len = a.heap.len + b.heap.len - H.len := by
  unfold commitSecond at h
  split at h
  · next fwd rev ni post h1 h2 h3 h4 =>
    simp only [Option.some.injEq] at h; subst h
    exact ⟨h1, h2, h3, h4, rfl⟩
  · simp at h


theorem posting_mem_iff {h : FHeap V} {t : Table V} (hi : OInv h t) (v : V) (d : Int) :
    d ∈ h.posting v ↔ AMap.get h.rev d = some v := by
  rw [posting_eq]; exact hi.inv.fwd_eq v d

theorem posting_none {h : FHeap V} {v : V} (e : AMap.get h.fwd v = none) : h.posting v = [] := by
  unfold FHeap.posting; rw [e]

theorem posting_some {h : FHeap V} {v : V} {o : Oid} {s : List Int} (e : AMap.get h.fwd v = some o)
    (es : AMap.get h.post o = some s) : h.posting v = s := by
  unfold FHeap.posting; rw [e]; simp [es]

theorem posting_ok {h : FHeap V} {t : Table V} (hi : OInv h t) {v : V} {o : Oid}
    (e : AMap.get h.fwd v = some o) : ∃ s, AMap.get h.post o = some s ∧ s ≠ [] ∧ s.Nodup := by
  have hr := hi.wf.refs v o e
  rcases opt_cases (AMap.get h.post o) with e' | ⟨s, e'⟩
  · simp [e'] at hr
  · have hv : AMap.get h.view.fwd v = some s := by rw [get_view_fwd, e]; simp [deref, e']
    exact ⟨s, e', hi.inv.fwd_ne v s hv, hi.inv.nd_post v s hv⟩

section
variable {H : FHeap V} {t : Table V} {a b : FTx V} {tA tB : Table V} {DA DB : List Int} {M : FHeap V}

theorem merged_rev (c : Ctx H t a b tA tB DA DB) (h : commitSecond H a b = some M) (d : Int) :
    AMap.get M.rev d = if d ∈ DB then AMap.get b.heap.rev d else AMap.get a.heap.rev d := by
  obtain ⟨_, h2, _, _, _⟩ := commitSecond_some h
  have := (mergeObj_map_spec h2 (fun e => c.fA.clean_rev e) (fun e => c.fB.clean_rev e)).1 d
  by_cases hd : d ∈ DB
  · simp only [hd, if_true]
    have ha : AMap.get a.heap.rev d = AMap.get H.rev d := c.fA.rev_out d (fun e => c.disj d e hd)
    rcases mergeVal_some this with ⟨_, e⟩ | ⟨e1, e⟩
    · exact e
    · rw [e, ha, e1]
  · simp only [hd, if_false]
    have hb : AMap.get b.heap.rev d = AMap.get H.rev d := c.fB.rev_out d hd
    rcases mergeVal_some this with ⟨e1, e⟩ | ⟨_, e⟩
    · rw [e, hb, e1]
    · exact e

theorem merged_ni (c : Ctx H t a b tA tB DA DB) (h : commitSecond H a b = some M) (d : Int) :
    d ∈ M.ni ↔ if d ∈ DB then d ∈ b.heap.ni else d ∈ a.heap.ni := by
  obtain ⟨_, _, h3, _, _⟩ := commitSecond_some h
  have := (mergeObj_set_spec h3 (fun e => c.fA.clean_ni e) (fun e => c.fB.clean_ni e)).1 d
  by_cases hd : d ∈ DB
  · simp only [hd, if_true]
    have ha : d ∈ a.heap.ni ↔ d ∈ H.ni := c.fA.ni_out d (fun e => c.disj d e hd)
    rcases mergeMem_some this with ⟨_, e⟩ | ⟨e1, e⟩
    · simpa using e
    · have e1' : d ∈ b.heap.ni ↔ d ∈ H.ni := by simpa using e1
      have e' : d ∈ M.ni ↔ d ∈ a.heap.ni := by simpa using e
      rw [e', ha, e1']
  · simp only [hd, if_false]
    have hb : d ∈ b.heap.ni ↔ d ∈ H.ni := c.fB.ni_out d hd
    rcases mergeMem_some this with ⟨e1, e⟩ | ⟨_, e⟩
    · have e1' : d ∈ a.heap.ni ↔ d ∈ H.ni := by simpa using e1
      have e' : d ∈ M.ni ↔ d ∈ b.heap.ni := by simpa using e
      rw [e', hb, e1']
    · simpa using e

theorem merged_fwd (c : Ctx H t a b tA tB DA DB) (h : commitSecond H a b = some M) (v : V) :
    mergeVal (AMap.get H.fwd v) (AMap.get a.heap.fwd v) (AMap.get b.heap.fwd v) = some (AMap.get M.fwd v) := by
  obtain ⟨h1, _, _, _, _⟩ := commitSecond_some h
  exact (mergeObj_map_spec h1 (fun e => c.fA.clean_fwd e) (fun e => c.fB.clean_fwd e)).1 v


theorem merged_post_base (c : Ctx H t a b tA tB DA DB) (h : commitSecond H a b = some M) {o : Oid}
    {s0 : List Int} (h0 : AMap.get H.post o = some s0) :
    ∃ sa sb s, AMap.get a.heap.post o = some sa ∧ AMap.get b.heap.post o = some sb ∧ AMap.get M.post o = some s ∧
      (∀ k, mergeMem (decide (k ∈ s0)) (decide (k ∈ sa)) (decide (k ∈ sb)) = some (decide (k ∈ s))) ∧
      (sa.Nodup → sb.Nodup → s.Nodup) ∧
      (dirty a.writes (.post o) = true → dirty b.writes (.post o) = true → sa ≠ [] ∧ sb ≠ [] ∧ s ≠ []) ∧
      (dirty b.writes (.post o) = false → s = sa ∧ sb = s0) ∧
      (dirty a.writes (.post o) = false → sa = s0) ∧
      (dirty b.writes (.post o) = true → dirty a.writes (.post o) = false → s = sb) ∧
      (∀ d, d ∉ DA → (d ∈ sa ↔ d ∈ s0)) ∧ (∀ d, d ∉ DB → (d ∈ sb ↔ d ∈ s0)) := by
  obtain ⟨_, _, _, h4, _⟩ := commitSecond_some h
  obtain ⟨sa, hsa, hma⟩ := c.fA.post_base o s0 h0
  obtain ⟨sb, hsb, hmb⟩ := c.fB.post_base o s0 h0
  have hsp := mergePosts_spec h4 o
  simp only [hsb, h0, hsa, Option.getD_some] at hsp
  obtain ⟨s, hs, hm⟩ := hsp
  have hca : dirty a.writes (.post o) = false → sa = s0 := by
    intro e; have := c.fA.clean_post o e (by simp [h0]); rw [hsa, h0] at this; exact Option.some.inj this
  have hcb : dirty b.writes (.post o) = false → sb = s0 := by
    intro e; have := c.fB.clean_post o e (by simp [h0]); rw [hsb, h0] at this; exact Option.some.inj this
  obtain ⟨m1, m2, m3⟩ := mergeObj_set_spec hm hca hcb
  refine ⟨sa, sb, s, hsa, hsb, hs, m1, m2, m3, ?_, hca, ?_, hma, hmb⟩
  · intro e; unfold mergeObj at hm; simp [e] at hm; exact ⟨hm.symm, hcb e⟩
  · intro e1 e2; unfold mergeObj at hm; simp [e1, e2] at hm; exact hm.symm

theorem merged_post_a (c : Ctx H t a b tA tB DA DB) (h : commitSecond H a b = some M) {o : Oid}
    (ho : o.1 = a.me) : AMap.get M.post o = AMap.get a.heap.post o := by
  obtain ⟨_, _, _, h4, _⟩ := commitSecond_some h
  have hsp := mergePosts_spec h4 o
  have hb : AMap.get b.heap.post o = none := by
    rcases opt_cases (AMap.get b.heap.post o) with e | ⟨sb, e⟩
    · exact e
    · rcases c.fB.fresh_owner o (by simp [e]) with h1 | h1
      · exact absurd ho (c.fA.base_owner o h1)
      · exact absurd (ho.symm.trans h1) c.owners
  simpa only [hb] using hsp

theorem merged_post_b (c : Ctx H t a b tA tB DA DB) (h : commitSecond H a b = some M) {o : Oid}
    (ho : o.1 = b.me) {sb : List Int} (hb : AMap.get b.heap.post o = some sb) : AMap.get M.post o = some sb := by
  obtain ⟨_, _, _, h4, _⟩ := commitSecond_some h
  have hsp := mergePosts_spec h4 o
  have h0 : AMap.get H.post o = none := by
    rcases opt_cases (AMap.get H.post o) with e | ⟨s0, e⟩
    · exact e
    · exact absurd ho (c.fB.base_owner o (by simp [e]))
  simpa only [hb, h0] using hsp


/-- what the merged heap holds under one forward key -/
structure PostingOK (H : FHeap V) (a b : FTx V) (DB : List Int) (M : FHeap V) (v : V) : Prop where
  mem : ∀ d, d ∈ M.posting v ↔ if d ∈ DB then d ∈ b.heap.posting v else d ∈ a.heap.posting v
  ok : ∀ o, AMap.get M.fwd v = some o → ∃ s, AMap.get M.post o = some s ∧ s ≠ [] ∧ s.Nodup
  prov : ∀ o, AMap.get M.fwd v = some o →
    AMap.get H.fwd v = some o ∨ (o.1 = a.me ∧ AMap.get a.heap.fwd v = some o) ∨
      (o.1 = b.me ∧ AMap.get b.heap.fwd v = some o)

theorem merged_posting (c : Ctx H t a b tA tB DA DB) (h : commitSecond H a b = some M) (v : V) :
    PostingOK H a b DB M v := by
  have hm := merged_fwd c h v
  by_cases ea : AMap.get a.heap.fwd v = AMap.get H.fwd v <;>
  by_cases eb : AMap.get b.heap.fwd v = AMap.get H.fwd v
  · -- both still refer to the snapshot's object
    have hM : AMap.get M.fwd v = AMap.get H.fwd v := by
      rcases mergeVal_some hm with ⟨_, e⟩ | ⟨_, e⟩
      · rw [e, eb]
      · rw [e, ea]
    rcases opt_cases (AMap.get H.fwd v) with e0 | ⟨o, e0⟩
    · rw [e0] at ea eb hM
      refine ⟨?_, ?_, ?_⟩
      · intro d; rw [posting_none hM, posting_none ea, posting_none eb]; simp
      · intro o ho; rw [hM] at ho; cases ho
      · intro o ho; rw [hM] at ho; cases ho
    · rw [e0] at ea eb hM
      obtain ⟨s0, h0, _, _⟩ := posting_ok c.iH e0
      obtain ⟨sa, sb, s, hsa, hsb, hs, m1, m2, m3, m4, m5, m6, ma, mb⟩ := merged_post_base c h h0
      obtain ⟨sa', hsa', nea, nda⟩ := posting_ok c.iA ea
      obtain ⟨sb', hsb', neb, ndb⟩ := posting_ok c.iB eb
      rw [hsa] at hsa'; cases hsa'
      rw [hsb] at hsb'; cases hsb'
      refine ⟨?_, ?_, ?_⟩
      · intro d
        rw [posting_some hM hs, posting_some ea hsa, posting_some eb hsb]
        have := m1 d
        by_cases hd : d ∈ DB
        · simp only [hd, if_true]
          have hda := ma d (fun e => c.disj d e hd)
          rcases mergeMem_some this with ⟨_, e⟩ | ⟨e1, e⟩
          · simpa using e
          · have e1' : d ∈ sb ↔ d ∈ s0 := by simpa using e1
            have e' : d ∈ s ↔ d ∈ sa := by simpa using e
            rw [e', hda, e1']
        · simp only [hd, if_false]
          have hdb := mb d hd
          rcases mergeMem_some this with ⟨e1, e⟩ | ⟨_, e⟩
          · have e1' : d ∈ sa ↔ d ∈ s0 := by simpa using e1
            have e' : d ∈ s ↔ d ∈ sb := by simpa using e
            rw [e', hdb, e1']
          · simpa using e
      · intro o' ho'; rw [hM] at ho'; cases ho'
        refine ⟨s, hs, ?_, m2 nda ndb⟩
        cases hdb : dirty b.writes (.post o) with
        | false => rw [(m4 hdb).1]; exact nea
        | true =>
          cases hda : dirty a.writes (.post o) with
          | false => rw [m6 hdb hda]; exact neb
          | true => exact (m3 hda hdb).2.2
      · intro o' ho'; rw [hM] at ho'; exact Or.inl (e0.trans ho')
  · -- `b` changed the key: a new object of `b`, or none
    have hM : AMap.get M.fwd v = AMap.get b.heap.fwd v := by
      rcases mergeVal_some hm with ⟨_, e⟩ | ⟨e1, _⟩
      · exact e
      · exact absurd e1 eb
    have hR := (c.fB.fwd_cases v).resolve_left eb
    have hAH : a.heap.posting v = H.posting v := by
      rcases opt_cases (AMap.get H.fwd v) with e0 | ⟨o, e0⟩
      · rw [e0] at ea; rw [posting_none ea, posting_none e0]
      · rw [e0] at ea
        obtain ⟨s0, h0, ne0, _⟩ := posting_ok c.iH e0
        obtain ⟨sa, sb, s, hsa, hsb, hs, m1, m2, m3, m4, m5, m6, ma, mb⟩ := merged_post_base c h h0
        have hb0 : sb = [] := by have := (hR.1 o e0).1; rw [hsb] at this; exact Option.some.inj this
        have hda : dirty a.writes (.post o) = false := by
          cases hda : dirty a.writes (.post o) with
          | false => rfl
          | true =>
            cases hdb : dirty b.writes (.post o) with
            | false => exact absurd ((m4 hdb).2 ▸ hb0) ne0
            | true => exact absurd hb0 (m3 hda hdb).2.1
        rw [posting_some ea hsa, posting_some e0 h0, m5 hda]
    have hMb : M.posting v = b.heap.posting v := by
      rcases opt_cases (AMap.get b.heap.fwd v) with e1 | ⟨q, e1⟩
      · rw [e1] at hM; rw [posting_none hM, posting_none e1]
      · rw [e1] at hM
        obtain ⟨sq, hsq, _, _⟩ := posting_ok c.iB e1
        rw [posting_some hM (merged_post_b c h (hR.2 q e1) hsq), posting_some e1 hsq]
    refine ⟨?_, ?_, ?_⟩
    · intro d
      rw [hMb]
      by_cases hd : d ∈ DB
      · simp [hd]
      · simp only [hd, if_false]
        rw [hAH, posting_mem_iff c.iB, posting_mem_iff c.iH, c.fB.rev_out d hd]
    · intro o ho; rw [hM] at ho
      obtain ⟨sq, hsq, ne, nd⟩ := posting_ok c.iB ho
      exact ⟨sq, merged_post_b c h (hR.2 o ho) hsq, ne, nd⟩
    · intro o ho; rw [hM] at ho; exact Or.inr (Or.inr ⟨hR.2 o ho, ho⟩)
  · -- `a` changed the key
    have hM : AMap.get M.fwd v = AMap.get a.heap.fwd v := by
      rcases mergeVal_some hm with ⟨e1, _⟩ | ⟨_, e⟩
      · exact absurd e1 ea
      · exact e
    have hR := (c.fA.fwd_cases v).resolve_left ea
    have hBH : b.heap.posting v = H.posting v := by
      rcases opt_cases (AMap.get H.fwd v) with e0 | ⟨o, e0⟩
      · rw [e0] at eb; rw [posting_none eb, posting_none e0]
      · rw [e0] at eb
        obtain ⟨s0, h0, ne0, _⟩ := posting_ok c.iH e0
        obtain ⟨sa, sb, s, hsa, hsb, hs, m1, m2, m3, m4, m5, m6, ma, mb⟩ := merged_post_base c h h0
        have ha0 : sa = [] := by have := (hR.1 o e0).1; rw [hsa] at this; exact Option.some.inj this
        have hdb : dirty b.writes (.post o) = false := by
          cases hdb : dirty b.writes (.post o) with
          | false => rfl
          | true =>
            cases hda : dirty a.writes (.post o) with
            | false => exact absurd ((m5 hda) ▸ ha0) ne0
            | true => exact absurd ha0 (m3 hda hdb).1
        rw [posting_some eb hsb, posting_some e0 h0, (m4 hdb).2]
    have hMa : M.posting v = a.heap.posting v := by
      rcases opt_cases (AMap.get a.heap.fwd v) with e1 | ⟨q, e1⟩
      · rw [e1] at hM; rw [posting_none hM, posting_none e1]
      · rw [e1] at hM
        unfold FHeap.posting; rw [hM, e1]; simp only
        rw [merged_post_a c h (hR.2 q e1)]
    refine ⟨?_, ?_, ?_⟩
    · intro d
      rw [hMa]
      by_cases hd : d ∈ DB
      · simp only [hd, if_true]
        rw [hBH, posting_mem_iff c.iA, posting_mem_iff c.iH, c.fA.rev_out d (fun e => c.disj d e hd)]
      · simp [hd]
    · intro o ho; rw [hM] at ho
      obtain ⟨sq, hsq, ne, nd⟩ := posting_ok c.iA ho
      exact ⟨sq, by rw [merged_post_a c h (hR.2 o ho)]; exact hsq, ne, nd⟩
    · intro o ho; rw [hM] at ho; exact Or.inr (Or.inl ⟨hR.2 o ho, ho⟩)
  · -- both changed the key: the bucket merge refuses
    rcases mergeVal_some hm with ⟨e1, _⟩ | ⟨e1, _⟩
    · exact absurd e1 ea
    · exact absurd e1 eb


theorem merged_len (c : Ctx H t a b tA tB DA DB) (h : commitSecond H a b = some M) (hwf : AMap.WF M.rev) :
    M.len = M.rev.length := by
  obtain ⟨_, _, _, _, hl⟩ := commitSecond_some h
  have ha : a.heap.len = a.heap.rev.length := c.iA.inv.num
  have hb : b.heap.len = b.heap.rev.length := c.iB.inv.num
  have h0 : H.len = H.rev.length := c.iH.inv.num
  let U := Keyword.dedup (AMap.keys M.rev ++ AMap.keys a.heap.rev ++ AMap.keys b.heap.rev ++ AMap.keys H.rev)
  have hU : U.Nodup := Keyword.nodup_dedup _
  have hin : ∀ (m : AMap Int V), (∀ k ∈ AMap.keys m, k ∈ AMap.keys M.rev ++ AMap.keys a.heap.rev ++
      AMap.keys b.heap.rev ++ AMap.keys H.rev) → ∀ k ∈ AMap.keys m, k ∈ U :=
    fun m hm k hk => (Keyword.mem_dedup _ _).mpr (hm k hk)
  have eM := length_eq_countP hwf hU (hin M.rev (fun k hk => by simp [hk]))
  have eA : a.heap.rev.length = U.countP (fun k => (AMap.get a.heap.rev k).isSome) :=
    length_eq_countP c.iA.inv.wf_rev hU (hin a.heap.rev (fun k hk => by simp [hk]))
  have eB : b.heap.rev.length = U.countP (fun k => (AMap.get b.heap.rev k).isSome) :=
    length_eq_countP c.iB.inv.wf_rev hU (hin b.heap.rev (fun k hk => by simp [hk]))
  have eH : H.rev.length = U.countP (fun k => (AMap.get H.rev k).isSome) :=
    length_eq_countP c.iH.inv.wf_rev hU (hin H.rev (fun k hk => by simp [hk]))
  have key := countP_four U (fun k => (AMap.get M.rev k).isSome) (fun k => (AMap.get H.rev k).isSome)
    (fun k => (AMap.get a.heap.rev k).isSome) (fun k => (AMap.get b.heap.rev k).isSome) (by
      intro d _
      have hm := merged_rev c h d
      by_cases hd : d ∈ DB
      · simp only [hd, if_true] at hm
        have : AMap.get a.heap.rev d = AMap.get H.rev d := c.fA.rev_out d (fun e => c.disj d e hd)
        rw [hm, this]; omega
      · simp only [hd, if_false] at hm
        have : AMap.get b.heap.rev d = AMap.get H.rev d := c.fB.rev_out d hd
        rw [hm, this])
  rw [hl, ha, hb, h0, eM, eA, eB, eH]
  omega

/-- **the merged heap represents the merged table** -/
theorem merged_inv (c : Ctx H t a b tA tB DA DB) (h : commitSecond H a b = some M) {tAB : Table V}
    (hwf : AMap.WF tAB)
    (ht : ∀ d, AMap.get tAB d = if d ∈ DB then AMap.get tB d else AMap.get tA d) : OInv M tAB := by
  obtain ⟨h1, h2, h3, _, _⟩ := commitSecond_some h
  have wfRev : AMap.WF M.rev :=
    (mergeObj_map_spec h2 (fun e => c.fA.clean_rev e) (fun e => c.fB.clean_rev e)).2.1
      c.iA.inv.wf_rev c.iB.inv.wf_rev
  have wfFwd : AMap.WF M.fwd :=
    (mergeObj_map_spec h1 (fun e => c.fA.clean_fwd e) (fun e => c.fB.clean_fwd e)).2.1
      c.iA.wf.wf_fwd c.iB.wf.wf_fwd
  have ndNi : M.ni.Nodup :=
    (mergeObj_set_spec h3 (fun e => c.fA.clean_ni e) (fun e => c.fB.clean_ni e)).2.1
      c.iA.inv.nd_ni c.iB.inv.nd_ni
  have hval : ∀ d, valueOf tAB d = if d ∈ DB then valueOf tB d else valueOf tA d := by
    intro d; unfold valueOf; rw [ht]; split <;> rfl
  have hrev : ∀ d, AMap.get M.rev d = valueOf tAB d := by
    intro d; rw [merged_rev c h d, hval]
    split
    · exact c.iB.inv.rev_eq d
    · exact c.iA.inv.rev_eq d
  have viewSome : ∀ v set, AMap.get M.view.fwd v = some set →
      ∃ o, AMap.get M.fwd v = some o ∧ AMap.get M.post o = some set := by
    intro v set hv
    rw [get_view_fwd] at hv
    rcases opt_cases (AMap.get M.fwd v) with e | ⟨o, e⟩
    · rw [e] at hv; simp at hv
    · rw [e] at hv
      obtain ⟨s, hs, _, _⟩ := (merged_posting c h v).ok o e
      simp [deref, hs] at hv; subst hv
      exact ⟨o, e, hs⟩
  refine ⟨⟨?_, ?_, ?_, ?_, wfRev, ?_, hwf, ndNi, ?_, ?_⟩, ⟨?_, ?_, wfFwd⟩⟩
  · exact hrev
  · intro d
    show d ∈ M.ni ↔ _
    rw [merged_ni c h d, ht]
    split
    · exact c.iB.inv.ni_eq d
    · exact c.iA.inv.ni_eq d
  · intro v d
    rw [← posting_eq, (merged_posting c h v).mem d]
    show _ ↔ AMap.get M.rev d = some v
    rw [merged_rev c h d]
    split
    · exact posting_mem_iff c.iB v d
    · exact posting_mem_iff c.iA v d
  · intro v set hv
    obtain ⟨o, e, hs⟩ := viewSome v set hv
    obtain ⟨s, hs', ne, _⟩ := (merged_posting c h v).ok o e
    rw [hs] at hs'; cases hs'; exact ne
  · show AMap.WF (M.fwd.map _); unfold AMap.WF
    rw [keys_mapVal (fun o => (AMap.get M.post o).getD []) M.fwd]; exact wfFwd
  · intro v set hv
    obtain ⟨o, e, hs⟩ := viewSome v set hv
    obtain ⟨s, hs', _, nd⟩ := (merged_posting c h v).ok o e
    rw [hs] at hs'; cases hs'; exact nd
  · exact merged_len c h wfRev
  · intro v o e
    obtain ⟨s, hs, _, _⟩ := (merged_posting c h v).ok o e
    simp [hs]
  · intro v v' o e e'
    have ownA : ∀ o, AMap.get H.fwd v = some o → o.1 ≠ a.me :=
      fun o e => c.fA.base_owner o (c.iH.wf.refs v o e)
    have ownB : ∀ o, AMap.get H.fwd v = some o → o.1 ≠ b.me :=
      fun o e => c.fB.base_owner o (c.iH.wf.refs v o e)
    have ownA' : ∀ o, AMap.get H.fwd v' = some o → o.1 ≠ a.me :=
      fun o e => c.fA.base_owner o (c.iH.wf.refs v' o e)
    have ownB' : ∀ o, AMap.get H.fwd v' = some o → o.1 ≠ b.me :=
      fun o e => c.fB.base_owner o (c.iH.wf.refs v' o e)
    rcases (merged_posting c h v).prov o e with p | ⟨p1, p⟩ | ⟨p1, p⟩ <;>
    rcases (merged_posting c h v').prov o e' with q | ⟨q1, q⟩ | ⟨q1, q⟩
    · exact c.iH.wf.inj v v' o p q
    · exact absurd q1 (ownA o p)
    · exact absurd q1 (ownB o p)
    · exact absurd p1 (ownA' o q)
    · exact c.iA.wf.inj v v' o p q
    · exact absurd (p1.symm.trans q1) c.owners
    · exact absurd p1 (ownB' o q)
    · exact absurd (q1.symm.trans p1) c.owners
    · exact c.iB.wf.inj v v' o p q

end
end Hyp.CIdx
