import HypatiaProofs.Lemmas.ConcurrencyFieldFrame

/-!
Object-level field index (C19): a whole transaction.  From a snapshot that satisfies the
object-level refinement invariant, any list of `index_doc` / `unindex_doc` calls leaves a private
heap that again satisfies it (for the table the calls produce) and has the footprint `Frame`.
Plus the facts about document tables the merge needs.
-/
set_option linter.unusedSectionVars false
set_option linter.unusedSimpArgs false
set_option linter.unusedVariables false
namespace Hyp.CIdx
open Hyp Hyp.Field Hyp.Field.Spec
variable {V : Type} [DecidableEq V] [LT V] [DecidableLT V] [LE V] [DecidableLE V]

def TOp.toField : TOp V → Field.Op V
  | .index d v => .index d v
  | .unindex d => .unindex d

/-- the document table after a transaction's calls -/
def tableAfter (t : Table V) (ops : List (TOp V)) : Table V := ops.foldl (fun t op => stepT t op.toField) t

def docsOf {W : Type} (ops : List (TOp W)) : List Int := ops.map TOp.doc

theorem good_start {H : FHeap V} (hw : Wf H) (me : Nat)
    (hown : ∀ o, (AMap.get H.post o).isSome → o.1 ≠ me) : Good (FTx.start H me) H.view :=
  ⟨sim_view H, hw, fun o h e => absurd e (hown o h)⟩

theorem good_step {x : FTx V} {s : Field.State V} (h : Good x s) (op : TOp V) :
    Good (x.step op) (Field.step s op.toField) := by
  cases op with
  | index d v => exact good_indexDoc h d v
  | unindex d => exact good_unindexDoc h d

theorem inv_step {s : Field.State V} {t : Table V} (h : Field.Inv s t) (op : TOp V) :
    Field.Inv (Field.step s op.toField) (stepT t op.toField) := by
  cases op with
  | index d v => exact indexDoc_inv h d v
  | unindex d => exact unindexDoc_inv h d

theorem frame_step {H : FHeap V} {D : List Int} {x : FTx V} {s : Field.State V} (hg : Good x s)
    (hf : Frame H D x) (hH : ∀ v o, AMap.get H.fwd v = some o → (AMap.get H.post o).isSome)
    (op : TOp V) (hd : op.doc ∈ D) : Frame H D (x.step op) := by
  cases op with
  | index d v => exact frame_indexDoc hg hf hH hd v
  | unindex d => exact frame_unindexDoc hf hg.wf hd

theorem run_good {H : FHeap V} {D : List Int} (hH : ∀ v o, AMap.get H.fwd v = some o → (AMap.get H.post o).isSome) :
    ∀ (ops : List (TOp V)) (x : FTx V) (s : Field.State V) (t : Table V), Good x s → Field.Inv s t → Frame H D x →
      (∀ op ∈ ops, op.doc ∈ D) →
      ∃ s', Good (x.run ops) s' ∧ Field.Inv s' (tableAfter t ops) ∧ Frame H D (x.run ops) := by
  intro ops
  induction ops with
  | nil => intro x s t hg hi hf _; exact ⟨s, hg, hi, hf⟩
  | cons op ops ih =>
    intro x s t hg hi hf hd
    exact ih (x.step op) _ _ (good_step hg op) (inv_step hi op)
      (frame_step hg hf hH op (hd op (by simp))) (fun o ho => hd o (List.mem_cons_of_mem _ ho))

/-- **one transaction**: refinement invariant and footprint of its private heap -/
theorem run_spec {H : FHeap V} {t : Table V} (hI : OInv H t) (me : Nat)
    (hown : ∀ o, (AMap.get H.post o).isSome → o.1 ≠ me) (ops : List (TOp V)) :
    OInv ((FTx.start H me).run ops).heap (tableAfter t ops) ∧
    Frame H (docsOf ops) ((FTx.start H me).run ops) := by
  obtain ⟨s', hg, hi, hf⟩ := run_good (D := docsOf ops) hI.wf.refs ops (FTx.start H me) H.view t
    (good_start hI.wf me hown) hI.inv (frame_start H _ me hown)
    (fun op h => List.mem_map.mpr ⟨op, h, rfl⟩)
  exact ⟨⟨inv_of_sim hg.sim hi hg.wf.wf_fwd, hg.wf⟩, hf⟩

theorem run_me (ops : List (TOp V)) : ∀ (x : FTx V), (x.run ops).me = x.me := by
  induction ops with
  | nil => intro x; rfl
  | cons op ops ih =>
    intro x; simp only [FTx.run, List.foldl_cons] at ih ⊢; rw [ih]
    cases op with
    | index d v =>
      simp only [FTx.step, FTx.indexDoc]
      cases v with
      | none => simp only; split <;> simp [FTx.rd, FTx.niAdd, unindexDoc_me]
      | some v =>
        simp only
        repeat' split
        all_goals simp [FTx.rd, FTx.niRemove, insertDoc_me, unindexDoc_me]
    | unindex d => exact unindexDoc_me x d

/-- the objects in a transaction's heap after its run belong to the snapshot or to it -/
theorem run_owner {H : FHeap V} {t : Table V} (hI : OInv H t) (me : Nat)
    (hown : ∀ o, (AMap.get H.post o).isSome → o.1 ≠ me) (ops : List (TOp V)) (o : Oid)
    (h : (AMap.get ((FTx.start H me).run ops).heap.post o).isSome) :
    (AMap.get H.post o).isSome ∨ o.1 = me := by
  have := (run_spec hI me hown ops).2.fresh_owner o h
  rwa [run_me] at this

/-! ### document tables -/

theorem get_stepT_ne (t : Table V) (op : TOp V) (d : Int) (h : op.doc ≠ d) :
    AMap.get (stepT t op.toField) d = AMap.get t d := by
  cases op with
  | index d' v => simp only [TOp.toField, stepT, AMap.get_set]; simp [show d' ≠ d from h]
  | unindex d' => simp only [TOp.toField, stepT, AMap.get_erase]; simp [show d' ≠ d from h]

theorem get_stepT_congr (t t' : Table V) (op : TOp V) (d : Int) (h : AMap.get t d = AMap.get t' d) :
    AMap.get (stepT t op.toField) d = AMap.get (stepT t' op.toField) d := by
  cases op with
  | index d' v => simp only [TOp.toField, stepT, AMap.get_set]; split <;> simp [h]
  | unindex d' => simp only [TOp.toField, stepT, AMap.get_erase]; split <;> simp [h]

theorem get_tableAfter_out (ops : List (TOp V)) : ∀ (t : Table V) (d : Int), d ∉ docsOf ops →
    AMap.get (tableAfter t ops) d = AMap.get t d := by
  induction ops with
  | nil => intros; rfl
  | cons op ops ih =>
    intro t d hd
    simp only [docsOf, List.map_cons, List.mem_cons, not_or] at hd
    simp only [tableAfter, List.foldl_cons]
    have := ih (stepT t op.toField) d (by simpa [docsOf] using hd.2)
    simp only [tableAfter] at this
    rw [this]; exact get_stepT_ne t op d (fun e => hd.1 e.symm)

theorem get_tableAfter_congr (ops : List (TOp V)) : ∀ (t t' : Table V) (d : Int),
    AMap.get t d = AMap.get t' d → AMap.get (tableAfter t ops) d = AMap.get (tableAfter t' ops) d := by
  induction ops with
  | nil => intro t t' d h; exact h
  | cons op ops ih =>
    intro t t' d h
    simp only [tableAfter, List.foldl_cons]
    exact ih _ _ d (get_stepT_congr t t' op d h)

theorem wf_tableAfter (ops : List (TOp V)) : ∀ (t : Table V), AMap.WF t → AMap.WF (tableAfter t ops) := by
  induction ops with
  | nil => intro t h; exact h
  | cons op ops ih =>
    intro t h
    simp only [tableAfter, List.foldl_cons]
    apply ih
    cases op with
    | index d v => exact AMap.WF_set h d v
    | unindex d => exact AMap.WF_erase h d

end Hyp.CIdx
