import HypatiaProofs.Lemmas.ConcurrencyField

/-!
Object-level field index (C19): `unindex_doc`, the insertion tail and `index_doc` on the heap of
persistent objects simulate the C01 model operations on the resolved heap.
-/
set_option linter.unusedSectionVars false
set_option linter.unusedSimpArgs false
set_option linter.unusedVariables false
namespace Hyp.CIdx
open Hyp Hyp.Field Hyp.Field.Spec
variable {V : Type} [DecidableEq V] [LT V] [DecidableLT V] [LE V] [DecidableLE V]

/-- the allocator is ahead of every object this transaction created -/
def Alloc (x : FTx V) : Prop := ∀ o, (AMap.get x.heap.post o).isSome → o.1 = x.me → o.2 < x.next


theorem sim_unindexDoc {x : FTx V} {s : Field.State V} (hs : Sim x.heap s) (hw : Wf x.heap) (d : Int) :
    Sim (x.unindexDoc d).heap (Field.unindexDoc s d) ∧ Wf (x.unindexDoc d).heap := by
  rw [unindexDoc_heap]
  unfold Field.unindexDoc
  rw [← hs.rev, ← hs.ni]
  rcases opt_cases (AMap.get x.heap.rev d) with hr | ⟨v, hr⟩
  · simp only [hr]
    exact ⟨⟨hs.fwd, rfl, rfl, hs.len⟩, ⟨hw.refs, hw.inj, hw.wf_fwd⟩⟩
  · simp only [hr]
    have hfv := hs.fwd v
    rcases opt_cases (AMap.get x.heap.fwd v) with hf | ⟨o, hf⟩
    · rw [hf] at hfv
      simp only [hf, ← hfv, Option.map_none]
      exact ⟨⟨hs.fwd, rfl, rfl, by rw [hs.len]; rfl⟩, ⟨hw.refs, hw.inj, hw.wf_fwd⟩⟩
    · rw [hf] at hfv
      simp only [hf, ← hfv, Option.map_some]
      by_cases hm : d ∈ deref x.heap o
      · simp only [hm, if_true]
        have hne : ∀ v' o', v ≠ v' → AMap.get x.heap.fwd v' = some o' → o' ≠ o :=
          fun v' o' hv h e => hv (hw.inj v v' o hf (e ▸ h))
        by_cases he : LSet.remove (deref x.heap o) d = []
        · simp only [he, if_true]
          refine ⟨⟨?_, rfl, rfl, by rw [hs.len]; rfl⟩, ⟨?_, ?_, AMap.WF_erase hw.wf_fwd v⟩⟩
          · intro v'
            simp only [AMap.get_erase]
            by_cases e : v = v'
            · simp [e]
            · simp only [e, if_false]
              rw [← hs.fwd v']
              rcases opt_cases (AMap.get x.heap.fwd v') with h' | ⟨o', h'⟩
              · simp [h']
              · simp only [h', Option.map_some, deref, AMap.get_set]
                have := hne v' o' e h'
                simp [Ne.symm this]
          · intro v' o'
            simp only [AMap.get_erase, AMap.get_set]
            by_cases e : v = v'
            · simp [e]
            · simp only [e, if_false]
              intro h'; split
              · rfl
              · exact hw.refs v' o' h'
          · intro v1 v2 o'
            simp only [AMap.get_erase]
            by_cases e1 : v = v1
            · simp [e1]
            · by_cases e2 : v = v2
              · simp [e2]
              · simp only [e1, e2, if_false]; exact hw.inj v1 v2 o'
        · simp only [he, if_false]
          refine ⟨⟨?_, rfl, rfl, by rw [hs.len]; rfl⟩, ⟨?_, hw.inj, hw.wf_fwd⟩⟩
          · intro v'
            simp only [AMap.get_set]
            by_cases e : v = v'
            · subst e; simp [hf, deref, AMap.get_set]
            · simp only [e, if_false]
              rw [← hs.fwd v']
              rcases opt_cases (AMap.get x.heap.fwd v') with h' | ⟨o', h'⟩
              · simp [h']
              · simp only [h', Option.map_some, deref, AMap.get_set]
                have := hne v' o' e h'
                simp [Ne.symm this]
          · intro v' o' h'
            simp only [AMap.get_set]
            split
            · rfl
            · exact hw.refs v' o' h'
      · simp only [hm, if_false]
        exact ⟨⟨hs.fwd, rfl, rfl, by rw [hs.len]; rfl⟩, ⟨hw.refs, hw.inj, hw.wf_fwd⟩⟩
theorem fresh_unref {x : FTx V} (hw : Wf x.heap) (ha : Alloc x) (v : V) :
    AMap.get x.heap.fwd v ≠ some (x.me, x.next) := by
  intro h
  have := ha _ (hw.refs v _ h) rfl
  simp at this

theorem sim_insertDoc {x : FTx V} {s : Field.State V} (hs : Sim x.heap s) (hw : Wf x.heap) (ha : Alloc x)
    (d : Int) (v : V) :
    Sim (x.insertDoc d v).heap (Field.insertDoc s d v) ∧ Wf (x.insertDoc d v).heap ∧ Alloc (x.insertDoc d v) := by
  unfold Alloc
  rw [insertDoc_heap, insertDoc_me, insertDoc_next]
  unfold Field.insertDoc
  rw [← hs.rev]
  have hfv := hs.fwd v
  rcases opt_cases (AMap.get x.heap.fwd v) with hf | ⟨o, hf⟩
  · rw [hf] at hfv
    simp only [hf, ← hfv, Option.map_none, Option.getD_none, Option.isSome_none]
    have hfr := fresh_unref hw ha
    refine ⟨⟨?_, rfl, hs.ni, by rw [hs.len]⟩, ⟨?_, ?_, AMap.WF_set hw.wf_fwd _ _⟩, ?_⟩
    · intro v'
      simp only [AMap.get_set]
      by_cases e : v = v'
      · subst e; simp [deref, AMap.get_set, LSet.insert]
      · simp only [e, if_false]
        rw [← hs.fwd v']
        rcases opt_cases (AMap.get x.heap.fwd v') with h' | ⟨o', h'⟩
        · simp [h']
        · simp only [h', Option.map_some, deref, AMap.get_set]
          have : (x.me, x.next) ≠ o' := fun e => hfr v' (e ▸ h')
          simp [this]
    · intro v' o'
      simp only [AMap.get_set]
      by_cases e : v = v'
      · simp only [e, if_true]; intro h; cases h; simp
      · simp only [e, if_false]
        intro h'; split
        · rfl
        · exact hw.refs v' o' h'
    · intro v1 v2 o'
      simp only [AMap.get_set]
      by_cases e1 : v = v1 <;> by_cases e2 : v = v2
      · intros; rw [← e1, ← e2]
      · subst e1; simp only [e2, if_true, if_false]
        intro h1 h2; cases h1; exact absurd h2 (hfr v2)
      · subst e2; simp only [e1, if_true, if_false]
        intro h1 h2; cases h2; exact absurd h1 (hfr v1)
      · simp only [e1, e2, if_false]; exact hw.inj v1 v2 o'
    · intro o'
      simp only [AMap.get_set]
      by_cases e : (x.me, x.next) = o'
      · subst e; simp
      · simp only [e, if_false, Bool.false_eq_true]
        intro h1 h2; have := ha o' h1 h2; omega
  · rw [hf] at hfv
    simp only [hf, ← hfv, Option.map_some, Option.getD_some, Option.isSome_some, if_true]
    have hne : ∀ v' o', v ≠ v' → AMap.get x.heap.fwd v' = some o' → o' ≠ o :=
      fun v' o' hv h e => hv (hw.inj v v' o hf (e ▸ h))
    by_cases hm : d ∈ deref x.heap o
    · simp only [hm, if_true]
      refine ⟨⟨?_, rfl, hs.ni, by rw [hs.len]⟩, ⟨hw.refs, hw.inj, hw.wf_fwd⟩, ha⟩
      intro v'
      simp only [AMap.get_set]
      by_cases e : v = v'
      · subst e
        have hm' := hm; unfold deref at hm'
        simp [hf, LSet.insert, hm', deref]
      · simp only [e, if_false]; exact hs.fwd v'
    · simp only [hm, if_false]
      refine ⟨⟨?_, rfl, hs.ni, by rw [hs.len]⟩, ⟨?_, hw.inj, hw.wf_fwd⟩, ?_⟩
      · intro v'
        simp only [AMap.get_set]
        by_cases e : v = v'
        · subst e; simp [hf, deref, AMap.get_set]
        · simp only [e, if_false]
          rw [← hs.fwd v']
          rcases opt_cases (AMap.get x.heap.fwd v') with h' | ⟨o', h'⟩
          · simp [h']
          · simp only [h', Option.map_some, deref, AMap.get_set]
            have := hne v' o' e h'
            simp [Ne.symm this]
      · intro v' o' h'
        simp only [AMap.get_set]
        split
        · rfl
        · exact hw.refs v' o' h'
      · intro o'
        simp only [AMap.get_set]
        by_cases e : o = o'
        · subst e; intro _ h2; exact ha o (hw.refs v o hf) h2
        · simp only [e, if_false]; exact ha o'

theorem alloc_unindexDoc {x : FTx V} (hw : Wf x.heap) (ha : Alloc x) (d : Int) : Alloc (x.unindexDoc d) := by
  unfold Alloc
  rw [unindexDoc_heap, unindexDoc_me, unindexDoc_next]
  rcases opt_cases (AMap.get x.heap.rev d) with hr | ⟨v, hr⟩
  · simp only [hr]; exact ha
  · simp only [hr]
    rcases opt_cases (AMap.get x.heap.fwd v) with hf | ⟨o, hf⟩
    · simp only [hf]; exact ha
    · simp only [hf]
      split
      · intro o'
        simp only [AMap.get_set]
        by_cases e : o = o'
        · subst e; intro _ h2; exact ha o (hw.refs v o hf) h2
        · simp only [e, if_false]; exact ha o'
      · exact ha

/-- everything a running transaction maintains about its private heap, relative to the C01 state `s` -/
structure Good (x : FTx V) (s : Field.State V) : Prop where
  sim : Sim x.heap s
  wf : Wf x.heap
  alloc : Alloc x

theorem good_rd {x : FTx V} {s : Field.State V} (h : Good x s) (l : Loc V) : Good (x.rd l) s := ⟨h.sim, h.wf, h.alloc⟩

theorem good_unindexDoc {x : FTx V} {s : Field.State V} (h : Good x s) (d : Int) :
    Good (x.unindexDoc d) (Field.unindexDoc s d) :=
  ⟨(sim_unindexDoc h.sim h.wf d).1, (sim_unindexDoc h.sim h.wf d).2, alloc_unindexDoc h.wf h.alloc d⟩

theorem good_insertDoc {x : FTx V} {s : Field.State V} (h : Good x s) (d : Int) (v : V) :
    Good (x.insertDoc d v) (Field.insertDoc s d v) :=
  let r := sim_insertDoc h.sim h.wf h.alloc d v
  ⟨r.1, r.2.1, r.2.2⟩

theorem good_niRemove {x : FTx V} {s : Field.State V} (h : Good x s) (d : Int) :
    Good (x.niRemove d) { s with notIndexed := LSet.remove s.notIndexed d } :=
  ⟨⟨h.sim.fwd, h.sim.rev, by show LSet.remove x.heap.ni d = _; rw [h.sim.ni], h.sim.len⟩,
    ⟨h.wf.refs, h.wf.inj, h.wf.wf_fwd⟩, h.alloc⟩

theorem good_niAdd {x : FTx V} {s : Field.State V} (h : Good x s) (d : Int) :
    Good (x.niAdd d) { s with notIndexed := LSet.insert s.notIndexed d } :=
  ⟨⟨h.sim.fwd, h.sim.rev, by show LSet.insert x.heap.ni d = _; rw [h.sim.ni], h.sim.len⟩,
    ⟨h.wf.refs, h.wf.inj, h.wf.wf_fwd⟩, h.alloc⟩

theorem good_indexDoc {x : FTx V} {s : Field.State V} (h : Good x s) (d : Int) (val : Option V) :
    Good (x.indexDoc d val) (Field.indexDoc s d val) := by
  unfold FTx.indexDoc Field.indexDoc
  cases val with
  | none =>
    simp only
    have hni : (x.rd (.ni d)).heap.ni = s.notIndexed := h.sim.ni
    rw [hni]
    by_cases hin : d ∈ s.notIndexed
    · simp only [hin, if_true]; exact good_rd h _
    · simp only [hin, if_false]
      exact good_niAdd (good_unindexDoc (good_rd h _) d) d
  | some v =>
    simp only
    have hni : (x.rd (.ni d)).heap.ni = s.notIndexed := h.sim.ni
    rw [hni]
    -- after `_not_indexed.remove(docid)`
    have h1 : Good ((if d ∈ s.notIndexed then (x.rd (.ni d)).niRemove d else x.rd (.ni d)).rd (.rev d))
        { s with notIndexed := LSet.remove s.notIndexed d } := by
      apply good_rd
      by_cases hin : d ∈ s.notIndexed
      · simp only [hin, if_true]; exact good_niRemove (good_rd h _) d
      · simp only [hin, if_false]
        rw [LSet.remove_of_not_mem hin]; exact good_rd h _
    generalize ((if d ∈ s.notIndexed then (x.rd (.ni d)).niRemove d else x.rd (.ni d)).rd (.rev d)) = x1 at h1 ⊢
    have hrev : x1.heap.rev = s.rev := h1.sim.rev
    rw [hrev]
    rcases opt_cases (AMap.get s.rev d) with hr | ⟨w, hr⟩
    · simp only [hr]; exact good_insertDoc h1 d v
    · simp only [hr]
      have hfv : (AMap.get x1.heap.fwd v).map (deref x1.heap) = AMap.get s.fwd v := h1.sim.fwd v
      have hfv' : AMap.get (x1.rd (.fwd v)).heap.fwd v = AMap.get x1.heap.fwd v := rfl
      rcases opt_cases (AMap.get x1.heap.fwd v) with hf | ⟨o, hf⟩
      · rw [hf] at hfv
        simp only [hfv', hf, ← hfv, Option.map_none, Option.getD_none, List.not_mem_nil, if_false,
          Bool.false_eq_true]
        exact good_insertDoc (good_unindexDoc (good_rd h1 _) d) d v
      · rw [hf] at hfv
        simp only [hfv', hf, ← hfv, Option.map_some, Option.getD_some, decide_eq_true_eq]
        have hmem : (x1.rd (.fwd v)).members o = deref x1.heap o := rfl
        rw [hmem]
        by_cases hm : d ∈ deref x1.heap o
        · simp only [hm, if_true]; exact good_rd (good_rd h1 _) _
        · simp only [hm, if_false]
          exact good_insertDoc (good_unindexDoc (good_rd (good_rd h1 _) _) d) d v

end Hyp.CIdx
