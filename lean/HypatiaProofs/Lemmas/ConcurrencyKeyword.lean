import HypatiaProofs.Lemmas.ConcurrencyMerge

/-!
Object-level keyword index (C19): the structural invariant `KS` of a running transaction,
for the code as repaired (D20: `_insert_forward` empties the small set it replaces).

`KS.repl`: for every forward key of the snapshot, the transaction either still refers to the
snapshot's posting object, or that object is *empty* in the transaction's heap, registered as
written, and no longer referenced.  Consequently (`replaced_conflicts`) whenever the first
committer replaced or dropped a posting object the second committer wrote, the merge of that
object fails (`Set._p_resolveConflict`: committed state empty).
-/
set_option linter.unusedSectionVars false
set_option linter.unusedSimpArgs false
set_option linter.unusedVariables false
namespace Hyp.CIdx
open Hyp Hyp.Keyword

variable {K : Type} [DecidableEq K]

theorem opt_cases' {α : Type} (o : Option α) : o = none ∨ ∃ a, o = some a := by cases o <;> simp

theorem dirtyK_cons (l : Loc K) (w : List (Loc K)) (o : ObjId) :
    dirty (l :: w) o = (decide (l.obj = o) || dirty w o) := by simp [dirty]

/-- structural well-formedness of a keyword heap -/
structure KWf (h : KHeap K) : Prop where
  refs : ∀ k o, AMap.get h.fwd k = some o → (AMap.get h.post o).isSome
  inj : ∀ k k' o, AMap.get h.fwd k = some o → AMap.get h.fwd k' = some o → k = k'
  wf_fwd : AMap.WF h.fwd

structure KS (H : KHeap K) (x : KTx K) : Prop where
  refs : ∀ k o, AMap.get x.heap.fwd k = some o → (AMap.get x.heap.post o).isSome
  inj : ∀ k k' o, AMap.get x.heap.fwd k = some o → AMap.get x.heap.fwd k' = some o → k = k'
  alloc : ∀ o, (AMap.get x.heap.post o).isSome → o.1 = x.me → o.2 < x.next
  base_owner : ∀ o, (AMap.get H.post o).isSome → o.1 ≠ x.me
  base_keep : ∀ o, (AMap.get H.post o).isSome → (AMap.get x.heap.post o).isSome
  base_refs : ∀ k o, AMap.get H.fwd k = some o → (AMap.get H.post o).isSome
  wf_fwd : AMap.WF x.heap.fwd
  repl : ∀ k o, AMap.get H.fwd k = some o →
    AMap.get x.heap.fwd k = some o ∨
    ((∃ t, AMap.get x.heap.post o = some (t, [])) ∧ dirty x.writes (.post o) = true ∧
      ∀ k', AMap.get x.heap.fwd k' ≠ some o)

theorem ks_start {H : KHeap K} (hw : KWf H) (me : Nat)
    (hown : ∀ o, (AMap.get H.post o).isSome → o.1 ≠ me) : KS H (KTx.start H me) where
  refs := hw.refs
  inj := hw.inj
  alloc := fun o h e => absurd e (hown o h)
  base_owner := hown
  base_keep := fun _ h => h
  base_refs := hw.refs
  wf_fwd := hw.wf_fwd
  repl := fun _ _ h => Or.inl h

/-- a step that touches neither the forward tree nor a posting object -/
theorem ks_same {H : KHeap K} {x x' : KTx K} (h : KS H x) (hf : x'.heap.fwd = x.heap.fwd)
    (hp : x'.heap.post = x.heap.post) (hm : x'.me = x.me) (hn : x'.next = x.next)
    (hw : ∀ ob, dirty x.writes ob = true → dirty x'.writes ob = true) : KS H x' where
  refs := by rw [hf, hp]; exact h.refs
  inj := by rw [hf]; exact h.inj
  alloc := by rw [hp, hm, hn]; exact h.alloc
  base_owner := by rw [hm]; exact h.base_owner
  base_keep := by rw [hp]; exact h.base_keep
  base_refs := h.base_refs
  wf_fwd := by rw [hf]; exact h.wf_fwd
  repl := by
    intro k o e
    rw [hf, hp]
    rcases h.repl k o e with l | ⟨r1, r2, r3⟩
    · exact Or.inl l
    · exact Or.inr ⟨r1, hw _ r2, r3⟩

theorem ks_rd {H : KHeap K} {x : KTx K} (h : KS H x) (l : Loc K) : KS H (x.rd l) :=
  ks_same h rfl rfl rfl rfl (fun _ e => e)
theorem ks_niRemove {H : KHeap K} {x : KTx K} (h : KS H x) (d : Int) : KS H (x.niRemove d) :=
  ks_same h rfl rfl rfl rfl (fun ob e => by simp [KTx.niRemove, dirtyK_cons, e])
theorem ks_niAdd {H : KHeap K} {x : KTx K} (h : KS H x) (d : Int) : KS H (x.niAdd d) :=
  ks_same h rfl rfl rfl rfl (fun ob e => by simp [KTx.niAdd, dirtyK_cons, e])
theorem ks_revErase {H : KHeap K} {x : KTx K} (h : KS H x) (d : Int) : KS H (x.revErase d) :=
  ks_same h rfl rfl rfl rfl (fun ob e => by simp [KTx.revErase, dirtyK_cons, e])
theorem ks_revSet {H : KHeap K} {x : KTx K} (h : KS H x) (d : Int) (v : List K) : KS H (x.revSet d v) :=
  ks_same h rfl rfl rfl rfl (fun ob e => by simp [KTx.revSet, dirtyK_cons, e])
theorem ks_lenChange {H : KHeap K} {x : KTx K} (h : KS H x) (n : Int) : KS H (x.lenChange n) :=
  ks_same h rfl rfl rfl rfl (fun ob e => by simp [KTx.lenChange, dirtyK_cons, e])

/-- `insert` / `remove` on a posting object the forward tree refers to -/
theorem ks_postPut {H : KHeap K} {x : KTx K} (h : KS H x) {w : K} {o : Oid}
    (hr : AMap.get x.heap.fwd w = some o) (d : Int) (p : Tag × List Int) : KS H (x.postPut o d p) where
  refs := by
    intro k o' e
    show (AMap.get (AMap.set x.heap.post o p) o').isSome
    rw [AMap.get_set]; split
    · rfl
    · exact h.refs k o' e
  inj := h.inj
  alloc := by
    intro o' e
    have e' : (AMap.get (AMap.set x.heap.post o p) o').isSome := e
    rw [AMap.get_set] at e'
    by_cases eo : o = o'
    · subst eo; exact h.alloc o (h.refs w o hr)
    · simp only [eo, if_false] at e'; exact h.alloc o' e'
  base_owner := h.base_owner
  base_keep := by
    intro o' e
    show (AMap.get (AMap.set x.heap.post o p) o').isSome
    rw [AMap.get_set]; split
    · rfl
    · exact h.base_keep o' e
  base_refs := h.base_refs
  wf_fwd := h.wf_fwd
  repl := by
    intro k ob e
    rcases h.repl k ob e with l | ⟨⟨t, r1⟩, r2, r3⟩
    · exact Or.inl l
    · right
      have hne : o ≠ ob := fun eo => r3 w (eo ▸ hr)
      refine ⟨⟨t, ?_⟩, by simp [KTx.postPut, dirtyK_cons, r2], r3⟩
      show AMap.get (AMap.set x.heap.post o p) ob = _
      rw [AMap.get_set]; simp only [hne, if_false]; exact r1

/-- `del idx[word]` after the posting became empty -/
theorem ks_fwdErase {H : KHeap K} {x : KTx K} (h : KS H x) {w : K} {o : Oid} {t : Tag}
    (hr : AMap.get x.heap.fwd w = some o) (he : AMap.get x.heap.post o = some (t, []))
    (hd : dirty x.writes (.post o) = true) : KS H (x.fwdErase w) where
  refs := by
    intro k o' e
    have e' : AMap.get (AMap.erase x.heap.fwd w) k = some o' := e
    rw [AMap.get_erase] at e'
    by_cases ek : w = k
    · simp [ek] at e'
    · simp only [ek, if_false] at e'; exact h.refs k o' e'
  inj := by
    intro k k' o' e1 e2
    have e1' : AMap.get (AMap.erase x.heap.fwd w) k = some o' := e1
    have e2' : AMap.get (AMap.erase x.heap.fwd w) k' = some o' := e2
    rw [AMap.get_erase] at e1' e2'
    by_cases ek : w = k
    · simp [ek] at e1'
    · by_cases ek' : w = k'
      · simp [ek'] at e2'
      · simp only [ek, ek', if_false] at e1' e2'; exact h.inj k k' o' e1' e2'
  alloc := h.alloc
  base_owner := h.base_owner
  base_keep := h.base_keep
  base_refs := h.base_refs
  wf_fwd := AMap.WF_erase h.wf_fwd w
  repl := by
    intro k ob e
    have hun : ∀ k', AMap.get (AMap.erase x.heap.fwd w) k' ≠ some o := by
      intro k'; rw [AMap.get_erase]
      by_cases ek : w = k'
      · simp [ek]
      · simp only [ek, if_false]; intro e'; exact ek (h.inj w k' o hr e')
    show AMap.get (AMap.erase x.heap.fwd w) k = some ob ∨ _
    rcases h.repl k ob e with l | ⟨r1, r2, r3⟩
    · by_cases ek : w = k
      · subst ek
        rw [hr] at l; cases l
        exact Or.inr ⟨⟨t, he⟩, by simp [KTx.fwdErase, dirtyK_cons, hd], hun⟩
      · left; rw [AMap.get_erase]; simp only [ek, if_false]; exact l
    · right
      refine ⟨r1, by simp [KTx.fwdErase, dirtyK_cons, r2], ?_⟩
      intro k'
      show AMap.get (AMap.erase x.heap.fwd w) k' ≠ _
      rw [AMap.get_erase]; split
      · simp
      · exact r3 k'

/-- `Set()` / `TreeSet(word_idx)`: the new object is registered in the heap and nobody refers to it -/
theorem ks_alloc {H : KHeap K} {x : KTx K} (h : KS H x) (p : Tag × List Int) :
    KS H (x.alloc p).1 ∧ (x.alloc p).2 = (x.me, x.next) ∧ (x.alloc p).1.heap.fwd = x.heap.fwd ∧
    (x.alloc p).1.me = x.me ∧
    (AMap.get (x.alloc p).1.heap.post (x.me, x.next)) = some p ∧
    (∀ k, AMap.get x.heap.fwd k ≠ some (x.me, x.next)) ∧
    (∀ o, o ≠ (x.me, x.next) → AMap.get (x.alloc p).1.heap.post o = AMap.get x.heap.post o) := by
  have hfresh : (AMap.get x.heap.post (x.me, x.next)).isSome = false := by
    cases hq : (AMap.get x.heap.post (x.me, x.next)).isSome with
    | false => rfl
    | true => have := h.alloc _ hq rfl; simp at this
  have hunref : ∀ k, AMap.get x.heap.fwd k ≠ some (x.me, x.next) := by
    intro k e; have := h.refs k _ e; rw [hfresh] at this; cases this
  refine ⟨?_, rfl, rfl, rfl, by simp [KTx.alloc, AMap.get_set], hunref, ?_⟩
  · constructor
    · intro k o' e
      show (AMap.get (AMap.set x.heap.post (x.me, x.next) p) o').isSome
      rw [AMap.get_set]; split
      · rfl
      · exact h.refs k o' e
    · exact h.inj
    · intro o' e eo
      have e' : (AMap.get (AMap.set x.heap.post (x.me, x.next) p) o').isSome := e
      show o'.2 < x.next + 1
      rw [AMap.get_set] at e'
      by_cases eq : (x.me, x.next) = o'
      · rw [← eq]; simp
      · simp only [eq, if_false] at e'
        have := h.alloc o' e' eo; omega
    · exact h.base_owner
    · intro o' e
      show (AMap.get (AMap.set x.heap.post (x.me, x.next) p) o').isSome
      rw [AMap.get_set]; split
      · rfl
      · exact h.base_keep o' e
    · exact h.base_refs
    · exact h.wf_fwd
    · intro k ob e
      rcases h.repl k ob e with l | ⟨⟨t, r1⟩, r2, r3⟩
      · exact Or.inl l
      · right
        refine ⟨⟨t, ?_⟩, r2, r3⟩
        show AMap.get (AMap.set x.heap.post (x.me, x.next) p) ob = _
        have : (x.me, x.next) ≠ ob := by
          intro eq; rw [← eq] at r1; rw [r1] at hfresh; cases hfresh
        rw [AMap.get_set]; simp only [this, if_false]; exact r1
  · intro o ho
    show AMap.get (AMap.set x.heap.post (x.me, x.next) p) o = _
    rw [AMap.get_set]; simp [Ne.symm ho]

/-- `idx[word] = Set()` for a word the forward tree does not have -/
theorem ks_fwdSet_new {H : KHeap K} {x : KTx K} (h : KS H x) {w : K} {q : Oid}
    (hn : AMap.get x.heap.fwd w = none) (hq : ∀ k, AMap.get x.heap.fwd k ≠ some q)
    (hs : (AMap.get x.heap.post q).isSome) (hme : q.1 = x.me) : KS H (x.fwdSet w q) where
  refs := by
    intro k o' e
    have e' : AMap.get (AMap.set x.heap.fwd w q) k = some o' := e
    rw [AMap.get_set] at e'
    by_cases ek : w = k
    · simp only [ek, if_true] at e'; cases e'; exact hs
    · simp only [ek, if_false] at e'; exact h.refs k o' e'
  inj := by
    intro k k' o' e1 e2
    have e1' : AMap.get (AMap.set x.heap.fwd w q) k = some o' := e1
    have e2' : AMap.get (AMap.set x.heap.fwd w q) k' = some o' := e2
    rw [AMap.get_set] at e1' e2'
    by_cases ek : w = k <;> by_cases ek' : w = k'
    · rw [← ek, ← ek']
    · subst ek; simp only [ek', if_true, if_false] at e1' e2'; cases e1'; exact absurd e2' (hq k')
    · subst ek'; simp only [ek, if_true, if_false] at e1' e2'; cases e2'; exact absurd e1' (hq k)
    · simp only [ek, ek', if_false] at e1' e2'; exact h.inj k k' o' e1' e2'
  alloc := h.alloc
  base_owner := h.base_owner
  base_keep := h.base_keep
  base_refs := h.base_refs
  wf_fwd := AMap.WF_set h.wf_fwd w q
  repl := by
    intro k ob e
    have hqb : q ≠ ob := fun eq => h.base_owner ob (h.base_refs k ob e) (eq ▸ hme)
    show AMap.get (AMap.set x.heap.fwd w q) k = some ob ∨ _
    rcases h.repl k ob e with l | ⟨r1, r2, r3⟩
    · left
      rw [AMap.get_set]
      by_cases ek : w = k
      · subst ek; rw [hn] at l; cases l
      · simp only [ek, if_false]; exact l
    · right
      refine ⟨r1, by simp [KTx.fwdSet, dirtyK_cons, r2], ?_⟩
      intro k'
      show AMap.get (AMap.set x.heap.fwd w q) k' ≠ _
      rw [AMap.get_set]; split
      · intro e'; cases e'; exact hqb rfl
      · exact r3 k'

end Hyp.CIdx
