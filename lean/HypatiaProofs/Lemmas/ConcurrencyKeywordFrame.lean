import HypatiaProofs.Lemmas.ConcurrencyKeywordOps

/-!
Object-level keyword index (C19): the footprint `KF` of a transaction on the documents `D`
(complements the structural invariant `KS`): reverse entries, not-indexed marks and the members of
every posting object *the transaction still refers to* are untouched for other documents; a new
reference is to an object of this transaction; the write log is sound.
-/
set_option linter.unusedSectionVars false
set_option linter.unusedSimpArgs false
set_option linter.unusedVariables false
namespace Hyp.CIdx
open Hyp Hyp.Keyword

variable {K : Type} [DecidableEq K]

/-- the members of posting object `o` -/
def kmem (h : KHeap K) (o : Oid) : List Int := ((AMap.get h.post o).getD (Tag.set, [])).2

structure KF (H : KHeap K) (D : List Int) (x : KTx K) : Prop where
  rev_out : ∀ d, d ∉ D → AMap.get x.heap.rev d = AMap.get H.rev d
  ni_out : ∀ d, d ∉ D → (d ∈ x.heap.ni ↔ d ∈ H.ni)
  post_live : ∀ k o, AMap.get H.fwd k = some o → AMap.get x.heap.fwd k = some o →
      ∀ d, d ∉ D → (d ∈ kmem x.heap o ↔ d ∈ kmem H o)
  fresh_ref : ∀ k q, AMap.get x.heap.fwd k = some q → AMap.get H.fwd k ≠ some q → q.1 = x.me
  clean_fwd : dirty x.writes .fwd = false → x.heap.fwd = H.fwd
  clean_rev : dirty x.writes .rev = false → x.heap.rev = H.rev
  clean_ni : dirty x.writes .ni = false → x.heap.ni = H.ni
  clean_post : ∀ o, dirty x.writes (.post o) = false → (AMap.get H.post o).isSome →
      AMap.get x.heap.post o = AMap.get H.post o
  fresh_owner : ∀ o, (AMap.get x.heap.post o).isSome → (AMap.get H.post o).isSome ∨ o.1 = x.me

theorem kf_start (H : KHeap K) (D : List Int) (me : Nat) : KF H D (KTx.start H me) where
  rev_out := fun _ _ => rfl
  ni_out := fun _ _ => Iff.rfl
  post_live := fun _ _ _ _ _ _ => Iff.rfl
  fresh_ref := fun _ _ h h' => absurd h h'
  clean_fwd := fun _ => rfl
  clean_rev := fun _ => rfl
  clean_ni := fun _ => rfl
  clean_post := fun _ _ _ => rfl
  fresh_owner := fun _ h => Or.inl h

theorem dirty_false_of_cons {l : Loc K} {w : List (Loc K)} {ob : ObjId} (h : dirty (l :: w) ob = false) :
    l.obj ≠ ob ∧ dirty w ob = false := by
  rw [dirtyK_cons] at h
  simp only [Bool.or_eq_false_iff, decide_eq_false_iff_not] at h
  exact h

theorem kf_rd {H : KHeap K} {D : List Int} {x : KTx K} (h : KF H D x) (l : Loc K) : KF H D (x.rd l) :=
  ⟨h.rev_out, h.ni_out, h.post_live, h.fresh_ref, h.clean_fwd, h.clean_rev, h.clean_ni, h.clean_post,
   h.fresh_owner⟩

theorem kf_lenChange {H : KHeap K} {D : List Int} {x : KTx K} (h : KF H D x) (n : Int) :
    KF H D (x.lenChange n) :=
  ⟨h.rev_out, h.ni_out, h.post_live, h.fresh_ref,
   fun e => h.clean_fwd (dirty_false_of_cons e).2, fun e => h.clean_rev (dirty_false_of_cons e).2,
   fun e => h.clean_ni (dirty_false_of_cons e).2, fun o e => h.clean_post o (dirty_false_of_cons e).2,
   h.fresh_owner⟩

theorem kf_niRemove {H : KHeap K} {D : List Int} {x : KTx K} (h : KF H D x) {d : Int} (hd : d ∈ D) :
    KF H D (x.niRemove d) := by
  have hne : ∀ d', d' ∉ D → d' ≠ d := fun d' h e => h (e ▸ hd)
  refine ⟨h.rev_out, ?_, h.post_live, h.fresh_ref,
   fun e => h.clean_fwd (dirty_false_of_cons e).2, fun e => h.clean_rev (dirty_false_of_cons e).2,
   fun e => absurd rfl (dirty_false_of_cons e).1, fun o e => h.clean_post o (dirty_false_of_cons e).2,
   h.fresh_owner⟩
  intro d' hd'
  show d' ∈ LSet.remove x.heap.ni d ↔ _
  rw [LSet.mem_remove, ← h.ni_out d' hd']
  exact ⟨fun h => h.2, fun h => ⟨hne d' hd', h⟩⟩

theorem kf_niAdd {H : KHeap K} {D : List Int} {x : KTx K} (h : KF H D x) {d : Int} (hd : d ∈ D) :
    KF H D (x.niAdd d) := by
  have hne : ∀ d', d' ∉ D → d' ≠ d := fun d' h e => h (e ▸ hd)
  refine ⟨h.rev_out, ?_, h.post_live, h.fresh_ref,
   fun e => h.clean_fwd (dirty_false_of_cons e).2, fun e => h.clean_rev (dirty_false_of_cons e).2,
   fun e => absurd rfl (dirty_false_of_cons e).1, fun o e => h.clean_post o (dirty_false_of_cons e).2,
   h.fresh_owner⟩
  intro d' hd'
  show d' ∈ LSet.insert x.heap.ni d ↔ _
  rw [LSet.mem_insert, ← h.ni_out d' hd']
  exact ⟨fun h => h.elim (fun e => absurd e (hne d' hd')) id, fun h => Or.inr h⟩

theorem kf_revErase {H : KHeap K} {D : List Int} {x : KTx K} (h : KF H D x) {d : Int} (hd : d ∈ D) :
    KF H D (x.revErase d) := by
  have hne : ∀ d', d' ∉ D → d ≠ d' := fun d' h e => h (e ▸ hd)
  refine ⟨?_, h.ni_out, h.post_live, h.fresh_ref,
   fun e => h.clean_fwd (dirty_false_of_cons e).2, fun e => absurd rfl (dirty_false_of_cons e).1,
   fun e => h.clean_ni (dirty_false_of_cons e).2, fun o e => h.clean_post o (dirty_false_of_cons e).2,
   h.fresh_owner⟩
  intro d' hd'
  show AMap.get (AMap.erase x.heap.rev d) d' = _
  rw [AMap.get_erase]; simp only [hne d' hd', if_false]; exact h.rev_out d' hd'

theorem kf_revSet {H : KHeap K} {D : List Int} {x : KTx K} (h : KF H D x) {d : Int} (hd : d ∈ D)
    (v : List K) : KF H D (x.revSet d v) := by
  have hne : ∀ d', d' ∉ D → d ≠ d' := fun d' h e => h (e ▸ hd)
  refine ⟨?_, h.ni_out, h.post_live, h.fresh_ref,
   fun e => h.clean_fwd (dirty_false_of_cons e).2, fun e => absurd rfl (dirty_false_of_cons e).1,
   fun e => h.clean_ni (dirty_false_of_cons e).2, fun o e => h.clean_post o (dirty_false_of_cons e).2,
   h.fresh_owner⟩
  intro d' hd'
  show AMap.get (AMap.set x.heap.rev d v) d' = _
  rw [AMap.get_set]; simp only [hne d' hd', if_false]; exact h.rev_out d' hd'

theorem kmem_set (h : KHeap K) (post' : AMap Oid (Tag × List Int)) (o o' : Oid) (p : Tag × List Int) :
    kmem { h with post := AMap.set h.post o p } o' = if o = o' then p.2 else kmem h o' := by
  unfold kmem; simp only [AMap.get_set]; split <;> rfl

/-- `insert` / `remove` of a document of `D` on a referenced posting object -/
theorem kf_postPut {H : KHeap K} {D : List Int} {x : KTx K} (h : KF H D x) (hs : KS H x) {w : K} {o : Oid}
    (hr : AMap.get x.heap.fwd w = some o) {d : Int} (hd : d ∈ D) (p : Tag × List Int)
    (hp : ∀ d', d' ≠ d → (d' ∈ p.2 ↔ d' ∈ kmem x.heap o)) : KF H D (x.postPut o d p) := by
  have hne : ∀ d', d' ∉ D → d' ≠ d := fun d' h e => h (e ▸ hd)
  refine ⟨h.rev_out, h.ni_out, ?_, h.fresh_ref,
   fun e => h.clean_fwd (dirty_false_of_cons e).2, fun e => h.clean_rev (dirty_false_of_cons e).2,
   fun e => h.clean_ni (dirty_false_of_cons e).2, ?_, ?_⟩
  · intro k ob e1 e2 d' hd'
    have e2' : AMap.get x.heap.fwd k = some ob := e2
    show d' ∈ kmem { x.heap with post := AMap.set x.heap.post o p } ob ↔ _
    rw [kmem_set _ x.heap.post]
    by_cases eo : o = ob
    · subst eo
      simp only [if_true]
      rw [hp d' (hne d' hd')]; exact h.post_live k o e1 e2' d' hd'
    · simp only [eo, if_false]; exact h.post_live k ob e1 e2' d' hd'
  · intro o' e e0
    obtain ⟨e1, e2⟩ := dirty_false_of_cons e
    have : o ≠ o' := fun eo => e1 (by simp [Loc.obj, eo])
    show AMap.get (AMap.set x.heap.post o p) o' = _
    rw [AMap.get_set]; simp only [this, if_false]; exact h.clean_post o' e2 e0
  · intro o' e
    have e' : (AMap.get (AMap.set x.heap.post o p) o').isSome := e
    rw [AMap.get_set] at e'
    by_cases eo : o = o'
    · subst eo; exact h.fresh_owner o (hs.refs w o hr)
    · simp only [eo, if_false] at e'; exact h.fresh_owner o' e'

theorem kf_fwdErase {H : KHeap K} {D : List Int} {x : KTx K} (h : KF H D x) (w : K) :
    KF H D (x.fwdErase w) := by
  refine ⟨h.rev_out, h.ni_out, ?_, ?_,
   fun e => absurd rfl (dirty_false_of_cons e).1, fun e => h.clean_rev (dirty_false_of_cons e).2,
   fun e => h.clean_ni (dirty_false_of_cons e).2, fun o e => h.clean_post o (dirty_false_of_cons e).2,
   h.fresh_owner⟩
  · intro k ob e1 e2
    have e2' : AMap.get (AMap.erase x.heap.fwd w) k = some ob := e2
    rw [AMap.get_erase] at e2'
    by_cases ek : w = k
    · simp [ek] at e2'
    · simp only [ek, if_false] at e2'; exact h.post_live k ob e1 e2'
  · intro k q e1 e2
    have e1' : AMap.get (AMap.erase x.heap.fwd w) k = some q := e1
    rw [AMap.get_erase] at e1'
    by_cases ek : w = k
    · simp [ek] at e1'
    · simp only [ek, if_false] at e1'; exact h.fresh_ref k q e1' e2

theorem kf_alloc {H : KHeap K} {D : List Int} {x : KTx K} (h : KF H D x) (hs : KS H x) (p : Tag × List Int) :
    KF H D (x.alloc p).1 := by
  have hbase : ∀ o, (AMap.get H.post o).isSome → (x.me, x.next) ≠ o :=
    fun o ho e => hs.base_owner o ho (by rw [← e])
  refine ⟨h.rev_out, h.ni_out, ?_, h.fresh_ref, h.clean_fwd, h.clean_rev, h.clean_ni, ?_, ?_⟩
  · intro k ob e1 e2 d' hd'
    show d' ∈ kmem { x.heap with post := AMap.set x.heap.post (x.me, x.next) p } ob ↔ _
    rw [kmem_set _ x.heap.post]
    simp only [hbase ob (hs.base_refs k ob e1), if_false]
    exact h.post_live k ob e1 e2 d' hd'
  · intro o e e0
    show AMap.get (AMap.set x.heap.post (x.me, x.next) p) o = _
    rw [AMap.get_set]; simp only [hbase o e0, if_false]; exact h.clean_post o e e0
  · intro o e
    have e' : (AMap.get (AMap.set x.heap.post (x.me, x.next) p) o).isSome := e
    rw [AMap.get_set] at e'
    by_cases eo : (x.me, x.next) = o
    · right; rw [← eo]; rfl
    · simp only [eo, if_false] at e'; exact h.fresh_owner o e'

/-- `idx[word] = <new object of this transaction>` -/
theorem kf_fwdSet {H : KHeap K} {D : List Int} {x : KTx K} (h : KF H D x) (hs : KS H x) (w : K) {q : Oid}
    (hme : q.1 = x.me) : KF H D (x.fwdSet w q) := by
  refine ⟨h.rev_out, h.ni_out, ?_, ?_,
   fun e => absurd rfl (dirty_false_of_cons e).1, fun e => h.clean_rev (dirty_false_of_cons e).2,
   fun e => h.clean_ni (dirty_false_of_cons e).2, fun o e => h.clean_post o (dirty_false_of_cons e).2,
   h.fresh_owner⟩
  · intro k ob e1 e2
    have e2' : AMap.get (AMap.set x.heap.fwd w q) k = some ob := e2
    rw [AMap.get_set] at e2'
    by_cases ek : w = k
    · simp only [ek, if_true] at e2'; cases e2'
      exact absurd hme (hs.base_owner q (hs.base_refs k q e1))
    · simp only [ek, if_false] at e2'; exact h.post_live k ob e1 e2'
  · intro k q' e1 e2
    have e1' : AMap.get (AMap.set x.heap.fwd w q) k = some q' := e1
    rw [AMap.get_set] at e1'
    by_cases ek : w = k
    · simp only [ek, if_true] at e1'; cases e1'; exact hme
    · simp only [ek, if_false] at e1'; exact h.fresh_ref k q' e1' e2

/-- `word_idx.clear()` on an object nobody refers to any more -/
theorem kf_postClear {H : KHeap K} {D : List Int} {x : KTx K} (h : KF H D x) {o : Oid} (t : Tag)
    (hu : ∀ k, AMap.get x.heap.fwd k ≠ some o) (hso : (AMap.get x.heap.post o).isSome) :
    KF H D (x.postClear o t) := by
  refine ⟨h.rev_out, h.ni_out, ?_, h.fresh_ref,
   fun e => h.clean_fwd (dirty_false_of_cons e).2, fun e => h.clean_rev (dirty_false_of_cons e).2,
   fun e => h.clean_ni (dirty_false_of_cons e).2, ?_, ?_⟩
  · intro k ob e1 e2 d' hd'
    have e2' : AMap.get x.heap.fwd k = some ob := e2
    show d' ∈ kmem { x.heap with post := AMap.set x.heap.post o (t, []) } ob ↔ _
    rw [kmem_set _ x.heap.post]
    have : o ≠ ob := fun eo => hu k (eo ▸ e2')
    simp only [this, if_false]; exact h.post_live k ob e1 e2' d' hd'
  · intro o' e e0
    obtain ⟨e1, e2⟩ := dirty_false_of_cons e
    have : o ≠ o' := fun eo => e1 (by simp [Loc.obj, eo])
    show AMap.get (AMap.set x.heap.post o (t, [])) o' = _
    rw [AMap.get_set]; simp only [this, if_false]; exact h.clean_post o' e2 e0
  · intro o' e
    have e' : (AMap.get (AMap.set x.heap.post o (t, [])) o').isSome := e
    rw [AMap.get_set] at e'
    by_cases eo : o = o'
    · subst eo; exact h.fresh_owner o hso
    · simp only [eo, if_false] at e'; exact h.fresh_owner o' e'

end Hyp.CIdx
