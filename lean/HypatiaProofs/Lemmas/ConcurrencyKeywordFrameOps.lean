import HypatiaProofs.Lemmas.ConcurrencyKeywordFrame

/-!
Object-level keyword index (C19): `KS` and `KF` together (`KG`) are preserved by every operation
of the repaired code on documents of `D`, hence by every transaction.
-/
set_option linter.unusedSectionVars false
set_option linter.unusedSimpArgs false
set_option linter.unusedVariables false
namespace Hyp.CIdx
open Hyp Hyp.Keyword

variable {K : Type} [DecidableEq K]

structure KG (H : KHeap K) (D : List Int) (x : KTx K) : Prop where
  s : KS H x
  f : KF H D x

theorem kg_rd {H : KHeap K} {D : List Int} {x : KTx K} (h : KG H D x) (l : Loc K) : KG H D (x.rd l) :=
  ⟨ks_rd h.s l, kf_rd h.f l⟩

theorem kg_unpostOne {H : KHeap K} {D : List Int} {x : KTx K} (h : KG H D x) {d : Int} (hd : d ∈ D)
    {w : K} {o : Oid} (hf : AMap.get x.heap.fwd w = some o) : KG H D (KTx.unpostOne x d w o) := by
  refine ⟨ks_unpostOne h.s d hf, ?_⟩
  unfold KTx.unpostOne
  simp only
  have h2 : KF H D ((x.postPut o d ((x.obj o).1, LSet.remove (x.obj o).2 d)).rd (.whole o)) := by
    apply kf_rd
    apply kf_postPut h.f h.s hf hd
    intro d' hd'
    show d' ∈ LSet.remove (x.obj o).2 d ↔ _
    rw [LSet.mem_remove]
    exact ⟨fun h => h.2, fun h => ⟨hd', h⟩⟩
  split
  · exact kf_fwdErase h2 w
  · exact h2

theorem kg_unpostAll {H : KHeap K} {D : List Int} {d : Int} (hd : d ∈ D) : ∀ (ws : List K) (x : KTx K),
    KG H D x → KG H D (KTx.unpostAll x d ws).1 := by
  intro ws
  induction ws with
  | nil => intro x h; exact h
  | cons w ws ih =>
    intro x h
    unfold KTx.unpostAll
    simp only
    have e0 : (x.rd (.fwd w)).heap.fwd = x.heap.fwd := rfl
    rcases opt_cases' (AMap.get x.heap.fwd w) with hf | ⟨o, hf⟩
    · simp only [e0, hf]; exact kg_rd h _
    · simp only [e0, hf]
      split
      · exact ih _ (kg_unpostOne (kg_rd (kg_rd h _) _) hd hf)
      · exact kg_rd (kg_rd h _) _

theorem kg_niRemove {H : KHeap K} {D : List Int} {x : KTx K} (h : KG H D x) {d : Int} (hd : d ∈ D) :
    KG H D (x.niRemove d) := ⟨ks_niRemove h.s d, kf_niRemove h.f hd⟩
theorem kg_niAdd {H : KHeap K} {D : List Int} {x : KTx K} (h : KG H D x) {d : Int} (hd : d ∈ D) :
    KG H D (x.niAdd d) := ⟨ks_niAdd h.s d, kf_niAdd h.f hd⟩
theorem kg_revErase {H : KHeap K} {D : List Int} {x : KTx K} (h : KG H D x) {d : Int} (hd : d ∈ D) :
    KG H D (x.revErase d) := ⟨ks_revErase h.s d, kf_revErase h.f hd⟩
theorem kg_revSet {H : KHeap K} {D : List Int} {x : KTx K} (h : KG H D x) {d : Int} (hd : d ∈ D)
    (v : List K) : KG H D (x.revSet d v) := ⟨ks_revSet h.s d v, kf_revSet h.f hd v⟩
theorem kg_lenChange {H : KHeap K} {D : List Int} {x : KTx K} (h : KG H D x) (n : Int) :
    KG H D (x.lenChange n) := ⟨ks_lenChange h.s n, kf_lenChange h.f n⟩

/-- the state after `_not_indexed.remove(docid)` and the two reads that follow -/
theorem kg_dropNi {H : KHeap K} {D : List Int} {x : KTx K} (h : KG H D x) {d : Int} (hd : d ∈ D) :
    KG H D ((if d ∈ (x.rd (.ni d)).heap.ni then (x.rd (.ni d)).niRemove d else x.rd (.ni d)).rd (.rev d)) := by
  apply kg_rd; split
  · exact kg_niRemove (kg_rd h _) hd
  · exact kg_rd h _

theorem kg_unindexDoc {H : KHeap K} {D : List Int} {x : KTx K} (h : KG H D x) {d : Int} (hd : d ∈ D) :
    KG H D (x.unindexDoc d) := by
  unfold KTx.unindexDoc
  simp only
  have h1 := kg_dropNi h hd
  generalize ((if d ∈ (x.rd (.ni d)).heap.ni then (x.rd (.ni d)).niRemove d else x.rd (.ni d)).rd (.rev d)) = x1 at h1 ⊢
  split
  · exact h1
  · next kws _ =>
    have := kg_unpostAll hd kws x1 h1
    split
    · exact kg_lenChange (kg_revErase this hd) _
    · exact this

theorem kg_postingFor {H : KHeap K} {D : List Int} {x : KTx K} (h : KG H D x) (w : K) :
    KG H D (KTx.postingFor x w).1 := by
  refine ⟨(ks_postingFor h.s w).1, ?_⟩
  unfold KTx.postingFor
  rcases opt_cases' (AMap.get x.heap.fwd w) with hf | ⟨o, hf⟩
  · simp only [hf]
    obtain ⟨a1, a2, a3, a4, a5, a6, a7⟩ := ks_alloc h.s (Tag.set, [])
    rw [a2]
    exact kf_fwdSet (kf_alloc h.f h.s _) a1 w (by rw [a4])
  · simp only [hf]; exact h.f

theorem kg_promote {H : KHeap K} {D : List Int} (c : KCfg) (hc : c.clearReplaced = true) {x : KTx K}
    (h : KG H D x) {w : K} {o : Oid} (hr : AMap.get x.heap.fwd w = some o) (p : Tag × List Int)
    (s' : List Int) : KG H D (KTx.promote c x w o p s') := by
  refine ⟨ks_promote c hc h.s hr p s', ?_⟩
  unfold KTx.promote
  split
  · obtain ⟨a1, a2, a3, a4, a5, a6, a7⟩ := ks_alloc h.s (Tag.tree, s')
    simp only [hc, if_true]
    rw [a2]
    have hqo : (x.me, x.next) ≠ o := fun e => a6 w (e ▸ hr)
    apply kf_postClear (kf_fwdSet (kf_alloc h.f h.s _) a1 w (by rw [a4])) p.1
    · intro k
      show AMap.get (AMap.set (x.alloc (Tag.tree, s')).1.heap.fwd w (x.me, x.next)) k ≠ some o
      rw [a3, AMap.get_set]
      by_cases ek : w = k
      · simp only [ek, if_true]; intro e; cases e; exact hqo rfl
      · simp only [ek, if_false]; intro e; exact ek (h.s.inj w k o hr e)
    · show (AMap.get (x.alloc (Tag.tree, s')).1.heap.post o).isSome
      rw [a7 o (Ne.symm hqo)]; exact h.s.refs w o hr
  · exact h.f

theorem kg_insertOne {H : KHeap K} {D : List Int} (c : KCfg) (hc : c.clearReplaced = true) {x : KTx K}
    (h : KG H D x) {d : Int} (hd : d ∈ D) (w : K) : KG H D (KTx.insertOne c x d w) := by
  unfold KTx.insertOne
  simp only
  have k2 := kg_postingFor (kg_rd h (.fwd w)) w
  have f2 := (ks_postingFor (ks_rd h.s (.fwd w)) w).2
  generalize KTx.postingFor (x.rd (.fwd w)) w = r at k2 f2 ⊢
  apply kg_promote c hc
  · apply kg_rd; split
    · exact kg_rd k2 _
    · refine ⟨ks_postPut (ks_rd k2.s _) f2 d _, kf_postPut (kf_rd k2.f _) (ks_rd k2.s _) f2 hd _ ?_⟩
      intro d' hd'
      show d' ∈ LSet.insert (r.1.obj r.2).2 d ↔ _
      rw [LSet.mem_insert]
      exact ⟨fun h => h.elim (fun e => absurd e hd') id, fun h => Or.inr h⟩
  · show AMap.get (if d ∈ (r.1.obj r.2).2 then r.1.rd (.post r.2 d)
        else (r.1.rd (.post r.2 d)).postPut r.2 d ((r.1.obj r.2).1, LSet.insert (r.1.obj r.2).2 d)).heap.fwd w = _
    split <;> exact f2

theorem kg_insertForward {H : KHeap K} {D : List Int} (c : KCfg) (hc : c.clearReplaced = true) {d : Int}
    (hd : d ∈ D) : ∀ (ws : List K) (x : KTx K), KG H D x → KG H D (KTx.insertForward c x d ws) := by
  intro ws
  induction ws with
  | nil => intro x h; exact h
  | cons w ws ih => intro x h; exact ih _ (kg_insertOne c hc h hd w)

theorem kg_insertReverse {H : KHeap K} {D : List Int} {x : KTx K} (h : KG H D x) {d : Int} (hd : d ∈ D)
    (ws : List K) : KG H D (x.insertReverse d ws) := by
  unfold KTx.insertReverse; split
  · exact h
  · exact kg_revSet h hd ws

theorem kg_indexDoc {H : KHeap K} {D : List Int} (c : KCfg) (hc : c.clearReplaced = true) {x : KTx K}
    (h : KG H D x) {d : Int} (hd : d ∈ D) (v : Option (List K)) : KG H D (KTx.indexDoc c x d v) := by
  unfold KTx.indexDoc
  cases v with
  | none =>
    simp only; split
    · exact kg_rd h _
    · exact kg_niAdd (kg_unindexDoc (kg_rd h _) hd) hd
  | some seq =>
    simp only
    have h1 := kg_dropNi h hd
    generalize ((if d ∈ (x.rd (.ni d)).heap.ni then (x.rd (.ni d)).niRemove d else x.rd (.ni d)).rd (.rev d)) = x1 at h1 ⊢
    split
    · split
      · exact kg_unindexDoc h1 hd
      · exact h1
    · split
      · exact kg_lenChange (kg_insertReverse (kg_insertForward c hc hd _ _ h1) hd _) 1
      · split
        · exact h1
        · split
          · exact kg_insertReverse (kg_insertForward c hc hd _ _ (kg_unpostAll hd _ x1 h1)) hd _
          · exact kg_unpostAll hd _ x1 h1

theorem kg_run {H : KHeap K} {D : List Int} (c : KCfg) (hc : c.clearReplaced = true) :
    ∀ (ops : List (TOp (List K))) (x : KTx K), KG H D x → (∀ op ∈ ops, op.doc ∈ D) →
      KG H D (KTx.run c x ops) := by
  intro ops
  induction ops with
  | nil => intro x h _; exact h
  | cons op ops ih =>
    intro x h hd
    simp only [KTx.run, List.foldl_cons] at ih ⊢
    apply ih _ _ (fun o ho => hd o (List.mem_cons_of_mem _ ho))
    have hd0 := hd op (by simp)
    cases op with
    | index d v => exact kg_indexDoc c hc h hd0 v
    | unindex d => exact kg_unindexDoc h hd0

end Hyp.CIdx
