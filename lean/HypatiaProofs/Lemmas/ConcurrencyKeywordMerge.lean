import HypatiaProofs.Lemmas.ConcurrencyKeywordRun

/-!
Object-level keyword index (C19): the second commit.  Same argument as for the field index
(`ConcurrencyFieldMerge.lean`), keyword by keyword: both transactions still use the snapshot's
posting object (per-member merge); one of them replaced or dropped it – then it is *empty* there
(emptied by removals, or cleared by the D20 repair when `_insert_forward` replaced it), registered
as written, and the rule "committed or new state empty ⇒ conflict" guarantees the other side did
not write it; both changed the key – the bucket merge refuses.
-/
set_option linter.unusedSectionVars false
set_option linter.unusedSimpArgs false
set_option linter.unusedVariables false
namespace Hyp.CIdx
open Hyp Hyp.Keyword Hyp.Keyword.Spec

variable {K : Type} [DecidableEq K]

theorem mergeObj_posting_spec {da db : Bool} {old com new r : Tag × List Int}
    (h : mergeObj resolvePosting da db old com new = some r)
    (ha : da = false → com = old) (hb : db = false → new = old) :
    (∀ k, mergeMem (decide (k ∈ old.2)) (decide (k ∈ com.2)) (decide (k ∈ new.2)) = some (decide (k ∈ r.2))) ∧
    (com.2.Nodup → new.2.Nodup → r.2.Nodup) ∧
    (da = true → db = true → com.2 ≠ [] ∧ new.2 ≠ [] ∧ r.2 ≠ []) ∧
    (db = false → r = com) ∧ (db = true → da = false → r = new) := by
  unfold mergeObj at h
  cases db with
  | false =>
    simp at h; subst h
    have := hb rfl; subst this
    exact ⟨fun k => mergeMem_right _ _, fun w _ => w, by simp, fun _ => rfl, by simp⟩
  | true =>
    cases da with
    | false =>
      simp at h; subst h
      have := ha rfl; subst this
      exact ⟨fun k => mergeMem_left _ _, fun _ w => w, by simp, by simp, fun _ _ => rfl⟩
    | true =>
      simp only [if_true] at h
      unfold resolvePosting at h
      rcases opt_cases' (resolveSet old.2 com.2 new.2) with e | ⟨s, e⟩
      · simp [e] at h
      · simp [e] at h; subst h
        obtain ⟨h1, h2, h3, h4, h5⟩ := resolveSet_spec e
        exact ⟨h5, fun _ _ => h4, fun _ _ => ⟨h1, h2, h3⟩, by simp, by simp⟩

theorem mergePostsK_spec {base a : AMap Oid (Tag × List Int)} {wa wb : List (Loc K)} :
    ∀ {bp r : AMap Oid (Tag × List Int)}, mergePostsK base a wa wb bp = some r →
    ∀ o, (match AMap.get bp o with
          | none => AMap.get r o = AMap.get a o
          | some sb =>
            match AMap.get base o with
            | none => AMap.get r o = some sb
            | some s0 => ∃ s, AMap.get r o = some s ∧
                mergeObj resolvePosting (dirty wa (.post o)) (dirty wb (.post o)) s0 ((AMap.get a o).getD s0) sb = some s) := by
  intro bp
  induction bp with
  | nil => intro r h o; simp [mergePostsK] at h; subst h; simp
  | cons e rest ih =>
    obtain ⟨o0, sb0⟩ := e
    intro r h o
    unfold mergePostsK at h
    cases hr : mergePostsK base a wa wb rest with
    | none => simp [hr] at h
    | some r' =>
      simp only [hr] at h
      have ih' := ih hr o
      rw [AMap.get_cons]
      by_cases e : o0 = o
      · subst e
        simp only [if_true]
        cases hb : AMap.get base o0 with
        | none => simp [hb] at h; subst h; simp [AMap.get_set]
        | some s0 =>
          simp only [hb] at h
          cases hm : mergeObj resolvePosting (dirty wa (.post o0)) (dirty wb (.post o0)) s0 ((AMap.get a o0).getD s0) sb0 with
          | none => simp [hm] at h
          | some s => simp [hm] at h; subst h; exact ⟨s, by simp [AMap.get_set], hm⟩
      · simp only [e, if_false]
        have hg : AMap.get r o = AMap.get r' o := by
          cases hb : AMap.get base o0 with
          | none => simp [hb] at h; subst h; simp [AMap.get_set, e]
          | some s0 =>
            simp only [hb] at h
            cases hm : mergeObj resolvePosting (dirty wa (.post o0)) (dirty wb (.post o0)) s0 ((AMap.get a o0).getD s0) sb0 with
            | none => simp [hm] at h
            | some s => simp [hm] at h; subst h; simp [AMap.get_set, e]
        rw [hg]; exact ih'

/-! ### document tables -/

theorem get_stepTK_ne (t : Table K) (op : TOp (List K)) (d : Int) (h : op.doc ≠ d) :
    AMap.get (stepT t op.toKeyword) d = AMap.get t d := by
  cases op with
  | index d' v => simp only [TOp.toKeyword, stepT, AMap.get_set]; simp [show d' ≠ d from h]
  | unindex d' => simp only [TOp.toKeyword, stepT, AMap.get_erase]; simp [show d' ≠ d from h]

theorem get_stepTK_congr (t t' : Table K) (op : TOp (List K)) (d : Int) (h : AMap.get t d = AMap.get t' d) :
    AMap.get (stepT t op.toKeyword) d = AMap.get (stepT t' op.toKeyword) d := by
  cases op with
  | index d' v => simp only [TOp.toKeyword, stepT, AMap.get_set]; split <;> simp [h]
  | unindex d' => simp only [TOp.toKeyword, stepT, AMap.get_erase]; split <;> simp [h]

theorem get_tableAfterK_out (ops : List (TOp (List K))) : ∀ (t : Table K) (d : Int), d ∉ docsOf ops →
    AMap.get (tableAfterK t ops) d = AMap.get t d := by
  induction ops with
  | nil => intros; rfl
  | cons op ops ih =>
    intro t d hd
    simp only [docsOf, List.map_cons, List.mem_cons, not_or] at hd
    simp only [tableAfterK, List.foldl_cons]
    have := ih (stepT t op.toKeyword) d (by simpa [docsOf] using hd.2)
    simp only [tableAfterK] at this
    rw [this]; exact get_stepTK_ne t op d (fun e => hd.1 e.symm)

theorem get_tableAfterK_congr (ops : List (TOp (List K))) : ∀ (t t' : Table K) (d : Int),
    AMap.get t d = AMap.get t' d → AMap.get (tableAfterK t ops) d = AMap.get (tableAfterK t' ops) d := by
  induction ops with
  | nil => intro t t' d h; exact h
  | cons op ops ih =>
    intro t t' d h
    simp only [tableAfterK, List.foldl_cons]
    exact ih _ _ d (get_stepTK_congr t t' op d h)

/-! ### the merge -/

/-- two keyword transactions `a`, `b` from the snapshot `H` on disjoint documents -/
structure KCtx (H : KHeap K) (t : Table K) (a b : KTx K) (tA tB : Table K) (DA DB : List Int) : Prop where
  iH : KOInv H t
  iA : KOInv a.heap tA
  iB : KOInv b.heap tB
  gA : KG H DA a
  gB : KG H DB b
  disj : ∀ d, d ∈ DA → d ∉ DB
  owners : a.me ≠ b.me

theorem commitSecondK_some {H : KHeap K} {a b : KTx K} {M : KHeap K} (h : commitSecondK H a b = some M) :
    mergeObj resolveMap (dirty a.writes .fwd) (dirty b.writes .fwd) H.fwd a.heap.fwd b.heap.fwd = some M.fwd ∧
    mergeObj resolveMap (dirty a.writes .rev) (dirty b.writes .rev) H.rev a.heap.rev b.heap.rev = some M.rev ∧
    mergeObj resolveSet (dirty a.writes .ni) (dirty b.writes .ni) H.ni a.heap.ni b.heap.ni = some M.ni ∧
    mergePostsK H.post a.heap.post a.writes b.writes b.heap.post = some M.post ∧
    M.len = a.heap.len + b.heap.len - H.len := by
  unfold commitSecondK at h
  split at h
  · next fwd rev ni post h1 h2 h3 h4 =>
    simp only [Option.some.injEq] at h; subst h
    exact ⟨h1, h2, h3, h4, rfl⟩
  · simp at h

theorem kposting_mem_iff {h : KHeap K} {t : Table K} (hi : KOInv h t) (k : K) (d : Int) :
    d ∈ h.posting k ↔ k ∈ kws h.rev d := by
  rw [kposting_eq]; exact hi.inv.fwd_eq k d

theorem kposting_none {h : KHeap K} {k : K} (e : AMap.get h.fwd k = none) : h.posting k = [] := by
  unfold KHeap.posting; rw [e]

theorem kposting_some {h : KHeap K} {k : K} {o : Oid} {p : Tag × List Int} (e : AMap.get h.fwd k = some o)
    (es : AMap.get h.post o = some p) : h.posting k = p.2 := by
  unfold KHeap.posting; rw [e]; simp [es]

theorem kposting_ok {h : KHeap K} {t : Table K} (hi : KOInv h t) {k : K} {o : Oid}
    (e : AMap.get h.fwd k = some o) : ∃ p, AMap.get h.post o = some p ∧ p.2 ≠ [] ∧ p.2.Nodup := by
  have hr := hi.wf.refs k o e
  rcases opt_cases' (AMap.get h.post o) with e' | ⟨p, e'⟩
  · simp [e'] at hr
  · have hv : AMap.get (pview h).fwd k = some p.2 := by rw [get_pview_fwd, e]; simp [kmem, e']
    exact ⟨p, e', hi.inv.fwd_ok.ne k _ hv, hi.inv.fwd_ok.nd k _ hv⟩

section
variable {H : KHeap K} {t : Table K} {a b : KTx K} {tA tB : Table K} {DA DB : List Int} {M : KHeap K}

theorem kmerged_rev (c : KCtx H t a b tA tB DA DB) (h : commitSecondK H a b = some M) (d : Int) :
    AMap.get M.rev d = if d ∈ DB then AMap.get b.heap.rev d else AMap.get a.heap.rev d := by
  obtain ⟨_, h2, _, _, _⟩ := commitSecondK_some h
  have := (mergeObj_map_spec h2 (fun e => c.gA.f.clean_rev e) (fun e => c.gB.f.clean_rev e)).1 d
  by_cases hd : d ∈ DB
  · simp only [hd, if_true]
    have ha : AMap.get a.heap.rev d = AMap.get H.rev d := c.gA.f.rev_out d (fun e => c.disj d e hd)
    rcases mergeVal_some this with ⟨_, e⟩ | ⟨e1, e⟩
    · exact e
    · rw [e, ha, e1]
  · simp only [hd, if_false]
    have hb : AMap.get b.heap.rev d = AMap.get H.rev d := c.gB.f.rev_out d hd
    rcases mergeVal_some this with ⟨e1, e⟩ | ⟨_, e⟩
    · rw [e, hb, e1]
    · exact e

theorem kmerged_ni (c : KCtx H t a b tA tB DA DB) (h : commitSecondK H a b = some M) (d : Int) :
    d ∈ M.ni ↔ if d ∈ DB then d ∈ b.heap.ni else d ∈ a.heap.ni := by
  obtain ⟨_, _, h3, _, _⟩ := commitSecondK_some h
  have := (mergeObj_set_spec h3 (fun e => c.gA.f.clean_ni e) (fun e => c.gB.f.clean_ni e)).1 d
  by_cases hd : d ∈ DB
  · simp only [hd, if_true]
    have ha : d ∈ a.heap.ni ↔ d ∈ H.ni := c.gA.f.ni_out d (fun e => c.disj d e hd)
    rcases mergeMem_some this with ⟨_, e⟩ | ⟨e1, e⟩
    · simpa using e
    · have e1' : d ∈ b.heap.ni ↔ d ∈ H.ni := by simpa using e1
      have e' : d ∈ M.ni ↔ d ∈ a.heap.ni := by simpa using e
      rw [e', ha, e1']
  · simp only [hd, if_false]
    have hb : d ∈ b.heap.ni ↔ d ∈ H.ni := c.gB.f.ni_out d hd
    rcases mergeMem_some this with ⟨e1, e⟩ | ⟨_, e⟩
    · have e1' : d ∈ a.heap.ni ↔ d ∈ H.ni := by simpa using e1
      have e' : d ∈ M.ni ↔ d ∈ b.heap.ni := by simpa using e
      rw [e', hb, e1']
    · simpa using e

theorem kmerged_fwd (c : KCtx H t a b tA tB DA DB) (h : commitSecondK H a b = some M) (k : K) :
    mergeVal (AMap.get H.fwd k) (AMap.get a.heap.fwd k) (AMap.get b.heap.fwd k) = some (AMap.get M.fwd k) := by
  obtain ⟨h1, _, _, _, _⟩ := commitSecondK_some h
  exact (mergeObj_map_spec h1 (fun e => c.gA.f.clean_fwd e) (fun e => c.gB.f.clean_fwd e)).1 k

/-- a posting object of the snapshot after the commit -/
theorem kmerged_post_base (c : KCtx H t a b tA tB DA DB) (h : commitSecondK H a b = some M) {o : Oid}
    {s0 : Tag × List Int} (h0 : AMap.get H.post o = some s0) :
    ∃ sa sb s, AMap.get a.heap.post o = some sa ∧ AMap.get b.heap.post o = some sb ∧ AMap.get M.post o = some s ∧
      mergeObj resolvePosting (dirty a.writes (.post o)) (dirty b.writes (.post o)) s0 sa sb = some s ∧
      (dirty a.writes (.post o) = false → sa = s0) ∧ (dirty b.writes (.post o) = false → sb = s0) := by
  obtain ⟨_, _, _, h4, _⟩ := commitSecondK_some h
  obtain ⟨sa, hsa⟩ := Option.isSome_iff_exists.mp (c.gA.s.base_keep o (by simp [h0]))
  obtain ⟨sb, hsb⟩ := Option.isSome_iff_exists.mp (c.gB.s.base_keep o (by simp [h0]))
  have hsp := mergePostsK_spec h4 o
  simp only [hsb, h0, hsa, Option.getD_some] at hsp
  obtain ⟨s, hs, hm⟩ := hsp
  refine ⟨sa, sb, s, hsa, hsb, hs, hm, ?_, ?_⟩
  · intro e; have := c.gA.f.clean_post o e (by simp [h0]); rw [hsa, h0] at this; exact Option.some.inj this
  · intro e; have := c.gB.f.clean_post o e (by simp [h0]); rw [hsb, h0] at this; exact Option.some.inj this

theorem kmerged_post_a (c : KCtx H t a b tA tB DA DB) (h : commitSecondK H a b = some M) {o : Oid}
    (ho : o.1 = a.me) : AMap.get M.post o = AMap.get a.heap.post o := by
  obtain ⟨_, _, _, h4, _⟩ := commitSecondK_some h
  have hsp := mergePostsK_spec h4 o
  have hb : AMap.get b.heap.post o = none := by
    rcases opt_cases' (AMap.get b.heap.post o) with e | ⟨sb, e⟩
    · exact e
    · rcases c.gB.f.fresh_owner o (by simp [e]) with h1 | h1
      · exact absurd ho (c.gA.s.base_owner o h1)
      · exact absurd (ho.symm.trans h1) c.owners
  simpa only [hb] using hsp

theorem kmerged_post_b (c : KCtx H t a b tA tB DA DB) (h : commitSecondK H a b = some M) {o : Oid}
    (ho : o.1 = b.me) {sb : Tag × List Int} (hb : AMap.get b.heap.post o = some sb) :
    AMap.get M.post o = some sb := by
  obtain ⟨_, _, _, h4, _⟩ := commitSecondK_some h
  have hsp := mergePostsK_spec h4 o
  have h0 : AMap.get H.post o = none := by
    rcases opt_cases' (AMap.get H.post o) with e | ⟨s0, e⟩
    · exact e
    · exact absurd ho (c.gB.s.base_owner o (by simp [e]))
  simpa only [hb, h0] using hsp

end
end Hyp.CIdx
