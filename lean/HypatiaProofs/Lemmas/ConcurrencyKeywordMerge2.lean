import HypatiaProofs.Lemmas.ConcurrencyKeywordMerge

/-!
Object-level keyword index (C19): keyword by keyword analysis of the merged heap
(`kmerged_posting`) and the refinement invariant of the merged heap (`kmerged_inv`).
-/
set_option linter.unusedSectionVars false
set_option linter.unusedSimpArgs false
set_option linter.unusedVariables false
namespace Hyp.CIdx
open Hyp Hyp.Keyword Hyp.Keyword.Spec

variable {K : Type} [DecidableEq K]
variable {H : KHeap K} {t : Table K} {a b : KTx K} {tA tB : Table K} {DA DB : List Int} {M : KHeap K}

theorem kws_congr {r r' : AMap Int (List K)} {d : Int} (e : AMap.get r d = AMap.get r' d) : kws r d = kws r' d := by
  unfold kws; rw [e]

/-- what the merged heap holds under one keyword -/
structure KPostingOK (H : KHeap K) (a b : KTx K) (DB : List Int) (M : KHeap K) (k : K) : Prop where
  mem : ∀ d, d ∈ M.posting k ↔ if d ∈ DB then d ∈ b.heap.posting k else d ∈ a.heap.posting k
  ok : ∀ o, AMap.get M.fwd k = some o → ∃ p, AMap.get M.post o = some p ∧ p.2 ≠ [] ∧ p.2.Nodup
  prov : ∀ o, AMap.get M.fwd k = some o →
    AMap.get H.fwd k = some o ∨ (o.1 = a.me ∧ AMap.get a.heap.fwd k = some o) ∨
      (o.1 = b.me ∧ AMap.get b.heap.fwd k = some o)

theorem kmerged_posting (c : KCtx H t a b tA tB DA DB) (h : commitSecondK H a b = some M) (k : K) :
    KPostingOK H a b DB M k := by
  have hm := kmerged_fwd c h k
  by_cases ea : AMap.get a.heap.fwd k = AMap.get H.fwd k <;>
  by_cases eb : AMap.get b.heap.fwd k = AMap.get H.fwd k
  · -- both still refer to the snapshot's object
    have hM : AMap.get M.fwd k = AMap.get H.fwd k := by
      rcases mergeVal_some hm with ⟨_, e⟩ | ⟨_, e⟩
      · rw [e, eb]
      · rw [e, ea]
    rcases opt_cases' (AMap.get H.fwd k) with e0 | ⟨o, e0⟩
    · rw [e0] at ea eb hM
      refine ⟨?_, ?_, ?_⟩
      · intro d; rw [kposting_none hM, kposting_none ea, kposting_none eb]; simp
      · intro o ho; rw [hM] at ho; cases ho
      · intro o ho; rw [hM] at ho; cases ho
    · rw [e0] at ea eb hM
      obtain ⟨s0, h0, _, _⟩ := kposting_ok c.iH e0
      obtain ⟨sa, sb, s, hsa, hsb, hs, hmo, hca, hcb⟩ := kmerged_post_base c h h0
      obtain ⟨m1, m2, m3, m4, m5⟩ := mergeObj_posting_spec hmo hca hcb
      obtain ⟨sa', hsa', nea, nda⟩ := kposting_ok c.iA ea
      obtain ⟨sb', hsb', neb, ndb⟩ := kposting_ok c.iB eb
      rw [hsa] at hsa'; cases hsa'
      rw [hsb] at hsb'; cases hsb'
      have ma : ∀ d, d ∉ DA → (d ∈ sa.2 ↔ d ∈ s0.2) := by
        intro d hd
        have := c.gA.f.post_live k o e0 ea d hd
        simpa [kmem, hsa, h0] using this
      have mb : ∀ d, d ∉ DB → (d ∈ sb.2 ↔ d ∈ s0.2) := by
        intro d hd
        have := c.gB.f.post_live k o e0 eb d hd
        simpa [kmem, hsb, h0] using this
      refine ⟨?_, ?_, ?_⟩
      · intro d
        rw [kposting_some hM hs, kposting_some ea hsa, kposting_some eb hsb]
        have := m1 d
        by_cases hd : d ∈ DB
        · simp only [hd, if_true]
          have hda := ma d (fun e => c.disj d e hd)
          rcases mergeMem_some this with ⟨_, e⟩ | ⟨e1, e⟩
          · simpa using e
          · have e1' : d ∈ sb.2 ↔ d ∈ s0.2 := by simpa using e1
            have e' : d ∈ s.2 ↔ d ∈ sa.2 := by simpa using e
            rw [e', hda, e1']
        · simp only [hd, if_false]
          have hdb := mb d hd
          rcases mergeMem_some this with ⟨e1, e⟩ | ⟨_, e⟩
          · have e1' : d ∈ sa.2 ↔ d ∈ s0.2 := by simpa using e1
            have e' : d ∈ s.2 ↔ d ∈ sb.2 := by simpa using e
            rw [e', hdb, e1']
          · simpa using e
      · intro o' ho'; rw [hM] at ho'; cases ho'
        refine ⟨s, hs, ?_, m2 nda ndb⟩
        cases hdb : dirty b.writes (.post o) with
        | false => rw [m4 hdb]; exact nea
        | true =>
          cases hda : dirty a.writes (.post o) with
          | false => rw [m5 hdb hda]; exact neb
          | true => exact (m3 hda hdb).2.2
      · intro o' ho'; rw [hM] at ho'; exact Or.inl (e0.trans ho')
  · -- `b` changed the key: a new object of `b`, or none
    have hM : AMap.get M.fwd k = AMap.get b.heap.fwd k := by
      rcases mergeVal_some hm with ⟨_, e⟩ | ⟨e1, _⟩
      · exact e
      · exact absurd e1 eb
    have hfresh : ∀ q, AMap.get b.heap.fwd k = some q → q.1 = b.me :=
      fun q hq => c.gB.f.fresh_ref k q hq (fun e => eb (hq.trans e.symm))
    have hAH : a.heap.posting k = H.posting k := by
      rcases opt_cases' (AMap.get H.fwd k) with e0 | ⟨o, e0⟩
      · rw [e0] at ea; rw [kposting_none ea, kposting_none e0]
      · rw [e0] at ea
        obtain ⟨s0, h0, ne0, _⟩ := kposting_ok c.iH e0
        obtain ⟨sa, sb, s, hsa, hsb, hs, hmo, hca, hcb⟩ := kmerged_post_base c h h0
        rcases c.gB.s.repl k o e0 with l | ⟨⟨tg, r1⟩, r2, _⟩
        · exact absurd (l.trans e0.symm) eb
        · rw [hsb] at r1; cases r1
          have hda : dirty a.writes (.post o) = false := by
            cases hda : dirty a.writes (.post o) with
            | false => rfl
            | true =>
              rw [hda, r2] at hmo
              simp [mergeObj, resolvePosting_new_empty] at hmo
          rw [kposting_some ea hsa, kposting_some e0 h0, hca hda]
    have hMb : M.posting k = b.heap.posting k := by
      rcases opt_cases' (AMap.get b.heap.fwd k) with e1 | ⟨q, e1⟩
      · rw [e1] at hM; rw [kposting_none hM, kposting_none e1]
      · rw [e1] at hM
        obtain ⟨sq, hsq, _, _⟩ := kposting_ok c.iB e1
        rw [kposting_some hM (kmerged_post_b c h (hfresh q e1) hsq), kposting_some e1 hsq]
    refine ⟨?_, ?_, ?_⟩
    · intro d
      rw [hMb]
      by_cases hd : d ∈ DB
      · simp [hd]
      · simp only [hd, if_false]
        rw [hAH, kposting_mem_iff c.iB, kposting_mem_iff c.iH, kws_congr (c.gB.f.rev_out d hd)]
    · intro o ho; rw [hM] at ho
      obtain ⟨sq, hsq, ne, nd⟩ := kposting_ok c.iB ho
      exact ⟨sq, kmerged_post_b c h (hfresh o ho) hsq, ne, nd⟩
    · intro o ho; rw [hM] at ho; exact Or.inr (Or.inr ⟨hfresh o ho, ho⟩)
  · -- `a` changed the key
    have hM : AMap.get M.fwd k = AMap.get a.heap.fwd k := by
      rcases mergeVal_some hm with ⟨e1, _⟩ | ⟨_, e⟩
      · exact absurd e1 ea
      · exact e
    have hfresh : ∀ q, AMap.get a.heap.fwd k = some q → q.1 = a.me :=
      fun q hq => c.gA.f.fresh_ref k q hq (fun e => ea (hq.trans e.symm))
    have hBH : b.heap.posting k = H.posting k := by
      rcases opt_cases' (AMap.get H.fwd k) with e0 | ⟨o, e0⟩
      · rw [e0] at eb; rw [kposting_none eb, kposting_none e0]
      · rw [e0] at eb
        obtain ⟨s0, h0, ne0, _⟩ := kposting_ok c.iH e0
        obtain ⟨sa, sb, s, hsa, hsb, hs, hmo, hca, hcb⟩ := kmerged_post_base c h h0
        rcases c.gA.s.repl k o e0 with l | ⟨⟨tg, r1⟩, r2, _⟩
        · exact absurd (l.trans e0.symm) ea
        · rw [hsa] at r1; cases r1
          have hdb : dirty b.writes (.post o) = false := by
            cases hdb : dirty b.writes (.post o) with
            | false => rfl
            | true =>
              rw [hdb, r2] at hmo
              simp [mergeObj, resolvePosting_com_empty] at hmo
          rw [kposting_some eb hsb, kposting_some e0 h0, hcb hdb]
    have hMa : M.posting k = a.heap.posting k := by
      rcases opt_cases' (AMap.get a.heap.fwd k) with e1 | ⟨q, e1⟩
      · rw [e1] at hM; rw [kposting_none hM, kposting_none e1]
      · rw [e1] at hM
        unfold KHeap.posting; rw [hM, e1]; simp only
        rw [kmerged_post_a c h (hfresh q e1)]
    refine ⟨?_, ?_, ?_⟩
    · intro d
      rw [hMa]
      by_cases hd : d ∈ DB
      · simp only [hd, if_true]
        rw [hBH, kposting_mem_iff c.iA, kposting_mem_iff c.iH,
          kws_congr (c.gA.f.rev_out d (fun e => c.disj d e hd))]
      · simp [hd]
    · intro o ho; rw [hM] at ho
      obtain ⟨sq, hsq, ne, nd⟩ := kposting_ok c.iA ho
      exact ⟨sq, by rw [kmerged_post_a c h (hfresh o ho)]; exact hsq, ne, nd⟩
    · intro o ho; rw [hM] at ho; exact Or.inr (Or.inl ⟨hfresh o ho, ho⟩)
  · -- both changed the key: the bucket merge refuses
    rcases mergeVal_some hm with ⟨e1, _⟩ | ⟨e1, _⟩
    · exact absurd e1 ea
    · exact absurd e1 eb

theorem kmerged_len (c : KCtx H t a b tA tB DA DB) (h : commitSecondK H a b = some M) (hwf : AMap.WF M.rev) :
    M.len = M.rev.length := by
  obtain ⟨_, _, _, _, hl⟩ := commitSecondK_some h
  have ha : a.heap.len = a.heap.rev.length := c.iA.inv.num
  have hb : b.heap.len = b.heap.rev.length := c.iB.inv.num
  have h0 : H.len = H.rev.length := c.iH.inv.num
  let U := Keyword.dedup (AMap.keys M.rev ++ AMap.keys a.heap.rev ++ AMap.keys b.heap.rev ++ AMap.keys H.rev)
  have hU : U.Nodup := Keyword.nodup_dedup _
  have hin : ∀ (m : AMap Int (List K)), (∀ k ∈ AMap.keys m, k ∈ AMap.keys M.rev ++ AMap.keys a.heap.rev ++
      AMap.keys b.heap.rev ++ AMap.keys H.rev) → ∀ k ∈ AMap.keys m, k ∈ U :=
    fun m hm k hk => (Keyword.mem_dedup _ _).mpr (hm k hk)
  have eM := length_eq_countP hwf hU (hin M.rev (fun k hk => by simp [hk]))
  have eA : a.heap.rev.length = U.countP (fun k => (AMap.get a.heap.rev k).isSome) :=
    length_eq_countP c.iA.inv.wf_rev hU (hin a.heap.rev (fun k hk => by simp [hk]))
  have eB : b.heap.rev.length = U.countP (fun k => (AMap.get b.heap.rev k).isSome) :=
    length_eq_countP c.iB.inv.wf_rev hU (hin b.heap.rev (fun k hk => by simp [hk]))
  have eH : H.rev.length = U.countP (fun k => (AMap.get H.rev k).isSome) :=
    length_eq_countP c.iH.inv.wf_rev hU (hin H.rev (fun k hk => by simp [hk]))
  have key := countP_four U (fun k => (AMap.get M.rev k).isSome) (fun k => (AMap.get H.rev k).isSome)
    (fun k => (AMap.get a.heap.rev k).isSome) (fun k => (AMap.get b.heap.rev k).isSome) (by
      intro d _
      have hm := kmerged_rev c h d
      by_cases hd : d ∈ DB
      · simp only [hd, if_true] at hm
        have : AMap.get a.heap.rev d = AMap.get H.rev d := c.gA.f.rev_out d (fun e => c.disj d e hd)
        rw [hm, this]; omega
      · simp only [hd, if_false] at hm
        have : AMap.get b.heap.rev d = AMap.get H.rev d := c.gB.f.rev_out d hd
        rw [hm, this])
  rw [hl, ha, hb, h0, eM, eA, eB, eH]
  omega

/-- **the merged heap represents the merged table** -/
theorem kmerged_inv (c : KCtx H t a b tA tB DA DB) (h : commitSecondK H a b = some M) {tAB : Table K}
    (ht : ∀ d, AMap.get tAB d = if d ∈ DB then AMap.get tB d else AMap.get tA d) : KOInv M tAB := by
  obtain ⟨h1, h2, h3, _, _⟩ := commitSecondK_some h
  have wfRev : AMap.WF M.rev :=
    (mergeObj_map_spec h2 (fun e => c.gA.f.clean_rev e) (fun e => c.gB.f.clean_rev e)).2.1
      c.iA.inv.wf_rev c.iB.inv.wf_rev
  have wfFwd : AMap.WF M.fwd :=
    (mergeObj_map_spec h1 (fun e => c.gA.f.clean_fwd e) (fun e => c.gB.f.clean_fwd e)).2.1
      c.iA.wf.wf_fwd c.iB.wf.wf_fwd
  have ndNi : M.ni.Nodup :=
    (mergeObj_set_spec h3 (fun e => c.gA.f.clean_ni e) (fun e => c.gB.f.clean_ni e)).2.1
      c.iA.inv.nd_ni c.iB.inv.nd_ni
  have hkw : ∀ d, kwOf tAB d = if d ∈ DB then kwOf tB d else kwOf tA d := by
    intro d; unfold kwOf; rw [ht]; by_cases hd : d ∈ DB <;> simp [hd]
  have hkws : ∀ d, kws M.rev d = if d ∈ DB then kws b.heap.rev d else kws a.heap.rev d := by
    intro d; unfold kws; rw [kmerged_rev c h d]; by_cases hd : d ∈ DB <;> simp [hd]
  have viewSome : ∀ k st, AMap.get (pview M).fwd k = some st →
      ∃ o p, AMap.get M.fwd k = some o ∧ AMap.get M.post o = some p ∧ p.2 = st := by
    intro k st hv
    rw [get_pview_fwd] at hv
    rcases opt_cases' (AMap.get M.fwd k) with e | ⟨o, e⟩
    · rw [e] at hv; simp at hv
    · rw [e] at hv
      obtain ⟨p, hp, _, _⟩ := (kmerged_posting c h k).ok o e
      simp [kmem, hp] at hv
      exact ⟨o, p, e, hp, hv⟩
  refine ⟨⟨⟨?_, ?_, ?_, ?_, ?_, ⟨?_, ?_, ?_⟩, wfRev, ndNi⟩, ?_⟩, ⟨?_, ?_, wfFwd⟩⟩
  · intro d k
    show k ∈ kws M.rev d ↔ _
    rw [hkws, hkw]; split
    · exact c.iB.inv.rev_mem d k
    · exact c.iA.inv.rev_mem d k
  · intro d l hl
    have hl' : AMap.get M.rev d = some l := hl
    rw [kmerged_rev c h d] at hl'
    split at hl'
    · exact c.iB.inv.rev_ne d l hl'
    · exact c.iA.inv.rev_ne d l hl'
  · intro d l hl
    have hl' : AMap.get M.rev d = some l := hl
    rw [kmerged_rev c h d] at hl'
    split at hl'
    · exact c.iB.inv.rev_nd d l hl'
    · exact c.iA.inv.rev_nd d l hl'
  · intro d
    show d ∈ M.ni ↔ _
    rw [kmerged_ni c h d, ht]; split
    · exact c.iB.inv.ni_eq d
    · exact c.iA.inv.ni_eq d
  · intro k d
    rw [← kposting_eq, (kmerged_posting c h k).mem d]
    show _ ↔ k ∈ kws M.rev d
    rw [hkws]; split
    · exact kposting_mem_iff c.iB k d
    · exact kposting_mem_iff c.iA k d
  · show AMap.WF (M.fwd.map _); unfold AMap.WF
    rw [keys_mapVal (kmem M) M.fwd]; exact wfFwd
  · intro k st hv
    obtain ⟨o, p, e, hp, hst⟩ := viewSome k st hv
    obtain ⟨p', hp', ne, _⟩ := (kmerged_posting c h k).ok o e
    rw [hp] at hp'; cases hp'; rw [← hst]; exact ne
  · intro k st hv
    obtain ⟨o, p, e, hp, hst⟩ := viewSome k st hv
    obtain ⟨p', hp', _, nd⟩ := (kmerged_posting c h k).ok o e
    rw [hp] at hp'; cases hp'; rw [← hst]; exact nd
  · exact kmerged_len c h wfRev
  · intro k o e
    obtain ⟨p, hp, _, _⟩ := (kmerged_posting c h k).ok o e
    simp [hp]
  · intro k k' o e e'
    have ownA : ∀ k o, AMap.get H.fwd k = some o → o.1 ≠ a.me :=
      fun k o e => c.gA.s.base_owner o (c.iH.wf.refs k o e)
    have ownB : ∀ k o, AMap.get H.fwd k = some o → o.1 ≠ b.me :=
      fun k o e => c.gB.s.base_owner o (c.iH.wf.refs k o e)
    rcases (kmerged_posting c h k).prov o e with p | ⟨p1, p⟩ | ⟨p1, p⟩ <;>
    rcases (kmerged_posting c h k').prov o e' with q | ⟨q1, q⟩ | ⟨q1, q⟩
    · exact c.iH.wf.inj k k' o p q
    · exact absurd q1 (ownA k o p)
    · exact absurd q1 (ownB k o p)
    · exact absurd p1 (ownA k' o q)
    · exact c.iA.wf.inj k k' o p q
    · exact absurd (p1.symm.trans q1) c.owners
    · exact absurd p1 (ownB k' o q)
    · exact absurd (q1.symm.trans p1) c.owners
    · exact c.iB.wf.inj k k' o p q

end Hyp.CIdx
