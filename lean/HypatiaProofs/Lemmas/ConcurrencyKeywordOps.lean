import HypatiaProofs.Lemmas.ConcurrencyKeyword

/-!
Object-level keyword index (C19): `KS` is preserved by every operation of the repaired code
(`clearReplaced = true`), hence by every transaction; the replaced-object theorem.
-/
set_option linter.unusedSectionVars false
set_option linter.unusedSimpArgs false
set_option linter.unusedVariables false
namespace Hyp.CIdx
open Hyp Hyp.Keyword

variable {K : Type} [DecidableEq K]

/-- `idx[word] = TreeSet(word_idx); word_idx.clear()`: the replaced object is left empty -/
theorem ks_replace {H : KHeap K} {x : KTx K} (h : KS H x) {w : K} {o q : Oid} (t : Tag)
    (hr : AMap.get x.heap.fwd w = some o) (hq : ∀ k, AMap.get x.heap.fwd k ≠ some q)
    (hs : (AMap.get x.heap.post q).isSome) (hme : q.1 = x.me) :
    KS H ((x.fwdSet w q).postClear o t) where
  refs := by
    intro k o' e
    have e' : AMap.get (AMap.set x.heap.fwd w q) k = some o' := e
    show (AMap.get (AMap.set x.heap.post o (t, [])) o').isSome
    rw [AMap.get_set] at e' ⊢
    by_cases eo : o = o'
    · simp [eo]
    · simp only [eo, if_false]
      by_cases ek : w = k
      · simp only [ek, if_true] at e'; cases e'; exact hs
      · simp only [ek, if_false] at e'; exact h.refs k o' e'
  inj := by
    intro k k' o' e1 e2
    have e1' : AMap.get (AMap.set x.heap.fwd w q) k = some o' := e1
    have e2' : AMap.get (AMap.set x.heap.fwd w q) k' = some o' := e2
    rw [AMap.get_set] at e1' e2'
    by_cases ek : w = k <;> by_cases ek' : w = k'
    · rw [← ek, ← ek']
    · subst ek; simp only [ek', if_true, if_false] at e1' e2'; cases e1'; exact absurd e2' (hq k')
    · subst ek'; simp only [ek, if_true, if_false] at e1' e2'; cases e2'; exact absurd e1' (hq k)
    · simp only [ek, ek', if_false] at e1' e2'; exact h.inj k k' o' e1' e2'
  alloc := by
    intro o' e
    have e' : (AMap.get (AMap.set x.heap.post o (t, [])) o').isSome := e
    rw [AMap.get_set] at e'
    by_cases eo : o = o'
    · subst eo; exact h.alloc o (h.refs w o hr)
    · simp only [eo, if_false] at e'; exact h.alloc o' e'
  base_owner := h.base_owner
  base_keep := by
    intro o' e
    show (AMap.get (AMap.set x.heap.post o (t, [])) o').isSome
    rw [AMap.get_set]; split
    · rfl
    · exact h.base_keep o' e
  base_refs := h.base_refs
  wf_fwd := AMap.WF_set h.wf_fwd w q
  repl := by
    intro k ob e
    have hqb : q ≠ ob := fun eq => h.base_owner ob (h.base_refs k ob e) (eq ▸ hme)
    have hqo : q ≠ o := fun eq => hq w (eq ▸ hr)
    -- after the replacement nobody refers to `o`
    have hun : ∀ k', AMap.get (AMap.set x.heap.fwd w q) k' ≠ some o := by
      intro k'; rw [AMap.get_set]
      by_cases ek : w = k'
      · simp only [ek, if_true]; intro e'; cases e'; exact hqo rfl
      · simp only [ek, if_false]; intro e'; exact ek (h.inj w k' o hr e')
    show AMap.get (AMap.set x.heap.fwd w q) k = some ob ∨
      ((∃ t', AMap.get (AMap.set x.heap.post o (t, [])) ob = some (t', [])) ∧ _ ∧
        ∀ k', AMap.get (AMap.set x.heap.fwd w q) k' ≠ some ob)
    rcases h.repl k ob e with l | ⟨⟨t', r1⟩, r2, r3⟩
    · by_cases ek : w = k
      · subst ek
        rw [hr] at l; cases l
        exact Or.inr ⟨⟨t, by rw [AMap.get_set]; simp⟩,
          by simp [KTx.postClear, KTx.fwdSet, dirtyK_cons, Loc.obj], hun⟩
      · left; rw [AMap.get_set]; simp only [ek, if_false]; exact l
    · right
      have hne : o ≠ ob := fun eo => r3 w (eo ▸ hr)
      refine ⟨⟨t', by rw [AMap.get_set]; simp only [hne, if_false]; exact r1⟩,
        by simp [KTx.postClear, KTx.fwdSet, dirtyK_cons, r2], ?_⟩
      intro k'
      rw [AMap.get_set]; split
      · intro e'; cases e'; exact hqb rfl
      · exact r3 k'

theorem ks_unpostOne {H : KHeap K} {x : KTx K} (h : KS H x) (d : Int) {w : K} {o : Oid}
    (hf : AMap.get x.heap.fwd w = some o) : KS H (KTx.unpostOne x d w o) := by
  unfold KTx.unpostOne
  simp only
  have h2 : KS H ((x.postPut o d ((x.obj o).1, LSet.remove (x.obj o).2 d)).rd (.whole o)) :=
    ks_rd (ks_postPut h hf d _) _
  by_cases he : LSet.remove (x.obj o).2 d = []
  · simp only [he, if_true]
    rw [he] at h2
    exact ks_fwdErase (t := (x.obj o).1) h2 hf (by simp [KTx.postPut, KTx.rd, AMap.get_set])
      (by simp [KTx.postPut, KTx.rd, dirtyK_cons, Loc.obj])
  · simp only [he, if_false]; exact h2

theorem ks_unpostAll {H : KHeap K} (d : Int) : ∀ (ws : List K) (x : KTx K), KS H x →
    KS H (KTx.unpostAll x d ws).1 := by
  intro ws
  induction ws with
  | nil => intro x h; exact h
  | cons w ws ih =>
    intro x h
    unfold KTx.unpostAll
    simp only
    have e0 : (x.rd (.fwd w)).heap.fwd = x.heap.fwd := rfl
    rcases opt_cases' (AMap.get x.heap.fwd w) with hf | ⟨o, hf⟩
    · simp only [e0, hf]; exact ks_rd h _
    · simp only [e0, hf]
      split
      · exact ih _ (ks_unpostOne (ks_rd (ks_rd h _) _) d hf)
      · exact ks_rd (ks_rd h _) _

theorem ks_unindexDoc {H : KHeap K} {x : KTx K} (h : KS H x) (d : Int) : KS H (x.unindexDoc d) := by
  unfold KTx.unindexDoc
  simp only
  have h1 : KS H ((if d ∈ (x.rd (.ni d)).heap.ni then (x.rd (.ni d)).niRemove d else x.rd (.ni d)).rd (.rev d)) := by
    apply ks_rd; split
    · exact ks_niRemove (ks_rd h _) d
    · exact ks_rd h _
  generalize ((if d ∈ (x.rd (.ni d)).heap.ni then (x.rd (.ni d)).niRemove d else x.rd (.ni d)).rd (.rev d)) = x1 at h1 ⊢
  split
  · exact h1
  · next kws _ =>
    have := ks_unpostAll d kws x1 h1
    split
    · exact ks_lenChange (ks_revErase this d) _
    · exact this

theorem ks_postingFor {H : KHeap K} {x : KTx K} (h : KS H x) (w : K) :
    KS H (KTx.postingFor x w).1 ∧ AMap.get (KTx.postingFor x w).1.heap.fwd w = some (KTx.postingFor x w).2 := by
  unfold KTx.postingFor
  rcases opt_cases' (AMap.get x.heap.fwd w) with hf | ⟨o, hf⟩
  · simp only [hf]
    obtain ⟨a1, a2, a3, a4, a5, a6, a7⟩ := ks_alloc h (Tag.set, [])
    refine ⟨?_, by simp [KTx.fwdSet, AMap.get_set]⟩
    rw [a2]
    exact ks_fwdSet_new a1 (by rw [a3]; exact hf) (by rw [a3]; exact a6) (by rw [a5]; rfl) (by rw [a4])
  · simp only [hf]; exact ⟨h, trivial⟩

theorem ks_promote {H : KHeap K} (c : KCfg) (hc : c.clearReplaced = true) {x : KTx K} (h : KS H x)
    {w : K} {o : Oid} (hr : AMap.get x.heap.fwd w = some o) (p : Tag × List Int) (s' : List Int) :
    KS H (KTx.promote c x w o p s') := by
  unfold KTx.promote
  split
  · obtain ⟨a1, a2, a3, a4, a5, a6, a7⟩ := ks_alloc h (Tag.tree, s')
    simp only [hc, if_true]
    rw [a2]
    exact ks_replace a1 _ (by rw [a3]; exact hr) (by rw [a3]; exact a6) (by rw [a5]; rfl) (by rw [a4])
  · exact h

theorem ks_insertOne {H : KHeap K} (c : KCfg) (hc : c.clearReplaced = true) {x : KTx K} (h : KS H x)
    (d : Int) (w : K) : KS H (KTx.insertOne c x d w) := by
  unfold KTx.insertOne
  simp only
  obtain ⟨k2, f2⟩ := ks_postingFor (ks_rd h (.fwd w)) w
  generalize KTx.postingFor (x.rd (.fwd w)) w = r at k2 f2 ⊢
  apply ks_promote c hc
  · apply ks_rd; split
    · exact ks_rd k2 _
    · exact ks_postPut (ks_rd k2 _) f2 d _
  · show AMap.get (if d ∈ (r.1.obj r.2).2 then r.1.rd (.post r.2 d)
        else (r.1.rd (.post r.2 d)).postPut r.2 d ((r.1.obj r.2).1, LSet.insert (r.1.obj r.2).2 d)).heap.fwd w = _
    split <;> exact f2

theorem ks_insertForward {H : KHeap K} (c : KCfg) (hc : c.clearReplaced = true) (d : Int) :
    ∀ (ws : List K) (x : KTx K), KS H x → KS H (KTx.insertForward c x d ws) := by
  intro ws
  induction ws with
  | nil => intro x h; exact h
  | cons w ws ih => intro x h; exact ih _ (ks_insertOne c hc h d w)

theorem ks_insertReverse {H : KHeap K} {x : KTx K} (h : KS H x) (d : Int) (ws : List K) :
    KS H (x.insertReverse d ws) := by
  unfold KTx.insertReverse; split
  · exact h
  · exact ks_revSet h d ws

theorem ks_indexDoc {H : KHeap K} (c : KCfg) (hc : c.clearReplaced = true) {x : KTx K} (h : KS H x)
    (d : Int) (v : Option (List K)) : KS H (KTx.indexDoc c x d v) := by
  unfold KTx.indexDoc
  cases v with
  | none =>
    simp only; split
    · exact ks_rd h _
    · exact ks_niAdd (ks_unindexDoc (ks_rd h _) d) d
  | some seq =>
    simp only
    have h1 : KS H ((if d ∈ (x.rd (.ni d)).heap.ni then (x.rd (.ni d)).niRemove d else x.rd (.ni d)).rd (.rev d)) := by
      apply ks_rd; split
      · exact ks_niRemove (ks_rd h _) d
      · exact ks_rd h _
    generalize ((if d ∈ (x.rd (.ni d)).heap.ni then (x.rd (.ni d)).niRemove d else x.rd (.ni d)).rd (.rev d)) = x1 at h1 ⊢
    split
    · split
      · exact ks_unindexDoc h1 d
      · exact h1
    · split
      · exact ks_lenChange (ks_insertReverse (ks_insertForward c hc d _ _ h1) d _) 1
      · split
        · exact h1
        · split
          · exact ks_insertReverse (ks_insertForward c hc d _ _ (ks_unpostAll d _ x1 h1)) d _
          · exact ks_unpostAll d _ x1 h1

theorem ks_run {H : KHeap K} (c : KCfg) (hc : c.clearReplaced = true) :
    ∀ (ops : List (TOp (List K))) (x : KTx K), KS H x → KS H (KTx.run c x ops) := by
  intro ops
  induction ops with
  | nil => intro x h; exact h
  | cons op ops ih =>
    intro x h
    simp only [KTx.run, List.foldl_cons] at ih ⊢
    apply ih
    cases op with
    | index d v => exact ks_indexDoc c hc h d v
    | unindex d => exact ks_unindexDoc h d

/-- a posting-object entry of `b`'s heap that fails to merge makes the whole commit fail -/
theorem mergePostsK_none {base a : AMap Oid (Tag × List Int)} {wa wb : List (Loc K)} {o : Oid}
    {sb s0 : Tag × List Int} (h0 : AMap.get base o = some s0)
    (hm : mergeObj resolvePosting (dirty wa (.post o)) (dirty wb (.post o)) s0 ((AMap.get a o).getD s0) sb = none) :
    ∀ (bp : AMap Oid (Tag × List Int)), (o, sb) ∈ bp → mergePostsK base a wa wb bp = none := by
  intro bp
  induction bp with
  | nil => intro h; cases h
  | cons e rest ih =>
    intro hmem
    obtain ⟨o', sb'⟩ := e
    unfold mergePostsK
    rcases List.mem_cons.mp hmem with e | e
    · cases e
      simp only [h0, hm]
      cases mergePostsK base a wa wb rest <;> rfl
    · rw [ih e]

theorem commitSecondK_none_of_post {H : KHeap K} {a b : KTx K} {o : Oid} {sb s0 : Tag × List Int}
    (h0 : AMap.get H.post o = some s0) (hb : AMap.get b.heap.post o = some sb)
    (hm : mergeObj resolvePosting (dirty a.writes (.post o)) (dirty b.writes (.post o)) s0
      ((AMap.get a.heap.post o).getD s0) sb = none) : commitSecondK H a b = none := by
  unfold commitSecondK
  rw [mergePostsK_none h0 hm b.heap.post (AMap.mem_of_get hb)]
  split <;> simp_all

theorem resolvePosting_com_empty (s0 sb : Tag × List Int) (t : Tag) : resolvePosting s0 (t, []) sb = none := by
  simp [resolvePosting, resolveSet]

theorem resolvePosting_new_empty (s0 sa : Tag × List Int) (t : Tag) : resolvePosting s0 sa (t, []) = none := by
  simp [resolvePosting, resolveSet]

/-- a transaction of the repaired code: any forward key of the snapshot either still refers to
the snapshot's posting object, or that object is empty in the transaction's heap and registered -/
theorem run_repl {H : KHeap K} (hw : KWf H) (c : KCfg) (hc : c.clearReplaced = true) (me : Nat)
    (hown : ∀ o, (AMap.get H.post o).isSome → o.1 ≠ me) (ops : List (TOp (List K))) {k : K} {o : Oid}
    (h0 : AMap.get H.fwd k = some o)
    (hrep : AMap.get (KTx.run c (KTx.start H me) ops).heap.fwd k ≠ some o) :
    (∃ t, AMap.get (KTx.run c (KTx.start H me) ops).heap.post o = some (t, [])) ∧
    dirty (KTx.run c (KTx.start H me) ops).writes (.post o) = true := by
  rcases (ks_run c hc ops _ (ks_start hw me hown)).repl k o h0 with l | ⟨r1, r2, _⟩
  · exact absurd l hrep
  · exact ⟨r1, r2⟩

end Hyp.CIdx
