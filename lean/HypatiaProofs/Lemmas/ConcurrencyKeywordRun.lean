import HypatiaProofs.Lemmas.ConcurrencyKeywordSimOps
import HypatiaProofs.Lemmas.ConcurrencyFieldRun

/-!
Object-level keyword index (C19): a whole transaction – the C02 refinement invariant on the heap
with references resolved (`KOInv`) and the footprint (`KG`) after any list of calls.
-/
set_option linter.unusedSectionVars false
set_option linter.unusedSimpArgs false
set_option linter.unusedVariables false
namespace Hyp.CIdx
open Hyp Hyp.Keyword Hyp.Keyword.Spec

variable {K : Type} [DecidableEq K]

/-- the heap with references resolved and representation tags dropped: a `Keyword.Plain.State` -/
def pview (h : KHeap K) : Plain.State K :=
  { fwd := h.fwd.map (fun e => (e.1, kmem h e.2)), rev := h.rev, numDocs := h.len, notIndexed := h.ni }

theorem erase_view (h : KHeap K) (thr : Nat) : Keyword.erase (h.view thr) = pview h := by
  unfold Keyword.erase KHeap.view pview eraseFwd kmem
  simp [List.map_map, Function.comp_def]

theorem get_pview_fwd (h : KHeap K) (k : K) : AMap.get (pview h).fwd k = (AMap.get h.fwd k).map (kmem h) :=
  get_mapVal (kmem h) h.fwd k

theorem ksim_pview (h : KHeap K) : KSim h (pview h) := ⟨fun k => (get_pview_fwd h k).symm, rfl, rfl, rfl⟩

theorem kposting_eq (h : KHeap K) (k : K) : h.posting k = Plain.posting (pview h).fwd k := by
  unfold Plain.posting; rw [get_pview_fwd]; unfold KHeap.posting kmem
  cases AMap.get h.fwd k <;> rfl

/-- the invariant of C02 only looks at the forward map through `get` -/
theorem kinv_of_sim {h : KHeap K} {s : Plain.State K} {t : Table K} (hs : KSim h s) (hi : Keyword.Inv s t)
    (hw : AMap.WF h.fwd) : Keyword.Inv (pview h) t := by
  have hg : ∀ k, AMap.get (pview h).fwd k = AMap.get s.fwd k := fun k => by rw [get_pview_fwd, hs.fwd k]
  have hp : ∀ k, Plain.posting (pview h).fwd k = Plain.posting s.fwd k := fun k => by
    unfold Plain.posting; rw [hg]
  have hr : (pview h).rev = s.rev := hs.rev
  have hn : (pview h).notIndexed = s.notIndexed := hs.ni
  have hl : (pview h).numDocs = s.numDocs := hs.len
  refine ⟨⟨?_, ?_, ?_, ?_, ?_, ⟨?_, ?_, ?_⟩, ?_, ?_⟩, ?_⟩
  · rw [hr]; exact hi.rev_mem
  · rw [hr]; exact hi.rev_ne
  · rw [hr]; exact hi.rev_nd
  · rw [hn]; exact hi.ni_eq
  · intro k d; rw [hp, hr]; exact hi.fwd_eq k d
  · show AMap.WF (h.fwd.map _); unfold AMap.WF
    rw [keys_mapVal (kmem h) h.fwd]; exact hw
  · intro k st; rw [hg]; exact hi.fwd_ok.ne k st
  · intro k st; rw [hg]; exact hi.fwd_ok.nd k st
  · rw [hr]; exact hi.wf_rev
  · rw [hn]; exact hi.nd_ni
  · rw [hl, hr]; exact hi.num

/-- the object-level refinement invariant of the keyword index -/
structure KOInv (h : KHeap K) (t : Table K) : Prop where
  inv : Keyword.Inv (pview h) t
  wf : KWf h

def TOp.toKeyword : TOp (List K) → Keyword.Op K
  | .index d v => .index d v
  | .unindex d => .unindex d

def tableAfterK (t : Table K) (ops : List (TOp (List K))) : Table K :=
  ops.foldl (fun t op => stepT t op.toKeyword) t

theorem kgood_start {H : KHeap K} (hw : KWf H) (me : Nat)
    (hown : ∀ o, (AMap.get H.post o).isSome → o.1 ≠ me) : KGood H (KTx.start H me) (pview H) :=
  ⟨ksim_pview H, ks_start hw me hown⟩

theorem krun_good {H : KHeap K} {D : List Int} (c : KCfg) (hc : c.clearReplaced = true) :
    ∀ (ops : List (TOp (List K))) (x : KTx K) (s : Plain.State K) (t : Table K), KGood H x s →
      Keyword.Inv s t → KG H D x → (∀ op ∈ ops, op.doc ∈ D) →
      ∃ s', KGood H (KTx.run c x ops) s' ∧ Keyword.Inv s' (tableAfterK t ops) ∧ KG H D (KTx.run c x ops) := by
  intro ops
  induction ops with
  | nil => intro x s t hg hi hf _; exact ⟨s, hg, hi, hf⟩
  | cons op ops ih =>
    intro x s t hg hi hf hd
    have hd0 := hd op (by simp)
    simp only [KTx.run, tableAfterK, List.foldl_cons] at ih ⊢
    cases op with
    | index d v =>
      exact ih _ _ _ (kgood_indexDoc c hc hg d v) (indexDoc_inv hi d v) (kg_indexDoc c hc hf hd0 v)
        (fun o ho => hd o (List.mem_cons_of_mem _ ho))
    | unindex d =>
      exact ih _ _ _ (kgood_unindexDoc hg d) (unindexDoc_inv hi d) (kg_unindexDoc hf hd0)
        (fun o ho => hd o (List.mem_cons_of_mem _ ho))

theorem kwf_of_ks {H : KHeap K} {x : KTx K} (h : KS H x) : KWf x.heap := ⟨h.refs, h.inj, h.wf_fwd⟩

/-- **one transaction**: refinement invariant and footprint of its private heap -/
theorem krun_spec {H : KHeap K} {t : Table K} (hI : KOInv H t) (c : KCfg) (hc : c.clearReplaced = true)
    (me : Nat) (hown : ∀ o, (AMap.get H.post o).isSome → o.1 ≠ me) (ops : List (TOp (List K))) :
    KOInv (KTx.run c (KTx.start H me) ops).heap (tableAfterK t ops) ∧
    KG H (docsOf ops) (KTx.run c (KTx.start H me) ops) := by
  obtain ⟨s', hg, hi, hf⟩ := krun_good (D := docsOf ops) c hc ops (KTx.start H me) (pview H) t
    (kgood_start hI.wf me hown) hI.inv ⟨ks_start hI.wf me hown, kf_start H _ me⟩
    (fun op h => List.mem_map.mpr ⟨op, h, rfl⟩)
  exact ⟨⟨kinv_of_sim hg.sim hi hg.ks.wf_fwd, kwf_of_ks hg.ks⟩, hf⟩

/-! the identity of a transaction never changes -/

theorem unpostOne_me (x : KTx K) (d : Int) (w : K) (o : Oid) : (KTx.unpostOne x d w o).me = x.me := by
  unfold KTx.unpostOne; simp only; split <;> rfl

theorem unpostAll_me (d : Int) : ∀ (ws : List K) (x : KTx K), (KTx.unpostAll x d ws).1.me = x.me := by
  intro ws
  induction ws with
  | nil => intro x; rfl
  | cons w ws ih =>
    intro x
    unfold KTx.unpostAll
    simp only
    split
    · rfl
    · split
      · rw [ih, unpostOne_me]; rfl
      · rfl

theorem unindexDocK_me (x : KTx K) (d : Int) : (x.unindexDoc d).me = x.me := by
  unfold KTx.unindexDoc
  simp only
  have h1 : ((if d ∈ (x.rd (.ni d)).heap.ni then (x.rd (.ni d)).niRemove d else x.rd (.ni d)).rd (.rev d)).me = x.me := by
    split <;> rfl
  generalize ((if d ∈ (x.rd (.ni d)).heap.ni then (x.rd (.ni d)).niRemove d else x.rd (.ni d)).rd (.rev d)) = x1 at h1 ⊢
  split
  · exact h1
  · split
    · show (KTx.unpostAll x1 d _).1.me = _; rw [unpostAll_me]; exact h1
    · rw [unpostAll_me]; exact h1

theorem postingFor_me (x : KTx K) (w : K) : (KTx.postingFor x w).1.me = x.me := by
  unfold KTx.postingFor; split <;> rfl

theorem promote_me (c : KCfg) (x : KTx K) (w : K) (o : Oid) (p : Tag × List Int) (s' : List Int) :
    (KTx.promote c x w o p s').me = x.me := by
  unfold KTx.promote; split
  · simp only; split <;> rfl
  · rfl

theorem insertOne_me (c : KCfg) (x : KTx K) (d : Int) (w : K) : (KTx.insertOne c x d w).me = x.me := by
  unfold KTx.insertOne
  simp only
  rw [promote_me]
  have := postingFor_me (x.rd (.fwd w)) w
  generalize KTx.postingFor (x.rd (.fwd w)) w = r at this ⊢
  show (if d ∈ (r.1.obj r.2).2 then r.1.rd (.post r.2 d) else _).me = _
  split <;> exact this

theorem insertForward_me (c : KCfg) (d : Int) : ∀ (ws : List K) (x : KTx K),
    (KTx.insertForward c x d ws).me = x.me := by
  intro ws
  induction ws with
  | nil => intro x; rfl
  | cons w ws ih => intro x; unfold KTx.insertForward; rw [ih, insertOne_me]

theorem insertReverse_me (x : KTx K) (d : Int) (ws : List K) : (x.insertReverse d ws).me = x.me := by
  unfold KTx.insertReverse; split <;> rfl

theorem indexDocK_me (c : KCfg) (x : KTx K) (d : Int) (v : Option (List K)) :
    (KTx.indexDoc c x d v).me = x.me := by
  unfold KTx.indexDoc
  cases v with
  | none =>
    simp only; split
    · rfl
    · show ((x.rd (.ni d)).unindexDoc d).me = _
      exact unindexDocK_me _ d
  | some seq =>
    simp only
    have h1 : ((if d ∈ (x.rd (.ni d)).heap.ni then (x.rd (.ni d)).niRemove d else x.rd (.ni d)).rd (.rev d)).me = x.me := by
      split <;> rfl
    generalize ((if d ∈ (x.rd (.ni d)).heap.ni then (x.rd (.ni d)).niRemove d else x.rd (.ni d)).rd (.rev d)) = x1 at h1 ⊢
    split
    · split
      · rw [unindexDocK_me]; exact h1
      · exact h1
    · split
      · show ((KTx.insertForward c x1 d _).insertReverse d _).me = _
        rw [insertReverse_me, insertForward_me]; exact h1
      · split
        · exact h1
        · split
          · rw [insertReverse_me, insertForward_me, unpostAll_me]; exact h1
          · rw [unpostAll_me]; exact h1

theorem krun_me (c : KCfg) (ops : List (TOp (List K))) : ∀ (x : KTx K), (KTx.run c x ops).me = x.me := by
  induction ops with
  | nil => intro x; rfl
  | cons op ops ih =>
    intro x
    simp only [KTx.run, List.foldl_cons] at ih ⊢
    rw [ih]
    cases op with
    | index d v => exact indexDocK_me c x d v
    | unindex d => exact unindexDocK_me x d

end Hyp.CIdx
