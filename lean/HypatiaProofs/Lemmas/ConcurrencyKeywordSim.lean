import HypatiaProofs.Lemmas.ConcurrencyKeywordFrameOps
import HypatiaProofs.Lemmas.KeywordPlain

/-!
Object-level keyword index (C19): the operations on the heap of persistent objects simulate the
representation-erased C02 model (`Keyword.Plain`) on the heap with references resolved.
-/
set_option linter.unusedSectionVars false
set_option linter.unusedSimpArgs false
set_option linter.unusedVariables false
namespace Hyp.CIdx
open Hyp Hyp.Keyword

variable {K : Type} [DecidableEq K]

/-- the forward map with references resolved and tags dropped, up to order -/
def FSim (h : KHeap K) (f : Plain.Fwd K) : Prop := ∀ k, (AMap.get h.fwd k).map (kmem h) = AMap.get f k

/-- `x'` differs from `x` only under forward key `w` (and in objects only `w` refers to) -/
structure Upd (w : K) (x x' : KTx K) : Prop where
  fwd : ∀ k, k ≠ w → AMap.get x'.heap.fwd k = AMap.get x.heap.fwd k
  mem : ∀ k o, k ≠ w → AMap.get x.heap.fwd k = some o → kmem x'.heap o = kmem x.heap o
  rev : x'.heap.rev = x.heap.rev
  ni : x'.heap.ni = x.heap.ni
  len : x'.heap.len = x.heap.len

theorem Upd.refl (w : K) (x : KTx K) : Upd w x x := ⟨fun _ _ => rfl, fun _ _ _ _ => rfl, rfl, rfl, rfl⟩

theorem Upd.trans {w : K} {x y z : KTx K} (a : Upd w x y) (b : Upd w y z) : Upd w x z where
  fwd := fun k hk => (b.fwd k hk).trans (a.fwd k hk)
  mem := fun k o hk ho => (b.mem k o hk ((a.fwd k hk).trans ho)).trans (a.mem k o hk ho)
  rev := b.rev.trans a.rev
  ni := b.ni.trans a.ni
  len := b.len.trans a.len

theorem upd_rd (w : K) (x : KTx K) (l : Loc K) : Upd w x (x.rd l) := ⟨fun _ _ => rfl, fun _ _ _ _ => rfl, rfl, rfl, rfl⟩

theorem fsim_of_upd_set {x x' : KTx K} {f : Plain.Fwd K} {w : K} {o' : Oid} {s' : List Int}
    (hs : FSim x.heap f) (u : Upd w x x') (hw : AMap.get x'.heap.fwd w = some o')
    (hm : kmem x'.heap o' = s') : FSim x'.heap (AMap.set f w s') := by
  intro k
  rw [AMap.get_set]
  by_cases e : w = k
  · subst e; simp [hw, hm]
  · simp only [e, if_false]
    have e' : k ≠ w := fun h => e h.symm
    rw [u.fwd k e', ← hs k]
    rcases opt_cases' (AMap.get x.heap.fwd k) with h | ⟨o, h⟩
    · simp [h]
    · simp [h, u.mem k o e' h]

theorem fsim_of_upd_erase {x x' : KTx K} {f : Plain.Fwd K} {w : K}
    (hs : FSim x.heap f) (u : Upd w x x') (hw : AMap.get x'.heap.fwd w = none) :
    FSim x'.heap (AMap.erase f w) := by
  intro k
  rw [AMap.get_erase]
  by_cases e : w = k
  · subst e; simp [hw]
  · simp only [e, if_false]
    have e' : k ≠ w := fun h => e h.symm
    rw [u.fwd k e', ← hs k]
    rcases opt_cases' (AMap.get x.heap.fwd k) with h | ⟨o, h⟩
    · simp [h]
    · simp [h, u.mem k o e' h]

theorem kmem_postPut (x : KTx K) (o : Oid) (d : Int) (p : Tag × List Int) (o' : Oid) :
    kmem (x.postPut o d p).heap o' = if o = o' then p.2 else kmem x.heap o' := by
  unfold kmem KTx.postPut; simp only [AMap.get_set]; split <;> rfl

theorem upd_postPut {H : KHeap K} {x : KTx K} (hs : KS H x) {w : K} {o : Oid}
    (hr : AMap.get x.heap.fwd w = some o) (d : Int) (p : Tag × List Int) : Upd w x (x.postPut o d p) where
  fwd := fun _ _ => rfl
  mem := by
    intro k o' hk ho'
    rw [kmem_postPut]
    have : o ≠ o' := fun e => hk (hs.inj k w o' ho' (e ▸ hr))
    simp [this]
  rev := rfl
  ni := rfl
  len := rfl

theorem upd_unpostOne {H : KHeap K} {x : KTx K} (hs : KS H x) (d : Int) {w : K} {o : Oid}
    (hr : AMap.get x.heap.fwd w = some o) :
    Upd w x (KTx.unpostOne x d w o) ∧
    (if LSet.remove (kmem x.heap o) d = [] then AMap.get (KTx.unpostOne x d w o).heap.fwd w = none
     else AMap.get (KTx.unpostOne x d w o).heap.fwd w = some o ∧
          kmem (KTx.unpostOne x d w o).heap o = LSet.remove (kmem x.heap o) d) := by
  unfold KTx.unpostOne
  simp only
  have hobj : (x.obj o).2 = kmem x.heap o := rfl
  rw [hobj]
  have u1 : Upd w x ((x.postPut o d ((x.obj o).1, LSet.remove (kmem x.heap o) d)).rd (.whole o)) :=
    (upd_postPut hs hr d _).trans (upd_rd w _ _)
  by_cases he : LSet.remove (kmem x.heap o) d = []
  · simp only [he, if_true]
    refine ⟨⟨?_, ?_, rfl, rfl, rfl⟩, ?_⟩
    · intro k hk
      show AMap.get (AMap.erase x.heap.fwd w) k = _
      rw [AMap.get_erase]; simp [Ne.symm hk]
    · intro k o' hk ho'
      have := u1.mem k o' hk ho'
      rw [he] at this; exact this
    · show AMap.get (AMap.erase x.heap.fwd w) w = none
      rw [AMap.get_erase]; simp
  · simp only [he, if_false]
    refine ⟨u1, hr, ?_⟩
    show kmem (x.postPut o d _).heap o = _
    rw [kmem_postPut]; simp

theorem kmem_alloc_self (x : KTx K) (p : Tag × List Int) : kmem (x.alloc p).1.heap (x.me, x.next) = p.2 := by
  unfold kmem KTx.alloc; simp [AMap.get_set]

theorem kmem_alloc_ne (x : KTx K) (p : Tag × List Int) {o : Oid} (h : o ≠ (x.me, x.next)) :
    kmem (x.alloc p).1.heap o = kmem x.heap o := by
  unfold kmem KTx.alloc; simp [AMap.get_set, Ne.symm h]

/-- nobody refers to the object the allocator hands out next -/
theorem fresh_unref_k {H : KHeap K} {x : KTx K} (hs : KS H x) (k : K) :
    AMap.get x.heap.fwd k ≠ some (x.me, x.next) := (ks_alloc hs (Tag.set, [])).2.2.2.2.2.1 k

theorem upd_alloc {H : KHeap K} {x : KTx K} (hs : KS H x) (w : K) (p : Tag × List Int) :
    Upd w x (x.alloc p).1 where
  fwd := fun _ _ => rfl
  mem := by
    intro k o hk ho
    exact kmem_alloc_ne x p (fun e => fresh_unref_k hs k (e ▸ ho))
  rev := rfl
  ni := rfl
  len := rfl

theorem upd_fwdSet (x : KTx K) (w : K) (q : Oid) : Upd w x (x.fwdSet w q) where
  fwd := by
    intro k hk
    show AMap.get (AMap.set x.heap.fwd w q) k = _
    rw [AMap.get_set]; simp [Ne.symm hk]
  mem := fun _ _ _ _ => rfl
  rev := rfl
  ni := rfl
  len := rfl

theorem upd_postingFor {H : KHeap K} {x : KTx K} (hs : KS H x) (w : K) :
    Upd w x (KTx.postingFor x w).1 ∧
    kmem (KTx.postingFor x w).1.heap (KTx.postingFor x w).2 = ((AMap.get x.heap.fwd w).map (kmem x.heap)).getD [] := by
  unfold KTx.postingFor
  rcases opt_cases' (AMap.get x.heap.fwd w) with hf | ⟨o, hf⟩
  · simp only [hf]
    refine ⟨(upd_alloc hs w _).trans (upd_fwdSet _ w _), ?_⟩
    show kmem (x.alloc (Tag.set, [])).1.heap (x.me, x.next) = _
    rw [kmem_alloc_self]; rfl
  · simp only [hf]; exact ⟨Upd.refl w x, rfl⟩

theorem upd_promote {H : KHeap K} (c : KCfg) {x : KTx K} (hs : KS H x) {w : K} {o : Oid}
    (hr : AMap.get x.heap.fwd w = some o) (p : Tag × List Int) {s' : List Int} (hm : kmem x.heap o = s') :
    Upd w x (KTx.promote c x w o p s') ∧
    ∃ o', AMap.get (KTx.promote c x w o p s').heap.fwd w = some o' ∧ kmem (KTx.promote c x w o p s').heap o' = s' := by
  unfold KTx.promote
  split
  · have hqo : (x.me, x.next) ≠ o := fun e => fresh_unref_k hs w (e ▸ hr)
    have u2 : Upd w x ((x.alloc (Tag.tree, s')).1.fwdSet w (x.alloc (Tag.tree, s')).2) :=
      (upd_alloc hs w _).trans (upd_fwdSet _ w _)
    have hw2 : AMap.get ((x.alloc (Tag.tree, s')).1.fwdSet w (x.alloc (Tag.tree, s')).2).heap.fwd w =
        some (x.me, x.next) := by
      show AMap.get (AMap.set x.heap.fwd w (x.me, x.next)) w = _
      rw [AMap.get_set]; simp
    have hm2 : kmem ((x.alloc (Tag.tree, s')).1.fwdSet w (x.alloc (Tag.tree, s')).2).heap (x.me, x.next) = s' :=
      kmem_alloc_self x (Tag.tree, s')
    split
    · -- the replaced set is emptied: only `w` referred to it
      refine ⟨u2.trans ⟨fun _ _ => rfl, ?_, rfl, rfl, rfl⟩, (x.me, x.next), hw2, ?_⟩
      · intro k o' hk ho'
        have ho'' : AMap.get x.heap.fwd k = some o' := by
          have := u2.fwd k hk; rw [← this]; exact ho'
        have : o ≠ o' := fun e => hk (hs.inj k w o' ho'' (e ▸ hr))
        unfold kmem KTx.postClear; simp [AMap.get_set, this]
      · unfold kmem KTx.postClear
        simp only [AMap.get_set, Ne.symm hqo, if_false]
        exact hm2
    · exact ⟨u2, (x.me, x.next), hw2, hm2⟩
  · exact ⟨Upd.refl w x, o, hr, hm⟩

theorem upd_insertOne {H : KHeap K} (c : KCfg) (hc : c.clearReplaced = true) {x : KTx K} (hs : KS H x)
    (d : Int) (w : K) :
    Upd w x (KTx.insertOne c x d w) ∧
    ∃ o', AMap.get (KTx.insertOne c x d w).heap.fwd w = some o' ∧
      kmem (KTx.insertOne c x d w).heap o' =
        LSet.insert (((AMap.get x.heap.fwd w).map (kmem x.heap)).getD []) d := by
  unfold KTx.insertOne
  simp only
  obtain ⟨u1, m1⟩ := upd_postingFor (ks_rd hs (.fwd w)) w
  obtain ⟨k1, f1⟩ := ks_postingFor (ks_rd hs (.fwd w)) w
  have m1' : kmem (KTx.postingFor (x.rd (.fwd w)) w).1.heap (KTx.postingFor (x.rd (.fwd w)) w).2 =
      ((AMap.get x.heap.fwd w).map (kmem x.heap)).getD [] := m1
  generalize KTx.postingFor (x.rd (.fwd w)) w = r at u1 m1' k1 f1 ⊢
  have hobj : (r.1.obj r.2).2 = kmem r.1.heap r.2 := rfl
  -- after `word_idx.insert(docid)`
  have h3 : ∃ x3, ((if d ∈ (r.1.obj r.2).2 then r.1.rd (.post r.2 d)
        else (r.1.rd (.post r.2 d)).postPut r.2 d ((r.1.obj r.2).1, LSet.insert (r.1.obj r.2).2 d)).rd (.whole r.2)) = x3 ∧
      KS H x3 ∧ Upd w r.1 x3 ∧ AMap.get x3.heap.fwd w = some r.2 ∧
      kmem x3.heap r.2 = LSet.insert (kmem r.1.heap r.2) d := by
    refine ⟨_, rfl, ?_⟩
    by_cases hm : d ∈ (r.1.obj r.2).2
    · simp only [hm, if_true]
      refine ⟨ks_rd (ks_rd k1 _) _, (upd_rd w _ _).trans (upd_rd w _ _), f1, ?_⟩
      show kmem r.1.heap r.2 = _
      rw [hobj] at hm; simp [LSet.insert, hm]
    · simp only [hm, if_false]
      refine ⟨ks_rd (ks_postPut (ks_rd k1 _) f1 d _) _,
        ((upd_rd w _ _).trans (upd_postPut (ks_rd k1 _) f1 d _)).trans (upd_rd w _ _), f1, ?_⟩
      show kmem ((r.1.rd (.post r.2 d)).postPut r.2 d _).heap r.2 = _
      rw [kmem_postPut]; simp [hobj]
  obtain ⟨x3, e3, k3, u3, f3, m3⟩ := h3
  rw [e3]
  obtain ⟨u4, o', f4, m4⟩ := upd_promote c k3 f3 (r.1.obj r.2) (s' := LSet.insert (r.1.obj r.2).2 d)
    (by rw [m3, hobj])
  refine ⟨((upd_rd w x _).trans u1).trans (u3.trans u4), o', f4, ?_⟩
  rw [m4, hobj, m1']

end Hyp.CIdx
