import HypatiaProofs.Lemmas.ConcurrencyKeywordSim

/-!
Object-level keyword index (C19): `unindex_doc` and `index_doc` on the heap simulate
`Keyword.Plain.unindexDoc` / `Keyword.Plain.indexDoc`.
-/
set_option linter.unusedSectionVars false
set_option linter.unusedSimpArgs false
set_option linter.unusedVariables false
namespace Hyp.CIdx
open Hyp Hyp.Keyword

variable {K : Type} [DecidableEq K]

theorem sim_unpostAll {H : KHeap K} (d : Int) : ∀ (ws : List K) (x : KTx K) (f : Plain.Fwd K),
    FSim x.heap f → KS H x →
    FSim (KTx.unpostAll x d ws).1.heap (Plain.unpostAll f d ws).1 ∧
    (KTx.unpostAll x d ws).2 = (Plain.unpostAll f d ws).2 ∧
    (KTx.unpostAll x d ws).1.heap.rev = x.heap.rev ∧ (KTx.unpostAll x d ws).1.heap.ni = x.heap.ni ∧
    (KTx.unpostAll x d ws).1.heap.len = x.heap.len := by
  intro ws
  induction ws with
  | nil => intro x f hs _; exact ⟨hs, rfl, rfl, rfl, rfl⟩
  | cons w ws ih =>
    intro x f hs hk
    unfold KTx.unpostAll Plain.unpostAll
    simp only
    have e0 : (x.rd (.fwd w)).heap.fwd = x.heap.fwd := rfl
    have hw := hs w
    rcases opt_cases' (AMap.get x.heap.fwd w) with hf | ⟨o, hf⟩
    · rw [hf] at hw
      simp only [e0, hf, ← hw, Option.map_none]
      exact ⟨hs, by trivial, rfl, rfl, rfl⟩
    · rw [hf] at hw
      simp only [e0, hf, ← hw, Option.map_some]
      have hobj : ((x.rd (.fwd w)).rd (.post o d)).obj o = x.obj o := rfl
      have hmem : (x.obj o).2 = kmem x.heap o := rfl
      rw [hobj, hmem]
      by_cases hm : d ∈ kmem x.heap o
      · simp only [hm, if_true]
        have k1 : KS H ((x.rd (.fwd w)).rd (.post o d)) := ks_rd (ks_rd hk _) _
        obtain ⟨u, ht⟩ := upd_unpostOne k1 d (w := w) (o := o) hf
        have hs1 : FSim ((x.rd (.fwd w)).rd (.post o d)).heap f := hs
        have key := ih (KTx.unpostOne ((x.rd (.fwd w)).rd (.post o d)) d w o)
          (if LSet.remove (kmem x.heap o) d = [] then AMap.erase f w
           else AMap.set f w (LSet.remove (kmem x.heap o) d))
          (by
            have hk' : kmem ((x.rd (.fwd w)).rd (.post o d)).heap o = kmem x.heap o := rfl
            rw [hk'] at ht
            by_cases he : LSet.remove (kmem x.heap o) d = []
            · simp only [he, if_true] at ht ⊢; exact fsim_of_upd_erase hs1 u ht
            · simp only [he, if_false] at ht ⊢; exact fsim_of_upd_set hs1 u ht.1 ht.2)
          (ks_unpostOne k1 d hf)
        obtain ⟨a, b, c1, c2, c3⟩ := key
        exact ⟨a, b, c1.trans u.rev, c2.trans u.ni, c3.trans u.len⟩
      · simp only [hm, if_false]
        exact ⟨hs, by trivial, rfl, rfl, rfl⟩

theorem sim_insertForward {H : KHeap K} (c : KCfg) (hc : c.clearReplaced = true) (d : Int) :
    ∀ (ws : List K) (x : KTx K) (f : Plain.Fwd K), FSim x.heap f → KS H x →
    FSim (KTx.insertForward c x d ws).heap (Plain.insertForward f d ws) ∧
    (KTx.insertForward c x d ws).heap.rev = x.heap.rev ∧ (KTx.insertForward c x d ws).heap.ni = x.heap.ni ∧
    (KTx.insertForward c x d ws).heap.len = x.heap.len := by
  intro ws
  induction ws with
  | nil => intro x f hs _; exact ⟨hs, rfl, rfl, rfl⟩
  | cons w ws ih =>
    intro x f hs hk
    unfold KTx.insertForward Plain.insertForward
    obtain ⟨u, o', f4, m4⟩ := upd_insertOne c hc hk d w
    have hw : ((AMap.get x.heap.fwd w).map (kmem x.heap)).getD [] = (AMap.get f w).getD [] := by rw [hs w]
    rw [hw] at m4
    obtain ⟨a, c1, c2, c3⟩ := ih (KTx.insertOne c x d w) _ (fsim_of_upd_set hs u f4 m4) (ks_insertOne c hc hk d w)
    exact ⟨a, c1.trans u.rev, c2.trans u.ni, c3.trans u.len⟩

theorem fsim_congr {h h' : KHeap K} {f : Plain.Fwd K} (hf : h'.fwd = h.fwd) (hp : h'.post = h.post)
    (hs : FSim h f) : FSim h' f := by
  intro k; unfold kmem; rw [hf, hp]; exact hs k

theorem insertReverse_fwd (x : KTx K) (d : Int) (ws : List K) :
    (x.insertReverse d ws).heap.fwd = x.heap.fwd ∧ (x.insertReverse d ws).heap.post = x.heap.post := by
  unfold KTx.insertReverse; split <;> exact ⟨rfl, rfl⟩

/-- the heap with references resolved and tags dropped is the plain C02 state `s`, up to the
order of forward entries -/
structure KSim (h : KHeap K) (s : Plain.State K) : Prop where
  fwd : FSim h s.fwd
  rev : h.rev = s.rev
  ni : h.ni = s.notIndexed
  len : h.len = s.numDocs

/-- what a running keyword transaction maintains, relative to the plain C02 state `s` -/
structure KGood (H : KHeap K) (x : KTx K) (s : Plain.State K) : Prop where
  sim : KSim x.heap s
  ks : KS H x

theorem kgood_rd {H : KHeap K} {x : KTx K} {s : Plain.State K} (h : KGood H x s) (l : Loc K) :
    KGood H (x.rd l) s := ⟨⟨h.sim.fwd, h.sim.rev, h.sim.ni, h.sim.len⟩, ks_rd h.ks l⟩

theorem kgood_niRemove {H : KHeap K} {x : KTx K} {s : Plain.State K} (h : KGood H x s) (d : Int) :
    KGood H (x.niRemove d) { s with notIndexed := LSet.remove s.notIndexed d } :=
  ⟨⟨h.sim.fwd, h.sim.rev, by show LSet.remove x.heap.ni d = _; rw [h.sim.ni], h.sim.len⟩, ks_niRemove h.ks d⟩

theorem kgood_niAdd {H : KHeap K} {x : KTx K} {s : Plain.State K} (h : KGood H x s) (d : Int) :
    KGood H (x.niAdd d) { s with notIndexed := LSet.insert s.notIndexed d } :=
  ⟨⟨h.sim.fwd, h.sim.rev, by show LSet.insert x.heap.ni d = _; rw [h.sim.ni], h.sim.len⟩, ks_niAdd h.ks d⟩

/-- after `_not_indexed.remove(docid)` and the reads that follow -/
theorem kgood_dropNi {H : KHeap K} {x : KTx K} {s : Plain.State K} (h : KGood H x s) (d : Int) :
    KGood H ((if d ∈ (x.rd (.ni d)).heap.ni then (x.rd (.ni d)).niRemove d else x.rd (.ni d)).rd (.rev d))
      { s with notIndexed := LSet.remove s.notIndexed d } := by
  apply kgood_rd
  have hni : (x.rd (.ni d)).heap.ni = s.notIndexed := h.sim.ni
  rw [hni]
  by_cases hin : d ∈ s.notIndexed
  · simp only [hin, if_true]; exact kgood_niRemove (kgood_rd h _) d
  · simp only [hin, if_false]
    rw [LSet.remove_of_not_mem hin]; exact kgood_rd h _

theorem kgood_unindexDoc {H : KHeap K} {x : KTx K} {s : Plain.State K} (h : KGood H x s) (d : Int) :
    KGood H (x.unindexDoc d) (Plain.unindexDoc s d) := by
  unfold KTx.unindexDoc Plain.unindexDoc
  simp only
  have h1 := kgood_dropNi h d
  generalize ((if d ∈ (x.rd (.ni d)).heap.ni then (x.rd (.ni d)).niRemove d else x.rd (.ni d)).rd (.rev d)) = x1 at h1 ⊢
  have hrev : x1.heap.rev = s.rev := h1.sim.rev
  rw [hrev]
  rcases opt_cases' (AMap.get s.rev d) with hr | ⟨kws, hr⟩
  · simp only [hr]; exact h1
  · simp only [hr]
    obtain ⟨a, b, c1, c2, c3⟩ := sim_unpostAll d kws x1 s.fwd h1.sim.fwd h1.ks
    have hk := ks_unpostAll d kws x1 h1.ks
    rw [b]
    by_cases hb : (Plain.unpostAll s.fwd d kws).2 = true
    · simp only [hb, if_true]
      refine ⟨⟨a, ?_, ?_, ?_⟩, ks_lenChange (ks_revErase hk d) _⟩
      · show AMap.erase (KTx.unpostAll x1 d kws).1.heap.rev d = _
        rw [c1, hrev]
      · show (KTx.unpostAll x1 d kws).1.heap.ni = _
        rw [c2]; exact h1.sim.ni
      · show (KTx.unpostAll x1 d kws).1.heap.len + -1 = s.numDocs - 1
        rw [c3, h1.sim.len]; rfl
    · simp only [hb, Bool.false_eq_true, if_false]
      refine ⟨⟨a, ?_, ?_, ?_⟩, hk⟩
      · rw [c1, hrev]
      · rw [c2]; exact h1.sim.ni
      · rw [c3]; exact h1.sim.len

theorem kgood_indexDoc {H : KHeap K} (c : KCfg) (hc : c.clearReplaced = true) {x : KTx K}
    {s : Plain.State K} (h : KGood H x s) (d : Int) (v : Option (List K)) :
    KGood H (KTx.indexDoc c x d v) (Plain.indexDoc s d v) := by
  unfold KTx.indexDoc Plain.indexDoc
  cases v with
  | none =>
    simp only
    have hni : (x.rd (.ni d)).heap.ni = s.notIndexed := h.sim.ni
    rw [hni]
    by_cases hin : d ∈ s.notIndexed
    · simp only [hin, if_true]; exact kgood_rd h _
    · simp only [hin, if_false]
      exact kgood_niAdd (kgood_unindexDoc (kgood_rd h _) d) d
  | some seq =>
    simp only
    have h1 := kgood_dropNi h d
    generalize ((if d ∈ (x.rd (.ni d)).heap.ni then (x.rd (.ni d)).niRemove d else x.rd (.ni d)).rd (.rev d)) = x1 at h1 ⊢
    have hrev : x1.heap.rev = s.rev := h1.sim.rev
    have hni1 : x1.heap.ni = LSet.remove s.notIndexed d := h1.sim.ni
    have hlen1 : x1.heap.len = s.numDocs := h1.sim.len
    have hfwd1 : FSim x1.heap s.fwd := h1.sim.fwd
    rw [hrev]
    by_cases hseq : seq = []
    · simp only [hseq, if_true]
      rcases opt_cases' (AMap.get s.rev d) with hr | ⟨old, hr⟩
      · simp only [hr]; exact h1
      · cases old with
        | nil => simp only [hr]; exact h1
        | cons a l => simp only [hr]; exact kgood_unindexDoc h1 d
    · simp only [hseq, if_false]
      rcases opt_cases' (AMap.get s.rev d) with hr | ⟨oldk, hr⟩
      · simp only [hr]
        obtain ⟨a, c1, c2, c3⟩ := sim_insertForward c hc d (dedup seq) x1 s.fwd hfwd1 h1.ks
        have hk := ks_insertForward c hc d (dedup seq) x1 h1.ks
        refine ⟨⟨fsim_congr (insertReverse_fwd _ d _).1 (insertReverse_fwd _ d _).2 a, ?_, ?_, ?_⟩,
          ks_lenChange (ks_insertReverse hk d _) 1⟩
        · show ((KTx.insertForward c x1 d (dedup seq)).insertReverse d (dedup seq)).heap.rev = _
          unfold KTx.insertReverse Keyword.insertReverse
          split
          · rw [c1, hrev]
          · show AMap.set (KTx.insertForward c x1 d (dedup seq)).heap.rev d _ = _
            rw [c1, hrev]
        · show ((KTx.insertForward c x1 d (dedup seq)).insertReverse d (dedup seq)).heap.ni = _
          unfold KTx.insertReverse; split <;> (try show (KTx.insertForward c x1 d (dedup seq)).heap.ni = _) <;>
            rw [c2, hni1]
        · show ((KTx.insertForward c x1 d (dedup seq)).insertReverse d (dedup seq)).heap.len + 1 = _
          unfold KTx.insertReverse; split <;> (try show (KTx.insertForward c x1 d (dedup seq)).heap.len + 1 = _) <;>
            rw [c3, hlen1]
      · simp only [hr]
        by_cases hsame : LSet.diff (dedup seq) oldk = [] ∧ LSet.diff oldk (dedup seq) = []
        · simp only [hsame, and_self, if_true]; exact h1
        · simp only [hsame, if_false]
          obtain ⟨a, b, c1, c2, c3⟩ := sim_unpostAll d (LSet.diff oldk (dedup seq)) x1 s.fwd hfwd1 h1.ks
          have hk := ks_unpostAll d (LSet.diff oldk (dedup seq)) x1 h1.ks
          rw [b]
          by_cases hb : (Plain.unpostAll s.fwd d (LSet.diff oldk (dedup seq))).2 = true
          · simp only [hb, if_true]
            obtain ⟨a', c1', c2', c3'⟩ := sim_insertForward c hc d (LSet.diff (dedup seq) oldk) _ _ a hk
            have hk' := ks_insertForward c hc d (LSet.diff (dedup seq) oldk) _ hk
            refine ⟨⟨fsim_congr (insertReverse_fwd _ d _).1 (insertReverse_fwd _ d _).2 a', ?_, ?_, ?_⟩,
              ks_insertReverse hk' d _⟩
            · unfold KTx.insertReverse Keyword.insertReverse
              split
              · rw [c1', c1, hrev]
              · show AMap.set (KTx.insertForward c _ d _).heap.rev d _ = _
                rw [c1', c1, hrev]
            · unfold KTx.insertReverse; split <;>
                (try show (KTx.insertForward c _ d _).heap.ni = _) <;> rw [c2', c2, hni1]
            · unfold KTx.insertReverse; split <;>
                (try show (KTx.insertForward c _ d _).heap.len = _) <;> rw [c3', c3, hlen1]
          · simp only [hb, Bool.false_eq_true, if_false]
            exact ⟨⟨a, by rw [c1, hrev], by rw [c2, hni1], by rw [c3, hlen1]⟩, hk⟩

end Hyp.CIdx
