import HypatiaModel.ConcurrencyIndex
import HypatiaProofs.Lemmas.KeywordPlain

/-!
Specification lemmas for the merge rules of `HypatiaModel/ConcurrencyIndex.lean`
(`resolveMap`, `resolveSet`, `mergeObj`, `mergePosts`) and a counting lemma for `Length`.
-/
set_option linter.unusedSectionVars false
set_option linter.unusedSimpArgs false
set_option linter.unusedVariables false
namespace Hyp.CIdx
open Hyp Hyp.Keyword

section Maps
variable {κ β : Type} [DecidableEq κ] [DecidableEq β]

theorem mergeVal_some {old com new : Option β} {r : Option β} (h : mergeVal old com new = some r) :
    (com = old ∧ r = new) ∨ (new = old ∧ r = com) := by
  unfold mergeVal at h
  by_cases h1 : com = old
  · simp [h1] at h; exact Or.inl ⟨h1, h.symm⟩
  · by_cases h2 : new = old
    · simp [h1, h2] at h; exact Or.inr ⟨h2, h.symm⟩
    · simp [h1, h2] at h

theorem mergeVal_left (old new : Option β) : mergeVal old old new = some new := by simp [mergeVal]
theorem mergeVal_right (old com : Option β) : mergeVal old com old = some com := by
  unfold mergeVal; by_cases h : com = old <;> simp [h]

theorem get_none_of_not_mem_keys {m : AMap κ β} {k : κ} (h : k ∉ AMap.keys m) : AMap.get m k = none :=
  (AMap.not_mem_keys_iff m k).mp h

theorem mergeEntries_spec {old com new : AMap κ β} : ∀ {u r : _}, mergeEntries old com new u = some r →
    (∀ k ∈ u, mergeVal (AMap.get old k) (AMap.get com k) (AMap.get new k) = some (AMap.get r k)) ∧
    (∀ k, k ∉ u → AMap.get r k = none) ∧ (AMap.keys r).Sublist u := by
  intro u
  induction u with
  | nil => intro r h; simp [mergeEntries] at h; subst h; simp [AMap.keys]
  | cons k0 ks ih =>
    intro r h
    unfold mergeEntries at h
    cases hv : mergeVal (AMap.get old k0) (AMap.get com k0) (AMap.get new k0) with
    | none => simp [hv] at h
    | some ov =>
      cases hr : mergeEntries old com new ks with
      | none => cases ov <;> simp [hv, hr] at h
      | some r' =>
        obtain ⟨i1, i2, i3⟩ := ih hr
        cases ov with
        | none =>
          simp [hv, hr] at h; subst h
          refine ⟨?_, ?_, i3.trans (List.sublist_cons_self _ _)⟩
          · intro k hk
            rcases List.mem_cons.mp hk with e | e
            · subst e
              by_cases hm : k ∈ ks
              · have := i1 k hm; rw [hv] at this ⊢; exact this
              · rw [i2 k hm]; exact hv
            · exact i1 k e
          · intro k hk; exact i2 k (fun e => hk (List.mem_cons_of_mem _ e))
        | some v =>
          simp [hv, hr] at h; subst h
          refine ⟨?_, ?_, ?_⟩
          · intro k hk
            by_cases e : k0 = k
            · subst e; rw [hv, AMap.get_cons]; simp
            · rw [AMap.get_cons]; simp only [e, if_false]
              rcases List.mem_cons.mp hk with e' | e'
              · exact absurd e'.symm e
              · exact i1 k e'
          · intro k hk
            have e : k0 ≠ k := fun e => hk (by simp [e])
            rw [AMap.get_cons]; simp only [e, if_false]
            exact i2 k (fun e => hk (List.mem_cons_of_mem _ e))
          · simp only [AMap.keys, List.map_cons]; exact List.Sublist.cons_cons _ i3

/-- a successful `_p_resolveConflict` of a bucket: neither side was empty, the result is not
empty, and every key carries its three-way merge -/
theorem resolveMap_spec {old com new r : AMap κ β} (h : resolveMap old com new = some r) :
    com ≠ [] ∧ new ≠ [] ∧ r ≠ [] ∧ AMap.WF r ∧
    ∀ k, mergeVal (AMap.get old k) (AMap.get com k) (AMap.get new k) = some (AMap.get r k) := by
  unfold resolveMap at h
  by_cases he : (com.isEmpty || new.isEmpty) = true
  · simp [he] at h
  · rw [if_neg he] at h
    have hc : com ≠ [] := by intro e; simp [e] at he
    have hn : new ≠ [] := by intro e; simp [e] at he
    cases hm : mergeEntries old com new (dedup (AMap.keys com ++ AMap.keys new ++ AMap.keys old)) with
    | none => rw [hm] at h; simp at h
    | some r' =>
      cases r' with
      | nil => rw [hm] at h; simp at h
      | cons e r'' =>
        rw [hm] at h; simp at h; subst h
        obtain ⟨i1, i2, i3⟩ := mergeEntries_spec hm
        refine ⟨hc, hn, by simp, ?_, ?_⟩
        · exact i3.nodup (nodup_dedup _)
        · intro k
          by_cases hk : k ∈ dedup (AMap.keys com ++ AMap.keys new ++ AMap.keys old)
          · exact i1 k hk
          · rw [i2 k hk]
            rw [mem_dedup] at hk
            simp only [List.mem_append, not_or] at hk
            rw [get_none_of_not_mem_keys hk.1.1, get_none_of_not_mem_keys hk.1.2, get_none_of_not_mem_keys hk.2]
            rfl

/-- the object `b`'s commit leaves in the storage, whatever the dirty flags (which must be sound:
an unregistered object is unchanged) -/
theorem mergeObj_map_spec {da db : Bool} {old com new r : AMap κ β}
    (h : mergeObj resolveMap da db old com new = some r)
    (ha : da = false → com = old) (hb : db = false → new = old) :
    (∀ k, mergeVal (AMap.get old k) (AMap.get com k) (AMap.get new k) = some (AMap.get r k)) ∧
    (AMap.WF com → AMap.WF new → AMap.WF r) ∧
    (da = true → db = true → com ≠ [] ∧ new ≠ [] ∧ r ≠ []) := by
  unfold mergeObj at h
  cases db with
  | false =>
    simp at h; subst h
    have := hb rfl; subst this
    exact ⟨fun k => mergeVal_right _ _, fun w _ => w, by simp⟩
  | true =>
    cases da with
    | false =>
      simp at h; subst h
      have := ha rfl; subst this
      exact ⟨fun k => mergeVal_left _ _, fun _ w => w, by simp⟩
    | true =>
      simp at h
      obtain ⟨h1, h2, h3, h4, h5⟩ := resolveMap_spec h
      exact ⟨h5, fun _ _ => h4, fun _ _ => ⟨h1, h2, h3⟩⟩

end Maps

/-! ### sets -/

theorem mergeMem_some {o c n r : Bool} (h : mergeMem o c n = some r) : (c = o ∧ r = n) ∨ (n = o ∧ r = c) := by
  revert h; cases o <;> cases c <;> cases n <;> cases r <;> simp [mergeMem]

theorem mergeMem_left (o n : Bool) : mergeMem o o n = some n := by simp [mergeMem]
theorem mergeMem_right (o c : Bool) : mergeMem o c o = some c := by cases o <;> cases c <;> simp [mergeMem]

theorem mergeMembers_spec {old com new : List Int} : ∀ {u r : List Int}, mergeMembers old com new u = some r →
    (∀ k ∈ u, mergeMem (decide (k ∈ old)) (decide (k ∈ com)) (decide (k ∈ new)) = some (decide (k ∈ r))) ∧
    (∀ k, k ∉ u → k ∉ r) ∧ r.Sublist u := by
  intro u
  induction u with
  | nil => intro r h; simp [mergeMembers] at h; subst h; simp
  | cons k0 ks ih =>
    intro r h
    unfold mergeMembers at h
    cases hv : mergeMem (decide (k0 ∈ old)) (decide (k0 ∈ com)) (decide (k0 ∈ new)) with
    | none => simp [hv] at h
    | some ov =>
      cases hr : mergeMembers old com new ks with
      | none => cases ov <;> simp [hv, hr] at h
      | some r' =>
        obtain ⟨i1, i2, i3⟩ := ih hr
        cases ov with
        | false =>
          simp [hv, hr] at h; subst h
          refine ⟨?_, ?_, i3.trans (List.sublist_cons_self _ _)⟩
          · intro k hk
            rcases List.mem_cons.mp hk with e | e
            · subst e
              by_cases hm : k ∈ ks
              · have := i1 k hm; rw [hv] at this ⊢; exact this
              · have := i2 k hm; rw [hv]; simp [this]
            · exact i1 k e
          · intro k hk; exact i2 k (fun e => hk (List.mem_cons_of_mem _ e))
        | true =>
          simp [hv, hr] at h; subst h
          refine ⟨?_, ?_, List.Sublist.cons_cons _ i3⟩
          · intro k hk
            by_cases e : k = k0
            · subst e; rw [hv]; simp
            · rcases List.mem_cons.mp hk with e' | e'
              · exact absurd e' e
              · rw [i1 k e']; simp [e]
          · intro k hk
            simp only [List.mem_cons, not_or] at hk ⊢
            exact ⟨hk.1, i2 k hk.2⟩

theorem resolveSet_spec {old com new r : List Int} (h : resolveSet old com new = some r) :
    com ≠ [] ∧ new ≠ [] ∧ r ≠ [] ∧ r.Nodup ∧
    ∀ k, mergeMem (decide (k ∈ old)) (decide (k ∈ com)) (decide (k ∈ new)) = some (decide (k ∈ r)) := by
  unfold resolveSet at h
  by_cases he : (com.isEmpty || new.isEmpty) = true
  · simp [he] at h
  · rw [if_neg he] at h
    have hc : com ≠ [] := by intro e; simp [e] at he
    have hn : new ≠ [] := by intro e; simp [e] at he
    cases hm : mergeMembers old com new (dedup (com ++ new ++ old)) with
    | none => rw [hm] at h; simp at h
    | some r' =>
      cases r' with
      | nil => rw [hm] at h; simp at h
      | cons e r'' =>
        rw [hm] at h; simp at h; subst h
        obtain ⟨i1, i2, i3⟩ := mergeMembers_spec hm
        refine ⟨hc, hn, by simp, i3.nodup (nodup_dedup _), ?_⟩
        intro k
        by_cases hk : k ∈ dedup (com ++ new ++ old)
        · exact i1 k hk
        · have := i2 k hk
          rw [mem_dedup] at hk
          simp only [List.mem_append, not_or] at hk
          simp [hk.1.1, hk.1.2, hk.2, this, mergeMem]

theorem mergeObj_set_spec {da db : Bool} {old com new r : List Int}
    (h : mergeObj resolveSet da db old com new = some r)
    (ha : da = false → com = old) (hb : db = false → new = old) :
    (∀ k, mergeMem (decide (k ∈ old)) (decide (k ∈ com)) (decide (k ∈ new)) = some (decide (k ∈ r))) ∧
    (com.Nodup → new.Nodup → r.Nodup) ∧
    (da = true → db = true → com ≠ [] ∧ new ≠ [] ∧ r ≠ []) := by
  unfold mergeObj at h
  cases db with
  | false =>
    simp at h; subst h
    have := hb rfl; subst this
    exact ⟨fun k => mergeMem_right _ _, fun w _ => w, by simp⟩
  | true =>
    cases da with
    | false =>
      simp at h; subst h
      have := ha rfl; subst this
      exact ⟨fun k => mergeMem_left _ _, fun _ w => w, by simp⟩
    | true =>
      simp at h
      obtain ⟨h1, h2, h3, h4, h5⟩ := resolveSet_spec h
      exact ⟨h5, fun _ _ => h4, fun _ _ => ⟨h1, h2, h3⟩⟩

/-! ### posting store -/

theorem mergePosts_spec {V : Type} [DecidableEq V] {base a : AMap Oid (List Int)} {wa wb : List (Loc V)} :
    ∀ {bp r : AMap Oid (List Int)}, mergePosts base a wa wb bp = some r →
    ∀ o, (match AMap.get bp o with
          | none => AMap.get r o = AMap.get a o
          | some sb =>
            match AMap.get base o with
            | none => AMap.get r o = some sb
            | some s0 => ∃ s, AMap.get r o = some s ∧
                mergeObj resolveSet (dirty wa (.post o)) (dirty wb (.post o)) s0 ((AMap.get a o).getD s0) sb = some s) := by
  intro bp
  induction bp with
  | nil => intro r h o; simp [mergePosts] at h; subst h; simp
  | cons e rest ih =>
    obtain ⟨o0, sb0⟩ := e
    intro r h o
    unfold mergePosts at h
    cases hr : mergePosts base a wa wb rest with
    | none => simp [hr] at h
    | some r' =>
      simp only [hr] at h
      have ih' := ih hr o
      rw [AMap.get_cons]
      by_cases e : o0 = o
      · subst e
        simp only [if_true]
        cases hb : AMap.get base o0 with
        | none => simp [hb] at h; subst h; simp [AMap.get_set]
        | some s0 =>
          simp only [hb] at h
          cases hm : mergeObj resolveSet (dirty wa (.post o0)) (dirty wb (.post o0)) s0 ((AMap.get a o0).getD s0) sb0 with
          | none => simp [hm] at h
          | some s => simp [hm] at h; subst h; exact ⟨s, by simp [AMap.get_set], hm⟩
      · simp only [e, if_false]
        have hg : AMap.get r o = AMap.get r' o := by
          cases hb : AMap.get base o0 with
          | none => simp [hb] at h; subst h; simp [AMap.get_set, e]
          | some s0 =>
            simp only [hb] at h
            cases hm : mergeObj resolveSet (dirty wa (.post o0)) (dirty wb (.post o0)) s0 ((AMap.get a o0).getD s0) sb0 with
            | none => simp [hm] at h
            | some s => simp [hm] at h; subst h; simp [AMap.get_set, e]
        rw [hg]; exact ih'

/-! ### counting: `Length` merges additively because the key sets do -/

theorem length_eq_countP {κ β : Type} [DecidableEq κ] {m : AMap κ β} (hwf : AMap.WF m) {u : List κ}
    (hu : u.Nodup) (hsub : ∀ k ∈ AMap.keys m, k ∈ u) :
    m.length = u.countP (fun k => (AMap.get m k).isSome) := by
  have h1 : m.length = (AMap.keys m).length := (AMap.length_keys m).symm
  rw [h1]
  have hperm : (AMap.keys m).Perm (u.filter (fun k => (AMap.get m k).isSome)) := by
    apply (List.perm_ext_iff_of_nodup hwf (hu.filter _)).mpr
    intro k
    rw [List.mem_filter, AMap.mem_keys_iff]
    constructor
    · intro h; exact ⟨hsub k ((AMap.mem_keys_iff m k).mpr h), h⟩
    · exact fun h => h.2
  rw [hperm.length_eq, List.countP_eq_length_filter]

theorem countP_four {κ : Type} (u : List κ) (f g h k : κ → Bool)
    (hp : ∀ x ∈ u, (if f x then 1 else 0) + (if g x then 1 else 0) = (if h x then 1 else 0) + (if k x then (1 : Nat) else 0)) :
    u.countP f + u.countP g = u.countP h + u.countP k := by
  induction u with
  | nil => simp
  | cons x xs ih =>
    have := hp x (by simp)
    have := ih (fun y hy => hp y (List.mem_cons_of_mem _ hy))
    simp only [List.countP_cons]
    omega

end Hyp.CIdx
