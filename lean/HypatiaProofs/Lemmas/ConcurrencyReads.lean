import HypatiaModel.ConcurrencyReads
import HypatiaProofs.Lemmas.ConcurrencyTextSound

/-!
Object-level reads write only to objects allocated during the call (`ROF` / `ROK` / `ROT`:
the relation "reached from `x` by reads, allocations and writes to objects allocated since `x`").
-/
set_option linter.unusedSectionVars false
set_option linter.unusedSimpArgs false
set_option linter.unusedVariables false
namespace Hyp.CIdx
open Hyp Hyp.Alias

/-- the identities a transaction hands out from allocator position `n0` on -/
def FreshFrom (me n0 : Nat) (o : Oid) : Prop := o.1 = me ∧ n0 ≤ o.2

/-! ## field index -/
section Field
variable {V : Type} [DecidableEq V]

/-- `y` is reached from `x` by a read: the stored objects are as they were, everything written
belongs to an object allocated since `x` -/
structure ROF (x y : FTx V) : Prop where
  me : y.me = x.me
  next : x.next ≤ y.next
  fwd : y.heap.fwd = x.heap.fwd
  rev : y.heap.rev = x.heap.rev
  ni : y.heap.ni = x.heap.ni
  len : y.heap.len = x.heap.len
  post : ∀ o, ¬ FreshFrom x.me x.next o → AMap.get y.heap.post o = AMap.get x.heap.post o
  writes : ∃ add, y.writes = add ++ x.writes ∧
    ∀ l ∈ add, ∃ o, l.obj = .post o ∧ FreshFrom x.me x.next o ∧ o.2 < y.next

theorem rof_refl (x : FTx V) : ROF x x :=
  ⟨rfl, Nat.le_refl _, rfl, rfl, rfl, rfl, fun _ _ => rfl, [], rfl, fun _ h => by simp at h⟩

theorem rof_rd {x y : FTx V} (h : ROF x y) (l : Loc V) : ROF x (y.rd l) :=
  ⟨h.me, h.next, h.fwd, h.rev, h.ni, h.len, h.post, h.writes⟩

theorem rof_foldl_rd {α : Type} {x : FTx V} (f : α → Loc V) : ∀ (l : List α) {y : FTx V}, ROF x y →
    ROF x (l.foldl (fun x a => x.rd (f a)) y)
  | [], _, h => h
  | a :: l, _, h => rof_foldl_rd f l (rof_rd h _)

theorem rof_allocW {x y : FTx V} (h : ROF x y) (s : List Int) :
    ROF x (y.allocW s).1 ∧ FreshFrom x.me x.next (y.allocW s).2 ∧ (y.allocW s).2.2 < (y.allocW s).1.next ∧
    (y.allocW s).1.members (y.allocW s).2 = s := by
  have hf : FreshFrom x.me x.next (y.me, y.next) := ⟨h.me, h.next⟩
  refine ⟨⟨h.me, Nat.le_succ_of_le h.next, h.fwd, h.rev, h.ni, h.len, ?_, ?_⟩, hf, Nat.lt_succ_self _, ?_⟩
  · intro o ho
    have hne : (y.me, y.next) ≠ o := fun e => ho (e ▸ hf)
    show AMap.get (AMap.set y.heap.post (y.me, y.next) s) o = _
    rw [AMap.get_set, if_neg hne]; exact h.post o ho
  · obtain ⟨add, e, ha⟩ := h.writes
    refine ⟨.whole (y.me, y.next) :: add, by show _ :: y.writes = _; rw [e]; rfl, ?_⟩
    intro l hl
    rcases List.mem_cons.mp hl with rfl | hl
    · exact ⟨(y.me, y.next), rfl, hf, Nat.lt_succ_self _⟩
    · obtain ⟨o, e1, e2, e3⟩ := ha l hl
      exact ⟨o, e1, e2, Nat.lt_succ_of_lt e3⟩
  · simp [FTx.allocW, FTx.members, AMap.get_set]

/-- a write to an object allocated since `x` -/
theorem rof_postPut {x y : FTx V} (h : ROF x y) {o : Oid} (ho : FreshFrom x.me x.next o) (ho2 : o.2 < y.next)
    (d : Int) (s : List Int) : ROF x (y.postPut o d s) := by
  refine ⟨h.me, h.next, h.fwd, h.rev, h.ni, h.len, ?_, ?_⟩
  · intro o' ho'
    have hne : o ≠ o' := fun e => ho' (e ▸ ho)
    show AMap.get (AMap.set y.heap.post o s) o' = _
    rw [AMap.get_set, if_neg hne]; exact h.post o' ho'
  · obtain ⟨add, e, ha⟩ := h.writes
    refine ⟨.post o d :: add, by show _ :: y.writes = _; rw [e]; rfl, ?_⟩
    intro l hl
    rcases List.mem_cons.mp hl with rfl | hl
    · exact ⟨o, rfl, ho, ho2⟩
    · exact ha l hl

theorem rof_lookup (x : FTx V) (v : V) : ROF x (x.lookup v).1 := rof_rd (rof_refl x) _

theorem rof_scan_fold {x : FTx V} : ∀ (ks : List V) {y : FTx V}, ROF x y →
    ROF x (ks.foldl (fun x v =>
      match AMap.get x.heap.fwd v with
      | some o => (x.rd (.fwd v)).rd (.whole o)
      | none => x.rd (.fwd v)) y)
  | [], _, h => h
  | v :: ks, y, h => by
    apply rof_scan_fold ks
    dsimp only
    split
    · exact rof_rd (rof_rd h _) _
    · exact rof_rd h _

theorem rof_scan (x : FTx V) (p : V → Bool) :
    ROF x (x.scan p).1 ∧ FreshFrom x.me x.next (x.scan p).2 := by
  unfold FTx.scan
  have := rof_allocW (rof_scan_fold ((AMap.keys x.heap.fwd).filter p) (rof_refl x))
    (Keyword.dedup (((AMap.keys x.heap.fwd).filter p).flatMap (fun v => x.heap.posting v)))
  exact ⟨this.1, this.2.1⟩

theorem rof_rdAll {x y : FTx V} (h : ROF x y) : ROF x y.rdAllNi.rdAllRev := by
  unfold FTx.rdAllRev FTx.rdAllNi
  exact rof_foldl_rd _ _ (rof_foldl_rd _ _ h)

theorem rdAll_heap (y : FTx V) : y.rdAllNi.rdAllRev.heap = y.heap := by
  have : ∀ {α : Type} (f : α → Loc V) (l : List α) (z : FTx V),
      (l.foldl (fun x a => x.rd (f a)) z).heap = z.heap := by
    intro α f l
    induction l with
    | nil => intro z; rfl
    | cons a l ih => intro z; exact (ih _).trans rfl
  unfold FTx.rdAllRev FTx.rdAllNi
  rw [this, this]

/-- `docids()`: nothing stored is written; the result is the stored not-indexed set exactly when
there are unindexed but no indexed documents, otherwise an object allocated by the call -/
theorem rof_docids {x y : FTx V} (h : ROF x y) :
    ROF x y.docids.1 ∧
    (y.docids.2 = .ni ∧ y.heap.ni ≠ [] ∧ y.heap.rev = [] ∨
     ∃ o, y.docids.2 = .obj o ∧ FreshFrom x.me x.next o ∧ o.2 < y.docids.1.next ∧ ¬ (y.heap.ni ≠ [] ∧ y.heap.rev = [])) := by
  unfold FTx.docids
  simp only
  have hr := rof_rdAll h
  have hh := rdAll_heap y
  by_cases h1 : y.rdAllNi.rdAllRev.heap.ni = []
  · rw [if_pos h1]
    obtain ⟨a, b, c, _⟩ := rof_allocW hr (AMap.keys y.rdAllNi.rdAllRev.heap.rev)
    refine ⟨a, Or.inr ⟨_, rfl, b, c, ?_⟩⟩
    rw [hh] at h1; exact fun e => e.1 h1
  · rw [if_neg h1]
    by_cases h2 : y.rdAllNi.rdAllRev.heap.rev = []
    · rw [if_pos h2]
      rw [hh] at h1 h2
      exact ⟨hr, Or.inl ⟨rfl, h1, h2⟩⟩
    · rw [if_neg h2]
      obtain ⟨a, _, _, _⟩ := rof_allocW hr (AMap.keys y.rdAllNi.rdAllRev.heap.rev)
      obtain ⟨a2, b2, c2, _⟩ := rof_allocW a
        (LSet.union y.rdAllNi.rdAllRev.heap.ni (AMap.keys y.rdAllNi.rdAllRev.heap.rev))
      refine ⟨a2, Or.inr ⟨_, rfl, b2, c2, ?_⟩⟩
      rw [hh] at h2; exact fun e => h2 e.2

theorem rof_negate (x : FTx V) (positive : Oid) : ROF x (x.negate positive).1 := by
  unfold FTx.negate
  simp only
  have hd := (rof_docids (rof_refl x)).1
  split
  · exact rof_rd hd _
  · exact (rof_allocW (rof_rd hd _) _).1

theorem rof_scanPosting {x : FTx V} {copy : Oid} (hc : FreshFrom x.me x.next copy) (limit : Nat) :
    ∀ (ds out : List Int) {y : FTx V}, ROF x y → copy.2 < y.next → ROF x (FTx.scanPosting y copy limit ds out).1
  | [], _, _, h, _ => h
  | d :: ds, out, y, h, hn => by
    unfold FTx.scanPosting
    simp only
    split
    · have h2 := rof_postPut (rof_rd h (.post copy d)) hc hn d
        (LSet.remove ((y.rd (.post copy d)).members copy) d)
      split
      · exact h2
      · exact rof_scanPosting hc limit ds _ h2 hn
    · exact rof_scanPosting hc limit ds _ (rof_rd h _) hn

theorem scanPosting_next {copy : Oid} (limit : Nat) :
    ∀ (ds out : List Int) (y : FTx V), (FTx.scanPosting y copy limit ds out).1.next = y.next
  | [], _, _ => rfl
  | d :: ds, out, y => by
    unfold FTx.scanPosting
    simp only
    split
    · split
      · rfl
      · rw [scanPosting_next limit ds]; rfl
    · rw [scanPosting_next limit ds]; rfl

theorem rof_scanValues {x : FTx V} {copy : Oid} (hc : FreshFrom x.me x.next copy) (limit : Nat) :
    ∀ (vs : List V) (out : List Int) {y : FTx V}, ROF x y → copy.2 < y.next →
      ROF x (FTx.scanValues y copy limit vs out).1
  | [], _, _, h, _ => h
  | v :: vs, out, y, h, hn => by
    unfold FTx.scanValues
    simp only
    cases hg : AMap.get (y.rd (.fwd v)).heap.fwd v with
    | none => exact rof_scanValues hc limit vs out (rof_rd h _) hn
    | some o =>
      simp only
      have h2 := rof_scanPosting hc limit ((y.rd (.fwd v)).members o) out (rof_rd (rof_rd h (.fwd v)) (.whole o)) hn
      split
      · exact h2
      · refine rof_scanValues hc limit vs _ h2 ?_
        rw [scanPosting_next]; exact hn

/-- `scan_forward`: the ids it removes are removed from a copy allocated by the call, whatever it
was given -/
theorem rof_scanForward (x : FTx V) (src : RRef) (order : List V) (limit : Nat) :
    ROF x (x.scanForward src order limit).1 ∧ FreshFrom x.me x.next (x.scanForward src order limit).2.2 := by
  unfold FTx.scanForward
  simp only
  obtain ⟨a, b, c, _⟩ := rof_allocW (rof_refl x) (x.deref src)
  exact ⟨rof_scanValues b limit order [] a c, b⟩

/-- objects of a heap never carry identities the allocator has yet to hand out -/
def OwnF (x : FTx V) : Prop := ∀ o, (AMap.get x.heap.post o).isSome → o.1 = x.me → o.2 < x.next

theorem provF_fresh {x : FTx V} (hown : OwnF x) {o : Oid} (ho : FreshFrom x.me x.next o) :
    provF x.heap (.obj o) = .fresh := by
  cases hg : (AMap.get x.heap.post o).isSome with
  | false => simp [provF, hg]
  | true => exact absurd (hown o hg ho.1) (Nat.not_lt.mpr ho.2)

end Field

/-! ## keyword index -/
section Kw
variable {K : Type} [DecidableEq K]
open Hyp.Keyword (Tag)

structure ROK (x y : KTx K) : Prop where
  me : y.me = x.me
  next : x.next ≤ y.next
  fwd : y.heap.fwd = x.heap.fwd
  rev : y.heap.rev = x.heap.rev
  ni : y.heap.ni = x.heap.ni
  len : y.heap.len = x.heap.len
  post : ∀ o, ¬ FreshFrom x.me x.next o → AMap.get y.heap.post o = AMap.get x.heap.post o
  writes : ∃ add, y.writes = add ++ x.writes ∧
    ∀ l ∈ add, ∃ o, l.obj = .post o ∧ FreshFrom x.me x.next o ∧ o.2 < y.next

theorem rok_refl (x : KTx K) : ROK x x :=
  ⟨rfl, Nat.le_refl _, rfl, rfl, rfl, rfl, fun _ _ => rfl, [], rfl, fun _ h => by simp at h⟩

theorem rok_rd {x y : KTx K} (h : ROK x y) (l : Loc K) : ROK x (y.rd l) :=
  ⟨h.me, h.next, h.fwd, h.rev, h.ni, h.len, h.post, h.writes⟩

theorem rok_foldl_rd {α : Type} {x : KTx K} (f : α → Loc K) : ∀ (l : List α) {y : KTx K}, ROK x y →
    ROK x (l.foldl (fun x a => x.rd (f a)) y)
  | [], _, h => h
  | a :: l, _, h => rok_foldl_rd f l (rok_rd h _)

theorem rok_allocW {x y : KTx K} (h : ROK x y) (s : List Int) :
    ROK x (y.allocW s).1 ∧ FreshFrom x.me x.next (y.allocW s).2 ∧ (y.allocW s).2.2 < (y.allocW s).1.next := by
  have hf : FreshFrom x.me x.next (y.me, y.next) := ⟨h.me, h.next⟩
  refine ⟨⟨h.me, Nat.le_succ_of_le h.next, h.fwd, h.rev, h.ni, h.len, ?_, ?_⟩, hf, Nat.lt_succ_self _⟩
  · intro o ho
    have hne : (y.me, y.next) ≠ o := fun e => ho (e ▸ hf)
    show AMap.get (AMap.set y.heap.post (y.me, y.next) (Tag.set, s)) o = _
    rw [AMap.get_set, if_neg hne]; exact h.post o ho
  · obtain ⟨add, e, ha⟩ := h.writes
    refine ⟨.whole (y.me, y.next) :: add, by show _ :: y.writes = _; rw [e]; rfl, ?_⟩
    intro l hl
    rcases List.mem_cons.mp hl with rfl | hl
    · exact ⟨(y.me, y.next), rfl, hf, Nat.lt_succ_self _⟩
    · obtain ⟨o, e1, e2, e3⟩ := ha l hl
      exact ⟨o, e1, e2, Nat.lt_succ_of_lt e3⟩

theorem rdAllK_heap (y : KTx K) : y.rdAllNi.rdAllRev.heap = y.heap := by
  have : ∀ {α : Type} (f : α → Loc K) (l : List α) (z : KTx K),
      (l.foldl (fun x a => x.rd (f a)) z).heap = z.heap := by
    intro α f l
    induction l with
    | nil => intro z; rfl
    | cons a l ih => intro z; exact (ih _).trans rfl
  unfold KTx.rdAllRev KTx.rdAllNi
  rw [this, this]

theorem rok_docids (x : KTx K) :
    ROK x x.docids.1 ∧
    (x.docids.2 = .ni ∧ x.heap.ni ≠ [] ∧ x.heap.rev = [] ∨
     ∃ o, x.docids.2 = .obj o ∧ FreshFrom x.me x.next o ∧ ¬ (x.heap.ni ≠ [] ∧ x.heap.rev = [])) := by
  unfold KTx.docids
  simp only
  have hr : ROK x x.rdAllNi.rdAllRev := by
    unfold KTx.rdAllRev KTx.rdAllNi
    exact rok_foldl_rd _ _ (rok_foldl_rd _ _ (rok_refl x))
  have hh := rdAllK_heap x
  by_cases h1 : x.rdAllNi.rdAllRev.heap.ni = []
  · rw [if_pos h1]
    obtain ⟨a, b, _⟩ := rok_allocW hr (AMap.keys x.rdAllNi.rdAllRev.heap.rev)
    refine ⟨a, Or.inr ⟨_, rfl, b, ?_⟩⟩
    rw [hh] at h1; exact fun e => e.1 h1
  · rw [if_neg h1]
    by_cases h2 : x.rdAllNi.rdAllRev.heap.rev = []
    · rw [if_pos h2]
      rw [hh] at h1 h2
      exact ⟨hr, Or.inl ⟨rfl, h1, h2⟩⟩
    · rw [if_neg h2]
      obtain ⟨a, _, _⟩ := rok_allocW hr (AMap.keys x.rdAllNi.rdAllRev.heap.rev)
      obtain ⟨a2, b2, _⟩ := rok_allocW a
        (LSet.union x.rdAllNi.rdAllRev.heap.ni (AMap.keys x.rdAllNi.rdAllRev.heap.rev))
      refine ⟨a2, Or.inr ⟨_, rfl, b2, ?_⟩⟩
      rw [hh] at h2; exact fun e => h2 e.2

/-- `search([word], 'and')`: nothing is written but objects of the call; the result is the stored
posting itself when the keyword has documents -/
theorem rok_searchOne (x : KTx K) (k : K) :
    ROK x (x.searchOne k).1 ∧
    ((∃ o, AMap.get x.heap.fwd k = some o ∧ (x.obj o).2 ≠ [] ∧ (x.searchOne k).2 = o) ∨
     FreshFrom x.me x.next (x.searchOne k).2) := by
  unfold KTx.searchOne
  simp only
  cases hg : AMap.get (x.rd (.fwd k)).heap.fwd k with
  | none =>
    simp only
    obtain ⟨a, _, _⟩ := rok_allocW (rok_rd (rok_refl x) (.fwd k)) []
    obtain ⟨a2, b2, _⟩ := rok_allocW a []
    exact ⟨a2, Or.inr b2⟩
  | some o =>
    simp only
    by_cases he : (((x.rd (.fwd k)).rd (.whole o)).obj o).2 = []
    · rw [if_pos he]
      obtain ⟨a, b, _⟩ := rok_allocW (rok_rd (rok_rd (rok_refl x) (.fwd k)) (.whole o)) []
      exact ⟨a, Or.inr b⟩
    · rw [if_neg he]
      exact ⟨rok_rd (rok_rd (rok_refl x) _) _, Or.inl ⟨o, hg, he, rfl⟩⟩

theorem rok_searchOr_fold {x : KTx K} : ∀ (ks : List K) {y : KTx K}, ROK x y →
    ROK x (ks.foldl (fun x k =>
      match AMap.get x.heap.fwd k with
      | some o => (x.rd (.fwd k)).rd (.whole o)
      | none => x.rd (.fwd k)) y)
  | [], _, h => h
  | k :: ks, y, h => by
    apply rok_searchOr_fold ks
    dsimp only
    split
    · exact rok_rd (rok_rd h _) _
    · exact rok_rd h _

theorem rok_searchOr (x : KTx K) (ks : List K) :
    ROK x (x.searchOr ks).1 ∧ FreshFrom x.me x.next (x.searchOr ks).2 := by
  unfold KTx.searchOr
  simp only
  obtain ⟨a, b, _⟩ := rok_allocW (rok_searchOr_fold ks (rok_refl x))
    (Keyword.dedup (ks.flatMap (fun k => x.heap.posting k)))
  split
  · obtain ⟨a2, b2, _⟩ := rok_allocW a []
    exact ⟨a2, b2⟩
  · exact ⟨a, b⟩

end Kw

end Hyp.CIdx
