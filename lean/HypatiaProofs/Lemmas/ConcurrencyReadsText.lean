import HypatiaProofs.Lemmas.ConcurrencyReads

/-!
Object-level reads of the text index write only to objects allocated during the call (`ROT`).
-/
set_option linter.unusedSectionVars false
set_option linter.unusedSimpArgs false
set_option linter.unusedVariables false
namespace Hyp.CIdx
open Hyp Hyp.Alias

variable {W Wt : Type} [DecidableEq W] [DecidableEq Wt]

/-- `y` is reached from `x` by a read: every stored object is as it was, every mutation step
notifies and belongs to an `IFBTree` / `IF.Bucket` allocated since `x` -/
structure ROT (x y : TTx W Wt) : Prop where
  me : y.me = x.me
  next : x.next ≤ y.next
  rest : { y.heap with tree := x.heap.tree } = x.heap
  tree : ∀ o, ¬ FreshFrom x.me x.next o → AMap.get y.heap.tree o = AMap.get x.heap.tree o
  log : ∃ add, y.log = add ++ x.log ∧
    ∀ s ∈ add, s.notify = true ∧ ∃ o, s.loc.obj = .tree o ∧ FreshFrom x.me x.next o ∧ o.2 < y.next

theorem rot_refl (x : TTx W Wt) : ROT x x :=
  ⟨rfl, Nat.le_refl _, rfl, fun _ _ => rfl, [], rfl, fun _ h => by simp at h⟩

theorem rot_rd {x y : TTx W Wt} (h : ROT x y) (l : TLoc W) : ROT x (y.rd l) :=
  ⟨h.me, h.next, h.rest, h.tree, h.log⟩

theorem rot_foldl_rd {α : Type} {x : TTx W Wt} (f : α → TLoc W) : ∀ (l : List α) {y : TTx W Wt}, ROT x y →
    ROT x (l.foldl (fun x a => x.rd (f a)) y)
  | [], _, h => h
  | a :: l, _, h => rot_foldl_rd f l (rot_rd h _)

theorem rot_rdTree {x y : TTx W Wt} (h : ROT x y) (o : Oid) : ROT x (y.rdTree o) := by
  unfold TTx.rdTree
  exact rot_foldl_rd (fun e : Int × Wt => TLoc.tree o e.1) _ (rot_rd h _)

theorem rdTree_heap (y : TTx W Wt) (o : Oid) : (y.rdTree o).heap = y.heap ∧ (y.rdTree o).next = y.next := by
  have : ∀ (l : List (Int × Wt)) (z : TTx W Wt),
      (l.foldl (fun x e => x.rd (.tree o e.1)) z).heap = z.heap ∧
      (l.foldl (fun x e => x.rd (.tree o e.1)) z).next = z.next := by
    intro l
    induction l with
    | nil => intro z; exact ⟨rfl, rfl⟩
    | cons a l ih => intro z; exact ih _
  unfold TTx.rdTree
  exact this _ _

theorem rot_alloc {x y : TTx W Wt} (h : ROT x y) (m : AMap Int Wt) :
    ROT x (y.alloc m).1 ∧ FreshFrom x.me x.next (y.alloc m).2 ∧ (y.alloc m).2.2 < (y.alloc m).1.next ∧
    (y.alloc m).1.treeOf (y.alloc m).2 = m := by
  have hf : FreshFrom x.me x.next (y.me, y.next) := ⟨h.me, h.next⟩
  refine ⟨⟨h.me, Nat.le_succ_of_le h.next, h.rest, ?_, ?_⟩, hf, Nat.lt_succ_self _, ?_⟩
  · intro o ho
    have hne : (y.me, y.next) ≠ o := fun e => ho (e ▸ hf)
    show AMap.get (AMap.set y.heap.tree (y.me, y.next) m) o = _
    rw [AMap.get_set, if_neg hne]; exact h.tree o ho
  · obtain ⟨add, e, ha⟩ := h.log
    refine ⟨⟨.whole (y.me, y.next), true⟩ :: add, by show _ :: y.log = _; rw [e]; rfl, ?_⟩
    intro s hs
    rcases List.mem_cons.mp hs with rfl | hs
    · exact ⟨rfl, (y.me, y.next), rfl, hf, Nat.lt_succ_self _⟩
    · obtain ⟨e0, o, e1, e2, e3⟩ := ha s hs
      exact ⟨e0, o, e1, e2, Nat.lt_succ_of_lt e3⟩
  · simp [TTx.alloc, TTx.treeOf, TTx.nt, AMap.get_set]

/-- a write to an object allocated since `x` -/
theorem rot_treePut {x y : TTx W Wt} (h : ROT x y) {o : Oid} (ho : FreshFrom x.me x.next o) (ho2 : o.2 < y.next)
    (d : Int) (f : Wt) : ROT x (y.treePut o d f) ∧ (y.treePut o d f).next = y.next := by
  unfold TTx.treePut
  split
  · exact ⟨h, rfl⟩
  · refine ⟨⟨h.me, h.next, h.rest, ?_, ?_⟩, rfl⟩
    · intro o' ho'
      have hne : o ≠ o' := fun e => ho' (e ▸ ho)
      show AMap.get (AMap.set y.heap.tree o _) o' = _
      rw [AMap.get_set, if_neg hne]; exact h.tree o' ho'
    · obtain ⟨add, e, ha⟩ := h.log
      refine ⟨⟨.tree o d, true⟩ :: add, by show _ :: y.log = _; rw [e]; rfl, ?_⟩
      intro s hs
      rcases List.mem_cons.mp hs with rfl | hs
      · exact ⟨rfl, o, rfl, ho, ho2⟩
      · exact ha s hs

theorem rot_foldl_treePut {x : TTx W Wt} {o : Oid} (ho : FreshFrom x.me x.next o) (g : Int × Wt → Wt) :
    ∀ (l : List (Int × Wt)) {y : TTx W Wt}, ROT x y → o.2 < y.next →
      ROT x (l.foldl (fun x e => x.treePut o e.1 (g e)) y) ∧
      (l.foldl (fun x e => x.treePut o e.1 (g e)) y).next = y.next
  | [], _, h, _ => ⟨h, rfl⟩
  | e :: l, y, h, hn => by
    obtain ⟨a, b⟩ := rot_treePut h ho hn e.1 (g e)
    obtain ⟨a2, b2⟩ := rot_foldl_treePut ho g l a (by rw [b]; exact hn)
    exact ⟨a2, b2.trans b⟩

/-- Okapi `_search_wids`: a new bucket, filled by the call -/
theorem rot_okapiSearchWid {x y : TTx W Wt} (h : ROT x y) (score : Int → Wt → Wt) (wid : Nat) :
    ROT x (y.okapiSearchWid score wid).1 ∧ FreshFrom x.me x.next (y.okapiSearchWid score wid).2 ∧
    (y.okapiSearchWid score wid).2.2 < (y.okapiSearchWid score wid).1.next := by
  unfold TTx.okapiSearchWid
  simp only
  have h1 : ROT x (((y.rd .indexedCount).rd .totalDocLen).rd (.wi wid)) := rot_rd (rot_rd (rot_rd h _) _) _
  have h2 : ROT x (match AMap.get (((y.rd .indexedCount).rd .totalDocLen).rd (.wi wid)).heap.wordinfo wid with
      | some (.ref o) => (((y.rd .indexedCount).rd .totalDocLen).rd (.wi wid)).rdTree o
      | _ => ((y.rd .indexedCount).rd .totalDocLen).rd (.wi wid)) := by
    split
    · exact rot_rdTree h1 _
    · exact h1
  have h3 := rot_foldl_rd (fun e : Int × Wt => TLoc.docweight e.1)
    ((match AMap.get (((y.rd .indexedCount).rd .totalDocLen).rd (.wi wid)).heap.wordinfo wid with
      | some (.ref o) => (((y.rd .indexedCount).rd .totalDocLen).rd (.wi wid)).rdTree o
      | _ => ((y.rd .indexedCount).rd .totalDocLen).rd (.wi wid)).heap.posting wid) h2
  obtain ⟨a, b, c, _⟩ := rot_alloc h3 []
  obtain ⟨a2, b2⟩ := rot_foldl_treePut b (fun e => score e.1 e.2) _ a c
  exact ⟨a2, b, Nat.lt_of_lt_of_eq c b2.symm⟩

/-- cosine `_search_wids`: the stored tree itself for an `IFBTree` posting, a new bucket for a dict -/
theorem rot_cosineSearchWid {x y : TTx W Wt} (h : ROT x y) (wid : Nat) :
    ROT x (y.cosineSearchWid wid).1 ∧
    (match AMap.get y.heap.wordinfo wid with
     | some (.ref o) => (y.cosineSearchWid wid).2 = some o
     | some (.dict _) => ∃ o, (y.cosineSearchWid wid).2 = some o ∧ FreshFrom x.me x.next o ∧
         o.2 < (y.cosineSearchWid wid).1.next
     | none => (y.cosineSearchWid wid).2 = none) := by
  unfold TTx.cosineSearchWid
  simp only
  have e : (y.rd (.wi wid)).heap.wordinfo = y.heap.wordinfo := rfl
  rw [e]
  cases hg : AMap.get y.heap.wordinfo wid with
  | none => exact ⟨rot_rd h _, rfl⟩
  | some v =>
    cases v with
    | ref o => exact ⟨rot_rd (rot_rd h _) _, rfl⟩
    | dict m =>
      obtain ⟨a, b, c, _⟩ := rot_alloc (rot_rd h (.wi wid)) m
      exact ⟨a, _, rfl, b, c⟩

theorem rot_trivialOne {x y : TTx W Wt} (h : ROT x y) (r : Oid) (w1 : Bool) (scale : Wt → Wt) :
    ROT x (y.trivialOne r w1 scale).1 ∧
    (w1 = true ∧ (y.trivialOne r w1 scale).2 = r ∧ (y.trivialOne r w1 scale).1.next = y.next ∨
     w1 = false ∧ FreshFrom x.me x.next (y.trivialOne r w1 scale).2 ∧
       (y.trivialOne r w1 scale).2.2 < (y.trivialOne r w1 scale).1.next) := by
  unfold TTx.trivialOne
  cases w1 with
  | true => exact ⟨h, Or.inl ⟨by simp, rfl, rfl⟩⟩
  | false =>
    simp only [Bool.false_eq_true, if_false]
    obtain ⟨a, _, _, _⟩ := rot_alloc h []
    obtain ⟨a2, b2, c2, _⟩ := rot_alloc a ((y.treeOf r).map (fun e => (e.1, scale e.2)))
    exact ⟨a2, Or.inr ⟨by simp, b2, c2⟩⟩

/-- the in-place division of `TextIndex.apply`, on a container allocated by the call -/
theorem rot_rescale {x y : TTx W Wt} (h : ROT x y) {r : Oid} (hr : FreshFrom x.me x.next r) (hn : r.2 < y.next)
    (div : Wt → Wt) : ROT x (y.rescale r div) := by
  unfold TTx.rescale
  have h1 := rot_rdTree h r
  have hn' : r.2 < (y.rdTree r).next := by rw [(rdTree_heap y r).2]; exact hn
  exact (rot_foldl_treePut hr (fun e => div e.2) _ h1 hn').1

/-- **Okapi**: `TextIndex.apply` of a one-word query rescales a bucket of its own -/
theorem rot_applyOkapi (x : TTx W Wt) (score : Int → Wt → Wt) (div : Wt → Wt) (wid : Nat) :
    ROT x (x.applyOkapi score div wid).1 ∧ FreshFrom x.me x.next (x.applyOkapi score div wid).2 := by
  unfold TTx.applyOkapi
  simp only
  obtain ⟨a, b, c⟩ := rot_okapiSearchWid (rot_refl x) score wid
  obtain ⟨a2, b2⟩ := rot_trivialOne a (x.okapiSearchWid score wid).2 true id
  rcases b2 with ⟨_, e, en⟩ | ⟨e, _⟩
  · rw [e]
    exact ⟨rot_rescale a2 b (by rw [en]; exact c) div, b⟩
  · cases e

/-- **cosine**: the rescaled container is allocated by the call whenever the posting is a dict or
the idf is not exactly 1 -/
theorem rot_applyCosine (x : TTx W Wt) (idfIsOne : Bool) (scale div : Wt → Wt) (wid : Nat)
    (hsafe : idfIsOne = false ∨ ∃ m, AMap.get x.heap.wordinfo wid = some (.dict m)) :
    ROT x (x.applyCosine idfIsOne scale div wid).1 ∧
    ∀ o, (x.applyCosine idfIsOne scale div wid).2 = some o → FreshFrom x.me x.next o := by
  unfold TTx.applyCosine
  simp only
  obtain ⟨a, b⟩ := rot_cosineSearchWid (rot_refl x) wid
  cases hr : (x.cosineSearchWid wid).2 with
  | none => exact ⟨a, fun o e => by cases e⟩
  | some o =>
    simp only
    obtain ⟨a2, b2⟩ := rot_trivialOne a o idfIsOne scale
    rcases b2 with ⟨e1, e2, en⟩ | ⟨e1, e2, e3⟩
    · -- weight 1: the operand itself is rescaled; it must be the new bucket of a dict posting
      rcases hsafe with hs | ⟨m, hm⟩
      · rw [hs] at e1; cases e1
      · rw [hm] at b
        obtain ⟨o', eo, fo, no⟩ := b
        rw [hr] at eo; cases eo
        rw [e2]
        exact ⟨rot_rescale a2 fo (by rw [en]; exact no) div, fun o'' e => by cases e; exact fo⟩
    · exact ⟨rot_rescale a2 e2 e3 div, fun o'' e => by cases e; exact e2⟩

def OwnT (x : TTx W Wt) : Prop := ∀ o, (AMap.get x.heap.tree o).isSome → o.1 = x.me → o.2 < x.next

theorem provT_fresh {x : TTx W Wt} (hown : OwnT x) {o : Oid} (ho : FreshFrom x.me x.next o) :
    provT x.heap o = .fresh := by
  cases hg : (AMap.get x.heap.tree o).isSome with
  | false => simp [provT, hg]
  | true => exact absurd (hown o hg ho.1) (Nat.not_lt.mpr ho.2)

end Hyp.CIdx
