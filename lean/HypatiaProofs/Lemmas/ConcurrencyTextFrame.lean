import HypatiaProofs.Lemmas.ConcurrencyTextInv8

/-!
Frame of a transaction on the object-level text index (`TFrame`): along every sequence of valid
primitive steps on docids `D`, starting from a structurally well-formed snapshot `H`,

* identities: tree objects are the snapshot's or `(me, n)` below the allocator; the snapshot's
  objects stay; references resolve; a reference to a snapshot tree is the snapshot's reference
  for that word; a snapshot tree that is no longer referenced under its word has been emptied;
* docid-keyed entries of foreign docids (`¬ D d`) are as in the snapshot – in `_docwords`,
  `_docweight`, `_not_indexed`, in every snapshot tree and in every posting;
* the lexicon only grows.
-/
set_option linter.unusedSectionVars false
set_option linter.unusedSimpArgs false
set_option linter.unusedVariables false
namespace Hyp.CIdx
open Hyp

variable {W Wt : Type} [DecidableEq W] [DecidableEq Wt]

structure TFrame (H : THeap W Wt) (D : Int → Prop) (me : Nat) (y : TTx W Wt) : Prop where
  meq : y.me = me
  own : ∀ o, (AMap.get y.heap.tree o).isSome → (AMap.get H.tree o).isSome ∨ (o.1 = me ∧ o.2 < y.next)
  keep : ∀ o, (AMap.get H.tree o).isSome → (AMap.get y.heap.tree o).isSome
  refs : ∀ i o, AMap.get y.heap.wordinfo i = some (.ref o) → (AMap.get y.heap.tree o).isSome
  inh : ∀ i o, AMap.get y.heap.wordinfo i = some (.ref o) → (AMap.get H.tree o).isSome →
    AMap.get H.wordinfo i = some (.ref o)
  emp : ∀ i o, AMap.get H.wordinfo i = some (.ref o) → AMap.get y.heap.wordinfo i ≠ some (.ref o) →
    AMap.get y.heap.tree o = some []
  dw : ∀ d, ¬ D d → AMap.get y.heap.docwords d = AMap.get H.docwords d
  dwt : ∀ d, ¬ D d → AMap.get y.heap.docweight d = AMap.get H.docweight d
  ni : ∀ d, ¬ D d → (d ∈ y.heap.ni ↔ d ∈ H.ni)
  tr : ∀ o d, ¬ D d → (AMap.get H.tree o).isSome →
    AMap.get ((AMap.get y.heap.tree o).getD []) d = AMap.get ((AMap.get H.tree o).getD []) d
  pt : ∀ i d, ¬ D d → pt y.heap i d = pt H i d
  grow : ∀ w i, AMap.get H.wids w = some i → AMap.get y.heap.wids w = some i

theorem tframe_start {H : THeap W Wt} (hs : TStruct H) (D : Int → Prop) (me : Nat) : TFrame H D me (TTx.start H me) :=
  ⟨rfl, fun _ h => Or.inl h, fun _ h => h, hs.refs, fun _ _ h _ => h, fun _ _ h h' => absurd h h',
   fun _ _ => rfl, fun _ _ => rfl, fun _ _ => Iff.rfl, fun _ _ _ _ => rfl, fun _ _ _ => rfl, fun _ _ h => h⟩

/-- a step that moves nothing the frame talks about (reads, `Length`s) or only the lexicon -/
theorem tframe_of_eq {H : THeap W Wt} {D : Int → Prop} {me : Nat} {y z : TTx W Wt} (hf : TFrame H D me y)
    (e1 : z.heap.tree = y.heap.tree) (e2 : z.heap.wordinfo = y.heap.wordinfo) (e3 : z.heap.docwords = y.heap.docwords)
    (e4 : z.heap.docweight = y.heap.docweight) (e5 : z.heap.ni = y.heap.ni) (e6 : z.me = y.me) (e7 : z.next = y.next)
    (hg : ∀ w i, AMap.get H.wids w = some i → AMap.get z.heap.wids w = some i) : TFrame H D me z :=
  ⟨e6.trans hf.meq, by rw [e1, e7]; exact hf.own, by rw [e1]; exact hf.keep, by rw [e1, e2]; exact hf.refs,
   by rw [e2]; exact hf.inh, by rw [e1, e2]; exact hf.emp, by rw [e3]; exact hf.dw, by rw [e4]; exact hf.dwt,
   by rw [e5]; exact hf.ni, by rw [e1]; exact hf.tr, fun i d hd => by rw [pt_congr e2 e1]; exact hf.pt i d hd, hg⟩

theorem posting_wi_set (h : THeap W Wt) (i : Nat) (v : PVal Wt) (j : Nat) :
    ({ h with wordinfo := AMap.set h.wordinfo i v } : THeap W Wt).posting j =
      if i = j then pvalPosting h (some v) else h.posting j := by
  rw [posting_of_get]
  show pvalPosting _ (AMap.get (AMap.set h.wordinfo i v) j) = _
  rw [AMap.get_set]
  by_cases e : i = j
  · simp only [e, if_true]; cases v <;> rfl
  · simp only [e, if_false]
    rw [posting_of_get]
    cases AMap.get h.wordinfo j with
    | none => rfl
    | some vj => cases vj <;> rfl

theorem posting_wi_erase (h : THeap W Wt) (i : Nat) (j : Nat) :
    ({ h with wordinfo := AMap.erase h.wordinfo i } : THeap W Wt).posting j =
      if i = j then [] else h.posting j := by
  rw [posting_of_get]
  show pvalPosting _ (AMap.get (AMap.erase h.wordinfo i) j) = _
  rw [AMap.get_erase]
  by_cases e : i = j
  · simp only [e, if_true]; rfl
  · simp only [e, if_false]
    rw [posting_of_get]
    cases AMap.get h.wordinfo j with
    | none => rfl
    | some vj => cases vj <;> rfl

theorem posting_tree_set (h : THeap W Wt) (o : Oid) (t : AMap Int Wt) (j : Nat) :
    ({ h with tree := AMap.set h.tree o t } : THeap W Wt).posting j =
      if AMap.get h.wordinfo j = some (.ref o) then t else h.posting j := by
  rw [posting_of_get, posting_of_get]
  show pvalPosting _ (AMap.get h.wordinfo j) = _
  cases hj : AMap.get h.wordinfo j with
  | none => simp [pvalPosting]
  | some vj =>
    cases vj with
    | dict m => simp [pvalPosting]
    | ref o' =>
      simp only [pvalPosting]
      show ((AMap.get (AMap.set h.tree o t) o').getD []) = _
      rw [AMap.get_set]
      by_cases e : o = o'
      · subst e; simp
      · have : ¬ (PVal.ref (Wt := Wt) o' = PVal.ref o) := fun h => e (by cases h; rfl)
        simp [e, this]

/-- the in-place dict steps: the bucket key holds a new dict that agrees with the old one outside `D` -/
theorem tframe_dict {H : THeap W Wt} (hs : TStruct H) {D : Int → Prop} {me : Nat} {y z : TTx W Wt}
    (hf : TFrame H D me y) (i : Nat) (m : AMap Int Wt) (hcur : AMap.get y.heap.wordinfo i = some (.dict m))
    (v : Option (PVal Wt)) (hv : ∀ o, v ≠ some (.ref o))
    (hwi : ∀ j, AMap.get z.heap.wordinfo j = if i = j then v else AMap.get y.heap.wordinfo j)
    (hp : ∀ d, ¬ D d → AMap.get (pvalPosting y.heap v) d = AMap.get m d)
    (e1 : z.heap.tree = y.heap.tree) (e3 : z.heap.docwords = y.heap.docwords)
    (e4 : z.heap.docweight = y.heap.docweight) (e5 : z.heap.ni = y.heap.ni) (e6 : z.me = y.me) (e7 : z.next = y.next)
    (e8 : z.heap.wids = y.heap.wids) : TFrame H D me z := by
  refine ⟨e6.trans hf.meq, by rw [e1, e7]; exact hf.own, by rw [e1]; exact hf.keep, ?_, ?_, ?_, by rw [e3]; exact hf.dw,
    by rw [e4]; exact hf.dwt, by rw [e5]; exact hf.ni, by rw [e1]; exact hf.tr, ?_, by rw [e8]; exact hf.grow⟩
  · intro j o hj
    rw [hwi j] at hj
    by_cases e : i = j
    · rw [if_pos e] at hj; exact absurd hj (hv o)
    · rw [if_neg e] at hj; rw [e1]; exact hf.refs j o hj
  · intro j o hj ho
    rw [hwi j] at hj
    by_cases e : i = j
    · rw [if_pos e] at hj; exact absurd hj (hv o)
    · rw [if_neg e] at hj; exact hf.inh j o hj ho
  · intro j o hH hne
    rw [e1]
    apply hf.emp j o hH
    by_cases e : i = j
    · subst e; rw [hcur]; simp
    · rw [hwi j, if_neg e] at hne; exact hne
  · intro j d hd
    unfold pt
    rw [posting_of_get, hwi j]
    by_cases e : i = j
    · subst e
      rw [if_pos rfl]
      have : pvalPosting z.heap v = pvalPosting y.heap v := by
        cases v with
        | none => rfl
        | some pv =>
          cases pv with
          | dict m' => rfl
          | ref o => exact absurd rfl (hv o)
      rw [this, hp d hd]
      have h2 := hf.pt i d hd
      unfold pt at h2
      rw [posting_of_get, hcur] at h2
      exact h2
    · rw [if_neg e]
      have h2 := hf.pt j d hd
      unfold pt at h2
      rw [posting_of_get] at h2
      have : pvalPosting z.heap (AMap.get y.heap.wordinfo j) = pvalPosting y.heap (AMap.get y.heap.wordinfo j) := by
        cases AMap.get y.heap.wordinfo j with
        | none => rfl
        | some pv => cases pv with
          | dict m' => rfl
          | ref o => simp only [pvalPosting]; rw [e1]
      rw [this]; exact h2

end Hyp.CIdx
