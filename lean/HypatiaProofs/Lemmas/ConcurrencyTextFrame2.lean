import HypatiaProofs.Lemmas.ConcurrencyTextFrame

/-!
Every valid primitive step keeps the frame (`tframe_prim`), hence every history of operations does
(`tframe_run`).
-/
set_option linter.unusedSectionVars false
set_option linter.unusedSimpArgs false
set_option linter.unusedVariables false
namespace Hyp.CIdx
open Hyp

variable {W Wt : Type} [DecidableEq W] [DecidableEq Wt]

/-- a write into an existing tree object that is referenced or the transaction's own -/
theorem tframe_tree {H : THeap W Wt} (hs : TStruct H) {D : Int → Prop} {me : Nat}
    (hown : ∀ o, (AMap.get H.tree o).isSome → o.1 ≠ me) {y z : TTx W Wt} (hf : TFrame H D me y)
    (o : Oid) (t' : AMap Int Wt) (hex : (AMap.get y.heap.tree o).isSome)
    (href : (∃ i, AMap.get y.heap.wordinfo i = some (.ref o)) ∨ o.1 = y.me)
    (hagree : ∀ d, ¬ D d → AMap.get t' d = AMap.get ((AMap.get y.heap.tree o).getD []) d)
    (e1 : z.heap.tree = AMap.set y.heap.tree o t') (e2 : z.heap.wordinfo = y.heap.wordinfo)
    (e3 : z.heap.docwords = y.heap.docwords) (e4 : z.heap.docweight = y.heap.docweight) (e5 : z.heap.ni = y.heap.ni)
    (e6 : z.me = y.me) (e7 : z.next = y.next) (e8 : z.heap.wids = y.heap.wids) : TFrame H D me z := by
  have hget : ∀ o', AMap.get z.heap.tree o' = if o = o' then some t' else AMap.get y.heap.tree o' := by
    intro o'; rw [e1, AMap.get_set]
  -- `o` is not a snapshot tree whose word dropped it
  have hnotemp : ∀ j o', AMap.get H.wordinfo j = some (.ref o') → AMap.get y.heap.wordinfo j ≠ some (.ref o') → o ≠ o' := by
    intro j o' hH hne e
    subst e
    rcases href with ⟨i, hi⟩ | hm
    · have := hf.inh i o hi (hs.refs j o hH)
      have hij := hs.inj i j o this hH
      subst hij
      exact hne hi
    · exact hown o (hs.refs j o hH) (hm.trans hf.meq)
  refine ⟨e6.trans hf.meq, ?_, ?_, ?_, by rw [e2]; exact hf.inh, ?_, by rw [e3]; exact hf.dw, by rw [e4]; exact hf.dwt,
    by rw [e5]; exact hf.ni, ?_, ?_, by rw [e8]; exact hf.grow⟩
  · intro o' ho'
    rw [hget o'] at ho'
    rw [e7]
    by_cases e : o = o'
    · subst e; exact hf.own o hex
    · rw [if_neg e] at ho'; exact hf.own o' ho'
  · intro o' ho'
    rw [hget o']
    split
    · rfl
    · exact hf.keep o' ho'
  · intro i o' hi
    rw [e2] at hi
    rw [hget o']
    split
    · rfl
    · exact hf.refs i o' hi
  · intro j o' hH hne
    rw [e2] at hne
    rw [hget o', if_neg (hnotemp j o' hH hne)]
    exact hf.emp j o' hH hne
  · intro o' d hd ho'
    rw [hget o']
    by_cases e : o = o'
    · subst e
      simp only [if_true, Option.getD_some]
      rw [hagree d hd]; exact hf.tr o d hd ho'
    · rw [if_neg e]; exact hf.tr o' d hd ho'
  · intro j d hd
    have h2 := hf.pt j d hd
    unfold pt at h2 ⊢
    rw [← h2, posting_of_get, posting_of_get, e2]
    cases hj : AMap.get y.heap.wordinfo j with
    | none => rfl
    | some pv =>
      cases pv with
      | dict m => rfl
      | ref o' =>
        simp only [pvalPosting]
        rw [hget o']
        by_cases e : o = o'
        · subst e
          simp only [if_true, Option.getD_some]
          exact hagree d hd
        · rw [if_neg e]

theorem tframe_prim {H : THeap W Wt} (hs : TStruct H) {D : Int → Prop} {me : Nat}
    (hown : ∀ o, (AMap.get H.tree o).isSome → o.1 ≠ me) (p : TPrim W Wt) {y : TTx W Wt} (hf : TFrame H D me y)
    (hok : p.ok D y) : TFrame H D me (p.app y) := by
  cases p with
  | rd l => exact tframe_of_eq hf rfl rfl rfl rfl rfl rfl rfl hf.grow
  | wcChange δ => exact tframe_of_eq hf rfl rfl rfl rfl rfl rfl rfl hf.grow
  | icChange δ => exact tframe_of_eq hf rfl rfl rfl rfl rfl rfl rfl hf.grow
  | tdlChange δ => exact tframe_of_eq hf rfl rfl rfl rfl rfl rfl rfl hf.grow
  | newWord w =>
    obtain ⟨h1, h2, h3, _⟩ := newWid_frame y
    have hw : AMap.get y.heap.wids w = none := hok
    refine tframe_of_eq (z := ((TTx.newWid y).1.widsSet w (TTx.newWid y).2).wordsSet (TTx.newWid y).2 w) hf
      ?_ ?_ ?_ ?_ ?_ h2 h3 ?_
    · show (TTx.newWid y).1.heap.tree = _; rw [h1]
    · show (TTx.newWid y).1.heap.wordinfo = _; rw [h1]
    · show (TTx.newWid y).1.heap.docwords = _; rw [h1]
    · show (TTx.newWid y).1.heap.docweight = _; rw [h1]
    · show (TTx.newWid y).1.heap.ni = _; rw [h1]
    · intro w' i hw'
      show AMap.get (AMap.set (TTx.newWid y).1.heap.wids w _) w' = some i
      rw [h1, AMap.get_set]
      have hy := hf.grow w' i hw'
      have : w ≠ w' := by intro e; subst e; rw [hw] at hy; cases hy
      rw [if_neg this]; exact hy
  | wiSet i v =>
    obtain ⟨k1, k2, k3⟩ := hok
    show TFrame H D me (y.wiSet i v)
    have hget : ∀ j, AMap.get (y.wiSet i v).heap.wordinfo j = if i = j then some v else AMap.get y.heap.wordinfo j := by
      intro j; show AMap.get (AMap.set y.heap.wordinfo i v) j = _; rw [AMap.get_set]
    refine ⟨hf.meq, hf.own, hf.keep, ?_, ?_, ?_, hf.dw, hf.dwt, hf.ni, hf.tr, ?_, hf.grow⟩
    · intro j o hj
      rw [hget j] at hj
      show (AMap.get y.heap.tree o).isSome
      by_cases e : i = j
      · rw [if_pos e] at hj
        rcases k2 o (Option.some.inj hj) with h | h
        · exact hf.refs i o h
        · exact h.1
      · rw [if_neg e] at hj; exact hf.refs j o hj
    · intro j o hj ho
      rw [hget j] at hj
      by_cases e : i = j
      · rw [if_pos e] at hj
        subst e
        rcases k2 o (Option.some.inj hj) with h | h
        · exact hf.inh i o h ho
        · exact absurd (h.2.trans hf.meq) (hown o ho)
      · rw [if_neg e] at hj; exact hf.inh j o hj ho
    · intro j o hH hne
      rw [hget j] at hne
      show AMap.get y.heap.tree o = some []
      apply hf.emp j o hH
      by_cases e : i = j
      · subst e
        rw [if_pos rfl] at hne
        intro hcur
        exact hne (by rw [k3 o hcur])
      · rw [if_neg e] at hne; exact hne
    · intro j d hd
      unfold pt
      show AMap.get (({ y.heap with wordinfo := AMap.set y.heap.wordinfo i v } : THeap W Wt).posting j) d = _
      rw [posting_wi_set]
      by_cases e : i = j
      · subst e
        rw [if_pos rfl, k1 d hd]
        exact hf.pt i d hd
      · rw [if_neg e]; exact hf.pt j d hd
  | wiErase i =>
    obtain ⟨k1, k2⟩ := hok
    show TFrame H D me (y.wiErase i)
    have hget : ∀ j, AMap.get (y.wiErase i).heap.wordinfo j = if i = j then none else AMap.get y.heap.wordinfo j := by
      intro j; show AMap.get (AMap.erase y.heap.wordinfo i) j = _; rw [AMap.get_erase]
    refine ⟨hf.meq, hf.own, hf.keep, ?_, ?_, ?_, hf.dw, hf.dwt, hf.ni, hf.tr, ?_, hf.grow⟩
    · intro j o hj
      rw [hget j] at hj
      by_cases e : i = j
      · rw [if_pos e] at hj; cases hj
      · rw [if_neg e] at hj; exact hf.refs j o hj
    · intro j o hj ho
      rw [hget j] at hj
      by_cases e : i = j
      · rw [if_pos e] at hj; cases hj
      · rw [if_neg e] at hj; exact hf.inh j o hj ho
    · intro j o hH hne
      rw [hget j] at hne
      show AMap.get y.heap.tree o = some []
      by_cases e : i = j
      · subst e
        by_cases hcur : AMap.get y.heap.wordinfo i = some (.ref o)
        · exact k2 o hcur
        · exact hf.emp i o hH hcur
      · rw [if_neg e] at hne; exact hf.emp j o hH hne
    · intro j d hd
      unfold pt
      show AMap.get (({ y.heap with wordinfo := AMap.erase y.heap.wordinfo i } : THeap W Wt).posting j) d = _
      rw [posting_wi_erase]
      by_cases e : i = j
      · subst e
        rw [if_pos rfl]
        have := hf.pt i d hd
        unfold pt at this
        rw [← this, k1 d hd]; rfl
      · rw [if_neg e]; exact hf.pt j d hd
  | dictPutR i m d f =>
    obtain ⟨k1, k2⟩ := hok
    refine tframe_dict hs hf i m k1 (some (.dict (AMap.set m d f))) (fun o e => by cases e)
      (fun j => get_set_set _ _ _ _ _) ?_ rfl rfl rfl rfl rfl rfl rfl
    intro d' hd'
    have : d ≠ d' := fun e => hd' (e ▸ k2)
    show AMap.get (AMap.set m d f) d' = _
    rw [AMap.get_set, if_neg this]
  | dictDelR i m d =>
    obtain ⟨k1, k2⟩ := hok
    refine tframe_dict hs hf i m k1 (some (.dict (AMap.erase m d))) (fun o e => by cases e)
      (fun j => get_set_set _ _ _ _ _) ?_ rfl rfl rfl rfl rfl rfl rfl
    intro d' hd'
    have : d ≠ d' := fun e => hd' (e ▸ k2)
    show AMap.get (AMap.erase m d) d' = _
    rw [AMap.get_erase, if_neg this]
  | dictDelE i m d =>
    obtain ⟨k1, k2, k3⟩ := hok
    refine tframe_dict hs hf i m k1 none (fun o e => by cases e)
      (fun j => get_erase_set _ _ _ _) ?_ rfl rfl rfl rfl rfl rfl rfl
    intro d' hd'
    have : d ≠ d' := fun e => hd' (e ▸ k2)
    show AMap.get [] d' = _
    have h2 : AMap.get (AMap.erase m d) d' = AMap.get m d' := by rw [AMap.get_erase, if_neg this]
    rw [← h2, k3]
  | dwSet d ws =>
    have hd : D d := hok
    refine { hf with dw := ?_ }
    intro d' hd'
    show AMap.get (AMap.set y.heap.docwords d ws) d' = _
    have : d ≠ d' := fun e => hd' (e ▸ hd)
    rw [AMap.get_set, if_neg this]; exact hf.dw d' hd'
  | dwErase d =>
    have hd : D d := hok
    refine { hf with dw := ?_ }
    intro d' hd'
    show AMap.get (AMap.erase y.heap.docwords d) d' = _
    have : d ≠ d' := fun e => hd' (e ▸ hd)
    rw [AMap.get_erase, if_neg this]; exact hf.dw d' hd'
  | dwtSet d f =>
    have hd : D d := hok
    show TFrame H D me (y.dwtSet d f)
    unfold TTx.dwtSet
    split
    · exact hf
    · refine { hf with dwt := ?_ }
      intro d' hd'
      show AMap.get (AMap.set y.heap.docweight d f) d' = _
      have : d ≠ d' := fun e => hd' (e ▸ hd)
      rw [AMap.get_set, if_neg this]; exact hf.dwt d' hd'
  | dwtErase d =>
    have hd : D d := hok
    refine { hf with dwt := ?_ }
    intro d' hd'
    show AMap.get (AMap.erase y.heap.docweight d) d' = _
    have : d ≠ d' := fun e => hd' (e ▸ hd)
    rw [AMap.get_erase, if_neg this]; exact hf.dwt d' hd'
  | niRemove d =>
    have hd : D d := hok
    refine { hf with ni := ?_ }
    intro d' hd'
    show d' ∈ LSet.remove y.heap.ni d ↔ _
    have : d' ≠ d := fun e => hd' (e ▸ hd)
    rw [LSet.mem_remove]
    constructor
    · intro h; exact (hf.ni d' hd').mp h.2
    · intro h; exact ⟨this, (hf.ni d' hd').mpr h⟩
  | niAdd d =>
    have hd : D d := hok
    refine { hf with ni := ?_ }
    intro d' hd'
    show d' ∈ LSet.insert y.heap.ni d ↔ _
    have : d' ≠ d := fun e => hd' (e ▸ hd)
    rw [LSet.mem_insert]
    constructor
    · intro h
      rcases h with h | h
      · exact absurd h this
      · exact (hf.ni d' hd').mp h
    · intro h; exact Or.inr ((hf.ni d' hd').mpr h)
  | treePut o d f =>
    obtain ⟨hd, href⟩ := hok
    have hex : (AMap.get y.heap.tree o).isSome := by
      rcases href with ⟨i, hi⟩ | h
      · exact hf.refs i o hi
      · exact h.2
    show TFrame H D me (y.treePut o d f)
    unfold TTx.treePut
    split
    · exact hf
    · refine tframe_tree hs hown hf o (AMap.set (y.treeOf o) d f) hex
        (href.imp id (fun h => h.1)) ?_ rfl rfl rfl rfl rfl rfl rfl rfl
      intro d' hd'
      have : d ≠ d' := fun e => hd' (e ▸ hd)
      rw [AMap.get_set, if_neg this]; rfl
  | treeDel o d =>
    obtain ⟨hd, href⟩ := hok
    have hex : (AMap.get y.heap.tree o).isSome := by
      rcases href with ⟨i, hi⟩ | h
      · exact hf.refs i o hi
      · exact h.2
    refine tframe_tree hs hown hf o (AMap.erase (y.treeOf o) d) hex
      (href.imp id (fun h => h.1)) ?_ rfl rfl rfl rfl rfl rfl rfl rfl
    intro d' hd'
    have : d ≠ d' := fun e => hd' (e ▸ hd)
    rw [AMap.get_erase, if_neg this]; rfl
  | alloc m =>
    have hfresh : AMap.get y.heap.tree (y.me, y.next) = none := by
      cases hg : AMap.get y.heap.tree (y.me, y.next) with
      | none => rfl
      | some t =>
        rcases hf.own (y.me, y.next) (by rw [hg]; rfl) with h | h
        · exact absurd hf.meq (hown _ h)
        · exact absurd h.2 (Nat.lt_irrefl _)
    have hget : ∀ o', AMap.get (y.alloc m).1.heap.tree o' =
        if (y.me, y.next) = o' then some m else AMap.get y.heap.tree o' := by
      intro o'; show AMap.get (AMap.set y.heap.tree (y.me, y.next) m) o' = _; rw [AMap.get_set]
    have hne : ∀ o', (AMap.get y.heap.tree o').isSome → (y.me, y.next) ≠ o' := by
      intro o' h e; rw [← e, hfresh] at h; simp at h
    show TFrame H D me (y.alloc m).1
    refine ⟨hf.meq, ?_, ?_, ?_, hf.inh, ?_, hf.dw, hf.dwt, hf.ni, ?_, ?_, hf.grow⟩
    · intro o' ho'
      rw [hget o'] at ho'
      show _ ∨ (o'.1 = me ∧ o'.2 < y.next + 1)
      by_cases e : (y.me, y.next) = o'
      · subst e; exact Or.inr ⟨hf.meq, Nat.lt_succ_self _⟩
      · rw [if_neg e] at ho'
        rcases hf.own o' ho' with h | h
        · exact Or.inl h
        · exact Or.inr ⟨h.1, Nat.lt_succ_of_lt h.2⟩
    · intro o' ho'
      rw [hget o', if_neg (hne o' (hf.keep o' ho'))]; exact hf.keep o' ho'
    · intro i o' hi
      have := hf.refs i o' hi
      rw [hget o', if_neg (hne o' this)]; exact this
    · intro j o' hH hne'
      have h1 := hf.emp j o' hH hne'
      rw [hget o', if_neg (hne o' (by rw [h1]; rfl))]; exact h1
    · intro o' d hd ho'
      rw [hget o', if_neg (hne o' (hf.keep o' ho'))]; exact hf.tr o' d hd ho'
    · intro j d hd
      have h2 := hf.pt j d hd
      unfold pt at h2 ⊢
      rw [← h2, posting_of_get, posting_of_get]
      show AMap.get (pvalPosting (y.alloc m).1.heap (AMap.get y.heap.wordinfo j)) d = _
      cases hj : AMap.get y.heap.wordinfo j with
      | none => rfl
      | some pv =>
        cases pv with
        | dict m' => rfl
        | ref o' =>
          simp only [pvalPosting]
          rw [hget o', if_neg (hne o' (hf.refs j o' hj))]

/-- the frame of a transaction: every history of operations on docids `docsOf ops` -/
theorem tframe_run {c : TCfg Wt} (hc : c.Faithful) {H : THeap W Wt} (hs : TStruct H) (me : Nat)
    (hown : ∀ o, (AMap.get H.tree o).isSome → o.1 ≠ me) (ops : List (TOp (List W))) :
    TFrame H (· ∈ docsOf ops) me (TTx.run c (TTx.start H me) ops) :=
  Reach.induct (fun y => TFrame H (· ∈ docsOf ops) me y) (tframe_start hs _ me)
    (fun p _ _ hz hok => tframe_prim hs hown p hz hok) (reach_run hc (TTx.start H me) ops)

end Hyp.CIdx
