import HypatiaProofs.Lemmas.ConcurrencyTextMerge
import HypatiaProofs.Lemmas.ConcurrencyReadsText

/-!
Object-level text index: structural well-formedness of the heap (`TStruct`), and what one call of
`_add_wordinfo` / `_del_wordinfo` does to the postings read as a function
`word id → docid → weight` (`pt`).
-/
set_option linter.unusedSectionVars false
set_option linter.unusedSimpArgs false
set_option linter.unusedVariables false
namespace Hyp.CIdx
open Hyp

variable {W Wt : Type} [DecidableEq W] [DecidableEq Wt]

/-- the weight of document `d` in the posting of word id `j` -/
def pt (h : THeap W Wt) (j : Nat) (d : Int) : Option Wt := AMap.get (h.posting j) d

/-- structural well-formedness: references resolve and are not shared, postings are well-formed
and not empty -/
structure TStruct (h : THeap W Wt) : Prop where
  wf_wi : AMap.WF h.wordinfo
  refs : ∀ i o, AMap.get h.wordinfo i = some (.ref o) → (AMap.get h.tree o).isSome
  inj : ∀ i j o, AMap.get h.wordinfo i = some (.ref o) → AMap.get h.wordinfo j = some (.ref o) → i = j
  wf_post : ∀ i, AMap.WF (h.posting i)
  ne_post : ∀ i, (AMap.get h.wordinfo i).isSome → h.posting i ≠ []

/-- everything but `_wordinfo`, the trees and `word_count` -/
def sameRest (h h' : THeap W Wt) : Prop :=
  h'.wids = h.wids ∧ h'.words = h.words ∧ h'.lexCount = h.lexCount ∧ h'.docwords = h.docwords ∧
  h'.docweight = h.docweight ∧ h'.indexedCount = h.indexedCount ∧ h'.totalDocLen = h.totalDocLen ∧ h'.ni = h.ni

theorem sameRest_refl (h : THeap W Wt) : sameRest h h := ⟨rfl, rfl, rfl, rfl, rfl, rfl, rfl, rfl⟩

theorem sameRest_trans {a b c : THeap W Wt} (h1 : sameRest a b) (h2 : sameRest b c) : sameRest a c := by
  obtain ⟨a1, a2, a3, a4, a5, a6, a7, a8⟩ := h1
  obtain ⟨b1, b2, b3, b4, b5, b6, b7, b8⟩ := h2
  exact ⟨b1.trans a1, b2.trans a2, b3.trans a3, b4.trans a4, b5.trans a5, b6.trans a6, b7.trans a7, b8.trans a8⟩

theorem get_set_set {κ β : Type} [DecidableEq κ] (m : AMap κ β) (k : κ) (v v' : β) (k' : κ) :
    AMap.get (AMap.set (AMap.set m k v) k v') k' = if k = k' then some v' else AMap.get m k' := by
  rw [AMap.get_set]
  by_cases h : k = k'
  · simp [h]
  · simp [h, AMap.get_set]

theorem length_set_of_some' {κ β : Type} [DecidableEq κ] {m : AMap κ β} (hwf : AMap.WF m) {k : κ} {v v' : β}
    (h : AMap.get m k = some v) : (AMap.set m k v').length = m.length := by
  unfold AMap.set
  have := AMap.length_erase_of_get hwf h
  simp; omega

theorem length_set_of_none' {κ β : Type} [DecidableEq κ] {m : AMap κ β} {k : κ} {v : β}
    (h : AMap.get m k = none) : (AMap.set m k v).length = m.length + 1 := by
  unfold AMap.set
  rw [AMap.erase_of_get_none h]; rfl

theorem posting_of_get {h : THeap W Wt} {j : Nat} : h.posting j = pvalPosting h (AMap.get h.wordinfo j) :=
  posting_eq_pval h j

/-- the heap after a call that stores value `v` under word id `wid` and (possibly) gives tree `o` the
state `t`; nothing else moves -/
structure WiUpdate (h h' : THeap W Wt) (wid : Nat) (v : Option (PVal Wt)) : Prop where
  wi : ∀ j, AMap.get h'.wordinfo j = if wid = j then v else AMap.get h.wordinfo j
  wf : AMap.WF h'.wordinfo
  rest : sameRest h h'

/-! ### `_add_wordinfo` -/

/-- what one call of `_add_wordinfo(wid, f, docid)` / one round of `_mass_add_wordinfo` does -/
structure AddSpec (x y : TTx W Wt) (wid : Nat) (f : Wt) (d : Int) : Prop where
  struct : TStruct y.heap
  own : OwnT y
  me : y.me = x.me
  next : x.next ≤ y.next
  pt : ∀ j d', pt y.heap j d' = if j = wid ∧ d' = d then some f else pt x.heap j d'
  rest : sameRest x.heap y.heap
  keys : ∀ j, (AMap.get y.heap.wordinfo j).isSome = ((AMap.get x.heap.wordinfo j).isSome || decide (j = wid))
  len : (y.heap.wordinfo.length : Int) =
    x.heap.wordinfo.length + (if (AMap.get x.heap.wordinfo wid).isSome then 0 else 1)
  trees : ∀ o, (AMap.get x.heap.tree o).isSome → (AMap.get y.heap.tree o).isSome

theorem get_put {m : AMap Int Wt} (d : Int) (f : Wt) (d' : Int) :
    AMap.get (if AMap.get m d = some f then m else AMap.set m d f) d' =
      if d' = d then some f else AMap.get m d' := by
  by_cases e : AMap.get m d = some f
  · rw [if_pos e]
    by_cases e2 : d' = d
    · subst e2; simp [e]
    · simp [e2]
  · rw [if_neg e, AMap.get_set]
    by_cases e2 : d' = d
    · subst e2; simp
    · have : d ≠ d' := fun h => e2 h.symm
      simp [e2, this]

theorem wf_put {m : AMap Int Wt} (hm : AMap.WF m) (d : Int) (f : Wt) :
    AMap.WF (if AMap.get m d = some f then m else AMap.set m d f) := by
  split
  · exact hm
  · exact AMap.WF_set hm _ _

theorem ne_put {m : AMap Int Wt} (d : Int) (f : Wt) :
    (if AMap.get m d = some f then m else AMap.set m d f) ≠ [] := by
  split
  · next e => intro h; rw [h] at e; simp at e
  · simp [AMap.set]

/-- the state of tree `o` after `treePut` -/
theorem treePut_heap (x : TTx W Wt) (o : Oid) (d : Int) (f : Wt) :
    (x.treePut o d f).heap.wordinfo = x.heap.wordinfo ∧ sameRest x.heap (x.treePut o d f).heap ∧
    (x.treePut o d f).heap.wordCount = x.heap.wordCount ∧
    (x.treePut o d f).me = x.me ∧ (x.treePut o d f).next = x.next ∧
    (∀ o', AMap.get (x.treePut o d f).heap.tree o' =
      if o = o' ∧ AMap.get (x.treeOf o) d ≠ some f then
        some (AMap.set (x.treeOf o) d f) else AMap.get x.heap.tree o') := by
  unfold TTx.treePut
  by_cases e : AMap.get (x.treeOf o) d = some f
  · rw [if_pos e]
    refine ⟨rfl, sameRest_refl _, rfl, rfl, rfl, fun o' => ?_⟩
    simp [e]
  · rw [if_neg e]
    refine ⟨rfl, sameRest_refl _, rfl, rfl, rfl, fun o' => ?_⟩
    show AMap.get (AMap.set x.heap.tree o _) o' = _
    rw [AMap.get_set]
    by_cases e2 : o = o'
    · subst e2; simp [e]
    · simp [e2]

theorem addExisting_spec {c : TCfg Wt} {x : TTx W Wt} (hs : TStruct x.heap) (ho : OwnT x) {wid : Nat} {f : Wt}
    {d : Int} {v : PVal Wt} (hv : AMap.get x.heap.wordinfo wid = some v) :
    AddSpec x (TTx.addExisting c true x wid f d v) wid f d ∧
    (TTx.addExisting c true x wid f d v).heap.wordCount = x.heap.wordCount := by
  have hlen : ∀ (h' : THeap W Wt) (v' : PVal Wt), h'.wordinfo = AMap.set x.heap.wordinfo wid v' →
      (h'.wordinfo.length : Int) = x.heap.wordinfo.length + (if (AMap.get x.heap.wordinfo wid).isSome then 0 else 1) := by
    intro h' v' e
    rw [e, length_set_of_some' hs.wf_wi hv, hv]; simp
  cases v with
  | dict m =>
    have hpm : x.heap.posting wid = m := by rw [posting_of_get, hv]; rfl
    have hwfm : AMap.WF m := hpm ▸ hs.wf_post wid
    unfold TTx.addExisting
    simp only
    by_cases hcut : m.length = c.cutoff
    · -- conversion: a new tree object
      rw [if_pos hcut]
      -- abbreviations
      have hfresh : AMap.get x.heap.tree (x.me, x.next) = none := by
        cases hg : AMap.get x.heap.tree (x.me, x.next) with
        | none => rfl
        | some t => exact absurd (ho _ (by rw [hg]; rfl) rfl) (Nat.lt_irrefl _)
      obtain ⟨p1, p2, p3, p4, p5, p6⟩ := treePut_heap (x.alloc m).1 (x.alloc m).2 d f
      have htr0 : (x.alloc m).1.treeOf (x.alloc m).2 = m := by
        simp [TTx.alloc, TTx.treeOf, TTx.nt, AMap.get_set]
      have htree : ∀ o', AMap.get ((x.alloc m).1.treePut (x.alloc m).2 d f).heap.tree o' =
          if (x.me, x.next) = o' then some (if AMap.get m d = some f then m else AMap.set m d f)
          else AMap.get x.heap.tree o' := by
        intro o'
        rw [p6 o', htr0]
        show (if (x.me, x.next) = o' ∧ _ then _ else AMap.get (AMap.set x.heap.tree (x.me, x.next) m) o') = _
        rw [AMap.get_set]
        by_cases e : (x.me, x.next) = o'
        · by_cases e2 : AMap.get m d = some f <;> simp [e, e2]
        · simp [e]
      have hwi : ∀ j, AMap.get (((x.alloc m).1.treePut (x.alloc m).2 d f).wiSet wid (.ref (x.alloc m).2)).heap.wordinfo j =
          if wid = j then some (.ref (x.me, x.next)) else AMap.get x.heap.wordinfo j := by
        intro j
        show AMap.get (AMap.set ((x.alloc m).1.treePut (x.alloc m).2 d f).heap.wordinfo wid _) j = _
        rw [p1, AMap.get_set]; rfl
      have hpost : ∀ j, (((x.alloc m).1.treePut (x.alloc m).2 d f).wiSet wid (.ref (x.alloc m).2)).heap.posting j =
          if wid = j then (if AMap.get m d = some f then m else AMap.set m d f) else x.heap.posting j := by
        intro j
        rw [posting_of_get, hwi j]
        by_cases e : wid = j
        · simp only [e, if_true, pvalPosting]
          show ((AMap.get ((x.alloc m).1.treePut (x.alloc m).2 d f).heap.tree (x.me, x.next)).getD []) = _
          rw [htree]; simp
        · simp only [e, if_false]
          rw [posting_of_get]
          cases hj : AMap.get x.heap.wordinfo j with
          | none => rfl
          | some vj =>
            cases vj with
            | dict mj => rfl
            | ref oj =>
              simp only [pvalPosting]
              show ((AMap.get ((x.alloc m).1.treePut (x.alloc m).2 d f).heap.tree oj).getD []) = _
              rw [htree]
              have : (x.me, x.next) ≠ oj := by
                intro e2; have := hs.refs j oj hj; rw [← e2, hfresh] at this; simp at this
              simp [this]
      have hnext : (((x.alloc m).1.treePut (x.alloc m).2 d f).wiSet wid (.ref (x.alloc m).2)).next = x.next + 1 := by
        show ((x.alloc m).1.treePut (x.alloc m).2 d f).next = _
        rw [p5]; rfl
      have hme : (((x.alloc m).1.treePut (x.alloc m).2 d f).wiSet wid (.ref (x.alloc m).2)).me = x.me := by
        show ((x.alloc m).1.treePut (x.alloc m).2 d f).me = _
        rw [p4]; rfl
      refine ⟨⟨⟨?_, ?_, ?_, ?_, ?_⟩, ?_, hme, by rw [hnext]; exact Nat.le_succ _, ?_, ?_, ?_, ?_, ?_⟩, ?_⟩
      · exact AMap.WF_set (by rw [p1]; exact hs.wf_wi) _ _
      · intro i o hi
        rw [hwi i] at hi
        show (AMap.get ((x.alloc m).1.treePut (x.alloc m).2 d f).heap.tree o).isSome
        rw [htree]
        by_cases e : wid = i
        · simp only [e, if_true] at hi; cases hi; simp
        · simp only [e, if_false] at hi
          by_cases e2 : (x.me, x.next) = o
          · simp [e2]
          · simp only [e2, if_false]; exact hs.refs i o hi
      · intro i j o hi hj
        rw [hwi i] at hi; rw [hwi j] at hj
        by_cases e : wid = i <;> by_cases e2 : wid = j
        · exact e.symm.trans e2
        · rw [if_pos e] at hi; rw [if_neg e2] at hj
          cases hi
          have := hs.refs j _ hj; rw [hfresh] at this; simp at this
        · rw [if_neg e] at hi; rw [if_pos e2] at hj
          cases hj
          have := hs.refs i _ hi; rw [hfresh] at this; simp at this
        · rw [if_neg e] at hi; rw [if_neg e2] at hj
          exact hs.inj i j o hi hj
      · intro i
        rw [hpost i]
        split
        · exact wf_put hwfm d f
        · exact hs.wf_post i
      · intro i hi
        rw [hpost i]
        split
        · exact ne_put d f
        · next e => rw [hwi i] at hi; simp only [e, if_false] at hi; exact hs.ne_post i hi
      · -- ownership
        intro o hoS hme
        rw [hnext]
        have : (AMap.get ((x.alloc m).1.treePut (x.alloc m).2 d f).heap.tree o).isSome := hoS
        rw [htree] at this
        by_cases e : (x.me, x.next) = o
        · rw [← e]; exact Nat.lt_succ_self _
        · simp only [e, if_false] at this
          exact Nat.lt_succ_of_lt (ho o this (hme.trans ‹_›))
      · intro j d'
        unfold pt
        rw [hpost j]
        by_cases e : wid = j
        · subst e
          simp only [if_true, true_and]
          rw [get_put, hpm]
        · have : ¬ (j = wid ∧ d' = d) := fun h => e h.1.symm
          simp only [e, if_false, this]
      · exact sameRest_trans (sameRest_refl _) p2
      · intro j
        rw [hwi j]
        by_cases e : wid = j
        · subst e; simp [hv]
        · have : ¬ j = wid := fun h => e h.symm
          simp [e, this]
      · exact hlen _ _ (by show AMap.set _ wid _ = _; rw [p1]; rfl)
      · intro o hoS
        show (AMap.get ((x.alloc m).1.treePut (x.alloc m).2 d f).heap.tree o).isSome
        rw [htree]
        split
        · rfl
        · exact hoS
      · exact p3
    · -- in place, re-assigned
      rw [if_neg hcut]
      simp only [if_true]
      have hwi : ∀ j, AMap.get ((x.dictPut wid m d f).wiSet wid (.dict (AMap.set m d f))).heap.wordinfo j =
          if wid = j then some (.dict (AMap.set m d f)) else AMap.get x.heap.wordinfo j :=
        fun j => get_set_set _ _ _ _ _
      have htree : ((x.dictPut wid m d f).wiSet wid (.dict (AMap.set m d f))).heap.tree = x.heap.tree := rfl
      have hpost : ∀ j, ((x.dictPut wid m d f).wiSet wid (.dict (AMap.set m d f))).heap.posting j =
          if wid = j then AMap.set m d f else x.heap.posting j := by
        intro j
        rw [posting_of_get, hwi j]
        by_cases e : wid = j
        · simp [e, pvalPosting]
        · simp only [e, if_false]
          rw [posting_of_get]
          cases hj : AMap.get x.heap.wordinfo j with
          | none => rfl
          | some vj => cases vj <;> simp [pvalPosting, htree]
      refine ⟨⟨⟨?_, ?_, ?_, ?_, ?_⟩, ?_, rfl, Nat.le_refl _, ?_, ?_, ?_, ?_, ?_⟩, rfl⟩
      · exact AMap.WF_set (AMap.WF_set hs.wf_wi _ _) _ _
      · intro i o hi
        rw [hwi i] at hi
        by_cases e : wid = i
        · simp [e] at hi
        · simp only [e, if_false] at hi; exact hs.refs i o hi
      · intro i j o hi hj
        rw [hwi i] at hi; rw [hwi j] at hj
        by_cases e : wid = i
        · simp [e] at hi
        · by_cases e2 : wid = j
          · simp [e2] at hj
          · simp only [e, e2, if_false] at hi hj; exact hs.inj i j o hi hj
      · intro i
        rw [hpost i]
        split
        · exact AMap.WF_set hwfm _ _
        · exact hs.wf_post i
      · intro i hi
        rw [hpost i]
        split
        · simp [AMap.set]
        · next e => rw [hwi i] at hi; simp only [e, if_false] at hi; exact hs.ne_post i hi
      · exact ho
      · intro j d'
        unfold pt
        rw [hpost j]
        by_cases e : wid = j
        · subst e
          simp only [if_true, true_and]
          rw [AMap.get_set, hpm]
          by_cases e2 : d' = d
          · simp [e2]
          · have : d ≠ d' := fun h => e2 h.symm
            simp [e2, this]
        · have : ¬ (j = wid ∧ d' = d) := fun h => e h.1.symm
          simp only [e, if_false, this]
      · exact sameRest_refl _
      · intro j
        rw [hwi j]
        by_cases e : wid = j
        · subst e; simp [hv]
        · have : ¬ j = wid := fun h => e h.symm
          simp [e, this]
      · show ((AMap.set (AMap.set x.heap.wordinfo wid _) wid _).length : Int) = _
        have h1 : AMap.get (AMap.set x.heap.wordinfo wid (PVal.dict (AMap.set m d f))) wid =
            some (PVal.dict (AMap.set m d f)) := by rw [AMap.get_set]; simp
        rw [length_set_of_some' (AMap.WF_set hs.wf_wi _ _) h1, length_set_of_some' hs.wf_wi hv, hv]; simp
      · intro o hoS; exact hoS
  | ref o =>
    have hres := hs.refs wid o hv
    have hpo : x.heap.posting wid = x.treeOf o := by rw [posting_of_get, hv]; rfl
    unfold TTx.addExisting
    simp only
    obtain ⟨p1, p2, p3, p4, p5, p6⟩ := treePut_heap x o d f
    have hwi : ∀ j, AMap.get ((x.treePut o d f).wiSet wid (.ref o)).heap.wordinfo j = AMap.get x.heap.wordinfo j := by
      intro j
      show AMap.get (AMap.set (x.treePut o d f).heap.wordinfo wid _) j = _
      rw [p1, AMap.get_set]
      by_cases e : wid = j
      · subst e; simp [hv]
      · simp [e]
    have htree : ∀ o', AMap.get ((x.treePut o d f).wiSet wid (.ref o)).heap.tree o' =
        if o = o' then some (if AMap.get (x.treeOf o) d = some f then x.treeOf o else AMap.set (x.treeOf o) d f)
        else AMap.get x.heap.tree o' := by
      intro o'
      show AMap.get (x.treePut o d f).heap.tree o' = _
      rw [p6 o']
      by_cases e : o = o'
      · subst e
        by_cases e2 : AMap.get (x.treeOf o) d = some f
        · simp only [e2, if_true, ne_eq, not_true_eq_false, and_false, if_false]
          unfold TTx.treeOf
          cases hg : AMap.get x.heap.tree o with
          | none => rw [hg] at hres; simp at hres
          | some t => rfl
        · simp [e2]
      · simp [e]
    have hpost : ∀ j, ((x.treePut o d f).wiSet wid (.ref o)).heap.posting j =
        if wid = j then (if AMap.get (x.treeOf o) d = some f then x.treeOf o else AMap.set (x.treeOf o) d f)
        else x.heap.posting j := by
      intro j
      rw [posting_of_get, hwi j]
      by_cases e : wid = j
      · subst e
        simp only [if_true, hv, pvalPosting]
        rw [htree]; simp
      · simp only [e, if_false]
        rw [posting_of_get]
        cases hj : AMap.get x.heap.wordinfo j with
        | none => rfl
        | some vj =>
          cases vj with
          | dict mj => rfl
          | ref oj =>
            simp only [pvalPosting]
            rw [htree]
            have : o ≠ oj := fun e2 => e (hs.inj wid j o hv (e2 ▸ hj))
            simp [this]
    refine ⟨⟨⟨?_, ?_, ?_, ?_, ?_⟩, ?_, p4, Nat.le_of_eq p5.symm, ?_, ?_, ?_, ?_, ?_⟩, p3⟩
    · exact AMap.WF_set (by rw [p1]; exact hs.wf_wi) _ _
    · intro i o' hi
      rw [hwi i] at hi
      rw [htree]
      split
      · rfl
      · exact hs.refs i o' hi
    · intro i j o' hi hj
      rw [hwi i] at hi; rw [hwi j] at hj
      exact hs.inj i j o' hi hj
    · intro i
      rw [hpost i]
      split
      · exact wf_put (hpo ▸ hs.wf_post wid) d f
      · exact hs.wf_post i
    · intro i hi
      rw [hpost i]
      split
      · exact ne_put d f
      · rw [hwi i] at hi; exact hs.ne_post i hi
    · intro o' hoS hme
      show o'.2 < (x.treePut o d f).next
      rw [p5]
      have : (AMap.get ((x.treePut o d f).wiSet wid (.ref o)).heap.tree o').isSome := hoS
      rw [htree] at this
      by_cases e : o = o'
      · subst e; exact ho o hres (p4 ▸ hme)
      · simp only [e, if_false] at this; exact ho o' this (p4 ▸ hme)
    · intro j d'
      unfold pt
      rw [hpost j]
      by_cases e : wid = j
      · subst e
        simp only [if_true, true_and]
        rw [get_put, hpo]
      · have : ¬ (j = wid ∧ d' = d) := fun h => e h.1.symm
        simp only [e, if_false, this]
    · exact p2
    · intro j
      rw [hwi j]
      by_cases e : j = wid
      · subst e; simp [hv]
      · simp [e]
    · exact hlen _ _ (by show AMap.set _ wid _ = _; rw [p1])
    · intro o' hoS
      show (AMap.get ((x.treePut o d f).wiSet wid (.ref o)).heap.tree o').isSome
      rw [htree]
      split
      · rfl
      · exact hoS

end Hyp.CIdx
