import HypatiaProofs.Lemmas.ConcurrencyTextInv

/-!
`_add_wordinfo` (all cases), `_del_wordinfo`, and the loops over them.
-/
set_option linter.unusedSectionVars false
set_option linter.unusedSimpArgs false
set_option linter.unusedVariables false
namespace Hyp.CIdx
open Hyp

variable {W Wt : Type} [DecidableEq W] [DecidableEq Wt]

/-- `word_count` minus the number of postings (0 in a consistent state; every call keeps it) -/
def wcl (h : THeap W Wt) : Int := h.wordCount - h.wordinfo.length

theorem pt_of_none {h : THeap W Wt} {j : Nat} (hg : AMap.get h.wordinfo j = none) (d : Int) : pt h j d = none := by
  unfold pt; rw [posting_of_get, hg]; rfl

/-- the new-word case shared by `_add_wordinfo` and `_mass_add_wordinfo`: store `{docid: f}` -/
theorem addNew_spec {x y : TTx W Wt} (hs : TStruct x.heap) (ho : OwnT x) {wid : Nat} {f : Wt} {d : Int}
    (hv : AMap.get x.heap.wordinfo wid = none)
    (hwi : y.heap.wordinfo = AMap.set x.heap.wordinfo wid (.dict [(d, f)])) (htree : y.heap.tree = x.heap.tree)
    (hrest : sameRest x.heap y.heap) (hme : y.me = x.me) (hnext : y.next = x.next) :
    AddSpec x y wid f d := by
  have hg : ∀ j, AMap.get y.heap.wordinfo j = if wid = j then some (.dict [(d, f)]) else AMap.get x.heap.wordinfo j := by
    intro j; rw [hwi, AMap.get_set]
  have hpost : ∀ j, y.heap.posting j = if wid = j then [(d, f)] else x.heap.posting j := by
    intro j
    rw [posting_of_get, hg j]
    by_cases e : wid = j
    · simp [e, pvalPosting]
    · simp only [e, if_false]
      rw [posting_of_get]
      cases hj : AMap.get x.heap.wordinfo j with
      | none => rfl
      | some vj => cases vj <;> simp [pvalPosting, htree]
  refine ⟨⟨?_, ?_, ?_, ?_, ?_⟩, ?_, hme, Nat.le_of_eq hnext.symm, ?_, hrest, ?_, ?_, ?_⟩
  · rw [hwi]; exact AMap.WF_set hs.wf_wi _ _
  · intro i o hi
    rw [hg i] at hi
    by_cases e : wid = i
    · simp [e] at hi
    · rw [if_neg e] at hi; rw [htree]; exact hs.refs i o hi
  · intro i j o hi hj
    rw [hg i] at hi; rw [hg j] at hj
    by_cases e : wid = i
    · simp [e] at hi
    · by_cases e2 : wid = j
      · simp [e2] at hj
      · rw [if_neg e] at hi; rw [if_neg e2] at hj; exact hs.inj i j o hi hj
  · intro i
    rw [hpost i]
    split
    · simp [AMap.WF, AMap.keys]
    · exact hs.wf_post i
  · intro i hi
    rw [hpost i]
    split
    · simp
    · next e => rw [hg i, if_neg e] at hi; exact hs.ne_post i hi
  · intro o hoS hm
    rw [htree] at hoS; rw [hnext]; exact ho o hoS (hm.trans hme)
  · intro j d'
    unfold pt
    rw [hpost j]
    by_cases e : wid = j
    · subst e
      simp only [if_true, true_and]
      have : x.heap.posting wid = [] := by rw [posting_of_get, hv]; rfl
      rw [this, AMap.get_cons]
      by_cases e2 : d' = d
      · simp [e2]
      · have : d ≠ d' := fun h => e2 h.symm
        simp [e2, this]
    · have : ¬ (j = wid ∧ d' = d) := fun h => e h.1.symm
      simp only [e, if_false, this]
  · intro j
    rw [hg j]
    by_cases e : wid = j
    · subst e; simp
    · have : ¬ j = wid := fun h => e h.symm
      simp [e, this]
  · rw [hwi, length_set_of_none' hv, hv]; simp
  · intro o hoS; rw [htree]; exact hoS

theorem addWordinfo_spec {c : TCfg Wt} (hc : c.Faithful) {x : TTx W Wt} (hs : TStruct x.heap) (ho : OwnT x)
    (wid : Nat) (f : Wt) (d : Int) :
    AddSpec x (TTx.addWordinfo c x wid f d) wid f d ∧ wcl (TTx.addWordinfo c x wid f d).heap = wcl x.heap := by
  unfold TTx.addWordinfo
  simp only
  cases hg : AMap.get (x.rd (.wi wid)).heap.wordinfo wid with
  | none =>
    simp only
    have hv : AMap.get x.heap.wordinfo wid = none := hg
    have sp : AddSpec x (((x.rd (.wi wid)).wcChange 1).wiSet wid (.dict [(d, f)])) wid f d :=
      addNew_spec hs ho hv rfl rfl ⟨rfl, rfl, rfl, rfl, rfl, rfl, rfl, rfl⟩ rfl rfl
    refine ⟨sp, ?_⟩
    unfold wcl
    have := sp.len
    rw [hv] at this
    simp only [Option.isSome_none, Bool.false_eq_true, if_false] at this
    show (x.heap.wordCount + 1 : Int) - _ = _
    rw [this]; omega
  | some v =>
    simp only
    rw [hc.re]
    have hv : AMap.get x.heap.wordinfo wid = some v := hg
    have hs' : TStruct (x.rd (.wi wid)).heap := hs
    obtain ⟨sp, hw⟩ := addExisting_spec (c := c) (f := f) (d := d) hs' (show OwnT (x.rd (.wi wid)) from ho) hg
    have sp' : AddSpec x (TTx.addExisting c true (x.rd (.wi wid)) wid f d v) wid f d :=
      ⟨sp.struct, sp.own, sp.me, sp.next, sp.pt, sp.rest, sp.keys, sp.len, sp.trees⟩
    refine ⟨sp', ?_⟩
    unfold wcl
    have := sp'.len
    rw [hv] at this
    simp only [Option.isSome_some, if_true] at this
    rw [hw, this]
    show (x.heap.wordCount : Int) - _ = _
    omega

/-! ### `_mass_add_wordinfo` -/

structure MassSpec (x y : TTx W Wt) (l : AMap Nat Wt) (d : Int) (n : Int) : Prop where
  struct : TStruct y.heap
  own : OwnT y
  me : y.me = x.me
  next : x.next ≤ y.next
  pt : ∀ j d', pt y.heap j d' = if d' = d ∧ (AMap.get l j).isSome then AMap.get l j else pt x.heap j d'
  rest : sameRest x.heap y.heap
  wc : y.heap.wordCount = x.heap.wordCount
  len : (y.heap.wordinfo.length : Int) = x.heap.wordinfo.length + n
  trees : ∀ o, (AMap.get x.heap.tree o).isSome → (AMap.get y.heap.tree o).isSome

theorem massRound_spec {c : TCfg Wt} (hc : c.Faithful) (d : Int) {x : TTx W Wt} (hs : TStruct x.heap) (ho : OwnT x)
    (wid : Nat) (f : Wt) :
    AddSpec x (TTx.massRound c x d wid f).1 wid f d ∧
    (TTx.massRound c x d wid f).1.heap.wordCount = x.heap.wordCount ∧
    (TTx.massRound c x d wid f).2 = (if (AMap.get x.heap.wordinfo wid).isSome then 0 else 1) := by
  unfold TTx.massRound
  simp only
  cases hg : AMap.get (x.rd (.wi wid)).heap.wordinfo wid with
  | none =>
    have hv : AMap.get x.heap.wordinfo wid = none := hg
    exact ⟨addNew_spec hs ho hv rfl rfl ⟨rfl, rfl, rfl, rfl, rfl, rfl, rfl, rfl⟩ rfl rfl, rfl, by rw [hv]; rfl⟩
  | some v =>
    have hv : AMap.get x.heap.wordinfo wid = some v := hg
    simp only [hc.mass, Bool.not_false]
    obtain ⟨sp, hw⟩ := addExisting_spec (c := c) (f := f) (d := d)
      (show TStruct (x.rd (.wi wid)).heap from hs) (show OwnT (x.rd (.wi wid)) from ho) hg
    exact ⟨⟨sp.struct, sp.own, sp.me, sp.next, sp.pt, sp.rest, sp.keys, sp.len, sp.trees⟩, hw, by rw [hv]; rfl⟩

theorem massLoop_spec {c : TCfg Wt} (hc : c.Faithful) (d : Int) : ∀ (l : AMap Nat Wt), AMap.WF l →
    ∀ {x : TTx W Wt}, TStruct x.heap → OwnT x →
      MassSpec x (TTx.massLoop c x d l).1 l d (TTx.massLoop c x d l).2
  | [], _, x, hs, ho =>
    ⟨hs, ho, rfl, Nat.le_refl _, fun j d' => by simp [TTx.massLoop], sameRest_refl _, rfl, by simp [TTx.massLoop],
      fun _ h => h⟩
  | (wid, f) :: rest, hwf, x, hs, ho => by
    have hwf' : AMap.WF rest := by
      unfold AMap.WF AMap.keys at hwf ⊢
      simp only [List.map_cons, List.nodup_cons] at hwf; exact hwf.2
    have hnot : AMap.get rest wid = none := by
      unfold AMap.WF AMap.keys at hwf
      simp only [List.map_cons, List.nodup_cons] at hwf
      exact (AMap.not_mem_keys_iff rest wid).mp hwf.1
    obtain ⟨sp, hwc, hn⟩ := massRound_spec hc d hs ho wid f
    have ih := massLoop_spec hc d rest hwf' sp.struct sp.own
    unfold TTx.massLoop
    simp only
    refine ⟨ih.struct, ih.own, ih.me.trans sp.me, Nat.le_trans sp.next ih.next, ?_, sameRest_trans sp.rest ih.rest,
      ih.wc.trans hwc, ?_, fun o h => ih.trees o (sp.trees o h)⟩
    · intro j d'
      rw [ih.pt j d', sp.pt j d', AMap.get_cons]
      by_cases e : wid = j
      · subst e
        rw [hnot]
        by_cases e2 : d' = d <;> simp [e2]
      · have e' : ¬ j = wid := fun h => e h.symm
        simp [e, e']
    · rw [ih.len, sp.len, hn]
      omega

/-- `_mass_add_wordinfo`: the document's column becomes the given weights on the given word ids -/
theorem massAdd_spec {c : TCfg Wt} (hc : c.Faithful) {x : TTx W Wt} (hs : TStruct x.heap) (ho : OwnT x) (d : Int)
    (l : AMap Nat Wt) (hl : AMap.WF l) :
    let y := TTx.massAdd c x d l
    TStruct y.heap ∧ OwnT y ∧ y.me = x.me ∧ x.next ≤ y.next ∧
    (∀ j d', pt y.heap j d' = if d' = d ∧ (AMap.get l j).isSome then AMap.get l j else pt x.heap j d') ∧
    sameRest x.heap y.heap ∧ wcl y.heap = wcl x.heap ∧
    (∀ o, (AMap.get x.heap.tree o).isSome → (AMap.get y.heap.tree o).isSome) := by
  intro y
  have sp := massLoop_spec hc d l hl hs ho
  have e : y = (TTx.massLoop c x d l).1.wcChange (TTx.massLoop c x d l).2 := by
    show TTx.massAdd c x d l = _
    unfold TTx.massAdd
    simp only [hc.mass, Bool.false_eq_true, if_false]
  rw [e]
  obtain ⟨a1, a2, a3, a4, a5, a6, a7, a8⟩ := sp.rest
  refine ⟨⟨sp.struct.wf_wi, sp.struct.refs, sp.struct.inj, sp.struct.wf_post, sp.struct.ne_post⟩,
    fun o h hm => sp.own o h hm, sp.me, sp.next, fun j d' => sp.pt j d', ⟨a1, a2, a3, a4, a5, a6, a7, a8⟩, ?_,
    sp.trees⟩
  unfold wcl
  show ((TTx.massLoop c x d l).1.heap.wordCount + (TTx.massLoop c x d l).2 : Int) -
    ((TTx.massLoop c x d l).1.heap.wordinfo.length : Int) = _
  rw [sp.wc, sp.len]; omega

/-! ### `_del_wordinfo` -/

structure DelSpec (x y : TTx W Wt) (wid : Nat) (d : Int) : Prop where
  struct : TStruct y.heap
  own : OwnT y
  me : y.me = x.me
  next : y.next = x.next
  pt : ∀ j d', pt y.heap j d' = if j = wid ∧ d' = d then none else pt x.heap j d'
  rest : sameRest x.heap y.heap
  wcl : wcl y.heap = wcl x.heap
  trees : ∀ o, (AMap.get x.heap.tree o).isSome → (AMap.get y.heap.tree o).isSome

theorem get_erase_set {κ β : Type} [DecidableEq κ] (m : AMap κ β) (k : κ) (v : β) (k' : κ) :
    AMap.get (AMap.erase (AMap.set m k v) k) k' = if k = k' then none else AMap.get m k' := by
  rw [AMap.get_erase]
  by_cases h : k = k'
  · simp [h]
  · have h' : ¬ k' = k := fun e => h e.symm
    simp [h, h', AMap.get_set]

theorem delWordinfo_spec {x : TTx W Wt} (hs : TStruct x.heap) (ho : OwnT x) (wid : Nat) (d : Int)
    (hdef : (pt x.heap wid d).isSome) :
    (TTx.delWordinfo x wid d).2 = true ∧ DelSpec x (TTx.delWordinfo x wid d).1 wid d := by
  unfold TTx.delWordinfo
  simp only
  cases hg : AMap.get (x.rd (.wi wid)).heap.wordinfo wid with
  | none =>
    have hv : AMap.get x.heap.wordinfo wid = none := hg
    rw [pt_of_none hv] at hdef; simp at hdef
  | some v =>
    have hv : AMap.get x.heap.wordinfo wid = some v := hg
    cases v with
    | dict m =>
      have hpm : x.heap.posting wid = m := by rw [posting_of_get, hv]; rfl
      have hwfm : AMap.WF m := hpm ▸ hs.wf_post wid
      have hmd : (AMap.get m d).isSome := by unfold pt at hdef; rw [hpm] at hdef; exact hdef
      simp only
      have hnn : ¬ (AMap.get m d).isNone = true := by
        cases h : AMap.get m d with
        | none => rw [h] at hmd; simp at hmd
        | some _ => simp
      rw [if_neg hnn]
      by_cases hne : AMap.erase m d ≠ []
      · rw [if_pos hne]
        refine ⟨rfl, ?_⟩
        have hwi : ∀ j, AMap.get (((x.rd (.wi wid)).dictDel wid m d).wiSet wid (.dict (AMap.erase m d))).heap.wordinfo j =
            if wid = j then some (.dict (AMap.erase m d)) else AMap.get x.heap.wordinfo j :=
          fun j => get_set_set _ _ _ _ _
        have htree : (((x.rd (.wi wid)).dictDel wid m d).wiSet wid (.dict (AMap.erase m d))).heap.tree = x.heap.tree := rfl
        have hpost : ∀ j, (((x.rd (.wi wid)).dictDel wid m d).wiSet wid (.dict (AMap.erase m d))).heap.posting j =
            if wid = j then AMap.erase m d else x.heap.posting j := by
          intro j
          rw [posting_of_get, hwi j]
          by_cases e : wid = j
          · simp [e, pvalPosting]
          · simp only [e, if_false]
            rw [posting_of_get]
            cases hj : AMap.get x.heap.wordinfo j with
            | none => rfl
            | some vj => cases vj <;> simp [pvalPosting, htree]
        refine ⟨⟨?_, ?_, ?_, ?_, ?_⟩, ho, rfl, rfl, ?_, sameRest_refl _, ?_, fun o h => h⟩
        · exact AMap.WF_set (AMap.WF_set hs.wf_wi _ _) _ _
        · intro i o hi
          rw [hwi i] at hi
          by_cases e : wid = i
          · simp [e] at hi
          · rw [if_neg e] at hi; exact hs.refs i o hi
        · intro i j o hi hj
          rw [hwi i] at hi; rw [hwi j] at hj
          by_cases e : wid = i
          · simp [e] at hi
          · by_cases e2 : wid = j
            · simp [e2] at hj
            · rw [if_neg e] at hi; rw [if_neg e2] at hj; exact hs.inj i j o hi hj
        · intro i
          rw [hpost i]
          split
          · exact AMap.WF_erase hwfm _
          · exact hs.wf_post i
        · intro i hi
          rw [hpost i]
          split
          · exact hne
          · next e => rw [hwi i, if_neg e] at hi; exact hs.ne_post i hi
        · intro j d'
          unfold pt
          rw [hpost j]
          by_cases e : wid = j
          · subst e
            simp only [if_true, true_and]
            rw [AMap.get_erase, hpm]
            by_cases e2 : d' = d
            · simp [e2]
            · have : ¬ d = d' := fun h => e2 h.symm
              simp [e2, this]
          · have : ¬ (j = wid ∧ d' = d) := fun h => e h.1.symm
            simp only [e, if_false, this]
        · unfold wcl
          show (x.heap.wordCount : Int) - ((AMap.set (AMap.set x.heap.wordinfo wid _) wid _).length : Int) = _
          have h1 : AMap.get (AMap.set x.heap.wordinfo wid (PVal.dict (AMap.erase m d))) wid =
              some (PVal.dict (AMap.erase m d)) := by rw [AMap.get_set]; simp
          rw [length_set_of_some' (AMap.WF_set hs.wf_wi _ _) h1, length_set_of_some' hs.wf_wi hv]
      · rw [if_neg hne]
        have he : AMap.erase m d = [] := by
          by_cases e : AMap.erase m d = []
          · exact e
          · exact absurd e hne
        refine ⟨rfl, ?_⟩
        have hwi : ∀ j, AMap.get ((((x.rd (.wi wid)).dictDel wid m d).wiErase wid).wcChange (-1)).heap.wordinfo j =
            if wid = j then none else AMap.get x.heap.wordinfo j :=
          fun j => get_erase_set _ _ _ _
        have htree : ((((x.rd (.wi wid)).dictDel wid m d).wiErase wid).wcChange (-1)).heap.tree = x.heap.tree := rfl
        have hpost : ∀ j, ((((x.rd (.wi wid)).dictDel wid m d).wiErase wid).wcChange (-1)).heap.posting j =
            if wid = j then [] else x.heap.posting j := by
          intro j
          rw [posting_of_get, hwi j]
          by_cases e : wid = j
          · simp [e, pvalPosting]
          · simp only [e, if_false]
            rw [posting_of_get]
            cases hj : AMap.get x.heap.wordinfo j with
            | none => rfl
            | some vj => cases vj <;> simp [pvalPosting, htree]
        refine ⟨⟨?_, ?_, ?_, ?_, ?_⟩, ho, rfl, rfl, ?_, ⟨rfl, rfl, rfl, rfl, rfl, rfl, rfl, rfl⟩, ?_, fun o h => h⟩
        · exact AMap.WF_erase (AMap.WF_set hs.wf_wi _ _) _
        · intro i o hi
          rw [hwi i] at hi
          by_cases e : wid = i
          · simp [e] at hi
          · rw [if_neg e] at hi; exact hs.refs i o hi
        · intro i j o hi hj
          rw [hwi i] at hi; rw [hwi j] at hj
          by_cases e : wid = i
          · simp [e] at hi
          · by_cases e2 : wid = j
            · simp [e2] at hj
            · rw [if_neg e] at hi; rw [if_neg e2] at hj; exact hs.inj i j o hi hj
        · intro i
          rw [hpost i]
          split
          · simp [AMap.WF, AMap.keys]
          · exact hs.wf_post i
        · intro i hi
          rw [hwi i] at hi
          by_cases e : wid = i
          · simp [e] at hi
          · rw [if_neg e] at hi; rw [hpost i, if_neg e]; exact hs.ne_post i hi
        · intro j d'
          unfold pt
          rw [hpost j]
          by_cases e : wid = j
          · subst e
            simp only [if_true, true_and]
            by_cases e2 : d' = d
            · simp [e2]
            · simp only [e2, if_false]
              rw [hpm]
              have : AMap.get (AMap.erase m d) d' = AMap.get m d' := by
                rw [AMap.get_erase]
                have : ¬ d = d' := fun h => e2 h.symm
                simp [this]
              rw [← this, he]
          · have : ¬ (j = wid ∧ d' = d) := fun h => e h.1.symm
            simp only [e, if_false, this]
        · unfold wcl
          show (x.heap.wordCount + -1 : Int) - ((AMap.erase (AMap.set x.heap.wordinfo wid _) wid).length : Int) = _
          have h1 : AMap.get (AMap.set x.heap.wordinfo wid (PVal.dict (AMap.erase m d))) wid =
              some (PVal.dict (AMap.erase m d)) := by rw [AMap.get_set]; simp
          have h2 := AMap.length_erase_of_get (AMap.WF_set hs.wf_wi wid (PVal.dict (AMap.erase m d))) h1
          have h3 := length_set_of_some' (v' := PVal.dict (AMap.erase m d)) hs.wf_wi hv
          omega
    | ref o =>
      have hres := hs.refs wid o hv
      have hpo : x.heap.posting wid = x.treeOf o := by rw [posting_of_get, hv]; rfl
      have hwft : AMap.WF (x.treeOf o) := hpo ▸ hs.wf_post wid
      have hmd : (AMap.get (x.treeOf o) d).isSome := by unfold pt at hdef; rw [hpo] at hdef; exact hdef
      simp only
      have hnn : ¬ (AMap.get (((x.rd (.wi wid)).rd (.tree o d)).treeOf o) d).isNone = true := by
        show ¬ (AMap.get (x.treeOf o) d).isNone = true
        cases h : AMap.get (x.treeOf o) d with
        | none => rw [h] at hmd; simp at hmd
        | some _ => simp
      rw [if_neg hnn]
      -- the tree after the deletion
      have htree : ∀ (z : TTx W Wt), z.heap.tree = AMap.set x.heap.tree o (AMap.erase (x.treeOf o) d) →
          ∀ o', AMap.get z.heap.tree o' = if o = o' then some (AMap.erase (x.treeOf o) d) else AMap.get x.heap.tree o' := by
        intro z ez o'; rw [ez, AMap.get_set]
      have hto : ((((x.rd (.wi wid)).rd (.tree o d)).treeDel o d).rd (.whole o)).treeOf o = AMap.erase (x.treeOf o) d := by
        simp [TTx.treeOf, TTx.treeDel, TTx.rd, TTx.nt, AMap.get_set]
      rw [hto]
      by_cases hne : AMap.erase (x.treeOf o) d ≠ []
      · rw [if_pos hne]
        refine ⟨rfl, ?_⟩
        have hwi : ∀ j, AMap.get (((((x.rd (.wi wid)).rd (.tree o d)).treeDel o d).rd (.whole o)).wiSet wid (.ref o)).heap.wordinfo j =
            AMap.get x.heap.wordinfo j := by
          intro j
          show AMap.get (AMap.set x.heap.wordinfo wid _) j = _
          rw [AMap.get_set]
          by_cases e : wid = j
          · subst e; simp [hv]
          · simp [e]
        have ht := htree (((((x.rd (.wi wid)).rd (.tree o d)).treeDel o d).rd (.whole o)).wiSet wid (.ref o)) rfl
        have hpost : ∀ j, (((((x.rd (.wi wid)).rd (.tree o d)).treeDel o d).rd (.whole o)).wiSet wid (.ref o)).heap.posting j =
            if wid = j then AMap.erase (x.treeOf o) d else x.heap.posting j := by
          intro j
          rw [posting_of_get, hwi j]
          by_cases e : wid = j
          · subst e
            simp only [if_true, hv, pvalPosting]
            rw [ht]; simp
          · simp only [e, if_false]
            rw [posting_of_get]
            cases hj : AMap.get x.heap.wordinfo j with
            | none => rfl
            | some vj =>
              cases vj with
              | dict mj => rfl
              | ref oj =>
                simp only [pvalPosting]
                rw [ht]
                have : o ≠ oj := fun e2 => e (hs.inj wid j o hv (e2 ▸ hj))
                simp [this]
        refine ⟨⟨?_, ?_, ?_, ?_, ?_⟩, ?_, rfl, rfl, ?_, sameRest_refl _, ?_, ?_⟩
        · exact AMap.WF_set hs.wf_wi _ _
        · intro i o' hi
          rw [hwi i] at hi
          rw [ht]
          split
          · rfl
          · exact hs.refs i o' hi
        · intro i j o' hi hj
          rw [hwi i] at hi; rw [hwi j] at hj
          exact hs.inj i j o' hi hj
        · intro i
          rw [hpost i]
          split
          · exact AMap.WF_erase hwft _
          · exact hs.wf_post i
        · intro i hi
          rw [hpost i]
          split
          · exact hne
          · rw [hwi i] at hi; exact hs.ne_post i hi
        · intro o' hoS hme
          rw [ht] at hoS
          by_cases e : o = o'
          · subst e; exact ho o hres hme
          · rw [if_neg e] at hoS; exact ho o' hoS hme
        · intro j d'
          unfold pt
          rw [hpost j]
          by_cases e : wid = j
          · subst e
            simp only [if_true, true_and]
            rw [AMap.get_erase, hpo]
            by_cases e2 : d' = d
            · simp [e2]
            · have : ¬ d = d' := fun h => e2 h.symm
              simp [e2, this]
          · have : ¬ (j = wid ∧ d' = d) := fun h => e h.1.symm
            simp only [e, if_false, this]
        · unfold wcl
          show (x.heap.wordCount : Int) - ((AMap.set x.heap.wordinfo wid _).length : Int) = _
          rw [length_set_of_some' hs.wf_wi hv]
        · intro o' hoS
          rw [ht]
          split
          · rfl
          · exact hoS
      · rw [if_neg hne]
        have he : AMap.erase (x.treeOf o) d = [] := by
          by_cases e : AMap.erase (x.treeOf o) d = []
          · exact e
          · exact absurd e hne
        refine ⟨rfl, ?_⟩
        have hwi : ∀ j, AMap.get ((((((x.rd (.wi wid)).rd (.tree o d)).treeDel o d).rd (.whole o)).wiErase wid).wcChange (-1)).heap.wordinfo j =
            if wid = j then none else AMap.get x.heap.wordinfo j := by
          intro j
          show AMap.get (AMap.erase x.heap.wordinfo wid) j = _
          rw [AMap.get_erase]
        have ht := htree ((((((x.rd (.wi wid)).rd (.tree o d)).treeDel o d).rd (.whole o)).wiErase wid).wcChange (-1)) rfl
        have hpost : ∀ j, ((((((x.rd (.wi wid)).rd (.tree o d)).treeDel o d).rd (.whole o)).wiErase wid).wcChange (-1)).heap.posting j =
            if wid = j then [] else x.heap.posting j := by
          intro j
          rw [posting_of_get, hwi j]
          by_cases e : wid = j
          · simp [e, pvalPosting]
          · simp only [e, if_false]
            rw [posting_of_get]
            cases hj : AMap.get x.heap.wordinfo j with
            | none => rfl
            | some vj =>
              cases vj with
              | dict mj => rfl
              | ref oj =>
                simp only [pvalPosting]
                rw [ht]
                have : o ≠ oj := fun e2 => e (hs.inj wid j o hv (e2 ▸ hj))
                simp [this]
        refine ⟨⟨?_, ?_, ?_, ?_, ?_⟩, ?_, rfl, rfl, ?_, ⟨rfl, rfl, rfl, rfl, rfl, rfl, rfl, rfl⟩, ?_, ?_⟩
        · exact AMap.WF_erase hs.wf_wi _
        · intro i o' hi
          rw [hwi i] at hi
          by_cases e : wid = i
          · simp [e] at hi
          · rw [if_neg e] at hi
            rw [ht]
            split
            · rfl
            · exact hs.refs i o' hi
        · intro i j o' hi hj
          rw [hwi i] at hi; rw [hwi j] at hj
          by_cases e : wid = i
          · simp [e] at hi
          · by_cases e2 : wid = j
            · simp [e2] at hj
            · rw [if_neg e] at hi; rw [if_neg e2] at hj; exact hs.inj i j o' hi hj
        · intro i
          rw [hpost i]
          split
          · simp [AMap.WF, AMap.keys]
          · exact hs.wf_post i
        · intro i hi
          rw [hwi i] at hi
          by_cases e : wid = i
          · simp [e] at hi
          · rw [if_neg e] at hi; rw [hpost i, if_neg e]; exact hs.ne_post i hi
        · intro o' hoS hme
          rw [ht] at hoS
          by_cases e : o = o'
          · subst e; exact ho o hres hme
          · rw [if_neg e] at hoS; exact ho o' hoS hme
        · intro j d'
          unfold pt
          rw [hpost j]
          by_cases e : wid = j
          · subst e
            simp only [if_true, true_and]
            by_cases e2 : d' = d
            · simp [e2]
            · simp only [e2, if_false]
              rw [hpo]
              have : AMap.get (AMap.erase (x.treeOf o) d) d' = AMap.get (x.treeOf o) d' := by
                rw [AMap.get_erase]
                have : ¬ d = d' := fun h => e2 h.symm
                simp [this]
              rw [← this, he]
          · have : ¬ (j = wid ∧ d' = d) := fun h => e h.1.symm
            simp only [e, if_false, this]
        · unfold wcl
          show (x.heap.wordCount + -1 : Int) - ((AMap.erase x.heap.wordinfo wid).length : Int) = _
          have h2 := AMap.length_erase_of_get hs.wf_wi hv
          omega
        · intro o' hoS
          rw [ht]
          split
          · rfl
          · exact hoS

end Hyp.CIdx
