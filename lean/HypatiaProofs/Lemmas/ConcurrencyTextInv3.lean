import HypatiaProofs.Lemmas.ConcurrencyTextInv2

/-!
The loops over `_del_wordinfo` / `_add_wordinfo`, and the lexicon (`_new_wid`,
`_getWordIdCreate`, `sourceToWordIds`) on the object-level heap.
-/
set_option linter.unusedSectionVars false
set_option linter.unusedSimpArgs false
set_option linter.unusedVariables false
namespace Hyp.CIdx
open Hyp

variable {W Wt : Type} [DecidableEq W] [DecidableEq Wt]

/-! ### loops -/

structure LoopSpec (x y : TTx W Wt) : Prop where
  struct : TStruct y.heap
  own : OwnT y
  me : y.me = x.me
  next : x.next ≤ y.next
  rest : sameRest x.heap y.heap
  wcl : wcl y.heap = wcl x.heap
  trees : ∀ o, (AMap.get x.heap.tree o).isSome → (AMap.get y.heap.tree o).isSome

theorem delAll_spec (d : Int) : ∀ (ws : List Nat), ws.Nodup → ∀ {x : TTx W Wt}, TStruct x.heap → OwnT x →
    (∀ w ∈ ws, (pt x.heap w d).isSome) →
    (TTx.delAll x d ws).2 = true ∧ LoopSpec x (TTx.delAll x d ws).1 ∧
    ∀ j d', pt (TTx.delAll x d ws).1.heap j d' = if d' = d ∧ j ∈ ws then none else pt x.heap j d'
  | [], _, x, hs, ho, _ =>
    ⟨rfl, ⟨hs, ho, rfl, Nat.le_refl _, sameRest_refl _, rfl, fun _ h => h⟩, fun j d' => by simp [TTx.delAll]⟩
  | w :: ws, hnd, x, hs, ho, hdef => by
    obtain ⟨hw, hnd'⟩ := List.nodup_cons.mp hnd
    obtain ⟨ht, sp⟩ := delWordinfo_spec hs ho w d (hdef w (by simp))
    unfold TTx.delAll
    simp only [ht, if_true]
    have hdef' : ∀ w' ∈ ws, (pt (TTx.delWordinfo x w d).1.heap w' d).isSome := by
      intro w' hw'
      rw [sp.pt w' d]
      have : ¬ (w' = w ∧ d = d) := fun h => hw (h.1 ▸ hw')
      rw [if_neg this]
      exact hdef w' (List.mem_cons_of_mem _ hw')
    obtain ⟨h1, h2, h3⟩ := delAll_spec d ws hnd' sp.struct sp.own hdef'
    refine ⟨h1, ⟨h2.struct, h2.own, h2.me.trans sp.me, Nat.le_trans (Nat.le_of_eq sp.next.symm) h2.next,
      sameRest_trans sp.rest h2.rest, h2.wcl.trans sp.wcl, fun o h => h2.trees o (sp.trees o h)⟩, ?_⟩
    intro j d'
    rw [h3 j d', sp.pt j d']
    by_cases e1 : d' = d
    · subst e1
      by_cases e2 : j = w
      · subst e2; simp
      · by_cases e3 : j ∈ ws <;> simp [e2, e3]
    · simp [e1]

theorem addAll_spec {c : TCfg Wt} (hc : c.Faithful) (d : Int) (w2w : AMap Nat Wt) : ∀ (ws : List Nat), ws.Nodup →
    ∀ {x : TTx W Wt}, TStruct x.heap → OwnT x →
    LoopSpec x (TTx.addAll c x d w2w ws) ∧
    ∀ j d', pt (TTx.addAll c x d w2w ws).heap j d' =
      if d' = d ∧ j ∈ ws ∧ (AMap.get w2w j).isSome then AMap.get w2w j else pt x.heap j d'
  | [], _, x, hs, ho =>
    ⟨⟨hs, ho, rfl, Nat.le_refl _, sameRest_refl _, rfl, fun _ h => h⟩, fun j d' => by simp [TTx.addAll]⟩
  | w :: ws, hnd, x, hs, ho => by
    obtain ⟨hw, hnd'⟩ := List.nodup_cons.mp hnd
    unfold TTx.addAll
    cases hg : AMap.get w2w w with
    | none =>
      simp only
      obtain ⟨h2, h3⟩ := addAll_spec hc d w2w ws hnd' hs ho
      refine ⟨h2, fun j d' => ?_⟩
      rw [h3 j d']
      by_cases e : j = w
      · subst e; simp [hg, hw]
      · simp [e]
    | some f =>
      simp only
      obtain ⟨sp, hwcl⟩ := addWordinfo_spec hc hs ho w f d
      obtain ⟨h2, h3⟩ := addAll_spec hc d w2w ws hnd' sp.struct sp.own
      refine ⟨⟨h2.struct, h2.own, h2.me.trans sp.me, Nat.le_trans sp.next h2.next,
        sameRest_trans sp.rest h2.rest, h2.wcl.trans hwcl, fun o h => h2.trees o (sp.trees o h)⟩, fun j d' => ?_⟩
      rw [h3 j d', sp.pt j d']
      by_cases e1 : d' = d
      · subst e1
        by_cases e2 : j = w
        · subst e2; simp [hg, hw]
        · simp [e2]
      · simp [e1]

/-! ### the lexicon -/

/-- the lexicon part of the invariant (C15 at object level): the two trees are mutually inverse
and no id above `word_count` is in use -/
structure LexInv (h : THeap W Wt) : Prop where
  wfW : AMap.WF h.wids
  wfI : AMap.WF h.words
  inverse : ∀ w i, AMap.get h.wids w = some i ↔ AMap.get h.words i = some w
  nonneg : 0 ≤ h.lexCount
  below : ∀ i, (AMap.get h.words i).isSome → (i : Int) ≤ h.lexCount

/-- only the lexicon moved, and it only grew -/
structure LexGrow (h h' : THeap W Wt) : Prop where
  wordinfo : h'.wordinfo = h.wordinfo
  tree : h'.tree = h.tree
  docwords : h'.docwords = h.docwords
  docweight : h'.docweight = h.docweight
  wordCount : h'.wordCount = h.wordCount
  indexedCount : h'.indexedCount = h.indexedCount
  totalDocLen : h'.totalDocLen = h.totalDocLen
  ni : h'.ni = h.ni
  keep : ∀ w i, AMap.get h.wids w = some i → AMap.get h'.wids w = some i

theorem lexGrow_refl (h : THeap W Wt) : LexGrow h h := ⟨rfl, rfl, rfl, rfl, rfl, rfl, rfl, rfl, fun _ _ e => e⟩

theorem lexGrow_trans {a b c : THeap W Wt} (h1 : LexGrow a b) (h2 : LexGrow b c) : LexGrow a c :=
  ⟨h2.wordinfo.trans h1.wordinfo, h2.tree.trans h1.tree, h2.docwords.trans h1.docwords,
   h2.docweight.trans h1.docweight, h2.wordCount.trans h1.wordCount, h2.indexedCount.trans h1.indexedCount,
   h2.totalDocLen.trans h1.totalDocLen, h2.ni.trans h1.ni, fun w i e => h2.keep w i (h1.keep w i e)⟩

theorem newWid_of_lexInv {x : TTx W Wt} (hl : LexInv x.heap) :
    (TTx.newWid x).2 = (x.heap.lexCount + 1).toNat ∧
    (TTx.newWid x).1.heap = { x.heap with lexCount := x.heap.lexCount + 1 } ∧
    (TTx.newWid x).1.me = x.me ∧ (TTx.newWid x).1.next = x.next := by
  have hfree : AMap.get x.heap.words (x.heap.lexCount + 1).toNat = none := by
    cases hg : AMap.get x.heap.words (x.heap.lexCount + 1).toNat with
    | none => rfl
    | some w =>
      have := hl.below (x.heap.lexCount + 1).toNat (by rw [hg]; rfl)
      have := hl.nonneg
      omega
  have hskip : TTx.skipLoop (x.lexChange 1) ((x.lexChange 1).heap.words.length + 1) =
      ((x.lexChange 1).rd .lexCount).rd (.words (x.lexChange 1).heap.lexCount.toNat) := by
    show TTx.skipLoop (x.lexChange 1) (_ + 1) = _
    unfold TTx.skipLoop
    simp only
    have : (AMap.get (((x.lexChange 1).rd .lexCount).rd (.words (x.lexChange 1).heap.lexCount.toNat)).heap.words
        (((x.lexChange 1).rd .lexCount).rd (.words (x.lexChange 1).heap.lexCount.toNat)).heap.lexCount.toNat).isSome
          = false := by
      show (AMap.get x.heap.words (x.heap.lexCount + 1).toNat).isSome = false
      rw [hfree]; rfl
    rw [if_neg (by rw [this]; simp)]
  unfold TTx.newWid
  simp only
  rw [hskip]
  exact ⟨rfl, rfl, rfl, rfl⟩

structure WidSpec (x y : TTx W Wt) (w : W) (i : Nat) : Prop where
  lex : LexInv y.heap
  grow : LexGrow x.heap y.heap
  me : y.me = x.me
  next : y.next = x.next
  got : AMap.get y.heap.wids w = some i

theorem getWidCreate_spec {x : TTx W Wt} (hl : LexInv x.heap) (w : W) :
    WidSpec x (TTx.getWidCreate x w).1 w (TTx.getWidCreate x w).2 := by
  unfold TTx.getWidCreate
  simp only
  cases hg : AMap.get (x.rd (.wids w)).heap.wids w with
  | some i => exact ⟨hl, lexGrow_refl _, rfl, rfl, hg⟩
  | none =>
    simp only
    have hgw : AMap.get x.heap.wids w = none := hg
    obtain ⟨e1, e2, e3, e4⟩ := newWid_of_lexInv (x := x.rd (.wids w)) hl
    have hk : (x.heap.lexCount + 1).toNat = (TTx.newWid (x.rd (.wids w))).2 := e1.symm
    have hfree : AMap.get x.heap.words (x.heap.lexCount + 1).toNat = none := by
      cases hgg : AMap.get x.heap.words (x.heap.lexCount + 1).toNat with
      | none => rfl
      | some w' =>
        have := hl.below (x.heap.lexCount + 1).toNat (by rw [hgg]; rfl)
        have := hl.nonneg
        omega
    have hwids : (((TTx.newWid (x.rd (.wids w))).1.widsSet w (TTx.newWid (x.rd (.wids w))).2).wordsSet
        (TTx.newWid (x.rd (.wids w))).2 w).heap.wids = AMap.set x.heap.wids w (x.heap.lexCount + 1).toNat := by
      show AMap.set (TTx.newWid (x.rd (.wids w))).1.heap.wids w _ = _
      rw [e2, ← hk]; rfl
    have hwords : (((TTx.newWid (x.rd (.wids w))).1.widsSet w (TTx.newWid (x.rd (.wids w))).2).wordsSet
        (TTx.newWid (x.rd (.wids w))).2 w).heap.words = AMap.set x.heap.words (x.heap.lexCount + 1).toNat w := by
      show AMap.set (TTx.newWid (x.rd (.wids w))).1.heap.words _ w = _
      rw [e2, ← hk]; rfl
    have hcount : (((TTx.newWid (x.rd (.wids w))).1.widsSet w (TTx.newWid (x.rd (.wids w))).2).wordsSet
        (TTx.newWid (x.rd (.wids w))).2 w).heap.lexCount = x.heap.lexCount + 1 := by
      show (TTx.newWid (x.rd (.wids w))).1.heap.lexCount = _
      rw [e2]; rfl
    have hnn := hl.nonneg
    refine ⟨⟨?_, ?_, ?_, ?_, ?_⟩, ⟨?_, ?_, ?_, ?_, ?_, ?_, ?_, ?_, ?_⟩, e3, e4, ?_⟩
    · rw [hwids]; exact AMap.WF_set hl.wfW _ _
    · rw [hwords]; exact AMap.WF_set hl.wfI _ _
    · intro w' i
      rw [hwids, hwords, AMap.get_set, AMap.get_set]
      by_cases e : w = w'
      · subst e
        by_cases e' : (x.heap.lexCount + 1).toNat = i
        · simp [e']
        · simp only [if_true, e', if_false]
          constructor
          · intro h; exact absurd (Option.some.inj h) e'
          · intro h
            have := (hl.inverse w i).mpr h
            rw [hgw] at this; cases this
      · simp only [e, if_false]
        by_cases e' : (x.heap.lexCount + 1).toNat = i
        · subst e'
          simp only [if_true]
          constructor
          · intro h
            have := (hl.inverse w' _).mp h
            rw [hfree] at this; cases this
          · intro h; exact absurd (Option.some.inj h) e
        · simp only [e', if_false]
          exact hl.inverse w' i
    · rw [hcount]; omega
    · intro i hi
      rw [hwords, AMap.get_set] at hi
      rw [hcount]
      by_cases e' : (x.heap.lexCount + 1).toNat = i
      · omega
      · rw [if_neg e'] at hi
        have := hl.below i hi
        omega
    · show (TTx.newWid (x.rd (.wids w))).1.heap.wordinfo = _; rw [e2]; rfl
    · show (TTx.newWid (x.rd (.wids w))).1.heap.tree = _; rw [e2]; rfl
    · show (TTx.newWid (x.rd (.wids w))).1.heap.docwords = _; rw [e2]; rfl
    · show (TTx.newWid (x.rd (.wids w))).1.heap.docweight = _; rw [e2]; rfl
    · show (TTx.newWid (x.rd (.wids w))).1.heap.wordCount = _; rw [e2]; rfl
    · show (TTx.newWid (x.rd (.wids w))).1.heap.indexedCount = _; rw [e2]; rfl
    · show (TTx.newWid (x.rd (.wids w))).1.heap.totalDocLen = _; rw [e2]; rfl
    · show (TTx.newWid (x.rd (.wids w))).1.heap.ni = _; rw [e2]; rfl
    · intro w' i h
      rw [hwids, AMap.get_set]
      have : w ≠ w' := by intro e; subst e; rw [hgw] at h; cases h
      rw [if_neg this]; exact h
    · rw [hwids, AMap.get_set, if_pos rfl, hk]

/-- the word ids of a token list under the lexicon of `h` (0 = not in the lexicon) -/
def idsOf (h : THeap W Wt) (toks : List W) : List Nat := toks.map (fun w => (AMap.get h.wids w).getD 0)

theorem idsOf_grow {h h' : THeap W Wt} (hg : LexGrow h h') {toks : List W}
    (hk : ∀ w ∈ toks, (AMap.get h.wids w).isSome) : idsOf h' toks = idsOf h toks := by
  unfold idsOf
  apply List.map_congr_left
  intro w hw
  cases e : AMap.get h.wids w with
  | none => have := hk w hw; rw [e] at this; simp at this
  | some i => rw [hg.keep w i e]

structure SrcSpec (x y : TTx W Wt) (ws : List W) (ids : List Nat) : Prop where
  lex : LexInv y.heap
  grow : LexGrow x.heap y.heap
  me : y.me = x.me
  next : y.next = x.next
  known : ∀ w ∈ ws, (AMap.get y.heap.wids w).isSome
  ids : ids = idsOf y.heap ws

theorem sourceToWordIds_spec : ∀ (ws : List W) {x : TTx W Wt}, LexInv x.heap →
    SrcSpec x (TTx.sourceToWordIds x ws).1 ws (TTx.sourceToWordIds x ws).2
  | [], x, hl => ⟨hl, lexGrow_refl _, rfl, rfl, fun _ h => by simp at h, rfl⟩
  | w :: ws, x, hl => by
    have s1 := getWidCreate_spec hl w
    have s2 := sourceToWordIds_spec ws s1.lex
    unfold TTx.sourceToWordIds
    simp only
    refine ⟨s2.lex, lexGrow_trans s1.grow s2.grow, s2.me.trans s1.me, s2.next.trans s1.next, ?_, ?_⟩
    · intro w' hw'
      rcases List.mem_cons.mp hw' with rfl | h
      · rw [s2.grow.keep _ _ s1.got]; rfl
      · exact s2.known w' h
    · show _ :: _ = idsOf _ (w :: ws)
      rw [s2.ids]
      unfold idsOf
      simp only [List.map_cons]
      rw [s2.grow.keep _ _ s1.got]; rfl

end Hyp.CIdx
