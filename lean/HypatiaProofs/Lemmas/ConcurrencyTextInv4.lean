import HypatiaProofs.Lemmas.ConcurrencyTextInv3

/-!
The table-free core of the object-level text invariant (`TCore`: lexicon, structure, postings =
the documents' frequency columns, document weights, counters) and its preservation by
`unindex_doc` / `index_doc` / `reindex_doc` of `BaseIndex` / `OkapiIndex`.
-/
set_option linter.unusedSectionVars false
set_option linter.unusedSimpArgs false
set_option linter.unusedVariables false
namespace Hyp.CIdx
open Hyp

variable {W Wt : Type} [DecidableEq W] [DecidableEq Wt]

/-- what the theorems need of `_get_frequencies`: the keys of the weight map are the distinct word
ids of the document; for Okapi the document weight is the number of words -/
structure FreqOK (c : TCfg Wt) : Prop where
  wf : ∀ ws, AMap.WF (c.freq ws).1
  keys : ∀ ws j, (AMap.get (c.freq ws).1 j).isSome ↔ j ∈ ws
  len : c.okapi = true → ∀ ws, c.wtInt (c.freq ws).2 = ws.length

/-- `sum(self._docweight.values())` -/
def sumW (c : TCfg Wt) (m : AMap Int Wt) : Int := (m.map (fun e => c.wtInt e.2)).sum

theorem sumW_erase (c : TCfg Wt) {m : AMap Int Wt} (hwf : AMap.WF m) {d : Int} {f : Wt}
    (h : AMap.get m d = some f) : sumW c (AMap.erase m d) = sumW c m - c.wtInt f := by
  induction m with
  | nil => simp at h
  | cons p m ih =>
    obtain ⟨a, b⟩ := p
    unfold AMap.WF AMap.keys at hwf
    simp only [List.map_cons, List.nodup_cons] at hwf
    rw [AMap.get_cons] at h
    by_cases h2 : a = d
    · subst h2
      simp only [if_true] at h
      have hb : b = f := Option.some.inj h
      subst hb
      have hn : AMap.get m a = none := (AMap.not_mem_keys_iff m a).mp hwf.1
      have : AMap.erase ((a, b) :: m) a = m := by
        have e := AMap.erase_of_get_none hn
        unfold AMap.erase at e ⊢
        simp [List.filter, e]
      rw [this]; simp only [sumW, List.map_cons, List.sum_cons]; omega
    · simp only [h2, if_false] at h
      have := ih hwf.2 h
      have e : AMap.erase ((a, b) :: m) d = (a, b) :: AMap.erase m d := by
        unfold AMap.erase; simp [List.filter, h2]
      rw [e]
      simp only [sumW, List.map_cons, List.sum_cons] at this ⊢
      omega

theorem sumW_set (c : TCfg Wt) {m : AMap Int Wt} (hwf : AMap.WF m) (d : Int) (f : Wt) :
    sumW c (AMap.set m d f) = sumW c m - ((AMap.get m d).map c.wtInt).getD 0 + c.wtInt f := by
  unfold AMap.set
  cases h : AMap.get m d with
  | none =>
    rw [AMap.erase_of_get_none h]
    simp [sumW]; omega
  | some f0 =>
    have := sumW_erase c hwf h
    simp only [sumW, List.map_cons, List.sum_cons, Option.map_some, Option.getD_some] at this ⊢
    omega

/-- the part of the invariant that does not mention the document table (nor `_totaldoclen`) -/
structure TCore0 (c : TCfg Wt) (h : THeap W Wt) : Prop where
  lex : LexInv h
  struct : TStruct h
  wfD : AMap.WF h.docwords
  wfDw : AMap.WF h.docweight
  docweight : ∀ d, AMap.get h.docweight d = (AMap.get h.docwords d).map (fun ws => (c.freq ws).2)
  postings : ∀ j d, pt h j d = (AMap.get h.docwords d).bind (fun ws => AMap.get (c.freq ws).1 j)
  wc : wcl h = 0
  ic : h.indexedCount = h.docwords.length

structure TCore (c : TCfg Wt) (h : THeap W Wt) : Prop extends TCore0 c h where
  tdl : c.okapi = true → h.totalDocLen = sumW c h.docweight

theorem posting_congr {h h' : THeap W Wt} (e1 : h'.wordinfo = h.wordinfo) (e2 : h'.tree = h.tree) (i : Nat) :
    h'.posting i = h.posting i := by
  unfold THeap.posting; rw [e1, e2]

theorem tstruct_of_eq {h h' : THeap W Wt} (hs : TStruct h) (e1 : h'.wordinfo = h.wordinfo) (e2 : h'.tree = h.tree) :
    TStruct h' :=
  ⟨e1 ▸ hs.wf_wi, by rw [e1, e2]; exact hs.refs, by rw [e1]; exact hs.inj,
   fun i => by rw [posting_congr e1 e2]; exact hs.wf_post i,
   fun i hi => by rw [posting_congr e1 e2]; rw [e1] at hi; exact hs.ne_post i hi⟩

theorem pt_congr {h h' : THeap W Wt} (e1 : h'.wordinfo = h.wordinfo) (e2 : h'.tree = h.tree) (j : Nat) (d : Int) :
    pt h' j d = pt h j d := by
  unfold pt; rw [posting_congr e1 e2]

theorem lexInv_of_eq {h h' : THeap W Wt} (hl : LexInv h) (e1 : h'.wids = h.wids) (e2 : h'.words = h.words)
    (e3 : h'.lexCount = h.lexCount) : LexInv h' :=
  ⟨e1 ▸ hl.wfW, e2 ▸ hl.wfI, by rw [e1, e2]; exact hl.inverse, by rw [e3]; exact hl.nonneg,
    by rw [e2, e3]; exact hl.below⟩

theorem mem_sortedKeys (l : List Nat) (j : Nat) : j ∈ TTx.sortedKeys l ↔ j ∈ l := by
  unfold TTx.sortedKeys
  rw [Sort.mem_isort, Keyword.mem_dedup]

theorem nodup_sortedKeys (l : List Nat) : (TTx.sortedKeys l).Nodup := by
  unfold TTx.sortedKeys
  exact (Sort.isort_perm _ _).nodup_iff.mpr (Keyword.nodup_dedup l)

/-- the heap moved only in the text index's own objects; lexicon and `_not_indexed` are as before -/
structure TextOnly (h h' : THeap W Wt) : Prop where
  wids : h'.wids = h.wids
  words : h'.words = h.words
  lexCount : h'.lexCount = h.lexCount
  ni : h'.ni = h.ni

structure UnindexSpec (c : TCfg Wt) (x y : TTx W Wt) (d : Int) : Prop where
  core : TCore c y.heap
  own : OwnT y
  me : y.me = x.me
  next : x.next ≤ y.next
  only : TextOnly x.heap y.heap
  docwords : ∀ d', AMap.get y.heap.docwords d' = if d' = d then none else AMap.get x.heap.docwords d'
  trees : ∀ o, (AMap.get x.heap.tree o).isSome → (AMap.get y.heap.tree o).isSome

theorem tcore_of_same_heap {c : TCfg Wt} {h h' : THeap W Wt} (hc : TCore c h) (e : h' = h) : TCore c h' := e ▸ hc

theorem baseUnindex_spec {c : TCfg Wt} (hf : FreqOK c) {x : TTx W Wt} (d : Int)
    (hlex : LexInv x.heap) (hs : TStruct x.heap) (ho : OwnT x) (hwfD : AMap.WF x.heap.docwords)
    (hwfDw : AMap.WF x.heap.docweight)
    (hdw : ∀ d, AMap.get x.heap.docweight d = (AMap.get x.heap.docwords d).map (fun ws => (c.freq ws).2))
    (hpost : ∀ j d, pt x.heap j d = (AMap.get x.heap.docwords d).bind (fun ws => AMap.get (c.freq ws).1 j))
    (hwc : wcl x.heap = 0) (hic : x.heap.indexedCount = x.heap.docwords.length)
    (old : List Nat) (hold : AMap.get x.heap.docwords d = some old)
    (htdl : c.okapi = true → x.heap.totalDocLen = sumW c x.heap.docweight - c.wtInt (c.freq old).2) :
    UnindexSpec c x (TTx.baseUnindex x d) d := by
  unfold TTx.baseUnindex
  simp only
  have hold' : AMap.get (x.rd (.docwords d)).heap.docwords d = some old := hold
  rw [hold']
  simp only
  have hdef : ∀ w ∈ TTx.sortedKeys old, (pt (x.rd (.docwords d)).heap w d).isSome := by
    intro w hw
    show (pt x.heap w d).isSome
    rw [hpost w d, hold]
    exact (hf.keys old w).mpr ((mem_sortedKeys old w).mp hw)
  obtain ⟨ht, lp, hpt⟩ := delAll_spec d (TTx.sortedKeys old) (nodup_sortedKeys old)
    (x := x.rd (.docwords d)) hs ho hdef
  rw [ht]
  simp only [Bool.not_true, Bool.false_eq_true, if_false]
  obtain ⟨r1, r2, r3, r4, r5, r6, r7, r8⟩ := lp.rest
  have hdwd : AMap.get x.heap.docweight d = some (c.freq old).2 := by rw [hdw d, hold]; rfl
  -- abbreviation for the state after the loop
  refine ⟨⟨⟨?_, ?_, ?_, ?_, ?_, ?_, ?_, ?_⟩, ?_⟩, ?_, lp.me, lp.next, ⟨r1, r2, r3, r8⟩, ?_, lp.trees⟩
  · exact lexInv_of_eq hlex r1 r2 r3
  · exact ⟨lp.struct.wf_wi, lp.struct.refs, lp.struct.inj, lp.struct.wf_post, lp.struct.ne_post⟩
  · show AMap.WF (AMap.erase (TTx.delAll (x.rd (.docwords d)) d (TTx.sortedKeys old)).1.heap.docwords d)
    rw [r4]; exact AMap.WF_erase hwfD _
  · show AMap.WF (AMap.erase (TTx.delAll (x.rd (.docwords d)) d (TTx.sortedKeys old)).1.heap.docweight d)
    rw [r5]; exact AMap.WF_erase hwfDw _
  · intro d'
    show AMap.get (AMap.erase (TTx.delAll (x.rd (.docwords d)) d (TTx.sortedKeys old)).1.heap.docweight d) d' =
      (AMap.get (AMap.erase (TTx.delAll (x.rd (.docwords d)) d (TTx.sortedKeys old)).1.heap.docwords d) d').map _
    rw [r4, r5, AMap.get_erase, AMap.get_erase]
    split
    · rfl
    · exact hdw d'
  · intro j d'
    show pt (TTx.delAll (x.rd (.docwords d)) d (TTx.sortedKeys old)).1.heap j d' =
      (AMap.get (AMap.erase (TTx.delAll (x.rd (.docwords d)) d (TTx.sortedKeys old)).1.heap.docwords d) d').bind _
    rw [hpt j d', r4, AMap.get_erase]
    by_cases e : d' = d
    · subst e
      simp only [true_and, if_true, Option.bind_none]
      split
      · rfl
      · next hn =>
        show pt x.heap j d' = none
        rw [hpost j d', hold]
        show AMap.get (c.freq old).1 j = none
        cases hg : AMap.get (c.freq old).1 j with
        | none => rfl
        | some f =>
          exact absurd ((mem_sortedKeys old j).mpr ((hf.keys old j).mp (by rw [hg]; rfl))) hn
    · have e' : ¬ d = d' := fun h => e h.symm
      simp only [e, false_and, if_false, e']
      exact hpost j d'
  · show wcl (TTx.delAll (x.rd (.docwords d)) d (TTx.sortedKeys old)).1.heap = 0
    rw [lp.wcl]; exact hwc
  · show (TTx.delAll (x.rd (.docwords d)) d (TTx.sortedKeys old)).1.heap.indexedCount + -1 =
      ((AMap.erase (TTx.delAll (x.rd (.docwords d)) d (TTx.sortedKeys old)).1.heap.docwords d).length : Int)
    rw [r4, r6]
    have := AMap.length_erase_of_get hwfD hold
    show x.heap.indexedCount + -1 = ((AMap.erase x.heap.docwords d).length : Int)
    rw [hic]; omega
  · intro hok
    show (TTx.delAll (x.rd (.docwords d)) d (TTx.sortedKeys old)).1.heap.totalDocLen =
      sumW c (AMap.erase (TTx.delAll (x.rd (.docwords d)) d (TTx.sortedKeys old)).1.heap.docweight d)
    rw [r5, r7]
    show x.heap.totalDocLen = sumW c (AMap.erase x.heap.docweight d)
    rw [sumW_erase c hwfDw hdwd]
    exact htdl hok
  · intro o hoS hm
    exact lp.own o hoS hm
  · intro d'
    show AMap.get (AMap.erase (TTx.delAll (x.rd (.docwords d)) d (TTx.sortedKeys old)).1.heap.docwords d) d' = _
    rw [r4]
    show AMap.get (AMap.erase x.heap.docwords d) d' = _
    rw [AMap.get_erase]
    by_cases e : d' = d
    · have : d = d' := e.symm
      simp [e]
    · have : ¬ d = d' := fun h => e h.symm
      simp [e, this]

/-- `OkapiIndex.unindex_doc` / `BaseIndex.unindex_doc` -/
theorem unindexText_spec {c : TCfg Wt} (hf : FreqOK c) {x : TTx W Wt} (hc : TCore c x.heap) (ho : OwnT x) (d : Int) :
    UnindexSpec c x (TTx.unindexText c x d) d := by
  have same : ∀ (y : TTx W Wt), y.heap = x.heap → y.me = x.me → y.next = x.next →
      AMap.get x.heap.docwords d = none → UnindexSpec c x y d := by
    intro y e1 e2 e3 hn
    refine ⟨e1 ▸ hc, ?_, e2, Nat.le_of_eq e3.symm, ⟨by rw [e1], by rw [e1], by rw [e1], by rw [e1]⟩, ?_, ?_⟩
    · intro o hoS hm; rw [e1] at hoS; rw [e3]; exact ho o hoS (hm.trans e2)
    · intro d'
      rw [e1]
      by_cases e : d' = d
      · subst e; simp [hn]
      · simp [e]
    · intro o hoS; rw [e1]; exact hoS
  unfold TTx.unindexText
  cases hg : AMap.get x.heap.docwords d with
  | none =>
    by_cases hok : c.okapi = true
    · rw [if_pos hok]
      simp only
      have : (AMap.get (x.rd (.docwords d)).heap.docwords d).isNone = true := by
        show (AMap.get x.heap.docwords d).isNone = true; rw [hg]; rfl
      rw [if_pos this]
      exact same _ rfl rfl rfl hg
    · rw [if_neg hok]
      unfold TTx.baseUnindex
      simp only
      have : AMap.get (x.rd (.docwords d)).heap.docwords d = none := hg
      rw [this]
      exact same _ rfl rfl rfl hg
  | some old =>
    have hdwd : AMap.get x.heap.docweight d = some (c.freq old).2 := by rw [hc.docweight d, hg]; rfl
    by_cases hok : c.okapi = true
    · rw [if_pos hok]
      simp only
      have : ¬ (AMap.get (x.rd (.docwords d)).heap.docwords d).isNone = true := by
        show ¬ (AMap.get x.heap.docwords d).isNone = true; rw [hg]; simp
      rw [if_neg this]
      have hdw' : AMap.get ((x.rd (.docwords d)).rd (.docweight d)).heap.docweight d = some (c.freq old).2 := hdwd
      rw [hdw']
      simp only
      have sp := baseUnindex_spec (c := c) hf
        (x := ((x.rd (.docwords d)).rd (.docweight d)).tdlChange (-(c.wtInt (c.freq old).2))) d
        (lexInv_of_eq hc.lex rfl rfl rfl)
        ⟨hc.struct.wf_wi, hc.struct.refs, hc.struct.inj, hc.struct.wf_post, hc.struct.ne_post⟩
        (fun o h hm => ho o h hm) hc.wfD hc.wfDw hc.docweight hc.postings hc.wc hc.ic old hg
        (fun _ => by
          show x.heap.totalDocLen + -(c.wtInt (c.freq old).2) = sumW c x.heap.docweight - c.wtInt (c.freq old).2
          rw [hc.tdl hok]; omega)
      exact ⟨sp.core, sp.own, sp.me, sp.next, ⟨sp.only.wids, sp.only.words, sp.only.lexCount, sp.only.ni⟩,
        sp.docwords, sp.trees⟩
    · rw [if_neg hok]
      exact baseUnindex_spec hf d hc.lex hc.struct ho hc.wfD hc.wfDw hc.docweight hc.postings hc.wc hc.ic old hg
        (fun h => absurd h hok)

end Hyp.CIdx
