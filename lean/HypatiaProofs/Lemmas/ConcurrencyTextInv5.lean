import HypatiaProofs.Lemmas.ConcurrencyTextInv4

/-!
The last phase of `BaseIndex.index_doc` / `reindex_doc` on the object-level heap: once the
postings carry the document's new frequency column, `_docweight[docid]` and `_docwords[docid]` are
stored (`docPhase_spec`).
-/
set_option linter.unusedSectionVars false
set_option linter.unusedSimpArgs false
set_option linter.unusedVariables false
namespace Hyp.CIdx
open Hyp

variable {W Wt : Type} [DecidableEq W] [DecidableEq Wt]

theorem theap_ext {h h' : THeap W Wt} (e1 : h'.wids = h.wids) (e2 : h'.words = h.words)
    (e3 : h'.lexCount = h.lexCount) (e4 : h'.wordinfo = h.wordinfo) (e5 : h'.docwords = h.docwords)
    (e6 : h'.docweight = h.docweight) (e7 : h'.wordCount = h.wordCount) (e8 : h'.indexedCount = h.indexedCount)
    (e9 : h'.totalDocLen = h.totalDocLen) (e10 : h'.ni = h.ni) (e11 : h'.tree = h.tree) : h' = h := by
  cases h; cases h'
  simp only at e1 e2 e3 e4 e5 e6 e7 e8 e9 e10 e11
  subst e1 e2 e3 e4 e5 e6 e7 e8 e9 e10 e11
  rfl

/-- what `BaseIndex.index_doc` / `reindex_doc` leave behind -/
structure BaseIndexSpec (c : TCfg Wt) (x y : TTx W Wt) (d : Int) (words : List W) (n : Nat) : Prop where
  core : TCore0 c y.heap
  own : OwnT y
  me : y.me = x.me
  next : x.next ≤ y.next
  grow : ∀ w i, AMap.get x.heap.wids w = some i → AMap.get y.heap.wids w = some i
  ni : y.heap.ni = x.heap.ni
  known : ∀ w ∈ words, (AMap.get y.heap.wids w).isSome
  docwords : ∀ d', AMap.get y.heap.docwords d' = if d' = d then some (idsOf y.heap words) else AMap.get x.heap.docwords d'
  trees : ∀ o, (AMap.get x.heap.tree o).isSome → (AMap.get y.heap.tree o).isSome
  tdlSame : y.heap.totalDocLen = x.heap.totalDocLen
  sum : sumW c y.heap.docweight =
    sumW c x.heap.docweight - ((AMap.get x.heap.docweight d).map c.wtInt).getD 0 + c.wtInt (c.freq (idsOf y.heap words)).2
  count : n = (idsOf y.heap words).length

theorem dwtSet_spec (c : TCfg Wt) (x : TTx W Wt) (hwf : AMap.WF x.heap.docweight) (d : Int) (f : Wt) :
    (∀ d', AMap.get (x.dwtSet d f).heap.docweight d' = if d' = d then some f else AMap.get x.heap.docweight d') ∧
    AMap.WF (x.dwtSet d f).heap.docweight ∧
    sumW c (x.dwtSet d f).heap.docweight =
      sumW c x.heap.docweight - ((AMap.get x.heap.docweight d).map c.wtInt).getD 0 + c.wtInt f ∧
    { (x.dwtSet d f).heap with docweight := x.heap.docweight } = x.heap ∧
    (x.dwtSet d f).me = x.me ∧ (x.dwtSet d f).next = x.next := by
  unfold TTx.dwtSet
  by_cases e : AMap.get x.heap.docweight d = some f
  · rw [if_pos e]
    refine ⟨?_, hwf, ?_, rfl, rfl, rfl⟩
    · intro d'
      by_cases e2 : d' = d
      · subst e2; simp [e]
      · simp [e2]
    · rw [e]; simp
  · rw [if_neg e]
    refine ⟨?_, AMap.WF_set hwf _ _, sumW_set c hwf d f, rfl, rfl, rfl⟩
    intro d'
    show AMap.get (AMap.set x.heap.docweight d f) d' = _
    rw [AMap.get_set]
    by_cases e2 : d' = d
    · subst e2; simp
    · have : ¬ d = d' := fun h => e2 h.symm
      simp [e2, this]

/-- **the document phase.**  `z` is the state after the lexicon and the postings have been
updated: its lexicon extends `x`'s and knows the words, its postings are `x`'s with column `d`
replaced by the new frequencies, everything else is `x`'s.  Storing the document weight, the word
ids and adding `δ` to `indexed_count` (1 for a new document, 0 for a re-indexed one) gives a
state that satisfies the core invariant. -/
theorem docPhase_spec {c : TCfg Wt} (hf : FreqOK c) {x z : TTx W Wt} (h0 : TCore0 c x.heap) (d : Int)
    (words : List W) (ids : List Nat) (δ : Int)
    (hlex : LexInv z.heap) (hgrow : ∀ w i, AMap.get x.heap.wids w = some i → AMap.get z.heap.wids w = some i)
    (hknown : ∀ w ∈ words, (AMap.get z.heap.wids w).isSome) (hids : ids = idsOf z.heap words)
    (hs : TStruct z.heap) (ho : OwnT z) (hme : z.me = x.me) (hnext : x.next ≤ z.next)
    (hpt : ∀ j d', pt z.heap j d' = if d' = d then AMap.get (c.freq ids).1 j else pt x.heap j d')
    (hdw : z.heap.docwords = x.heap.docwords) (hdwt : z.heap.docweight = x.heap.docweight)
    (hic : z.heap.indexedCount = x.heap.indexedCount) (htdl : z.heap.totalDocLen = x.heap.totalDocLen)
    (hni : z.heap.ni = x.heap.ni) (hwcl : wcl z.heap = 0)
    (htrees : ∀ o, (AMap.get x.heap.tree o).isSome → (AMap.get z.heap.tree o).isSome)
    (hδ : δ = if (AMap.get x.heap.docwords d).isSome then 0 else 1)
    (y : TTx W Wt) (hy : y.heap = { ((z.dwtSet d (c.freq ids).2).dwSet d ids).heap with
      indexedCount := ((z.dwtSet d (c.freq ids).2).dwSet d ids).heap.indexedCount + δ })
    (hyme : y.me = z.me) (hynext : y.next = z.next) :
    BaseIndexSpec c x y d words ids.length := by
  obtain ⟨w1, w2, w3, w4, w5, w6⟩ := dwtSet_spec c z (hdwt ▸ h0.wfDw) d (c.freq ids).2
  -- the components of `y`
  have ywids : y.heap.wids = z.heap.wids := by rw [hy]; have h1 := congrArg THeap.wids w4; exact h1
  have ywords : y.heap.words = z.heap.words := by rw [hy]; have h1 := congrArg THeap.words w4; exact h1
  have ylex : y.heap.lexCount = z.heap.lexCount := by rw [hy]; have h1 := congrArg THeap.lexCount w4; exact h1
  have ywi : y.heap.wordinfo = z.heap.wordinfo := by rw [hy]; have h1 := congrArg THeap.wordinfo w4; exact h1
  have ytree : y.heap.tree = z.heap.tree := by rw [hy]; have h1 := congrArg THeap.tree w4; exact h1
  have ywc : y.heap.wordCount = z.heap.wordCount := by rw [hy]; have h1 := congrArg THeap.wordCount w4; exact h1
  have ytdl : y.heap.totalDocLen = z.heap.totalDocLen := by rw [hy]; have h1 := congrArg THeap.totalDocLen w4; exact h1
  have yni : y.heap.ni = z.heap.ni := by rw [hy]; have h1 := congrArg THeap.ni w4; exact h1
  have yic : y.heap.indexedCount = z.heap.indexedCount + δ := by
    rw [hy]; show (z.dwtSet d (c.freq ids).2).heap.indexedCount + δ = _
    have h1 := congrArg THeap.indexedCount w4
    rw [show (z.dwtSet d (c.freq ids).2).heap.indexedCount = z.heap.indexedCount from h1]
  have ydw : y.heap.docwords = AMap.set x.heap.docwords d ids := by
    rw [hy]; show AMap.set (z.dwtSet d (c.freq ids).2).heap.docwords d ids = _
    have h1 := congrArg THeap.docwords w4
    rw [show (z.dwtSet d (c.freq ids).2).heap.docwords = z.heap.docwords from h1, hdw]
  have ydwt : y.heap.docweight = (z.dwtSet d (c.freq ids).2).heap.docweight := by rw [hy]; rfl
  have hidsy : idsOf y.heap words = ids := by rw [hids]; unfold idsOf; rw [ywids]
  have hgetdw : ∀ d', AMap.get y.heap.docwords d' = if d' = d then some ids else AMap.get x.heap.docwords d' := by
    intro d'
    rw [ydw, AMap.get_set]
    by_cases e : d' = d
    · subst e; simp
    · have : ¬ d = d' := fun h => e h.symm
      simp [e, this]
  refine ⟨⟨?_, ?_, ?_, ?_, ?_, ?_, ?_, ?_⟩, ?_, hyme.trans hme, ?_, ?_, yni.trans hni, ?_, ?_, ?_, ytdl.trans htdl, ?_, ?_⟩
  · exact lexInv_of_eq hlex ywids ywords ylex
  · exact tstruct_of_eq hs ywi ytree
  · rw [ydw]; exact AMap.WF_set h0.wfD _ _
  · rw [ydwt]; exact w2
  · intro d'
    rw [ydwt, w1 d', hgetdw d', hdwt]
    by_cases e : d' = d
    · simp [e]
    · simp only [e, if_false]; exact h0.docweight d'
  · intro j d'
    rw [pt_congr ywi ytree, hpt j d', hgetdw d']
    by_cases e : d' = d
    · simp [e]
    · simp only [e, if_false]; exact h0.postings j d'
  · unfold wcl; rw [ywc, ywi]; exact hwcl
  · rw [yic, hic, h0.ic, ydw, hδ]
    cases hg : AMap.get x.heap.docwords d with
    | none => rw [length_set_of_none' hg]; simp
    | some old => rw [length_set_of_some' h0.wfD hg]; simp
  · intro o hoS hm
    rw [ytree] at hoS; rw [hynext]; exact ho o hoS (hm.trans hyme)
  · rw [hynext]; exact hnext
  · intro w i h; rw [ywids]; exact hgrow w i h
  · intro w hw; rw [ywids]; exact hknown w hw
  · intro d'; rw [hgetdw d', hidsy]
  · intro o hoS; rw [ytree]; exact htrees o hoS
  · rw [ydwt, w3, hdwt, hidsy]
  · rw [hidsy]

end Hyp.CIdx
