import HypatiaProofs.Lemmas.ConcurrencyTextInv5

/-!
`BaseIndex.index_doc` (new document), `BaseIndex.reindex_doc` (differential update) and the Okapi
wrappers on the object-level heap.
-/
set_option linter.unusedSectionVars false
set_option linter.unusedSimpArgs false
set_option linter.unusedVariables false
namespace Hyp.CIdx
open Hyp

variable {W Wt : Type} [DecidableEq W] [DecidableEq Wt]

/-- `BaseIndex.index_doc` for a document that is not in `_docwords` -/
theorem baseNew_spec {c : TCfg Wt} (hc : c.Faithful) (hf : FreqOK c) {x : TTx W Wt} (h0 : TCore0 c x.heap) (ho : OwnT x)
    (d : Int) (words : List W) (hnew : AMap.get x.heap.docwords d = none) :
    BaseIndexSpec c x (TTx.baseIndex c x d words).1 d words (TTx.baseIndex c x d words).2.1 ∧
    (TTx.baseIndex c x d words).2.2 = true := by
  unfold TTx.baseIndex
  simp only
  have hn : ¬ (AMap.get (x.rd (.docwords d)).heap.docwords d).isSome = true := by
    show ¬ (AMap.get x.heap.docwords d).isSome = true; rw [hnew]; simp
  rw [if_neg hn]
  have src := sourceToWordIds_spec words (x := x.rd (.docwords d)) h0.lex
  generalize TTx.sourceToWordIds (x.rd (.docwords d)) words = r at src ⊢
  have g := src.grow
  have hs1 : TStruct r.1.heap := tstruct_of_eq h0.struct g.wordinfo g.tree
  have ho1 : OwnT r.1 := by
    intro o hoS hm
    rw [g.tree] at hoS; rw [src.next]; exact ho o hoS (hm.trans src.me)
  obtain ⟨m1, m2, m3, m4, m5, m6, m7, m8⟩ := massAdd_spec hc hs1 ho1 d (c.freq r.2).1 (hf.wf _)
  obtain ⟨q1, q2, q3, q4, q5, q6, q7, q8⟩ := m6
  refine ⟨?_, rfl⟩
  have sp := docPhase_spec hf (x := x) (z := TTx.massAdd c r.1 d (c.freq r.2).1) h0 d words r.2 1
    (lexInv_of_eq src.lex q1 q2 q3)
    (fun w i h => by rw [q1]; exact g.keep w i h)
    (fun w hw => by rw [q1]; exact src.known w hw)
    (by have hi := src.ids; unfold idsOf at hi ⊢; rw [q1]; exact hi)
    m1 m2 (m3.trans src.me) (Nat.le_trans (Nat.le_of_eq src.next.symm) m4)
    (by
      intro j d'
      rw [m5 j d', pt_congr g.wordinfo g.tree]
      by_cases e : d' = d
      · subst e
        simp only [true_and, if_true]
        split
        · rfl
        · next hnone =>
          show pt x.heap j d' = _
          rw [h0.postings j d', hnew]
          cases hg : AMap.get (c.freq r.2).1 j with
          | none => rfl
          | some f => rw [hg] at hnone; simp at hnone
      · simp only [e, false_and, if_false]; rfl)
    (q4.trans g.docwords) (q5.trans g.docweight) (q6.trans g.indexedCount) (q7.trans g.totalDocLen)
    (q8.trans g.ni)
    (by rw [m7]; unfold wcl; rw [g.wordCount, g.wordinfo]; exact h0.wc)
    (fun o hoS => m8 o (by rw [g.tree]; exact hoS))
    (by rw [hnew]; rfl)
    ((((TTx.massAdd c r.1 d (c.freq r.2).1).dwtSet d (c.freq r.2).2).dwSet d r.2).icChange 1) rfl
    (by
      obtain ⟨_, _, _, _, w5, _⟩ := dwtSet_spec c (TTx.massAdd c r.1 d (c.freq r.2).1)
        (by rw [q5, g.docweight]; exact h0.wfDw) d (c.freq r.2).2
      exact w5)
    (by
      obtain ⟨_, _, _, _, _, w6⟩ := dwtSet_spec c (TTx.massAdd c r.1 d (c.freq r.2).1)
        (by rw [q5, g.docweight]; exact h0.wfDw) d (c.freq r.2).2
      exact w6)
  exact sp

/-- the frequency column of the new text, built from the old one by `reindex_doc`'s three loops -/
theorem reindex_column {c : TCfg Wt} (hf : FreqOK c) (old new : List Nat) (j : Nat) (p0 : Option Wt)
    (h0 : p0 = AMap.get (c.freq old).1 j) :
    let oldSet := TTx.sortedKeys (AMap.keys (c.freq old).1)
    let newSet := TTx.sortedKeys (AMap.keys (c.freq new).1)
    let inBoth := oldSet.filter (· ∈ newSet)
    let onlyOld := oldSet.filter (· ∉ inBoth)
    let onlyNew := newSet.filter (· ∉ inBoth)
    let changed := inBoth.filter (fun w => AMap.get (c.freq old).1 w ≠ AMap.get (c.freq new).1 w)
    let p1 := if j ∈ onlyOld then none else p0
    let p2 := if j ∈ onlyNew ∧ (AMap.get (c.freq new).1 j).isSome then AMap.get (c.freq new).1 j else p1
    let p3 := if j ∈ changed ∧ (AMap.get (c.freq new).1 j).isSome then AMap.get (c.freq new).1 j else p2
    p3 = AMap.get (c.freq new).1 j := by
  intro oldSet newSet inBoth onlyOld onlyNew changed p1 p2 p3
  have mo : j ∈ oldSet ↔ (AMap.get (c.freq old).1 j).isSome := by
    show j ∈ TTx.sortedKeys _ ↔ _
    rw [mem_sortedKeys, AMap.mem_keys_iff]
  have mn : j ∈ newSet ↔ (AMap.get (c.freq new).1 j).isSome := by
    show j ∈ TTx.sortedKeys _ ↔ _
    rw [mem_sortedKeys, AMap.mem_keys_iff]
  have mb : j ∈ inBoth ↔ j ∈ oldSet ∧ j ∈ newSet := by
    show j ∈ List.filter _ _ ↔ _
    simp [List.mem_filter]
  have moo : j ∈ onlyOld ↔ j ∈ oldSet ∧ j ∉ inBoth := by
    show j ∈ List.filter _ _ ↔ _
    simp [List.mem_filter]
  have mon : j ∈ onlyNew ↔ j ∈ newSet ∧ j ∉ inBoth := by
    show j ∈ List.filter _ _ ↔ _
    simp [List.mem_filter]
  have mc : j ∈ changed ↔ j ∈ inBoth ∧ AMap.get (c.freq old).1 j ≠ AMap.get (c.freq new).1 j := by
    show j ∈ List.filter _ _ ↔ _
    simp [List.mem_filter]
  show (if j ∈ changed ∧ _ then _ else if j ∈ onlyNew ∧ _ then _ else if j ∈ onlyOld then none else p0) = _
  by_cases jo : j ∈ oldSet <;> by_cases jn : j ∈ newSet
  · -- in both
    have hb : j ∈ inBoth := mb.mpr ⟨jo, jn⟩
    have h1 : j ∉ onlyOld := fun h => (moo.mp h).2 hb
    have h2 : j ∉ onlyNew := fun h => (mon.mp h).2 hb
    by_cases hch : AMap.get (c.freq old).1 j = AMap.get (c.freq new).1 j
    · have h3 : j ∉ changed := fun h => (mc.mp h).2 hch
      simp only [h3, false_and, if_false, h2, h1]
      rw [h0, hch]
    · have h3 : j ∈ changed := mc.mpr ⟨hb, hch⟩
      simp only [h3, true_and, mn.mp jn, if_true]
  · have hb : j ∉ inBoth := fun h => jn (mb.mp h).2
    have h1 : j ∈ onlyOld := moo.mpr ⟨jo, hb⟩
    have h2 : j ∉ onlyNew := fun h => jn (mon.mp h).1
    have h3 : j ∉ changed := fun h => hb (mc.mp h).1
    simp only [h3, false_and, if_false, h2, h1, if_true]
    cases hg : AMap.get (c.freq new).1 j with
    | none => rfl
    | some f => exact absurd (mn.mpr (by rw [hg]; rfl)) jn
  · have hb : j ∉ inBoth := fun h => jo (mb.mp h).1
    have h2 : j ∈ onlyNew := mon.mpr ⟨jn, hb⟩
    have h3 : j ∉ changed := fun h => hb (mc.mp h).1
    simp only [h3, false_and, if_false, h2, true_and, mn.mp jn, if_true]
  · have hb : j ∉ inBoth := fun h => jo (mb.mp h).1
    have h1 : j ∉ onlyOld := fun h => jo (moo.mp h).1
    have h2 : j ∉ onlyNew := fun h => jn (mon.mp h).1
    have h3 : j ∉ changed := fun h => hb (mc.mp h).1
    simp only [h3, false_and, if_false, h2, h1]
    rw [h0]
    cases hg : AMap.get (c.freq new).1 j with
    | none =>
      cases hg2 : AMap.get (c.freq old).1 j with
      | none => rfl
      | some f => exact absurd (mo.mpr (by rw [hg2]; rfl)) jo
    | some f => exact absurd (mn.mpr (by rw [hg]; rfl)) jn

end Hyp.CIdx
