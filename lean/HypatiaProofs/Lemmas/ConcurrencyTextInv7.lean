import HypatiaProofs.Lemmas.ConcurrencyTextInv6

/-!
`BaseIndex.reindex_doc`'s three loops, `reindex_doc`, and `OkapiIndex.index_doc` / `reindex_doc` /
`BaseIndex.index_doc` as one specification (`indexText_spec`).
-/
set_option linter.unusedSectionVars false
set_option linter.unusedSimpArgs false
set_option linter.unusedVariables false
namespace Hyp.CIdx
open Hyp

variable {W Wt : Type} [DecidableEq W] [DecidableEq Wt]

theorem reindexLoops_spec {c : TCfg Wt} (hc : c.Faithful) (hf : FreqOK c) {x : TTx W Wt} (hs : TStruct x.heap)
    (ho : OwnT x) (d : Int) (old new : List Nat)
    (hcol : ∀ j, pt x.heap j d = AMap.get (c.freq old).1 j) :
    (TTx.reindexLoops c x d (c.freq old).1 (c.freq new).1).2 = true ∧
    LoopSpec x (TTx.reindexLoops c x d (c.freq old).1 (c.freq new).1).1 ∧
    ∀ j d', pt (TTx.reindexLoops c x d (c.freq old).1 (c.freq new).1).1.heap j d' =
      if d' = d then AMap.get (c.freq new).1 j else pt x.heap j d' := by
  unfold TTx.reindexLoops
  simp only
  have ndO := nodup_sortedKeys (AMap.keys (c.freq old).1)
  have ndN := nodup_sortedKeys (AMap.keys (c.freq new).1)
  have hdef : ∀ w ∈ (TTx.sortedKeys (AMap.keys (c.freq old).1)).filter
      (· ∉ (TTx.sortedKeys (AMap.keys (c.freq old).1)).filter (· ∈ TTx.sortedKeys (AMap.keys (c.freq new).1))),
      (pt x.heap w d).isSome := by
    intro w hw
    rw [hcol w]
    have := (List.mem_filter.mp hw).1
    rw [mem_sortedKeys, AMap.mem_keys_iff] at this
    exact this
  obtain ⟨ht, l1, p1⟩ := delAll_spec d _ (ndO.filter _) hs ho hdef
  rw [ht]
  simp only [Bool.not_true, Bool.false_eq_true, if_false]
  obtain ⟨l2, p2⟩ := addAll_spec hc d (c.freq new).1 _ (ndN.filter
    (· ∉ (TTx.sortedKeys (AMap.keys (c.freq old).1)).filter (· ∈ TTx.sortedKeys (AMap.keys (c.freq new).1))))
    l1.struct l1.own
  obtain ⟨l3, p3⟩ := addAll_spec hc d (c.freq new).1 _ (((ndO.filter
    (· ∈ TTx.sortedKeys (AMap.keys (c.freq new).1))).filter
      (fun w => AMap.get (c.freq old).1 w ≠ AMap.get (c.freq new).1 w))) l2.struct l2.own
  refine ⟨by first | rfl | trivial, ⟨l3.struct, l3.own, l3.me.trans (l2.me.trans l1.me),
    Nat.le_trans l1.next (Nat.le_trans l2.next l3.next),
    sameRest_trans l1.rest (sameRest_trans l2.rest l3.rest), l3.wcl.trans (l2.wcl.trans l1.wcl),
    fun o h => l3.trees o (l2.trees o (l1.trees o h))⟩, ?_⟩
  intro j d'
  rw [p3 j d', p2 j d', p1 j d']
  by_cases e : d' = d
  · subst e
    simp only [true_and]
    exact reindex_column hf old new j (pt x.heap j d') (hcol j)
  · simp only [e, false_and, if_false]

/-- `BaseIndex.reindex_doc` -/
theorem baseReindex_spec {c : TCfg Wt} (hc : c.Faithful) (hf : FreqOK c) {x : TTx W Wt} (h0 : TCore0 c x.heap)
    (ho : OwnT x) (d : Int) (words : List W) (old : List Nat) (hold : AMap.get x.heap.docwords d = some old) :
    BaseIndexSpec c x (TTx.baseReindex c x d words).1 d words (TTx.baseReindex c x d words).2.1 ∧
    (TTx.baseReindex c x d words).2.2 = true := by
  unfold TTx.baseReindex
  simp only
  have hold' : AMap.get (x.rd (.docwords d)).heap.docwords d = some old := hold
  rw [hold']
  simp only
  have src := sourceToWordIds_spec words (x := x.rd (.docwords d)) h0.lex
  generalize TTx.sourceToWordIds (x.rd (.docwords d)) words = r at src ⊢
  have g := src.grow
  have hs1 : TStruct r.1.heap := tstruct_of_eq h0.struct g.wordinfo g.tree
  have ho1 : OwnT r.1 := by
    intro o hoS hm
    rw [g.tree] at hoS; rw [src.next]; exact ho o hoS (hm.trans src.me)
  have hcol : ∀ j, pt r.1.heap j d = AMap.get (c.freq old).1 j := by
    intro j
    rw [pt_congr g.wordinfo g.tree]
    show pt x.heap j d = _
    rw [h0.postings j d, hold]; rfl
  obtain ⟨ht, lp, hp⟩ := reindexLoops_spec hc hf hs1 ho1 d old r.2 hcol
  rw [ht]
  simp only [Bool.not_true, Bool.false_eq_true, if_false]
  obtain ⟨q1, q2, q3, q4, q5, q6, q7, q8⟩ := lp.rest
  refine ⟨?_, by first | rfl | trivial⟩
  have hwfz : AMap.WF (TTx.reindexLoops c r.1 d (c.freq old).1 (c.freq r.2).1).1.heap.docweight := by
    rw [q5, g.docweight]; exact h0.wfDw
  obtain ⟨_, _, _, _, w5, w6⟩ := dwtSet_spec c (TTx.reindexLoops c r.1 d (c.freq old).1 (c.freq r.2).1).1 hwfz d
    (c.freq r.2).2
  exact docPhase_spec hf (x := x) (z := (TTx.reindexLoops c r.1 d (c.freq old).1 (c.freq r.2).1).1) h0 d words r.2 0
    (lexInv_of_eq src.lex q1 q2 q3)
    (fun w i h => by rw [q1]; exact g.keep w i h)
    (fun w hw => by rw [q1]; exact src.known w hw)
    (by have hi := src.ids; unfold idsOf at hi ⊢; rw [q1]; exact hi)
    lp.struct lp.own (lp.me.trans src.me) (Nat.le_trans (Nat.le_of_eq src.next.symm) lp.next)
    (by
      intro j d'
      rw [hp j d', pt_congr g.wordinfo g.tree]
      rfl)
    (q4.trans g.docwords) (q5.trans g.docweight) (q6.trans g.indexedCount) (q7.trans g.totalDocLen)
    (q8.trans g.ni)
    (by rw [lp.wcl]; unfold wcl; rw [g.wordCount, g.wordinfo]; exact h0.wc)
    (fun o hoS => lp.trees o (by rw [g.tree]; exact hoS))
    (by rw [hold]; rfl)
    (((TTx.reindexLoops c r.1 d (c.freq old).1 (c.freq r.2).1).1.dwtSet d (c.freq r.2).2).dwSet d r.2)
    (theap_ext rfl rfl rfl rfl rfl rfl rfl (Int.add_zero _).symm rfl rfl rfl) w5 w6

/-- what `OkapiIndex.index_doc` / `reindex_doc` (or the base methods, for the cosine back end) leave
behind -/
structure IndexSpec (c : TCfg Wt) (x y : TTx W Wt) (d : Int) (words : List W) : Prop where
  core : TCore c y.heap
  own : OwnT y
  me : y.me = x.me
  next : x.next ≤ y.next
  grow : ∀ w i, AMap.get x.heap.wids w = some i → AMap.get y.heap.wids w = some i
  ni : y.heap.ni = x.heap.ni
  known : ∀ w ∈ words, (AMap.get y.heap.wids w).isSome
  docwords : ∀ d', AMap.get y.heap.docwords d' = if d' = d then some (idsOf y.heap words) else AMap.get x.heap.docwords d'
  trees : ∀ o, (AMap.get x.heap.tree o).isSome → (AMap.get y.heap.tree o).isSome

/-- `BaseIndex.index_doc` whatever the document's state -/
theorem baseIndex_spec {c : TCfg Wt} (hc : c.Faithful) (hf : FreqOK c) {x : TTx W Wt} (h0 : TCore0 c x.heap)
    (ho : OwnT x) (d : Int) (words : List W) :
    BaseIndexSpec c x (TTx.baseIndex c x d words).1 d words (TTx.baseIndex c x d words).2.1 ∧
    (TTx.baseIndex c x d words).2.2 = true := by
  cases hg : AMap.get x.heap.docwords d with
  | none => exact baseNew_spec hc hf h0 ho d words hg
  | some old =>
    unfold TTx.baseIndex
    simp only
    have : (AMap.get (x.rd (.docwords d)).heap.docwords d).isSome = true := by
      show (AMap.get x.heap.docwords d).isSome = true; rw [hg]; rfl
    rw [if_pos this]
    have sp := baseReindex_spec hc hf (x := x.rd (.docwords d))
      ⟨h0.lex, h0.struct, h0.wfD, h0.wfDw, h0.docweight, h0.postings, h0.wc, h0.ic⟩ (fun o h hm => ho o h hm) d words old hg
    exact ⟨⟨sp.1.core, sp.1.own, sp.1.me, sp.1.next, sp.1.grow, sp.1.ni, sp.1.known, sp.1.docwords, sp.1.trees,
      sp.1.tdlSame, sp.1.sum, sp.1.count⟩, sp.2⟩

theorem tcore0_tdl {c : TCfg Wt} {x : TTx W Wt} (h : TCore c x.heap) : TCore0 c x.heap := h.toTCore0

/-- finishing an Okapi call: `_change_doc_len(count)` after the base method -/
theorem indexSpec_of_base {c : TCfg Wt} (hf : FreqOK c) {x x' z y : TTx W Wt} {d : Int} {words : List W} {n : Nat}
    (sp' : BaseIndexSpec c x' z d words n)
    (hx1 : x'.heap.wids = x.heap.wids) (hx2 : x'.heap.docwords = x.heap.docwords) (hx3 : x'.heap.tree = x.heap.tree)
    (hx4 : x'.heap.ni = x.heap.ni) (hx5 : x'.me = x.me) (hx6 : x'.next = x.next)
    (hy : y.heap = { z.heap with totalDocLen := y.heap.totalDocLen }) (hme : y.me = z.me) (hnext : y.next = z.next)
    (htdl : c.okapi = true → y.heap.totalDocLen = sumW c z.heap.docweight) :
    IndexSpec c x y d words := by
  have e : ∀ {α : Type} (f : THeap W Wt → α), (∀ h t, f { h with totalDocLen := t } = f h) → f y.heap = f z.heap := by
    intro α f hf'; rw [hy]; exact hf' _ _
  have ywids : y.heap.wids = z.heap.wids := e THeap.wids (fun _ _ => rfl)
  have ywords : y.heap.words = z.heap.words := e THeap.words (fun _ _ => rfl)
  have ylex : y.heap.lexCount = z.heap.lexCount := e THeap.lexCount (fun _ _ => rfl)
  have ywi : y.heap.wordinfo = z.heap.wordinfo := e THeap.wordinfo (fun _ _ => rfl)
  have ytree : y.heap.tree = z.heap.tree := e THeap.tree (fun _ _ => rfl)
  have ydw : y.heap.docwords = z.heap.docwords := e THeap.docwords (fun _ _ => rfl)
  have ydwt : y.heap.docweight = z.heap.docweight := e THeap.docweight (fun _ _ => rfl)
  have ywc : y.heap.wordCount = z.heap.wordCount := e THeap.wordCount (fun _ _ => rfl)
  have yic : y.heap.indexedCount = z.heap.indexedCount := e THeap.indexedCount (fun _ _ => rfl)
  have yni : y.heap.ni = z.heap.ni := e THeap.ni (fun _ _ => rfl)
  have hids : idsOf y.heap words = idsOf z.heap words := by unfold idsOf; rw [ywids]
  have sp : (z.me = x.me) ∧ (x.next ≤ z.next) ∧
      (∀ w i, AMap.get x.heap.wids w = some i → AMap.get z.heap.wids w = some i) ∧ (z.heap.ni = x.heap.ni) ∧
      (∀ d', AMap.get z.heap.docwords d' = if d' = d then some (idsOf z.heap words) else AMap.get x.heap.docwords d') ∧
      (∀ o, (AMap.get x.heap.tree o).isSome → (AMap.get z.heap.tree o).isSome) :=
    ⟨sp'.me.trans hx5, hx6 ▸ sp'.next, by rw [← hx1]; exact sp'.grow, sp'.ni.trans hx4,
     by rw [← hx2]; exact sp'.docwords, by rw [← hx3]; exact sp'.trees⟩
  obtain ⟨spme, spnext, spgrow, spni, spdw, sptrees⟩ := sp
  refine ⟨⟨⟨lexInv_of_eq sp'.core.lex ywids ywords ylex, tstruct_of_eq sp'.core.struct ywi ytree, ydw ▸ sp'.core.wfD,
    ydwt ▸ sp'.core.wfDw, ?_, ?_, ?_, ?_⟩, ?_⟩, ?_, hme.trans spme, ?_, ?_, yni.trans spni, ?_, ?_, ?_⟩
  · rw [ydw, ydwt]; exact sp'.core.docweight
  · intro j d'; rw [pt_congr ywi ytree, ydw]; exact sp'.core.postings j d'
  · unfold wcl; rw [ywc, ywi]; exact sp'.core.wc
  · rw [yic, ydw]; exact sp'.core.ic
  · intro hok; rw [ydwt]; exact htdl hok
  · intro o hoS hm; rw [ytree] at hoS; rw [hnext]; exact sp'.own o hoS (hm.trans hme)
  · rw [hnext]; exact spnext
  · intro w i h; rw [ywids]; exact spgrow w i h
  · intro w hw; rw [ywids]; exact sp'.known w hw
  · intro d'; rw [ydw, hids]; exact spdw d'
  · intro o hoS; rw [ytree]; exact sptrees o hoS

/-- **`OkapiIndex.index_doc` / `BaseIndex.index_doc`**, for a new document and for one that is
already indexed -/
theorem indexText_spec {c : TCfg Wt} (hc : c.Faithful) (hf : FreqOK c) {x : TTx W Wt} (h : TCore c x.heap)
    (ho : OwnT x) (d : Int) (words : List W) : IndexSpec c x (TTx.indexText c x d words) d words := by
  have h0 := h.toTCore0
  unfold TTx.indexText
  by_cases hok : c.okapi = true
  · rw [if_pos hok]
    simp only
    cases hg : AMap.get x.heap.docwords d with
    | none =>
      have : ¬ (AMap.get (x.rd (.docwords d)).heap.docwords d).isSome = true := by
        show ¬ (AMap.get x.heap.docwords d).isSome = true; rw [hg]; simp
      rw [if_neg this]
      obtain ⟨sp, ht⟩ := baseIndex_spec hc hf (x := x.rd (.docwords d))
        ⟨h0.lex, h0.struct, h0.wfD, h0.wfDw, h0.docweight, h0.postings, h0.wc, h0.ic⟩ (fun o h hm => ho o h hm) d words
      rw [ht]
      simp only [if_true]
      have hdwn : AMap.get x.heap.docweight d = none := by rw [h0.docweight d, hg]; rfl
      refine indexSpec_of_base hf (x := x) sp rfl rfl rfl rfl rfl rfl rfl rfl rfl ?_
      intro _
      show (TTx.baseIndex c (x.rd (.docwords d)) d words).1.heap.totalDocLen +
        ((TTx.baseIndex c (x.rd (.docwords d)) d words).2.1 : Int) = _
      rw [sp.tdlSame, sp.sum, sp.count]
      show x.heap.totalDocLen + _ = sumW c x.heap.docweight - ((AMap.get x.heap.docweight d).map c.wtInt).getD 0 + _
      rw [hdwn, h.tdl hok, hf.len hok]
      simp
    | some old =>
      have : (AMap.get (x.rd (.docwords d)).heap.docwords d).isSome = true := by
        show (AMap.get x.heap.docwords d).isSome = true; rw [hg]; rfl
      rw [if_pos this]
      unfold TTx.reindexDoc
      rw [if_pos hok]
      simp only
      have hdwd : AMap.get (((x.rd (.docwords d)).rd (.docweight d))).heap.docweight d = some (c.freq old).2 := by
        show AMap.get x.heap.docweight d = _
        rw [h0.docweight d, hg]; rfl
      rw [hdwd]
      simp only
      obtain ⟨sp, ht⟩ := baseReindex_spec hc hf
        (x := ((x.rd (.docwords d)).rd (.docweight d)).tdlChange (-(c.wtInt (c.freq old).2)))
        ⟨lexInv_of_eq h0.lex rfl rfl rfl, tstruct_of_eq h0.struct rfl rfl, h0.wfD, h0.wfDw, h0.docweight,
          h0.postings, h0.wc, h0.ic⟩ (fun o h hm => ho o h hm) d words old hg
      rw [ht]
      simp only [if_true]
      refine indexSpec_of_base hf (x := x) sp rfl rfl rfl rfl rfl rfl rfl rfl rfl ?_
      · intro _
        show (TTx.baseReindex c _ d words).1.heap.totalDocLen + ((TTx.baseReindex c _ d words).2.1 : Int) = _
        rw [sp.tdlSame, sp.sum, sp.count]
        show x.heap.totalDocLen + -(c.wtInt (c.freq old).2) + _ =
          sumW c x.heap.docweight - ((AMap.get x.heap.docweight d).map c.wtInt).getD 0 + _
        have hd2 : AMap.get x.heap.docweight d = some (c.freq old).2 := hdwd
        rw [hd2, h.tdl hok]
        simp only [Option.map_some, Option.getD_some, hf.len hok]
        omega
  · rw [if_neg hok]
    obtain ⟨sp, _⟩ := baseIndex_spec hc hf h0 ho d words
    exact indexSpec_of_base hf (x := x) sp rfl rfl rfl rfl rfl rfl rfl rfl rfl (fun h => absurd h hok)

end Hyp.CIdx
