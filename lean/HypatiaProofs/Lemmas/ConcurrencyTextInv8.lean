import HypatiaProofs.Lemmas.ConcurrencyTextInv7

/-!
The object-level refinement invariant of the text index (`TOInv`: the heap represents a document
table `docid ↦ tokens | no text`) and its preservation by `TextIndex.index_doc` / `unindex_doc`,
for every transaction (`trun_spec`).
-/
set_option linter.unusedSectionVars false
set_option linter.unusedSimpArgs false
set_option linter.unusedVariables false
namespace Hyp.CIdx
open Hyp

variable {W Wt : Type} [DecidableEq W] [DecidableEq Wt]

/-- the document table of a history: docid ↦ `some tokens` (the tokens of the text last indexed,
after the lexicon's pipeline) or `none` (known, without text) -/
abbrev TTable (W : Type) := AMap Int (Option (List W))

def tokensOfT (T : TTable W) (d : Int) : Option (List W) :=
  match AMap.get T d with
  | some (some t) => some t
  | _ => none

def stepTT (T : TTable W) : TOp (List W) → TTable W
  | .index d v => AMap.set T d v
  | .unindex d => AMap.erase T d

def tableAfterT (T : TTable W) (ops : List (TOp (List W))) : TTable W := ops.foldl stepTT T

/-- **the object-level refinement invariant** of the text index -/
structure TOInv (c : TCfg Wt) (h : THeap W Wt) (T : TTable W) : Prop where
  core : TCore c h
  wfT : AMap.WF T
  ndNi : h.ni.Nodup
  docwords : ∀ d, AMap.get h.docwords d = (tokensOfT T d).map (idsOf h)
  known : ∀ d toks, tokensOfT T d = some toks → ∀ w ∈ toks, (AMap.get h.wids w).isSome
  ni : ∀ d, d ∈ h.ni ↔ AMap.get T d = some none

theorem tcore_ni {c : TCfg Wt} {h : THeap W Wt} (hc : TCore c h) (n : List Int) : TCore c { h with ni := n } :=
  ⟨⟨lexInv_of_eq hc.lex rfl rfl rfl, tstruct_of_eq hc.struct rfl rfl, hc.wfD, hc.wfDw, hc.docweight,
    fun j d => hc.postings j d, hc.wc, hc.ic⟩, hc.tdl⟩

theorem tokensOfT_erase (T : TTable W) (d d' : Int) :
    tokensOfT (AMap.erase T d) d' = if d' = d then none else tokensOfT T d' := by
  unfold tokensOfT
  rw [AMap.get_erase]
  by_cases e : d' = d
  · have : d = d' := e.symm
    simp [e]
  · have : ¬ d = d' := fun h => e h.symm
    simp [e, this]

theorem tokensOfT_set (T : TTable W) (d : Int) (v : Option (List W)) (d' : Int) :
    tokensOfT (AMap.set T d v) d' = if d' = d then v else tokensOfT T d' := by
  unfold tokensOfT
  rw [AMap.get_set]
  by_cases e : d' = d
  · have : d = d' := e.symm
    simp only [this, if_true]
    cases v <;> rfl
  · have : ¬ d = d' := fun h => e h.symm
    simp [e, this]

theorem idsOf_congr {h h' : THeap W Wt} (e : h'.wids = h.wids) (toks : List W) : idsOf h' toks = idsOf h toks := by
  unfold idsOf; rw [e]

theorem idsOf_of_grow {h h' : THeap W Wt} (hg : ∀ w i, AMap.get h.wids w = some i → AMap.get h'.wids w = some i)
    {toks : List W} (hk : ∀ w ∈ toks, (AMap.get h.wids w).isSome) : idsOf h' toks = idsOf h toks := by
  unfold idsOf
  apply List.map_congr_left
  intro w hw
  cases e : AMap.get h.wids w with
  | none => have := hk w hw; rw [e] at this; simp at this
  | some i => rw [hg w i e]

/-- what one operation of a transaction leaves behind -/
structure OpSpec (c : TCfg Wt) (x y : TTx W Wt) (T' : TTable W) : Prop where
  inv : TOInv c y.heap T'
  own : OwnT y
  me : y.me = x.me
  next : x.next ≤ y.next
  trees : ∀ o, (AMap.get x.heap.tree o).isSome → (AMap.get y.heap.tree o).isSome

/-- the state after the `_not_indexed` prelude of `index_doc` / `unindex_doc` -/
theorem niPrelude {c : TCfg Wt} {x : TTx W Wt} (h : TCore c x.heap) (ho : OwnT x) (d : Int) :
    let x1 := if d ∈ (x.rd (.ni d)).heap.ni then (x.rd (.ni d)).niRemove d else x.rd (.ni d)
    TCore c x1.heap ∧ OwnT x1 ∧ x1.me = x.me ∧ x1.next = x.next ∧ x1.heap.ni = LSet.remove x.heap.ni d ∧
    x1.heap.wids = x.heap.wids ∧ x1.heap.docwords = x.heap.docwords ∧ x1.heap.tree = x.heap.tree := by
  intro x1
  by_cases e : d ∈ x.heap.ni
  · have : x1 = (x.rd (.ni d)).niRemove d := if_pos e
    rw [this]
    exact ⟨tcore_ni h _, fun o hS hm => ho o hS hm, rfl, rfl, rfl, rfl, rfl, rfl⟩
  · have : x1 = x.rd (.ni d) := if_neg e
    rw [this]
    exact ⟨h, fun o hS hm => ho o hS hm, rfl, rfl, (LSet.remove_of_not_mem e).symm, rfl, rfl, rfl⟩

theorem unindexDoc_spec {c : TCfg Wt} (hf : FreqOK c) {x : TTx W Wt} {T : TTable W} (hI : TOInv c x.heap T)
    (ho : OwnT x) (d : Int) : OpSpec c x (TTx.unindexDoc c x d) (AMap.erase T d) := by
  unfold TTx.unindexDoc
  simp only
  obtain ⟨p1, p2, p3, p4, p5, p6, p7, p8⟩ := niPrelude hI.core ho d
  generalize (if d ∈ (x.rd (.ni d)).heap.ni then (x.rd (.ni d)).niRemove d else x.rd (.ni d)) = x1 at p1 p2 p3 p4 p5 p6 p7 p8 ⊢
  have sp := unindexText_spec hf p1 p2 d
  refine ⟨⟨sp.core, AMap.WF_erase hI.wfT _, ?_, ?_, ?_, ?_⟩, sp.own, sp.me.trans p3, p4 ▸ sp.next, ?_⟩
  · rw [sp.only.ni, p5]; exact LSet.nodup_remove hI.ndNi _
  · intro d'
    rw [sp.docwords d', tokensOfT_erase, p7]
    by_cases e : d' = d
    · simp [e]
    · simp only [e, if_false]
      rw [hI.docwords d']
      cases tokensOfT T d' with
      | none => rfl
      | some toks => simp only [Option.map_some]; rw [idsOf_congr (sp.only.wids.trans p6)]
  · intro d' toks ht w hw
    rw [tokensOfT_erase] at ht
    by_cases e : d' = d
    · simp [e] at ht
    · rw [if_neg e] at ht
      rw [sp.only.wids, p6]; exact hI.known d' toks ht w hw
  · intro d'
    rw [sp.only.ni, p5, LSet.mem_remove, hI.ni d', AMap.get_erase]
    by_cases e : d' = d
    · have : d = d' := e.symm
      simp [e]
    · have : ¬ d = d' := fun h => e h.symm
      simp [e, this]
  · intro o hoS; exact sp.trees o (by rw [p8]; exact hoS)

theorem indexDoc_spec {c : TCfg Wt} (hc : c.Faithful) (hf : FreqOK c) {x : TTx W Wt} {T : TTable W}
    (hI : TOInv c x.heap T) (ho : OwnT x) (d : Int) (v : Option (List W)) :
    OpSpec c x (TTx.indexDoc c x d v) (AMap.set T d v) := by
  cases v with
  | none =>
    have sp := unindexDoc_spec hf hI ho d
    show OpSpec c x ((TTx.unindexDoc c x d).niAdd d) (AMap.set T d none)
    have hnot : d ∉ (TTx.unindexDoc c x d).heap.ni := by
      rw [sp.inv.ni d, AMap.get_erase]; simp
    refine ⟨⟨tcore_ni sp.inv.core _, AMap.WF_set hI.wfT _ _, LSet.nodup_insert sp.inv.ndNi _, ?_, ?_, ?_⟩,
      fun o hS hm => sp.own o hS hm, sp.me, sp.next, sp.trees⟩
    · intro d'
      show AMap.get (TTx.unindexDoc c x d).heap.docwords d' = (tokensOfT (AMap.set T d none) d').map (idsOf _)
      rw [sp.inv.docwords d', tokensOfT_set, tokensOfT_erase]
      by_cases e : d' = d
      · simp [e]
      · simp only [e, if_false]
        cases tokensOfT T d' with
        | none => rfl
        | some toks => simp only [Option.map_some]; rfl
    · intro d' toks ht w hw
      rw [tokensOfT_set] at ht
      by_cases e : d' = d
      · simp [e] at ht
      · rw [if_neg e] at ht
        show (AMap.get (TTx.unindexDoc c x d).heap.wids w).isSome
        exact sp.inv.known d' toks (by rw [tokensOfT_erase, if_neg e]; exact ht) w hw
    · intro d'
      show d' ∈ LSet.insert (TTx.unindexDoc c x d).heap.ni d ↔ _
      rw [LSet.mem_insert, sp.inv.ni d', AMap.get_erase, AMap.get_set]
      by_cases e : d' = d
      · have : d = d' := e.symm
        simp [e]
      · have : ¬ d = d' := fun h => e h.symm
        simp [e, this]
  | some words =>
    show OpSpec c x (TTx.indexDoc c x d (some words)) _
    unfold TTx.indexDoc
    simp only
    obtain ⟨p1, p2, p3, p4, p5, p6, p7, p8⟩ := niPrelude hI.core ho d
    generalize (if d ∈ (x.rd (.ni d)).heap.ni then (x.rd (.ni d)).niRemove d else x.rd (.ni d)) = x1 at p1 p2 p3 p4 p5 p6 p7 p8 ⊢
    have sp := indexText_spec hc hf p1 p2 d words
    have hgrow : ∀ w i, AMap.get x.heap.wids w = some i → AMap.get (TTx.indexText c x1 d words).heap.wids w = some i := by
      intro w i h; exact sp.grow w i (by rw [p6]; exact h)
    refine ⟨⟨sp.core, AMap.WF_set hI.wfT _ _, ?_, ?_, ?_, ?_⟩, sp.own, sp.me.trans p3, p4 ▸ sp.next, ?_⟩
    · rw [sp.ni, p5]; exact LSet.nodup_remove hI.ndNi _
    · intro d'
      rw [sp.docwords d', tokensOfT_set, p7]
      by_cases e : d' = d
      · simp [e]
      · simp only [e, if_false]
        rw [hI.docwords d']
        cases ht : tokensOfT T d' with
        | none => rfl
        | some toks =>
          simp only [Option.map_some]
          rw [idsOf_of_grow hgrow (hI.known d' toks ht)]
    · intro d' toks ht w hw
      rw [tokensOfT_set] at ht
      by_cases e : d' = d
      · rw [if_pos e] at ht; cases ht; exact sp.known w hw
      · rw [if_neg e] at ht
        cases hg : AMap.get x.heap.wids w with
        | none => have := hI.known d' toks ht w hw; rw [hg] at this; simp at this
        | some i => rw [hgrow w i hg]; rfl
    · intro d'
      rw [sp.ni, p5, LSet.mem_remove, hI.ni d', AMap.get_set]
      by_cases e : d' = d
      · have : d = d' := e.symm
        simp [e]
      · have : ¬ d = d' := fun h => e h.symm
        simp [e, this]
    · intro o hoS; exact sp.trees o (by rw [p8]; exact hoS)

theorem tstep_spec {c : TCfg Wt} (hc : c.Faithful) (hf : FreqOK c) {x : TTx W Wt} {T : TTable W}
    (hI : TOInv c x.heap T) (ho : OwnT x) (op : TOp (List W)) : OpSpec c x (TTx.step c x op) (stepTT T op) := by
  cases op with
  | index d v => exact indexDoc_spec hc hf hI ho d v
  | unindex d => exact unindexDoc_spec hf hI ho d

/-- **one transaction**: any list of operations keeps the invariant for the table it produces -/
theorem trun_spec {c : TCfg Wt} (hc : c.Faithful) (hf : FreqOK c) : ∀ (ops : List (TOp (List W))) {x : TTx W Wt}
    {T : TTable W}, TOInv c x.heap T → OwnT x → OpSpec c x (TTx.run c x ops) (tableAfterT T ops)
  | [], x, T, hI, ho => ⟨hI, ho, rfl, Nat.le_refl _, fun _ h => h⟩
  | op :: ops, x, T, hI, ho => by
    have s1 := tstep_spec hc hf hI ho op
    have s2 := trun_spec hc hf ops s1.inv s1.own
    exact ⟨s2.inv, s2.own, s2.me.trans s1.me, Nat.le_trans s1.next s2.next, fun o h => s2.trees o (s1.trees o h)⟩

end Hyp.CIdx
