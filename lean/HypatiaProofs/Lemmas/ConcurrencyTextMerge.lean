import HypatiaProofs.Lemmas.ConcurrencyTextSound

/-!
Merge lemmas for the object-level text index: when `resolveMap` must fail, when it must succeed,
and how a failing object fails `commitSecondT`.
-/
set_option linter.unusedSectionVars false
set_option linter.unusedSimpArgs false
set_option linter.unusedVariables false
namespace Hyp.CIdx
open Hyp Hyp.Keyword

section Maps
variable {κ β : Type} [DecidableEq κ] [DecidableEq β]

/-- a key changed on both sides: `Bucket._p_resolveConflict` refuses -/
theorem resolveMap_none_of_both_changed {old com new : AMap κ β} {k : κ}
    (hc : AMap.get com k ≠ AMap.get old k) (hn : AMap.get new k ≠ AMap.get old k) :
    resolveMap old com new = none := by
  cases h : resolveMap old com new with
  | none => rfl
  | some r =>
    obtain ⟨_, _, _, _, h5⟩ := resolveMap_spec h
    rcases mergeVal_some (h5 k) with ⟨e, _⟩ | ⟨e, _⟩
    · exact absurd e hc
    · exact absurd e hn

theorem mergeObj_none_of_both_changed {old com new : AMap κ β} {k : κ}
    (hc : AMap.get com k ≠ AMap.get old k) (hn : AMap.get new k ≠ AMap.get old k) :
    mergeObj resolveMap true true old com new = none := by
  simp [mergeObj, resolveMap_none_of_both_changed hc hn]

theorem mergeEntries_some_of_all {old com new : AMap κ β} : ∀ (u : List κ),
    (∀ k ∈ u, mergeVal (AMap.get old k) (AMap.get com k) (AMap.get new k) ≠ none) →
    ∃ r, mergeEntries old com new u = some r
  | [], _ => ⟨[], rfl⟩
  | k :: ks, h => by
    obtain ⟨r, hr⟩ := mergeEntries_some_of_all ks (fun k' hk' => h k' (List.mem_cons_of_mem _ hk'))
    unfold mergeEntries
    cases hv : mergeVal (AMap.get old k) (AMap.get com k) (AMap.get new k) with
    | none => exact absurd hv (h k (by simp))
    | some ov => cases ov <;> simp [hr]

/-- no key changed on both sides, neither side empty, and some key survives: the merge succeeds -/
theorem resolveMap_some_of_disjoint {old com new : AMap κ β} (hc : com ≠ []) (hn : new ≠ [])
    (hd : ∀ k, AMap.get com k = AMap.get old k ∨ AMap.get new k = AMap.get old k)
    {k0 : κ} (hk0 : (AMap.get com k0).isSome) (hk0' : AMap.get new k0 = AMap.get old k0) :
    ∃ r, resolveMap old com new = some r ∧
      ∀ k, AMap.get r k = if AMap.get com k = AMap.get old k then AMap.get new k else AMap.get com k := by
  have hall : ∀ k, mergeVal (AMap.get old k) (AMap.get com k) (AMap.get new k) ≠ none := by
    intro k
    rcases hd k with e | e
    · rw [e, mergeVal_left]; simp
    · rw [e, mergeVal_right]; simp
  obtain ⟨r, hr⟩ := mergeEntries_some_of_all (old := old) (com := com) (new := new)
    (dedup (AMap.keys com ++ AMap.keys new ++ AMap.keys old)) (fun k _ => hall k)
  obtain ⟨i1, i2, i3⟩ := mergeEntries_spec hr
  have hget : ∀ k, mergeVal (AMap.get old k) (AMap.get com k) (AMap.get new k) = some (AMap.get r k) := by
    intro k
    by_cases hk : k ∈ dedup (AMap.keys com ++ AMap.keys new ++ AMap.keys old)
    · exact i1 k hk
    · rw [i2 k hk]
      rw [mem_dedup] at hk
      simp only [List.mem_append, not_or] at hk
      rw [get_none_of_not_mem_keys hk.1.1, get_none_of_not_mem_keys hk.1.2, get_none_of_not_mem_keys hk.2]
      rfl
  have hval : ∀ k, AMap.get r k = if AMap.get com k = AMap.get old k then AMap.get new k else AMap.get com k := by
    intro k
    have := hget k
    unfold mergeVal at this
    by_cases e : AMap.get com k = AMap.get old k
    · simp only [e, if_true] at this ⊢; exact (Option.some.inj this).symm
    · rcases hd k with e' | e'
      · exact absurd e' e
      · simp only [e, e', if_false, if_true] at this ⊢; exact (Option.some.inj this).symm
  have hne : r ≠ [] := by
    intro e
    have := hval k0
    rw [e] at this
    by_cases e0 : AMap.get com k0 = AMap.get old k0
    · simp only [e0, if_true] at this
      rw [hk0', ← e0] at this
      rw [← this] at hk0; simp at hk0
    · simp only [e0, if_false] at this
      rw [← this] at hk0; simp at hk0
  refine ⟨r, ?_, hval⟩
  unfold resolveMap
  have he : (com.isEmpty || new.isEmpty) = false := by
    cases com <;> cases new <;> simp_all
  rw [he]; simp only [Bool.false_eq_true, if_false, hr]
  cases r with
  | nil => exact absurd rfl hne
  | cons e r' => rfl

end Maps

variable {W Wt : Type} [DecidableEq W] [DecidableEq Wt]

theorem commitSecondT_none_of_words {H : THeap W Wt} {a b : TTx W Wt}
    (h : mergeObj resolveMap (tdirty a.writes .words) (tdirty b.writes .words) H.words a.heap.words b.heap.words = none) :
    commitSecondT H a b = none := by
  unfold commitSecondT
  simp only [h]
  split <;> first | rfl | contradiction

theorem commitSecondT_none_of_wordinfo {H : THeap W Wt} {a b : TTx W Wt}
    (h : mergeObj resolveMap (tdirty a.writes .wordinfo) (tdirty b.writes .wordinfo) H.wordinfo
      a.heap.wordinfo b.heap.wordinfo = none) :
    commitSecondT H a b = none := by
  unfold commitSecondT
  simp only [h]
  split <;> first | rfl | contradiction

end Hyp.CIdx
