import HypatiaProofs.Lemmas.ConcurrencyTextFrame2

/-!
The second commit on the object-level text index, component by component: what a successful
`commitSecondT` stores in each object (`MergedSpec`).
-/
set_option linter.unusedSectionVars false
set_option linter.unusedSimpArgs false
set_option linter.unusedVariables false
namespace Hyp.CIdx
open Hyp

variable {W Wt : Type} [DecidableEq W] [DecidableEq Wt]

theorem mergeTrees_spec {base a : AMap Oid (AMap Int Wt)} {wa wb : List (TLoc W)} :
    ∀ {bp r : AMap Oid (AMap Int Wt)}, mergeTrees base a wa wb bp = some r →
    ∀ o, (match AMap.get bp o with
          | none => AMap.get r o = AMap.get a o
          | some sb =>
            match AMap.get base o with
            | none => AMap.get r o = some sb
            | some s0 => ∃ s, AMap.get r o = some s ∧
                mergeObj resolveMap (tdirty wa (.tree o)) (tdirty wb (.tree o)) s0 ((AMap.get a o).getD s0) sb = some s) := by
  intro bp
  induction bp with
  | nil => intro r h o; simp [mergeTrees] at h; subst h; simp
  | cons e rest ih =>
    obtain ⟨o0, sb0⟩ := e
    intro r h o
    unfold mergeTrees at h
    cases hr : mergeTrees base a wa wb rest with
    | none => simp [hr] at h
    | some r' =>
      simp only [hr] at h
      have ih' := ih hr o
      rw [AMap.get_cons]
      by_cases e : o0 = o
      · subst e
        simp only [if_true]
        cases hb : AMap.get base o0 with
        | none => simp [hb] at h; subst h; simp [AMap.get_set]
        | some s0 =>
          simp only [hb] at h
          cases hm : mergeObj resolveMap (tdirty wa (.tree o0)) (tdirty wb (.tree o0)) s0 ((AMap.get a o0).getD s0) sb0 with
          | none => simp [hm] at h
          | some s => simp [hm] at h; subst h; exact ⟨s, by simp [AMap.get_set], hm⟩
      · simp only [e, if_false]
        have hg : AMap.get r o = AMap.get r' o := by
          cases hb : AMap.get base o0 with
          | none => simp [hb] at h; subst h; simp [AMap.get_set, e]
          | some s0 =>
            simp only [hb] at h
            cases hm : mergeObj resolveMap (tdirty wa (.tree o0)) (tdirty wb (.tree o0)) s0 ((AMap.get a o0).getD s0) sb0 with
            | none => simp [hm] at h
            | some s => simp [hm] at h; subst h; simp [AMap.get_set, e]
        rw [hg]; exact ih'

theorem mergeTrees_wf {base a : AMap Oid (AMap Int Wt)} {wa wb : List (TLoc W)} (hwa : AMap.WF a) :
    ∀ {bp r : AMap Oid (AMap Int Wt)}, mergeTrees base a wa wb bp = some r → AMap.WF r := by
  intro bp
  induction bp with
  | nil => intro r h; simp [mergeTrees] at h; subst h; exact hwa
  | cons e rest ih =>
    obtain ⟨o0, sb0⟩ := e
    intro r h
    unfold mergeTrees at h
    cases hr : mergeTrees base a wa wb rest with
    | none => simp [hr] at h
    | some r' =>
      simp only [hr] at h
      cases hb : AMap.get base o0 with
      | none => simp [hb] at h; subst h; exact AMap.WF_set (ih hr) _ _
      | some s0 =>
        simp only [hb] at h
        cases hm : mergeObj resolveMap (tdirty wa (.tree o0)) (tdirty wb (.tree o0)) s0 ((AMap.get a o0).getD s0) sb0 with
        | none => simp [hm] at h
        | some s => simp [hm] at h; subst h; exact AMap.WF_set (ih hr) _ _

/-- the components of a successful second commit -/
structure MergedSpec (H : THeap W Wt) (a b : TTx W Wt) (M : THeap W Wt) : Prop where
  wids : mergeObj resolveMap (tdirty a.writes .wids) (tdirty b.writes .wids) H.wids a.heap.wids b.heap.wids = some M.wids
  words : mergeObj resolveMap (tdirty a.writes .words) (tdirty b.writes .words) H.words a.heap.words b.heap.words = some M.words
  wordinfo : mergeObj resolveMap (tdirty a.writes .wordinfo) (tdirty b.writes .wordinfo) H.wordinfo a.heap.wordinfo
    b.heap.wordinfo = some M.wordinfo
  docwords : mergeObj resolveMap (tdirty a.writes .docwords) (tdirty b.writes .docwords) H.docwords a.heap.docwords
    b.heap.docwords = some M.docwords
  docweight : mergeObj resolveMap (tdirty a.writes .docweight) (tdirty b.writes .docweight) H.docweight a.heap.docweight
    b.heap.docweight = some M.docweight
  ni : mergeObj resolveSet (tdirty a.writes .ni) (tdirty b.writes .ni) H.ni a.heap.ni b.heap.ni = some M.ni
  tree : mergeTrees H.tree a.heap.tree a.writes b.writes b.heap.tree = some M.tree
  lexCount : M.lexCount = a.heap.lexCount + b.heap.lexCount - H.lexCount
  wordCount : M.wordCount = a.heap.wordCount + b.heap.wordCount - H.wordCount
  indexedCount : M.indexedCount = a.heap.indexedCount + b.heap.indexedCount - H.indexedCount
  totalDocLen : M.totalDocLen = a.heap.totalDocLen + b.heap.totalDocLen - H.totalDocLen

theorem mergedSpec_of_commit {H : THeap W Wt} {a b : TTx W Wt} {M : THeap W Wt}
    (h : commitSecondT H a b = some M) : MergedSpec H a b M := by
  unfold commitSecondT at h
  simp only at h
  split at h
  · next wids words wi dw dwt ni tree h1 h2 h3 h4 h5 h6 h7 =>
    cases h
    exact ⟨h1, h2, h3, h4, h5, h6, h7, rfl, rfl, rfl, rfl⟩
  · cases h

end Hyp.CIdx
