import HypatiaProofs.Lemmas.ConcurrencyTextMerged
import HypatiaProofs.Properties.C19Text

/-!
The merged heap of two text-index transactions on disjoint docids: lexicon, docid-keyed objects.
-/
set_option linter.unusedSectionVars false
set_option linter.unusedSimpArgs false
set_option linter.unusedVariables false
namespace Hyp.CIdx
open Hyp

variable {W Wt : Type} [DecidableEq W] [DecidableEq Wt]

/-- what is known about the two transactions when the second one commits -/
structure TCtx (c : TCfg Wt) (H : THeap W Wt) (T : TTable W) (a b : TTx W Wt) (Ta Tb : TTable W)
    (Da Db : List Int) : Prop where
  base : TOInv c H T
  ia : TOInv c a.heap Ta
  ib : TOInv c b.heap Tb
  fa : TFrame H (· ∈ Da) a.me a
  fb : TFrame H (· ∈ Db) b.me b
  sa : TSound H a
  sb : TSound H b
  la : LexTrack H a
  lb : LexTrack H b
  dis : ∀ d, d ∈ Da → d ∉ Db
  ne : a.me ≠ b.me
  hoa : ∀ o, (AMap.get H.tree o).isSome → o.1 ≠ a.me
  hob : ∀ o, (AMap.get H.tree o).isSome → o.1 ≠ b.me

section
variable {c : TCfg Wt} {H : THeap W Wt} {T : TTable W} {a b : TTx W Wt} {Ta Tb : TTable W} {Da Db : List Int}
  {M : THeap W Wt}

/-- the lexicon of the merged heap is one transaction's lexicon (the other left it alone) -/
structure LexIs (M x : THeap W Wt) : Prop where
  wids : ∀ w, AMap.get M.wids w = AMap.get x.wids w
  words : ∀ i, AMap.get M.words i = AMap.get x.words i
  count : M.lexCount = x.lexCount
  wfW : AMap.WF M.wids
  wfI : AMap.WF M.words

theorem lexInv_of_is {M x : THeap W Wt} (h : LexIs M x) (hl : LexInv x) : LexInv M :=
  ⟨h.wfW, h.wfI, fun w i => by rw [h.wids, h.words]; exact hl.inverse w i, by rw [h.count]; exact hl.nonneg,
   fun i hi => by rw [h.words] at hi; rw [h.count]; exact hl.below i hi⟩

theorem idsOf_of_is {M x : THeap W Wt} (h : LexIs M x) (toks : List W) : idsOf M toks = idsOf x toks := by
  unfold idsOf
  apply List.map_congr_left
  intro w _
  rw [h.wids]

theorem tm_lex (ctx : TCtx c H T a b Ta Tb Da Db) (ms : MergedSpec H a b M) :
    (LexIs M a.heap ∧ b.heap.wids = H.wids) ∨ (LexIs M b.heap ∧ a.heap.wids = H.wids) := by
  have hw := mergeObj_map_spec ms.wids ctx.sa.wids ctx.sb.wids
  have hi := mergeObj_map_spec ms.words ctx.sa.words ctx.sb.words
  have hL := ctx.base.core.lex
  cases hlb : ctx.lb with
  | same b1 b2 b3 =>
    refine Or.inl ⟨⟨?_, ?_, ?_, hw.2.1 ctx.ia.core.lex.wfW ctx.ib.core.lex.wfW,
      hi.2.1 ctx.ia.core.lex.wfI ctx.ib.core.lex.wfI⟩, b3⟩
    · intro w
      have := hw.1 w
      rw [b3, mergeVal_right] at this
      exact (Option.some.inj this).symm
    · intro i
      have := hi.1 i
      rw [b1, mergeVal_right] at this
      exact (Option.some.inj this).symm
    · rw [ms.lexCount, b2]; omega
  | grew b1 b2 =>
    cases hla : ctx.la with
    | same a1 a2 a3 =>
      refine Or.inr ⟨⟨?_, ?_, ?_, hw.2.1 ctx.ia.core.lex.wfW ctx.ib.core.lex.wfW,
        hi.2.1 ctx.ia.core.lex.wfI ctx.ib.core.lex.wfI⟩, a3⟩
      · intro w
        have := hw.1 w
        rw [a3, mergeVal_left] at this
        exact (Option.some.inj this).symm
      · intro i
        have := hi.1 i
        rw [a1, mergeVal_left] at this
        exact (Option.some.inj this).symm
      · rw [ms.lexCount, a2]; omega
    | grew a1 a2 =>
      exfalso
      have hfree := (c19_text_first_new_wid H ⟨hL.nonneg, hL.below⟩).2
      have := ms.words
      rw [a2, b2] at this
      rw [mergeObj_none_of_both_changed (k := firstNewWid H)
        (by rw [hfree]; intro e; rw [e] at a1; simp at a1)
        (by rw [hfree]; intro e; rw [e] at b1; simp at b1)] at this
      cases this

/-- docid-keyed maps: the second transaction's entries on its docids, the first one's elsewhere -/
theorem tm_docmap {β : Type} [DecidableEq β] {old com new r : AMap Int β} {da db : Bool}
    (h : mergeObj resolveMap da db old com new = some r) (ha : da = false → com = old) (hb : db = false → new = old)
    (fa : ∀ d, d ∉ Da → AMap.get com d = AMap.get old d) (fb : ∀ d, d ∉ Db → AMap.get new d = AMap.get old d)
    (dis : ∀ d, d ∈ Da → d ∉ Db) (d : Int) :
    AMap.get r d = if d ∈ Db then AMap.get new d else AMap.get com d := by
  have := (mergeObj_map_spec h ha hb).1 d
  by_cases e : d ∈ Db
  · rw [if_pos e]
    have hda : d ∉ Da := fun h' => dis d h' e
    rw [fa d hda, mergeVal_left] at this
    exact (Option.some.inj this).symm
  · rw [if_neg e]
    rw [fb d e, mergeVal_right] at this
    exact (Option.some.inj this).symm

theorem tm_docwords (ctx : TCtx c H T a b Ta Tb Da Db) (ms : MergedSpec H a b M) (d : Int) :
    AMap.get M.docwords d = if d ∈ Db then AMap.get b.heap.docwords d else AMap.get a.heap.docwords d :=
  tm_docmap ms.docwords ctx.sa.docwords ctx.sb.docwords ctx.fa.dw ctx.fb.dw ctx.dis d

theorem tm_docweight (ctx : TCtx c H T a b Ta Tb Da Db) (ms : MergedSpec H a b M) (d : Int) :
    AMap.get M.docweight d = if d ∈ Db then AMap.get b.heap.docweight d else AMap.get a.heap.docweight d :=
  tm_docmap ms.docweight ctx.sa.docweight ctx.sb.docweight ctx.fa.dwt ctx.fb.dwt ctx.dis d

theorem tm_ni (ctx : TCtx c H T a b Ta Tb Da Db) (ms : MergedSpec H a b M) (d : Int) :
    d ∈ M.ni ↔ if d ∈ Db then d ∈ b.heap.ni else d ∈ a.heap.ni := by
  have := (mergeObj_set_spec ms.ni ctx.sa.ni ctx.sb.ni).1 d
  by_cases e : d ∈ Db
  · rw [if_pos e]
    have hda : d ∉ Da := fun h' => ctx.dis d h' e
    have h1 : decide (d ∈ a.heap.ni) = decide (d ∈ H.ni) := by
      rw [decide_eq_decide]; exact ctx.fa.ni d hda
    rw [h1, mergeMem_left] at this
    have := Option.some.inj this
    exact (decide_eq_decide.mp this).symm
  · rw [if_neg e]
    have h1 : decide (d ∈ b.heap.ni) = decide (d ∈ H.ni) := by
      rw [decide_eq_decide]; exact ctx.fb.ni d e
    rw [h1, mergeMem_right] at this
    have := Option.some.inj this
    exact (decide_eq_decide.mp this).symm

/-- `_wordinfo`, key by key: one side left the key alone -/
theorem tm_wi (ctx : TCtx c H T a b Ta Tb Da Db) (ms : MergedSpec H a b M) (w : Nat) :
    (AMap.get a.heap.wordinfo w = AMap.get H.wordinfo w ∧ AMap.get M.wordinfo w = AMap.get b.heap.wordinfo w) ∨
    (AMap.get b.heap.wordinfo w = AMap.get H.wordinfo w ∧ AMap.get M.wordinfo w = AMap.get a.heap.wordinfo w) := by
  have := (mergeObj_map_spec ms.wordinfo ctx.sa.wordinfo ctx.sb.wordinfo).1 w
  rcases mergeVal_some this with ⟨e1, e2⟩ | ⟨e1, e2⟩
  · exact Or.inl ⟨e1, e2⟩
  · exact Or.inr ⟨e1, e2⟩

end

end Hyp.CIdx
