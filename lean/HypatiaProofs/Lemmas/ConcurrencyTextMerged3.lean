import HypatiaProofs.Lemmas.ConcurrencyTextMerged2

/-!
The merged postings: the second transaction's entries on its docids, the first one's elsewhere
(`tm_pt`), and the structure of the merged heap (`tm_struct`).
-/
set_option linter.unusedSectionVars false
set_option linter.unusedSimpArgs false
set_option linter.unusedVariables false
namespace Hyp.CIdx
open Hyp

variable {W Wt : Type} [DecidableEq W] [DecidableEq Wt]

section
variable {c : TCfg Wt} {H : THeap W Wt} {T : TTable W} {a b : TTx W Wt} {Ta Tb : TTable W} {Da Db : List Int}
  {M : THeap W Wt}

theorem pt_of_wi {h : THeap W Wt} {w : Nat} {v : Option (PVal Wt)} (e : AMap.get h.wordinfo w = v) (d : Int) :
    pt h w d = AMap.get (pvalPosting h v) d := by
  unfold pt; rw [posting_of_get, e]

/-- a snapshot tree in the merged heap -/
theorem tm_tree_shared (ctx : TCtx c H T a b Ta Tb Da Db) (ms : MergedSpec H a b M) (o : Oid) (s0 : AMap Int Wt)
    (h0 : AMap.get H.tree o = some s0) :
    ∃ ta tb s, AMap.get a.heap.tree o = some ta ∧ AMap.get b.heap.tree o = some tb ∧ AMap.get M.tree o = some s ∧
      mergeObj resolveMap (tdirty a.writes (.tree o)) (tdirty b.writes (.tree o)) s0 ta tb = some s := by
  have ka := ctx.fa.keep o (by rw [h0]; rfl)
  have kb := ctx.fb.keep o (by rw [h0]; rfl)
  obtain ⟨ta, hta⟩ := Option.isSome_iff_exists.mp ka
  obtain ⟨tb, htb⟩ := Option.isSome_iff_exists.mp kb
  have := mergeTrees_spec ms.tree o
  rw [htb] at this
  simp only [h0] at this
  obtain ⟨s, hs, hm⟩ := this
  rw [hta] at hm
  exact ⟨ta, tb, s, hta, htb, hs, hm⟩

/-- a tree allocated by the second transaction is stored as it is -/
theorem tm_tree_b (ctx : TCtx c H T a b Ta Tb Da Db) (ms : MergedSpec H a b M) (o : Oid)
    (hb : (AMap.get b.heap.tree o).isSome) (hH : AMap.get H.tree o = none) :
    AMap.get M.tree o = AMap.get b.heap.tree o := by
  obtain ⟨tb, htb⟩ := Option.isSome_iff_exists.mp hb
  have := mergeTrees_spec ms.tree o
  rw [htb] at this
  simp only [hH] at this
  rw [this, htb]

/-- a tree allocated by the first transaction stays -/
theorem tm_tree_a (ctx : TCtx c H T a b Ta Tb Da Db) (ms : MergedSpec H a b M) (o : Oid)
    (ha : (AMap.get a.heap.tree o).isSome) (hH : AMap.get H.tree o = none) :
    AMap.get M.tree o = AMap.get a.heap.tree o := by
  have hme : o.1 = a.me := by
    rcases ctx.fa.own o ha with h | h
    · rw [hH] at h; simp at h
    · exact h.1
  have hb : AMap.get b.heap.tree o = none := by
    cases hg : AMap.get b.heap.tree o with
    | none => rfl
    | some t =>
      rcases ctx.fb.own o (by rw [hg]; rfl) with h | h
      · rw [hH] at h; simp at h
      · exact absurd (hme.symm.trans h.1) ctx.ne
  have := mergeTrees_spec ms.tree o
  rw [hb] at this
  exact this

theorem resolveMap_new_empty {κ β : Type} [DecidableEq κ] [DecidableEq β] (old com : AMap κ β) :
    resolveMap old com [] = none := by
  unfold resolveMap; simp

theorem resolveMap_com_empty {κ β : Type} [DecidableEq κ] [DecidableEq β] (old new : AMap κ β) :
    resolveMap old [] new = none := by
  unfold resolveMap; simp

/-- `a` left the key of word `w` alone, `b` changed it: outside `b`'s docids the two postings agree -/
theorem pt_agree_a (ctx : TCtx c H T a b Ta Tb Da Db) (ms : MergedSpec H a b M) (w : Nat)
    (ea : AMap.get a.heap.wordinfo w = AMap.get H.wordinfo w) (eb : AMap.get b.heap.wordinfo w ≠ AMap.get H.wordinfo w)
    (d : Int) (hd : d ∉ Db) : pt a.heap w d = pt b.heap w d := by
  rw [ctx.fb.pt w d hd]
  cases hv : AMap.get H.wordinfo w with
  | none => rw [pt_of_wi (ea.trans hv), pt_of_wi hv]; rfl
  | some v0 =>
    cases v0 with
    | dict m => rw [pt_of_wi (ea.trans hv), pt_of_wi hv]; rfl
    | ref o =>
      rw [pt_of_wi (ea.trans hv), pt_of_wi hv]
      simp only [pvalPosting]
      have hres := ctx.base.core.struct.refs w o hv
      obtain ⟨s0, hs0⟩ := Option.isSome_iff_exists.mp hres
      obtain ⟨ta, tb, s, hta, htb, hs, hm⟩ := tm_tree_shared ctx ms o s0 hs0
      have hemp : tb = [] := by
        have := ctx.fb.emp w o hv (by rw [← hv]; exact eb)
        rw [htb] at this; exact Option.some.inj this
      have hne0 : s0 ≠ [] := by
        have := ctx.base.core.struct.ne_post w (by rw [hv]; rfl)
        rw [posting_of_get, hv] at this
        simp only [pvalPosting, hs0, Option.getD_some] at this
        exact this
      have hdb : tdirty b.writes (.tree o) = true := by
        cases h : tdirty b.writes (.tree o) with
        | true => rfl
        | false =>
          have := ctx.sb.tree o h
          rw [htb, hs0, hemp] at this
          exact absurd (Option.some.inj this).symm hne0
      have hda : tdirty a.writes (.tree o) = false := by
        cases h : tdirty a.writes (.tree o) with
        | false => rfl
        | true =>
          rw [h, hdb, hemp] at hm
          simp [mergeObj, resolveMap_new_empty] at hm
      have := ctx.sa.tree o hda
      rw [this]

/-- … and symmetrically -/
theorem pt_agree_b (ctx : TCtx c H T a b Ta Tb Da Db) (ms : MergedSpec H a b M) (w : Nat)
    (eb : AMap.get b.heap.wordinfo w = AMap.get H.wordinfo w) (ea : AMap.get a.heap.wordinfo w ≠ AMap.get H.wordinfo w)
    (d : Int) (hd : d ∉ Da) : pt b.heap w d = pt a.heap w d := by
  rw [ctx.fa.pt w d hd]
  cases hv : AMap.get H.wordinfo w with
  | none => rw [pt_of_wi (eb.trans hv), pt_of_wi hv]; rfl
  | some v0 =>
    cases v0 with
    | dict m => rw [pt_of_wi (eb.trans hv), pt_of_wi hv]; rfl
    | ref o =>
      rw [pt_of_wi (eb.trans hv), pt_of_wi hv]
      simp only [pvalPosting]
      have hres := ctx.base.core.struct.refs w o hv
      obtain ⟨s0, hs0⟩ := Option.isSome_iff_exists.mp hres
      obtain ⟨ta, tb, s, hta, htb, hs, hm⟩ := tm_tree_shared ctx ms o s0 hs0
      have hemp : ta = [] := by
        have := ctx.fa.emp w o hv (by rw [← hv]; exact ea)
        rw [hta] at this; exact Option.some.inj this
      have hne0 : s0 ≠ [] := by
        have := ctx.base.core.struct.ne_post w (by rw [hv]; rfl)
        rw [posting_of_get, hv] at this
        simp only [pvalPosting, hs0, Option.getD_some] at this
        exact this
      have hda : tdirty a.writes (.tree o) = true := by
        cases h : tdirty a.writes (.tree o) with
        | true => rfl
        | false =>
          have := ctx.sa.tree o h
          rw [hta, hs0, hemp] at this
          exact absurd (Option.some.inj this).symm hne0
      have hdb : tdirty b.writes (.tree o) = false := by
        cases h : tdirty b.writes (.tree o) with
        | false => rfl
        | true =>
          rw [h, hda, hemp] at hm
          simp [mergeObj, resolveMap_com_empty] at hm
      have := ctx.sb.tree o hdb
      rw [this]

/-- the classification of a word's merged posting -/
inductive WiClass (H : THeap W Wt) (a b : TTx W Wt) (M : THeap W Wt) (w : Nat) : Prop where
  /-- both left the key alone (a shared tree object is merged entry by entry) -/
  | both (ea : AMap.get a.heap.wordinfo w = AMap.get H.wordinfo w)
      (eb : AMap.get b.heap.wordinfo w = AMap.get H.wordinfo w)
      (em : AMap.get M.wordinfo w = AMap.get H.wordinfo w)
  /-- only `b` changed it: the merged posting is `b`'s -/
  | isB (ea : AMap.get a.heap.wordinfo w = AMap.get H.wordinfo w)
      (eb : AMap.get b.heap.wordinfo w ≠ AMap.get H.wordinfo w)
      (em : AMap.get M.wordinfo w = AMap.get b.heap.wordinfo w) (ep : M.posting w = b.heap.posting w)
  /-- only `a` changed it: the merged posting is `a`'s -/
  | isA (eb : AMap.get b.heap.wordinfo w = AMap.get H.wordinfo w)
      (ea : AMap.get a.heap.wordinfo w ≠ AMap.get H.wordinfo w)
      (em : AMap.get M.wordinfo w = AMap.get a.heap.wordinfo w) (ep : M.posting w = a.heap.posting w)

theorem tm_class (ctx : TCtx c H T a b Ta Tb Da Db) (ms : MergedSpec H a b M) (w : Nat) : WiClass H a b M w := by
  rcases tm_wi ctx ms w with ⟨ea, em⟩ | ⟨eb, em⟩
  · by_cases eb : AMap.get b.heap.wordinfo w = AMap.get H.wordinfo w
    · exact .both ea eb (em.trans eb)
    · refine .isB ea eb em ?_
      rw [posting_of_get, posting_of_get, em]
      cases hvb : AMap.get b.heap.wordinfo w with
      | none => rfl
      | some vb =>
        cases vb with
        | dict m => rfl
        | ref ob =>
          simp only [pvalPosting]
          have hbt := ctx.fb.refs w ob hvb
          have hH : AMap.get H.tree ob = none := by
            cases hg : AMap.get H.tree ob with
            | none => rfl
            | some t =>
              have := ctx.fb.inh w ob hvb (by rw [hg]; rfl)
              exact absurd (hvb.trans this.symm) eb
          rw [tm_tree_b ctx ms ob hbt hH]
  · by_cases ea : AMap.get a.heap.wordinfo w = AMap.get H.wordinfo w
    · exact .both ea eb (em.trans ea)
    · refine .isA eb ea em ?_
      rw [posting_of_get, posting_of_get, em]
      cases hva : AMap.get a.heap.wordinfo w with
      | none => rfl
      | some va =>
        cases va with
        | dict m => rfl
        | ref oa =>
          simp only [pvalPosting]
          have hat := ctx.fa.refs w oa hva
          have hH : AMap.get H.tree oa = none := by
            cases hg : AMap.get H.tree oa with
            | none => rfl
            | some t =>
              have := ctx.fa.inh w oa hva (by rw [hg]; rfl)
              exact absurd (hva.trans this.symm) ea
          rw [tm_tree_a ctx ms oa hat hH]

/-- **the merged postings**: `b`'s entries on `b`'s docids, `a`'s elsewhere -/
theorem tm_pt (ctx : TCtx c H T a b Ta Tb Da Db) (ms : MergedSpec H a b M) (w : Nat) (d : Int) :
    pt M w d = if d ∈ Db then pt b.heap w d else pt a.heap w d := by
  cases tm_class ctx ms w with
  | both ea eb em =>
    cases hv : AMap.get H.wordinfo w with
    | none =>
      rw [pt_of_wi (em.trans hv), pt_of_wi (ea.trans hv), pt_of_wi (eb.trans hv)]; simp [pvalPosting]
    | some v0 =>
      cases v0 with
      | dict m =>
        rw [pt_of_wi (em.trans hv), pt_of_wi (ea.trans hv), pt_of_wi (eb.trans hv)]; simp [pvalPosting]
      | ref o =>
        rw [pt_of_wi (em.trans hv), pt_of_wi (ea.trans hv), pt_of_wi (eb.trans hv)]
        simp only [pvalPosting]
        have hres := ctx.base.core.struct.refs w o hv
        obtain ⟨s0, hs0⟩ := Option.isSome_iff_exists.mp hres
        obtain ⟨ta, tb, s, hta, htb, hs, hm⟩ := tm_tree_shared ctx ms o s0 hs0
        rw [hs, hta, htb]
        simp only [Option.getD_some]
        have hsa : tdirty a.writes (.tree o) = false → ta = s0 := by
          intro h; have := ctx.sa.tree o h; rw [hta, hs0] at this; exact Option.some.inj this
        have hsb : tdirty b.writes (.tree o) = false → tb = s0 := by
          intro h; have := ctx.sb.tree o h; rw [htb, hs0] at this; exact Option.some.inj this
        have key := (mergeObj_map_spec hm hsa hsb).1 d
        by_cases e : d ∈ Db
        · rw [if_pos e]
          have hda : d ∉ Da := fun h' => ctx.dis d h' e
          have := ctx.fa.tr o d hda hres
          rw [hta, hs0] at this
          simp only [Option.getD_some] at this
          rw [this, mergeVal_left] at key
          exact (Option.some.inj key).symm
        · rw [if_neg e]
          have := ctx.fb.tr o d e hres
          rw [htb, hs0] at this
          simp only [Option.getD_some] at this
          rw [this, mergeVal_right] at key
          exact (Option.some.inj key).symm
  | isB ea eb em ep =>
    unfold pt at *
    rw [ep]
    by_cases e : d ∈ Db
    · rw [if_pos e]
    · rw [if_neg e]; exact (pt_agree_a ctx ms w ea eb d e).symm
  | isA eb ea em ep =>
    unfold pt at *
    rw [ep]
    by_cases e : d ∈ Db
    · rw [if_pos e]
      have hda : d ∉ Da := fun h' => ctx.dis d h' e
      exact (pt_agree_b ctx ms w eb ea d hda).symm
    · rw [if_neg e]

end

end Hyp.CIdx
