import HypatiaProofs.Lemmas.ConcurrencyTextMerged3

/-!
Counting lemmas for three-way merged maps (`Length`s merge additively because the maps merge key by
key), and the structure of the merged text heap.
-/
set_option linter.unusedSectionVars false
set_option linter.unusedSimpArgs false
set_option linter.unusedVariables false
namespace Hyp.CIdx
open Hyp

section Counting
variable {κ β : Type} [DecidableEq κ]

/-- the number of entries of a key-by-key merged map -/
theorem tm_length {old com new r : AMap κ β} (w0 : AMap.WF old) (w1 : AMap.WF com) (w2 : AMap.WF new)
    (w3 : AMap.WF r)
    (hk : ∀ k, (AMap.get com k = AMap.get old k ∧ AMap.get r k = AMap.get new k) ∨
               (AMap.get new k = AMap.get old k ∧ AMap.get r k = AMap.get com k)) :
    (r.length : Int) = com.length + new.length - old.length := by
  let U := Keyword.dedup (AMap.keys r ++ AMap.keys com ++ AMap.keys new ++ AMap.keys old)
  have hU : U.Nodup := Keyword.nodup_dedup _
  have hin : ∀ (m : AMap κ β), (∀ k ∈ AMap.keys m, k ∈ AMap.keys r ++ AMap.keys com ++ AMap.keys new ++ AMap.keys old) →
      ∀ k ∈ AMap.keys m, k ∈ U := fun m hm k hk => (Keyword.mem_dedup _ _).mpr (hm k hk)
  have eR := length_eq_countP w3 hU (hin r (fun k hk => by simp [hk]))
  have eA := length_eq_countP w1 hU (hin com (fun k hk => by simp [hk]))
  have eB := length_eq_countP w2 hU (hin new (fun k hk => by simp [hk]))
  have eH := length_eq_countP w0 hU (hin old (fun k hk => by simp [hk]))
  have key := countP_four U (fun k => (AMap.get r k).isSome) (fun k => (AMap.get old k).isSome)
    (fun k => (AMap.get com k).isSome) (fun k => (AMap.get new k).isSome) (by
      intro k _
      rcases hk k with ⟨e1, e2⟩ | ⟨e1, e2⟩
      · rw [e1, e2]; omega
      · rw [e1, e2])
  rw [eR, eA, eB, eH]
  omega

theorem sum_ite_eq (u : List κ) (hu : u.Nodup) (a : κ) (x : Int) (f : κ → Int) (ha : a ∈ u) (hf : f a = 0) :
    (u.map (fun k => if k = a then x else f k)).sum = x + (u.map f).sum := by
  induction u with
  | nil => simp at ha
  | cons k ks ih =>
    obtain ⟨hk, hks⟩ := List.nodup_cons.mp hu
    simp only [List.map_cons, List.sum_cons]
    by_cases e : k = a
    · subst e
      simp only [if_true, hf]
      have : ks.map (fun k' => if k' = k then x else f k') = ks.map f := by
        apply List.map_congr_left
        intro k' hk'
        have : k' ≠ k := fun e => hk (e ▸ hk')
        simp [this]
      rw [this]; omega
    · simp only [e, if_false]
      have ha' : a ∈ ks := by
        rcases List.mem_cons.mp ha with h | h
        · exact absurd h.symm e
        · exact h
      rw [ih hks ha']; omega

/-- a sum over the values of a well-formed map, as a sum over any duplicate-free key universe -/
theorem sum_eq_universe (g : β → Int) : ∀ {m : AMap κ β}, AMap.WF m → ∀ {u : List κ}, u.Nodup →
    (∀ k ∈ AMap.keys m, k ∈ u) →
    (m.map (fun e => g e.2)).sum = (u.map (fun k => ((AMap.get m k).map g).getD 0)).sum
  | [], _, u, _, _ => by
    have : ∀ (l : List κ), (l.map (fun _ => (0 : Int))).sum = 0 := by
      intro l
      induction l with
      | nil => rfl
      | cons k ks ih => rw [List.map_cons, List.sum_cons, ih]; rfl
    simp [this]
  | (a, b) :: m, hwf, u, hu, hsub => by
    have hwf' : AMap.WF m := by
      unfold AMap.WF AMap.keys at hwf ⊢
      simp only [List.map_cons, List.nodup_cons] at hwf; exact hwf.2
    have hna : AMap.get m a = none := by
      unfold AMap.WF AMap.keys at hwf
      simp only [List.map_cons, List.nodup_cons] at hwf
      exact (AMap.not_mem_keys_iff m a).mp hwf.1
    have ih := sum_eq_universe g hwf' hu (fun k hk => hsub k (by simp [AMap.keys] at hk ⊢; exact Or.inr hk))
    simp only [List.map_cons, List.sum_cons]
    rw [ih]
    have : u.map (fun k => ((AMap.get ((a, b) :: m) k).map g).getD 0) =
        u.map (fun k => if k = a then g b else ((AMap.get m k).map g).getD 0) := by
      apply List.map_congr_left
      intro k _
      rw [AMap.get_cons]
      by_cases e : a = k
      · subst e; simp
      · have : ¬ k = a := fun h => e h.symm
        simp [e, this]
    rw [this, sum_ite_eq u hu a (g b) _ (hsub a (by simp [AMap.keys])) (by rw [hna]; rfl)]

theorem sum_four (u : List κ) (f g h k : κ → Int) (hp : ∀ x ∈ u, f x + g x = h x + k x) :
    (u.map f).sum + (u.map g).sum = (u.map h).sum + (u.map k).sum := by
  induction u with
  | nil => simp
  | cons x xs ih =>
    have := hp x (by simp)
    have := ih (fun y hy => hp y (List.mem_cons_of_mem _ hy))
    simp only [List.map_cons, List.sum_cons]
    omega

/-- the sum over the values of a key-by-key merged map -/
theorem tm_sum (g : β → Int) {old com new r : AMap κ β} (w0 : AMap.WF old) (w1 : AMap.WF com)
    (w2 : AMap.WF new) (w3 : AMap.WF r)
    (hk : ∀ k, (AMap.get com k = AMap.get old k ∧ AMap.get r k = AMap.get new k) ∨
               (AMap.get new k = AMap.get old k ∧ AMap.get r k = AMap.get com k)) :
    (r.map (fun e => g e.2)).sum =
      (com.map (fun e => g e.2)).sum + (new.map (fun e => g e.2)).sum - (old.map (fun e => g e.2)).sum := by
  let U := Keyword.dedup (AMap.keys r ++ AMap.keys com ++ AMap.keys new ++ AMap.keys old)
  have hU : U.Nodup := Keyword.nodup_dedup _
  have hin : ∀ (m : AMap κ β), (∀ k ∈ AMap.keys m, k ∈ AMap.keys r ++ AMap.keys com ++ AMap.keys new ++ AMap.keys old) →
      ∀ k ∈ AMap.keys m, k ∈ U := fun m hm k hk => (Keyword.mem_dedup _ _).mpr (hm k hk)
  rw [sum_eq_universe g w3 hU (hin r (fun k hk => by simp [hk])),
      sum_eq_universe g w1 hU (hin com (fun k hk => by simp [hk])),
      sum_eq_universe g w2 hU (hin new (fun k hk => by simp [hk])),
      sum_eq_universe g w0 hU (hin old (fun k hk => by simp [hk]))]
  have := sum_four U (fun k => ((AMap.get r k).map g).getD 0) (fun k => ((AMap.get old k).map g).getD 0)
    (fun k => ((AMap.get com k).map g).getD 0) (fun k => ((AMap.get new k).map g).getD 0) (by
      intro k _
      rcases hk k with ⟨e1, e2⟩ | ⟨e1, e2⟩
      · simp only [e1, e2]; omega
      · simp only [e1, e2])
  omega

theorem mergeObj_cases {old com new r : AMap κ β} [DecidableEq β] {da db : Bool}
    (h : mergeObj resolveMap da db old com new = some r) (ha : da = false → com = old) (hb : db = false → new = old)
    (k : κ) :
    (AMap.get com k = AMap.get old k ∧ AMap.get r k = AMap.get new k) ∨
    (AMap.get new k = AMap.get old k ∧ AMap.get r k = AMap.get com k) := by
  have := (mergeObj_map_spec h ha hb).1 k
  rcases mergeVal_some this with ⟨e1, e2⟩ | ⟨e1, e2⟩
  · exact Or.inl ⟨e1, e2⟩
  · exact Or.inr ⟨e1, e2⟩

theorem mergeObj_ne {old com new r : AMap κ β} [DecidableEq β] {da db : Bool}
    (h : mergeObj resolveMap da db old com new = some r) (hc : com ≠ []) (hn : new ≠ []) : r ≠ [] := by
  unfold mergeObj at h
  cases db with
  | false => simp at h; subst h; exact hc
  | true =>
    cases da with
    | false => simp at h; subst h; exact hn
    | true => simp at h; exact (resolveMap_spec h).2.2.1

end Counting

end Hyp.CIdx
