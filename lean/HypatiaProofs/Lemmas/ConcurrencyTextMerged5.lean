import HypatiaProofs.Lemmas.ConcurrencyTextMerged4

/-!
**The merged heap represents the merged table** (`tmerged_inv`): structure, core invariant and
refinement invariant of what a successful second commit stores.
-/
set_option linter.unusedSectionVars false
set_option linter.unusedSimpArgs false
set_option linter.unusedVariables false
namespace Hyp.CIdx
open Hyp

variable {W Wt : Type} [DecidableEq W] [DecidableEq Wt]

section
variable {c : TCfg Wt} {H : THeap W Wt} {T : TTable W} {a b : TTx W Wt} {Ta Tb : TTable W} {Da Db : List Int}
  {M : THeap W Wt}

/-- where a reference of the merged `_wordinfo` comes from -/
theorem tm_ref_class (ctx : TCtx c H T a b Ta Tb Da Db) (ms : MergedSpec H a b M) (i : Nat) (o : Oid)
    (hi : AMap.get M.wordinfo i = some (.ref o)) :
    (AMap.get H.wordinfo i = some (.ref o) ∧ (AMap.get H.tree o).isSome) ∨
    (AMap.get b.heap.wordinfo i = some (.ref o) ∧ AMap.get H.tree o = none ∧ o.1 = b.me ∧
      AMap.get M.tree o = AMap.get b.heap.tree o) ∨
    (AMap.get a.heap.wordinfo i = some (.ref o) ∧ AMap.get H.tree o = none ∧ o.1 = a.me ∧
      AMap.get M.tree o = AMap.get a.heap.tree o) := by
  cases tm_class ctx ms i with
  | both ea eb em =>
    rw [em] at hi
    exact Or.inl ⟨hi, ctx.base.core.struct.refs i o hi⟩
  | isB ea eb em ep =>
    rw [em] at hi
    have hbt := ctx.fb.refs i o hi
    have hH : AMap.get H.tree o = none := by
      cases hg : AMap.get H.tree o with
      | none => rfl
      | some t =>
        have := ctx.fb.inh i o hi (by rw [hg]; rfl)
        exact absurd (hi.trans this.symm) eb
    have hme : o.1 = b.me := by
      rcases ctx.fb.own o hbt with h | h
      · rw [hH] at h; simp at h
      · exact h.1
    exact Or.inr (Or.inl ⟨hi, hH, hme, tm_tree_b ctx ms o hbt hH⟩)
  | isA eb ea em ep =>
    rw [em] at hi
    have hat := ctx.fa.refs i o hi
    have hH : AMap.get H.tree o = none := by
      cases hg : AMap.get H.tree o with
      | none => rfl
      | some t =>
        have := ctx.fa.inh i o hi (by rw [hg]; rfl)
        exact absurd (hi.trans this.symm) ea
    have hme : o.1 = a.me := by
      rcases ctx.fa.own o hat with h | h
      · rw [hH] at h; simp at h
      · exact h.1
    exact Or.inr (Or.inr ⟨hi, hH, hme, tm_tree_a ctx ms o hat hH⟩)

theorem tm_struct (ctx : TCtx c H T a b Ta Tb Da Db) (ms : MergedSpec H a b M) : TStruct M := by
  have wfwi : AMap.WF M.wordinfo :=
    (mergeObj_map_spec ms.wordinfo ctx.sa.wordinfo ctx.sb.wordinfo).2.1 ctx.ia.core.struct.wf_wi ctx.ib.core.struct.wf_wi
  refine ⟨wfwi, ?_, ?_, ?_, ?_⟩
  · intro i o hi
    rcases tm_ref_class ctx ms i o hi with ⟨_, h2⟩ | ⟨h1, _, _, h4⟩ | ⟨h1, _, _, h4⟩
    · obtain ⟨s0, hs0⟩ := Option.isSome_iff_exists.mp h2
      obtain ⟨_, _, s, _, _, hs, _⟩ := tm_tree_shared ctx ms o s0 hs0
      rw [hs]; rfl
    · rw [h4]; exact ctx.fb.refs i o h1
    · rw [h4]; exact ctx.fa.refs i o h1
  · intro i j o hi hj
    rcases tm_ref_class ctx ms i o hi with ⟨h1, h2⟩ | ⟨h1, h2, h3, _⟩ | ⟨h1, h2, h3, _⟩ <;>
    rcases tm_ref_class ctx ms j o hj with ⟨g1, g2⟩ | ⟨g1, g2, g3, _⟩ | ⟨g1, g2, g3, _⟩
    · exact ctx.base.core.struct.inj i j o h1 g1
    · rw [g2] at h2; simp at h2
    · rw [g2] at h2; simp at h2
    · rw [h2] at g2; simp at g2
    · exact ctx.ib.core.struct.inj i j o h1 g1
    · exact absurd (g3.symm.trans h3) ctx.ne
    · rw [h2] at g2; simp at g2
    · exact absurd (h3.symm.trans g3) ctx.ne
    · exact ctx.ia.core.struct.inj i j o h1 g1
  · intro i
    cases tm_class ctx ms i with
    | both ea eb em =>
      rw [posting_of_get, em]
      cases hv : AMap.get H.wordinfo i with
      | none => simp [pvalPosting, AMap.WF, AMap.keys]
      | some v0 =>
        cases v0 with
        | dict m =>
          have := ctx.base.core.struct.wf_post i
          rw [posting_of_get, hv] at this; exact this
        | ref o =>
          simp only [pvalPosting]
          have hres := ctx.base.core.struct.refs i o hv
          obtain ⟨s0, hs0⟩ := Option.isSome_iff_exists.mp hres
          obtain ⟨ta, tb, s, hta, htb, hs, hm⟩ := tm_tree_shared ctx ms o s0 hs0
          rw [hs]
          simp only [Option.getD_some]
          have hsa : tdirty a.writes (.tree o) = false → ta = s0 := by
            intro h; have := ctx.sa.tree o h; rw [hta, hs0] at this; exact Option.some.inj this
          have hsb : tdirty b.writes (.tree o) = false → tb = s0 := by
            intro h; have := ctx.sb.tree o h; rw [htb, hs0] at this; exact Option.some.inj this
          have wa : AMap.WF ta := by
            have := ctx.ia.core.struct.wf_post i
            rw [posting_of_get, ea.trans hv] at this
            simp only [pvalPosting, hta, Option.getD_some] at this; exact this
          have wb : AMap.WF tb := by
            have := ctx.ib.core.struct.wf_post i
            rw [posting_of_get, eb.trans hv] at this
            simp only [pvalPosting, htb, Option.getD_some] at this; exact this
          exact (mergeObj_map_spec hm hsa hsb).2.1 wa wb
    | isB ea eb em ep => rw [ep]; exact ctx.ib.core.struct.wf_post i
    | isA eb ea em ep => rw [ep]; exact ctx.ia.core.struct.wf_post i
  · intro i hi
    cases tm_class ctx ms i with
    | both ea eb em =>
      rw [posting_of_get, em]
      rw [em] at hi
      cases hv : AMap.get H.wordinfo i with
      | none => rw [hv] at hi; simp at hi
      | some v0 =>
        cases v0 with
        | dict m =>
          have := ctx.base.core.struct.ne_post i hi
          rw [posting_of_get, hv] at this; exact this
        | ref o =>
          simp only [pvalPosting]
          have hres := ctx.base.core.struct.refs i o hv
          obtain ⟨s0, hs0⟩ := Option.isSome_iff_exists.mp hres
          obtain ⟨ta, tb, s, hta, htb, hs, hm⟩ := tm_tree_shared ctx ms o s0 hs0
          rw [hs]
          simp only [Option.getD_some]
          have na : ta ≠ [] := by
            have := ctx.ia.core.struct.ne_post i (by rw [ea, hv]; rfl)
            rw [posting_of_get, ea.trans hv] at this
            simp only [pvalPosting, hta, Option.getD_some] at this; exact this
          have nb : tb ≠ [] := by
            have := ctx.ib.core.struct.ne_post i (by rw [eb, hv]; rfl)
            rw [posting_of_get, eb.trans hv] at this
            simp only [pvalPosting, htb, Option.getD_some] at this; exact this
          exact mergeObj_ne hm na nb
    | isB ea eb em ep => rw [ep]; rw [em] at hi; exact ctx.ib.core.struct.ne_post i hi
    | isA eb ea em ep => rw [ep]; rw [em] at hi; exact ctx.ia.core.struct.ne_post i hi

theorem wc_of_wcl {h : THeap W Wt} (e : wcl h = 0) : h.wordCount = h.wordinfo.length := by
  unfold wcl at e; omega

/-- the merged heap satisfies the table-free core of the invariant -/
theorem tm_core (hf : FreqOK c) (ctx : TCtx c H T a b Ta Tb Da Db) (ms : MergedSpec H a b M) : TCore c M := by
  have hst := tm_struct ctx ms
  have wfD : AMap.WF M.docwords :=
    (mergeObj_map_spec ms.docwords ctx.sa.docwords ctx.sb.docwords).2.1 ctx.ia.core.wfD ctx.ib.core.wfD
  have wfDw : AMap.WF M.docweight :=
    (mergeObj_map_spec ms.docweight ctx.sa.docweight ctx.sb.docweight).2.1 ctx.ia.core.wfDw ctx.ib.core.wfDw
  have hlex : LexInv M := by
    rcases tm_lex ctx ms with ⟨h, _⟩ | ⟨h, _⟩
    · exact lexInv_of_is h ctx.ia.core.lex
    · exact lexInv_of_is h ctx.ib.core.lex
  refine ⟨⟨hlex, hst, wfD, wfDw, ?_, ?_, ?_, ?_⟩, ?_⟩
  · intro d
    rw [tm_docweight ctx ms d, tm_docwords ctx ms d]
    split
    · exact ctx.ib.core.docweight d
    · exact ctx.ia.core.docweight d
  · intro j d
    rw [tm_pt ctx ms j d, tm_docwords ctx ms d]
    split
    · exact ctx.ib.core.postings j d
    · exact ctx.ia.core.postings j d
  · unfold wcl
    rw [ms.wordCount, wc_of_wcl ctx.ia.core.wc, wc_of_wcl ctx.ib.core.wc, wc_of_wcl ctx.base.core.wc,
      tm_length ctx.base.core.struct.wf_wi ctx.ia.core.struct.wf_wi ctx.ib.core.struct.wf_wi hst.wf_wi
        (mergeObj_cases ms.wordinfo ctx.sa.wordinfo ctx.sb.wordinfo)]
    omega
  · rw [ms.indexedCount, ctx.ia.core.ic, ctx.ib.core.ic, ctx.base.core.ic,
      tm_length ctx.base.core.wfD ctx.ia.core.wfD ctx.ib.core.wfD wfD
        (mergeObj_cases ms.docwords ctx.sa.docwords ctx.sb.docwords)]
  · intro hok
    rw [ms.totalDocLen, ctx.ia.core.tdl hok, ctx.ib.core.tdl hok, ctx.base.core.tdl hok]
    unfold sumW
    rw [tm_sum c.wtInt ctx.base.core.wfDw ctx.ia.core.wfDw ctx.ib.core.wfDw wfDw
      (mergeObj_cases ms.docweight ctx.sa.docweight ctx.sb.docweight)]

/-- **the merged heap represents the merged table**: the table that takes `b`'s rows on `b`'s
docids and `a`'s rows elsewhere – the table of the serial execution -/
theorem tmerged_inv (hf : FreqOK c) (ctx : TCtx c H T a b Ta Tb Da Db) (ms : MergedSpec H a b M)
    {Tab : TTable W} (hwf : AMap.WF Tab)
    (ht : ∀ d, AMap.get Tab d = if d ∈ Db then AMap.get Tb d else AMap.get Ta d) : TOInv c M Tab := by
  have hcore := tm_core hf ctx ms
  have htok : ∀ d, tokensOfT Tab d = if d ∈ Db then tokensOfT Tb d else tokensOfT Ta d := by
    intro d
    unfold tokensOfT
    rw [ht d]
    by_cases e : d ∈ Db
    · simp only [e, if_true]
    · simp only [e, if_false]
  -- the word ids of known tokens under the merged lexicon
  have hidsA : ∀ d toks, d ∉ Db → tokensOfT Ta d = some toks → idsOf M toks = idsOf a.heap toks ∧
      ∀ w ∈ toks, (AMap.get M.wids w).isSome := by
    intro d toks hd htk
    rcases tm_lex ctx ms with ⟨h, _⟩ | ⟨h, ha⟩
    · exact ⟨idsOf_of_is h toks, fun w hw => by rw [h.wids]; exact ctx.ia.known d toks htk w hw⟩
    · -- `a` left the lexicon alone: its tokens are known in the snapshot, `b` only added words
      have hk : ∀ w ∈ toks, (AMap.get H.wids w).isSome := by
        intro w hw; rw [← ha]; exact ctx.ia.known d toks htk w hw
      have e1 : idsOf b.heap toks = idsOf H toks := idsOf_of_grow ctx.fb.grow hk
      have e2 : idsOf a.heap toks = idsOf H toks := idsOf_congr ha toks
      refine ⟨by rw [idsOf_of_is h, e1, e2], fun w hw => ?_⟩
      rw [h.wids]
      cases e : AMap.get H.wids w with
      | none => have := hk w hw; rw [e] at this; simp at this
      | some i => rw [ctx.fb.grow w i e]; rfl
  have hidsB : ∀ d toks, tokensOfT Tb d = some toks → idsOf M toks = idsOf b.heap toks ∧
      ∀ w ∈ toks, (AMap.get M.wids w).isSome := by
    intro d toks htk
    rcases tm_lex ctx ms with ⟨h, hb⟩ | ⟨h, _⟩
    · have hk : ∀ w ∈ toks, (AMap.get H.wids w).isSome := by
        intro w hw; rw [← hb]; exact ctx.ib.known d toks htk w hw
      have e1 : idsOf a.heap toks = idsOf H toks := idsOf_of_grow ctx.fa.grow hk
      have e2 : idsOf b.heap toks = idsOf H toks := idsOf_congr hb toks
      refine ⟨by rw [idsOf_of_is h, e1, e2], fun w hw => ?_⟩
      rw [h.wids]
      cases e : AMap.get H.wids w with
      | none => have := hk w hw; rw [e] at this; simp at this
      | some i => rw [ctx.fa.grow w i e]; rfl
    · exact ⟨idsOf_of_is h toks, fun w hw => by rw [h.wids]; exact ctx.ib.known d toks htk w hw⟩
  refine ⟨hcore, hwf, ?_, ?_, ?_, ?_⟩
  · exact (mergeObj_set_spec ms.ni ctx.sa.ni ctx.sb.ni).2.1 ctx.ia.ndNi ctx.ib.ndNi
  · intro d
    rw [tm_docwords ctx ms d, htok d]
    by_cases e : d ∈ Db
    · rw [if_pos e, if_pos e, ctx.ib.docwords d]
      cases htk : tokensOfT Tb d with
      | none => rfl
      | some toks => simp only [Option.map_some]; rw [(hidsB d toks htk).1]
    · rw [if_neg e, if_neg e, ctx.ia.docwords d]
      cases htk : tokensOfT Ta d with
      | none => rfl
      | some toks => simp only [Option.map_some]; rw [(hidsA d toks e htk).1]
  · intro d toks htk w hw
    rw [htok d] at htk
    by_cases e : d ∈ Db
    · rw [if_pos e] at htk; exact (hidsB d toks htk).2 w hw
    · rw [if_neg e] at htk; exact (hidsA d toks e htk).2 w hw
  · intro d
    rw [tm_ni ctx ms d, ht d]
    split
    · exact ctx.ib.ni d
    · exact ctx.ia.ni d

end

end Hyp.CIdx
