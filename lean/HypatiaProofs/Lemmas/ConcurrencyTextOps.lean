import HypatiaProofs.Lemmas.ConcurrencyTextReach
import HypatiaProofs.Lemmas.ConcurrencyFieldRun

/-!
Every operation of the object-level text index (unchanged code: `addReassign = true`,
`massRootOnly = false`) is a sequence of valid primitive steps (`Reach`).
-/
set_option linter.unusedSectionVars false
set_option linter.unusedSimpArgs false
set_option linter.unusedVariables false
namespace Hyp.CIdx
open Hyp

variable {W Wt : Type} [DecidableEq W] [DecidableEq Wt]

/-- the configuration of the unchanged code -/
structure TCfg.Faithful (c : TCfg Wt) : Prop where
  re : c.addReassign = true
  mass : c.massRootOnly = false

section
variable {D : Int → Prop} {x : TTx W Wt}

/-! ### the lexicon -/

theorem reach_getWidCreate {y : TTx W Wt} (h : Reach D x y) (w : W) : Reach D x (TTx.getWidCreate y w).1 := by
  unfold TTx.getWidCreate
  simp only
  cases hg : AMap.get (y.rd (.wids w)).heap.wids w with
  | some i => exact h.rd _
  | none => exact Reach.newWord (h.rd _) w hg

theorem reach_sourceToWordIds : ∀ (ws : List W) {y : TTx W Wt}, Reach D x y →
    Reach D x (TTx.sourceToWordIds y ws).1
  | [], y, h => h
  | w :: ws, y, h => by
    unfold TTx.sourceToWordIds
    exact reach_sourceToWordIds ws (reach_getWidCreate h w)

/-! ### `_wordinfo` -/

theorem get_treePut_other (y : TTx W Wt) (o : Oid) (d : Int) (f : Wt) {d' : Int} (hne : d' ≠ d) :
    AMap.get ((y.treePut o d f).treeOf o) d' = AMap.get (y.treeOf o) d' := by
  unfold TTx.treePut
  split
  · rfl
  · simp only [TTx.nt, TTx.treeOf, AMap.get_set, if_true, Option.getD_some]
    rw [if_neg (fun e => hne e.symm)]

theorem treePut_wordinfo (y : TTx W Wt) (o : Oid) (d : Int) (f : Wt) :
    (y.treePut o d f).heap.wordinfo = y.heap.wordinfo := by
  unfold TTx.treePut; split <;> rfl

theorem reach_addExisting {c : TCfg Wt} {y : TTx W Wt} (h : Reach D x y) {wid : Nat} {f : Wt} {d : Int}
    (hd : D d) {v : PVal Wt} (hv : AMap.get y.heap.wordinfo wid = some v) :
    Reach D x (TTx.addExisting c true y wid f d v) := by
  unfold TTx.addExisting
  cases v with
  | dict m =>
    simp only
    split
    · -- conversion to an IFBTree
      refine Reach.step (.wiSet wid (.ref (y.alloc m).2)) ((h.alloc m).treePut _ hd f (Or.inr ⟨rfl, by simp [TTx.alloc, TTx.nt, AMap.get_set]⟩)) ⟨?_, ?_, ?_⟩
      rotate_left
      · intro o e; cases e
        refine Or.inr ⟨?_, ?_⟩
        · unfold TTx.treePut
          split
          · simp [TTx.alloc, TTx.nt, AMap.get_set]
          · simp [TTx.alloc, TTx.nt, AMap.get_set]
        · unfold TTx.treePut
          split <;> rfl
      · intro o e
        rw [treePut_wordinfo] at e
        have e' : AMap.get y.heap.wordinfo wid = some (.ref o) := e
        rw [hv] at e'; cases e'
      intro d' hd'
      have hne : d' ≠ d := fun e => hd' (e ▸ hd)
      have hp : (((y.alloc m).1.treePut (y.alloc m).2 d f).heap.posting wid) = m := by
        unfold THeap.posting
        rw [treePut_wordinfo]
        show (match AMap.get y.heap.wordinfo wid with | some (.dict m) => m | some (.ref o) => _ | none => _) = m
        rw [hv]
      rw [hp]
      show AMap.get (((y.alloc m).1.treePut (y.alloc m).2 d f).treeOf (y.alloc m).2) d' = _
      rw [get_treePut_other _ _ _ _ hne]
      simp [TTx.alloc, TTx.treeOf, TTx.nt, AMap.get_set]
    · exact Reach.step (.dictPutR wid m d f) h ⟨hv, hd⟩
  | ref o =>
    simp only
    refine Reach.step (.wiSet wid (.ref o)) (h.treePut o hd f (Or.inl ⟨wid, hv⟩)) ⟨?_, ?_, ?_⟩
    · intro d' _
      unfold THeap.posting pvalPosting
      rw [treePut_wordinfo, hv]
    · intro o' e; cases e
      exact Or.inl (by rw [treePut_wordinfo]; exact hv)
    · intro o' e
      rw [treePut_wordinfo, hv] at e; cases e; rfl

theorem reach_addWordinfo {c : TCfg Wt} (hc : c.Faithful) {y : TTx W Wt} (h : Reach D x y) (wid : Nat) (f : Wt)
    {d : Int} (hd : D d) : Reach D x (TTx.addWordinfo c y wid f d) := by
  unfold TTx.addWordinfo
  simp only
  cases hg : AMap.get (y.rd (.wi wid)).heap.wordinfo wid with
  | none =>
    simp only
    refine Reach.step (.wiSet wid (.dict [(d, f)])) ((h.rd _).wcChange 1) ⟨?_, (fun o e => by cases e),
      (fun o e => by
        have e' : AMap.get (y.rd (.wi wid)).heap.wordinfo wid = some (.ref o) := e
        rw [hg] at e'; cases e')⟩
    intro d' hd'
    have hne : d ≠ d' := fun e => hd' (e ▸ hd)
    have : ((y.rd (.wi wid)).wcChange 1).heap.posting wid = [] := by
      unfold THeap.posting
      show (match AMap.get (y.rd (.wi wid)).heap.wordinfo wid with | some (.dict m) => m | some (.ref o) => _ | none => _) = _
      rw [hg]
    rw [this]
    simp [pvalPosting, AMap.get_cons, hne]
  | some v =>
    simp only
    rw [hc.re]
    exact reach_addExisting (h.rd _) hd hg

theorem reach_massRound {c : TCfg Wt} (hc : c.Faithful) {d : Int} (hd : D d) {y : TTx W Wt} (h : Reach D x y)
    (wid : Nat) (f : Wt) : Reach D x (TTx.massRound c y d wid f).1 := by
  unfold TTx.massRound
  simp only
  cases hg : AMap.get (y.rd (.wi wid)).heap.wordinfo wid with
  | none =>
    simp only
    refine Reach.step (.wiSet wid (.dict [(d, f)])) (h.rd _) ⟨?_, (fun o e => by cases e),
      (fun o e => by rw [hg] at e; cases e)⟩
    intro d' hd'
    have hne : d ≠ d' := fun e => hd' (e ▸ hd)
    have : (y.rd (.wi wid)).heap.posting wid = [] := by
      unfold THeap.posting; rw [hg]
    rw [this]
    simp [pvalPosting, AMap.get_cons, hne]
  | some v =>
    simp only
    rw [hc.mass]
    exact reach_addExisting (h.rd _) hd hg

theorem reach_massLoop {c : TCfg Wt} (hc : c.Faithful) {d : Int} (hd : D d) :
    ∀ (l : AMap Nat Wt) {y : TTx W Wt}, Reach D x y → Reach D x (TTx.massLoop c y d l).1
  | [], y, h => h
  | (wid, f) :: rest, y, h => by
    unfold TTx.massLoop
    simp only
    exact reach_massLoop hc hd rest (reach_massRound hc hd h wid f)

theorem reach_massAdd {c : TCfg Wt} (hc : c.Faithful) {y : TTx W Wt} (h : Reach D x y) {d : Int} (hd : D d)
    (l : AMap Nat Wt) : Reach D x (TTx.massAdd c y d l) := by
  unfold TTx.massAdd
  simp only [hc.mass, Bool.false_eq_true, if_false]
  exact (reach_massLoop hc hd l h).wcChange _

theorem treeDel_wordinfo (y : TTx W Wt) (o : Oid) (d : Int) :
    (y.treeDel o d).heap.wordinfo = y.heap.wordinfo := rfl

theorem reach_delWordinfo {y : TTx W Wt} (h : Reach D x y) (wid : Nat) {d : Int} (hd : D d) :
    Reach D x (TTx.delWordinfo y wid d).1 := by
  unfold TTx.delWordinfo
  simp only
  cases hg : AMap.get (y.rd (.wi wid)).heap.wordinfo wid with
  | none => exact h.rd _
  | some v =>
    cases v with
    | dict m =>
      simp only
      split
      · exact h.rd _
      · split
        · exact Reach.step (.dictDelR wid m d) (h.rd _) ⟨hg, hd⟩
        · next hne =>
          have he : AMap.erase m d = [] := by
            by_cases e : AMap.erase m d = []
            · exact e
            · exact absurd e hne
          exact Reach.wcChange (Reach.step (.dictDelE wid m d) (h.rd _) ⟨hg, hd, he⟩) _
    | ref o =>
      simp only
      split
      · exact (h.rd _).rd _
      · have hr := (((h.rd (.wi wid)).rd (.tree o d)).treeDel o hd (Or.inl ⟨wid, hg⟩)).rd (.whole o)
        split
        · refine Reach.step (.wiSet wid (.ref o)) hr ⟨?_, (fun o' e => by cases e; exact Or.inl hg),
            (fun o' e => by
              have e' : AMap.get (y.rd (.wi wid)).heap.wordinfo wid = some (.ref o') := e
              rw [hg] at e'; cases e'; rfl)⟩
          intro d' _
          unfold THeap.posting pvalPosting
          show _ = (match AMap.get (y.rd (.wi wid)).heap.wordinfo wid with | some (.dict m) => m | some (.ref o) => _ | none => _).get d'
          rw [hg]
        · next hne =>
          refine Reach.wcChange (Reach.step (.wiErase wid) hr ⟨?_, ?_⟩) _
          rotate_left
          · intro o' e
            have e' : AMap.get (y.rd (.wi wid)).heap.wordinfo wid = some (.ref o') := e
            rw [hg] at e'; cases e'
            have he : ((((y.rd (.wi wid)).rd (.tree o d)).treeDel o d).rd (.whole o)).treeOf o = [] := by
              by_cases e : ((((y.rd (.wi wid)).rd (.tree o d)).treeDel o d).rd (.whole o)).treeOf o = []
              · exact e
              · exact absurd e hne
            have hsome : AMap.get ((((y.rd (.wi wid)).rd (.tree o d)).treeDel o d).rd (.whole o)).heap.tree o =
                some (AMap.erase ((y.rd (.wi wid)).rd (.tree o d) |>.treeOf o) d) := by
              simp [TTx.treeDel, TTx.rd, TTx.nt, AMap.get_set]
            rw [hsome]
            unfold TTx.treeOf at he
            rw [hsome] at he
            simpa using he
          intro d' _
          have he : ((((y.rd (.wi wid)).rd (.tree o d)).treeDel o d).rd (.whole o)).treeOf o = [] := by
            by_cases e : ((((y.rd (.wi wid)).rd (.tree o d)).treeDel o d).rd (.whole o)).treeOf o = []
            · exact e
            · exact absurd e hne
          unfold THeap.posting
          show (match AMap.get (y.rd (.wi wid)).heap.wordinfo wid with | some (.dict m) => m | some (.ref o) => _ | none => _).get d' = none
          rw [hg]
          show AMap.get (((((y.rd (.wi wid)).rd (.tree o d)).treeDel o d).rd (.whole o)).treeOf o) d' = none
          rw [he]; rfl

theorem reach_delAll {d : Int} (hd : D d) : ∀ (ws : List Nat) {y : TTx W Wt}, Reach D x y →
    Reach D x (TTx.delAll y d ws).1
  | [], y, h => h
  | w :: ws, y, h => by
    unfold TTx.delAll
    simp only
    split
    · exact reach_delAll hd ws (reach_delWordinfo h w hd)
    · exact reach_delWordinfo h w hd

theorem reach_addAll {c : TCfg Wt} (hc : c.Faithful) {d : Int} (hd : D d) (w2w : AMap Nat Wt) :
    ∀ (ws : List Nat) {y : TTx W Wt}, Reach D x y → Reach D x (TTx.addAll c y d w2w ws)
  | [], y, h => h
  | w :: ws, y, h => by
    unfold TTx.addAll
    split
    · exact reach_addAll hc hd w2w ws (reach_addWordinfo hc h w _ hd)
    · exact reach_addAll hc hd w2w ws h

/-! ### documents -/

theorem reach_reindexLoops {c : TCfg Wt} (hc : c.Faithful) {y : TTx W Wt} (h : Reach D x y) {d : Int} (hd : D d)
    (old new : AMap Nat Wt) : Reach D x (TTx.reindexLoops c y d old new).1 := by
  unfold TTx.reindexLoops
  simp only
  have h1 := reach_delAll hd
    ((TTx.sortedKeys (AMap.keys old)).filter
      (· ∉ (TTx.sortedKeys (AMap.keys old)).filter (· ∈ TTx.sortedKeys (AMap.keys new)))) h
  split
  · exact h1
  · exact reach_addAll hc hd _ _ (reach_addAll hc hd _ _ h1)

theorem reach_baseReindex {c : TCfg Wt} (hc : c.Faithful) {y : TTx W Wt} (h : Reach D x y) {d : Int} (hd : D d)
    (words : List W) : Reach D x (TTx.baseReindex c y d words).1 := by
  unfold TTx.baseReindex
  simp only
  cases hg : AMap.get (y.rd (.docwords d)).heap.docwords d with
  | none => exact h.rd _
  | some oldWids =>
    simp only
    have h1 := reach_reindexLoops hc (reach_sourceToWordIds words (h.rd (.docwords d))) hd
      (c.freq oldWids).1 (c.freq (TTx.sourceToWordIds (y.rd (.docwords d)) words).2).1
    split
    · exact h1
    · exact Reach.dwSet (Reach.dwtSet h1 hd _) hd _

theorem reach_baseIndex {c : TCfg Wt} (hc : c.Faithful) {y : TTx W Wt} (h : Reach D x y) {d : Int} (hd : D d)
    (words : List W) : Reach D x (TTx.baseIndex c y d words).1 := by
  unfold TTx.baseIndex
  simp only
  split
  · exact reach_baseReindex hc (h.rd _) hd words
  · exact Reach.icChange (Reach.dwSet (Reach.dwtSet
      (reach_massAdd hc (reach_sourceToWordIds words (h.rd _)) hd _) hd _) hd _) 1

theorem reach_reindexDoc {c : TCfg Wt} (hc : c.Faithful) {y : TTx W Wt} (h : Reach D x y) {d : Int} (hd : D d)
    (words : List W) : Reach D x (TTx.reindexDoc c y d words) := by
  unfold TTx.reindexDoc
  split
  · simp only
    cases AMap.get (y.rd (.docweight d)).heap.docweight d with
    | none => exact h.rd _
    | some f =>
      simp only
      have h1 := reach_baseReindex hc ((h.rd (.docweight d)).tdlChange (-(c.wtInt f))) hd words
      split
      · exact h1.tdlChange _
      · exact h1
  · exact reach_baseReindex hc h hd words

theorem reach_indexText {c : TCfg Wt} (hc : c.Faithful) {y : TTx W Wt} (h : Reach D x y) {d : Int} (hd : D d)
    (words : List W) : Reach D x (TTx.indexText c y d words) := by
  unfold TTx.indexText
  split
  · simp only
    split
    · exact reach_reindexDoc hc (h.rd _) hd words
    · have h1 := reach_baseIndex hc (h.rd (.docwords d)) hd words
      split
      · exact h1.tdlChange _
      · exact h1
  · exact reach_baseIndex hc h hd words

theorem reach_baseUnindex {y : TTx W Wt} (h : Reach D x y) {d : Int} (hd : D d) :
    Reach D x (TTx.baseUnindex y d) := by
  unfold TTx.baseUnindex
  simp only
  cases AMap.get (y.rd (.docwords d)).heap.docwords d with
  | none => exact h.rd _
  | some wids =>
    simp only
    have h1 := reach_delAll hd (TTx.sortedKeys wids) (h.rd (.docwords d))
    split
    · exact h1
    · exact Reach.icChange (Reach.dwtErase (Reach.dwErase h1 hd) hd) _

theorem reach_unindexText {c : TCfg Wt} {y : TTx W Wt} (h : Reach D x y) {d : Int} (hd : D d) :
    Reach D x (TTx.unindexText c y d) := by
  unfold TTx.unindexText
  split
  · simp only
    split
    · exact h.rd _
    · cases AMap.get ((y.rd (.docwords d)).rd (.docweight d)).heap.docweight d with
      | none => exact (h.rd _).rd _
      | some f => exact reach_baseUnindex (((h.rd _).rd _).tdlChange _) hd
  · exact reach_baseUnindex h hd

theorem reach_unindexDoc {c : TCfg Wt} {y : TTx W Wt} (h : Reach D x y) {d : Int} (hd : D d) :
    Reach D x (TTx.unindexDoc c y d) := by
  unfold TTx.unindexDoc
  simp only
  split
  · exact reach_unindexText ((h.rd _).niRemove hd) hd
  · exact reach_unindexText (h.rd _) hd

theorem reach_indexDoc {c : TCfg Wt} (hc : c.Faithful) {y : TTx W Wt} (h : Reach D x y) {d : Int} (hd : D d)
    (v : Option (List W)) : Reach D x (TTx.indexDoc c y d v) := by
  unfold TTx.indexDoc
  cases v with
  | none => exact (reach_unindexDoc h hd).niAdd hd
  | some words =>
    simp only
    split
    · exact reach_indexText hc ((h.rd _).niRemove hd) hd words
    · exact reach_indexText hc (h.rd _) hd words

theorem reach_step {c : TCfg Wt} (hc : c.Faithful) {y : TTx W Wt} (h : Reach D x y) (op : TOp (List W))
    (hd : D op.doc) : Reach D x (TTx.step c y op) := by
  cases op with
  | index d v => exact reach_indexDoc hc h hd v
  | unindex d => exact reach_unindexDoc h hd

end

/-- **every history of operations is a sequence of valid primitive steps** on its own docids -/
theorem reach_run {c : TCfg Wt} (hc : c.Faithful) (x : TTx W Wt) (ops : List (TOp (List W))) :
    Reach (· ∈ docsOf ops) x (TTx.run c x ops) := by
  suffices h : ∀ (D : Int → Prop) (ops : List (TOp (List W))) (y : TTx W Wt), (∀ d ∈ docsOf ops, D d) →
      Reach D x y → Reach D x (TTx.run c y ops) from h _ ops x (fun _ h => h) Reach.refl
  intro D ops
  induction ops with
  | nil => intro y _ h; exact h
  | cons op rest ih =>
    intro y hD h
    show Reach D x (TTx.run c (TTx.step c y op) rest)
    exact ih _ (fun d hd => hD d (List.mem_cons_of_mem _ hd))
      (reach_step hc h op (hD _ (by simp [docsOf])))

end Hyp.CIdx
